(* C07 — proofs: the model's subscriber storage refines the ledger Spec, the extendors
   invariant, and subscriptions() = the applicable ledger entries, with multiplicity, in order. *)
From Coq Require Import List Arith Bool Lia Sorting.Permutation Sorting.Sorted.
Import ListNotations.
From ZI Require Import Model.Ro Model.Adapter Spec.SubsSpec.

(* ================================================================== generic list facts *)
Lemma mem_In x l : mem x l = true <-> In x l.
Proof.
  induction l as [|y l IH]; cbn; [split; [discriminate|tauto]|].
  rewrite orb_true_iff, Nat.eqb_eq, IH. split; intros [H|H]; auto.
Qed.

Lemma mem_false x l : mem x l = false <-> ~ In x l.
Proof. rewrite <- mem_In. destruct (mem x l); split; congruence. Qed.

Lemma flat_map_nil {A B} (l : list A) : flat_map (fun _ => @nil B) l = [].
Proof. induction l; cbn; auto. Qed.

Lemma flat_map_map {A B C} (f : B -> list C) (g : A -> B) l :
  flat_map f (map g l) = flat_map (fun x => f (g x)) l.
Proof. induction l; cbn; congruence. Qed.

Lemma flat_map_flat_map {A B C} (f : B -> list C) (g : A -> list B) l :
  flat_map f (flat_map g l) = flat_map (fun x => flat_map f (g x)) l.
Proof. induction l; cbn; auto. rewrite flat_map_app. congruence. Qed.

Lemma map_flat_map {A B C} (f : B -> C) (g : A -> list B) l :
  map f (flat_map g l) = flat_map (fun x => map f (g x)) l.
Proof. induction l; cbn; auto. rewrite map_app. congruence. Qed.

Lemma flat_map_ext_in {A B} (f g : A -> list B) l :
  (forall x, In x l -> f x = g x) -> flat_map f l = flat_map g l.
Proof.
  induction l; cbn; intros H; auto. rewrite H by auto. rewrite IHl; auto.
Qed.

Lemma filter_ext_in' {A} (f g : A -> bool) l :
  (forall x, In x l -> f x = g x) -> filter f l = filter g l.
Proof.
  induction l; cbn; intros H; auto. rewrite H by auto. rewrite IHl; auto.
Qed.

Lemma filter_all {A} (f : A -> bool) l : (forall x, In x l -> f x = true) -> filter f l = l.
Proof.
  induction l; cbn; intros H; auto. rewrite H by auto. rewrite IHl; auto.
Qed.

Lemma filter_none {A} (f : A -> bool) l : (forall x, In x l -> f x = false) -> filter f l = [].
Proof.
  induction l; cbn; intros H; auto. rewrite H by auto. rewrite IHl; auto.
Qed.

Lemma filter_len_le {A} (f : A -> bool) l : length (filter f l) <= length l.
Proof. induction l as [|a l IH]; cbn; auto. destruct (f a); cbn; lia. Qed.

Lemma filter_length_eq {A} (f : A -> bool) l : length (filter f l) = length l -> filter f l = l.
Proof.
  induction l as [|a l IH]; cbn; auto. destruct (f a); cbn; intros H.
  - f_equal. apply IH. lia.
  - pose proof (filter_len_le f l). lia.
Qed.

Lemma filter_filter {A} (f g : A -> bool) l : filter f (filter g l) = filter (fun x => g x && f x) l.
Proof.
  induction l as [|a l IH]; cbn; auto. destruct (g a); cbn; [destruct (f a)|]; rewrite IH; auto.
Qed.

Lemma map_filter_snd {A B} (f : B -> bool) (l : list (A * B)) :
  map snd (filter (fun x => f (snd x)) l) = filter f (map snd l).
Proof. induction l as [|[a b] l IH]; cbn; auto. destruct (f b); cbn; congruence. Qed.

Lemma nil_or_not {A} (l : list A) : l = [] \/ l <> [].
Proof. destruct l; [left|right]; congruence. Qed.

(* Permutation of a filter by a disjunction of exclusive predicates *)
Lemma filter_or_perm {A} (f g : A -> bool) l :
  (forall x, In x l -> f x = true -> g x = false) ->
  Permutation (filter (fun x => f x || g x) l) (filter f l ++ filter g l).
Proof.
  induction l as [|a l IH]; cbn; intros H; auto.
  destruct (f a) eqn:Fa; cbn.
  - rewrite (H a) by auto. constructor. apply IH; auto.
  - destruct (g a); cbn; [|apply IH; auto].
    apply Permutation_cons_app. apply IH; auto.
Qed.

Lemma NoDup_app_intro {A} (l1 l2 : list A) :
  NoDup l1 -> NoDup l2 -> (forall x, In x l1 -> ~ In x l2) -> NoDup (l1 ++ l2).
Proof.
  induction 1 as [|a l1 Hn H1 IH]; cbn; intros H2 Hd; auto.
  constructor.
  - rewrite in_app_iff. intros [H|H]; [tauto|]. eapply Hd; [left; reflexivity|exact H].
  - apply IH; auto; intros x Hx; apply Hd; cbn; auto.
Qed.

(* injective two-argument product lists have no duplicates *)
Lemma NoDup_prod {A B C} (f : A -> B -> C) la lb :
  (forall a b a' b', f a b = f a' b' -> a = a' /\ b = b') ->
  NoDup la -> NoDup lb -> NoDup (flat_map (fun a => map (f a) lb) la).
Proof.
  intros Inj Ha Hb. induction Ha as [|a la Hn Ha IH]; cbn; [constructor|].
  apply NoDup_app_intro; auto.
  - clear -Inj Hb. induction Hb as [|b lb Hn Hb IH]; cbn; constructor; auto.
    rewrite in_map_iff. intros (b' & E & Hb'). apply Inj in E. destruct E as [_ ->]. auto.
  - intros c H1 H2. apply in_map_iff in H1. destruct H1 as (b & <- & _).
    apply in_flat_map in H2. destruct H2 as (a' & Ha' & H2). apply in_map_iff in H2.
    destruct H2 as (b' & E & _). apply Inj in E. destruct E as [-> _]. auto.
Qed.

(* ---- StronglySorted helpers *)
Lemma SS_app {A} (R : A -> A -> Prop) l1 l2 :
  StronglySorted R l1 -> StronglySorted R l2 ->
  (forall a b, In a l1 -> In b l2 -> R a b) -> StronglySorted R (l1 ++ l2).
Proof.
  induction 1 as [|a l1 H1 IH Fa]; cbn; intros H2 H; auto.
  constructor.
  - apply IH; auto; intros; apply H; cbn; auto.
  - apply Forall_app; split; auto; apply Forall_forall; intros b Hb; apply H; cbn; auto.
Qed.

Lemma SS_flat_map {A B} (R : B -> B -> Prop) (Q : A -> A -> Prop) (f : A -> list B) l :
  StronglySorted Q l ->
  (forall x, In x l -> StronglySorted R (f x)) ->
  (forall x y a b, Q x y -> In a (f x) -> In b (f y) -> R a b) ->
  StronglySorted R (flat_map f l).
Proof.
  induction 1 as [|x l Hl IH Fx]; cbn; intros Hin Hc; [constructor|].
  apply SS_app.
  - apply Hin. left; reflexivity.
  - apply IH; [|exact Hc]. intros y Hy. apply Hin. right; exact Hy.
  - intros a b Ha Hb. apply in_flat_map in Hb. destruct Hb as (y & Hy & Hb).
    rewrite Forall_forall in Fx. apply (Hc x y a b); auto.
Qed.

Lemma SS_map {A B} (R : B -> B -> Prop) (Q : A -> A -> Prop) (f : A -> B) l :
  StronglySorted Q l -> (forall x y, Q x y -> R (f x) (f y)) -> StronglySorted R (map f l).
Proof.
  induction 1 as [|x l Hl IH Fx]; cbn; intros H; constructor; auto.
  rewrite Forall_forall in *. intros b Hb. apply in_map_iff in Hb. destruct Hb as (y & <- & Hy). auto.
Qed.

Lemma SS_filter {A} (R : A -> A -> Prop) (f : A -> bool) l :
  StronglySorted R l -> StronglySorted R (filter f l).
Proof.
  induction 1 as [|x l Hl IH Fx]; cbn; [constructor|]. destruct (f x); auto.
  constructor; auto. rewrite Forall_forall in *. intros y Hy. apply filter_In in Hy. apply Fx, Hy.
Qed.

Lemma SS_weaken {A} (R R' : A -> A -> Prop) l :
  StronglySorted R l -> (forall a b, In a l -> In b l -> R a b -> R' a b) -> StronglySorted R' l.
Proof.
  induction 1 as [|x l Hl IH Fx]; intros H; constructor.
  - apply IH. intros; apply H; cbn; auto.
  - rewrite Forall_forall in *. intros y Hy. apply H; cbn; auto.
Qed.

Lemma NoDup_SS_neq {A} (l : list A) : NoDup l -> StronglySorted (fun a b => a <> b) l.
Proof.
  induction 1 as [|x l Hn Hl IH]; constructor; auto.
  apply Forall_forall. intros y Hy ->. auto.
Qed.

(* ================================================================== association lists *)
Section AssocFacts.
  Context {K V : Type} (eqb : K -> K -> bool).
  Hypothesis eqb_eq : forall a b, eqb a b = true <-> a = b.

  Lemma eqb_refl' a : eqb a a = true.
  Proof. apply eqb_eq; auto. Qed.

  Lemma eqb_sym' a b : eqb a b = eqb b a.
  Proof.
    destruct (eqb a b) eqn:E1, (eqb b a) eqn:E2; auto.
    - apply eqb_eq in E1. subst. rewrite eqb_refl' in E2. discriminate.
    - apply eqb_eq in E2. subst. rewrite eqb_refl' in E1. discriminate.
  Qed.

  Lemma aget_aset (m : list (K * V)) k v k' :
    aget eqb (aset eqb m k v) k' = if eqb k' k then Some v else aget eqb m k'.
  Proof.
    induction m as [|[k0 v0] m IH]; cbn; auto.
    destruct (eqb k k0) eqn:E; cbn.
    - apply eqb_eq in E. subst k0. destruct (eqb k' k); auto.
    - rewrite IH. destruct (eqb k' k0) eqn:E0; auto.
      apply eqb_eq in E0. subst k0. rewrite eqb_sym', E. auto.
  Qed.

  Lemma aget_notin (m : list (K * V)) k : ~ In k (map fst m) -> aget eqb m k = None.
  Proof.
    induction m as [|[k0 v0] m IH]; cbn; auto. intros H.
    destruct (eqb k k0) eqn:E; [apply eqb_eq in E; subst; tauto|]. apply IH. tauto.
  Qed.

  Lemma aget_In (m : list (K * V)) k v : aget eqb m k = Some v -> In (k, v) m.
  Proof.
    induction m as [|[k0 v0] m IH]; cbn; [discriminate|].
    destruct (eqb k k0) eqn:E; [apply eqb_eq in E; subst; intros [= ->]; auto|]. auto.
  Qed.

  Lemma In_aget (m : list (K * V)) k v : NoDup (map fst m) -> In (k, v) m -> aget eqb m k = Some v.
  Proof.
    induction m as [|[k0 v0] m IH]; cbn; [tauto|]. intros Hn [H|H].
    - inversion H; subst. rewrite eqb_refl'. auto.
    - inversion Hn; subst. destruct (eqb k k0) eqn:E; auto.
      apply eqb_eq in E. subst. exfalso. apply H2. apply in_map_iff. exists (k0, v). auto.
  Qed.

  Lemma aget_adel (m : list (K * V)) k k' : NoDup (map fst m) ->
    aget eqb (adel eqb m k) k' = if eqb k' k then None else aget eqb m k'.
  Proof.
    induction m as [|[k0 v0] m IH]; cbn; intros Hn; [destruct (eqb k' k); auto|].
    inversion Hn; subst.
    destruct (eqb k k0) eqn:E; cbn.
    - apply eqb_eq in E. subst k0. destruct (eqb k' k) eqn:E'; auto.
      apply eqb_eq in E'. subst. apply aget_notin; auto.
    - rewrite IH by auto. destruct (eqb k' k0) eqn:E0; auto.
      apply eqb_eq in E0. subst k0. rewrite eqb_sym', E. auto.
  Qed.

  Lemma keys_aset (m : list (K * V)) k v :
    map fst (aset eqb m k v) = match aget eqb m k with Some _ => map fst m | None => map fst m ++ [k] end.
  Proof.
    induction m as [|[k0 v0] m IH]; cbn; auto.
    destruct (eqb k k0) eqn:E; cbn; auto. rewrite IH. destruct (aget eqb m k); auto.
  Qed.

  Lemma aget_Some_in_keys (m : list (K * V)) k v : aget eqb m k = Some v -> In k (map fst m).
  Proof. intros H. apply aget_In in H. apply in_map_iff. exists (k, v); auto. Qed.

  Lemma NoDup_aset (m : list (K * V)) k v : NoDup (map fst m) -> NoDup (map fst (aset eqb m k v)).
  Proof.
    intros Hn. rewrite keys_aset. destruct (aget eqb m k) eqn:E; auto.
    apply NoDup_app_intro; auto.
    - constructor; [intros []|constructor].
    - intros x Hk [<-|[]]. apply in_map_iff in Hk. destruct Hk as ([k1 v1] & <- & Hk). cbn in E.
      rewrite (In_aget _ _ _ Hn Hk) in E. discriminate.
  Qed.

  Lemma keys_adel_incl (m : list (K * V)) k x : In x (map fst (adel eqb m k)) -> In x (map fst m).
  Proof.
    induction m as [|[k0 v0] m IH]; cbn; auto. destruct (eqb k k0); cbn; tauto.
  Qed.

  Lemma NoDup_adel (m : list (K * V)) k : NoDup (map fst m) -> NoDup (map fst (adel eqb m k)).
  Proof.
    induction m as [|[k0 v0] m IH]; cbn; auto. intros Hn. inversion Hn; subst.
    destruct (eqb k k0); cbn; auto. constructor; auto. intros H. apply keys_adel_incl in H. auto.
  Qed.

  (* counting keys satisfying a predicate *)
  Lemma kcount_adel (f : K -> bool) (m : list (K * V)) k v : aget eqb m k = Some v ->
    length (filter f (map fst m)) = length (filter f (map fst (adel eqb m k))) + (if f k then 1 else 0).
  Proof.
    induction m as [|[k0 v0] m IH]; cbn; [discriminate|].
    destruct (eqb k k0) eqn:E.
    - apply eqb_eq in E. subst k0. intros _. destruct (f k); cbn; lia.
    - intros H. cbn. destruct (f k0); cbn; rewrite (IH H); lia.
  Qed.
End AssocFacts.

Lemma kcount_app {K} (f : K -> bool) l k :
  length (filter f (l ++ [k])) = length (filter f l) + (if f k then 1 else 0).
Proof. rewrite filter_app, app_length. cbn. destruct (f k); auto. Qed.

(* ================================================================== key equalities *)
Lemma lspec_eqb_eq a b : lspec_eqb a b = true <-> a = b.
Proof.
  unfold lspec_eqb. revert b. induction a as [|x a IH]; intros [|y b]; try (split; congruence).
  rewrite andb_true_iff, Nat.eqb_eq, IH. split; [intros [-> ->]; auto | intros E; inversion E; auto].
Qed.

Lemma ospec_eqb_eq a b : ospec_eqb a b = true <-> a = b.
Proof.
  destruct a, b; cbn; try (split; congruence). rewrite Nat.eqb_eq. split; congruence.
Qed.

Lemma skey_eqb_eq (a b : skey) : skey_eqb a b = true <-> a = b.
Proof.
  destruct a as [r1 p1], b as [r2 p2]. unfold skey_eqb; cbn.
  rewrite andb_true_iff, lspec_eqb_eq, ospec_eqb_eq. split; [intros [-> ->]; auto | intros E; inversion E; auto].
Qed.

Lemma akey_eqb_eq (a b : akey) : akey_eqb a b = true <-> a = b.
Proof.
  destruct a as [[r1 p1] n1], b as [[r2 p2] n2]. unfold akey_eqb.
  rewrite !andb_true_iff, lspec_eqb_eq, !Nat.eqb_eq.
  split; [intros [[-> ->] ->]; auto | intros E; inversion E; auto].
Qed.

Lemma skey_eqb_refl k : skey_eqb k k = true.
Proof. apply skey_eqb_eq; auto. Qed.

Lemma skey_eqb_sym a b : skey_eqb a b = skey_eqb b a.
Proof. apply (eqb_sym' skey_eqb skey_eqb_eq). Qed.

(* ================================================================== counts and extendors *)
Definition wf_world (W : world) : Prop := forall x, NoDup (w_sro W x).

Lemma iro_NoDup W x : wf_world W -> NoDup (iro W x).
Proof. intros H. apply NoDup_filter, H. Qed.

Lemma cnt_get_aset c p n q : cnt_get (aset Nat.eqb c p n) q = if Nat.eqb q p then n else cnt_get c q.
Proof. unfold cnt_get. rewrite (aget_aset Nat.eqb Nat.eqb_eq). destruct (Nat.eqb q p); auto. Qed.

Lemma cnt_get_adel c p q : NoDup (map fst c) ->
  cnt_get (adel Nat.eqb c p) q = if Nat.eqb q p then 0 else cnt_get c q.
Proof. intros H. unfold cnt_get. rewrite (aget_adel Nat.eqb Nat.eqb_eq) by auto. destruct (Nat.eqb q p); auto. Qed.

Lemma ext_get_aset e i v j : ext_get (aset Nat.eqb e i v) j = if Nat.eqb j i then v else ext_get e j.
Proof. unfold ext_get. rewrite (aget_aset Nat.eqb Nat.eqb_eq). destruct (Nat.eqb j i); auto. Qed.

Lemma ext_fold (g : list spec -> list spec) l e j : NoDup l ->
  ext_get (fold_left (fun e i => aset Nat.eqb e i (g (ext_get e i))) l e) j
  = if mem j l then g (ext_get e j) else ext_get e j.
Proof.
  intros Hn. revert e. induction Hn as [|a l Ha Hn IH]; intros e; cbn; auto.
  rewrite IH, ext_get_aset. destruct (Nat.eqb_spec j a) as [->|Hne]; cbn.
  - apply mem_false in Ha. rewrite Ha. auto.
  - auto.
Qed.

Definition ext_ins (W : world) (p : spec) (old : list spec) : list spec :=
  filter (fun x => isOrExtends W p x) old ++ [p] ++ filter (fun x => negb (isOrExtends W p x)) old.

Lemma add_extendor_get W e p j : wf_world W ->
  ext_get (add_extendor W e p) j = if mem j (iro W p) then ext_ins W p (ext_get e j) else ext_get e j.
Proof. intros H. unfold add_extendor. apply (ext_fold (ext_ins W p)). apply iro_NoDup; auto. Qed.

Lemma remove_extendor_get W e p j : wf_world W ->
  ext_get (remove_extendor W e p) j
  = if mem j (iro W p) then filter (fun x => negb (Nat.eqb x p)) (ext_get e j) else ext_get e j.
Proof.
  intros H. unfold remove_extendor.
  apply (ext_fold (fun old => filter (fun x => negb (Nat.eqb x p)) old)). apply iro_NoDup; auto.
Qed.

Lemma filter_split_perm {A} (f : A -> bool) l :
  Permutation (filter f l ++ filter (fun x => negb (f x)) l) l.
Proof.
  induction l as [|a l IH]; cbn; auto. destruct (f a); cbn.
  - constructor; auto.
  - apply Permutation_sym, Permutation_cons_app, Permutation_sym; auto.
Qed.

Lemma ext_ins_perm W p old : Permutation (ext_ins W p old) (p :: old).
Proof.
  unfold ext_ins. cbn. apply Permutation_sym, Permutation_cons_app, Permutation_sym, filter_split_perm.
Qed.

(* the bookkeeping part of the invariant: counts [c] and extendors [e] *)
Definition ExtOK (W : world) (c : list (spec * nat)) (e : list (spec * list spec)) : Prop :=
  NoDup (map fst c)
  /\ (forall i, NoDup (ext_get e i))
  /\ (forall i q, In q (ext_get e i) <-> (0 < cnt_get c q /\ In i (iro W q))).

Definition incr_cnt (c : list (spec * nat)) (p : spec) := aset Nat.eqb c p (S (cnt_get c p)).
Definition incr_ext (W : world) (c : list (spec * nat)) (e : list (spec * list spec)) (p : spec) :=
  if Nat.eqb (S (cnt_get c p)) 1 then add_extendor W e p else e.

Lemma incr_cnt_get c p q : cnt_get (incr_cnt c p) q = if Nat.eqb q p then S (cnt_get c p) else cnt_get c q.
Proof. apply cnt_get_aset. Qed.

Lemma incr_ok W c e p : wf_world W -> ExtOK W c e -> ExtOK W (incr_cnt c p) (incr_ext W c e p).
Proof.
  intros HW (Hc & Hn & Hi). split; [|split].
  - apply (NoDup_aset Nat.eqb Nat.eqb_eq); auto.
  - intros i. unfold incr_ext. destruct (Nat.eqb_spec (S (cnt_get c p)) 1) as [E|E]; auto.
    rewrite add_extendor_get by auto. destruct (mem i (iro W p)); auto.
    apply (Permutation_NoDup (Permutation_sym (ext_ins_perm W p _))).
    constructor; auto. rewrite Hi. lia.
  - intros i q. rewrite incr_cnt_get. unfold incr_ext.
    destruct (Nat.eqb_spec (S (cnt_get c p)) 1) as [E|E].
    + rewrite add_extendor_get by auto. destruct (mem i (iro W p)) eqn:M.
      * apply mem_In in M.
        split.
        -- intros H. apply (Permutation_in _ (ext_ins_perm W p _)) in H. destruct H as [<-|H].
           ++ rewrite Nat.eqb_refl. split; auto; lia.
           ++ apply Hi in H. destruct (Nat.eqb_spec q p); [subst; lia|auto].
        -- intros [H1 H2]. apply (Permutation_in _ (Permutation_sym (ext_ins_perm W p _))).
           destruct (Nat.eqb_spec q p) as [->|Hne]; [left; auto|right; apply Hi; auto].
      * apply mem_false in M. rewrite Hi. destruct (Nat.eqb_spec q p) as [->|Hne]; [|tauto].
        split; [lia|tauto].
    + rewrite Hi. destruct (Nat.eqb_spec q p) as [->|Hne]; [|tauto]. split; intros [H1 H2]; split; auto; lia.
Qed.

Definition decr_cnt (c : list (spec * nat)) (p : spec) (k : nat) :=
  if Nat.eqb (cnt_get c p - k) 0 then adel Nat.eqb c p else aset Nat.eqb c p (cnt_get c p - k).
Definition decr_ext (W : world) (c : list (spec * nat)) (e : list (spec * list spec)) (p : spec) (k : nat) :=
  if Nat.eqb (cnt_get c p - k) 0 then remove_extendor W e p else e.

Lemma decr_cnt_get c p k q : NoDup (map fst c) ->
  cnt_get (decr_cnt c p k) q = if Nat.eqb q p then cnt_get c p - k else cnt_get c q.
Proof.
  intros H. unfold decr_cnt. destruct (Nat.eqb_spec (cnt_get c p - k) 0) as [E|E].
  - rewrite cnt_get_adel by auto. rewrite E. auto.
  - apply cnt_get_aset.
Qed.

Lemma decr_ok W c e p k : wf_world W -> ExtOK W c e -> ExtOK W (decr_cnt c p k) (decr_ext W c e p k).
Proof.
  intros HW (Hc & Hn & Hi). split; [|split].
  - unfold decr_cnt. destruct (Nat.eqb (cnt_get c p - k) 0).
    + apply (NoDup_adel Nat.eqb); auto.
    + apply (NoDup_aset Nat.eqb Nat.eqb_eq); auto.
  - intros i. unfold decr_ext. destruct (Nat.eqb (cnt_get c p - k) 0); auto.
    rewrite remove_extendor_get by auto. destruct (mem i (iro W p)); auto. apply NoDup_filter; auto.
  - intros i q. rewrite decr_cnt_get by auto. unfold decr_ext.
    destruct (Nat.eqb_spec (cnt_get c p - k) 0) as [E|E].
    + rewrite remove_extendor_get by auto. destruct (mem i (iro W p)) eqn:M.
      * rewrite filter_In, Hi, negb_true_iff, Nat.eqb_neq.
        destruct (Nat.eqb_spec q p) as [->|Hne]; [lia|tauto].
      * apply mem_false in M. rewrite Hi. destruct (Nat.eqb_spec q p) as [->|Hne]; [|tauto].
        split; [tauto|lia].
    + rewrite Hi. destruct (Nat.eqb_spec q p) as [->|Hne]; [|tauto]. split; intros [H1 H2]; split; auto; lia.
Qed.

Lemma provide_incr_fields W r p :
  adapters (provide_incr W r p) = adapters r /\ subscribers (provide_incr W r p) = subscribers r
  /\ provided_cnt (provide_incr W r p) = incr_cnt (provided_cnt r) p
  /\ extendors (provide_incr W r p) = incr_ext W (provided_cnt r) (extendors r) p.
Proof. repeat split. Qed.

Lemma provide_decr_fields W r p k :
  adapters (provide_decr W r p k) = adapters r /\ subscribers (provide_decr W r p k) = subscribers r
  /\ provided_cnt (provide_decr W r p k) = decr_cnt (provided_cnt r) p k
  /\ extendors (provide_decr W r p k) = decr_ext W (provided_cnt r) (extendors r) p k.
Proof.
  unfold provide_decr, decr_cnt, decr_ext. destruct (Nat.eqb (cnt_get (provided_cnt r) p - k) 0); repeat split.
Qed.

(* ================================================================== ledger facts *)
Lemma lvals_app L k v k' : lvals (L ++ [(k, v)]) k' = lvals L k' ++ (if skey_eqb k k' then [v] else []).
Proof.
  unfold lvals. rewrite filter_app, map_app. cbn. destruct (skey_eqb k k'); auto.
Qed.

Definition unsub_new (old : list value) (ov : option value) : list value :=
  match ov with None => [] | Some v' => filter (fun x => negb (v_eq x v')) old end.

Definition keeps (k : skey) (ov : option value) (e : entry) : bool := negb (removes k ov e).

Lemma removes_key k ov e : removes k ov e = true -> fst e = k.
Proof. unfold removes. rewrite andb_true_iff. intros [H _]. apply skey_eqb_eq; auto. Qed.

Lemma lvals_unsub L k ov k' :
  lvals (filter (keeps k ov) L) k' = if skey_eqb k' k then unsub_new (lvals L k) ov else lvals L k'.
Proof.
  unfold lvals. rewrite filter_filter. destruct (skey_eqb k' k) eqn:E.
  - apply skey_eqb_eq in E. subst k'. destruct ov as [v|]; cbn [unsub_new].
    + rewrite <- map_filter_snd. rewrite filter_filter. f_equal. apply filter_ext.
      intros e. unfold keeps, removes. destruct (skey_eqb (fst e) k), (v_eq (snd e) v); auto.
    + rewrite filter_none; auto. intros e _. unfold keeps, removes. destruct (skey_eqb (fst e) k); auto.
  - f_equal. apply filter_ext. intros e. unfold keeps, removes.
    destruct (skey_eqb (fst e) k') eqn:E1; [|apply andb_false_r].
    apply skey_eqb_eq in E1. rewrite E1. rewrite E. auto.
Qed.

Lemma In_lvals (L : ledger) e k : In e L -> skey_eqb (fst e) k = true -> In (snd e) (lvals L k).
Proof. intros H1 H2. unfold lvals. apply in_map. apply filter_In; auto. Qed.

Lemma lcount_app L k v q :
  lcount (L ++ [(k, v)]) q = lcount L q + (if ospec_eqb (snd k) (Some q) then 1 else 0).
Proof. unfold lcount. rewrite filter_app, app_length. cbn. destruct (ospec_eqb (snd k) (Some q)); auto. Qed.

(* how many entries a filter drops, seen through another predicate *)
Lemma count_split_in {A} (f g : A -> bool) l : (forall x, g x = true -> f x = true) ->
  length (filter f l) = length (filter f (filter (fun x => negb (g x)) l)) + length (filter g l).
Proof.
  intros H. induction l as [|a l IH]; cbn; auto.
  destruct (g a) eqn:G; cbn.
  - rewrite (H a G). cbn. lia.
  - destruct (f a); cbn; lia.
Qed.

Lemma count_split_out {A} (f g : A -> bool) l : (forall x, g x = true -> f x = false) ->
  length (filter f (filter (fun x => negb (g x)) l)) = length (filter f l).
Proof.
  intros H. induction l as [|a l IH]; cbn; auto.
  destruct (g a) eqn:G; cbn.
  - rewrite (H a G). auto.
  - destruct (f a); cbn; lia.
Qed.

Lemma unsub_len_leaf L k ov :
  length (lvals L k) = length (lvals (filter (keeps k ov) L) k) + length (filter (removes k ov) L).
Proof.
  unfold lvals. rewrite !map_length. apply (count_split_in (fun e => skey_eqb (fst e) k) (removes k ov)).
  intros [k0 v0] H. apply removes_key in H. cbn in H. subst k0. cbn. apply skey_eqb_refl.
Qed.

Lemma unsub_lcount_same L k ov p : snd k = Some p ->
  lcount L p = lcount (filter (keeps k ov) L) p + length (filter (removes k ov) L).
Proof.
  intros Hk. unfold lcount. apply (count_split_in (fun e => ospec_eqb (snd (fst e)) (Some p)) (removes k ov)).
  intros [k0 v0] H. apply removes_key in H. cbn in H. subst k0. cbn. rewrite Hk. apply ospec_eqb_eq; auto.
Qed.

Lemma unsub_lcount_other L k ov q : snd k <> Some q ->
  lcount (filter (keeps k ov) L) q = lcount L q.
Proof.
  intros Hk. unfold lcount. apply (count_split_out (fun e => ospec_eqb (snd (fst e)) (Some q)) (removes k ov)).
  intros [k0 v0] H. apply removes_key in H. cbn in H. subst k0. cbn. destruct (ospec_eqb (snd k) (Some q)) eqn:E; auto.
  apply ospec_eqb_eq in E. contradiction.
Qed.

(* ================================================================== leaves of the model *)
Definition leaf (m : list (skey * list value)) (k : skey) : list value :=
  match aget skey_eqb m k with Some l => l | None => [] end.

Lemma sub_leaf_leaf r k : sub_leaf r k = leaf (subscribers r) k.
Proof. reflexivity. Qed.

Lemma leaf_aset m k l k' : leaf (aset skey_eqb m k l) k' = if skey_eqb k' k then l else leaf m k'.
Proof. unfold leaf. rewrite (aget_aset skey_eqb skey_eqb_eq). destruct (skey_eqb k' k); auto. Qed.

Lemma leaf_adel m k k' : NoDup (map fst m) ->
  leaf (adel skey_eqb m k) k' = if skey_eqb k' k then [] else leaf m k'.
Proof. intros H. unfold leaf. rewrite (aget_adel skey_eqb skey_eqb_eq) by auto. destruct (skey_eqb k' k); auto. Qed.

(* ================================================================== the refinement invariant *)
Record Inv (W : world) (r : reg) (L : ledger) : Prop := mkInv {
  inv_leaf : forall k, sub_leaf r k = lvals L k;
  inv_nonempty : forall k l, aget skey_eqb (subscribers r) k = Some l -> l <> [];
  inv_subs_nodup : NoDup (map fst (subscribers r));
  inv_cnt : forall p, acount r p + lcount L p <= cnt_get (provided_cnt r) p;
  inv_ext : ExtOK W (provided_cnt r) (extendors r)
}.

Lemma inv_empty W : Inv W empty_reg [].
Proof.
  constructor; cbn; auto.
  - intros k l H; discriminate.
  - constructor.
  - split; [constructor|split]; cbn.
    + intros; constructor.
    + intros i q. split; [tauto|]. intros [H _]. inversion H.
Qed.

Lemma changed_fields x :
  adapters (changed x) = adapters x /\ subscribers (changed x) = subscribers x
  /\ provided_cnt (changed x) = provided_cnt x /\ extendors (changed x) = extendors x.
Proof. repeat split. Qed.

(* ---- subscribe *)
Lemma subscribe_fields W r req p v :
  adapters (subscribe W r req p v) = adapters r
  /\ subscribers (subscribe W r req p v)
     = aset skey_eqb (subscribers r) (map conv req, p) (sub_leaf r (map conv req, p) ++ [v])
  /\ provided_cnt (subscribe W r req p v)
     = match p with Some p' => incr_cnt (provided_cnt r) p' | None => provided_cnt r end
  /\ extendors (subscribe W r req p v)
     = match p with Some p' => incr_ext W (provided_cnt r) (extendors r) p' | None => extendors r end.
Proof. destruct p; repeat split. Qed.

Lemma acount_eq r r' p : adapters r' = adapters r -> acount r' p = acount r p.
Proof. unfold acount. intros ->. auto. Qed.

Lemma subscribe_inv W r L req p v : wf_world W -> Inv W r L ->
  Inv W (subscribe W r req p v) (L ++ [((map conv req, p), v)]).
Proof.
  intros HW [I1 I2 I3 I4 I5].
  destruct (subscribe_fields W r req p v) as (Fa & Fs & Fc & Fe).
  set (k := (map conv req, p)) in *.
  constructor.
  - intros k'. rewrite sub_leaf_leaf, Fs, leaf_aset, lvals_app, <- I1, (skey_eqb_sym k k').
    destruct (skey_eqb k' k) eqn:E.
    + apply skey_eqb_eq in E. subst k'. reflexivity.
    + rewrite app_nil_r. reflexivity.
  - intros k' l. rewrite Fs, (aget_aset skey_eqb skey_eqb_eq).
    destruct (skey_eqb k' k); [|apply I2]. intros [= <-]. destruct (sub_leaf r k); discriminate.
  - rewrite Fs. apply (NoDup_aset skey_eqb skey_eqb_eq); auto.
  - intros q. rewrite (acount_eq _ _ _ Fa), lcount_app, Fc. specialize (I4 q).
    destruct p as [p'|]; cbn [snd k ospec_eqb].
    + rewrite incr_cnt_get. rewrite (Nat.eqb_sym p' q). destruct (Nat.eqb_spec q p'); subst; lia.
    + lia.
  - rewrite Fc, Fe. destruct p; auto. apply incr_ok; auto.
Qed.

(* ---- unsubscribe *)
Lemma unsubscribe_cases W r req p ov :
  let k := (map conv req, p) in
  let old := sub_leaf r k in
  let new := unsub_new old ov in
  (length new = length old /\ unsubscribe W r req p ov = r)
  \/ (length new <> length old
      /\ adapters (unsubscribe W r req p ov) = adapters r
      /\ subscribers (unsubscribe W r req p ov)
         = match new with [] => adel skey_eqb (subscribers r) k | _ => aset skey_eqb (subscribers r) k new end
      /\ provided_cnt (unsubscribe W r req p ov)
         = match p with Some p' => decr_cnt (provided_cnt r) p' (length old - length new)
                      | None => provided_cnt r end
      /\ extendors (unsubscribe W r req p ov)
         = match p with Some p' => decr_ext W (provided_cnt r) (extendors r) p' (length old - length new)
                      | None => extendors r end).
Proof.
  cbv zeta. unfold unsubscribe. cbv zeta.
  destruct (sub_leaf r (map conv req, p)) as [|x old] eqn:E.
  - left. split; auto. destruct ov; reflexivity.
  - fold (unsub_new (x :: old) ov). set (new := unsub_new (x :: old) ov).
    destruct (Nat.eqb_spec (length new) (length (x :: old))) as [H|H]; [left; auto|right].
    split; auto.
    destruct p as [p'|].
    + match goal with |- context [provide_decr W ?r1 p' ?d] =>
        destruct (provide_decr_fields W r1 p' d) as (A & B & C & D) end.
      cbn [adapters subscribers provided_cnt extendors changed] in *.
      rewrite A, B, C, D. repeat split.
    + repeat split.
Qed.

Lemma unsubscribe_inv W r L req p ov : wf_world W -> Inv W r L ->
  Inv W (unsubscribe W r req p ov) (filter (keeps (map conv req, p) ov) L).
Proof.
  intros HW I. pose proof I as [I1 I2 I3 I4 I5].
  destruct (unsubscribe_cases W r req p ov) as [[Hlen Heq]|(Hlen & Fa & Fs & Fc & Fe)];
    set (k := (map conv req, p)) in *; rewrite (I1 k) in *.
  - (* nothing removed *)
    rewrite Heq. rewrite filter_all; auto.
    intros e He. unfold keeps. destruct (removes k ov e) eqn:R; auto. exfalso.
    pose proof (removes_key _ _ _ R) as Hk.
    assert (Hin : In (snd e) (lvals L k)).
    { apply In_lvals; auto. rewrite Hk. apply skey_eqb_refl. }
    destruct ov as [v|]; cbn [unsub_new] in Hlen.
    + apply filter_length_eq in Hlen. rewrite <- Hlen in Hin. apply filter_In in Hin.
      destruct Hin as [_ Hin]. unfold removes in R. rewrite andb_true_iff in R. destruct R as [_ R].
      rewrite R in Hin. discriminate.
    + destruct (lvals L k); [destruct Hin|discriminate].
  - set (new := unsub_new (lvals L k) ov) in *.
    assert (Hleaf : forall k', leaf (subscribers (unsubscribe W r req p ov)) k'
                               = if skey_eqb k' k then new else leaf (subscribers r) k').
    { intros k'. rewrite Fs. destruct new eqn:En.
      - apply leaf_adel; auto.
      - apply leaf_aset. }
    constructor.
    + intros k'. rewrite sub_leaf_leaf, Hleaf, lvals_unsub. fold new.
      destruct (skey_eqb k' k); auto. rewrite <- I1. reflexivity.
    + intros k' l. rewrite Fs. destruct new eqn:En.
      * rewrite (aget_adel skey_eqb skey_eqb_eq) by auto. destruct (skey_eqb k' k); [discriminate|apply I2].
      * rewrite (aget_aset skey_eqb skey_eqb_eq). destruct (skey_eqb k' k); [|apply I2].
        intros [= <-]. discriminate.
    + rewrite Fs. destruct new.
      * apply (NoDup_adel skey_eqb); auto.
      * apply (NoDup_aset skey_eqb skey_eqb_eq); auto.
    + intros q. rewrite (acount_eq _ _ _ Fa), Fc. specialize (I4 q).
      destruct p as [p'|].
      * destruct I5 as (Hc & _).
        rewrite decr_cnt_get by auto.
        pose proof (unsub_len_leaf L k ov) as H1. rewrite (lvals_unsub L k ov k), skey_eqb_refl in H1.
        fold new in H1.
        destruct (Nat.eqb_spec q p') as [->|Hne].
        -- pose proof (unsub_lcount_same L k ov p' eq_refl) as H2. lia.
        -- rewrite unsub_lcount_other; auto. cbn. congruence.
      * rewrite unsub_lcount_other; auto. cbn. congruence.
    + rewrite Fc, Fe. destruct p; auto. apply decr_ok; auto.
Qed.

(* ---- register / unregister *)
Lemma unregister_cases W r req p n ov :
  let k : akey := (map conv req, p, n) in
  unregister W r req p n ov = r
  \/ (exists old, aget akey_eqb (adapters r) k = Some old
      /\ adapters (unregister W r req p n ov) = adel akey_eqb (adapters r) k
      /\ subscribers (unregister W r req p n ov) = subscribers r
      /\ provided_cnt (unregister W r req p n ov) = decr_cnt (provided_cnt r) p 1
      /\ extendors (unregister W r req p n ov) = decr_ext W (provided_cnt r) (extendors r) p 1).
Proof.
  cbv zeta. unfold unregister.
  destruct (aget akey_eqb (adapters r) (map conv req, p, n)) as [old|] eqn:E; [|left; auto].
  assert (Hgo : forall r1, adapters r1 = adel akey_eqb (adapters r) (map conv req, p, n) ->
                           subscribers r1 = subscribers r -> provided_cnt r1 = provided_cnt r ->
                           extendors r1 = extendors r ->
    exists old0, Some old = Some old0
      /\ adapters (changed (provide_decr W r1 p 1)) = adel akey_eqb (adapters r) (map conv req, p, n)
      /\ subscribers (changed (provide_decr W r1 p 1)) = subscribers r
      /\ provided_cnt (changed (provide_decr W r1 p 1)) = decr_cnt (provided_cnt r) p 1
      /\ extendors (changed (provide_decr W r1 p 1)) = decr_ext W (provided_cnt r) (extendors r) p 1).
  { intros r1 A1 A2 A3 A4. exists old. split; auto.
    destruct (provide_decr_fields W r1 p 1) as (A & B & C & D).
    cbn [adapters subscribers provided_cnt extendors changed].
    rewrite A, B, C, D, A1, A2, A3, A4. repeat split. }
  destruct ov as [v'|].
  - destruct (v_is old v'); [right; apply Hgo; reflexivity|left; auto].
  - right; apply Hgo; reflexivity.
Qed.

Lemma register_cases W r req p n v' :
  let k : akey := (map conv req, p, n) in
  register W r req p n (Some v') = r
  \/ (adapters (register W r req p n (Some v')) = aset akey_eqb (adapters r) k v'
      /\ subscribers (register W r req p n (Some v')) = subscribers r
      /\ provided_cnt (register W r req p n (Some v')) = incr_cnt (provided_cnt r) p
      /\ extendors (register W r req p n (Some v')) = incr_ext W (provided_cnt r) (extendors r) p).
Proof.
  cbv zeta. unfold register.
  destruct (aget akey_eqb (adapters r) (map conv req, p, n)) as [old|] eqn:E.
  - destruct (v_is old v'); [left; auto|right; repeat split].
  - right; repeat split.
Qed.

Lemma acount_aset_le r r' k v q : adapters r' = aset akey_eqb (adapters r) k v ->
  acount r' q <= acount r q + (if Nat.eqb q (snd (fst k)) then 1 else 0).
Proof.
  unfold acount. intros ->. rewrite (keys_aset akey_eqb).
  destruct (aget akey_eqb (adapters r) k); [lia|].
  rewrite kcount_app. rewrite (Nat.eqb_sym q). apply Nat.le_refl.
Qed.

Lemma unregister_inv W r L req p n ov : wf_world W -> Inv W r L -> Inv W (unregister W r req p n ov) L.
Proof.
  intros HW I. pose proof I as [I1 I2 I3 I4 I5].
  destruct (unregister_cases W r req p n ov) as [->|(old & E & Fa & Fs & Fc & Fe)]; auto.
  constructor.
  - intros k. rewrite sub_leaf_leaf, Fs. apply I1.
  - rewrite Fs. apply I2.
  - rewrite Fs. apply I3.
  - intros q. destruct I5 as (Hc & _). rewrite Fc, decr_cnt_get by auto.
    set (f := fun k : akey => Nat.eqb (snd (fst k)) q).
    pose proof (kcount_adel akey_eqb akey_eqb_eq f _ _ _ E) as H.
    specialize (I4 q).
    change (acount r q) with (length (filter f (map fst (adapters r)))) in I4.
    change (acount (unregister W r req p n ov) q)
      with (length (filter f (map fst (adapters (unregister W r req p n ov))))).
    rewrite Fa. unfold f at 3 in H. cbn [fst snd] in H.
    rewrite (Nat.eqb_sym p q) in H. destruct (Nat.eqb_spec q p) as [->|Hne]; lia.
  - rewrite Fc, Fe. apply decr_ok; auto.
Qed.

Lemma register_inv W r L req p n ov : wf_world W -> Inv W r L -> Inv W (register W r req p n ov) L.
Proof.
  intros HW I. destruct ov as [v'|]; [|apply unregister_inv; auto].
  pose proof I as [I1 I2 I3 I4 I5].
  destruct (register_cases W r req p n v') as [->|(Fa & Fs & Fc & Fe)]; auto.
  constructor.
  - intros k. rewrite sub_leaf_leaf, Fs. apply I1.
  - rewrite Fs. apply I2.
  - rewrite Fs. apply I3.
  - intros q. rewrite Fc, incr_cnt_get. pose proof (acount_aset_le _ _ _ _ q Fa) as H.
    cbn [fst snd] in H. specialize (I4 q). destruct (Nat.eqb_spec q p) as [->|Hne]; lia.
  - rewrite Fc, Fe. apply incr_ok; auto.
Qed.

(* ---- every operation, every history *)
Lemma mstep_inv W r L o : wf_world W -> Inv W r L -> Inv W (mstep W r o) (lstep L o).
Proof.
  intros HW I. destruct o; cbn [mstep lstep].
  - apply subscribe_inv; auto.
  - apply unsubscribe_inv; auto.
  - apply register_inv; auto.
  - apply unregister_inv; auto.
Qed.

Lemma fold_inv W h : wf_world W -> forall r L, Inv W r L ->
  Inv W (fold_left (mstep W) h r) (fold_left lstep h L).
Proof.
  intros HW. induction h as [|o h IH]; intros r L I; cbn; auto. apply IH, mstep_inv; auto.
Qed.

Lemma run_inv W h : wf_world W -> Inv W (run_reg W h) (run_led h).
Proof. intros HW. apply fold_inv; auto. apply inv_empty. Qed.

(* ================================================================== the walk *)
Lemma subs_walk_spec W m prefix specs exts :
  subs_walk W m prefix specs exts
  = flat_map (fun rq => flat_map (fun e => leaf m (prefix ++ rq, e)) (rev exts)) (req_seq W specs).
Proof.
  revert prefix. induction specs as [|s rest IH]; intros prefix; cbn [subs_walk req_seq].
  - cbn [flat_map]. rewrite !app_nil_r. reflexivity.
  - rewrite flat_map_flat_map. apply flat_map_ext. intros x.
    rewrite IH, flat_map_map. apply flat_map_ext. intros rq. rewrite <- app_assoc. reflexivity.
Qed.

Lemma uncached_flat W ro required p :
  uncached_subscriptions W ro required p
  = flat_map (fun r => uncached_subscriptions W [r] required p) (rev ro).
Proof.
  unfold uncached_subscriptions. apply flat_map_ext. intros r. cbn [rev app flat_map].
  rewrite app_nil_r. reflexivity.
Qed.

Definition answer_of (W : world) (L : ledger) (pord : list (option spec)) (required : list spec) : list value :=
  flat_map (fun rq => flat_map (fun q => lvals L (rq, q)) pord) (req_seq W required).

Lemma reg_answer_spec W r L required p : Inv W r L ->
  uncached_subscriptions W [r] required p = answer_of W L (pord_of r p) required.
Proof.
  intros I. unfold uncached_subscriptions, answer_of. cbn [rev app flat_map]. rewrite app_nil_r.
  assert (Hl : forall k, leaf (subscribers r) k = lvals L k).
  { intros k. rewrite <- sub_leaf_leaf. apply (inv_leaf _ _ _ I). }
  destruct p as [p'|]; cbn [pord_of].
  - unfold ext_get. destruct (aget Nat.eqb (extendors r) p') as [exts|].
    + rewrite subs_walk_spec. apply flat_map_ext. intros rq. apply flat_map_ext. intros q. apply Hl.
    + cbn [map rev flat_map]. rewrite flat_map_nil. reflexivity.
  - rewrite subs_walk_spec. apply flat_map_ext. intros rq. apply flat_map_ext. intros q. apply Hl.
Qed.

(* ---- tagged ledger *)
Lemma map_snd_combine {A B} (la : list A) (lb : list B) :
  length la = length lb -> map snd (combine la lb) = lb.
Proof.
  revert lb. induction la as [|a la IH]; intros [|b lb]; cbn; try discriminate; auto.
  intros [= H]. rewrite IH; auto.
Qed.

Lemma map_snd_tag L : map snd (tag L) = L.
Proof. apply map_snd_combine. apply seq_length. Qed.

Lemma bucket_vals L k : map t_val (bucket (tag L) k) = lvals L k.
Proof.
  unfold bucket, lvals.
  transitivity (map snd (map snd (filter (fun te : nat * entry => skey_eqb (fst (snd te)) k) (tag L)))).
  { symmetry. apply map_map. }
  rewrite (map_filter_snd (fun e : entry => skey_eqb (fst e) k)). rewrite map_snd_tag. reflexivity.
Qed.

Lemma expected_vals W L pord required :
  map t_val (expected_tagged W L pord required) = answer_of W L pord required.
Proof.
  unfold expected_tagged, answer_of. rewrite map_flat_map. apply flat_map_ext. intros rq.
  rewrite map_flat_map. apply flat_map_ext. intros q. apply bucket_vals.
Qed.

Lemma applicable_vals W L required p :
  map t_val (filter (fun te => applicable W required p (snd te)) (tag L))
  = map snd (filter (applicable W required p) L).
Proof.
  transitivity (map snd (map snd (filter (fun te : nat * entry => applicable W required p (snd te)) (tag L)))).
  { symmetry. apply map_map. }
  rewrite (map_filter_snd (applicable W required p)). rewrite map_snd_tag. reflexivity.
Qed.

(* ================================================================== multiset *)
Lemma bool_eq_iff (a b : bool) : (a = true <-> b = true) -> a = b.
Proof. destruct a, b; intros [H1 H2]; auto; symmetry; auto. Qed.

Lemma bucket_perm {A} (key : A -> skey) (ks : list skey) (TL : list A) : NoDup ks ->
  Permutation (flat_map (fun k => filter (fun x => skey_eqb (key x) k) TL) ks)
              (filter (fun x => existsb (skey_eqb (key x)) ks) TL).
Proof.
  induction 1 as [|k ks Hk Hn IH]; cbn [flat_map existsb].
  - rewrite filter_none; auto.
  - apply Permutation_sym. eapply Permutation_trans.
    + apply (filter_or_perm (fun x => skey_eqb (key x) k) (fun x => existsb (skey_eqb (key x)) ks)).
      intros x _ E. apply skey_eqb_eq in E. rewrite E.
      destruct (existsb (skey_eqb k) ks) eqn:Ex; auto. exfalso.
      apply existsb_exists in Ex. destruct Ex as (k' & Hin & E'). apply skey_eqb_eq in E'. subst. auto.
    + apply Permutation_app_head. apply Permutation_sym. exact IH.
Qed.

Definition walk_keys (W : world) (pord : list (option spec)) (required : list spec) : list skey :=
  flat_map (fun rq => map (pair rq) pord) (req_seq W required).

Lemma expected_as_buckets W L pord required :
  expected_tagged W L pord required = flat_map (bucket (tag L)) (walk_keys W pord required).
Proof.
  unfold expected_tagged, walk_keys. rewrite flat_map_flat_map. apply flat_map_ext. intros rq.
  rewrite flat_map_map. reflexivity.
Qed.

Lemma req_seq_NoDup W required : wf_world W -> NoDup (req_seq W required).
Proof.
  intros HW. induction required as [|s rest IH]; cbn [req_seq].
  - constructor; [intros []|constructor].
  - apply (NoDup_prod cons); auto.
    + intros a b a' b' E. inversion E; auto.
    + apply NoDup_rev, HW.
Qed.

Lemma walk_keys_NoDup W pord required : wf_world W -> NoDup pord -> NoDup (walk_keys W pord required).
Proof.
  intros HW Hp. unfold walk_keys. apply (NoDup_prod pair); auto.
  - intros a b a' b' E. inversion E; auto.
  - apply req_seq_NoDup; auto.
Qed.

Lemma req_seq_In W required rq : In rq (req_seq W required) <-> req_applicable W required rq = true.
Proof.
  revert rq. induction required as [|s rest IH]; intros rq; cbn [req_seq req_applicable].
  - destruct rq; cbn; split; auto; try discriminate. intros [H|[]]. discriminate.
  - rewrite in_flat_map. split.
    + intros (x & Hx & H). apply in_map_iff in H. destruct H as (rq' & <- & H).
      apply in_rev in Hx. apply andb_true_iff. split; [apply mem_In; auto|apply IH; auto].
    + destruct rq as [|x rq']; [discriminate|]. rewrite andb_true_iff. intros [H1 H2].
      exists x. split; [apply in_rev; rewrite rev_involutive; apply mem_In; auto|].
      apply in_map. apply IH; auto.
Qed.

Lemma In_len_pos {A} (x : A) l : In x l -> 0 < length l.
Proof. destruct l; cbn; [tauto|lia]. Qed.

Lemma lcount_pos (L : ledger) e q : In e L -> snd (fst e) = Some q -> 0 < lcount L q.
Proof.
  intros H E. unfold lcount.
  assert (Hin : In e (filter (fun e0 : entry => ospec_eqb (snd (fst e0)) (Some q)) L)).
  { apply filter_In. split; auto. rewrite E. apply ospec_eqb_eq; auto. }
  exact (In_len_pos _ _ Hin).
Qed.

Definition asked_ok (W : world) (p : option spec) : Prop :=
  match p with Some p' => w_iface W p' = true | None => True end.

Lemma pord_In W r L p e : Inv W r L -> asked_ok W p -> In e L ->
  (In (snd (fst e)) (pord_of r p) <-> prov_applicable W p (snd (fst e)) = true).
Proof.
  intros I Hp He. destruct p as [p'|]; cbn [pord_of prov_applicable].
  - rewrite <- in_rev, in_map_iff. destruct (inv_ext _ _ _ I) as (_ & _ & Hi).
    destruct (snd (fst e)) as [q|] eqn:Eq.
    + split.
      * intros (q' & [= ->] & H). apply Hi in H. destruct H as [_ H]. unfold iro in H.
        apply filter_In in H. apply mem_In. tauto.
      * intros H. exists q. split; auto. apply Hi. split.
        -- pose proof (inv_cnt _ _ _ I q). pose proof (lcount_pos L e q He Eq). lia.
        -- unfold iro. apply filter_In. split; [apply mem_In; auto|exact Hp].
    + split; [intros (q' & H & _); discriminate|discriminate].
  - destruct (snd (fst e)); cbn; split; auto; try discriminate. intros [H|[]]; discriminate.
Qed.

Lemma pord_NoDup W r L p : Inv W r L -> NoDup (pord_of r p).
Proof.
  intros I. destruct p as [p'|]; cbn [pord_of].
  - apply NoDup_rev. destruct (inv_ext _ _ _ I) as (_ & Hn & _). specialize (Hn p').
    induction Hn as [|x l Hx Hn IH]; cbn; constructor; auto.
    rewrite in_map_iff. intros (y & [= ->] & Hy). auto.
  - constructor; [intros []|constructor].
Qed.

Lemma walk_keys_applicable W r L required p e : Inv W r L -> asked_ok W p -> In e L ->
  existsb (skey_eqb (fst e)) (walk_keys W (pord_of r p) required) = applicable W required p e.
Proof.
  intros I Hp He. apply bool_eq_iff. unfold applicable. rewrite andb_true_iff, existsb_exists.
  rewrite <- (pord_In W r L p e I Hp He), <- req_seq_In. unfold walk_keys. split.
  - intros (k & Hk & E). apply skey_eqb_eq in E. subst k. apply in_flat_map in Hk.
    destruct Hk as (rq & Hrq & Hk). apply in_map_iff in Hk. destruct Hk as (q & E & Hq).
    rewrite <- E. cbn. auto.
  - intros [H1 H2]. exists (fst e). split; [|apply skey_eqb_refl].
    apply in_flat_map. exists (fst (fst e)). split; auto. apply in_map_iff. exists (snd (fst e)).
    split; auto. destruct (fst e); auto.
Qed.

(* one registry: the bucket-sorted answer is a rearrangement of the applicable tagged entries *)
Lemma expected_perm W r L required p : wf_world W -> Inv W r L -> asked_ok W p ->
  Permutation (expected_tagged W L (pord_of r p) required)
              (filter (fun te => applicable W required p (snd te)) (tag L)).
Proof.
  intros HW I Hp. rewrite expected_as_buckets. unfold bucket.
  eapply Permutation_trans.
  - apply (bucket_perm (fun te : nat * entry => fst (snd te))).
    apply walk_keys_NoDup; auto. eapply pord_NoDup; eauto.
  - rewrite (filter_ext_in' _ (fun te => applicable W required p (snd te))); auto.
    intros te Hte. apply (walk_keys_applicable W r L); auto.
    unfold tag in Hte. destruct te as [i e]. apply in_combine_r in Hte. exact Hte.
Qed.

Lemma Permutation_flat_map_pointwise {A B} (f g : A -> list B) l :
  (forall x, In x l -> Permutation (f x) (g x)) -> Permutation (flat_map f l) (flat_map g l).
Proof.
  induction l as [|a l IH]; cbn; intros H; auto. apply Permutation_app; auto.
Qed.

Lemma reg_multiset W r L required p : wf_world W -> Inv W r L -> asked_ok W p ->
  Permutation (uncached_subscriptions W [r] required p) (map snd (filter (applicable W required p) L)).
Proof.
  intros HW I Hp. rewrite (reg_answer_spec W r L) by auto.
  rewrite <- expected_vals, <- applicable_vals. apply Permutation_map. apply (expected_perm W r L); auto.
Qed.

Lemma subs_multiset_lemma : forall W, wf_world W ->
  forall (hs : list (list sop)) required p, asked_ok W p ->
  Permutation (uncached_subscriptions W (map (run_reg W) hs) required p)
              (flat_map (fun h => map snd (filter (applicable W required p) (run_led h))) hs).
Proof.
  intros W HW hs required p Hp. rewrite uncached_flat, <- map_rev, flat_map_map.
  eapply Permutation_trans.
  - apply Permutation_flat_map_pointwise. intros h _. apply (reg_multiset W _ (run_led h)); auto.
    apply run_inv; auto.
  - apply Permutation_flat_map. apply Permutation_sym, Permutation_rev.
Qed.

(* ================================================================== order *)
Lemma index_app_notin x l1 l2 : ~ In x l1 -> index x (l1 ++ l2) = length l1 + index x l2.
Proof.
  induction l1 as [|a l1 IH]; cbn; auto. intros H.
  destruct (Nat.eqb_spec x a) as [->|Hne]; [tauto|]. rewrite IH; tauto.
Qed.

Lemma index_head x l : index x (x :: l) = 0.
Proof. cbn. rewrite Nat.eqb_refl. auto. Qed.

Lemma NoDup_app_disj {A} (l1 l2 : list A) x : NoDup (l1 ++ l2) -> In x l1 -> In x l2 -> False.
Proof.
  induction l1 as [|b l1 IH]; cbn; [tauto|]. intros Hn [->|H1] H2.
  - apply NoDup_cons_iff in Hn. destruct Hn as [Hn _]. apply Hn. apply in_or_app. auto.
  - apply NoDup_cons_iff in Hn. destruct Hn as [_ Hn]. auto.
Qed.

Lemma index_sorted_aux pre l : NoDup (pre ++ l) ->
  StronglySorted (fun x y => index x (pre ++ l) < index y (pre ++ l)) l.
Proof.
  revert pre. induction l as [|a l IH]; intros pre Hn; constructor.
  - specialize (IH (pre ++ [a])). rewrite <- app_assoc in IH. cbn in IH. apply IH. exact Hn.
  - apply Forall_forall. intros y Hy.
    assert (Ha : ~ In a pre).
    { intros H. apply NoDup_remove_2 in Hn. apply Hn. apply in_or_app. auto. }
    assert (Hy1 : ~ In y pre).
    { intros H. apply (NoDup_app_disj _ _ y Hn H). right. exact Hy. }
    assert (Hy2 : y <> a).
    { intros ->. apply NoDup_remove_2 in Hn. apply Hn. apply in_or_app. auto. }
    rewrite !index_app_notin by auto. rewrite index_head. cbn [index].
    destruct (Nat.eqb_spec y a); [contradiction|]. lia.
Qed.

Lemma index_sorted l : NoDup l -> StronglySorted (fun x y => index x l < index y l) l.
Proof. intros H. apply (index_sorted_aux [] l H). Qed.

Lemma req_seq_sorted W looked : wf_world W ->
  StronglySorted (fun r1 r2 => lex_lt (rank W looked r1) (rank W looked r2)) (req_seq W looked).
Proof.
  intros HW. induction looked as [|s rest IH]; cbn [req_seq].
  - constructor; constructor.
  - apply (SS_flat_map _ (fun x y => index x (rev (w_sro W s)) < index y (rev (w_sro W s)))).
    + apply index_sorted. apply NoDup_rev, HW.
    + intros x _. apply (SS_map _ _ (cons x) _ IH). intros r1 r2 H. cbn [rank lex_lt]. right. auto.
    + intros x y a b Hxy Ha Hb. apply in_map_iff in Ha, Hb.
      destruct Ha as (a' & <- & _), Hb as (b' & <- & _). cbn [rank lex_lt]. left. exact Hxy.
Qed.

Lemma in_tag_lower (s n : nat) (L : ledger) te : In te (combine (seq s n) L) -> s <= fst te.
Proof.
  destruct te as [i e]. intros H. apply in_combine_l in H. apply in_seq in H. cbn. lia.
Qed.

Lemma tag_sorted_aux s (L : ledger) :
  StronglySorted (fun a b : nat * entry => fst a < fst b) (combine (seq s (length L)) L).
Proof.
  revert s. induction L as [|e L IH]; intros s; cbn; constructor; auto.
  apply Forall_forall. intros te H. apply in_tag_lower in H. cbn. lia.
Qed.

Lemma tag_sorted L : StronglySorted (fun a b => t_idx a < t_idx b) (tag L).
Proof. apply tag_sorted_aux. Qed.

Lemma in_bucket TL k te : In te (bucket TL k) -> In te TL /\ t_req te = fst k /\ t_prov te = snd k.
Proof.
  unfold bucket. intros H. apply filter_In in H. destruct H as [H1 H2]. apply skey_eqb_eq in H2.
  destruct te as [i [k0 v]]. unfold t_req, t_prov. cbn in *. subst k0. auto.
Qed.

Lemma expected_sorted W L pord required : wf_world W -> NoDup pord ->
  StronglySorted (precedes W required) (expected_tagged W L pord required).
Proof.
  intros HW Hp. unfold expected_tagged.
  apply (SS_flat_map _ (fun r1 r2 => lex_lt (rank W required r1) (rank W required r2))).
  - apply req_seq_sorted; auto.
  - intros rq _. apply (SS_flat_map _ (fun q1 q2 : option spec => q1 <> q2)).
    + apply NoDup_SS_neq; auto.
    + intros q _. apply (SS_weaken (fun a b => t_idx a < t_idx b)).
      * apply SS_filter. apply tag_sorted.
      * intros a b Ha Hb Hlt. apply in_bucket in Ha, Hb. cbn [fst snd] in *.
        right. split; [|right; auto]. destruct Ha as (_ & -> & _), Hb as (_ & -> & _). auto.
    + intros q1 q2 a b Hne Ha Hb. apply in_bucket in Ha, Hb. cbn [fst snd] in *.
      destruct Ha as (_ & Ra & Pa), Hb as (_ & Rb & Pb).
      right. split; [congruence|left; congruence].
  - intros r1 r2 a b Hlt Ha Hb. apply in_flat_map in Ha, Hb.
    destruct Ha as (q1 & _ & Ha), Hb as (q2 & _ & Hb). apply in_bucket in Ha, Hb. cbn [fst snd] in *.
    destruct Ha as (_ & Ra & _), Hb as (_ & Rb & _). unfold precedes. rewrite Ra, Rb. left. exact Hlt.
Qed.

(* the ordered answer: registries in the order of [rev ro]; per registry a sorted rearrangement
   of that registry's applicable tagged ledger entries *)
Lemma subs_exact_lemma : forall W, wf_world W -> forall (hs : list (list sop)) required p,
  uncached_subscriptions W (map (run_reg W) hs) required p
  = flat_map (fun h => map t_val (expected_tagged W (run_led h) (pord_of (run_reg W h) p) required)) (rev hs).
Proof.
  intros W HW hs required p. rewrite uncached_flat, <- map_rev, flat_map_map.
  apply flat_map_ext. intros h. rewrite expected_vals. apply reg_answer_spec. apply run_inv; auto.
Qed.

Lemma subs_ordered_lemma : forall W, wf_world W ->
  forall (hs : list (list sop)) required p, asked_ok W p ->
  exists Es : list (list (nat * entry)),
    uncached_subscriptions W (map (run_reg W) hs) required p = flat_map (map t_val) Es
    /\ Forall2 (fun h E =>
                  Permutation E (filter (fun te => applicable W required p (snd te)) (tag (run_led h)))
                  /\ StronglySorted (precedes W required) E)
               (rev hs) Es.
Proof.
  intros W HW hs required p Hp.
  exists (map (fun h => expected_tagged W (run_led h) (pord_of (run_reg W h) p) required) (rev hs)).
  split.
  - rewrite subs_exact_lemma by auto. rewrite flat_map_map. reflexivity.
  - induction (rev hs) as [|h l IH]; cbn; constructor; auto.
    pose proof (run_inv W h HW) as I. split.
    + apply (expected_perm W _ _ required p HW I Hp).
    + apply expected_sorted; auto. eapply pord_NoDup; eauto.
Qed.

(* ================================================================== ledger refinement *)
Lemma ledger_refinement_lemma : forall W, wf_world W -> forall (h : list sop),
  let r := run_reg W h in let L := run_led h in
  (forall k, sub_leaf r k = lvals L k)
  /\ NoDup (map fst (subscribers r))
  /\ (forall k l, In (k, l) (subscribers r) -> l <> [])
  /\ Permutation (allSubscriptions r) L.
Proof.
  intros W HW h r L. pose proof (run_inv W h HW) as I. fold r L in I.
  destruct I as [I1 I2 I3 I4 I5].
  assert (Hne : forall k l, In (k, l) (subscribers r) -> l <> []).
  { intros k l H. apply (I2 k). apply (In_aget skey_eqb skey_eqb_eq); auto. }
  repeat split; auto.
  unfold allSubscriptions.
  (* every stored leaf is the ledger's bucket *)
  assert (E1 : flat_map (fun kv : skey * list value => map (fun v => (fst kv, v)) (snd kv)) (subscribers r)
               = flat_map (fun k => filter (fun e : entry => skey_eqb (fst e) k) L) (map fst (subscribers r))).
  { rewrite flat_map_map. apply flat_map_ext_in. intros [k l] Hin. cbn [fst snd].
    assert (Hl : l = lvals L k).
    { rewrite <- I1, sub_leaf_leaf. unfold leaf. rewrite (In_aget skey_eqb skey_eqb_eq _ _ _ I3 Hin). auto. }
    subst l. unfold lvals. clear. induction L as [|[k0 v0] L IH]; cbn; auto.
    destruct (skey_eqb k0 k) eqn:E; cbn; auto. apply skey_eqb_eq in E. subst. f_equal. auto. }
  rewrite E1. eapply Permutation_trans; [apply (bucket_perm (fun e : entry => fst e)); auto|].
  rewrite filter_all; auto.
  intros e He. apply existsb_exists. exists (fst e). split; [|apply skey_eqb_refl].
  (* the key of a live entry is stored *)
  assert (Hv : In (snd e) (lvals L (fst e))) by (apply In_lvals; auto; apply skey_eqb_refl).
  rewrite <- I1, sub_leaf_leaf in Hv. unfold leaf in Hv.
  destruct (aget skey_eqb (subscribers r) (fst e)) eqn:Eg; [|destruct Hv].
  eapply (aget_Some_in_keys skey_eqb skey_eqb_eq); eauto.
Qed.

(* ================================================================== unsubscribe is exact *)
Lemma unsubscribe_exact_lemma : forall W, wf_world W -> forall (h : list sop) req p ov,
  let r := run_reg W h in
  let k := (map conv req, p) in
  (forall k', sub_leaf (unsubscribe W r req p ov) k'
              = if skey_eqb k' k
                then match ov with
                     | None => []
                     | Some v => filter (fun x => negb (v_eq x v)) (sub_leaf r k)
                     end
                else sub_leaf r k')
  /\ adapters (unsubscribe W r req p ov) = adapters r.
Proof.
  intros W HW h req p ov r k. pose proof (run_inv W h HW) as I. fold r in I.
  pose proof (unsubscribe_inv W r _ req p ov HW I) as I'. fold k in I'.
  split.
  - intros k'. rewrite (inv_leaf _ _ _ I'), lvals_unsub, <- !(inv_leaf _ _ _ I). destruct ov; reflexivity.
  - destruct (unsubscribe_cases W r req p ov) as [[_ ->]|(_ & Fa & _)]; auto.
Qed.

(* ================================================================== handlers *)
Lemma handlers_lemma : forall W r r' required,
  subscribers r = subscribers r' ->
  uncached_subscriptions W [r] required None = uncached_subscriptions W [r'] required None.
Proof. intros W r r' required H. unfold uncached_subscriptions. cbn. rewrite H. reflexivity. Qed.

Lemma handlers_multiset_lemma : forall W, wf_world W -> forall (hs : list (list sop)) required,
  Permutation (uncached_subscriptions W (map (run_reg W) hs) required None)
              (flat_map (fun h => map snd (filter (fun e => req_applicable W required (fst (fst e))
                                                          && match snd (fst e) with None => true | Some _ => false end)
                                                 (run_led h))) hs).
Proof.
  intros W HW hs required. apply (subs_multiset_lemma W HW hs required None). exact I.
Qed.

Lemma handlers_bypass_lemma : forall W,
  (forall r r' required, subscribers r = subscribers r' ->
     uncached_subscriptions W [r] required None = uncached_subscriptions W [r'] required None)
  /\ ((forall x, NoDup (w_sro W x)) -> forall (hs : list (list sop)) required,
      Permutation (uncached_subscriptions W (map (run_reg W) hs) required None)
                  (flat_map (fun h => map snd (filter (fun e => req_applicable W required (fst (fst e))
                                                              && match snd (fst e) with None => true | Some _ => false end)
                                                     (run_led h))) hs)).
Proof. intros W. split; [exact (handlers_lemma W)|exact (handlers_multiset_lemma W)]. Qed.

(* ================================================================== the extendors invariant, stated *)
Lemma extendors_inv_lemma : forall W, wf_world W -> forall (h : list sop),
  let r := run_reg W h in let L := run_led h in
  (forall q, acount r q + lcount L q <= cnt_get (provided_cnt r) q)
  /\ (forall i q, In q (ext_get (extendors r) i) <-> (0 < cnt_get (provided_cnt r) q /\ In i (iro W q)))
  /\ (forall i, NoDup (ext_get (extendors r) i))
  /\ (forall e q i, In e L -> snd (fst e) = Some q -> In i (iro W q) ->
        0 < cnt_get (provided_cnt r) q /\ In q (ext_get (extendors r) i)).
Proof.
  intros W HW h r L. pose proof (run_inv W h HW) as I. fold r L in I.
  destruct (inv_ext _ _ _ I) as (_ & Hn & Hi).
  split; [apply (inv_cnt _ _ _ I)|]. split; [exact Hi|]. split; [exact Hn|].
  intros e q i He Hq Hiq.
  assert (Hpos : 0 < cnt_get (provided_cnt r) q).
  { pose proof (inv_cnt _ _ _ I q). pose proof (lcount_pos L e q He Hq). lia. }
  split; auto. apply Hi. auto.
Qed.
