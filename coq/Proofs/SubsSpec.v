(* C07 — proofs: the model's subscriber storage refines the ledger Spec, the extendors
   invariant, and subscriptions() = the applicable ledger entries, with multiplicity, in order. *)
From Coq Require Import List Arith Bool Lia Sorting.Permutation Sorting.Sorted.
Import ListNotations.
From ZI Require Import Model.Ro Model.Adapter Spec.SubsSpec.

(* ================================================================== generic list facts *)
Lemma mem_In x l : mem x l = true <-> In x l.
Proof.
  induction l as [|y l IH]; cbn; [split; [discriminate|tauto]|].
  rewrite orb_true_iff, Nat.eqb_eq, IH. split; intros [H|H]; auto.
Qed.

Lemma mem_false x l : mem x l = false <-> ~ In x l.
Proof. rewrite <- mem_In. destruct (mem x l); split; congruence. Qed.

Lemma flat_map_nil {A B} (l : list A) : flat_map (fun _ => @nil B) l = [].
Proof. induction l; cbn; auto. Qed.

Lemma flat_map_map {A B C} (f : B -> list C) (g : A -> B) l :
  flat_map f (map g l) = flat_map (fun x => f (g x)) l.
Proof. induction l; cbn; congruence. Qed.

Lemma flat_map_flat_map {A B C} (f : B -> list C) (g : A -> list B) l :
  flat_map f (flat_map g l) = flat_map (fun x => flat_map f (g x)) l.
Proof. induction l; cbn; auto. rewrite flat_map_app. congruence. Qed.

Lemma map_flat_map {A B C} (f : B -> C) (g : A -> list B) l :
  map f (flat_map g l) = flat_map (fun x => map f (g x)) l.
Proof. induction l; cbn; auto. rewrite map_app. congruence. Qed.

Lemma flat_map_ext_in {A B} (f g : A -> list B) l :
  (forall x, In x l -> f x = g x) -> flat_map f l = flat_map g l.
Proof.
  induction l; cbn; intros H; auto. rewrite H by auto. rewrite IHl; auto.
Qed.

Lemma filter_ext_in' {A} (f g : A -> bool) l :
  (forall x, In x l -> f x = g x) -> filter f l = filter g l.
Proof.
  induction l; cbn; intros H; auto. rewrite H by auto. rewrite IHl; auto.
Qed.

Lemma filter_all {A} (f : A -> bool) l : (forall x, In x l -> f x = true) -> filter f l = l.
Proof.
  induction l; cbn; intros H; auto. rewrite H by auto. rewrite IHl; auto.
Qed.

Lemma filter_none {A} (f : A -> bool) l : (forall x, In x l -> f x = false) -> filter f l = [].
Proof.
  induction l; cbn; intros H; auto. rewrite H by auto. rewrite IHl; auto.
Qed.

Lemma filter_len_le {A} (f : A -> bool) l : length (filter f l) <= length l.
Proof. induction l as [|a l IH]; cbn; auto. destruct (f a); cbn; lia. Qed.

Lemma filter_length_eq {A} (f : A -> bool) l : length (filter f l) = length l -> filter f l = l.
Proof.
  induction l as [|a l IH]; cbn; auto. destruct (f a); cbn; intros H.
  - f_equal. apply IH. lia.
  - pose proof (filter_len_le f l). lia.
Qed.

Lemma filter_filter {A} (f g : A -> bool) l : filter f (filter g l) = filter (fun x => g x && f x) l.
Proof.
  induction l as [|a l IH]; cbn; auto. destruct (g a); cbn; [destruct (f a)|]; rewrite IH; auto.
Qed.

Lemma map_filter_snd {A B} (f : B -> bool) (l : list (A * B)) :
  map snd (filter (fun x => f (snd x)) l) = filter f (map snd l).
Proof. induction l as [|[a b] l IH]; cbn; auto. destruct (f b); cbn; congruence. Qed.

Lemma nil_or_not {A} (l : list A) : l = [] \/ l <> [].
Proof. destruct l; [left|right]; congruence. Qed.

(* Permutation of a filter by a disjunction of exclusive predicates *)
Lemma filter_or_perm {A} (f g : A -> bool) l :
  (forall x, In x l -> f x = true -> g x = false) ->
  Permutation (filter (fun x => f x || g x) l) (filter f l ++ filter g l).
Proof.
  induction l as [|a l IH]; cbn; intros H; auto.
  destruct (f a) eqn:Fa; cbn.
  - rewrite (H a) by auto. constructor. apply IH; auto.
  - destruct (g a); cbn; [|apply IH; auto].
    apply Permutation_cons_app. apply IH; auto.
Qed.

Lemma NoDup_app_intro {A} (l1 l2 : list A) :
  NoDup l1 -> NoDup l2 -> (forall x, In x l1 -> ~ In x l2) -> NoDup (l1 ++ l2).
Proof.
  induction 1 as [|a l1 Hn H1 IH]; cbn; intros H2 Hd; auto.
  constructor.
  - rewrite in_app_iff. intros [H|H]; [tauto|]. eapply Hd; [left; reflexivity|exact H].
  - apply IH; auto; intros x Hx; apply Hd; cbn; auto.
Qed.

(* injective two-argument product lists have no duplicates *)
Lemma NoDup_prod {A B C} (f : A -> B -> C) la lb :
  (forall a b a' b', f a b = f a' b' -> a = a' /\ b = b') ->
  NoDup la -> NoDup lb -> NoDup (flat_map (fun a => map (f a) lb) la).
Proof.
  intros Inj Ha Hb. induction Ha as [|a la Hn Ha IH]; cbn; [constructor|].
  apply NoDup_app_intro; auto.
  - clear -Inj Hb. induction Hb as [|b lb Hn Hb IH]; cbn; constructor; auto.
    rewrite in_map_iff. intros (b' & E & Hb'). apply Inj in E. destruct E as [_ ->]. auto.
  - intros c H1 H2. apply in_map_iff in H1. destruct H1 as (b & <- & _).
    apply in_flat_map in H2. destruct H2 as (a' & Ha' & H2). apply in_map_iff in H2.
    destruct H2 as (b' & E & _). apply Inj in E. destruct E as [-> _]. auto.
Qed.

(* ---- StronglySorted helpers *)
Lemma SS_app {A} (R : A -> A -> Prop) l1 l2 :
  StronglySorted R l1 -> StronglySorted R l2 ->
  (forall a b, In a l1 -> In b l2 -> R a b) -> StronglySorted R (l1 ++ l2).
Proof.
  induction 1 as [|a l1 H1 IH Fa]; cbn; intros H2 H; auto.
  constructor.
  - apply IH; auto; intros; apply H; cbn; auto.
  - apply Forall_app; split; auto; apply Forall_forall; intros b Hb; apply H; cbn; auto.
Qed.

Lemma SS_flat_map {A B} (R : B -> B -> Prop) (Q : A -> A -> Prop) (f : A -> list B) l :
  StronglySorted Q l ->
  (forall x, In x l -> StronglySorted R (f x)) ->
  (forall x y a b, Q x y -> In a (f x) -> In b (f y) -> R a b) ->
  StronglySorted R (flat_map f l).
Proof.
  induction 1 as [|x l Hl IH Fx]; cbn; intros Hin Hc; [constructor|].
  apply SS_app.
  - apply Hin. left; reflexivity.
  - apply IH; [|exact Hc]. intros y Hy. apply Hin. right; exact Hy.
  - intros a b Ha Hb. apply in_flat_map in Hb. destruct Hb as (y & Hy & Hb).
    rewrite Forall_forall in Fx. apply (Hc x y a b); auto.
Qed.

Lemma SS_map {A B} (R : B -> B -> Prop) (Q : A -> A -> Prop) (f : A -> B) l :
  StronglySorted Q l -> (forall x y, Q x y -> R (f x) (f y)) -> StronglySorted R (map f l).
Proof.
  induction 1 as [|x l Hl IH Fx]; cbn; intros H; constructor; auto.
  rewrite Forall_forall in *. intros b Hb. apply in_map_iff in Hb. destruct Hb as (y & <- & Hy). auto.
Qed.

Lemma SS_filter {A} (R : A -> A -> Prop) (f : A -> bool) l :
  StronglySorted R l -> StronglySorted R (filter f l).
Proof.
  induction 1 as [|x l Hl IH Fx]; cbn; [constructor|]. destruct (f x); auto.
  constructor; auto. rewrite Forall_forall in *. intros y Hy. apply filter_In in Hy. apply Fx, Hy.
Qed.

Lemma SS_weaken {A} (R R' : A -> A -> Prop) l :
  StronglySorted R l -> (forall a b, In a l -> In b l -> R a b -> R' a b) -> StronglySorted R' l.
Proof.
  induction 1 as [|x l Hl IH Fx]; intros H; constructor.
  - apply IH. intros; apply H; cbn; auto.
  - rewrite Forall_forall in *. intros y Hy. apply H; cbn; auto.
Qed.

Lemma NoDup_SS_neq {A} (l : list A) : NoDup l -> StronglySorted (fun a b => a <> b) l.
Proof.
  induction 1 as [|x l Hn Hl IH]; constructor; auto.
  apply Forall_forall. intros y Hy ->. auto.
Qed.

(* ================================================================== association lists *)
Section AssocFacts.
  Context {K V : Type} (eqb : K -> K -> bool).
  Hypothesis eqb_eq : forall a b, eqb a b = true <-> a = b.

  Lemma eqb_refl' a : eqb a a = true.
  Proof. apply eqb_eq; auto. Qed.

  Lemma eqb_sym' a b : eqb a b = eqb b a.
  Proof.
    destruct (eqb a b) eqn:E1, (eqb b a) eqn:E2; auto.
    - apply eqb_eq in E1. subst. rewrite eqb_refl' in E2. discriminate.
    - apply eqb_eq in E2. subst. rewrite eqb_refl' in E1. discriminate.
  Qed.

  Lemma aget_aset (m : list (K * V)) k v k' :
    aget eqb (aset eqb m k v) k' = if eqb k' k then Some v else aget eqb m k'.
  Proof.
    induction m as [|[k0 v0] m IH]; cbn; auto.
    destruct (eqb k k0) eqn:E; cbn.
    - apply eqb_eq in E. subst k0. destruct (eqb k' k); auto.
    - rewrite IH. destruct (eqb k' k0) eqn:E0; auto.
      apply eqb_eq in E0. subst k0. rewrite eqb_sym', E. auto.
  Qed.

  Lemma aget_notin (m : list (K * V)) k : ~ In k (map fst m) -> aget eqb m k = None.
  Proof.
    induction m as [|[k0 v0] m IH]; cbn; auto. intros H.
    destruct (eqb k k0) eqn:E; [apply eqb_eq in E; subst; tauto|]. apply IH. tauto.
  Qed.

  Lemma aget_In (m : list (K * V)) k v : aget eqb m k = Some v -> In (k, v) m.
  Proof.
    induction m as [|[k0 v0] m IH]; cbn; [discriminate|].
    destruct (eqb k k0) eqn:E; [apply eqb_eq in E; subst; intros [= ->]; auto|]. auto.
  Qed.

  Lemma In_aget (m : list (K * V)) k v : NoDup (map fst m) -> In (k, v) m -> aget eqb m k = Some v.
  Proof.
    induction m as [|[k0 v0] m IH]; cbn; [tauto|]. intros Hn [H|H].
    - inversion H; subst. rewrite eqb_refl'. auto.
    - inversion Hn; subst. destruct (eqb k k0) eqn:E; auto.
      apply eqb_eq in E. subst. exfalso. apply H2. apply in_map_iff. exists (k0, v). auto.
  Qed.

  Lemma aget_adel (m : list (K * V)) k k' : NoDup (map fst m) ->
    aget eqb (adel eqb m k) k' = if eqb k' k then None else aget eqb m k'.
  Proof.
    induction m as [|[k0 v0] m IH]; cbn; intros Hn; [destruct (eqb k' k); auto|].
    inversion Hn; subst.
    destruct (eqb k k0) eqn:E; cbn.
    - apply eqb_eq in E. subst k0. destruct (eqb k' k) eqn:E'; auto.
      apply eqb_eq in E'. subst. apply aget_notin; auto.
    - rewrite IH by auto. destruct (eqb k' k0) eqn:E0; auto.
      apply eqb_eq in E0. subst k0. rewrite eqb_sym', E. auto.
  Qed.

  Lemma keys_aset (m : list (K * V)) k v :
    map fst (aset eqb m k v) = match aget eqb m k with Some _ => map fst m | None => map fst m ++ [k] end.
  Proof.
    induction m as [|[k0 v0] m IH]; cbn; auto.
    destruct (eqb k k0) eqn:E; cbn; auto. rewrite IH. destruct (aget eqb m k); auto.
  Qed.

  Lemma aget_Some_in_keys (m : list (K * V)) k v : aget eqb m k = Some v -> In k (map fst m).
  Proof. intros H. apply aget_In in H. apply in_map_iff. exists (k, v); auto. Qed.

  Lemma NoDup_aset (m : list (K * V)) k v : NoDup (map fst m) -> NoDup (map fst (aset eqb m k v)).
  Proof.
    intros Hn. rewrite keys_aset. destruct (aget eqb m k) eqn:E; auto.
    apply NoDup_app_intro; auto.
    - constructor; [intros []|constructor].
    - intros x Hk [<-|[]]. apply in_map_iff in Hk. destruct Hk as ([k1 v1] & <- & Hk). cbn in E.
      rewrite (In_aget _ _ _ Hn Hk) in E. discriminate.
  Qed.

  Lemma keys_adel_incl (m : list (K * V)) k x : In x (map fst (adel eqb m k)) -> In x (map fst m).
  Proof.
    induction m as [|[k0 v0] m IH]; cbn; auto. destruct (eqb k k0); cbn; tauto.
  Qed.

  Lemma NoDup_adel (m : list (K * V)) k : NoDup (map fst m) -> NoDup (map fst (adel eqb m k)).
  Proof.
    induction m as [|[k0 v0] m IH]; cbn; auto. intros Hn. inversion Hn; subst.
    destruct (eqb k k0); cbn; auto. constructor; auto. intros H. apply keys_adel_incl in H. auto.
  Qed.

  (* counting keys satisfying a predicate *)
  Lemma kcount_adel (f : K -> bool) (m : list (K * V)) k v : aget eqb m k = Some v ->
    length (filter f (map fst m)) = length (filter f (map fst (adel eqb m k))) + (if f k then 1 else 0).
  Proof.
    induction m as [|[k0 v0] m IH]; cbn; [discriminate|].
    destruct (eqb k k0) eqn:E.
    - apply eqb_eq in E. subst k0. intros _. destruct (f k); cbn; lia.
    - intros H. cbn. destruct (f k0); cbn; rewrite (IH H); lia.
  Qed.
End AssocFacts.

Lemma kcount_app {K} (f : K -> bool) l k :
  length (filter f (l ++ [k])) = length (filter f l) + (if f k then 1 else 0).
Proof. rewrite filter_app, app_length. cbn. destruct (f k); auto. Qed.

(* ================================================================== key equalities *)
Lemma lspec_eqb_eq a b : lspec_eqb a b = true <-> a = b.
Proof.
  unfold lspec_eqb. revert b. induction a as [|x a IH]; intros [|y b]; try (split; congruence).
  rewrite andb_true_iff, Nat.eqb_eq, IH. split; [intros [-> ->]; auto | intros E; inversion E; auto].
Qed.

Lemma ospec_eqb_eq a b : ospec_eqb a b = true <-> a = b.
Proof.
  destruct a, b; cbn; try (split; congruence). rewrite Nat.eqb_eq. split; congruence.
Qed.

Lemma skey_eqb_eq (a b : skey) : skey_eqb a b = true <-> a = b.
Proof.
  destruct a as [r1 p1], b as [r2 p2]. unfold skey_eqb; cbn.
  rewrite andb_true_iff, lspec_eqb_eq, ospec_eqb_eq. split; [intros [-> ->]; auto | intros E; inversion E; auto].
Qed.

Lemma akey_eqb_eq (a b : akey) : akey_eqb a b = true <-> a = b.
Proof.
  destruct a as [[r1 p1] n1], b as [[r2 p2] n2]. unfold akey_eqb.
  rewrite !andb_true_iff, lspec_eqb_eq, !Nat.eqb_eq.
  split; [intros [[-> ->] ->]; auto | intros E; inversion E; auto].
Qed.

Lemma skey_eqb_refl k : skey_eqb k k = true.
Proof. apply skey_eqb_eq; auto. Qed.

Lemma skey_eqb_sym a b : skey_eqb a b = skey_eqb b a.
Proof. apply (eqb_sym' skey_eqb skey_eqb_eq). Qed.

(* ================================================================== counts and extendors *)
Definition wf_world (W : world) : Prop := forall x, NoDup (w_sro W x).

Lemma iro_NoDup W x : wf_world W -> NoDup (iro W x).
Proof. intros H. apply NoDup_filter, H. Qed.

Lemma cnt_get_aset c p n q : cnt_get (aset Nat.eqb c p n) q = if Nat.eqb q p then n else cnt_get c q.
Proof. unfold cnt_get. rewrite (aget_aset Nat.eqb Nat.eqb_eq). destruct (Nat.eqb q p); auto. Qed.

Lemma cnt_get_adel c p q : NoDup (map fst c) ->
  cnt_get (adel Nat.eqb c p) q = if Nat.eqb q p then 0 else cnt_get c q.
Proof. intros H. unfold cnt_get. rewrite (aget_adel Nat.eqb Nat.eqb_eq) by auto. destruct (Nat.eqb q p); auto. Qed.

Lemma ext_get_aset e i v j : ext_get (aset Nat.eqb e i v) j = if Nat.eqb j i then v else ext_get e j.
Proof. unfold ext_get. rewrite (aget_aset Nat.eqb Nat.eqb_eq). destruct (Nat.eqb j i); auto. Qed.

Lemma ext_fold (g : list spec -> list spec) l e j : NoDup l ->
  ext_get (fold_left (fun e i => aset Nat.eqb e i (g (ext_get e i))) l e) j
  = if mem j l then g (ext_get e j) else ext_get e j.
Proof.
  intros Hn. revert e. induction Hn as [|a l Ha Hn IH]; intros e; cbn; auto.
  rewrite IH, ext_get_aset. destruct (Nat.eqb_spec j a) as [->|Hne]; cbn.
  - apply mem_false in Ha. rewrite Ha. auto.
  - auto.
Qed.

Definition ext_ins (W : world) (p : spec) (old : list spec) : list spec :=
  filter (fun x => isOrExtends W p x) old ++ [p] ++ filter (fun x => negb (isOrExtends W p x)) old.

Lemma add_extendor_get W e p j : wf_world W ->
  ext_get (add_extendor W e p) j = if mem j (iro W p) then ext_ins W p (ext_get e j) else ext_get e j.
Proof. intros H. unfold add_extendor. apply (ext_fold (ext_ins W p)). apply iro_NoDup; auto. Qed.

Lemma remove_extendor_get W e p j : wf_world W ->
  ext_get (remove_extendor W e p) j
  = if mem j (iro W p) then filter (fun x => negb (Nat.eqb x p)) (ext_get e j) else ext_get e j.
Proof.
  intros H. unfold remove_extendor.
  apply (ext_fold (fun old => filter (fun x => negb (Nat.eqb x p)) old)). apply iro_NoDup; auto.
Qed.

Lemma filter_split_perm {A} (f : A -> bool) l :
  Permutation (filter f l ++ filter (fun x => negb (f x)) l) l.
Proof.
  induction l as [|a l IH]; cbn; auto. destruct (f a); cbn.
  - constructor; auto.
  - apply Permutation_sym, Permutation_cons_app, Permutation_sym; auto.
Qed.

Lemma ext_ins_perm W p old : Permutation (ext_ins W p old) (p :: old).
Proof.
  unfold ext_ins. cbn. apply Permutation_sym, Permutation_cons_app, Permutation_sym, filter_split_perm.
Qed.

(* the bookkeeping part of the invariant: counts [c] and extendors [e] *)
Definition ExtOK (W : world) (c : list (spec * nat)) (e : list (spec * list spec)) : Prop :=
  NoDup (map fst c)
  /\ (forall i, NoDup (ext_get e i))
  /\ (forall i q, In q (ext_get e i) <-> (0 < cnt_get c q /\ In i (iro W q))).

Definition incr_cnt (c : list (spec * nat)) (p : spec) := aset Nat.eqb c p (S (cnt_get c p)).
Definition incr_ext (W : world) (c : list (spec * nat)) (e : list (spec * list spec)) (p : spec) :=
  if Nat.eqb (S (cnt_get c p)) 1 then add_extendor W e p else e.

Lemma incr_cnt_get c p q : cnt_get (incr_cnt c p) q = if Nat.eqb q p then S (cnt_get c p) else cnt_get c q.
Proof. apply cnt_get_aset. Qed.

Lemma incr_ok W c e p : wf_world W -> ExtOK W c e -> ExtOK W (incr_cnt c p) (incr_ext W c e p).
Proof.
  intros HW (Hc & Hn & Hi). split; [|split].
  - apply (NoDup_aset Nat.eqb Nat.eqb_eq); auto.
  - intros i. unfold incr_ext. destruct (Nat.eqb_spec (S (cnt_get c p)) 1) as [E|E]; auto.
    rewrite add_extendor_get by auto. destruct (mem i (iro W p)); auto.
    apply (Permutation_NoDup (Permutation_sym (ext_ins_perm W p _))).
    constructor; auto. rewrite Hi. lia.
  - intros i q. rewrite incr_cnt_get. unfold incr_ext.
    destruct (Nat.eqb_spec (S (cnt_get c p)) 1) as [E|E].
    + rewrite add_extendor_get by auto. destruct (mem i (iro W p)) eqn:M.
      * apply mem_In in M.
        split.
        -- intros H. apply (Permutation_in _ (ext_ins_perm W p _)) in H. destruct H as [<-|H].
           ++ rewrite Nat.eqb_refl. split; auto; lia.
           ++ apply Hi in H. destruct (Nat.eqb_spec q p); [subst; lia|auto].
        -- intros [H1 H2]. apply (Permutation_in _ (Permutation_sym (ext_ins_perm W p _))).
           destruct (Nat.eqb_spec q p) as [->|Hne]; [left; auto|right; apply Hi; auto].
      * apply mem_false in M. rewrite Hi. destruct (Nat.eqb_spec q p) as [->|Hne]; [|tauto].
        split; [lia|tauto].
    + rewrite Hi. destruct (Nat.eqb_spec q p) as [->|Hne]; [|tauto]. split; intros [H1 H2]; split; auto; lia.
Qed.

Definition decr_cnt (c : list (spec * nat)) (p : spec) (k : nat) :=
  if Nat.eqb (cnt_get c p - k) 0 then adel Nat.eqb c p else aset Nat.eqb c p (cnt_get c p - k).
Definition decr_ext (W : world) (c : list (spec * nat)) (e : list (spec * list spec)) (p : spec) (k : nat) :=
  if Nat.eqb (cnt_get c p - k) 0 then remove_extendor W e p else e.

Lemma decr_cnt_get c p k q : NoDup (map fst c) ->
  cnt_get (decr_cnt c p k) q = if Nat.eqb q p then cnt_get c p - k else cnt_get c q.
Proof.
  intros H. unfold decr_cnt. destruct (Nat.eqb_spec (cnt_get c p - k) 0) as [E|E].
  - rewrite cnt_get_adel by auto. rewrite E. auto.
  - apply cnt_get_aset.
Qed.

Lemma decr_ok W c e p k : wf_world W -> ExtOK W c e -> ExtOK W (decr_cnt c p k) (decr_ext W c e p k).
Proof.
  intros HW (Hc & Hn & Hi). split; [|split].
  - unfold decr_cnt. destruct (Nat.eqb (cnt_get c p - k) 0).
    + apply (NoDup_adel Nat.eqb); auto.
    + apply (NoDup_aset Nat.eqb Nat.eqb_eq); auto.
  - intros i. unfold decr_ext. destruct (Nat.eqb (cnt_get c p - k) 0); auto.
    rewrite remove_extendor_get by auto. destruct (mem i (iro W p)); auto. apply NoDup_filter; auto.
  - intros i q. rewrite decr_cnt_get by auto. unfold decr_ext.
    destruct (Nat.eqb_spec (cnt_get c p - k) 0) as [E|E].
    + rewrite remove_extendor_get by auto. destruct (mem i (iro W p)) eqn:M.
      * rewrite filter_In, Hi, negb_true_iff, Nat.eqb_neq.
        destruct (Nat.eqb_spec q p) as [->|Hne]; [lia|tauto].
      * apply mem_false in M. rewrite Hi. destruct (Nat.eqb_spec q p) as [->|Hne]; [|tauto].
        split; [tauto|lia].
    + rewrite Hi. destruct (Nat.eqb_spec q p) as [->|Hne]; [|tauto]. split; intros [H1 H2]; split; auto; lia.
Qed.

Lemma provide_incr_fields W r p :
  adapters (provide_incr W r p) = adapters r /\ subscribers (provide_incr W r p) = subscribers r
  /\ provided_cnt (provide_incr W r p) = incr_cnt (provided_cnt r) p
  /\ extendors (provide_incr W r p) = incr_ext W (provided_cnt r) (extendors r) p.
Proof. repeat split. Qed.

Lemma provide_decr_fields W r p k :
  adapters (provide_decr W r p k) = adapters r /\ subscribers (provide_decr W r p k) = subscribers r
  /\ provided_cnt (provide_decr W r p k) = decr_cnt (provided_cnt r) p k
  /\ extendors (provide_decr W r p k) = decr_ext W (provided_cnt r) (extendors r) p k.
Proof.
  unfold provide_decr, decr_cnt, decr_ext. destruct (Nat.eqb (cnt_get (provided_cnt r) p - k) 0); repeat split.
Qed.
