(* Compositionality of the ownership discipline (property C11).

   Model/Own.v replaces a call between two functions of the skeleton by a SUMMARY (arguments used,
   arbitrary code may run, arguments used, a new reference returned).  This file proves that the
   summary is sound for every callee that keeps to the discipline itself: INLINING a disciplined
   path of the callee at the call site — parameters replaced by the caller's arguments, locals
   renamed apart, "return v" turned into "the reference moves to the result variable" — yields a
   path of the caller that keeps to the discipline again ([inline_preserves_Dc]).  Hence, by
   induction over the call tree ([Tree], [tree_Dc]), every fully inlined path is disciplined and
   Proofs/Own.v's [discipline_safe] applies to whole call trees ([tree_safe]).

   [Dc] is [D] plus: parameters are owned after every step (a callee never gives up the caller's
   reference, not even temporarily).  It is what the generated skeleton is checked against. *)
From Coq Require Import List Arith Bool Lia.
Import ListNotations.
From ZI Require Import Model.Own Proofs.Own.

(* ------------------------------------------------------------------ Dc *)
Definition params_owned (params : list var) (d : dst) : bool :=
  forallb (fun p => is_owned (stat d p)) params.

Definition params_once (params : list var) (d : dst) : bool :=
  forallb (fun p => match stat d p with SOwned 0 => true | _ => false end) params.

(* run the events of a body (no return, no unexpanded call), checking the parameters after each *)
Definition is_return (e : ev) : bool := match e with EReturn _ => true | _ => false end.

Fixpoint dfold (strict : bool) (params : list var) (d : dst) (es : list ev) : option dst :=
  match es with
  | [] => Some d
  | e :: es' =>
      if is_return e then None else
      match dstep strict d e with
      | Some d' => if params_owned params d' then dfold strict params d' es' else None
      | None => None
      end
  end.

(* a path is given as its body and its return *)
Definition Dc_prim (strict : bool) (params : list var) (body : list ev) (r : option var) : bool :=
  nodup_nat params &&
  match dfold strict params (d_init params) body with
  | Some d => match dstep strict d (EReturn r) with
              | Some d' => d_final params d' && params_once params d'
              | None => false
              end
  | None => false
  end.

Definition Dc (strict : bool) (params : list var) (body : list ev) (r : option var) : bool :=
  Dc_prim strict params (expand body) r.

Lemma dfold_app strict ps a : forall d b,
  dfold strict ps d (a ++ b) = match dfold strict ps d a with Some d' => dfold strict ps d' b | None => None end.
Proof.
  induction a as [|e a IH]; intros d b; [reflexivity|].
  cbn [app dfold]. destruct (is_return e); auto.
  destruct (dstep strict d e) as [d'|]; auto. destruct (params_owned ps d'); auto.
Qed.

Lemma drun_cons strict d e p : is_return e = false -> p <> [] ->
  drun strict d (e :: p) = match dstep strict d e with Some d' => drun strict d' p | None => None end.
Proof. intros H N. destruct p; [congruence|]. destruct e; try discriminate; reflexivity. Qed.

Lemma dfold_drun strict ps body : forall d d' r,
  dfold strict ps d body = Some d' -> drun strict d (body ++ [EReturn r]) = dstep strict d' (EReturn r).
Proof.
  induction body as [|e body IH]; intros d d' r H.
  - cbn in H. inversion H; subst. reflexivity.
  - cbn [dfold] in H. destruct (is_return e) eqn:Er; [discriminate|].
    destruct (dstep strict d e) as [d1|] eqn:Ds; [|discriminate].
    destruct (params_owned ps d1); [|discriminate].
    cbn [app]. rewrite drun_cons; auto; [|destruct body; discriminate]. rewrite Ds. apply IH. exact H.
Qed.

Lemma Dc_prim_D strict ps body r : Dc_prim strict ps body r = true -> D strict ps (body ++ [EReturn r]) = true.
Proof.
  unfold Dc_prim, D. intros H. apply andb_true_iff in H. destruct H as [H1 H2]. rewrite H1. cbn.
  destruct (dfold strict ps (d_init ps) body) as [d|] eqn:E; [|discriminate].
  rewrite (dfold_drun strict ps body _ _ r E).
  destruct (dstep strict d (EReturn r)); [|discriminate]. apply andb_true_iff in H2. tauto.
Qed.

(* ------------------------------------------------------------------ renamings *)
Definition ren (rho : var -> var) (e : ev) : ev :=
  match e with
  | EFetchSlot v s => EFetchSlot (rho v) s
  | EFetchItem v d => EFetchItem (rho v) (rho d)
  | EFetchTuple v t => EFetchTuple (rho v) (rho t)
  | EForget => EForget
  | ENewRef v => ENewRef (rho v)
  | EIncref v => EIncref (rho v)
  | EDecref v => EDecref (rho v)
  | EMayCall => EMayCall
  | EKeyCall => EKeyCall
  | EUse v => EUse (rho v)
  | EStoreItem d v => EStoreItem (rho d) (rho v)
  | EStealItem d v => EStealItem (rho d) (rho v)
  | EStoreSlot s v => EStoreSlot s (rho v)
  | ESwapSlot s v => ESwapSlot s (rho v)
  | EClearSlot s => EClearSlot s
  | EAssumeSlot s b => EAssumeSlot s b
  | ECall f args ret => ECall f (map (option_map rho) args) (option_map rho ret)
  | EMoveRef r v => EMoveRef (rho r) (rho v)
  | EReturn r => EReturn (option_map rho r)
  end.

Definition ev_vars (e : ev) : list var :=
  match e with
  | EFetchSlot v _ | ENewRef v | EIncref v | EDecref v | EUse v | EStoreSlot _ v | ESwapSlot _ v => [v]
  | EFetchItem v d | EStoreItem d v | EStealItem d v | EMoveRef v d | EFetchTuple v d => [v; d]
  | EMayCall | EKeyCall | EClearSlot _ | EAssumeSlot _ _ | EForget => []
  | ECall _ args ret => somes args ++ match ret with Some r => [r] | None => [] end
  | EReturn r => match r with Some v => [v] | None => [] end
  end.

Definition prim (e : ev) : Prop := match e with ECall _ _ _ | EReturn _ => False | _ => True end.

Lemma prim_not_return e : prim e -> is_return e = false.
Proof. destruct e; cbn; tauto. Qed.

Lemma ren_not_return rho e : is_return (ren rho e) = is_return e.
Proof. destruct e; reflexivity. Qed.

Lemma somes_map {A B} (f : A -> B) l : somes (map (option_map f) l) = map f (somes l).
Proof. induction l as [|[a|] l IH]; cbn; congruence. Qed.

Lemma expand_ren rho p : expand (map (ren rho) p) = map (ren rho) (expand p).
Proof.
  unfold expand. induction p as [|e p IH]; [reflexivity|]. cbn [map flat_map]. rewrite map_app, IH. f_equal.
  destruct e; try reflexivity. cbn [ren expand_ev]. rewrite somes_map, !map_app, !map_map. cbn.
  destruct ret; reflexivity.
Qed.

Lemma expand_app a b : expand (a ++ b) = expand a ++ expand b.
Proof. unfold expand. apply flat_map_app. Qed.

Lemma Forall_map_use (l : list var) : Forall prim (map EUse l).
Proof. induction l; cbn; constructor; auto. exact I. Qed.

Lemma expand_ev_prim e : is_return e = false -> Forall prim (expand_ev e).
Proof.
  destruct e; cbn [is_return expand_ev]; intros H; try discriminate; try (constructor; [exact I | constructor]).
  apply Forall_app. split; [apply Forall_map_use|].
  constructor; [exact I|]. constructor; [exact I|]. apply Forall_app. split; [apply Forall_map_use|].
  destruct ret; [constructor; [exact I | constructor] | constructor].
Qed.

Definition no_ret (p : list ev) : bool := forallb (fun e => negb (is_return e)) p.

Lemma expand_prim p : no_ret p = true -> Forall prim (expand p).
Proof.
  induction p as [|e p IH]; intros H; [constructor|].
  cbn in H. apply andb_true_iff in H. destruct H as [H1 H2]. apply negb_true_iff in H1.
  change (expand (e :: p)) with (expand_ev e ++ expand p). apply Forall_app. split; auto.
  apply expand_ev_prim; auto.
Qed.

(* ------------------------------------------------------------------ the simulation *)
Section SimSec.
  Variable strict : bool.
  Variable rho : var -> var.
  Variable shift : var -> nat.
  Variable dom : var -> Prop.
  Variable d0 : dst.
  Hypothesis rho_inj : forall v w, dom v -> dom w -> rho v = rho w -> v = w.

  (* status x of a callee variable against status y of its image; n = references the caller holds
     through the image on top of the callee's *)
  Definition R (x y : vstat) (n : nat) : Prop :=
    match x with
    | SOwned c => y = SOwned (c + n)
    | SFresh => n = 0 /\ y = SFresh
    | SVia t => n = 0 /\ y = SVia (rho t) /\ dom t
    | SStale => n = 0 /\ is_owned y = false
    end.

  Definition outer (u : var) : Prop := forall v, dom v -> rho v <> u.

  Record Sim (dq di : dst) : Prop := mkSim {
    sim_v : forall v, dom v -> R (stat dq v) (stat di (rho v)) (shift v);
    sim_o : forall u, outer u -> forall c, stat d0 u = SOwned c <-> stat di u = SOwned c;
    sim_e : incl (d_empty dq) (d_empty di);
    sim_f : incl (d_full dq) (d_full di)
  }.

  Definition ev_dom (e : ev) : Prop := prim e /\ forall v, In v (ev_vars e) -> dom v.

  Lemma stat_set_rho di v y w : dom v -> dom w ->
    stat (set_stat di (rho v) y) (rho w) = if Nat.eqb w v then y else stat di (rho w).
  Proof.
    intros Dv Dw. rewrite stat_set_stat. destruct (Nat.eqb w v) eqn:E.
    - apply Nat.eqb_eq in E. subst. rewrite Nat.eqb_refl. reflexivity.
    - destruct (Nat.eqb (rho w) (rho v)) eqn:E2; auto.
      apply Nat.eqb_eq in E2. apply rho_inj in E2; auto. subst. rewrite Nat.eqb_refl in E. discriminate.
  Qed.

  Lemma stat_set_outer di v y u : dom v -> outer u -> stat (set_stat di (rho v) y) u = stat di u.
  Proof.
    intros Dv Ou. rewrite stat_set_stat. destruct (Nat.eqb u (rho v)) eqn:E; auto.
    apply Nat.eqb_eq in E. exfalso. apply (Ou v Dv). auto.
  Qed.

  Lemma Sim_set dq di v x y : Sim dq di -> dom v -> R x y (shift v) ->
    Sim (set_stat dq v x) (set_stat di (rho v) y).
  Proof.
    intros S Dv Rxy. constructor.
    - intros w Dw. rewrite stat_set_stat, stat_set_rho by auto. destruct (Nat.eqb w v) eqn:E.
      + apply Nat.eqb_eq in E. subst. exact Rxy.
      + apply (sim_v _ _ S); auto.
    - intros u Ou c. rewrite stat_set_outer by auto. apply (sim_o _ _ S); auto.
    - apply S.
    - apply S.
  Qed.

  Lemma R_demote x y n : R x y n -> R (demote x) (demote y) n.
  Proof.
    destruct x; cbn.
    - intros [H1 H2]. split; auto. destruct y; auto.
    - intros [H1 H2]. subst. cbn. auto.
    - intros [H1 [H2 H3]]. subst. cbn. auto.
    - intros ->. reflexivity.
  Qed.

  Lemma Sim_unvia dq di v : Sim dq di -> dom v -> Sim (unvia v dq) (unvia (rho v) di).
  Proof.
    intros S Dv. constructor.
    - intros w Dw. pose proof (sim_v _ _ S w Dw) as H. rewrite !stat_unvia.
      destruct (stat dq w) eqn:E; cbn in H |- *.
      + destruct H as [H1 H2]. split; auto. destruct (stat di (rho w)); auto. destruct (Nat.eqb t (rho v)); auto.
      + destruct H as [H1 H2]. rewrite H2. auto.
      + destruct H as [H1 [H2 H3]]. rewrite H2. destruct (Nat.eqb t v) eqn:Et.
        * apply Nat.eqb_eq in Et. subst t. rewrite Nat.eqb_refl. cbn. auto.
        * destruct (Nat.eqb (rho t) (rho v)) eqn:Er.
          -- apply Nat.eqb_eq in Er. apply rho_inj in Er; auto. subst. rewrite Nat.eqb_refl in Et. discriminate.
          -- cbn. auto.
      + rewrite H. reflexivity.
    - intros u Ou c. rewrite (sim_o _ _ S u Ou c). rewrite stat_unvia.
      destruct (stat di u); try (split; congruence). destruct (Nat.eqb t (rho v)); split; congruence.
    - apply S.
    - apply S.
  Qed.

  Lemma Sim_reassign dq di v x y : Sim dq di -> dom v -> R x y (shift v) ->
    Sim (reassign dq v x) (reassign di (rho v) y).
  Proof. intros S Dv Rxy. unfold reassign. apply Sim_set; auto. apply Sim_unvia; auto. Qed.

  Lemma Sim_forget dq di : Sim dq di -> Sim (forget dq) (forget di).
  Proof.
    intros S. constructor.
    - intros w Dw. pose proof (sim_v _ _ S w Dw) as H. rewrite !stat_forget.
      destruct (stat dq w) eqn:E; cbn in H |- *.
      + destruct H as [H1 H2]. split; auto. destruct (stat di (rho w)); auto.
      + destruct H as [H1 H2]. rewrite H2. auto.
      + destruct H as [H1 [H2 H3]]. rewrite H2. cbn. auto.
      + rewrite H. reflexivity.
    - intros u Ou c. rewrite (sim_o _ _ S u Ou c). rewrite stat_forget.
      destruct (stat di u); split; congruence.
    - apply S.
    - apply S.
  Qed.

  Lemma Sim_inval dq di : Sim dq di -> Sim (invalidate dq) (invalidate di).
  Proof.
    intros S. constructor.
    - intros v Dv. rewrite !stat_invalidate. apply R_demote. apply (sim_v _ _ S); auto.
    - intros u Ou c. rewrite stat_invalidate. rewrite (sim_o _ _ S u Ou c).
      destruct (stat di u); cbn; split; congruence.
    - cbn. apply incl_refl.
    - cbn. apply incl_refl.
  Qed.

  Lemma R_valid dq di v : Sim dq di -> dom v -> valid dq v = true -> valid di (rho v) = true.
  Proof.
    intros S Dv V. pose proof (sim_v _ _ S v Dv) as H. unfold valid in *.
    destruct (stat dq v) eqn:Es; try discriminate; cbn in H.
    - destruct H as [_ ->]. reflexivity.
    - destruct H as [_ [-> Dt]]. pose proof (sim_v _ _ S t Dt) as Ht.
      destruct (stat dq t); try discriminate. cbn in Ht. rewrite Ht. reflexivity.
    - rewrite H. reflexivity.
  Qed.

  Lemma R_not_owned dq di v : Sim dq di -> dom v -> is_owned (stat dq v) = false ->
    shift v = 0 /\ is_owned (stat di (rho v)) = false.
  Proof.
    intros S Dv V. pose proof (sim_v _ _ S v Dv) as H.
    destruct (stat dq v); try discriminate; cbn in H.
    - tauto.
    - destruct H as [H ->]. auto.
    - destruct H as [H [-> _]]. auto.
  Qed.

  Lemma Sim_slots dq di e1 f1 e2 f2 : Sim dq di -> incl e1 e2 -> incl f1 f2 ->
    Sim (mkD (d_stat dq) e1 f1) (mkD (d_stat di) e2 f2).
  Proof. intros S He Hf. constructor; try apply S; auto. Qed.

  (* giving up one reference *)
  Lemma Sim_drop dq di v after dq1 : Sim dq di -> dom v -> (after = SFresh \/ after = SStale) ->
    drop_one dq v after = Some dq1 ->
    (shift v > 0 -> is_owned (stat dq1 v) = true) ->
    exists di1, drop_one di (rho v) after = Some di1 /\ Sim dq1 di1 /\
                d_empty di1 = d_empty di /\ d_full di1 = d_full di /\
                d_empty dq1 = d_empty dq /\ d_full dq1 = d_full dq.
  Proof.
    intros S Dv Ha Dr SH. pose proof (sim_v _ _ S v Dv) as H. unfold drop_one in *.
    destruct (stat dq v) as [| | |[|c]] eqn:E; try discriminate; inversion Dr; subst dq1; clear Dr; cbn in H.
    - assert (Z : shift v = 0).
      { destruct (shift v) eqn:Es; auto. exfalso. rewrite stat_set_stat, Nat.eqb_refl in SH.
        assert (is_owned after = true) by (apply SH; lia). destruct Ha as [-> | ->]; discriminate. }
      rewrite Z in H. cbn in H. rewrite H. eexists. split; [reflexivity|]. split; [|auto].
      apply Sim_set; [apply Sim_unvia; auto | auto |]. rewrite Z. destruct Ha as [-> | ->]; cbn; auto.
    - rewrite H. cbn. eexists. split; [reflexivity|]. split; [|auto].
      apply Sim_set; auto. cbn. reflexivity.
  Qed.

  Variable cps : list var.       (* the parameters checked on the image side *)

  (* one step *)
  Lemma sim_step dq di e dq' : Sim dq di -> ev_dom e -> dstep strict dq e = Some dq' ->
    (forall v, dom v -> shift v > 0 -> is_owned (stat dq' v) = true) ->
    exists di', dstep strict di (ren rho e) = Some di' /\ Sim dq' di'.
  Proof.
    intros S [Pe De] Ds SH.
    assert (Dv : forall v, In v (ev_vars e) -> dom v) by exact De.
    destruct e; cbn [prim] in Pe; try contradiction; cbn [dstep ren] in *; cbn [ev_vars] in Dv.
    - (* EFetchSlot *)
      assert (D1 : dom v) by (apply Dv; cbn; tauto).
      destruct (negb (is_owned (stat dq v)) && mem s (d_full dq)) eqn:C; [|discriminate]. inversion Ds; subst dq'.
      apply andb_true_iff in C. destruct C as [C1 C2]. apply negb_true_iff in C1.
      destruct (R_not_owned _ _ v S D1 C1) as [Z N]. rewrite N. cbn [negb andb].
      assert (M : mem s (d_full di) = true).
      { apply mem_In. apply (sim_f _ _ S). apply mem_In. exact C2. }
      rewrite M. eexists. split; [reflexivity|]. apply Sim_reassign; auto. rewrite Z. cbn. auto.
    - (* EFetchItem *)
      assert (D1 : dom v) by (apply Dv; cbn; tauto). assert (D2 : dom d) by (apply Dv; cbn; tauto).
      destruct (negb (is_owned (stat dq v)) && valid dq d) eqn:C; [|discriminate]. inversion Ds; subst dq'.
      apply andb_true_iff in C. destruct C as [C1 C2]. apply negb_true_iff in C1.
      destruct (R_not_owned _ _ v S D1 C1) as [Z N]. rewrite N, (R_valid _ _ d S D2 C2). cbn.
      eexists. split; [reflexivity|]. apply Sim_reassign; auto. rewrite Z. cbn. auto.
    - (* EFetchTuple *)
      assert (D1 : dom v) by (apply Dv; cbn; tauto). assert (D2 : dom t) by (apply Dv; cbn; tauto).
      destruct (negb (is_owned (stat dq v)) && is_owned (stat dq t) && negb (Nat.eqb v t)) eqn:C; [|discriminate].
      inversion Ds; subst dq'. apply andb_true_iff in C. destruct C as [C C3]. apply andb_true_iff in C. destruct C as [C1 C2].
      apply negb_true_iff in C1, C3. apply Nat.eqb_neq in C3.
      destruct (R_not_owned _ _ v S D1 C1) as [Z N]. rewrite N.
      assert (Ot : is_owned (stat di (rho t)) = true).
      { pose proof (sim_v _ _ S t D2) as Ht. destruct (stat dq t); try discriminate. cbn in Ht. rewrite Ht. reflexivity. }
      assert (Ne : Nat.eqb (rho v) (rho t) = false).
      { apply Nat.eqb_neq. intros F. apply rho_inj in F; auto. }
      rewrite Ot, Ne. cbn. eexists. split; [reflexivity|]. apply Sim_reassign; auto. rewrite Z. cbn. auto.
    - (* EForget *) inversion Ds; subst. eexists. split; [reflexivity|]. apply Sim_forget; auto.
    - (* ENewRef *)
      assert (D1 : dom v) by (apply Dv; cbn; tauto).
      destruct (negb (is_owned (stat dq v))) eqn:C; [|discriminate]. inversion Ds; subst dq'.
      apply negb_true_iff in C. destruct (R_not_owned _ _ v S D1 C) as [Z N]. rewrite N. cbn.
      eexists. split; [reflexivity|]. apply Sim_reassign; auto. rewrite Z. cbn. reflexivity.
    - (* EIncref *)
      assert (D1 : dom v) by (apply Dv; cbn; tauto).
      destruct (valid dq v) eqn:V; [|discriminate]. inversion Ds; subst dq'.
      rewrite (R_valid _ _ v S D1 V). eexists. split; [reflexivity|].
      pose proof (sim_v _ _ S v D1) as H. unfold valid in V.
      destruct (stat dq v) eqn:Es; try discriminate; cbn in H.
      + destruct H as [Z ->]. apply Sim_reassign; auto. rewrite Z. cbn. reflexivity.
      + destruct H as [Z [-> _]]. apply Sim_reassign; auto. rewrite Z. cbn. reflexivity.
      + rewrite H. apply Sim_set; auto. cbn. reflexivity.
    - (* EDecref *)
      assert (D1 : dom v) by (apply Dv; cbn; tauto).
      destruct (drop_one dq v SStale) as [dq1|] eqn:Dr; [|discriminate]. inversion Ds; subst dq'.
      destruct (Sim_drop _ _ v SStale dq1 S D1 (or_intror eq_refl) Dr) as [di1 [E1 [S1 _]]].
      { intros P. specialize (SH v D1 P). rewrite stat_invalidate in SH. destruct (stat dq1 v); auto. }
      rewrite E1. cbn. eexists. split; [reflexivity|]. apply Sim_inval; auto.
    - (* EMayCall *) inversion Ds; subst. eexists. split; [reflexivity|]. apply Sim_inval; auto.
    - (* EKeyCall *) inversion Ds; subst. eexists. split; [reflexivity|]. destruct strict; [apply Sim_inval|]; auto.
    - (* EUse *)
      assert (D1 : dom v) by (apply Dv; cbn; tauto).
      destruct (valid dq v) eqn:V; [|discriminate]. inversion Ds; subst dq'.
      rewrite (R_valid _ _ v S D1 V). eexists. split; [reflexivity|]. auto.
    - (* EStoreItem *)
      assert (D1 : dom d) by (apply Dv; cbn; tauto). assert (D2 : dom v) by (apply Dv; cbn; tauto).
      destruct (valid dq d && valid dq v) eqn:V; [|discriminate]. inversion Ds; subst dq'.
      apply andb_true_iff in V. destruct V as [V1 V2].
      rewrite (R_valid _ _ d S D1 V1), (R_valid _ _ v S D2 V2). eexists. split; [reflexivity|]. auto.
    - (* EStealItem *)
      assert (D1 : dom d) by (apply Dv; cbn; tauto). assert (D2 : dom v) by (apply Dv; cbn; tauto).
      destruct (valid dq d && negb (Nat.eqb d v)) eqn:V; [|discriminate].
      apply andb_true_iff in V. destruct V as [V1 V2]. apply negb_true_iff in V2. apply Nat.eqb_neq in V2.
      rewrite (R_valid _ _ d S D1 V1).
      assert (N : Nat.eqb (rho d) (rho v) = false).
      { apply Nat.eqb_neq. intros F. apply rho_inj in F; auto. }
      rewrite N. cbn.
      destruct (Sim_drop _ _ v SFresh dq' S D2 (or_introl eq_refl) Ds (SH v D2)) as [di1 [E1 [S1 _]]].
      eexists. split; [exact E1 | exact S1].
    - (* EStoreSlot *)
      assert (D1 : dom v) by (apply Dv; cbn; tauto).
      destruct (mem s (d_empty dq)) eqn:M; [|discriminate].
      destruct (drop_one dq v SFresh) as [dq1|] eqn:Dr; [|discriminate]. inversion Ds; subst dq'.
      assert (M' : mem s (d_empty di) = true).
      { apply mem_In. apply (sim_e _ _ S). apply mem_In. exact M. }
      rewrite M'.
      destruct (Sim_drop _ _ v SFresh dq1 S D1 (or_introl eq_refl) Dr) as [di1 [E1 [S1 [A1 [A2 [A3 A4]]]]]].
      { intros P. specialize (SH v D1 P). exact SH. }
      rewrite E1. cbn. eexists. split; [reflexivity|].
      apply Sim_slots; auto.
      + rewrite A1, A3. unfold remove_nat. intros x Hx. apply filter_In in Hx. destruct Hx as [Hx1 Hx2].
        apply filter_In. split; auto. apply (sim_e _ _ S); auto.
      + rewrite A2, A4. intros x [Hx|Hx]; [left; auto | right; apply (sim_f _ _ S); auto].
    - (* ESwapSlot *)
      assert (D1 : dom v) by (apply Dv; cbn; tauto).
      destruct (drop_one dq v SFresh) as [dq1|] eqn:Dr; [|discriminate]. inversion Ds; subst dq'.
      destruct (Sim_drop _ _ v SFresh dq1 S D1 (or_introl eq_refl) Dr) as [di1 [E1 [S1 _]]].
      { intros P. specialize (SH v D1 P). rewrite stat_invalidate in SH. destruct (stat dq1 v); auto. }
      rewrite E1. cbn. eexists. split; [reflexivity|]. apply Sim_inval; auto.
    - (* EClearSlot *) inversion Ds; subst. eexists. split; [reflexivity|]. apply Sim_inval; auto.
    - (* EAssumeSlot *)
      inversion Ds; subst. eexists. split; [reflexivity|]. destruct full.
      + apply (Sim_slots dq di); auto; [apply S|]. intros x [Hx|Hx]; [left; auto | right; apply (sim_f _ _ S); auto].
      + apply (Sim_slots dq di); auto; [|apply S]. intros x [Hx|Hx]; [left; auto | right; apply (sim_e _ _ S); auto].
    - (* EMoveRef *)
      assert (D1 : dom r) by (apply Dv; cbn; tauto). assert (D2 : dom v) by (apply Dv; cbn; tauto).
      destruct (negb (is_owned (stat dq r)) && negb (Nat.eqb r v)) eqn:C; [|discriminate].
      apply andb_true_iff in C. destruct C as [C1 C2]. apply negb_true_iff in C1, C2. apply Nat.eqb_neq in C2.
      destruct (drop_one dq v SStale) as [dq1|] eqn:Dr; [|discriminate]. inversion Ds; subst dq'.
      destruct (R_not_owned _ _ r S D1 C1) as [Z N]. rewrite N.
      assert (Ne : Nat.eqb (rho r) (rho v) = false).
      { apply Nat.eqb_neq. intros F. apply rho_inj in F; auto. }
      rewrite Ne. cbn.
      destruct (Sim_drop _ _ v SStale dq1 S D2 (or_intror eq_refl) Dr) as [di1 [E1 [S1 _]]].
      { intros P. specialize (SH v D2 P). rewrite stat_reassign in SH.
        destruct (Nat.eqb v r) eqn:E; [apply Nat.eqb_eq in E; congruence|]. rewrite owned_unvia in SH. exact SH. }
      rewrite E1. cbn. eexists. split; [reflexivity|]. apply Sim_reassign; auto. rewrite Z. cbn. reflexivity.
  Qed.

  (* whole bodies: the callee side is checked against its parameters [gps], the image side against [cps] *)
  Variable gps : list var.
  Hypothesis shift_params : forall v, dom v -> shift v > 0 -> In v gps.
  Hypothesis cps_owned : forall dq di, Sim dq di -> params_owned gps dq = true -> params_owned cps di = true.

  Lemma sim_fold es : forall dq di dq', Sim dq di -> Forall ev_dom es ->
    dfold strict gps dq es = Some dq' ->
    exists di', dfold strict cps di (map (ren rho) es) = Some di' /\ Sim dq' di'.
  Proof.
    induction es as [|e es IH]; intros dq di dq' S Fa H.
    - cbn in H. inversion H; subst. exists di. split; auto.
    - inversion Fa as [|x l Fe Fr]; subst.
      pose proof (prim_not_return e (proj1 Fe)) as Nr.
      cbn [dfold] in H. rewrite Nr in H.
      destruct (dstep strict dq e) as [dq1|] eqn:Ds; [|discriminate].
      destruct (params_owned gps dq1) eqn:Po; [|discriminate]. rename H into Hr.
      destruct (sim_step dq di e dq1 S Fe Ds) as [di1 [Es S1]].
      { intros v Dv P. unfold params_owned in Po. rewrite forallb_forall in Po. apply Po. apply shift_params; auto. }
      destruct (IH _ _ _ S1 Fr Hr) as [di' [E' S']]. exists di'. split; auto.
      assert (Pc : params_owned cps di1 = true) by (eapply cps_owned; eauto).
      cbn [map dfold]. rewrite ren_not_return, Nr, Es, Pc. exact E'.
  Qed.
End SimSec.

(* ------------------------------------------------------------------ "at least as permissive" *)
(* what a status is after a call summary: borrowed pointers of every kind are given up *)
Definition dem2 (x : vstat) : vstat := match x with SFresh | SVia _ => SStale | _ => x end.

Lemma stat_forget_inval d w : stat (forget (invalidate d)) w = dem2 (stat d w).
Proof. rewrite stat_forget, stat_invalidate. destruct (stat d w); reflexivity. Qed.

Definition idv (v : var) : var := v.
Definition LE (d1 d2 : dst) : Prop := Sim idv (fun _ => 0) (fun _ => True) d1 d1 d2.

Lemma idv_inj : forall v w : var, True -> True -> idv v = idv w -> v = w.
Proof. intros v w _ _ H. exact H. Qed.

Lemma ren_id e : ren idv e = e.
Proof.
  destruct e; cbn; try reflexivity.
  - f_equal; [|destruct ret; reflexivity]. induction args as [|[a|] l IH]; cbn; unfold idv in *; congruence.
  - destruct r; reflexivity.
Qed.

Lemma map_ren_id es : map (ren idv) es = es.
Proof. induction es as [|e es IH]; cbn; [|rewrite ren_id, IH]; reflexivity. Qed.

Lemma LE_refl d : LE d d.
Proof.
  constructor.
  - intros v _. unfold idv. destruct (stat d v); cbn; auto; try (rewrite Nat.add_0_r; reflexivity).
  - intros u Ou. exfalso. apply (Ou u I). reflexivity.
  - apply incl_refl.
  - apply incl_refl.
Qed.

Notation R0 := (R idv (fun _ => True)).

Lemma LE_stat d1 d2 v : LE d1 d2 -> R0 (stat d1 v) (stat d2 v) 0.
Proof. intros L. exact (sim_v _ _ _ _ _ _ L v I). Qed.

Lemma LE_intro d1 d2 : (forall v, R0 (stat d1 v) (stat d2 v) 0) ->
  incl (d_empty d1) (d_empty d2) -> incl (d_full d1) (d_full d2) -> LE d1 d2.
Proof.
  intros H He Hf. constructor; [intros v _; exact (H v) | | exact He | exact Hf].
  intros u Ou. exfalso. apply (Ou u I). reflexivity.
Qed.

Lemma LE_owned ps d1 d2 : LE d1 d2 -> params_owned ps d1 = true -> params_owned ps d2 = true.
Proof.
  intros L H. unfold params_owned in *. rewrite forallb_forall in *. intros p Hp. specialize (H p Hp).
  pose proof (LE_stat _ _ p L) as Rp. destruct (stat d1 p); try discriminate. cbn in Rp. rewrite Rp. reflexivity.
Qed.

Lemma LE_fold strict ps es : forall d1 d2 d1', LE d1 d2 -> Forall prim es ->
  dfold strict ps d1 es = Some d1' -> exists d2', dfold strict ps d2 es = Some d2' /\ LE d1' d2'.
Proof.
  intros d1 d2 d1' L Fp H.
  assert (SF : forall dq di dq', Sim idv (fun _ => 0) (fun _ => True) d1 dq di ->
                 dfold strict ps dq es = Some dq' ->
                 exists di', dfold strict ps di (map (ren idv) es) = Some di' /\
                             Sim idv (fun _ => 0) (fun _ => True) d1 dq' di').
  { intros dq di dq' S Hq. eapply (sim_fold strict idv (fun _ => 0) (fun _ => True) d1 idv_inj ps ps); eauto.
    - intros v _ F. lia.
    - intros dq0 di0 S0 P0. unfold params_owned in *. rewrite forallb_forall in *. intros p Hp. specialize (P0 p Hp).
      pose proof (sim_v _ _ _ _ _ _ S0 p I) as Rp. destruct (stat dq0 p); try discriminate. cbn in Rp.
      unfold idv in Rp. rewrite Rp. reflexivity.
    - apply Forall_forall. intros e He. split; [eapply Forall_forall; eauto | auto]. }
  destruct (SF d1 d2 d1' L H) as [d2' [E S]]. rewrite map_ren_id in E. exists d2'. split; auto.
  (* re-base the reference state, which is irrelevant for idv *)
  apply LE_intro; [intros v; exact (sim_v _ _ _ _ _ _ S v I) | apply S | apply S].
Qed.

Lemma LE_return strict d1 d2 r d1' : LE d1 d2 -> dstep strict d1 (EReturn r) = Some d1' ->
  exists d2', dstep strict d2 (EReturn r) = Some d2' /\ LE d1' d2'.
Proof.
  intros L H. cbn [dstep] in *. destruct r as [v|].
  - destruct (Sim_drop idv (fun _ => 0) (fun _ => True) d1 idv_inj d1 d2 v SStale d1' L I (or_intror eq_refl) H)
      as [d2' [E [S _]]]; [intros F; lia|].
    exists d2'. split; [exact E|]. apply LE_intro; [intros w; exact (sim_v _ _ _ _ _ _ S w I) | apply S | apply S].
  - inversion H; subst. exists d2. split; auto.
Qed.

Lemma stat_owned_entry d v n : stat d v = SOwned n -> exists x, In (v, x) (d_stat d).
Proof.
  unfold stat. destruct (lookup (d_stat d) v) eqn:E; [|discriminate]. intros _. eapply lookup_Some_In; eauto.
Qed.

Lemma LE_final ps d1 d2 : LE d1 d2 -> d_final ps d1 = true -> params_once ps d1 = true ->
  d_final ps d2 = true /\ params_once ps d2 = true.
Proof.
  intros L F O.
  assert (O2 : params_once ps d2 = true).
  { unfold params_once in *. rewrite forallb_forall in *. intros p Hp. specialize (O p Hp).
    pose proof (LE_stat _ _ p L) as Rp. destruct (stat d1 p) as [| | |[|n]]; try discriminate. cbn in Rp. rewrite Rp. reflexivity. }
  split; auto. unfold d_final in *. rewrite forallb_forall in *. intros [v x] Hv. cbn [fst].
  pose proof (LE_stat _ _ v L) as Rv.
  assert (NP : is_owned (stat d2 v) = false -> negb (mem v ps) = true).
  { intros No. apply negb_true_iff. destruct (mem v ps) eqn:M; auto. apply mem_In in M.
    unfold params_once in O2. rewrite forallb_forall in O2. specialize (O2 v M).
    destruct (stat d2 v) as [| | |[|n]]; discriminate. }
  destruct (stat d2 v) as [| | |n] eqn:E2; try (apply NP; reflexivity).
  destruct (stat d1 v) as [| | |m] eqn:E1; cbn in Rv.
  - destruct Rv as [_ Rv]. discriminate.
  - destruct Rv as [_ Rv]. discriminate.
  - destruct Rv as [_ [Rv _]]. discriminate.
  - inversion Rv. rewrite Nat.add_0_r in *. subst n.
    destruct (stat_owned_entry d1 v m E1) as [y Hy]. specialize (F (v, y) Hy). cbn [fst] in F. rewrite E1 in F. exact F.
Qed.

(* ------------------------------------------------------------------ events that do not mention a variable *)
Lemma stale_set d v x w : w <> v -> stat d w = SStale -> stat (set_stat d v x) w = SStale.
Proof. intros N H. rewrite stat_set_stat. destruct (Nat.eqb w v) eqn:E; auto. apply Nat.eqb_eq in E. congruence. Qed.

Lemma stale_unvia d t w : stat d w = SStale -> stat (unvia t d) w = SStale.
Proof. intros H. rewrite stat_unvia, H. reflexivity. Qed.

Lemma stale_reassign d v x w : w <> v -> stat d w = SStale -> stat (reassign d v x) w = SStale.
Proof. intros N H. unfold reassign. apply stale_set; auto. apply stale_unvia; auto. Qed.

Lemma stale_invalidate d w : stat d w = SStale -> stat (invalidate d) w = SStale.
Proof. intros H. rewrite stat_invalidate, H. reflexivity. Qed.

Lemma stale_forget d w : stat d w = SStale -> stat (forget d) w = SStale.
Proof. intros H. rewrite stat_forget, H. reflexivity. Qed.

Lemma stale_drop d v after d1 w : drop_one d v after = Some d1 -> w <> v -> stat d w = SStale -> stat d1 w = SStale.
Proof.
  unfold drop_one. intros H N S. destruct (stat d v) as [| | |[|n]]; try discriminate; inversion H; subst.
  - apply stale_set; auto. apply stale_unvia; auto.
  - apply stale_set; auto.
Qed.

Lemma dstep_other strict d e d' w : dstep strict d e = Some d' -> ~ In w (ev_vars e) ->
  stat d w = SStale -> stat d' w = SStale.
Proof.
  intros H N S. destruct e; cbn [dstep ev_vars] in *.
  - destruct (negb _ && _); inversion H; subst. apply stale_reassign; auto. intros F. apply N; cbn; auto.
  - destruct (negb _ && _); inversion H; subst. apply stale_reassign; auto. intros F. apply N; cbn; auto.
  - destruct (negb _ && _ && _); inversion H; subst. apply stale_reassign; auto. intros F. apply N; cbn; auto.
  - inversion H; subst. apply stale_forget; auto.
  - destruct (negb _); inversion H; subst. apply stale_reassign; auto. intros F. apply N; cbn; auto.
  - destruct (valid d v); inversion H; subst. destruct (stat d v).
    + apply stale_reassign; auto. intros F. apply N; cbn; auto.
    + apply stale_reassign; auto. intros F. apply N; cbn; auto.
    + apply stale_reassign; auto. intros F. apply N; cbn; auto.
    + apply stale_set; auto. intros F. apply N; cbn; auto.
  - destruct (drop_one d v SStale) as [d1|] eqn:Dr; inversion H; subst. apply stale_invalidate.
    eapply stale_drop; eauto. intros F. apply N; cbn; auto.
  - inversion H; subst. apply stale_invalidate; auto.
  - inversion H; subst. destruct strict; [apply stale_invalidate|]; auto.
  - destruct (valid d v); inversion H; subst. auto.
  - destruct (valid d d0 && valid d v); inversion H; subst. auto.
  - destruct (valid d d0 && negb (Nat.eqb d0 v)); [|discriminate]. eapply stale_drop; eauto.
    intros F. apply N; subst; cbn; auto.
  - destruct (mem s (d_empty d)); [|discriminate]. destruct (drop_one d v SFresh) as [d1|] eqn:Dr; inversion H; subst.
    change (stat d1 w = SStale). eapply stale_drop; eauto. intros F. apply N; cbn; auto.
  - destruct (drop_one d v SFresh) as [d1|] eqn:Dr; inversion H; subst. apply stale_invalidate.
    eapply stale_drop; eauto. intros F. apply N; cbn; auto.
  - inversion H; subst. apply stale_invalidate; auto.
  - inversion H; subst. destruct full; exact S.
  - discriminate.
  - destruct (negb _ && _); [|discriminate]. destruct (drop_one d v SStale) as [d1|] eqn:Dr; inversion H; subst.
    apply stale_reassign; [intros F; apply N; subst; cbn; auto|].
    eapply stale_drop; eauto. intros F. apply N; subst; cbn; auto.
  - destruct r as [v|]; [|inversion H; subst; auto]. eapply stale_drop; eauto.
    intros F. apply N; cbn; auto.
Qed.

Lemma dfold_untouched strict ps es : forall d d' w, dfold strict ps d es = Some d' ->
  (forall e, In e es -> ~ In w (ev_vars e)) -> stat d w = SStale -> stat d' w = SStale.
Proof.
  induction es as [|e es IH]; intros d d' w H N S; cbn [dfold] in H.
  - inversion H; subst; auto.
  - destruct (is_return e); [discriminate|]. destruct (dstep strict d e) as [d1|] eqn:Ds; [|discriminate].
    destruct (params_owned ps d1); [|discriminate].
    apply (IH d1 d' w H); [intros x Hx; apply N; right; auto|].
    exact (dstep_other strict d e d1 w Ds (N e (or_introl eq_refl)) S).
Qed.

Lemma dfold_uses strict ps l : forall d d', dfold strict ps d (map EUse l) = Some d' ->
  d' = d /\ forall a, In a l -> valid d a = true.
Proof.
  induction l as [|a l IH]; intros d d' H; cbn [map dfold is_return] in H.
  - inversion H; subst. split; [auto | intros a []].
  - cbn [dstep] in H. destruct (valid d a) eqn:V; [|discriminate]. destruct (params_owned ps d); [|discriminate].
    destruct (IH d d' H) as [E F]. split; auto. intros x [Hx|Hx]; [subst; auto | auto].
Qed.

(* ------------------------------------------------------------------ binding parameters to arguments *)
Fixpoint bind (gps : list var) (args : list (option var)) : list (var * var) :=
  match gps, args with
  | p :: gps', Some a :: args' => (p, a) :: bind gps' args'
  | _ :: gps', None :: args' => bind gps' args'
  | _, _ => []
  end.

Lemma bind_args gps : forall args, length args = length gps -> map snd (bind gps args) = somes args.
Proof.
  induction gps as [|p gps IH]; intros [|[a|] args] H; cbn in *; try discriminate; auto;
    try f_equal; apply IH; lia.
Qed.

Lemma bind_keys gps : forall args p a, In (p, a) (bind gps args) -> In p gps.
Proof.
  induction gps as [|q gps IH]; intros [|[b|] args] p a H; cbn in *; try tauto.
  - destruct H as [H|H]; [inversion H; auto | right; eapply IH; eauto].
  - right; eapply IH; eauto.
Qed.

Lemma lookup_In {A} (l : list (nat * A)) k a : lookup l k = Some a -> In (k, a) l.
Proof.
  induction l as [|[k' a'] l IH]; cbn; [discriminate|]. destruct (Nat.eqb k k') eqn:E; intros H.
  - apply Nat.eqb_eq in E. inversion H; subst. left; auto.
  - right; auto.
Qed.

Lemma In_lookup_nodup (l : list (nat * nat)) k a : NoDup (map fst l) -> In (k, a) l -> lookup l k = Some a.
Proof.
  induction l as [|[k' a'] l IH]; cbn; [tauto|]. intros N [H|H].
  - inversion H; subst. rewrite Nat.eqb_refl. reflexivity.
  - inversion N; subst. destruct (Nat.eqb k k') eqn:E; [|auto].
    apply Nat.eqb_eq in E. subst. exfalso. apply H2. apply in_map_iff. exists (k', a). split; auto.
Qed.

Lemma bind_fst_nodup gps : forall args, NoDup gps -> NoDup (map fst (bind gps args)).
Proof.
  induction gps as [|p gps IH]; intros [|[a|] args] N; cbn; try constructor; inversion N; subst; auto.
  intros F. apply in_map_iff in F. destruct F as [[p' a'] [E F]]. cbn in E. subst. apply bind_keys in F. contradiction.
Qed.

Lemma snd_unique (l : list (nat * nat)) v w a : NoDup (map snd l) -> In (v, a) l -> In (w, a) l -> v = w.
Proof.
  induction l as [|[k' a'] l IH]; cbn; [tauto|]. intros N [H1|H1] [H2|H2]; inversion N; subst.
  - congruence.
  - inversion H1; subst. exfalso. apply H3. apply in_map_iff. exists (w, a). split; auto.
  - inversion H2; subst. exfalso. apply H3. apply in_map_iff. exists (v, a). split; auto.
  - auto.
Qed.

Lemma nodup_nat_NoDup l : nodup_nat l = true -> NoDup l.
Proof.
  induction l as [|x l IH]; intros H; [constructor|]. cbn in H. apply andb_true_iff in H. destruct H as [H1 H2].
  apply negb_true_iff in H1. constructor; [apply mem_false; auto | auto].
Qed.

(* ------------------------------------------------------------------ the callee inside the caller *)
Section Inline.
  Variable strict : bool.
  Variables cps gps : list var.
  Variable args : list (option var).
  Variable k : nat.
  Variable dA : dst.            (* the caller's status at the call *)

  Definition rho_in (v : var) : var := match lookup (bind gps args) v with Some a => a | None => k + v end.
  Definition dom_in (v : var) : Prop := lookup (bind gps args) v <> None \/ ~ In v gps.
  Definition shift_in (v : var) : nat :=
    match lookup (bind gps args) v with
    | Some a => match stat dA a with SOwned n => n | _ => 0 end
    | None => 0
    end.

  Hypothesis Hnd_g : NoDup gps.
  Hypothesis Hnd_a : NoDup (map snd (bind gps args)).
  Hypothesis Ha_k : forall a, In a (map snd (bind gps args)) -> a < k.
  Hypothesis Hc_k : forall c, In c cps -> c < k.
  Hypothesis HdA_fresh : forall w, k <= w -> stat dA w = SStale.
  Hypothesis HdA_args : forall a, In a (map snd (bind gps args)) -> is_owned (stat dA a) = true.
  Hypothesis HdA_params : params_owned cps dA = true.

  Lemma lookup_bind_arg v a : lookup (bind gps args) v = Some a -> In a (map snd (bind gps args)) /\ In v gps.
  Proof.
    intros H. apply lookup_In in H. split; [apply in_map_iff; exists (v, a); auto | eapply bind_keys; eauto].
  Qed.

  Lemma rho_in_inj : forall v w, dom_in v -> dom_in w -> rho_in v = rho_in w -> v = w.
  Proof.
    unfold rho_in. intros v w _ _ H.
    destruct (lookup (bind gps args) v) as [a|] eqn:Ev; destruct (lookup (bind gps args) w) as [b|] eqn:Ew.
    - subst b. apply (snd_unique (bind gps args) v w a Hnd_a); apply lookup_In; auto.
    - destruct (lookup_bind_arg _ _ Ev) as [Ia _]. apply Ha_k in Ia. lia.
    - destruct (lookup_bind_arg _ _ Ew) as [Ib _]. apply Ha_k in Ib. lia.
    - lia.
  Qed.

  Definition outer_in := outer rho_in dom_in.

  Lemma image_or_outer u : (exists v, dom_in v /\ rho_in v = u) \/ outer_in u.
  Proof.
    destruct (le_lt_dec k u) as [Hk|Hk].
    - destruct (in_dec Nat.eq_dec (u - k) gps) as [Hi|Hi].
      + right. intros w Dw E. unfold rho_in in E. destruct (lookup (bind gps args) w) as [a|] eqn:Ew.
        * destruct (lookup_bind_arg _ _ Ew) as [Ia _]. apply Ha_k in Ia. lia.
        * assert (w = u - k) by lia. subst w. destruct Dw as [Dw|Dw]; [congruence | contradiction].
      + left. exists (u - k). split; [right; auto|]. unfold rho_in.
        destruct (lookup (bind gps args) (u - k)) as [a|] eqn:Ew; [|lia].
        destruct (lookup_bind_arg _ _ Ew) as [_ Ig]. contradiction.
    - destruct (in_dec Nat.eq_dec u (map snd (bind gps args))) as [Hi|Hi].
      + left. apply in_map_iff in Hi. destruct Hi as [[p a] [E Hi]]. cbn in E. subst a.
        assert (L : lookup (bind gps args) p = Some u).
        { apply In_lookup_nodup; auto. apply bind_fst_nodup; auto. }
        exists p. split; [left; congruence|]. unfold rho_in. rewrite L. reflexivity.
      + right. intros w Dw E. unfold rho_in in E. destruct (lookup (bind gps args) w) as [a|] eqn:Ew.
        * destruct (lookup_bind_arg _ _ Ew) as [Ia _]. subst. contradiction.
        * lia.
  Qed.

  Notation SimI := (Sim rho_in shift_in dom_in dA).

  Lemma Sim_start : SimI (d_init gps) dA.
  Proof.
    constructor.
    - intros v Dv. rewrite stat_init. unfold rho_in, shift_in.
      destruct (lookup (bind gps args) v) as [a|] eqn:Ev.
      + destruct (lookup_bind_arg _ _ Ev) as [Ia Ig]. apply mem_In in Ig. rewrite Ig.
        pose proof (HdA_args a Ia) as Ho. destruct (stat dA a); try discriminate. cbn. reflexivity.
      + destruct Dv as [Dv|Dv]; [congruence|]. apply mem_false in Dv. rewrite Dv. cbn.
        rewrite HdA_fresh by lia. auto.
    - intros u _ c. tauto.
    - cbn. intros x [].
    - cbn. intros x [].
  Qed.

  Lemma shift_in_params : forall v, dom_in v -> shift_in v > 0 -> In v gps.
  Proof.
    unfold shift_in. intros v _ H. destruct (lookup (bind gps args) v) as [a|] eqn:Ev; [|lia].
    apply (lookup_bind_arg _ _ Ev).
  Qed.

  Lemma cps_owned_in : forall dq di, SimI dq di -> params_owned gps dq = true -> params_owned cps di = true.
  Proof.
    intros dq di S P. pose proof HdA_params as PA.
    unfold params_owned in P, PA |- *. rewrite forallb_forall in P, PA. apply forallb_forall. intros c Hc.
    destruct (image_or_outer c) as [[v [Dv E]]|Oc].
    - pose proof (sim_v _ _ _ _ _ _ S v Dv) as Rv. rewrite E in Rv.
      assert (Ig : In v gps).
      { unfold rho_in in E. destruct (lookup (bind gps args) v) as [a|] eqn:Ev; [apply (lookup_bind_arg _ _ Ev)|].
        apply Hc_k in Hc. lia. }
      specialize (P v Ig). destruct (stat dq v); try discriminate. cbn in Rv. rewrite Rv. reflexivity.
    - specialize (PA c Hc). destruct (stat dA c) as [| | |n] eqn:E; try discriminate.
      apply (sim_o _ _ _ _ _ _ S c Oc n) in E. rewrite E. reflexivity.
  Qed.

  (* what the caller sees once the callee has returned *)
  Lemma after_callee dqf dif : SimI dqf dif -> d_final gps dqf = true -> params_once gps dqf = true ->
    forall w, R0 (dem2 (stat dA w)) (stat dif w) 0.
  Proof.
    intros S F O w. destruct (image_or_outer w) as [[v [Dv E]]|Ow].
    - pose proof (sim_v _ _ _ _ _ _ S v Dv) as Rv. rewrite E in Rv. unfold rho_in, shift_in in *.
      destruct (lookup (bind gps args) v) as [a|] eqn:Ev.
      + subst w. destruct (lookup_bind_arg _ _ Ev) as [Ia Ig].
        unfold params_once in O. rewrite forallb_forall in O. specialize (O v Ig).
        destruct (stat dqf v) as [| | |[|m]]; try discriminate. cbn in Rv.
        pose proof (HdA_args a Ia) as Ho. destruct (stat dA a) as [| | |n]; try discriminate.
        cbn. rewrite Rv. f_equal. lia.
      + destruct Dv as [Dv|Dv]; [congruence|]. subst w. rewrite HdA_fresh by lia. cbn. split; auto.
        destruct (stat dqf v) as [| | |m] eqn:Es; cbn in Rv.
        * tauto.
        * destruct Rv as [_ ->]. reflexivity.
        * destruct Rv as [_ [-> _]]. reflexivity.
        * exfalso. destruct (stat_owned_entry dqf v m Es) as [y Hy].
          unfold d_final in F. rewrite forallb_forall in F. specialize (F (v, y) Hy). cbn [fst] in F. rewrite Es in F.
          apply andb_true_iff in F. destruct F as [F _]. apply mem_In in F. contradiction.
    - pose proof (sim_o _ _ _ _ _ _ S w Ow) as So.
      assert (NO : is_owned (stat dA w) = false -> is_owned (stat dif w) = false).
      { intros No. destruct (stat dif w) as [| | |m] eqn:E2; auto. destruct (So m) as [_ X]. rewrite (X eq_refl) in No. discriminate. }
      destruct (stat dA w) as [| | |n] eqn:E; cbn; try (split; [reflexivity | apply NO; reflexivity]).
      rewrite Nat.add_0_r. apply So. reflexivity.
  Qed.

  Definition inline_tail (ret qret : option var) : list ev :=
    match ret, qret with Some r, Some v => [EMoveRef r (rho_in v)] | _, _ => [] end.

  Lemma inline_core (qb : list ev) (qret ret : option var) dq dq' dB :
    Forall (ev_dom dom_in) qb ->
    (forall v, qret = Some v -> dom_in v) ->
    dfold strict gps (d_init gps) qb = Some dq ->
    dstep strict dq (EReturn qret) = Some dq' -> d_final gps dq' = true -> params_once gps dq' = true ->
    params_owned cps dB = true ->
    match ret with
    | Some r => r < k /\ ~ In r (map snd (bind gps args)) /\ is_owned (stat dA r) = false /\
                dB = reassign (forget (invalidate dA)) r (SOwned 0) /\ qret <> None
    | None => dB = forget (invalidate dA) /\ qret = None
    end ->
    exists dI, dfold strict cps dA (map (ren rho_in) qb ++ inline_tail ret qret) = Some dI /\ LE dB dI.
  Proof.
    intros Fd Dr Hq Hr Hf Ho PB Hret.
    destruct (sim_fold strict rho_in shift_in dom_in dA rho_in_inj cps gps shift_in_params cps_owned_in
                qb (d_init gps) dA dq Sim_start Fd Hq) as [dI1 [E1 S1]].
    rewrite dfold_app, E1. destruct ret as [r|].
    - destruct Hret as [Hrk [HrA [HrO [EB Hqn]]]]. destruct qret as [v|]; [|congruence]. clear Hqn.
      cbn [inline_tail dfold is_return dstep]. cbn [dstep] in Hr.
      assert (Dv : dom_in v) by (apply Dr; auto).
      assert (Or : outer_in r).
      { intros w Dw E. unfold rho_in in E. destruct (lookup (bind gps args) w) as [a|] eqn:Ew.
        - destruct (lookup_bind_arg _ _ Ew) as [Ia _]. subst. contradiction.
        - lia. }
      assert (Nr : is_owned (stat dI1 r) = false).
      { destruct (stat dI1 r) as [| | |m] eqn:E; auto. apply (sim_o _ _ _ _ _ _ S1 r Or m) in E. rewrite E in HrO. discriminate. }
      assert (Ne : Nat.eqb r (rho_in v) = false).
      { apply Nat.eqb_neq. intros F. apply (Or v Dv). auto. }
      rewrite Nr, Ne. cbn [negb andb].
      destruct (Sim_drop rho_in shift_in dom_in dA rho_in_inj dq dI1 v SStale dq' S1 Dv (or_intror eq_refl) Hr)
        as [dI2 [E2 [S2 _]]].
      { intros P. apply shift_in_params in P; auto. unfold params_once in Ho. rewrite forallb_forall in Ho.
        specialize (Ho v P). destruct (stat dq' v); try discriminate. reflexivity. }
      rewrite E2. cbn [option_map].
      assert (L : LE dB (reassign dI2 r (SOwned 0))).
      { apply LE_intro.
        - intros w. subst dB. rewrite !stat_reassign. destruct (Nat.eqb w r); [cbn; reflexivity|].
          pose proof (after_callee dq' dI2 S2 Hf Ho w) as A. rewrite !stat_unvia, stat_forget_inval.
          destruct (stat dA w) as [| | |n]; cbn in A |- *.
          + destruct A as [_ A]. split; auto. destruct (stat dI2 w); auto. destruct (Nat.eqb t r); auto.
          + destruct A as [_ A]. split; auto. destruct (stat dI2 w); auto. destruct (Nat.eqb t r); auto.
          + destruct A as [_ A]. split; auto. destruct (stat dI2 w); auto. destruct (Nat.eqb t0 r); auto.
          + rewrite A. reflexivity.
        - subst dB. cbn. intros x [].
        - subst dB. cbn. intros x []. }
      rewrite (LE_owned cps _ _ L PB). eexists. split; [reflexivity | exact L].
    - destruct Hret as [EB Hqn]. subst qret. cbn [inline_tail dfold]. cbn [dstep] in Hr. inversion Hr; subst dq'.
      exists dI1. split; auto. apply LE_intro.
      + intros w. subst dB. rewrite stat_forget_inval. apply (after_callee dq dI1 S1 Hf Ho).
      + subst dB. cbn. intros x [].
      + subst dB. cbn. intros x [].
  Qed.
End Inline.

(* ------------------------------------------------------------------ the theorem on paths with calls *)
Definition inline (gps : list var) (args : list (option var)) (ret : option var) (k : nat)
           (qbody : list ev) (qret : option var) : list ev :=
  map (ren (rho_in gps args k)) qbody ++ inline_tail gps args k ret qret.

(* what makes a call site and a callee path fit together *)
Record site_ok (cps gps : list var) (pre : list ev) (args : list (option var)) (ret : option var) (k : nat)
       (qbody : list ev) (qret : option var) : Prop := mkSite {
  so_len : length args = length gps;                       (* one argument per parameter *)
  so_nd : NoDup (somes args);                              (* no object is passed twice *)
  so_args_k : forall a, In a (somes args) -> a < k;        (* k is beyond every variable of the caller .. *)
  so_cps_k : forall c, In c cps -> c < k;
  so_pre_k : forall e, In e (expand pre) -> forall v, In v (ev_vars e) -> v < k;
  so_ret : match ret with
           | Some r => r < k /\ ~ In r (somes args) /\ qret <> None   (* the callee path returns an object *)
           | None => qret = None                                        (* .. or fails, like the call site *)
           end;
  (* a parameter that gets NULL / an untouched constant is not mentioned by this path of the callee *)
  so_dom : forall e, In e (expand qbody) -> forall v, In v (ev_vars e) -> dom_in gps args v;
  so_dom_ret : forall v, qret = Some v -> dom_in gps args v
}.

Lemma dfold_prim strict ps es : forall d d', dfold strict ps d es = Some d' -> Forall prim es.
Proof.
  induction es as [|e es IH]; intros d d' H; [constructor|]. cbn [dfold] in H.
  destruct (is_return e) eqn:Er; [discriminate|]. destruct (dstep strict d e) as [d1|] eqn:Ds; [|discriminate].
  destruct (params_owned ps d1); [|discriminate]. constructor; [|eapply IH; eauto].
  destruct e; cbn; auto; discriminate.
Qed.

Lemma dfold_owned strict ps es : forall d d', dfold strict ps d es = Some d' ->
  params_owned ps d = true -> params_owned ps d' = true.
Proof.
  induction es as [|e es IH]; intros d d' H P; cbn [dfold] in H; [inversion H; subst; auto|].
  destruct (is_return e); [discriminate|]. destruct (dstep strict d e) as [d1|]; [|discriminate].
  destruct (params_owned ps d1) eqn:P1; [|discriminate]. eapply IH; eauto.
Qed.

Lemma init_owned ps : params_owned ps (d_init ps) = true.
Proof.
  unfold params_owned. apply forallb_forall. intros p Hp. rewrite stat_init.
  apply mem_In in Hp. rewrite Hp. reflexivity.
Qed.

Lemma expand_inline gps args ret k qbody qret :
  expand (inline gps args ret k qbody qret)
  = map (ren (rho_in gps args k)) (expand qbody) ++ inline_tail gps args k ret qret.
Proof.
  unfold inline. rewrite expand_app, expand_ren. f_equal.
  unfold inline_tail. destruct ret, qret; reflexivity.
Qed.

Theorem inline_preserves_Dc : forall strict cps gps pre g args ret post cret qbody qret k,
  Dc strict cps (pre ++ ECall g args ret :: post) cret = true ->
  Dc strict gps qbody qret = true ->
  site_ok cps gps pre args ret k qbody qret ->
  Dc strict cps (pre ++ inline gps args ret k qbody qret ++ post) cret = true.
Proof.
  intros strict cps gps pre g args ret post cret qbody qret k HC HQ SO.
  unfold Dc, Dc_prim in *.
  apply andb_true_iff in HC. destruct HC as [Nc HC]. apply andb_true_iff in HQ. destruct HQ as [Ng HQ].
  rewrite Nc. cbn [andb].
  change (ECall g args ret :: post) with ([ECall g args ret] ++ post) in HC.
  rewrite !expand_app in HC. rewrite !expand_app, expand_inline.
  rewrite dfold_app in HC. rewrite dfold_app.
  destruct (dfold strict cps (d_init cps) (expand pre)) as [dA|] eqn:EA; [|discriminate].
  rewrite dfold_app in HC.
  destruct (dfold strict cps dA (expand [ECall g args ret])) as [dB|] eqn:EB; [|discriminate].
  destruct (dfold strict cps dB (expand post)) as [dC|] eqn:EC; [|discriminate].
  destruct (dstep strict dC (EReturn cret)) as [dD|] eqn:ED; [|discriminate].
  apply andb_true_iff in HC. destruct HC as [FD OD].
  destruct (dfold strict gps (d_init gps) (expand qbody)) as [dq|] eqn:Eq; [|discriminate].
  destruct (dstep strict dq (EReturn qret)) as [dq'|] eqn:Eq'; [|discriminate].
  apply andb_true_iff in HQ. destruct HQ as [Fq Oq].
  (* what the summary run tells about the state at the call *)
  pose proof (bind_args gps args (so_len _ _ _ _ _ _ _ _ SO)) as BA.
  assert (PA : params_owned cps dA = true) by (eapply dfold_owned; eauto; apply init_owned).
  assert (PB : params_owned cps dB = true) by (eapply dfold_owned; eauto).
  unfold expand in EB. cbn [flat_map expand_ev] in EB. rewrite app_nil_r in EB.
  rewrite dfold_app in EB. destruct (dfold strict cps dA (map EUse (somes args))) as [d1|] eqn:E1; [|discriminate].
  destruct (dfold_uses strict cps _ _ _ E1) as [-> _].
  cbn [app dfold is_return dstep] in EB. destruct (params_owned cps (invalidate dA)) eqn:PI; [|discriminate].
  destruct (params_owned cps (forget (invalidate dA))) eqn:PF; [|discriminate].
  rewrite dfold_app in EB.
  destruct (dfold strict cps (forget (invalidate dA)) (map EUse (somes args))) as [d2|] eqn:E2; [|discriminate].
  destruct (dfold_uses strict cps _ _ _ E2) as [-> V2].
  assert (OA : forall a, In a (map snd (bind gps args)) -> is_owned (stat dA a) = true).
  { intros a Ha. rewrite BA in Ha. specialize (V2 a Ha). unfold valid in V2. rewrite stat_forget_inval in V2.
    destruct (stat dA a); cbn in V2; try discriminate; reflexivity. }
  assert (Fresh : forall w, k <= w -> stat dA w = SStale).
  { intros w Hw. apply (dfold_untouched strict cps (expand pre) (d_init cps) dA w EA).
    - intros e He Hv. pose proof (so_pre_k _ _ _ _ _ _ _ _ SO e He w Hv). lia.
    - rewrite stat_init. destruct (mem w cps) eqn:M; auto. apply mem_In in M.
      pose proof (so_cps_k _ _ _ _ _ _ _ _ SO w M). lia. }
  assert (Hret : match ret with
                 | Some r => r < k /\ ~ In r (map snd (bind gps args)) /\ is_owned (stat dA r) = false /\
                             dB = reassign (forget (invalidate dA)) r (SOwned 0) /\ qret <> None
                 | None => dB = forget (invalidate dA) /\ qret = None
                 end).
  { pose proof (so_ret _ _ _ _ _ _ _ _ SO) as SR. destruct ret as [r|].
    - destruct SR as [S1 [S2 S3]]. rewrite BA. cbn [app dfold is_return dstep] in EB.
      destruct (negb (is_owned (stat (forget (invalidate dA)) r))) eqn:Nr; [|discriminate].
      destruct (params_owned cps (reassign (forget (invalidate dA)) r (SOwned 0))); [|discriminate].
      inversion EB; subst dB. repeat split; auto.
      apply negb_true_iff in Nr. rewrite stat_forget_inval in Nr. destruct (stat dA r); auto.
    - cbn [app dfold] in EB. inversion EB; subst. auto. }
  destruct (inline_core strict cps gps args k dA
              (nodup_nat_NoDup _ Ng)
              ltac:(rewrite BA; exact (so_nd _ _ _ _ _ _ _ _ SO))
              ltac:(rewrite BA; exact (so_args_k _ _ _ _ _ _ _ _ SO))
              (so_cps_k _ _ _ _ _ _ _ _ SO) Fresh OA PA
              (expand qbody) qret ret dq dq' dB) as [dI [EI LI]]; auto.
  { apply Forall_forall. intros e He. split.
    - pose proof (dfold_prim _ _ _ _ _ Eq) as Fp. rewrite Forall_forall in Fp. auto.
    - intros v Hv. exact (so_dom _ _ _ _ _ _ _ _ SO e He v Hv). }
  { exact (so_dom_ret _ _ _ _ _ _ _ _ SO). }
  rewrite dfold_app, EI.
  destruct (LE_fold strict cps (expand post) dB dI dC LI (dfold_prim _ _ _ _ _ EC) EC) as [dC' [EC' LC]].
  rewrite EC'.
  destruct (LE_return strict dC dC' cret dD LC ED) as [dD' [ED' LD]]. rewrite ED'.
  destruct (LE_final cps dD dD' LD FD OD) as [F' O']. rewrite F', O'. reflexivity.
Qed.

(* ------------------------------------------------------------------ call trees *)
Definition split_ret (p : path) : option (list ev * option var) :=
  match rev p with
  | EReturn r :: b => Some (rev b, r)
  | _ => None
  end.

Lemma split_ret_snoc body r : split_ret (body ++ [EReturn r]) = Some (body, r).
Proof. unfold split_ret. rewrite rev_app_distr. cbn. rewrite rev_involutive. reflexivity. Qed.

Definition Dc_fn (strict : bool) (f : fn) : bool :=
  forallb (fun p => match split_ret p with
                    | Some (b, r) => Dc strict (fn_params f) b r
                    | None => false
                    end) (fn_paths f).

(* the paths of function [fid] with any number of its calls (and of the calls inside those ..) replaced
   by paths of the callees; calls that are not replaced keep their summary *)
Inductive Tree (sk : list fn) : nat -> list var -> list ev -> option var -> Prop :=
| T_base : forall f body r, In f sk -> In (body ++ [EReturn r]) (fn_paths f) ->
    Tree sk (fn_id f) (fn_params f) body r
| T_inl : forall fid cps pre g gps args ret post cret qbody qret k,
    Tree sk fid cps (pre ++ ECall g args ret :: post) cret ->
    Tree sk g gps qbody qret ->
    site_ok cps gps pre args ret k qbody qret ->
    Tree sk fid cps (pre ++ inline gps args ret k qbody qret ++ post) cret.

Theorem tree_Dc : forall strict sk, forallb (Dc_fn strict) sk = true ->
  forall fid cps body r, Tree sk fid cps body r -> Dc strict cps body r = true.
Proof.
  intros strict sk H fid cps body r T. induction T.
  - rewrite forallb_forall in H. specialize (H f H0). unfold Dc_fn in H. rewrite forallb_forall in H.
    specialize (H _ H1). rewrite split_ret_snoc in H. exact H.
  - eapply inline_preserves_Dc; eauto.
Qed.

Theorem tree_safe : forall strict sk, forallb (Dc_fn strict) sk = true ->
  forall fid cps body r, Tree sk fid cps body r ->
  forall orc s k, init_ok cps s = true ->
  match exec strict orc (expand body ++ [EReturn r]) s k with
  | Done s' => balanced cps s' = true
  | Infeasible => True
  | Running _ _ => False
  | Fault _ => False
  end.
Proof.
  intros strict sk H fid cps body r T orc s k Hi.
  apply discipline_safe; auto. apply Dc_prim_D. exact (tree_Dc strict sk H fid cps body r T).
Qed.

(* ------------------------------------------------------------------ building call trees by computation *)
Definition dom_inb (gps : list var) (args : list (option var)) (v : var) : bool :=
  match lookup (bind gps args) v with Some _ => true | None => negb (mem v gps) end.

Lemma dom_inb_ok gps args v : dom_inb gps args v = true -> dom_in gps args v.
Proof.
  unfold dom_inb, dom_in. destruct (lookup (bind gps args) v); intros H; [left; discriminate|].
  right. apply mem_false. apply negb_true_iff. exact H.
Qed.

Definition site_okb (cps gps : list var) (pre : list ev) (args : list (option var)) (ret : option var) (k : nat)
           (qbody : list ev) (qret : option var) : bool :=
  Nat.eqb (length args) (length gps) && nodup_nat (somes args) &&
  forallb (fun a => Nat.ltb a k) (somes args) && forallb (fun c => Nat.ltb c k) cps &&
  forallb (fun e => forallb (fun v => Nat.ltb v k) (ev_vars e)) (expand pre) &&
  match ret with
  | Some r => Nat.ltb r k && negb (mem r (somes args)) && match qret with Some _ => true | None => false end
  | None => match qret with None => true | Some _ => false end
  end &&
  forallb (fun e => forallb (dom_inb gps args) (ev_vars e)) (expand qbody) &&
  match qret with Some v => dom_inb gps args v | None => true end.

Lemma site_okb_ok cps gps pre args ret k qbody qret :
  site_okb cps gps pre args ret k qbody qret = true -> site_ok cps gps pre args ret k qbody qret.
Proof.
  unfold site_okb. rewrite !andb_true_iff. intros [[[[[[[H1 H2] H3] H4] H5] H6] H7] H8].
  rewrite forallb_forall in H3, H4, H5, H7. constructor.
  - apply Nat.eqb_eq; auto.
  - apply nodup_nat_NoDup; auto.
  - intros a Ha. apply Nat.ltb_lt. auto.
  - intros c Hc. apply Nat.ltb_lt. auto.
  - intros e He v Hv. specialize (H5 e He). rewrite forallb_forall in H5. apply Nat.ltb_lt. auto.
  - destruct ret as [r|].
    + rewrite !andb_true_iff in H6. destruct H6 as [[A B] C]. apply Nat.ltb_lt in A. apply negb_true_iff in B.
      apply mem_false in B. repeat split; auto. destruct qret; [discriminate | discriminate].
    + destruct qret; [discriminate | reflexivity].
  - intros e He v Hv. specialize (H7 e He). rewrite forallb_forall in H7. apply dom_inb_ok. auto.
  - intros v Hv. subst qret. apply dom_inb_ok. auto.
Qed.

Fixpoint first_call (p : list ev) : option (list ev * nat * list (option var) * option var * list ev) :=
  match p with
  | [] => None
  | ECall g args ret :: post => Some ([], g, args, ret, post)
  | e :: p' => match first_call p' with
               | Some (pre, g, args, ret, post) => Some (e :: pre, g, args, ret, post)
               | None => None
               end
  end.

Lemma first_call_eq p : forall pre g args ret post,
  first_call p = Some (pre, g, args, ret, post) -> p = pre ++ ECall g args ret :: post.
Proof.
  induction p as [|e p IH]; intros pre g args ret post H; [discriminate|].
  destruct e; cbn [first_call] in H;
    try (destruct (first_call p) as [[[[[pre' g'] args'] ret'] post']|]; [|discriminate];
         inversion H; subst; cbn; f_equal; apply IH; reflexivity).
  inversion H; subst. reflexivity.
Qed.

Definition bound_of (cps : list var) (body : list ev) (r : option var) : nat :=
  S (fold_left Nat.max (cps ++ flat_map ev_vars (expand body) ++ flat_map ev_vars body ++ match r with Some v => [v] | None => [] end) 0).

Lemma split_ret_inv p b r : split_ret p = Some (b, r) -> p = b ++ [EReturn r].
Proof.
  unfold split_ret. destruct (rev p) as [|e l] eqn:E; [discriminate|]. destruct e; try discriminate.
  intros H. inversion H; subst. rewrite <- (rev_involutive p), E. reflexivity.
Qed.

(* a path of g that fits the call site *)
Definition pick (sk : list fn) (cps : list var) (pre : list ev) (g : nat) (args : list (option var))
           (ret : option var) (k : nat) : option (fn * path) :=
  match find (fun f => Nat.eqb (fn_id f) g) sk with
  | Some f => match find (fun p => match split_ret p with
                                  | Some (b, r) => site_okb cps (fn_params f) pre args ret k b r
                                  | None => false
                                  end) (fn_paths f) with
              | Some p => Some (f, p)
              | None => None
              end
  | None => None
  end.

(* replace call after call, leftmost first, by the first fitting path of the callee *)
Fixpoint inline_all (fuel : nat) (sk : list fn) (cps : list var) (body : list ev) (r : option var) : option (list ev) :=
  match fuel with
  | 0 => None
  | S n =>
      match first_call body with
      | None => Some body
      | Some (pre, g, args, ret, post) =>
          let k := bound_of cps body r in
          match pick sk cps pre g args ret k with
          | Some (f, p) =>
              match split_ret p with
              | Some (b, qr) => inline_all n sk cps (pre ++ inline (fn_params f) args ret k b qr ++ post) r
              | None => None
              end
          | None => None
          end
      end
  end.

Lemma inline_all_Tree fuel sk : forall fid cps body r body',
  Tree sk fid cps body r -> inline_all fuel sk cps body r = Some body' -> Tree sk fid cps body' r.
Proof.
  induction fuel as [|n IH]; intros fid cps body r body' T H; [discriminate|]. cbn [inline_all] in H.
  destruct (first_call body) as [[[[[pre g] args] ret] post]|] eqn:Fc; [|inversion H; subst; exact T].
  apply first_call_eq in Fc. subst body.
  destruct (pick sk cps pre g args ret _) as [[f p]|] eqn:Pk; [|discriminate].
  unfold pick in Pk. destruct (find (fun f0 => Nat.eqb (fn_id f0) g) sk) as [f0|] eqn:Ff; [|discriminate].
  destruct (find _ (fn_paths f0)) as [p0|] eqn:Fp; [|discriminate]. inversion Pk; subst f0 p0. clear Pk.
  apply find_some in Ff. destruct Ff as [If Eg]. apply Nat.eqb_eq in Eg.
  apply find_some in Fp. destruct Fp as [Ip Sp].
  destruct (split_ret p) as [[b qr]|] eqn:Es; [|discriminate].
  apply split_ret_inv in Es. subst p.
  eapply IH; [|exact H]. eapply T_inl; [exact T | | apply site_okb_ok; exact Sp].
  rewrite <- Eg. apply T_base; auto.
Qed.

(* ------------------------------------------------------------------ loops: any number of iterations *)
(* A loop is given by the events [pre] that lead to its head and the event lists [conts] of one complete
   iteration each (one per way through the body that comes back to the head).  The paths of the
   skeleton contain the loop run ZERO times (pre ++ rest) and the iterations that leave it by a return.
   If every iteration, started in the discipline state at the head, ends in a state that is at least as
   permissive as that state ([leb]: same ownership everywhere, the loop's temporaries given back), then
   any sequence of iterations can be inserted at the head. *)
Definition Rb (x y : vstat) : bool :=
  match x with
  | SOwned c => match y with SOwned c' => Nat.eqb c c' | _ => false end
  | SFresh => match y with SFresh => true | _ => false end
  | SVia t => match y with SVia t' => Nat.eqb t t' | _ => false end
  | SStale => negb (is_owned y)
  end.

Definition leb (d1 d2 : dst) : bool :=
  forallb (fun p => Rb (stat d1 (fst p)) (stat d2 (fst p))) (d_stat d1 ++ d_stat d2) &&
  forallb (fun x => mem x (d_empty d2)) (d_empty d1) && forallb (fun x => mem x (d_full d2)) (d_full d1).

Lemma Rb_R x y : Rb x y = true -> R0 x y 0.
Proof.
  destruct x, y; cbn; intros H; try discriminate; auto.
  - apply Nat.eqb_eq in H. subst. unfold idv. auto.
  - apply Nat.eqb_eq in H. subst. rewrite Nat.add_0_r. reflexivity.
Qed.

Lemma stat_none d v : lookup (d_stat d) v = None -> stat d v = SStale.
Proof. unfold stat. intros ->. reflexivity. Qed.

Lemma leb_LE d1 d2 : leb d1 d2 = true -> LE d1 d2.
Proof.
  unfold leb. rewrite !andb_true_iff. intros [[H1 H2] H3]. rewrite forallb_forall in H1, H2, H3.
  apply LE_intro.
  - intros v. destruct (lookup (d_stat d1) v) as [x|] eqn:E1.
    + destruct (lookup_Some_In _ _ _ E1) as [x' Hx]. apply Rb_R. apply (H1 (v, x')). apply in_or_app. left; auto.
    + destruct (lookup (d_stat d2) v) as [y|] eqn:E2.
      * destruct (lookup_Some_In _ _ _ E2) as [y' Hy]. apply Rb_R. apply (H1 (v, y')). apply in_or_app. right; auto.
      * rewrite (stat_none _ _ E1), (stat_none _ _ E2). cbn. auto.
  - intros x Hx. apply mem_In. auto.
  - intros x Hx. apply mem_In. auto.
Qed.

Lemma R0_trans x y z : R0 x y 0 -> R0 y z 0 -> R0 x z 0.
Proof.
  destruct x; cbn.
  - intros [_ H1] H2. split; auto. destruct y; cbn in *; try discriminate.
    + destruct H2 as [_ H2]. exact H2.
    + destruct H2 as [_ H2]. subst. reflexivity.
    + destruct H2 as [_ [H2 _]]. subst. reflexivity.
  - intros [_ ->] H2. exact H2.
  - intros [_ [-> _]] H2. exact H2.
  - intros -> H2. cbn in H2. rewrite H2. f_equal. lia.
Qed.

Lemma LE_trans a b c : LE a b -> LE b c -> LE a c.
Proof.
  intros H K. apply LE_intro.
  - intros v. eapply R0_trans; [apply LE_stat; eauto | apply LE_stat; eauto].
  - eapply incl_tran; [apply H | apply K].
  - eapply incl_tran; [apply H | apply K].
Qed.

Definition loop_ok (strict : bool) (ps : list var) (pre : list ev) (conts : list (list ev)) : bool :=
  match dfold strict ps (d_init ps) (expand pre) with
  | Some d => forallb (fun c => match dfold strict ps d (expand c) with
                                | Some d' => leb d d'
                                | None => false
                                end) conts
  | None => false
  end.

Lemma iterations_fold strict ps conts dA : 
  (forall c, In c conts -> exists d', dfold strict ps dA (expand c) = Some d' /\ LE dA d') ->
  forall bs, Forall (fun b => In b conts) bs ->
  forall d, LE dA d -> exists dn, dfold strict ps d (expand (concat bs)) = Some dn /\ LE dA dn.
Proof.
  intros HC bs Fb. induction Fb as [|b bs Hb Fb IH]; intros d L.
  - exists d. split; auto.
  - destruct (HC b Hb) as [db [Eb Lb]].
    destruct (LE_fold strict ps (expand b) dA d db L (dfold_prim _ _ _ _ _ Eb) Eb) as [db' [Eb' Lb']].
    destruct (IH db' (LE_trans _ _ _ Lb Lb')) as [dn [En Ln]].
    exists dn. split; auto. cbn [concat]. rewrite expand_app, dfold_app, Eb'. exact En.
Qed.

Theorem loops_any_count : forall strict ps pre conts rest r,
  loop_ok strict ps pre conts = true ->
  Dc strict ps (pre ++ rest) r = true ->
  forall bs, Forall (fun b => In b conts) bs ->
  Dc strict ps (pre ++ concat bs ++ rest) r = true.
Proof.
  intros strict ps pre conts rest r HL HD bs Fb. unfold loop_ok in HL. unfold Dc, Dc_prim in *.
  apply andb_true_iff in HD. destruct HD as [Np HD]. rewrite Np. cbn [andb].
  rewrite !expand_app in *. rewrite dfold_app in HD. rewrite dfold_app.
  destruct (dfold strict ps (d_init ps) (expand pre)) as [dA|] eqn:EA; [|discriminate].
  destruct (dfold strict ps dA (expand rest)) as [dC|] eqn:EC; [|discriminate].
  destruct (dstep strict dC (EReturn r)) as [dD|] eqn:ED; [|discriminate].
  apply andb_true_iff in HD. destruct HD as [FD OD].
  rewrite forallb_forall in HL.
  assert (HC : forall c, In c conts -> exists d', dfold strict ps dA (expand c) = Some d' /\ LE dA d').
  { intros c Hc. specialize (HL c Hc). destruct (dfold strict ps dA (expand c)) as [d'|]; [|discriminate].
    exists d'. split; auto. apply leb_LE; auto. }
  destruct (iterations_fold strict ps conts dA HC bs Fb dA (LE_refl dA)) as [dn [En Ln]].
  rewrite dfold_app, En.
  destruct (LE_fold strict ps (expand rest) dA dn dC Ln (dfold_prim _ _ _ _ _ EC) EC) as [dC' [EC' LC]]. rewrite EC'.
  destruct (LE_return strict dC dC' r dD LC ED) as [dD' [ED' LD]]. rewrite ED'.
  destruct (LE_final ps dD dD' LD FD OD) as [F' O']. rewrite F', O'. reflexivity.
Qed.

Theorem loops_safe : forall strict ps pre conts rest r,
  loop_ok strict ps pre conts = true ->
  Dc strict ps (pre ++ rest) r = true ->
  forall bs, Forall (fun b => In b conts) bs ->
  forall orc s k, init_ok ps s = true ->
  match exec strict orc (expand (pre ++ concat bs ++ rest) ++ [EReturn r]) s k with
  | Done s' => balanced ps s' = true
  | Infeasible => True
  | Running _ _ => False
  | Fault _ => False
  end.
Proof.
  intros. apply discipline_safe; auto. apply Dc_prim_D. eapply loops_any_count; eauto.
Qed.
