(* Proofs about Model/Race.v: atomic answers, no stale survivor, detached stores, readers only. *)
From Coq Require Import List Arith Bool Lia.
Import ListNotations.
From ZI Require Import Model.Adapter Model.Lookup Model.Race.

(* ------------------------------------------------------------------ association lists *)
Lemma aget_aset_any {K V} (eqb : K -> K -> bool) (m : list (K * V)) k v k' x :
  aget eqb (aset eqb m k v) k' = Some x -> x = v \/ aget eqb m k' = Some x.
Proof.
  induction m as [|[k0 v0] m IH]; cbn.
  - destruct (eqb k' k); intros H; inversion H; auto.
  - destruct (eqb k k0) eqn:E; cbn.
    + destruct (eqb k' k0); intros H; [inversion H; auto | auto].
    + destruct (eqb k' k0); intros H; [auto | apply IH; auto].
Qed.

Lemma aget_aset_eq {K V} (eqb : K -> K -> bool) (m : list (K * V)) k v k' x :
  (forall a b, eqb a b = true -> a = b) ->
  aget eqb (aset eqb m k v) k' = Some x -> (x = v /\ k' = k) \/ aget eqb m k' = Some x.
Proof.
  intros Heq. induction m as [|[k0 v0] m IH]; cbn.
  - destruct (eqb k' k) eqn:E; intros H; inversion H. left. split; auto.
  - destruct (eqb k k0) eqn:E; cbn.
    + destruct (eqb k' k0) eqn:E'; intros H; [|auto].
      inversion H. left. split; auto. apply Heq in E, E'. congruence.
    + destruct (eqb k' k0); intros H; [auto | apply IH; auto].
Qed.

Lemma aget_aset_nat {V} (m : list (nat * V)) h v h' :
  aget Nat.eqb (aset Nat.eqb m h v) h' = if Nat.eqb h' h then Some v else aget Nat.eqb m h'.
Proof.
  induction m as [|[k0 v0] m IH]; cbn; auto.
  destruct (Nat.eqb h k0) eqn:E; cbn.
  - apply Nat.eqb_eq in E. subst k0. destruct (Nat.eqb h' h); auto.
  - rewrite IH. destruct (Nat.eqb h' k0) eqn:E1; destruct (Nat.eqb h' h) eqn:E2; auto.
    apply Nat.eqb_eq in E1, E2. subst. rewrite Nat.eqb_refl in E. discriminate.
Qed.

Lemma aget_map_snd {V} (f : V -> V) (m : list (nat * V)) h :
  aget Nat.eqb (map (fun p => (fst p, f (snd p))) m) h = option_map f (aget Nat.eqb m h).
Proof.
  induction m as [|[k0 v0] m IH]; cbn; auto. destruct (Nat.eqb h k0); auto.
Qed.

Section RaceProofs.
  Variables R K A : Type.
  Variable keqb : K -> K -> bool.
  Variable answer : R -> K -> A.
  (* keys that compare equal are the same key (cache keys are tuples of specifications) *)
  Hypothesis keqb_eq : forall a b, keqb a b = true -> a = b.

  Notation gst := (gst R K A).
  Notation gstep := (gstep R K).
  Notation run := (gstep_run R K A keqb answer).
  Notation runs := (grun R K A keqb answer).
  Notation dict_of := (dict_of R K A).
  Notation thr_of := (thr_of R K A).
  Notation g_cur := (g_cur R K A).
  Notation g_since := (g_since R K A).
  Notation g_owner := (g_owner R K A).
  Notation g_next := (g_next R K A).
  Notation g_log := (g_log R K A).
  Notation g_thr := (g_thr R K A).
  Notation g_dicts := (g_dicts R K A).

  (* a is the uncached answer to q in one of the states rs *)
  Definition justified (rs : list R) (q : K) (a : A) : Prop := exists r, In r rs /\ a = answer r q.

  Definition thr_ok (g : gst) (x : tstate R K A) : Prop :=
    match x with
    | TIdle _ _ _ => True
    | TLooking _ _ _ h q w => h < g_next g /\ In (g_cur g) w
    | TComputed _ _ _ h q a w =>
        h < g_next g /\ justified w q a /\ (h = g_owner g -> justified (g_since g) q a)
    end.

  Record RI (g : gst) : Prop := mkRI {
    ri_cur : In (g_cur g) (g_since g);
    ri_owner : g_owner g < g_next g;
    ri_cache : forall k a, aget keqb (dict_of g (g_owner g)) k = Some a -> justified (g_since g) k a;
    ri_thr : forall t, thr_ok g (thr_of g t);
    ri_log : forall res, In res (g_log g) -> justified (r_win R K A res) (r_q R K A res) (r_a R K A res)
  }.

  Lemma justified_cons r rs q a : justified rs q a -> justified (r :: rs) q a.
  Proof. intros [x [H1 H2]]. exists x. split; [right|]; auto. Qed.

  Lemma thr_of_set g t x t' :
    thr_of (set_thr R K A g t x) t' = if Nat.eqb t' t then x else thr_of g t'.
  Proof.
    unfold Race.thr_of, set_thr. cbn. rewrite aget_aset_nat. destruct (Nat.eqb t' t); reflexivity.
  Qed.

  Lemma RI_init r : RI (g_init R K A r).
  Proof.
    constructor; cbn.
    - left; auto.
    - lia.
    - intros k a H. discriminate.
    - intros t. exact I.
    - tauto.
  Qed.

  Lemma RI_step g x : RI g -> RI (run g x).
  Proof.
    intros I. destruct x as [t q|t|t|f|]; cbn [gstep_run].
    - (* GStart *)
      destruct (thr_of g t) eqn:Et; auto.
      destruct (aget keqb (dict_of g (g_owner g)) q) as [a|] eqn:Eh.
      + constructor; cbn; try apply I.
        intros res [H|H]; [subst res; cbn; apply (ri_cache g I); auto | apply (ri_log g I); auto].
      + constructor; cbn; try apply I.
        intros t'. rewrite thr_of_set. destruct (Nat.eqb t' t).
        * cbn. split; apply I.
        * apply (ri_thr g I t').
    - (* GCompute *)
      destruct (thr_of g t) as [|h q w|] eqn:Et; auto.
      pose proof (ri_thr g I t) as Ht. rewrite Et in Ht. cbn in Ht. destruct Ht as [Hh Hw].
      constructor; cbn; try apply I.
      intros t'. rewrite thr_of_set. destruct (Nat.eqb t' t).
      * cbn. split; auto. split; [exists (g_cur g); auto|].
        intros _. exists (g_cur g). split; [apply I | auto].
      * apply (ri_thr g I t').
    - (* GStore *)
      destruct (thr_of g t) as [| |h q a w] eqn:Et; auto.
      pose proof (ri_thr g I t) as Ht. rewrite Et in Ht. cbn in Ht. destruct Ht as [Hh [Hw Ho]].
      constructor; cbn; try apply I.
      + intros k a'. unfold Race.dict_of. cbn. rewrite aget_aset_nat.
        destruct (Nat.eqb (g_owner g) h) eqn:E.
        * apply Nat.eqb_eq in E. intros H. apply aget_aset_eq in H; auto. destruct H as [[H1 H2]|H].
          -- subst a' k. apply Ho. auto.
          -- apply (ri_cache g I). unfold Race.dict_of. rewrite E. exact H.
        * apply (ri_cache g I).
      + intros t'. unfold Race.thr_of. cbn. rewrite aget_aset_nat. destruct (Nat.eqb t' t); [exact Logic.I|].
        apply (ri_thr g I t').
      + intros res [H|H]; [subst res; cbn; auto | apply (ri_log g I); auto].
    - (* GWrite *)
      constructor; cbn.
      + left; auto.
      + apply I.
      + intros k a H. apply justified_cons. apply (ri_cache g I); auto.
      + intros t. unfold Race.thr_of. cbn. rewrite aget_map_snd.
        pose proof (ri_thr g I t) as Ht. unfold Race.thr_of in Ht.
        destruct (aget Nat.eqb (g_thr g) t) as [[|h q w|h q a w]|]; cbn in *; auto.
        * destruct Ht. split; auto.
        * destruct Ht as [H1 [H2 H3]]. split; auto. split; [apply justified_cons; auto|].
          intros E. apply justified_cons. auto.
      + apply I.
    - (* GChanged *)
      pose proof (ri_owner g I) as Hn.
      constructor; cbn.
      + left; auto.
      + lia.
      + intros k a. unfold Race.dict_of. cbn. rewrite aget_aset_nat, Nat.eqb_refl. cbn. discriminate.
      + intros t. pose proof (ri_thr g I t) as Ht. unfold Race.thr_of in *. cbn.
        destruct (aget Nat.eqb (g_thr g) t) as [[|h q w|h q a w]|]; cbn in *; auto.
        * destruct Ht. split; auto.
        * destruct Ht as [H1 [H2 H3]]. split; auto. split; auto. intros E. lia.
      + apply I.
  Qed.

  Lemma RI_runs xs : forall g, RI g -> RI (runs g xs).
  Proof. induction xs as [|x xs IH]; intros g I; cbn; auto. apply IH. apply RI_step; auto. Qed.

  (* every lookup that returned, returned the uncached answer of a state in its window *)
  Theorem atomic_answer_lemma : forall r xs res,
    In res (g_log (runs (g_init R K A r) xs)) ->
    exists r', In r' (r_win R K A res) /\ r_a R K A res = answer r' (r_q R K A res).
  Proof. intros r xs res H. apply (ri_log _ (RI_runs xs _ (RI_init r))). exact H. Qed.

  (* whatever is reachable from the owner slot is the answer of a state not older than the last changed() *)
  Theorem cache_since_lemma : forall r xs k a,
    let g := runs (g_init R K A r) xs in
    aget keqb (dict_of g (g_owner g)) k = Some a -> exists r', In r' (g_since g) /\ a = answer r' k.
  Proof. intros r xs k a g H. apply (ri_cache _ (RI_runs xs _ (RI_init r))). exact H. Qed.

  (* between a changed() and the next write, [g_since] is exactly the current state *)
  Definition is_write (x : gstep) : bool := match x with GWrite _ _ _ => true | _ => false end.

  Lemma since_after_changed ys : forall g, g_since g = [g_cur g] -> forallb (fun x => negb (is_write x)) ys = true ->
    g_since (runs g ys) = [g_cur (runs g ys)].
  Proof.
    induction ys as [|y ys IH]; intros g H F; cbn; auto. cbn in F. apply andb_true_iff in F. destruct F as [F1 F2].
    apply IH; auto. destruct y as [t q|t|t|f|]; cbn in *; try discriminate; auto.
    - destruct (Race.thr_of R K A g t); auto. destruct (aget keqb _ q); auto.
    - destruct (Race.thr_of R K A g t); auto.
    - destruct (Race.thr_of R K A g t); auto.
  Qed.

  Theorem no_stale_survivor_lemma : forall r xs ys k a,
    forallb (fun x => negb (is_write x)) ys = true ->
    let g := runs (g_init R K A r) (xs ++ GChanged R K :: ys) in
    aget keqb (dict_of g (g_owner g)) k = Some a -> a = answer (g_cur g) k.
  Proof.
    intros r xs ys k a F g H.
    assert (S : g_since g = [g_cur g]).
    { unfold g, grun. rewrite fold_left_app. cbn [fold_left]. apply since_after_changed; auto. }
    destruct (cache_since_lemma r (xs ++ GChanged R K :: ys) k a H) as [r' [H1 H2]].
    fold g in H1. rewrite S in H1. destruct H1 as [H1|[]]. subst r'. exact H2.
  Qed.

  (* a handle taken before a changed() is detached for ever: the owner slot only moves to fresh handles *)
  Lemma owner_mono xs : forall g, RI g -> g_owner g <= g_owner (runs g xs) /\ g_next g <= g_next (runs g xs).
  Proof.
    induction xs as [|x xs IH]; intros g I; [cbn; lia|].
    change (runs g (x :: xs)) with (runs (run g x) xs).
    destruct (IH _ (RI_step g x I)) as [H1 H2].
    assert (S : g_owner g <= g_owner (run g x) /\ g_next g <= g_next (run g x)).
    { pose proof (ri_owner g I). destruct x as [t q|t|t|f|]; cbn; try lia.
      - destruct (Race.thr_of R K A g t); cbn; try lia. destruct (aget keqb _ q); cbn; lia.
      - destruct (Race.thr_of R K A g t); cbn; lia.
      - destruct (Race.thr_of R K A g t); cbn; lia. }
    destruct S as [S1 S2]. split; eapply Nat.le_trans; eauto.
  Qed.

  Definition handle_of (x : tstate R K A) : option nat :=
    match x with TIdle _ _ _ => None | TLooking _ _ _ h _ _ => Some h | TComputed _ _ _ h _ _ _ => Some h end.

  Theorem store_detached_lemma : forall r xs t h ys,
    let g := runs (g_init R K A r) xs in
    handle_of (thr_of g t) = Some h ->
    let g' := runs (run g (GChanged R K)) ys in
    h <> g_owner g' /\
    (* ... so a store through h leaves the reachable dictionary untouched *)
    forall q a, aget Nat.eqb (aset Nat.eqb (g_dicts g') h (aset keqb (dict_of g' h) q a)) (g_owner g')
                = aget Nat.eqb (g_dicts g') (g_owner g').
  Proof.
    intros r xs t h ys g Hh g'.
    pose proof (RI_runs xs _ (RI_init r)) as I. fold g in I.
    assert (Lt : h < g_next g).
    { pose proof (ri_thr g I t) as Ht. destruct (thr_of g t); cbn in Hh; inversion Hh; subst; cbn in Ht; tauto. }
    pose proof (owner_mono ys _ (RI_step g (GChanged R K) I)) as [M _].
    change (g_owner (run g (GChanged R K))) with (g_next g) in M.
    change (runs (run g (GChanged R K)) ys) with g' in M.
    assert (N : h <> g_owner g') by lia. split; auto.
    intros q a. rewrite aget_aset_nat. destruct (Nat.eqb (g_owner g') h) eqn:E; auto.
    apply Nat.eqb_eq in E. congruence.
  Qed.

  (* readers only: nothing but the one state is ever in a window *)
  Definition win_of (x : tstate R K A) : list R :=
    match x with TIdle _ _ _ => [] | TLooking _ _ _ _ _ w => w | TComputed _ _ _ _ _ _ w => w end.

  Record RO (r : R) (g : gst) : Prop := mkRO {
    ro_cur : g_cur g = r;
    ro_since : g_since g = [r];
    ro_thr : forall t, thr_of g t = TIdle _ _ _ \/ win_of (thr_of g t) = [r];
    ro_log : forall res, In res (g_log g) -> r_win R K A res = [r]
  }.

  Lemma RO_step r g x : RO r g -> is_mutation R K x = false -> RO r (run g x).
  Proof.
    intros O M. destruct x as [t q|t|t|f|]; cbn in M; try discriminate; cbn [gstep_run].
    - destruct (thr_of g t) eqn:Et; auto.
      destruct (aget keqb (dict_of g (g_owner g)) q) as [a|].
      + constructor; cbn; try apply O. intros res [H|H]; [subst; cbn; apply O | apply (ro_log r g O); auto].
      + constructor; cbn; try apply O. intros t'. rewrite thr_of_set. destruct (Nat.eqb t' t).
        * right. cbn. apply O.
        * apply (ro_thr r g O).
    - destruct (thr_of g t) as [|h q w|] eqn:Et; auto.
      constructor; cbn; try apply O. intros t'. rewrite thr_of_set. destruct (Nat.eqb t' t).
      + right. cbn. destruct (ro_thr r g O t) as [H|H]; rewrite Et in H; [discriminate | exact H].
      + apply (ro_thr r g O).
    - destruct (thr_of g t) as [| |h q a w] eqn:Et; auto.
      constructor; cbn; try apply O.
      + intros t'. unfold Race.thr_of. cbn. rewrite aget_aset_nat. destruct (Nat.eqb t' t); [left; reflexivity|].
        apply (ro_thr r g O).
      + intros res [H|H]; [|apply (ro_log r g O); auto]. subst res. cbn.
        destruct (ro_thr r g O t) as [H|H]; rewrite Et in H; [discriminate | exact H].
  Qed.

  Lemma RO_runs r xs : forall g, RO r g -> forallb (fun x => negb (is_mutation R K x)) xs = true -> RO r (runs g xs).
  Proof.
    induction xs as [|x xs IH]; intros g O F; cbn; auto. cbn in F. apply andb_true_iff in F. destruct F as [F1 F2].
    apply IH; auto. apply RO_step; auto. apply negb_true_iff; auto.
  Qed.

  Theorem readers_only_lemma : forall r xs,
    forallb (fun x => negb (is_mutation R K x)) xs = true ->
    forall res, In res (g_log (runs (g_init R K A r) xs)) -> r_a R K A res = answer r (r_q R K A res).
  Proof.
    intros r xs F res H.
    assert (O : RO r (g_init R K A r)).
    { constructor; cbn; auto. tauto. }
    pose proof (RO_runs r xs _ O F) as O'.
    destruct (atomic_answer_lemma r xs res H) as [r' [H1 H2]].
    rewrite (ro_log _ _ O' res H) in H1. destruct H1 as [H1|[]]. subst r'. exact H2.
  Qed.
End RaceProofs.

(* with Model/Lookup.v's cache record: the dictionary the owner slot holds after changed() is empty *)
Lemma cache_changed_is_empty c : c_cache (cache_changed c) = [] /\ c_mcache (cache_changed c) = []
                                 /\ c_scache (cache_changed c) = [].
Proof. repeat split. Qed.
