(* Proofs for C16, several Components objects connected by __bases__ (Model/ComponentsSys.v):
   every object's local state is that of a single Components run on the operations addressed to
   it, and the query methods decompose along the current base chain. *)
From Coq Require Import List Arith Bool Lia.
Import ListNotations.
From ZI Require Import Model.Ro Model.Adapter Model.Lookup Model.RegSys Model.Components Model.ComponentsSys
  Spec.Components Proofs.Components Proofs.ComponentsLookup.

Lemma set_nth_length {A} (l : list A) r x : length (set_nth l r x) = length l.
Proof. revert r; induction l as [|y l IH]; intros [|r]; cbn; auto. Qed.

Lemma nth_set_nth_same {A} (l : list A) r x d : r < length l -> nth r (set_nth l r x) d = x.
Proof. revert r; induction l as [|y l IH]; intros [|r]; cbn; intros H; try lia; auto. apply IH. lia. Qed.

Lemma nth_set_nth_other {A} (l : list A) r i x d : i <> r -> nth i (set_nth l r x) d = nth i l d.
Proof.
  revert r i; induction l as [|y l IH]; intros [|r] [|i]; cbn; intros H; try congruence; auto.
Qed.

Lemma fold_final_app W hashable l c :
  final W hashable (l ++ [c]) = st_of (cstep W hashable (final W hashable l) c).
Proof. unfold final. now rewrite fold_left_app. Qed.

Lemma proj_app i a b : proj i (a ++ b) = proj i a ++ proj i b.
Proof. unfold proj. apply flat_map_app. Qed.

Section SysProofs.
  Variable W : world.
  Variable hashable : value -> bool.

  Notation final1 := (final W hashable).

  (* the invariant relating the system state to the operations done so far *)
  Definition good (S : csys) (pre : list sop) (n : nat) (bs : list (list nat)) : Prop :=
    length (s_comps S) = n /\ s_bases S = bs /\ length bs = n /\
    (forall i, comp S i = final1 (proj i pre)) /\ (forall i, n <= i -> proj i pre = []).

  Lemma good_init : good sys_init [] 1 [[]].
  Proof.
    repeat split; auto. intros [|[|i]]; reflexivity.
  Qed.

  Lemma good_step S pre n bs o ops : good S pre n bs -> sys_wf_from n bs (o :: ops) = true ->
    exists n' bs', good (fst (fst (sys_step W hashable S o))) (pre ++ [o]) n' bs' /\ sys_wf_from n' bs' ops = true.
  Proof.
    intros (Hl & Hb & Hlb & Hc & Hz) Hwf. destruct o as [b|r b|r c|r t|r]; try discriminate Hwf.
    - (* SNew *)
      cbn in Hwf. apply andb_true_iff in Hwf. destruct Hwf as [_ Hwf].
      exists (Datatypes.S n), (bs ++ [b]). split; auto. cbn. unfold good. cbn [s_comps s_bases].
      split; [rewrite app_length; cbn; lia|]. split; [now rewrite Hb|]. split; [rewrite app_length; cbn; lia|].
      split.
      + intros i. rewrite proj_app. cbn. rewrite app_nil_r. unfold comp. cbn.
        destruct (Nat.lt_ge_cases i n) as [Hi|Hi].
        * rewrite app_nth1 by lia. apply Hc.
        * rewrite (Hz i Hi). destruct (Nat.eq_dec i n) as [->|Hne].
          -- rewrite app_nth2 by lia. rewrite Hl, Nat.sub_diag. reflexivity.
          -- rewrite nth_overflow; [reflexivity | rewrite app_length; cbn; lia].
      + intros i Hi. rewrite proj_app. cbn. rewrite Hz by lia. reflexivity.
    - (* SSetBases *)
      cbn in Hwf. apply andb_true_iff in Hwf. destruct Hwf as [Hwf1 Hwf]. apply andb_true_iff in Hwf1.
      exists n, (set_nth bs r b). split; auto. cbn. unfold good. cbn [s_comps s_bases].
      split; auto. split; [now rewrite Hb|]. split; [now rewrite set_nth_length|].
      split; intros i; [|intros Hi]; rewrite proj_app; cbn [proj flat_map app]; rewrite app_nil_r;
        [apply Hc | now apply Hz].
    - (* SOp *)
      assert (Hr : r < n /\ sys_wf_from n (match c with Reinit => set_nth bs r [] | _ => bs end) ops = true).
      { destruct c; cbn in Hwf; repeat (apply andb_true_iff in Hwf; destruct Hwf as [Hwf ?]);
          try (apply andb_true_iff in Hwf; destruct Hwf as [Hwf ?]); split; auto; now apply Nat.ltb_lt. }
      destruct Hr as [Hr Hwf'].
      exists n, (match c with Reinit => set_nth bs r [] | _ => bs end). split; auto. cbn. unfold good. cbn [s_comps s_bases].
      split; [now rewrite set_nth_length|]. split; [destruct c; now rewrite ?Hb|].
      split; [destruct c; now rewrite ?set_nth_length|].
      split.
      + intros i. rewrite proj_app. cbn. unfold comp. cbn. destruct (Nat.eqb r i) eqn:E.
        * apply Nat.eqb_eq in E. subst i. rewrite nth_set_nth_same by lia.
          cbn [app]. rewrite fold_final_app. f_equal. f_equal. apply Hc.
        * apply Nat.eqb_neq in E. rewrite nth_set_nth_other by auto. rewrite app_nil_r. apply Hc.
      + intros i Hi. rewrite proj_app. cbn. rewrite (proj2 (Nat.eqb_neq r i)) by lia. rewrite Hz by lia. reflexivity.
  Qed.

  Lemma good_final ops : forall S pre n bs, good S pre n bs -> sys_wf_from n bs ops = true ->
    exists n' bs', good (fold_left (fun S o => fst (fst (sys_step W hashable S o))) ops S) (pre ++ ops) n' bs'.
  Proof.
    induction ops as [|o ops IH]; intros S pre n bs G Hwf.
    - exists n, bs. now rewrite app_nil_r.
    - destruct (good_step S pre n bs o ops G Hwf) as (n' & bs' & G' & Hwf').
      destruct (IH _ _ _ _ G' Hwf') as (n2 & bs2 & G2). exists n2, bs2. cbn. now rewrite <- app_assoc in G2.
  Qed.

  (* every object behaves as a single Components driven by the operations addressed to it *)
  Theorem objects_independent ops i : sys_wf ops = true ->
    comp (sys_final W hashable ops) i = final1 (proj i ops).
  Proof.
    intros Hwf. destruct (good_final ops sys_init [] 1 [[]] good_init Hwf) as (n & bs & G).
    destruct G as (_ & _ & _ & Hc & _). apply Hc.
  Qed.

  Lemma proj_ok cls ops i :
    forallb (fun o => match o with SOp _ c => ok_op cls c | _ => true end) ops = true ->
    forallb (ok_op cls) (proj i ops) = true.
  Proof.
    unfold proj. induction ops as [|o ops IH]; cbn [forallb flat_map]; auto. intros H.
    apply andb_true_iff in H. destruct H as [Ho H]. rewrite forallb_app, (IH H), andb_true_r.
    destruct o as [b|r b|r c|r t|r]; auto. destruct (Nat.eqb r i); cbn; auto. now rewrite Ho.
  Qed.

  (* ---- the walkers decompose along a chain of registries *)
  Lemma first_some_map {A B C} (g : A -> B) (f : B -> option C) l :
    first_some f (map g l) = first_some (fun x => f (g x)) l.
  Proof. induction l as [|x l IH]; cbn; auto. destruct (f (g x)); auto. Qed.

  Lemma first_some_ext {A B} (f g : A -> option B) l : (forall x, f x = g x) -> first_some f l = first_some g l.
  Proof. intros H. induction l as [|x l IH]; cbn; auto. rewrite H, IH. reflexivity. Qed.

  Lemma lookup_chain regs req p n :
    uncached_lookup W regs req p n = first_some (fun r => uncached_lookup W [r] req p n) regs.
  Proof.
    unfold uncached_lookup. apply first_some_ext. intros r. cbn.
    destruct (match ext_get (extendors r) p with [] => None | _ => _ end); reflexivity.
  Qed.

  Lemma subscriptions_chain regs req p :
    uncached_subscriptions W regs req p = flat_map (fun r => uncached_subscriptions W [r] req p) (rev regs).
  Proof.
    unfold uncached_subscriptions. apply flat_map_ext. intros r. cbn. now rewrite app_nil_r.
  Qed.

  Theorem queries_follow_chain S r :
    (forall p n, sys_queryUtility W S r p n = first_some (fun j => queryUtility W (comp S j) p n) (chain S r))
    /\ (forall p, sys_getAllUtilitiesRegisteredFor W S r p
                  = flat_map (fun j => getAllUtilitiesRegisteredFor W (comp S j) p) (rev (chain S r)))
    /\ (forall call os p n, sys_queryMultiAdapter W call S r os p n
                            = match first_some (fun j => uncached_lookup W [c_adapters (comp S j)] (map fst os) p n) (chain S r) with
                              | Some f => call f (map snd os)
                              | None => None
                              end)
    /\ (forall call os p, snd (sys_subscribers W call S r os p)
                          = flat_map (fun j => snd (subscribersOf W call (comp S j) os p)) (rev (chain S r)))
    /\ (forall os, sys_handle W S r os = flat_map (fun j => handle W (comp S j) os) (rev (chain S r))).
  Proof.
    repeat split; intros.
    - unfold sys_queryUtility, u_regs. rewrite lookup_chain, first_some_map. reflexivity.
    - unfold sys_getAllUtilitiesRegisteredFor, u_regs. rewrite subscriptions_chain, <- map_rev, flat_map_concat_map, map_map,
        <- flat_map_concat_map. reflexivity.
    - unfold sys_queryMultiAdapter, a_regs. rewrite lookup_chain, first_some_map. reflexivity.
    - unfold sys_subscribers, a_regs. cbn [snd]. rewrite subscriptions_chain, <- map_rev, flat_map_concat_map, map_map,
        <- flat_map_concat_map. reflexivity.
    - unfold sys_handle, a_regs. rewrite subscriptions_chain, <- map_rev, flat_map_concat_map, map_map,
        <- flat_map_concat_map. reflexivity.
  Qed.
End SysProofs.

Theorem listings_local_lemma (W : world) (hashable : value -> bool) (cls : nat -> nat) :
  (forall a b, veq a = veq b -> hashable a = hashable b) ->
  forall ops i, sys_wf ops = true ->
    forallb (fun o => match o with SOp _ c => ok_op cls c | _ => true end) ops = true ->
    let st := comp (sys_final W hashable ops) i in
    registeredUtilities st = map rec_u (l_u (ledger_of (proj i ops))) /\
    registeredAdapters st = map rec_a (l_a (ledger_of (proj i ops))) /\
    registeredSubscriptionAdapters st = map rec_s (l_s (ledger_of (proj i ops))) /\
    registeredHandlers st = map rec_h (l_h (ledger_of (proj i ops))).
Proof.
  intros Hh ops i Hwf Hok st. subst st. rewrite (objects_independent W hashable ops i Hwf).
  apply (listings_exact_lemma W hashable cls Hh). now apply proj_ok.
Qed.

Theorem queries_follow_bases_lemma (W : world) (hashable : value -> bool) ops r :
  let S := sys_final W hashable ops in
  chain S r = fresh_ro (bases_view S) r
  /\ (sys_wf ops = true -> forall j, comp S j = final W hashable (proj j ops))
  /\ (forall p n, sys_queryUtility W S r p n = first_some (fun j => queryUtility W (comp S j) p n) (chain S r))
  /\ (forall p, sys_getAllUtilitiesRegisteredFor W S r p
                = flat_map (fun j => getAllUtilitiesRegisteredFor W (comp S j) p) (rev (chain S r)))
  /\ (forall call os p n, sys_queryMultiAdapter W call S r os p n
                          = match first_some (fun j => uncached_lookup W [c_adapters (comp S j)] (map fst os) p n) (chain S r) with
                            | Some f => call f (map snd os)
                            | None => None
                            end)
  /\ (forall call os p, snd (sys_subscribers W call S r os p)
                        = flat_map (fun j => snd (subscribersOf W call (comp S j) os p)) (rev (chain S r)))
  /\ (forall os, sys_handle W S r os = flat_map (fun j => handle W (comp S j) os) (rev (chain S r))).
Proof.
  intros S. split; [reflexivity|]. split; [intros Hwf j; now apply objects_independent|].
  apply queries_follow_chain.
Qed.

(* a two-object history: object 1 is created on top of object 0, which is then re-based away *)
Definition sys_ex_ops : list sop :=
  [SOp 0 (RegUtility (mkV 1 1) 3 0 0 None true); SNew [0]; SOp 1 (RegUtility (mkV 4 4) 3 1 0 None true);
   SOp 1 (RegSub (mkV 3 3) [Some 1] 2 0 0 true); SOp 0 (RegSub (mkV 4 4) [Some 1] 2 0 0 true)].
