(* Every definition of coq/Gen/RoKernel.v (regenerated from ro.py / interface.py on every run by
   harness/translate/ro_kernel.py) is extensionally equal to the corresponding hand-written
   definition of Model/Ro.v.  The theorems of Properties/C03.v are about Model/Ro.v; these
   equalities tie that model to the source text. *)
From Coq Require Import List Arith Bool Lia.
Import ListNotations.
From ZI Require Import Lib.Py Model.Ro Spec.C3 Gen.RoKernel Proofs.Ro.

(* ------------------------------------------------------------------ vocabulary *)
Lemma py_in_mem x l : py_in x l = mem x l.
Proof. induction l as [|h t IH]; cbn; auto. unfold py_in in IH. rewrite IH. reflexivity. Qed.

Lemma existsb_is_mem base l : existsb (fun b => py_is b base) l = mem base l.
Proof.
  induction l as [|h t IH]; cbn; auto. rewrite IH. unfold py_is. rewrite (Nat.eqb_sym h base). reflexivity.
Qed.

Lemma truthy_nonempty (s : list nat) : truthy s = nonempty s.
Proof. destruct s; reflexivity. Qed.

Lemma filter_truthy (l : list (list nat)) : filter truthy l = filter nonempty l.
Proof. apply filter_ext. intros s. apply truthy_nonempty. Qed.

(* ------------------------------------------------------------------ _can_choose_base *)
Lemma gen_can_choose_base_eq base seqs : gen_can_choose_base base seqs = can_choose base seqs.
Proof.
  unfold gen_can_choose_base, can_choose.
  induction seqs as [|s r IH]; [reflexivity|].
  cbn [for_ret forallb].
  destruct s as [|h t].
  - cbn. exact IH.
  - cbn [truthy negb orb hd_error py_at_is].
    destruct (Nat.eqb h base) eqn:E.
    + cbn [andb]. exact IH.
    + rewrite for_ret_test, existsb_is_mem.
      destruct (mem base (h :: t)); cbn [negb andb]; [reflexivity|exact IH].
Qed.

(* ------------------------------------------------------------------ _nonempty_bases_ignoring *)
Lemma gen_nonempty_bases_ignoring_some seqs b :
  gen_nonempty_bases_ignoring seqs (Some b) = remove_everywhere b seqs.
Proof.
  unfold gen_nonempty_bases_ignoring, remove_everywhere. rewrite filter_truthy. f_equal.
Qed.

Lemma gen_nonempty_bases_ignoring_none seqs :
  gen_nonempty_bases_ignoring seqs None = filter nonempty seqs.
Proof.
  unfold gen_nonempty_bases_ignoring. rewrite filter_truthy. f_equal.
  rewrite <- (map_id seqs) at 2. apply map_ext. intros s. apply filter_true.
Qed.

Lemma gen_nonempty_bases_ignoring_all_nonempty seqs o :
  Forall (fun s : list nat => s <> []) (gen_nonempty_bases_ignoring seqs o).
Proof.
  unfold gen_nonempty_bases_ignoring. apply Forall_forall. intros s Hs.
  apply filter_In in Hs. destruct Hs as [_ T]. destruct s; [discriminate|discriminate].
Qed.

(* ------------------------------------------------------------------ _find_next_C3_base *)
Lemma gen_find_from_eq seqs cands : Forall (fun s : list nat => s <> []) cands ->
  match for_ret cands (fun bases => match bases with
                                    | [] => Some (Raise IndexError)
                                    | base :: _ => if gen_can_choose_base base seqs
                                                   then Some (Ret (Some base)) else None
                                    end)
  with Some r => r | None => Ret None end = Ret (find_from cands seqs).
Proof.
  induction 1 as [|s r Hs Hr IH]; [reflexivity|].
  destruct s as [|h t]; [congruence|].
  cbn [for_ret find_from]. rewrite gen_can_choose_base_eq.
  destruct (can_choose h seqs); [reflexivity|exact IH].
Qed.

Lemma gen_find_next_C3_base_eq seqs : Forall (fun s : list nat => s <> []) seqs ->
  gen_find_next_C3_base seqs = Ret (find_next seqs).
Proof. intros H. unfold gen_find_next_C3_base, find_next. apply gen_find_from_eq; auto. Qed.

(* ------------------------------------------------------------------ _legacy_mergeOrderings *)
Lemma gen_legacy_mergeOrderings_eq l : gen_legacy_mergeOrderings [l] = keep_last l.
Proof.
  unfold gen_legacy_mergeOrderings. cbn [rev app fold_left].
  match goal with |- context [fold_left ?f (rev l) _] => set (step := f) end.
  assert (ST : forall S R o, step (S, R) o = if negb (py_in o S) then (o :: S, o :: R) else (S, R)).
  { intros S R o. subst step. cbn. destruct (py_in o S); reflexivity. }
  assert (INV : exists S, fold_left step (rev l) ([], []) = (S, keep_last l) /\
                          forall y, py_in y S = mem y l).
  { clearbody step. induction l as [|h t IH].
    - exists []. split; reflexivity.
    - destruct IH as (S & E & I). cbn [rev]. rewrite fold_left_app, E. cbn [fold_left].
      rewrite ST, I. cbn [keep_last]. destruct (mem h t) eqn:M; cbn [negb].
      + exists S. split; auto. intros y. rewrite I. cbn [mem].
        destruct (Nat.eqb y h) eqn:Ey; auto. apply Nat.eqb_eq in Ey. subst. auto.
      + exists (h :: S). split; auto. intros y. cbn [py_in existsb mem]. fold (py_in y S).
        rewrite I. reflexivity. }
  destruct INV as (S & E & _). rewrite E. reflexivity.
Qed.

Lemma gen_legacy_ro_eq fuel g x : gen_legacy_ro (legacy_flatten fuel g x) = legacy_ro fuel g x.
Proof. unfold gen_legacy_ro, legacy_ro. apply gen_legacy_mergeOrderings_eq. Qed.

(* ------------------------------------------------------------------ _legacy_flatten *)
Section Flatten.
Variable g : graph.
Variable rk : nat -> nat.
Hypothesis W : wf rk (bases g).

Lemma legacy_flatten_S f x :
  legacy_flatten (S f) g x = x :: flat_map (legacy_flatten f g) (bases g x).
Proof. reflexivity. Qed.

(* any depth bound above the rank gives the same flattening *)
Lemma legacy_flatten_fuel f1 : forall f2 x, rk x < f1 -> rk x < f2 ->
  legacy_flatten f1 g x = legacy_flatten f2 g x.
Proof.
  induction f1 as [|f1 IH]; intros f2 x H1 H2; [lia|]. destruct f2 as [|f2]; [lia|].
  rewrite !legacy_flatten_S. f_equal. rewrite !flat_map_concat_map. f_equal.
  apply map_ext_in. intros b Hb. destruct (W x) as [_ R]. specialize (R _ Hb). apply IH; lia.
Qed.

Definition flat (y : nat) : list nat := legacy_flatten (S (rk y)) g y.

Lemma flat_unfold y : flat y = y :: flat_map flat (bases g y).
Proof.
  unfold flat at 1. rewrite legacy_flatten_S. f_equal. rewrite !flat_map_concat_map. f_equal.
  apply map_ext_in. intros b Hb. destruct (W y) as [_ R]. specialize (R _ Hb).
  unfold flat. apply legacy_flatten_fuel; lia.
Qed.

(* the work-list loop appends the depth-first flattening of everything still on the list *)
Lemma gen_legacy_flatten_loop_eq n : forall rest done, length (flat_map flat rest) < n ->
  gen_legacy_flatten_loop n (bases g) done rest = Some (done ++ flat_map flat rest).
Proof.
  induction n as [|n IH]; intros rest done H; [lia|]. cbn [gen_legacy_flatten_loop].
  destruct rest as [|ob r].
  - cbn. rewrite app_nil_r. reflexivity.
  - cbn [flat_map] in H. rewrite flat_unfold in H. cbn [app length] in H.
    rewrite IH.
    + rewrite flat_map_app. cbn [flat_map]. rewrite (flat_unfold ob). cbn [app].
      rewrite <- !app_assoc. reflexivity.
    + rewrite flat_map_app. rewrite app_length in *. lia.
Qed.

Lemma gen_legacy_flatten_eq fuel x n : rk x < fuel -> length (legacy_flatten fuel g x) < n ->
  gen_legacy_flatten n (bases g) x = Some (legacy_flatten fuel g x).
Proof.
  intros H L. assert (E : legacy_flatten fuel g x = flat x) by (apply legacy_flatten_fuel; lia).
  assert (F1 : flat_map flat [x] = flat x) by (cbn [flat_map]; apply app_nil_r).
  unfold gen_legacy_flatten. rewrite gen_legacy_flatten_loop_eq.
  - rewrite F1, E. reflexivity.
  - rewrite F1, <- E. exact L.
Qed.

Lemma gen_legacy_ro_of_eq fuel x n : rk x < fuel -> length (legacy_flatten fuel g x) < n ->
  gen_legacy_ro_of n (bases g) x = Some (legacy_ro fuel g x).
Proof.
  intros H L. unfold gen_legacy_ro_of. rewrite (gen_legacy_flatten_eq fuel x n H L).
  rewrite gen_legacy_ro_eq. reflexivity.
Qed.
End Flatten.

(* ------------------------------------------------------------------ _merge *)
Definition out_of_mres (strict : bool) (legacy : list nat) (m : mres) : mro_out :=
  match m with
  | MOk l => MroRet l false
  | MBad => if strict then MroRaise InconsistentResolutionOrderError else MroRet legacy true
  | MFuel => MroFuel
  end.

Lemma gen_choose_next_base_eq strict seqs : Forall (fun s : list nat => s <> []) seqs ->
  gen_choose_next_base strict seqs =
  match find_next seqs with
  | Some b => (Ret b, false)
  | None => if strict then (Raise InconsistentResolutionOrderError, false) else (Raise UseLegacyRO, true)
  end.
Proof.
  intros H. unfold gen_choose_next_base. rewrite gen_find_next_C3_base_eq by auto.
  destruct (find_next seqs); [reflexivity|]. destruct strict; reflexivity.
Qed.

Lemma gen_merge_loop_eq fuel : forall strict legacy rem base res,
  gen_merge_loop fuel strict legacy rem base res =
  out_of_mres strict legacy (merge_loop fuel (gen_nonempty_bases_ignoring rem base) (rev res)).
Proof.
  induction fuel as [|f IH]; intros strict legacy rem base res; [reflexivity|].
  cbn [gen_merge_loop merge_loop].
  pose proof (gen_nonempty_bases_ignoring_all_nonempty rem base) as NE.
  destruct (gen_nonempty_bases_ignoring rem base) as [|s r] eqn:E.
  - cbn. rewrite rev_involutive. reflexivity.
  - cbn [truthy negb]. rewrite gen_choose_next_base_eq by auto.
    destruct (find_next (s :: r)) as [b|].
    + cbn [opt_to_list]. rewrite IH. rewrite gen_nonempty_bases_ignoring_some.
      rewrite rev_app_distr. reflexivity.
    + destruct strict; reflexivity.
Qed.

Lemma gen_merge_eq strict legacy tree :
  gen_merge (S (total_len (filter nonempty tree))) strict legacy tree =
  out_of_mres strict legacy (c3_merge tree).
Proof.
  unfold gen_merge, c3_merge. rewrite gen_merge_loop_eq, gen_nonempty_bases_ignoring_none. reflexivity.
Qed.

(* ------------------------------------------------------------------ C3.__init__ + mro() + had_inconsistency *)
Lemma gen_had_inconsistency_eq d b : gen_had_inconsistency d b = orb d b.
Proof. reflexivity. Qed.

Lemma gen_base_tree_eq x bs base_mros : gen_base_tree x bs base_mros = [[x]] ++ base_mros ++ [bs].
Proof. unfold gen_base_tree. rewrite <- app_assoc. reflexivity. Qed.

Definition rres_of (binc : bool) (o : mro_out) : rres :=
  match o with
  | MroRet m d => ROk m (gen_had_inconsistency d binc)
  | MroRaise _ => RRaise
  | MroFuel => RFuel
  end.

Lemma gen_c3_node_eq strict x bs base_mros binc legacy : length base_mros = length bs ->
  c3_node strict x bs base_mros binc legacy =
  rres_of binc (gen_mro (S (total_len (filter nonempty ([[x]] ++ base_mros ++ [bs]))))
                        strict x bs base_mros legacy).
Proof.
  intros L. unfold gen_mro, gen_init_mro, c3_node.
  assert (D : forall s, rres_of binc (out_of_mres strict legacy s) =
                        match s with
                        | MOk l => ROk l binc
                        | MBad => if strict then RRaise else ROk legacy true
                        | MFuel => RFuel
                        end).
  { intros [l| |]; cbn; auto. destruct strict; reflexivity. }
  destruct bs as [|b1 [|b2 r]]; destruct base_mros as [|m1 [|m2 ms]]; try discriminate L.
  - cbn [length Nat.eqb]. rewrite gen_base_tree_eq, gen_merge_eq, D. reflexivity.
  - reflexivity.
  - cbn [length Nat.eqb]. rewrite gen_base_tree_eq, gen_merge_eq, D. reflexivity.
Qed.

Lemma gen_bases_had_inconsistency_eq rs ms is :
  collect rs = inl (ms, is) -> is = gen_bases_had_inconsistency (map inc_of rs).
Proof.
  unfold gen_bases_had_inconsistency. revert ms is.
  induction rs as [|r rs IH]; cbn; intros ms is H.
  - inversion H; reflexivity.
  - destruct r as [| |m i]; try discriminate.
    destruct (collect rs) as [[ms' is']|]; [|discriminate]. inversion H; subst.
    cbn. f_equal. eapply IH; eauto.
Qed.

(* ------------------------------------------------------------------ ro() *)
Lemma gen_ro_eq log_changed strict use_legacy fuel g x :
  ro strict use_legacy fuel g x =
  match resolve strict fuel g x with
  | ROk m i => ROk (gen_ro log_changed use_legacy m (legacy_ro fuel g x)) i
  | r => r
  end.
Proof.
  unfold ro, gen_ro. destruct (resolve strict fuel g x); auto.
  destruct log_changed, use_legacy; reflexivity.
Qed.

Lemma gen_use_legacy_eq b env : gen_use_legacy (Some b) env = b /\ gen_use_legacy None env = env.
Proof. split; reflexivity. Qed.

(* ------------------------------------------------------------------ is_consistent *)
(* the resolver is non-strict, and the answer is the negated flag AFTER the order was computed *)
Lemma gen_is_consistent_eq :
  gen_is_consistent_strict = false /\
  forall direct binc, gen_is_consistent direct binc = negb (gen_had_inconsistency direct binc).
Proof. split; [reflexivity|]. intros [|] [|]; reflexivity. Qed.

Lemma gen_is_consistent_model fuel g x :
  is_consistent fuel g x =
  match resolve gen_is_consistent_strict fuel g x with ROk _ i => Some (negb i) | _ => None end.
Proof. reflexivity. Qed.

(* ------------------------------------------------------------------ _calculate_sro root fix-up *)
Lemma gen_root_fixup_eq root sro : gen_root_fixup (Some root) sro = root_last root sro.
Proof.
  unfold gen_root_fixup, root_last, last_is. cbn [py_is_none negb andb].
  destruct sro as [|h t]; [reflexivity|]. cbn [truthy andb]. unfold node in *.
  destruct (rev (h :: t)) as [|z r] eqn:E; cbn [hd_error py_at_is_opt py_is_opt opt_to_list negb].
  - reflexivity.
  - destruct (Nat.eqb z root); reflexivity.
Qed.

(* before Interface exists (bootstrap) nothing is moved *)
Lemma gen_root_fixup_none sro : gen_root_fixup None sro = sro.
Proof. reflexivity. Qed.
