(* Proofs for C16, continued: the pruning structures of the two registries (_provided counts and
   the lookup object's _extendors) never hide a stored registration, in any history; hence
   queryUtility answers from the listings (sound and complete up to the choice among several
   applicable registrations, which is C04's subject). *)
From Coq Require Import List Arith Bool Lia.
Import ListNotations.
From ZI Require Import Model.Ro Model.Adapter Model.Components Spec.Components Proofs.Components.

(* ------------------------------------------------------------------ counting over assoc lists *)
Section Sums.
  Context {K V : Type} (eqb : K -> K -> bool).
  Hypothesis eqb_eq : forall a b, eqb a b = true <-> a = b.
  Variable g : K -> V -> nat.

  Fixpoint asum (m : list (K * V)) : nat := match m with [] => 0 | (k, v) :: m' => g k v + asum m' end.

  Lemma asum_aset_new m k v : aget eqb m k = None -> asum (aset eqb m k v) = asum m + g k v.
  Proof.
    induction m as [|[k' v'] m IH]; cbn; [lia|].
    destruct (eqb k k'); [discriminate|]. intros H. cbn. rewrite IH; auto. lia.
  Qed.

  Lemma asum_aset_old m k v old : aget eqb m k = Some old -> asum (aset eqb m k v) + g k old = asum m + g k v.
  Proof.
    induction m as [|[k' v'] m IH]; cbn; [discriminate|].
    destruct (eqb k k') eqn:E.
    - apply eqb_eq in E. subst. intros [= ->]. cbn. lia.
    - intros H. cbn. specialize (IH H). lia.
  Qed.

  Lemma asum_adel m k old : aget eqb m k = Some old -> asum m = asum (adel eqb m k) + g k old.
  Proof.
    induction m as [|[k' v'] m IH]; cbn; [discriminate|].
    destruct (eqb k k') eqn:E.
    - apply eqb_eq in E. subst. intros [= ->]. lia.
    - intros H. cbn. specialize (IH H). lia.
  Qed.
End Sums.

(* ------------------------------------------------------------------ extendors *)
Section Ext.
  Variable W : world.

  Lemma ext_get_aset e i l j : ext_get (aset Nat.eqb e i l) j = if Nat.eqb j i then l else ext_get e j.
  Proof. unfold ext_get. rewrite (aget_aset _ nat_eqb_eq). destruct (Nat.eqb j i); auto. Qed.

  Lemma add_extendor_gen p (l : list spec) : forall e x j,
    In x (ext_get (fold_left (fun e i =>
                      let old := ext_get e i in
                      aset Nat.eqb e i (filter (fun x => isOrExtends W p x) old ++ [p]
                                        ++ filter (fun x => negb (isOrExtends W p x)) old)) l e) j)
    <-> In x (ext_get e j) \/ (x = p /\ In j l).
  Proof.
    induction l as [|i l IH]; intros e x j; cbn [fold_left].
    - cbn. tauto.
    - rewrite IH. rewrite ext_get_aset. destruct (Nat.eqb j i) eqn:E.
      + apply Nat.eqb_eq in E. subst j. rewrite !in_app_iff, !filter_In. cbn [In].
        destruct (isOrExtends W p x) eqn:Ex; cbn; intuition (subst; auto; try discriminate).
      + apply Nat.eqb_neq in E. cbn [In]. intuition (subst; auto; congruence).
  Qed.

  Lemma add_extendor_in e p x j :
    In x (ext_get (add_extendor W e p) j) <-> In x (ext_get e j) \/ (x = p /\ In j (iro W p)).
  Proof. apply add_extendor_gen. Qed.

  Lemma remove_extendor_gen p (l : list spec) : forall e x j,
    In x (ext_get (fold_left (fun e i => aset Nat.eqb e i (filter (fun x => negb (Nat.eqb x p)) (ext_get e i))) l e) j)
    <-> In x (ext_get e j) /\ (x <> p \/ ~ In j l).
  Proof.
    induction l as [|i l IH]; intros e x j; cbn [fold_left].
    - cbn. tauto.
    - rewrite IH. rewrite ext_get_aset. destruct (Nat.eqb j i) eqn:E.
      + apply Nat.eqb_eq in E. subst j. rewrite filter_In, negb_true_iff, Nat.eqb_neq. cbn [In]. tauto.
      + apply Nat.eqb_neq in E. cbn [In]. intuition.
  Qed.

  Lemma remove_extendor_in e p x j :
    In x (ext_get (remove_extendor W e p) j) <-> In x (ext_get e j) /\ (x <> p \/ ~ In j (iro W p)).
  Proof. apply remove_extendor_gen. Qed.

  (* ---- the pruning invariant of one registry *)
  Definition prov_of (k : akey) : spec := snd (fst k).
  Definition n_adapters (r : reg) (p : spec) : nat :=
    asum (fun (k : akey) (_ : value) => if Nat.eqb (prov_of k) p then 1 else 0) (adapters r).
  Definition n_subs (r : reg) (p : spec) : nat :=
    asum (fun (k : skey) (l : list value) => if ospec_eqb (snd k) (Some p) then length l else 0) (Adapter.subscribers r).

  Record reg_ok (r : reg) : Prop := {
    ro_cnt_keys : NoDup (map fst (provided_cnt r));
    ro_sub_keys : NoDup (map fst (Adapter.subscribers r));
    ro_cnt : forall p, n_adapters r p + n_subs r p <= cnt_get (provided_cnt r) p;
    ro_ext : forall i p, In p (ext_get (extendors r) i) <-> (0 < cnt_get (provided_cnt r) p /\ In i (iro W p))
  }.

  Lemma reg_ok_empty : reg_ok empty_reg.
  Proof.
    constructor; cbn; try constructor; auto.
    - intros H. inversion H.
    - intros [H _]. inversion H.
  Qed.

  Lemma cnt_get_aset c p n p' : cnt_get (aset Nat.eqb c p n) p' = if Nat.eqb p' p then n else cnt_get c p'.
  Proof. unfold cnt_get. rewrite (aget_aset _ nat_eqb_eq). destruct (Nat.eqb p' p); auto. Qed.

  Lemma cnt_get_adel c p p' : NoDup (map fst c) -> cnt_get (adel Nat.eqb c p) p' = if Nat.eqb p' p then 0 else cnt_get c p'.
  Proof. intros ND. unfold cnt_get. rewrite (aget_adel _ nat_eqb_eq) by auto. destruct (Nat.eqb p' p); auto. Qed.

  (* provide_incr / provide_decr keep counts and extendors in step; the storage fields are
     whatever the caller put there *)
  Lemma incr_cnt r p p' :
    cnt_get (provided_cnt (provide_incr W r p)) p' = if Nat.eqb p' p then S (cnt_get (provided_cnt r) p) else cnt_get (provided_cnt r) p'.
  Proof. cbn. apply cnt_get_aset. Qed.

  Lemma incr_cnt_keys r p : NoDup (map fst (provided_cnt r)) -> NoDup (map fst (provided_cnt (provide_incr W r p))).
  Proof. intros H. cbn. now apply (NoDup_aset _ nat_eqb_eq). Qed.

  Lemma incr_ext r p :
    (forall i x, In x (ext_get (extendors r) i) <-> (0 < cnt_get (provided_cnt r) x /\ In i (iro W x))) ->
    forall i x, In x (ext_get (extendors (provide_incr W r p)) i)
                <-> (0 < cnt_get (provided_cnt (provide_incr W r p)) x /\ In i (iro W x)).
  Proof.
    intros H i x. rewrite incr_cnt. cbn [provide_incr extendors].
    destruct (Nat.eqb (S (cnt_get (provided_cnt r) p)) 1) eqn:E1.
    - apply Nat.eqb_eq in E1. rewrite add_extendor_in, H.
      destruct (Nat.eqb x p) eqn:Ex.
      + apply Nat.eqb_eq in Ex. subst x. intuition lia.
      + apply Nat.eqb_neq in Ex. intuition congruence.
    - apply Nat.eqb_neq in E1. rewrite H.
      destruct (Nat.eqb x p) eqn:Ex; [|tauto].
      apply Nat.eqb_eq in Ex. subst x. intuition lia.
  Qed.

  Lemma decr_cnt r p k p' : NoDup (map fst (provided_cnt r)) ->
    cnt_get (provided_cnt (provide_decr W r p k)) p' = if Nat.eqb p' p then cnt_get (provided_cnt r) p - k else cnt_get (provided_cnt r) p'.
  Proof.
    intros ND. unfold provide_decr. destruct (Nat.eqb (cnt_get (provided_cnt r) p - k) 0) eqn:E; cbn.
    - apply Nat.eqb_eq in E. rewrite cnt_get_adel by auto. rewrite E. reflexivity.
    - apply cnt_get_aset.
  Qed.

  Lemma decr_cnt_keys r p k : NoDup (map fst (provided_cnt r)) -> NoDup (map fst (provided_cnt (provide_decr W r p k))).
  Proof.
    intros H. unfold provide_decr. destruct (Nat.eqb _ 0); cbn.
    - now apply (NoDup_adel _ nat_eqb_eq).
    - now apply (NoDup_aset _ nat_eqb_eq).
  Qed.

  Lemma decr_ext r p k : NoDup (map fst (provided_cnt r)) ->
    (forall i x, In x (ext_get (extendors r) i) <-> (0 < cnt_get (provided_cnt r) x /\ In i (iro W x))) ->
    forall i x, In x (ext_get (extendors (provide_decr W r p k)) i)
                <-> (0 < cnt_get (provided_cnt (provide_decr W r p k)) x /\ In i (iro W x)).
  Proof.
    intros ND H i x. rewrite decr_cnt by auto. unfold provide_decr.
    destruct (Nat.eqb (cnt_get (provided_cnt r) p - k) 0) eqn:E; cbn [extendors].
    - apply Nat.eqb_eq in E. rewrite remove_extendor_in, H.
      destruct (Nat.eqb x p) eqn:Ex.
      + apply Nat.eqb_eq in Ex. subst x. intuition lia.
      + apply Nat.eqb_neq in Ex. intuition.
    - apply Nat.eqb_neq in E. rewrite H.
      destruct (Nat.eqb x p) eqn:Ex; [|tauto].
      apply Nat.eqb_eq in Ex. subst x. intuition lia.
  Qed.

  (* ---- preservation by the four storage operations *)
  Lemma reg_ok_incr r r1 p : reg_ok r ->
    provided_cnt r1 = provided_cnt r -> extendors r1 = extendors r ->
    NoDup (map fst (Adapter.subscribers r1)) ->
    (forall p', n_adapters r1 p' + n_subs r1 p' <= n_adapters r p' + n_subs r p' + (if Nat.eqb p' p then 1 else 0)) ->
    reg_ok (changed (provide_incr W r1 p)).
  Proof.
    intros [H1 H2 H3 H4] Ec Ee ND Hn. constructor.
    - cbn [changed provided_cnt]. apply incr_cnt_keys. now rewrite Ec.
    - exact ND.
    - intros p'. change (n_adapters (changed (provide_incr W r1 p)) p') with (n_adapters r1 p').
      change (n_subs (changed (provide_incr W r1 p)) p') with (n_subs r1 p').
      change (provided_cnt (changed (provide_incr W r1 p))) with (provided_cnt (provide_incr W r1 p)).
      rewrite incr_cnt, Ec. specialize (Hn p'). specialize (H3 p').
      destruct (Nat.eqb p' p) eqn:E; [apply Nat.eqb_eq in E; subst|]; lia.
    - change (extendors (changed (provide_incr W r1 p))) with (extendors (provide_incr W r1 p)).
      change (provided_cnt (changed (provide_incr W r1 p))) with (provided_cnt (provide_incr W r1 p)).
      apply incr_ext. rewrite Ec, Ee. exact H4.
  Qed.

  Lemma reg_ok_decr r r1 p k : reg_ok r ->
    provided_cnt r1 = provided_cnt r -> extendors r1 = extendors r ->
    NoDup (map fst (Adapter.subscribers r1)) ->
    (forall p', n_adapters r1 p' + n_subs r1 p' + (if Nat.eqb p' p then k else 0) <= n_adapters r p' + n_subs r p') ->
    reg_ok (changed (provide_decr W r1 p k)).
  Proof.
    intros [H1 H2 H3 H4] Ec Ee ND Hn.
    assert (ND1 : NoDup (map fst (provided_cnt r1))) by now rewrite Ec.
    constructor.
    - cbn [changed provided_cnt]. now apply decr_cnt_keys.
    - unfold changed. cbn [Adapter.subscribers]. now rewrite provide_decr_subscribers.
    - intros p'. unfold n_adapters, n_subs, changed. cbn [adapters Adapter.subscribers provided_cnt].
      rewrite provide_decr_adapters, provide_decr_subscribers, decr_cnt by auto. rewrite Ec.
      specialize (Hn p'). specialize (H3 p'). unfold n_adapters, n_subs in Hn, H3.
      destruct (Nat.eqb p' p) eqn:E; [apply Nat.eqb_eq in E; subst|]; lia.
    - change (extendors (changed (provide_decr W r1 p k))) with (extendors (provide_decr W r1 p k)).
      change (provided_cnt (changed (provide_decr W r1 p k))) with (provided_cnt (provide_decr W r1 p k)).
      apply decr_ext; auto. rewrite Ec, Ee. exact H4.
  Qed.

  Lemma reg_ok_same r r1 : reg_ok r ->
    provided_cnt r1 = provided_cnt r -> extendors r1 = extendors r ->
    NoDup (map fst (Adapter.subscribers r1)) ->
    (forall p', n_adapters r1 p' + n_subs r1 p' <= n_adapters r p' + n_subs r p') ->
    reg_ok (changed r1).
  Proof.
    intros [H1 H2 H3 H4] Ec Ee ND Hn. constructor; cbn [changed provided_cnt extendors].
    - now rewrite Ec.
    - exact ND.
    - intros p'. change (n_adapters (changed r1) p') with (n_adapters r1 p').
      change (n_subs (changed r1) p') with (n_subs r1 p'). rewrite Ec.
      specialize (Hn p'). specialize (H3 p'). lia.
    - rewrite Ec, Ee. exact H4.
  Qed.

  Definition ga (p' : spec) (k : akey) (_ : value) : nat := if Nat.eqb (prov_of k) p' then 1 else 0.
  Definition gs (p' : spec) (k : skey) (l : list value) : nat := if ospec_eqb (snd k) (Some p') then length l else 0.

  Lemma ga_val p' q p n v : ga p' (q, p, n) v = if Nat.eqb p p' then 1 else 0.
  Proof. reflexivity. Qed.
  Lemma gs_val p' q p l : gs p' (q, p) l = if ospec_eqb p (Some p') then length l else 0.
  Proof. reflexivity. Qed.

  Lemma reg_ok_unregister r req p n v : reg_ok r -> reg_ok (unregister W r req p n v).
  Proof.
    intros H. unfold unregister. set (k := (map conv req, p, n)).
    destruct (aget akey_eqb (adapters r) k) as [old|] eqn:E; auto.
    assert (Hgo : reg_ok (changed (provide_decr W (mkReg (adel akey_eqb (adapters r) k) (Adapter.subscribers r)
                                                        (provided_cnt r) (extendors r) (generation r)) p 1))).
    { apply reg_ok_decr with (r := r); auto; [apply (ro_sub_keys _ H)|].
      intros p'. unfold n_adapters, n_subs. cbn [adapters Adapter.subscribers].
      pose proof (asum_adel akey_eqb akey_eqb_eq (ga p') _ _ _ E) as Hs. fold (ga p'). rewrite Hs.
      subst k. rewrite ga_val, (Nat.eqb_sym p p'). lia. }
    destruct v as [v'|]; [destruct (v_is old v')|]; auto.
  Qed.

  Lemma reg_ok_register r req p n v : reg_ok r -> reg_ok (register W r req p n v).
  Proof.
    intros H. unfold register. destruct v as [v'|]; [|now apply reg_ok_unregister].
    set (k := (map conv req, p, n)).
    assert (Hgo : reg_ok (changed (provide_incr W (mkReg (aset akey_eqb (adapters r) k v') (Adapter.subscribers r)
                                                        (provided_cnt r) (extendors r) (generation r)) p))).
    { apply reg_ok_incr with (r := r); auto; [apply (ro_sub_keys _ H)|].
      intros p'. unfold n_adapters, n_subs. cbn [adapters Adapter.subscribers]. fold (ga p').
      destruct (aget akey_eqb (adapters r) k) as [old|] eqn:E.
      - pose proof (asum_aset_old akey_eqb akey_eqb_eq (ga p') _ _ v' _ E) as Hs.
        subst k. rewrite !ga_val in Hs. destruct (Nat.eqb p' p); lia.
      - rewrite (asum_aset_new akey_eqb (ga p') _ _ v' E).
        subst k. rewrite ga_val, (Nat.eqb_sym p p'). lia. }
    destruct (aget akey_eqb (adapters r) k) as [old|]; [destruct (v_is old v')|]; auto.
  Qed.

  Lemma reg_ok_subscribe r req p v : reg_ok r -> reg_ok (subscribe W r req p v).
  Proof.
    intros H. unfold subscribe. set (k := (map conv req, p)).
    set (r1 := mkReg (adapters r) (aset skey_eqb (Adapter.subscribers r) k (sub_leaf r k ++ [v]))
                     (provided_cnt r) (extendors r) (generation r)).
    assert (ND : NoDup (map fst (Adapter.subscribers r1))).
    { cbn. apply (NoDup_aset _ skey_eqb_eq). apply (ro_sub_keys _ H). }
    assert (Hs : forall p', n_subs r1 p' = n_subs r p' + (if ospec_eqb p (Some p') then 1 else 0)).
    { intros p'. unfold n_subs, r1. cbn [Adapter.subscribers]. fold (gs p'). unfold sub_leaf. subst k.
      destruct (aget skey_eqb (Adapter.subscribers r) (map conv req, p)) as [old|] eqn:E.
      - pose proof (asum_aset_old skey_eqb skey_eqb_eq (gs p') _ _ (old ++ [v]) _ E) as Hs.
        rewrite !gs_val, app_length in Hs. cbn [length] in Hs.
        destruct (ospec_eqb p (Some p')); lia.
      - rewrite (asum_aset_new skey_eqb (gs p') _ _ _ E). rewrite gs_val. cbn [app length].
        destruct (ospec_eqb p (Some p')); lia. }
    destruct p as [p0|].
    - apply reg_ok_incr with (r := r); auto. intros p'. rewrite Hs.
      change (n_adapters r1 p') with (n_adapters r p'). cbn [ospec_eqb]. rewrite (Nat.eqb_sym p0 p'). lia.
    - apply reg_ok_same with (r := r); auto. intros p'. rewrite Hs.
      change (n_adapters r1 p') with (n_adapters r p'). cbn [ospec_eqb]. lia.
  Qed.

  Lemma reg_ok_unsubscribe r req p v : reg_ok r -> reg_ok (unsubscribe W r req p v).
  Proof.
    intros H. unfold unsubscribe. set (k := (map conv req, p)).
    destruct (sub_leaf r k) as [|x old'] eqn:El; auto. set (old := x :: old') in *.
    set (new := match v with None => [] | Some v' => filter (fun y => negb (v_eq y v')) old end).
    destruct (Nat.eqb (length new) (length old)) eqn:Elen; auto.
    assert (Hle : length new <= length old).
    { subst new. destruct v; [apply filter_length_le | cbn; lia]. }
    assert (Hget : aget skey_eqb (Adapter.subscribers r) k = Some old).
    { unfold sub_leaf in El. destruct (aget skey_eqb (Adapter.subscribers r) k); [now subst | discriminate]. }
    set (subs := match new with [] => adel skey_eqb (Adapter.subscribers r) k | _ => aset skey_eqb (Adapter.subscribers r) k new end).
    set (r1 := mkReg (adapters r) subs (provided_cnt r) (extendors r) (generation r)).
    assert (ND : NoDup (map fst (Adapter.subscribers r1))).
    { cbn. subst subs. destruct new; [apply (NoDup_adel _ skey_eqb_eq) | apply (NoDup_aset _ skey_eqb_eq)]; apply (ro_sub_keys _ H). }
    assert (Hs : forall p', n_subs r1 p' + (if ospec_eqb p (Some p') then length old - length new else 0) = n_subs r p').
    { intros p'. unfold n_subs, r1. cbn [Adapter.subscribers]. fold (gs p'). subst subs.
      destruct new as [|y new'] eqn:En.
      - pose proof (asum_adel skey_eqb skey_eqb_eq (gs p') _ _ _ Hget) as Hd. rewrite Hd.
        subst k. rewrite gs_val. destruct (ospec_eqb p (Some p')); cbn [length]; lia.
      - pose proof (asum_aset_old skey_eqb skey_eqb_eq (gs p') _ _ (y :: new') _ Hget) as Hd.
        subst k. rewrite !gs_val in Hd.
        destruct (ospec_eqb p (Some p')); lia. }
    destruct p as [p0|].
    - apply reg_ok_decr with (r := r); auto. intros p'. specialize (Hs p').
      change (n_adapters r1 p') with (n_adapters r p'). cbn [ospec_eqb] in Hs. rewrite (Nat.eqb_sym p0 p') in Hs. lia.
    - apply reg_ok_same with (r := r); auto. intros p'. specialize (Hs p').
      change (n_adapters r1 p') with (n_adapters r p'). cbn [ospec_eqb] in Hs. lia.
  Qed.
End Ext.

(* ------------------------------------------------------------------ Components: both registries stay consistent *)
Section ComponentsLookup.
  Variable W : world.
  Variable hashable : value -> bool.

  Definition both_ok (st : cstate) : Prop := reg_ok W (c_utils st) /\ reg_ok W (c_adapters st).

  Lemma both_ok_init : both_ok cinit.
  Proof. split; apply reg_ok_empty. Qed.

  Lemma ur_register_ok st p n c i f : both_ok st -> both_ok (ur_register W hashable st p n c i f).
  Proof.
    intros [Hu Ha]. unfold ur_register, both_ok. cbn [set_utils c_utils c_adapters]. split; auto.
    destruct (is_subscribed hashable (c_cache st) p c).
    - now apply reg_ok_register.
    - apply reg_ok_subscribe. now apply reg_ok_register.
  Qed.

  Lemma ur_unregister_ok st p n c : both_ok st -> both_ok (fst (ur_unregister W hashable st p n c)).
  Proof.
    intros [Hu Ha]. unfold ur_unregister, both_ok.
    destruct (uncache_utility hashable (c_cache st) p c) as [[cache' still]|]; cbn [fst set_utils c_utils c_adapters].
    - split; auto. destruct still.
      + now apply reg_ok_unregister.
      + apply reg_ok_unsubscribe. now apply reg_ok_unregister.
    - split; auto. now apply reg_ok_unregister.
  Qed.

  Lemma unregisterUtility_ok st c p n : both_ok st -> both_ok (st_of (unregisterUtility W hashable st c p n)).
  Proof.
    intros H. unfold unregisterUtility.
    destruct (aget pn_eqb (c_ureg st) (p, n)) as [[[oc oi] of]|]; [|exact H].
    assert (Hgo : forall comp, both_ok (st_of match ur_unregister W hashable st p n comp with
                                               | (st', true) => (st', RBool true, [Unregistered (RU p n comp oi of)])
                                               | (st', false) => (st', RTypeError, [])
                                               end)).
    { intros comp. pose proof (ur_unregister_ok st p n comp H) as H'.
      destruct (ur_unregister W hashable st p n comp) as [st' [|]]; exact H'. }
    destruct c as [c'|]; [destruct (negb (v_eq c' oc)); [exact H|]|]; apply Hgo.
  Qed.

  Ltac simp := cbn [st_of fst set_adapters set_utils c_utils c_adapters].

  Lemma cstep_ok st o : both_ok st -> both_ok (st_of (cstep W hashable st o)).
  Proof.
    intros H. destruct o; cbn [cstep].
    - unfold registerUtility.
      destruct (aget pn_eqb (c_ureg st) (p, n)) as [[[oc oi] of]|].
      + destruct (v_eq oc c && Nat.eqb oi i); [exact H|].
        pose proof (unregisterUtility_ok st (Some oc) p n H) as H1.
        destruct (unregisterUtility W hashable st (Some oc) p n) as [[st1 r1] ev1].
        cbn [st_of fst] in H1. destruct r1; cbn [st_of fst]; auto; now apply ur_register_ok.
      + now apply ur_register_ok.
    - now apply unregisterUtility_ok.
    - destruct H as [Hu Ha]. unfold registerAdapter, both_ok. simp. split; auto. now apply reg_ok_register.
    - destruct H as [Hu Ha]. unfold unregisterAdapter, both_ok.
      destruct (aget akey_eqb (c_areg st) _) as [[of oi]|]; [|simp; split; auto].
      destruct (match f with Some f' => negb (v_eq f' of) | None => false end); simp; split; auto.
      now apply reg_ok_unregister.
    - destruct H as [Hu Ha]. unfold registerSub, both_ok. destruct (negb (Nat.eqb n 0)); simp; split; auto.
      now apply reg_ok_subscribe.
    - destruct H as [Hu Ha]. unfold unregisterSub, both_ok. destruct (negb (Nat.eqb n 0)); [simp; split; auto|].
      destruct (Nat.eqb _ _); simp; split; auto. now apply reg_ok_unsubscribe.
    - destruct H as [Hu Ha]. unfold registerHandler, both_ok. destruct (negb (Nat.eqb n 0)); simp; split; auto.
      now apply reg_ok_subscribe.
    - destruct H as [Hu Ha]. unfold unregisterHandler, both_ok. destruct (negb (Nat.eqb n 0)); [simp; split; auto|].
      destruct (Nat.eqb _ _); simp; split; auto. now apply reg_ok_unsubscribe.
    - exact H.
    - apply both_ok_init.
  Qed.

  Lemma final_ok ops : both_ok (final W hashable ops).
  Proof.
    unfold final. assert (G : forall st, both_ok st -> both_ok (fold_left (fun s o => st_of (cstep W hashable s o)) ops st)).
    { induction ops as [|o ops IH]; cbn; auto. intros st H. apply IH. now apply cstep_ok. }
    apply G, both_ok_init.
  Qed.

  (* every stored registration is reachable through the extendors *)
  Lemma stored_visible r q p n v i : reg_ok W r -> In ((q, p, n), v) (adapters r) -> In i (iro W p) ->
    In p (ext_get (extendors r) i).
  Proof.
    intros H Hin Hi. apply (ro_ext _ _ H). split; auto.
    pose proof (ro_cnt _ _ H p) as Hc. assert (0 < n_adapters r p); [|lia].
    unfold n_adapters. clear -Hin. induction (adapters r) as [|[k' v'] m IH]; [contradiction|].
    cbn. destruct Hin as [E|Hin].
    - inversion E; subst. unfold prov_of. cbn. rewrite Nat.eqb_refl. lia.
    - specialize (IH Hin). lia.
  Qed.

  Lemma subs_visible r q p i : reg_ok W r -> sub_leaf r (q, Some p) <> [] -> In i (iro W p) ->
    In p (ext_get (extendors r) i).
  Proof.
    intros H Hne Hi. apply (ro_ext _ _ H). split; auto.
    pose proof (ro_cnt _ _ H p) as Hc. assert (0 < n_subs r p); [|lia].
    unfold n_subs, sub_leaf in *.
    destruct (aget skey_eqb (Adapter.subscribers r) (q, Some p)) as [l|] eqn:E; [|congruence].
    apply (aget_In _ skey_eqb_eq) in E. clear -E Hne.
    induction (Adapter.subscribers r) as [|[k' l'] m IH]; [contradiction|].
    cbn. destruct E as [E|E].
    - inversion E; subst. cbn. rewrite Nat.eqb_refl. destruct l; [congruence | cbn; lia].
    - specialize (IH E). lia.
  Qed.

  (* in every reachable state (no hypothesis on the history at all) the pruning structures of
     both registries cover everything stored *)
  Theorem pruning_never_hides_lemma ops :
    let st := final W hashable ops in
    forall r, r = c_utils st \/ r = c_adapters st ->
      (forall q p n v i, In ((q, p, n), v) (adapters r) -> In i (iro W p) -> In p (ext_get (extendors r) i))
      /\ (forall q p i, sub_leaf r (q, Some p) <> [] -> In i (iro W p) -> In p (ext_get (extendors r) i))
      /\ (forall i p, In p (ext_get (extendors r) i) -> In i (iro W p)).
  Proof.
    intros st r Hr. destruct (final_ok ops) as [Hu Ha]. fold st in Hu, Ha.
    assert (H : reg_ok W r) by (destruct Hr; subst; auto).
    split; [|split].
    - intros q p n v i. now apply stored_visible.
    - intros q p i. now apply subs_visible.
    - intros i p Hin. apply (ro_ext _ _ H) in Hin. tauto.
  Qed.

  Lemma first_some_some {A B} (f : A -> option B) l y : first_some f l = Some y -> exists x, In x l /\ f x = Some y.
  Proof.
    induction l as [|x l IH]; cbn; [discriminate|]. destruct (f x) eqn:E.
    - intros [= ->]. eauto.
    - intros H. destruct (IH H) as [x' [H1 H2]]. eauto.
  Qed.

  Lemma first_some_none {A B} (f : A -> option B) l : first_some f l = None -> forall x, In x l -> f x = None.
  Proof.
    induction l as [|x l IH]; cbn; [tauto|]. destruct (f x) eqn:E; [discriminate|].
    intros H x' [<-|H']; auto.
  Qed.

  Section WithClasses.
    Variable cls : nat -> nat.
    Hypothesis hash_cls : forall a b, veq a = veq b -> hashable a = hashable b.

    (* queryUtility answers from the listings: whatever it returns is a listed utility of that
       name whose provided interface extends the one asked for, and it returns something whenever
       such a utility is listed *)
    Theorem queryUtility_lemma ops : forallb (ok_op cls) ops = true ->
      let st := final W hashable ops in
      (forall p n c, queryUtility W st p n = Some c ->
         exists p' i f, In (RU p' n c i f) (registeredUtilities st) /\ In p (iro W p'))
      /\ (forall p p' n c i f, In (RU p' n c i f) (registeredUtilities st) -> In p (iro W p') ->
            queryUtility W st p n <> None).
    Proof.
      intros Hok st.
      destruct (reach W hashable cls hash_cls ops Hok) as [[IU IA] R]. fold st in IU, IA, R.
      destruct (final_ok ops) as [Hu _]. fold st in Hu.
      assert (Hlist : forall p' n c, In (([], p', n), c) (adapters (c_utils st)) <->
                                     exists i f, In (RU p' n c i f) (registeredUtilities st)).
      { intros p' n c. rewrite (iu_adapters _ _ _ _ _ IU). unfold registeredUtilities. split.
        - intros Hin. apply in_map_iff in Hin. destruct Hin as [[[p0 n0] [[c0 i0] f0]] [E Hin]].
          unfold ukv, uprov, uname, ucomp in E. cbn in E. inversion E; subst.
          exists i0, f0. apply in_map_iff. exists ((p', n), (c, i0, f0)). auto.
        - intros [i [f Hin]]. apply in_map_iff in Hin. destruct Hin as [[[p0 n0] [[c0 i0] f0]] [E Hin]].
          inversion E; subst. apply in_map_iff. exists ((p', n), (c, i, f)). auto. }
      assert (Hq : forall p n, queryUtility W st p n
                               = first_some (fun e => aget akey_eqb (adapters (c_utils st)) ([], e, n))
                                            (ext_get (extendors (c_utils st)) p)).
      { intros p n. unfold queryUtility, uncached_lookup. cbn [first_some].
        destruct (ext_get (extendors (c_utils st)) p) as [|e exts] eqn:E; [reflexivity|].
        cbn [lookup_walk]. destruct (first_some _ (e :: exts)); reflexivity. }
      split.
      - intros p n c Hsome. rewrite Hq in Hsome. apply first_some_some in Hsome.
        destruct Hsome as [e [He Hget]]. apply (aget_In _ akey_eqb_eq) in Hget.
        apply Hlist in Hget. destruct Hget as [i [f Hin]]. exists e, i, f. split; auto.
        apply (ro_ext _ _ Hu) in He. tauto.
      - intros p p' n c i f Hin Hp Hnone. rewrite Hq in Hnone.
        assert (Hstored : In (([], p', n), c) (adapters (c_utils st))) by (apply Hlist; eauto).
        pose proof (stored_visible _ _ _ _ _ p Hu Hstored Hp) as Hvis.
        pose proof (first_some_none _ _ Hnone p' Hvis) as Hget. cbn in Hget.
        assert (ND : NoDup (map fst (adapters (c_utils st)))).
        { rewrite (iu_adapters _ _ _ _ _ IU). unfold ukv. rewrite map_map. cbn [fst].
          pose proof (iu_keys _ _ _ _ _ IU) as NDk. clear -NDk.
          induction (c_ureg st) as [|[[p0 n0] v0] U IH]; cbn; [constructor|].
          inversion NDk; subst. constructor; auto.
          intros Hin. apply H1. apply in_map_iff in Hin. destruct Hin as [[[p1 n1] v1] [E Hin]].
          unfold uprov, uname in E. cbn in E. inversion E; subst. apply in_map_iff. exists ((p0, n0), v1). auto. }
        rewrite (In_aget _ akey_eqb_eq _ _ _ ND Hstored) in Hget. discriminate.
    Qed.
  End WithClasses.
End ComponentsLookup.
