(* Proofs about Model/Ro.v against Spec/C3.v (property C03). *)
From Coq Require Import List Arith Bool Lia.
Import ListNotations.
From ZI Require Import Model.Ro Spec.C3.

(* ------------------------------------------------------------------ membership *)
Lemma mem_In x l : mem x l = true <-> In x l.
Proof.
  induction l as [|y l IH]; cbn; [split; [discriminate|tauto]|].
  rewrite orb_true_iff, Nat.eqb_eq, IH. split; intros [H|H]; auto.
Qed.

Lemma mem_notIn x l : mem x l = false <-> ~ In x l.
Proof. rewrite <- mem_In. destruct (mem x l); split; congruence. Qed.

Lemma eqb_In c t : existsb (Nat.eqb c) t = true <-> In c t.
Proof.
  rewrite existsb_exists. split.
  - intros [y [H E]]. apply Nat.eqb_eq in E; subst; auto.
  - intros H; exists c; split; auto. apply Nat.eqb_refl.
Qed.

Lemma eqb_notIn c t : existsb (Nat.eqb c) t = false <-> ~ In c t.
Proof. rewrite <- eqb_In. destruct (existsb (Nat.eqb c) t); split; congruence. Qed.

Lemma memb_In x l : memb x l = true <-> In x l.
Proof. apply eqb_In. Qed.

Lemma nodup_b_NoDup l : nodup_b l = true <-> NoDup l.
Proof.
  induction l as [|x l IH]; cbn.
  - split; auto. constructor.
  - rewrite andb_true_iff, negb_true_iff, mem_notIn, IH. split.
    + intros [A B]; constructor; auto.
    + intros H; inversion H; auto.
Qed.

Lemma nodupb_NoDup l : nodupb l = true <-> NoDup l.
Proof.
  induction l as [|x l IH]; cbn.
  - split; auto. constructor.
  - rewrite andb_true_iff, negb_true_iff. unfold memb. rewrite eqb_notIn, IH. split.
    + intros [A B]; constructor; auto.
    + intros H; inversion H; auto.
Qed.

(* ------------------------------------------------------------------ Subseq / Before *)
Lemma Subseq_refl l : Subseq l l.
Proof. induction l; constructor; auto. Qed.

Lemma Subseq_In s l : Subseq s l -> forall x, In x s -> In x l.
Proof. induction 1; intros y Hy; cbn in *; intuition. Qed.

Lemma Subseq_trans a b : Subseq a b -> forall c, Subseq b c -> Subseq a c.
Proof.
  intros H c Hbc. revert a H. induction Hbc; intros a Ha.
  - inversion Ha; constructor.
  - inversion Ha; subst.
    + constructor.
    + constructor; auto.
    + apply Subseq_skip; auto.
  - apply Subseq_skip; auto.
Qed.

Lemma Subseq_app_l p s l : Subseq s l -> Subseq s (p ++ l).
Proof. induction p; cbn; auto. intros; apply Subseq_skip; auto. Qed.

Lemma Subseq_app_r s l p : Subseq s l -> Subseq s (l ++ p).
Proof. induction 1; cbn; constructor; auto. Qed.

Lemma Subseq_single x l : In x l <-> Subseq [x] l.
Proof.
  split.
  - induction l as [|h l IH]; cbn; [tauto|]. intros [->|H].
    + constructor; constructor.
    + apply Subseq_skip; auto.
  - intros H; eapply Subseq_In; eauto. cbn; auto.
Qed.

Lemma Subseq_nil_r s : Subseq s [] -> s = [].
Proof. inversion 1; auto. Qed.

Lemma Subseq_NoDup s l : Subseq s l -> NoDup l -> NoDup s.
Proof.
  induction 1; intros N.
  - constructor.
  - inversion N; subst. constructor; auto. intros Hx. eapply Subseq_In in Hx; eauto.
  - inversion N; auto.
Qed.

Lemma Before_Subseq l a b : Before l a b <-> Subseq [a; b] l.
Proof.
  split.
  - intros (l1 & l2 & l3 & ->). apply Subseq_app_l. constructor. apply Subseq_app_l.
    constructor. constructor.
  - induction l as [|h l IH]; intros H; inversion H; subst.
    + apply Subseq_single in H1. apply in_split in H1. destruct H1 as (l2 & l3 & ->).
      exists [], l2, l3; reflexivity.
    + destruct (IH H2) as (l1 & l2 & l3 & ->). exists (h :: l1), l2, l3; reflexivity.
Qed.

Lemma Before_sub l l' a b : Before l a b -> Subseq l l' -> Before l' a b.
Proof. rewrite !Before_Subseq. intros; eapply Subseq_trans; eauto. Qed.

Lemma Before_cons_head x t b : In b t -> Before (x :: t) x b.
Proof. intros H. apply Before_Subseq. constructor. apply Subseq_single; auto. Qed.

Lemma Before_In l a b : Before l a b -> In a l /\ In b l.
Proof.
  intros (l1 & l2 & l3 & ->). split; apply in_or_app; right; cbn; auto.
  right. apply in_or_app; right; cbn; auto.
Qed.

(* with no duplicates, [Before] is asymmetric: the last element precedes nothing *)
Lemma Subseq_last_notin z b l : Subseq [z; b] (l ++ [z]) -> In z l.
Proof.
  induction l as [|h l IH]; cbn; intros H.
  - inversion H; subst.
    + inversion H1.
    + inversion H2.
  - inversion H; subst; auto.
Qed.

Lemma filter_Subseq (p : nat -> bool) l : Subseq (filter p l) l.
Proof. induction l as [|h l IH]; cbn; [constructor|]. destruct (p h); constructor; auto. Qed.

Lemma Subseq_filter (p : nat -> bool) s l : Subseq s l -> Subseq (filter p s) (filter p l).
Proof.
  induction 1; cbn.
  - constructor.
  - destruct (p x); [constructor|]; auto.
  - destruct (p x); [apply Subseq_skip|]; auto.
Qed.

(* ------------------------------------------------------------------ the textbook merge *)
Lemma good_spec c seqs : good c seqs = true <-> forall s, In s seqs -> in_tail c s = false.
Proof.
  unfold good. rewrite forallb_forall. split; intros H s Hs; specialize (H s Hs).
  - now apply negb_true_iff.
  - now apply negb_true_iff.
Qed.

Lemma pick_from_some cands seqs c :
  pick_from cands seqs = Some c -> (exists t, In (c :: t) cands) /\ good c seqs = true.
Proof.
  induction cands as [|[|h t] r IH]; cbn; intros H; try discriminate.
  - destruct (IH H) as [[t Ht] G]. split; eauto.
  - destruct (good h seqs) eqn:G.
    + inversion H; subst. split; eauto.
    + destruct (IH H) as [[t' Ht] G']. split; eauto.
Qed.

Lemma pick_some seqs c : pick seqs = Some c -> (exists t, In (c :: t) seqs) /\ good c seqs = true.
Proof. apply pick_from_some. Qed.

Lemma pop_notin c s : in_tail c s = false -> ~ In c (pop c s).
Proof.
  destruct s as [|h t]; cbn; auto. intros H. apply eqb_notIn in H.
  destruct (Nat.eqb h c) eqn:E; auto. apply Nat.eqb_neq in E. cbn. intros [A|A]; auto.
Qed.

Lemma pop_incl c s y : In y (pop c s) -> In y s.
Proof. destruct s as [|h t]; cbn; auto. destruct (Nat.eqb h c); cbn; auto. Qed.

Lemma pop_keeps c s y : In y s -> y <> c -> In y (pop c s).
Proof.
  destruct s as [|h t]; cbn; auto. destruct (Nat.eqb h c) eqn:E; cbn; auto.
  apply Nat.eqb_eq in E; subst. intros [A|A] N; auto. congruence.
Qed.

Lemma pop_Subseq c s l : Subseq (pop c s) l -> Subseq s (c :: l).
Proof.
  destruct s as [|h t]; cbn; [constructor|].
  destruct (Nat.eqb h c) eqn:E; intros H.
  - apply Nat.eqb_eq in E; subst. constructor; auto.
  - apply Subseq_skip; auto.
Qed.

Lemma pop_NoDup c s : NoDup s -> NoDup (pop c s).
Proof. destruct s as [|h t]; cbn; auto. destruct (Nat.eqb h c); auto. inversion 1; auto. Qed.

Lemma all_nil_spec seqs : forallb is_nil seqs = true <-> forall s, In s seqs -> s = [].
Proof.
  rewrite forallb_forall. split; intros H s Hs; specialize (H s Hs).
  - destruct s; auto; discriminate.
  - subst; reflexivity.
Qed.

(* the merge result: no duplicates, exactly the elements of the inputs, every input order kept *)
Lemma merge_f_sound f : forall seqs l, merge_f f seqs = Some l ->
  NoDup l /\ (forall y, In y l <-> exists s, In s seqs /\ In y s) /\
  (forall s, In s seqs -> Subseq s l).
Proof.
  induction f as [|f IH]; intros seqs l H; cbn in H; [discriminate|].
  destruct (forallb is_nil seqs) eqn:E.
  - inversion H; subst. rewrite all_nil_spec in E. split; [constructor|]. split.
    + intros y; split; [intros []|]. intros (s & Hs & Hy). rewrite (E s Hs) in Hy. destruct Hy.
    + intros s Hs. rewrite (E s Hs). constructor.
  - destruct (pick seqs) as [c|] eqn:P; [|discriminate].
    destruct (merge_f f (map (pop c) seqs)) as [l'|] eqn:M; [|discriminate].
    inversion H; subst; clear H.
    destruct (IH _ _ M) as (ND & MEM & SUB).
    destruct (pick_some _ _ P) as [[t Ht] G]. rewrite good_spec in G.
    split; [|split].
    + constructor; auto. intros Hc. apply MEM in Hc. destruct Hc as (s' & Hs' & Hc).
      apply in_map_iff in Hs'. destruct Hs' as (s & <- & Hs).
      eapply pop_notin; eauto.
    + intros y; split.
      * intros [<-|Hy].
        -- exists (c :: t); split; cbn; auto.
        -- apply MEM in Hy. destruct Hy as (s' & Hs' & Hy).
           apply in_map_iff in Hs'. destruct Hs' as (s & <- & Hs).
           exists s; split; auto. eapply pop_incl; eauto.
      * intros (s & Hs & Hy). destruct (Nat.eq_dec y c) as [->|N]; [left; auto|right].
        apply MEM. exists (pop c s); split; [apply in_map; auto|apply pop_keeps; auto].
    + intros s Hs. apply pop_Subseq. apply SUB. apply in_map; auto.
Qed.

Lemma merge_sound seqs l : merge seqs = Some l ->
  NoDup l /\ (forall y, In y l <-> exists s, In s seqs /\ In y s) /\
  (forall s, In s seqs -> Subseq s l).
Proof. apply merge_f_sound. Qed.

(* ---- fuel *)
Lemma size_cons s r : size (s :: r) = length s + size r.
Proof. reflexivity. Qed.

Lemma pop_length c s : length (pop c s) <= length s.
Proof. destruct s as [|h t]; cbn; auto. destruct (Nat.eqb h c); cbn; lia. Qed.

Lemma size_pop_le c seqs : size (map (pop c) seqs) <= size seqs.
Proof.
  induction seqs as [|s r IH]; [cbn; auto|].
  rewrite map_cons, !size_cons. pose proof (pop_length c s). lia.
Qed.

Lemma size_pop_lt c t seqs : In (c :: t) seqs -> size (map (pop c) seqs) < size seqs.
Proof.
  induction seqs as [|s r IH]; [cbn; tauto|]. rewrite map_cons, !size_cons. intros [->|H].
  - cbn [pop length]. rewrite Nat.eqb_refl. pose proof (size_pop_le c r). lia.
  - specialize (IH H). pose proof (pop_length c s). lia.
Qed.

Lemma merge_f_fuel f1 : forall f2 seqs, size seqs < f1 -> size seqs < f2 ->
  merge_f f1 seqs = merge_f f2 seqs.
Proof.
  induction f1 as [|f1 IH]; intros f2 seqs H1 H2; [lia|].
  destruct f2 as [|f2]; [lia|]. cbn.
  destruct (forallb is_nil seqs); auto.
  destruct (pick seqs) as [c|] eqn:P; auto.
  destruct (pick_some _ _ P) as [[t Ht] _].
  pose proof (size_pop_lt _ _ _ Ht).
  rewrite (IH f2); auto; lia.
Qed.

Lemma merge_fuel f seqs : size seqs < f -> merge_f f seqs = merge seqs.
Proof. intros; apply merge_f_fuel; auto. Qed.

(* function and relation agree *)
Lemma merge_f_Merge f : forall seqs l, merge_f f seqs = Some l -> Merge seqs l.
Proof.
  induction f as [|f IH]; intros seqs l H; cbn in H; [discriminate|].
  destruct (forallb is_nil seqs) eqn:E.
  - inversion H; constructor; auto.
  - destruct (pick seqs) as [c|] eqn:P; [|discriminate].
    destruct (merge_f f (map (pop c) seqs)) as [l'|] eqn:M; [|discriminate].
    inversion H; subst. eapply Merge_step; eauto.
Qed.

Lemma Merge_merge_f seqs l : Merge seqs l -> forall f, size seqs < f -> merge_f f seqs = Some l.
Proof.
  induction 1; intros f Hf; (destruct f as [|f]; [lia|]); cbn.
  - rewrite H; auto.
  - rewrite H, H0. destruct (pick_some _ _ H0) as [[t Ht] _].
    pose proof (size_pop_lt _ _ _ Ht). rewrite IHMerge; auto. lia.
Qed.

Lemma merge_iff_Merge seqs l : merge seqs = Some l <-> Merge seqs l.
Proof.
  split; [apply merge_f_Merge|]. intros H. apply Merge_merge_f; auto.
Qed.

(* ---- empty sequences are irrelevant *)
Lemma nonempty_is_nil s : nonempty s = negb (is_nil s).
Proof. destruct s; reflexivity. Qed.

Lemma all_nil_filter seqs : forallb is_nil (filter nonempty seqs) = forallb is_nil seqs.
Proof. induction seqs as [|[|h t] r IH]; cbn; auto. Qed.

Lemma good_filter c seqs : good c (filter nonempty seqs) = good c seqs.
Proof. unfold good. induction seqs as [|[|h t] r IH]; cbn; auto. rewrite IH; auto. Qed.

Lemma pick_from_filter cands seqs :
  pick_from (filter nonempty cands) (filter nonempty seqs) = pick_from cands seqs.
Proof.
  induction cands as [|[|h t] r IH]; cbn; auto. rewrite good_filter, IH; auto.
Qed.

Lemma filter_pop_filter c seqs :
  filter nonempty (map (pop c) (filter nonempty seqs)) = filter nonempty (map (pop c) seqs).
Proof. induction seqs as [|[|h t] r IH]; cbn; auto. rewrite IH; auto. Qed.

Lemma size_filter seqs : size (filter nonempty seqs) = size seqs.
Proof. induction seqs as [|[|h t] r IH]; cbn; auto. Qed.

Lemma merge_f_filter f : forall seqs, merge_f f (filter nonempty seqs) = merge_f f seqs.
Proof.
  induction f as [|f IH]; intros seqs; cbn; auto.
  rewrite all_nil_filter. unfold pick. rewrite pick_from_filter.
  destruct (forallb is_nil seqs); auto.
  destruct (pick_from seqs seqs) as [c|]; auto.
  rewrite <- (IH (map (pop c) (filter nonempty seqs))), filter_pop_filter, IH. auto.
Qed.

Lemma merge_filter seqs : merge (filter nonempty seqs) = merge seqs.
Proof. unfold merge. rewrite size_filter. apply merge_f_filter. Qed.

Lemma merge_cons_nil seqs : merge ([] :: seqs) = merge seqs.
Proof. rewrite <- merge_filter. cbn. apply merge_filter. Qed.

(* ------------------------------------------------------------------ the model's merge *)
Ltac nlia := unfold node in *; lia.
Lemma total_len_size seqs : total_len seqs = size seqs.
Proof. reflexivity. Qed.

Lemma filter_ne_id c s : ~ In c s -> filter (fun b => negb (Nat.eqb b c)) s = s.
Proof.
  induction s as [|h t IH]; cbn; auto. intros H.
  destruct (Nat.eqb h c) eqn:E.
  - apply Nat.eqb_eq in E. subst. tauto.
  - cbn. rewrite IH; auto.
Qed.

Lemma filter_length_le' (p : nat -> bool) s : length (filter p s) <= length s.
Proof. induction s as [|h t IH]; cbn; auto. destruct (p h); cbn; nlia. Qed.

Lemma total_len_cons s r : total_len (s :: r) = length s + total_len r.
Proof. reflexivity. Qed.

Lemma total_len_filter_ne seqs : total_len (filter nonempty seqs) = total_len seqs.
Proof. apply size_filter. Qed.

Lemma total_len_remove_le x seqs : total_len (remove_everywhere x seqs) <= total_len seqs.
Proof.
  unfold remove_everywhere. rewrite total_len_filter_ne.
  induction seqs as [|s r IH]; [cbn; auto|].
  rewrite map_cons, !total_len_cons.
  pose proof (filter_length_le' (fun b => negb (Nat.eqb b x)) s). nlia.
Qed.

Lemma total_len_remove_lt x t seqs :
  In (x :: t) seqs -> total_len (remove_everywhere x seqs) < total_len seqs.
Proof.
  unfold remove_everywhere. rewrite total_len_filter_ne.
  induction seqs as [|s r IH]; [cbn; tauto|].
  rewrite map_cons, !total_len_cons. intros [->|H].
  - cbn [filter length]. rewrite Nat.eqb_refl. cbn [negb].
    pose proof (filter_length_le' (fun b => negb (Nat.eqb b x)) t).
    pose proof (total_len_remove_le x r). unfold remove_everywhere in H0.
    rewrite total_len_filter_ne in H0. cbn [length]. nlia.
  - specialize (IH H).
    pose proof (filter_length_le' (fun b => negb (Nat.eqb b x)) s). nlia.
Qed.

Lemma find_from_some cands seqs c :
  find_from cands seqs = Some c -> exists t, In (c :: t) cands.
Proof.
  induction cands as [|[|h t] r IH]; cbn; intros H; try discriminate.
  - destruct (IH H) as [t Ht]; eauto.
  - destruct (can_choose h seqs).
    + inversion H; subst; eauto.
    + destruct (IH H) as [t' Ht]; eauto.
Qed.

(* (a) the merge loop never runs out of fuel, whatever the sequences *)
Lemma merge_loop_fuel f : forall seqs acc, total_len seqs < f -> merge_loop f seqs acc <> MFuel.
Proof.
  induction f as [|f IH]; intros seqs acc H; [nlia|]. cbn.
  destruct seqs as [|s r]; [discriminate|].
  destruct (find_next (s :: r)) as [b|] eqn:F; [|discriminate].
  apply IH. destruct (find_from_some _ _ _ F) as [t Ht].
  pose proof (total_len_remove_lt _ _ _ Ht). nlia.
Qed.

Lemma c3_merge_fuel_enough seqs : c3_merge seqs <> MFuel.
Proof. unfold c3_merge. apply merge_loop_fuel. nlia. Qed.

(* ---- (c) on duplicate-free sequences the model's merge IS the textbook merge *)
Lemma can_choose_good c seqs :
  Forall (@NoDup nat) seqs -> can_choose c seqs = good c seqs.
Proof.
  unfold can_choose, good. induction 1 as [|s r Hs Hr IH]; cbn; auto.
  rewrite IH. f_equal. destruct s as [|h t]; cbn; auto.
  destruct (Nat.eqb h c) eqn:E.
  - apply Nat.eqb_eq in E; subst. inversion Hs; subst.
    symmetry. apply negb_true_iff. apply eqb_notIn; auto.
  - f_equal. rewrite Nat.eqb_sym, E. cbn.
    destruct (mem c t) eqn:M.
    + apply mem_In in M. symmetry. apply eqb_In; auto.
    + apply mem_notIn in M. symmetry. apply eqb_notIn; auto.
Qed.

Lemma find_from_pick cands seqs :
  Forall (@NoDup nat) seqs -> find_from cands seqs = pick_from cands seqs.
Proof.
  intros N. induction cands as [|[|h t] r IH]; cbn; auto.
  rewrite can_choose_good, IH; auto.
Qed.

Lemma remove_everywhere_pop c seqs :
  Forall (@NoDup nat) seqs -> good c seqs = true ->
  remove_everywhere c seqs = filter nonempty (map (pop c) seqs).
Proof.
  unfold remove_everywhere. intros N G. f_equal. rewrite good_spec in G.
  induction N as [|s r Hs Hr IH]; cbn [map]; auto.
  rewrite IH by (intros s' Hs'; apply G; cbn; auto). f_equal.
  assert (T : in_tail c s = false) by (apply G; cbn; auto).
  destruct s as [|h t]; cbn; auto. cbn in T. apply eqb_notIn in T.
  destruct (Nat.eqb h c) eqn:E; cbn.
  - apply filter_ne_id; auto.
  - f_equal. apply filter_ne_id; auto.
Qed.

Lemma Forall_NoDup_step c seqs :
  Forall (@NoDup nat) seqs -> Forall (@NoDup nat) (filter nonempty (map (pop c) seqs)).
Proof.
  intros N. apply Forall_forall. intros s Hs. apply filter_In in Hs. destruct Hs as [Hs _].
  apply in_map_iff in Hs. destruct Hs as (s0 & <- & H0). apply pop_NoDup.
  rewrite Forall_forall in N; auto.
Qed.

Definition lift (o : option (list nat)) : mres :=
  match o with Some l => MOk l | None => MBad end.

Lemma merge_loop_spec f : forall seqs acc,
  Forall (@NoDup nat) seqs -> filter nonempty seqs = seqs -> size seqs < f ->
  merge_loop f seqs acc =
  match merge_f f seqs with Some l => MOk (rev acc ++ l) | None => MBad end.
Proof.
  induction f as [|f IH]; intros seqs acc N NE Hf; [nlia|].
  destruct seqs as [|s r].
  - cbn. rewrite app_nil_r; auto.
  - assert (Hs : exists h t, s = h :: t).
    { destruct s as [|h t]; [|eauto]. cbn in NE.
      assert (In [] (filter nonempty r)) by (rewrite NE; cbn; auto).
      apply filter_In in H. destruct H; discriminate. }
    destruct Hs as (h & t & ->).
    cbn [merge_loop merge_f forallb is_nil andb].
    unfold find_next, pick. rewrite find_from_pick by auto.
    destruct (pick_from ((h :: t) :: r) ((h :: t) :: r)) as [c|] eqn:P; auto.
    destruct (pick_from_some _ _ _ P) as [[t' Ht'] G].
    rewrite remove_everywhere_pop by auto.
    pose proof (size_pop_lt _ _ _ Ht') as LT.
    rewrite IH.
    + rewrite merge_f_filter.
      destruct (merge_f f (map (pop c) ((h :: t) :: r))) as [l|]; cbn; auto.
      rewrite <- app_assoc. reflexivity.
    + apply Forall_NoDup_step; auto.
    + clear. induction (map (pop c) ((h :: t) :: r)) as [|[|a b] q IHq]; cbn; auto.
      rewrite IHq; auto.
    + rewrite size_filter. nlia.
Qed.

Lemma c3_merge_textbook seqs :
  Forall (@NoDup nat) seqs -> c3_merge seqs = lift (merge seqs).
Proof.
  intros N. unfold c3_merge. rewrite merge_loop_spec.
  - rewrite total_len_size. fold (merge (filter nonempty seqs)). rewrite merge_filter.
    destruct (merge seqs); reflexivity.
  - apply Forall_forall. intros s Hs. apply filter_In in Hs. destruct Hs.
    rewrite Forall_forall in N; auto.
  - clear. induction seqs as [|[|a b] q IHq]; cbn; auto. rewrite IHq; auto.
  - unfold total_len, size. nlia.
Qed.

(* (b) a successful model merge of duplicate-free sequences is a duplicate-free interleaving *)
Lemma c3_merge_sound seqs l :
  Forall (@NoDup nat) seqs -> c3_merge seqs = MOk l ->
  NoDup l /\ (forall y, In y l <-> exists s, In s seqs /\ In y s) /\
  (forall s, In s seqs -> Subseq s l).
Proof.
  intros N H. rewrite c3_merge_textbook in H by auto.
  destruct (merge seqs) as [l'|] eqn:M; inversion H; subst. apply merge_sound; auto.
Qed.

(* ------------------------------------------------------------------ concrete merges *)
Lemma Merge_one s : NoDup s -> Merge [s] s.
Proof.
  induction s as [|h t IH]; intros N.
  - apply Merge_done; reflexivity.
  - inversion N; subst. apply Merge_step.
    + reflexivity.
    + unfold pick; cbn. apply eqb_notIn in H1. rewrite H1. reflexivity.
    + cbn. rewrite Nat.eqb_refl. auto.
Qed.

Lemma merge_one s : NoDup s -> merge [s] = Some s.
Proof. intros; apply merge_iff_Merge, Merge_one; auto. Qed.

(* single inheritance: merge(L[b], [b]) = L[b] *)
Lemma merge_single b t : NoDup (b :: t) -> merge [b :: t; [b]] = Some (b :: t).
Proof.
  intros N. inversion N; subst. apply merge_iff_Merge. apply Merge_step.
  - reflexivity.
  - unfold pick; cbn. apply eqb_notIn in H1. rewrite H1. reflexivity.
  - cbn. rewrite !Nat.eqb_refl. apply merge_iff_Merge. rewrite <- merge_filter.
    destruct t as [|h t']; [reflexivity|]. cbn [filter nonempty]. apply merge_one; auto.
Qed.

Lemma pop_id x s : ~ In x s -> pop x s = s.
Proof.
  destruct s as [|h t]; cbn; auto. intros H. destruct (Nat.eqb h x) eqn:E; auto.
  apply Nat.eqb_eq in E. subst. tauto.
Qed.

(* a fresh head in front: merge([x], seqs…) = x :: merge(seqs…) *)
Lemma merge_front x seqs : (forall s, In s seqs -> ~ In x s) ->
  merge ([x] :: seqs) = option_map (cons x) (merge seqs).
Proof.
  intros H. unfold merge at 1. cbn [merge_f forallb is_nil andb].
  assert (G : good x seqs = true).
  { apply good_spec. intros s Hs. specialize (H s Hs). destruct s as [|h t]; cbn; auto.
    apply eqb_notIn. cbn in H. tauto. }
  unfold pick. cbn [pick_from good forallb in_tail existsb negb andb]. fold (good x seqs).
  rewrite G. cbn [map pop]. rewrite Nat.eqb_refl.
  assert (E : map (pop x) seqs = seqs).
  { clear G. induction seqs as [|s r IH]; cbn; auto. rewrite pop_id, IH; auto.
    - intros s' Hs'. apply H; cbn; auto.
    - apply H; cbn; auto. }
  rewrite E. rewrite merge_fuel.
  - rewrite merge_cons_nil. reflexivity.
  - rewrite !size_cons. cbn. lia.
Qed.

(* ------------------------------------------------------------------ all_some *)
Definition unwrap (F : nat -> option (list nat)) (b : nat) : list nat :=
  match F b with Some l => l | None => [] end.

Lemma all_some_map F bs ls : all_some (map F bs) = Some ls ->
  ls = map (unwrap F) bs /\ forall b, In b bs -> F b = Some (unwrap F b).
Proof.
  revert ls. induction bs as [|b r IH]; cbn; intros ls H.
  - inversion H; split; auto. intros b [].
  - destruct (F b) as [l|] eqn:E; [|discriminate].
    destruct (all_some (map F r)) as [r'|]; [|discriminate]. inversion H; subst.
    destruct (IH _ eq_refl) as [-> A]. split.
    + unfold unwrap at 2. rewrite E. auto.
    + intros b' [<-|Hb]; auto. unfold unwrap. rewrite E. auto.
Qed.

Lemma all_some_none (F : nat -> option (list nat)) bs : all_some (map F bs) = None -> exists b, In b bs /\ F b = None.
Proof.
  induction bs as [|b r IH]; cbn; [discriminate|].
  destruct (F b) as [l|] eqn:E; [|intros _; exists b; auto].
  destruct (all_some (map F r)) as [r'|]; [discriminate|]. intros _.
  destruct (IH eq_refl) as (b' & Hb & Hn). exists b'; auto.
Qed.

Lemma all_some_all (F : nat -> option (list nat)) bs : (forall b, In b bs -> F b <> None) ->
  all_some (map F bs) = Some (map (unwrap F) bs).
Proof.
  intros H. destruct (all_some (map F bs)) as [ls|] eqn:E.
  - apply all_some_map in E. destruct E as [-> _]. auto.
  - apply all_some_none in E. destruct E as (b & Hb & Hn). exfalso. eapply H; eauto.
Qed.

(* ------------------------------------------------------------------ hierarchies *)
Section Hier.
Variable B : nat -> list nat.
Variable rk : nat -> nat.
Hypothesis W : wf rk B.

Lemma Reach_rank x y : Reach B x y -> rk y <= rk x.
Proof.
  induction 1; auto. destruct (W x) as [_ R]. specialize (R _ H). lia.
Qed.

Lemma Reach_base_rank x b y : In b (B x) -> Reach B b y -> rk y < rk x.
Proof.
  intros Hb Hr. apply Reach_rank in Hr. destruct (W x) as [_ R]. specialize (R _ Hb). lia.
Qed.

Lemma Reach_inv x y : Reach B x y <-> y = x \/ exists b, In b (B x) /\ Reach B b y.
Proof.
  split.
  - inversion 1; subst; eauto.
  - intros [->|(b & Hb & Hr)]; [constructor|econstructor; eauto].
Qed.

Lemma Reach_trans x y z : Reach B x y -> Reach B y z -> Reach B x z.
Proof. induction 1; auto. intros. econstructor; eauto. Qed.

Lemma Lin_head x l : Lin B x l -> In x l.
Proof. intros [[t ->] _]. cbn; auto. Qed.

Lemma Lin_NoDup x l : Lin B x l -> NoDup l.
Proof. intros (_ & N & _); auto. Qed.

(* merging linearizations of the bases (and the base list) gives a linearization *)
Lemma merge_lin (M : nat -> list nat) x l :
  (forall b, In b (B x) -> Lin B b (M b)) ->
  merge (map M (B x) ++ [B x]) = Some l -> Lin B x (x :: l).
Proof.
  intros HM Hm. destruct (merge_sound _ _ Hm) as (ND & MEM & SUB).
  assert (SRC : forall y, In y l -> exists b, In b (B x) /\ In y (M b)).
  { intros y Hy. apply MEM in Hy. destruct Hy as (s & Hs & Hy).
    apply in_app_or in Hs. destruct Hs as [Hs|[<-|[]]].
    - apply in_map_iff in Hs. destruct Hs as (b & <- & Hb). eauto.
    - exists y; split; auto. apply (Lin_head _ _ (HM y Hy)). }
  assert (SUBM : forall b, In b (B x) -> Subseq (M b) l).
  { intros b Hb. apply SUB. apply in_or_app; left. apply in_map; auto. }
  split; [eauto|]. split; [|split].
  - constructor; auto. intros Hx. destruct (SRC _ Hx) as (b & Hb & Hy).
    destruct (HM b Hb) as (_ & _ & R & _). apply R in Hy.
    pose proof (Reach_base_rank _ _ _ Hb Hy). lia.
  - intros y; split.
    + intros [<-|Hy]; [constructor|]. destruct (SRC _ Hy) as (b & Hb & Hy').
      destruct (HM b Hb) as (_ & _ & R & _). econstructor; eauto. apply R; auto.
    + intros Hr. apply Reach_inv in Hr. destruct Hr as [->|(b & Hb & Hr)]; [left; auto|right].
      destruct (HM b Hb) as (_ & _ & R & _). apply R in Hr.
      eapply Subseq_In; [apply SUBM|]; eauto.
  - intros y b' [<-|Hy] Hb'.
    + apply Before_cons_head. apply MEM. exists (B x); split; auto.
      apply in_or_app; right; cbn; auto.
    + destruct (SRC _ Hy) as (b & Hb & Hy').
      destruct (HM b Hb) as (_ & _ & _ & O). specialize (O _ _ Hy' Hb').
      eapply Before_sub; [exact O|]. apply Subseq_skip. apply SUBM; auto.
Qed.

Lemma c3_lin_S f x : c3_lin B (S f) x =
  match all_some (map (c3_lin B f) (B x)) with
  | None => None
  | Some ls => option_map (cons x) (merge (ls ++ [B x]))
  end.
Proof. reflexivity. Qed.

(* any fuel above the rank gives the same answer: [None] means "no linearization" *)
Lemma c3_lin_fuel f1 : forall f2 x, rk x < f1 -> rk x < f2 -> c3_lin B f1 x = c3_lin B f2 x.
Proof.
  induction f1 as [|f1 IH]; intros f2 x H1 H2; [lia|]. destruct f2 as [|f2]; [lia|].
  rewrite !c3_lin_S.
  assert (E : map (c3_lin B f1) (B x) = map (c3_lin B f2) (B x)).
  { apply map_ext_in. intros b Hb. destruct (W x) as [_ R]. specialize (R _ Hb).
    apply IH; lia. }
  rewrite E. reflexivity.
Qed.

Lemma c3_lin_mono f : forall x l, c3_lin B f x = Some l -> c3_lin B (S f) x = Some l.
Proof.
  induction f as [|f IH]; intros x l H; [discriminate|].
  rewrite c3_lin_S in *.
  destruct (all_some (map (c3_lin B f) (B x))) as [ls|] eqn:E; [|discriminate].
  assert (E' : map (c3_lin B (S f)) (B x) = map (c3_lin B f) (B x)).
  { apply map_ext_in. intros b Hb. apply all_some_map in E. destruct E as [_ E].
    rewrite (E b Hb). apply IH. auto. }
  rewrite E', E. auto.
Qed.

(* the textbook C3 linearization is a valid linearization that keeps the local base order and
   every base's own linearization (monotonicity) *)
Lemma c3_lin_lin f : forall x l, c3_lin B f x = Some l ->
  Lin B x l /\ Subseq (B x) l /\
  forall b, In b (B x) -> exists lb, c3_lin B f b = Some lb /\ Subseq lb l.
Proof.
  induction f as [|f IH]; intros x l H; [discriminate|]. rewrite c3_lin_S in H.
  destruct (all_some (map (c3_lin B f) (B x))) as [ls|] eqn:E; [|discriminate].
  destruct (merge (ls ++ [B x])) as [l'|] eqn:M; [|discriminate]. inversion H; subst; clear H.
  apply all_some_map in E. destruct E as [-> E].
  destruct (merge_sound _ _ M) as (_ & _ & SUB).
  split; [|split].
  - eapply merge_lin; eauto. intros b Hb. apply (IH b). auto.
  - apply Subseq_skip. apply SUB. apply in_or_app; right; cbn; auto.
  - intros b Hb. exists (unwrap (c3_lin B f) b). split.
    + apply c3_lin_mono. auto.
    + apply Subseq_skip. apply SUB. apply in_or_app; left. apply in_map; auto.
Qed.
End Hier.

(* ------------------------------------------------------------------ legacy order (d) *)
Lemma app_split_mid (a c l1 l2 : list nat) y : a ++ c = l1 ++ y :: l2 ->
  (exists c2, a = l1 ++ y :: c2 /\ l2 = c2 ++ c) \/ (exists l1', l1 = a ++ l1' /\ c = l1' ++ y :: l2).
Proof.
  revert l1. induction a as [|h a IH]; intros l1 E.
  - right. exists l1; auto.
  - destruct l1 as [|h1 l1]; cbn in E; inversion E; subst.
    + left. exists a; auto.
    + destruct (IH _ H1) as [(c2 & -> & ->)|(l1' & -> & ->)].
      * left. exists c2; auto.
      * right. exists l1'; auto.
Qed.

Lemma flat_map_split (F : nat -> list nat) bs l1 y l2 : flat_map F bs = l1 ++ y :: l2 ->
  exists b c1 c2, In b bs /\ F b = c1 ++ y :: c2 /\ forall z, In z c2 -> In z l2.
Proof.
  revert l1. induction bs as [|b r IH]; cbn; intros l1 E.
  - destruct l1; discriminate.
  - apply app_split_mid in E. destruct E as [(c2 & E1 & ->)|(l1' & -> & E2)].
    + exists b, l1, c2. split; auto. split; auto. intros z Hz. apply in_or_app; auto.
    + destruct (IH _ E2) as (b' & c1 & c2 & Hb & E & S). exists b', c1, c2. auto.
Qed.

(* every occurrence of [y] is followed by an occurrence of [b] *)
Definition Followed (l : list nat) (y b : nat) : Prop :=
  forall l1 l2, l = l1 ++ y :: l2 -> In b l2.

Lemma keep_last_In y l : In y (keep_last l) <-> In y l.
Proof.
  induction l as [|h t IH]; cbn; [tauto|]. destruct (mem h t) eqn:M.
  - rewrite IH. split; auto. intros [<-|H]; auto. apply mem_In; auto.
  - cbn. rewrite IH. tauto.
Qed.

Lemma keep_last_NoDup l : NoDup (keep_last l).
Proof.
  induction l as [|h t IH]; cbn; [constructor|]. destruct (mem h t) eqn:M; auto.
  constructor; auto. rewrite keep_last_In. apply mem_notIn; auto.
Qed.

Lemma keep_last_before l : forall y b, In y l -> Followed l y b -> Before (keep_last l) y b.
Proof.
  induction l as [|h t IH]; intros y b Hy F; [destruct Hy|].
  assert (Ft : Followed t y b).
  { intros l1 l2 E. apply (F (h :: l1) l2). rewrite E. reflexivity. }
  cbn. destruct (mem h t) eqn:M.
  - apply IH; auto. destruct Hy as [<-|Hy]; auto. apply mem_In; auto.
  - destruct (Nat.eq_dec h y) as [->|N].
    + apply Before_cons_head. apply keep_last_In. apply (F [] t). reflexivity.
    + destruct Hy as [Hy|Hy]; [congruence|].
      eapply Before_sub; [apply IH; eauto|]. apply Subseq_skip, Subseq_refl.
Qed.

Section Graph.
Variable g : graph.
Variable rk : nat -> nat.
Hypothesis W : wf rk (bases g).
Let B := bases g.

Lemma flatten_head f x : exists t, legacy_flatten f g x = x :: t.
Proof. destruct f; cbn; eauto. Qed.

Lemma flatten_In f : forall x y, rk x < f -> (In y (legacy_flatten f g x) <-> Reach B x y).
Proof.
  induction f as [|f IH]; intros x y H; [lia|]. cbn. split.
  - intros [<-|Hy]; [constructor|]. apply in_flat_map in Hy. destruct Hy as (b & Hb & Hy).
    destruct (W x) as [_ R]. specialize (R _ Hb). apply IH in Hy; [|lia]. econstructor; eauto.
  - intros Hr. apply Reach_inv in Hr. destruct Hr as [->|(b & Hb & Hr)]; auto. right.
    apply in_flat_map. exists b; split; auto. destruct (W x) as [_ R]. specialize (R _ Hb).
    apply IH; auto. lia.
Qed.

Lemma flatten_followed f : forall x, rk x < f -> forall y b, In b (B y) ->
  Followed (legacy_flatten f g x) y b.
Proof.
  induction f as [|f IH]; intros x H y b Hb l1 l2 E; [lia|]. cbn in E.
  destruct l1 as [|h l1]; cbn in E; inversion E; subst; clear E.
  - apply in_flat_map. exists b; split; auto. destruct (flatten_head f b) as [t ->]. cbn; auto.
  - apply flat_map_split in H2. destruct H2 as (b' & c1 & c2 & Hb' & E & S).
    apply S. destruct (W h) as [_ R]. specialize (R _ Hb').
    eapply (IH b'); eauto. lia.
Qed.

(* the legacy order (keep-last depth-first preorder) is a valid linearization *)
Lemma legacy_lin f x : rk x < f -> Lin B x (legacy_ro f g x).
Proof.
  intros H. unfold legacy_ro.
  assert (HD : exists t, keep_last (legacy_flatten f g x) = x :: t).
  { destruct f as [|f]; [lia|]. cbn [legacy_flatten keep_last].
    destruct (mem x (flat_map (legacy_flatten f g) (bases g x))) eqn:M; eauto.
    apply mem_In in M. apply in_flat_map in M. destruct M as (b & Hb & Hx).
    destruct (W x) as [_ R]. pose proof (R _ Hb). apply flatten_In in Hx; [|lia].
    apply (Reach_rank _ _ W) in Hx. lia. }
  split; auto. split; [apply keep_last_NoDup|]. split.
  - intros y. rewrite keep_last_In. apply flatten_In; auto.
  - intros y b Hy Hb. apply -> keep_last_In in Hy. apply keep_last_before; auto.
    apply flatten_followed; auto.
Qed.
End Graph.

(* ------------------------------------------------------------------ root_last (e) *)
Lemma last_is_true root l : last_is root l = true <-> exists l', l = l' ++ [root].
Proof.
  unfold last_is. split.
  - destruct (rev l) as [|y r] eqn:E; [discriminate|]. intros H. apply Nat.eqb_eq in H; subst.
    exists (rev r). rewrite <- (rev_involutive l), E. reflexivity.
  - intros [l' ->]. rewrite rev_app_distr. cbn. apply Nat.eqb_refl.
Qed.

Lemma root_last_id root l' : root_last root (l' ++ [root]) = l' ++ [root].
Proof.
  unfold root_last. assert (E : last_is root (l' ++ [root]) = true) by (apply last_is_true; eauto).
  rewrite E. destruct (l' ++ [root]); auto.
Qed.

Lemma root_last_ends root l : l <> [] -> exists l', root_last root l = l' ++ [root].
Proof.
  intros N. unfold root_last. destruct l as [|h t]; [congruence|].
  destruct (last_is root (h :: t)) eqn:E; [apply last_is_true; auto|eauto].
Qed.

Definition not_root (root : nat) := fun y : nat => negb (Nat.eqb y root).

Lemma filter_filter (p : nat -> bool) l : filter p (filter p l) = filter p l.
Proof. induction l as [|h t IH]; cbn; auto. destruct (p h) eqn:E; cbn; rewrite ?E, IH; auto. Qed.

(* everything but the root keeps its relative order *)
Lemma root_last_others root l :
  filter (not_root root) (root_last root l) = filter (not_root root) l.
Proof.
  unfold root_last, node in *. destruct l as [|h t]; auto. cbv beta iota.
  destruct (last_is root (h :: t)); auto.
  rewrite filter_app. fold (not_root root). rewrite filter_filter.
  replace (filter (not_root root) [root]) with (@nil nat); [apply app_nil_r|].
  cbn. unfold not_root. rewrite Nat.eqb_refl. reflexivity.
Qed.

Lemma root_last_In root l y : l <> [] -> (In y (root_last root l) <-> In y l \/ y = root).
Proof.
  intros N. unfold root_last. destruct l as [|h t]; [congruence|].
  destruct (last_is root (h :: t)) eqn:E.
  - apply last_is_true in E. destruct E as [l' E]. rewrite E. split; auto.
    intros [H| ->]; auto. apply in_or_app; right; cbn; auto.
  - rewrite in_app_iff, filter_In, negb_true_iff, Nat.eqb_neq. cbn [In].
    destruct (Nat.eq_dec y root); split; intuition.
Qed.

Lemma NoDup_snoc (l : list nat) z : NoDup l -> ~ In z l -> NoDup (l ++ [z]).
Proof.
  induction l as [|h t IH]; cbn; intros N H.
  - constructor; auto.
  - inversion N; subst. constructor.
    + rewrite in_app_iff. cbn. intuition.
    + apply IH; auto.
Qed.

Lemma root_last_NoDup root l : NoDup l -> NoDup (root_last root l).
Proof.
  intros N. unfold root_last. destruct l as [|h t]; auto.
  destruct (last_is root (h :: t)); auto. apply NoDup_snoc.
  - apply NoDup_filter; auto.
  - rewrite filter_In, negb_true_iff, Nat.eqb_neq. tauto.
Qed.

(* ------------------------------------------------------------------ one C3 object (f) *)
Section Node.
Variable B : nat -> list nat.
Variable rk : nat -> nat.
Hypothesis W : wf rk B.

Lemma node_merge x (M : nat -> list nat) :
  (forall b, In b (B x) -> Lin B b (M b)) ->
  c3_merge ([[x]] ++ map M (B x) ++ [B x]) =
  lift (option_map (cons x) (merge (map M (B x) ++ [B x]))).
Proof.
  intros HM. rewrite c3_merge_textbook.
  - cbn [app]. rewrite merge_front; auto.
    intros s Hs Hx. apply in_app_or in Hs. destruct Hs as [Hs|[<-|[]]].
    + apply in_map_iff in Hs. destruct Hs as (b & <- & Hb).
      destruct (HM b Hb) as (_ & _ & R & _). apply R in Hx.
      pose proof (Reach_base_rank _ _ W _ _ _ Hb Hx). lia.
    + destruct (W x) as [_ R]. specialize (R _ Hx). lia.
  - cbn [app]. constructor; [constructor; [intros []|constructor]|].
    apply Forall_app. split.
    + apply Forall_forall. intros s Hs. apply in_map_iff in Hs. destruct Hs as (b & <- & Hb).
      eapply Lin_NoDup; eauto.
    + constructor; auto. destruct (W x); auto.
Qed.

(* the single-base short cut computes what the merge would compute; in general one C3 object
   answers [x :: merge(orders of the bases, bases)] or falls back / raises when that fails *)
Lemma c3_node_spec strict x (M : nat -> list nat) inc legacy :
  (forall b, In b (B x) -> Lin B b (M b)) ->
  c3_node strict x (B x) (map M (B x)) inc legacy =
  match merge (map M (B x) ++ [B x]) with
  | Some l' => ROk (x :: l') inc
  | None => if strict then RRaise else ROk legacy true
  end.
Proof.
  intros HM. pose proof (node_merge x M HM) as NM. unfold c3_node. unfold node in *.
  destruct (B x) as [|b1 [|b2 r]] eqn:E; cbn [map] in *.
  - rewrite NM. destruct (merge ([] ++ [[]])); reflexivity.
  - destruct (HM b1 (or_introl eq_refl)) as ([t Ht] & N & _). rewrite Ht in *.
    cbn [app]. rewrite merge_single; auto.
  - rewrite NM. destruct (merge ((M b1 :: M b2 :: map M r) ++ [b1 :: b2 :: r])); reflexivity.
Qed.
End Node.

(* ------------------------------------------------------------------ the resolver *)
Definition mro_of (r : rres) : list nat := match r with ROk m _ => m | _ => [] end.
Definition inc_of (r : rres) : bool := match r with ROk _ i => i | _ => false end.

Lemma collect_map (R : nat -> rres) bs :
  (forall b, In b bs -> exists m i, R b = ROk m i) ->
  collect (map R bs) = inl (map (fun b => mro_of (R b)) bs, existsb (fun b => inc_of (R b)) bs).
Proof.
  induction bs as [|b r IH]; intros H; cbn; auto.
  destruct (H b (or_introl eq_refl)) as (m & i & E). rewrite E. cbn.
  rewrite IH; auto. intros b' Hb'. apply H; cbn; auto.
Qed.

Lemma collect_raise (R : nat -> rres) bs :
  (forall b, In b bs -> R b = RRaise \/ exists m i, R b = ROk m i) ->
  (exists b, In b bs /\ R b = RRaise) -> collect (map R bs) = inr RRaise.
Proof.
  induction bs as [|b r IH]; intros H (b0 & Hb0 & E0); [destruct Hb0|]. cbn.
  destruct (H b (or_introl eq_refl)) as [E|(m & i & E)]; rewrite E; auto.
  rewrite IH; auto.
  - intros b' Hb'. apply H; cbn; auto.
  - destruct Hb0 as [<-|Hb0]; [congruence|eauto].
Qed.

Lemma all_some_has_none (F : nat -> option (list nat)) bs b :
  In b bs -> F b = None -> all_some (map F bs) = None.
Proof.
  induction bs as [|h r IH]; cbn; [tauto|]. intros [->|Hb] E.
  - rewrite E; auto.
  - destruct (F h); auto. rewrite IH; auto.
Qed.

Section Resolver.
Variable g : graph.
Variable rk : nat -> nat.
Hypothesis W : wf rk (bases g).
Let B := bases g.

Lemma resolve_S strict f x : resolve strict (S f) g x =
  match collect (map (resolve strict f g) (bases g x)) with
  | inl (ms, is) => c3_node strict x (bases g x) ms is (legacy_ro (S f) g x)
  | inr r => r
  end.
Proof. reflexivity. Qed.

(* non-strict: always an order, always a valid linearization; the flag is clear exactly when the
   textbook C3 linearization exists, and then the order is that linearization *)
Lemma resolve_nonstrict f : forall x, rk x < f ->
  exists m i, resolve false f g x = ROk m i /\ Lin B x m /\
              (if i then c3_lin B f x = None else c3_lin B f x = Some m).
Proof.
  induction f as [|f IH]; intros x H; [lia|].
  set (R := resolve false f g). set (M := fun b => mro_of (R b)). set (I := fun b => inc_of (R b)).
  assert (HB : forall b, In b (B x) -> R b = ROk (M b) (I b) /\ Lin B b (M b) /\
                 (if I b then c3_lin B f b = None else c3_lin B f b = Some (M b))).
  { intros b Hb. destruct (W x) as [_ Rk]. specialize (Rk _ Hb).
    destruct (IH b) as (m & i & E & L & C); [lia|]. unfold M, I, R. rewrite E. cbn. auto. }
  rewrite resolve_S. fold R. rewrite collect_map by (intros b Hb; destruct (HB b Hb) as (E & _); eauto).
  change (fun b : nat => mro_of (R b)) with M. change (fun b : nat => inc_of (R b)) with I.
  fold B. rewrite (c3_node_spec B rk W) by (intros b Hb; apply HB; auto).
  rewrite c3_lin_S. fold B. unfold node in *.
  destruct (existsb I (B x)) eqn:EI.
  - (* some base is inconsistent *)
    apply existsb_exists in EI. destruct EI as (b & Hb & Ib).
    destruct (HB b Hb) as (_ & _ & C). rewrite Ib in C.
    rewrite (all_some_has_none _ _ _ Hb C).
    destruct (merge (map M (B x) ++ [B x])) as [l'|] eqn:Mg.
    + exists (x :: l'), true. split; auto. split; auto.
      eapply merge_lin; eauto. intros b' Hb'. apply HB; auto.
    + exists (legacy_ro (S f) g x), true. split; auto. split; auto. apply (legacy_lin g rk W); auto.
  - assert (AS : all_some (map (c3_lin B f) (B x)) = Some (map M (B x))).
    { rewrite all_some_all.
      - f_equal. apply map_ext_in. intros b Hb. destruct (HB b Hb) as (_ & _ & C).
        assert (Ib : I b = false).
        { destruct (I b) eqn:Ib; auto.
          assert (existsb I (B x) = true) by (apply existsb_exists; eauto). congruence. }
        rewrite Ib in C. unfold unwrap. rewrite C. auto.
      - intros b Hb. destruct (HB b Hb) as (_ & _ & C).
        assert (Ib : I b = false).
        { destruct (I b) eqn:Ib; auto.
          assert (existsb I (B x) = true) by (apply existsb_exists; eauto). congruence. }
        rewrite Ib in C. congruence. }
    rewrite AS.
    destruct (merge (map M (B x) ++ [B x])) as [l'|] eqn:Mg.
    + exists (x :: l'), false. split; auto. split; auto.
      eapply merge_lin; eauto. intros b' Hb'. apply HB; auto.
    + exists (legacy_ro (S f) g x), true. split; auto. split; auto. apply (legacy_lin g rk W); auto.
Qed.

(* strict: the C3 linearization, or the error when there is none *)
Lemma resolve_strict f : forall x, rk x < f ->
  resolve true f g x = match c3_lin B f x with Some l => ROk l false | None => RRaise end.
Proof.
  induction f as [|f IH]; intros x H; [lia|].
  set (R := resolve true f g).
  assert (HB : forall b, In b (B x) ->
                 R b = match c3_lin B f b with Some l => ROk l false | None => RRaise end).
  { intros b Hb. destruct (W x) as [_ Rk]. specialize (Rk _ Hb). apply IH. lia. }
  rewrite resolve_S, c3_lin_S. fold R. fold B. unfold node in *.
  destruct (all_some (map (c3_lin B f) (B x))) as [ls|] eqn:AS.
  - apply all_some_map in AS. destruct AS as [-> AS].
    rewrite collect_map.
    2:{ intros b Hb. rewrite (HB b Hb), (AS b Hb). eauto. }
    assert (E1 : map (fun b => mro_of (R b)) (B x) = map (unwrap (c3_lin B f)) (B x)).
    { apply map_ext_in. intros b Hb. rewrite (HB b Hb), (AS b Hb). reflexivity. }
    assert (E2 : existsb (fun b => inc_of (R b)) (B x) = false).
    { apply not_true_is_false. intros E. apply existsb_exists in E. destruct E as (b & Hb & E).
      rewrite (HB b Hb), (AS b Hb) in E. discriminate. }
    rewrite E1, E2.
    rewrite (c3_node_spec B rk W).
    + destruct (merge (map (unwrap (c3_lin B f)) (B x) ++ [B x])); reflexivity.
    + intros b Hb. apply (c3_lin_lin B rk W f). apply AS; auto.
  - apply all_some_none in AS. rewrite collect_raise; auto.
    intros b Hb. rewrite (HB b Hb). destruct (c3_lin B f b); eauto.
    destruct AS as (b & Hb & E). exists b; split; auto. rewrite (HB b Hb), E. auto.
Qed.

Lemma resolve_eq_c3 strict f x l : rk x < f -> c3_lin B f x = Some l ->
  resolve strict f g x = ROk l false.
Proof.
  intros H C. destruct strict.
  - rewrite resolve_strict, C; auto.
  - destruct (resolve_nonstrict f x H) as (m & i & E & _ & Ci). destruct i; congruence.
Qed.
End Resolver.

(* ------------------------------------------------------------------ __sro__ (rooted hierarchy) *)
Section Sro.
Variable g : graph.
Variable rk : nat -> nat.
Variable root : nat.
Hypothesis W : wf rk (bases g).
Hypothesis R0 : bases g root = [].
Let B := bases g.
Let Br := rooted root (bases g).
Definition rk_rooted (x : nat) : nat := if Nat.eqb x root then 0 else S (rk x).

Lemma Br_root : Br root = [].
Proof. unfold Br, rooted. rewrite Nat.eqb_refl. auto. Qed.

Lemma Br_nonroot x : x <> root -> Br x = match B x with [] => [root] | bs => bs end.
Proof. intros N. unfold Br, rooted. apply Nat.eqb_neq in N. rewrite N. auto. Qed.

Lemma Br_nonempty x : x <> root -> Br x <> [].
Proof. intros N. rewrite Br_nonroot by auto. destruct (B x); discriminate. Qed.

Lemma Br_bases x : B x <> [] -> Br x = B x.
Proof.
  intros N. assert (x <> root) by (intros ->; unfold B in N; rewrite R0 in N; congruence).
  rewrite Br_nonroot by auto. destruct (B x); congruence.
Qed.

Lemma Br_in x b : In b (Br x) -> b = root \/ In b (B x).
Proof.
  destruct (Nat.eq_dec x root) as [->|N]; [rewrite Br_root; intros []|].
  rewrite Br_nonroot by auto. destruct (B x); cbn; intuition.
Qed.

Lemma B_in_Br x b : In b (B x) -> In b (Br x).
Proof. intros H. rewrite Br_bases; auto. intros E. rewrite E in H. destruct H. Qed.

Lemma wf_rooted : wf rk_rooted Br.
Proof.
  intros x. destruct (Nat.eq_dec x root) as [->|N].
  - rewrite Br_root. split; [constructor|intros b []].
  - rewrite Br_nonroot by auto. unfold rk_rooted. apply Nat.eqb_neq in N. rewrite N.
    destruct (W x) as [ND Rk]. fold B in ND, Rk. destruct (B x) as [|b1 r].
    + split; [constructor; [intros []|constructor]|]. intros b [<-|[]]. rewrite Nat.eqb_refl. lia.
    + split; auto. intros b Hb. specialize (Rk b Hb). destruct (Nat.eqb b root); lia.
Qed.

Lemma Reach_root_only y : Reach Br root y -> y = root.
Proof. inversion 1; auto. rewrite Br_root in H0. destruct H0. Qed.

Lemma reach_root n : forall x, rk x < n -> Reach Br x root.
Proof.
  induction n as [|n IH]; intros x H; [lia|].
  destruct (Nat.eq_dec x root) as [->|N]; [constructor|].
  pose proof (Br_nonempty x N) as NE. destruct (Br x) as [|b r] eqn:E; [congruence|].
  assert (Hb : In b (Br x)) by (rewrite E; cbn; auto).
  destruct (Br_in _ _ Hb) as [->|Hb'].
  - econstructor; eauto. constructor.
  - destruct (W x) as [_ Rk]. specialize (Rk _ Hb'). econstructor; eauto. apply IH. lia.
Qed.

Lemma Reach_rooted x y : x <> root -> (Reach Br x y <-> Reach B x y \/ y = root).
Proof.
  intros N. split.
  - intros H. revert N. induction H; intros N; [left; constructor|].
    destruct (Nat.eq_dec b root) as [->|Nb].
    + right. apply Reach_root_only; auto.
    + destruct (IHReach Nb) as [Hr|Hr]; auto. left.
      destruct (Br_in _ _ H) as [->|Hb]; [congruence|]. econstructor; eauto.
  - intros [H| ->].
    + clear N. induction H; [constructor|]. econstructor; eauto. apply B_in_Br; auto.
    + apply (reach_root (S (rk x))). lia.
Qed.

(* in the rooted hierarchy every linearization ends with the root *)
Lemma lin_rooted_last x l : Lin Br x l -> exists l', l = l' ++ [root].
Proof.
  intros ([t Ht] & ND & MEM & ORD).
  assert (NE : l <> []) by (rewrite Ht; discriminate).
  destruct (exists_last NE) as (l' & z & ->). exists l'.
  destruct (Nat.eq_dec z root) as [->|N]; auto. exfalso.
  pose proof (Br_nonempty z N) as NB. destruct (Br z) as [|b r] eqn:E; [congruence|].
  assert (Hz : In z (l' ++ [z])) by (apply in_or_app; right; cbn; auto).
  assert (Hb : In b (Br z)) by (rewrite E; cbn; auto).
  specialize (ORD z b Hz Hb). apply Before_Subseq in ORD. apply Subseq_last_notin in ORD.
  apply NoDup_remove_2 in ND. rewrite app_nil_r in ND. auto.
Qed.

(* "a linearization of the rooted hierarchy, the root's own position ignored" *)
Definition QLin (x : nat) (m : list nat) : Prop :=
  (exists t, m = x :: t) /\ NoDup m /\
  (forall y, In y m \/ y = root <-> Reach Br x y) /\
  (forall y b, In y m -> In b (Br y) -> b <> root -> Before m y b).

Lemma Lin_Br_QLin x m : Lin Br x m -> QLin x m.
Proof.
  intros (HD & ND & MEM & ORD). split; auto. split; auto. split; auto.
  intros y. rewrite MEM. split; [|auto]. intros [H| ->]; auto.
  destruct (Nat.eq_dec x root) as [->|N]; [constructor|]. apply Reach_rooted; auto.
Qed.

Lemma Lin_B_QLin x m : x <> root -> Lin B x m -> QLin x m.
Proof.
  intros N (HD & ND & MEM & ORD). split; auto. split; auto. split.
  - intros y. rewrite MEM. symmetry. apply Reach_rooted; auto.
  - intros y b Hy Hb Nb. apply ORD; auto. destruct (Br_in _ _ Hb); [congruence|auto].
Qed.

Lemma filter_not_root_In y l : In y (filter (not_root root) l) <-> In y l /\ y <> root.
Proof. rewrite filter_In. unfold not_root. rewrite negb_true_iff, Nat.eqb_neq. tauto. Qed.

Lemma root_last_lin x m : x <> root -> QLin x m -> Lin Br x (root_last root m).
Proof.
  intros N ([t Ht] & ND & MEM & ORD).
  assert (NE : m <> []) by (rewrite Ht; discriminate).
  assert (NR : forall y b, In b (Br y) -> y <> root).
  { intros y b Hb ->. rewrite Br_root in Hb. destruct Hb. }
  destruct (last_is root m) eqn:LI.
  - apply last_is_true in LI. destruct LI as [l' El]. rewrite El, root_last_id. rewrite <- El.
    split; [eauto|]. split; auto. split.
    + intros y. rewrite <- MEM. split; auto. intros [H| ->]; auto.
      rewrite El. apply in_or_app; right; cbn; auto.
    + intros y b Hy Hb. destruct (Nat.eq_dec b root) as [->|Nb]; [|apply ORD; auto].
      pose proof (NR _ _ Hb) as Ny. rewrite El in Hy |- *.
      apply in_app_or in Hy. destruct Hy as [Hy|[Hy|[]]]; [|congruence].
      apply in_split in Hy. destruct Hy as (l1 & l2 & ->).
      exists l1, l2, []. rewrite <- !app_assoc. reflexivity.
  - assert (E : root_last root m = filter (not_root root) m ++ [root]).
    { unfold root_last. rewrite LI. destruct m; [congruence|reflexivity]. }
    rewrite E. split; [|split; [|split]].
    + rewrite Ht. cbn. unfold not_root at 1. apply Nat.eqb_neq in N. rewrite N. cbn. eauto.
    + apply NoDup_snoc; [apply NoDup_filter; auto|]. rewrite filter_not_root_In. tauto.
    + intros y. rewrite <- MEM, in_app_iff, filter_not_root_In. cbn [In].
      destruct (Nat.eq_dec y root); intuition.
    + intros y b Hy Hb. pose proof (NR _ _ Hb) as Ny.
      apply in_app_or in Hy. destruct Hy as [Hy|[Hy|[]]]; [|congruence].
      destruct (Nat.eq_dec b root) as [->|Nb].
      * apply in_split in Hy. destruct Hy as (l1 & l2 & ->).
        exists l1, l2, []. rewrite <- !app_assoc. reflexivity.
      * apply filter_not_root_In in Hy. destruct Hy as [Hy _].
        specialize (ORD y b Hy Hb Nb). apply Before_Subseq in ORD. apply Before_Subseq.
        apply Subseq_app_r.
        apply (Subseq_filter (not_root root)) in ORD. cbn [filter] in ORD. unfold not_root at 1 2 in ORD.
        apply Nat.eqb_neq in Ny, Nb. rewrite Ny, Nb in ORD. exact ORD.
Qed.

Lemma fresh_sro_S f x : fresh_sro (S f) root g x =
  match calc_sro false root (S f) g (fresh_sro f root g) x with ROk m _ => m | _ => [] end.
Proof. reflexivity. Qed.

(* every __sro__ is a valid linearization of the rooted hierarchy (consistent or not) *)
Lemma fresh_sro_lin f : forall x, rk x < f -> Lin Br x (fresh_sro f root g x).
Proof.
  induction f as [|f IH]; intros x H; [lia|]. rewrite fresh_sro_S. unfold calc_sro.
  destruct (Nat.eqb x root) eqn:Ex.
  - apply Nat.eqb_eq in Ex. subst. split; [eauto|]. split; [constructor; [intros []|constructor]|].
    split.
    + intros y. split.
      * intros [<-|[]]. constructor.
      * intros Hr. apply Reach_root_only in Hr. cbn; auto.
    + intros y b [<-|[]]. rewrite Br_root. intros [].
  - apply Nat.eqb_neq in Ex. set (M := fresh_sro f root g).
    assert (HM : forall b, In b (B x) -> Lin Br b (M b)).
    { intros b Hb. destruct (W x) as [_ Rk]. specialize (Rk _ Hb). apply IH. lia. }
    fold B. destruct (B x) as [|b1 r] eqn:EB.
    + (* no declared base: [x] then the root appended *)
      assert (E : c3_node false x [] (map M []) false (legacy_ro (S f) g x) = ROk [x] false).
      { unfold c3_node. cbn [map]. rewrite c3_merge_textbook.
        - cbn [app]. rewrite merge_front by (intros s [<-|[]] []). reflexivity.
        - repeat constructor; intros []. }
      rewrite E. apply root_last_lin; auto. split; [eauto|].
      split; [constructor; [intros []|constructor]|]. split.
      * intros y. rewrite Reach_rooted by auto. split.
        -- intros [[<-|[]]| ->]; auto. left; constructor.
        -- intros [Hr| ->]; auto. inversion Hr; subst; cbn; auto.
           fold B in H0. rewrite EB in H0. destruct H0.
      * intros y b [<-|[]] Hb Nb. rewrite Br_nonroot, EB in Hb by auto.
        destruct Hb as [<-|[]]. congruence.
    + assert (EBr : Br x = B x) by (apply Br_bases; rewrite EB; discriminate).
      rewrite <- EB in HM |- *. rewrite <- EBr.
      rewrite (c3_node_spec Br rk_rooted wf_rooted) by (intros b Hb; apply HM; rewrite <- EBr; auto).
      unfold node in *.
      destruct (merge (map M (Br x) ++ [Br x])) as [l'|] eqn:Mg.
      * apply root_last_lin; auto. apply Lin_Br_QLin.
        eapply (merge_lin Br rk_rooted wf_rooted); eauto.
        intros b Hb; apply HM; rewrite <- EBr; auto.
      * apply root_last_lin; auto. apply Lin_B_QLin; auto. apply (legacy_lin g rk W); auto.
Qed.

Lemma fresh_sro_valid f x : rk x < f -> ValidLin Br root x (fresh_sro f root g x).
Proof.
  intros H. pose proof (fresh_sro_lin f x H) as L. split; auto. eapply lin_rooted_last; eauto.
Qed.

(* whenever the rooted hierarchy has a C3 linearization, __sro__ is that linearization *)
Lemma fresh_sro_eq_c3 f : forall x f' l, rk x < f -> c3_lin Br f' x = Some l ->
  fresh_sro f root g x = l.
Proof.
  induction f as [|f IH]; intros x f' l H C; [lia|].
  destruct f' as [|f']; [discriminate|]. rewrite (c3_lin_S Br) in C.
  rewrite fresh_sro_S. unfold calc_sro.
  destruct (Nat.eqb x root) eqn:Ex.
  - apply Nat.eqb_eq in Ex. subst. rewrite Br_root in C. cbn in C. inversion C; reflexivity.
  - apply Nat.eqb_neq in Ex. set (M := fresh_sro f root g).
    destruct (all_some (map (c3_lin Br f') (Br x))) as [ls|] eqn:AS; [|discriminate].
    apply all_some_map in AS. destruct AS as [-> AS].
    destruct (merge (map (unwrap (c3_lin Br f')) (Br x) ++ [Br x])) as [l'|] eqn:Mg; [|discriminate].
    inversion C; subst; clear C.
    fold B. destruct (B x) as [|b1 r] eqn:EB.
    + assert (E : c3_node false x [] (map M []) false (legacy_ro (S f) g x) = ROk [x] false).
      { unfold c3_node. cbn [map]. rewrite c3_merge_textbook.
        - cbn [app]. rewrite merge_front by (intros s [<-|[]] []). reflexivity.
        - repeat constructor; intros []. }
      rewrite E. rewrite Br_nonroot, EB in Mg, AS by auto.
      assert (Cr : c3_lin Br f' root = Some [root]).
      { specialize (AS root (or_introl eq_refl)). destruct f' as [|f'']; [discriminate|].
        rewrite (c3_lin_S Br), Br_root. reflexivity. }
      cbn [map app] in Mg. unfold unwrap in Mg. rewrite Cr in Mg.
      rewrite merge_single in Mg by (constructor; [intros []|constructor]).
      inversion Mg; subst. unfold root_last, last_is. cbn.
      apply Nat.eqb_neq in Ex. rewrite Ex. reflexivity.
    + assert (EBr : Br x = B x) by (apply Br_bases; rewrite EB; discriminate).
      assert (EM : map M (Br x) = map (unwrap (c3_lin Br f')) (Br x)).
      { apply map_ext_in. intros b Hb. rewrite EBr in Hb. destruct (W x) as [_ Rk].
        specialize (Rk _ Hb). eapply IH; [lia|]. apply AS. rewrite EBr; auto. }
      rewrite <- EB. rewrite <- EBr.
      rewrite (c3_node_spec Br rk_rooted wf_rooted).
      * unfold node in *. rewrite EM, Mg.
        assert (L : Lin Br x (x :: l')).
        { eapply (merge_lin Br rk_rooted wf_rooted); eauto. intros b Hb.
          apply (c3_lin_lin Br rk_rooted wf_rooted f'). apply AS; auto. }
        destruct (lin_rooted_last _ _ L) as [l0 ->]. apply root_last_id.
      * intros b Hb. rewrite EBr in Hb. destruct (W x) as [_ Rk]. specialize (Rk _ Hb).
        apply fresh_sro_lin. lia.
Qed.
End Sro.

(* ------------------------------------------------------------------ boolean well-formedness *)
Lemma wfb_wf rk g : wfb rk g = true -> wf rk (bases g).
Proof.
  induction g as [|[y bs] g IH]; cbn [wfb forallb fst snd bases]; intros H x.
  - split; [constructor|intros b []].
  - apply andb_true_iff in H. destruct H as [H1 H2]. apply andb_true_iff in H1. destruct H1 as [N R].
    destruct (Nat.eqb x y) eqn:E.
    + apply Nat.eqb_eq in E. subst. split; [apply nodup_b_NoDup; auto|].
      intros b Hb. rewrite forallb_forall in R. apply Nat.ltb_lt. apply R; auto.
    + apply (IH H2 x).
Qed.

(* ------------------------------------------------------------------ statements used by Properties/C03.v *)
Lemma merge_eq_textbook_thm seqs : Forall (@NoDup nat) seqs ->
  c3_merge seqs = match merge seqs with Some l => MOk l | None => MBad end.
Proof. apply c3_merge_textbook. Qed.

Lemma ro_eq_c3_thm rk g x fuel l : wfb rk g = true -> rk x < fuel ->
  c3_lin (bases g) fuel x = Some l -> forall strict, ro strict false fuel g x = ROk l false.
Proof.
  intros W H C strict. unfold ro. rewrite (resolve_eq_c3 g rk (wfb_wf _ _ W) strict fuel x l); auto.
Qed.

Lemma strict_raises_iff_thm rk g x fuel : wfb rk g = true -> rk x < fuel -> forall use_legacy,
  (ro true use_legacy fuel g x = RRaise <-> c3_lin (bases g) fuel x = None).
Proof.
  intros W H ul. unfold ro. rewrite (resolve_strict g rk (wfb_wf _ _ W)); auto.
  destruct (c3_lin (bases g) fuel x); destruct ul; split; congruence.
Qed.

Lemma is_consistent_iff_thm rk g x fuel : wfb rk g = true -> rk x < fuel ->
  exists b, is_consistent fuel g x = Some b /\
            (b = true <-> exists l, c3_lin (bases g) fuel x = Some l).
Proof.
  intros W H. unfold is_consistent.
  destruct (resolve_nonstrict g rk (wfb_wf _ _ W) fuel x H) as (m & i & E & _ & C).
  rewrite E. exists (negb i). split; auto. destruct i; cbn.
  - split; [discriminate|]. intros [l Hl]. congruence.
  - split; eauto.
Qed.

Lemma ro_valid_thm rk g x fuel : wfb rk g = true -> rk x < fuel ->
  exists m i, ro false false fuel g x = ROk m i /\ Lin (bases g) x m.
Proof.
  intros W H. unfold ro.
  destruct (resolve_nonstrict g rk (wfb_wf _ _ W) fuel x H) as (m & i & E & L & _).
  rewrite E. eauto.
Qed.

Lemma legacy_valid_thm rk g x fuel : wfb rk g = true -> rk x < fuel ->
  Lin (bases g) x (legacy_ro fuel g x) /\
  exists i, ro false true fuel g x = ROk (legacy_ro fuel g x) i.
Proof.
  intros W H. split; [apply (legacy_lin g rk (wfb_wf _ _ W)); auto|]. unfold ro.
  destruct (resolve_nonstrict g rk (wfb_wf _ _ W) fuel x H) as (m & i & E & _).
  rewrite E. eauto.
Qed.

Lemma sro_valid_thm rk g root x fuel : wfb rk g = true -> bases g root = [] -> rk x < fuel ->
  ValidLin (rooted root (bases g)) root x (fresh_sro fuel root g x).
Proof. intros W R H. apply (fresh_sro_valid g rk root (wfb_wf _ _ W) R); auto. Qed.

Lemma sro_eq_c3_rooted_thm rk g root x fuel fuel' l :
  wfb rk g = true -> bases g root = [] -> rk x < fuel ->
  c3_lin (rooted root (bases g)) fuel' x = Some l -> fresh_sro fuel root g x = l.
Proof. intros W R H C. eapply (fresh_sro_eq_c3 g rk root (wfb_wf _ _ W) R); eauto. Qed.

Lemma root_last_thm root l :
  (l <> [] -> exists l', root_last root l = l' ++ [root]) /\
  filter (fun y => negb (Nat.eqb y root)) (root_last root l) = filter (fun y => negb (Nat.eqb y root)) l /\
  (forall l', l = l' ++ [root] -> root_last root l = l) /\
  (NoDup l -> NoDup (root_last root l)) /\
  (l <> [] -> forall y, In y (root_last root l) <-> In y l \/ y = root).
Proof.
  split; [apply root_last_ends|]. split; [apply (root_last_others root l)|].
  split; [intros l' ->; apply root_last_id|]. split; [apply root_last_NoDup|].
  intros N y. apply root_last_In; auto.
Qed.

Lemma single_base_shortcut_thm strict x b t inc legacy :
  NoDup (b :: t) -> ~ In x (b :: t) ->
  c3_merge ([[x]] ++ [b :: t] ++ [[b]]) = MOk (x :: b :: t) /\
  c3_node strict x [b] [b :: t] inc legacy = ROk (x :: b :: t) inc.
Proof.
  intros N X. split; [|reflexivity]. rewrite c3_merge_textbook.
  - cbn [app]. rewrite merge_front.
    + rewrite merge_single; auto.
    + intros s [<-|[<-|[]]]; auto. intros [<-|[]]. apply X; cbn; auto.
  - cbn [app]. repeat constructor; auto; try (intros []). inversion N; auto. inversion N; auto.
Qed.

Lemma iro_is_filter_thm (k : nat -> bool) sro : NoDup sro ->
  NoDup (iro_of k sro) /\ Subseq (iro_of k sro) sro /\
  forall y, In y (iro_of k sro) <-> In y sro /\ k y = true.
Proof.
  intros N. unfold iro_of. split; [apply NoDup_filter; auto|]. split; [apply filter_Subseq|].
  intros y. apply filter_In.
Qed.

(* ------------------------------------------------------------------ the executable oracle is sound *)
Section Oracle.
Variable B : nat -> list nat.
Variable rk : nat -> nat.
Hypothesis W : wf rk B.

Lemma reach_list_In f : forall x y, rk x < f -> (In y (reach_list B f x) <-> Reach B x y).
Proof.
  induction f as [|f IH]; intros x y H; [lia|]. cbn. split.
  - intros [<-|Hy]; [constructor|]. apply in_flat_map in Hy. destruct Hy as (b & Hb & Hy).
    destruct (W x) as [_ R]. specialize (R _ Hb). apply IH in Hy; [|lia]. econstructor; eauto.
  - intros Hr. apply (Reach_inv B) in Hr. destruct Hr as [->|(b & Hb & Hr)]; auto. right.
    apply in_flat_map. exists b; split; auto. destruct (W x) as [_ R]. specialize (R _ Hb).
    apply IH; auto. lia.
Qed.

Lemma index_of_split x l i : index_of x l = Some i ->
  exists l1 l2, l = l1 ++ x :: l2 /\ length l1 = i.
Proof.
  revert i. induction l as [|h t IH]; cbn; intros i H; [discriminate|].
  destruct (Nat.eqb x h) eqn:E.
  - apply Nat.eqb_eq in E. inversion H; subst. exists [], t; auto.
  - destruct (index_of x t) as [j|]; [|discriminate]. inversion H; subst.
    destruct (IH _ eq_refl) as (l1 & l2 & -> & L). exists (h :: l1), l2; cbn; auto.
Qed.

Lemma beforeb_Before l a b : beforeb l a b = true -> Before l a b.
Proof.
  unfold beforeb. destruct (index_of a l) as [i|] eqn:Ea; [|discriminate].
  destruct (index_of b l) as [j|] eqn:Eb; [|discriminate]. intros H. apply Nat.ltb_lt in H.
  destruct (index_of_split _ _ _ Ea) as (l1 & l2 & -> & L1).
  clear Ea. revert j Eb H. subst i. induction l1 as [|h t IH]; cbn; intros j Eb H.
  - destruct (Nat.eqb b a) eqn:E; [inversion Eb; subst; lia|].
    destruct (index_of b l2) as [k|] eqn:Ek; [|discriminate].
    destruct (index_of_split _ _ _ Ek) as (m1 & m2 & -> & _). exists [], m1, m2; auto.
  - destruct (Nat.eqb b h) eqn:E; [inversion Eb; subst; lia|].
    destruct (index_of b (t ++ a :: l2)) as [k|] eqn:Ek; [|discriminate]. inversion Eb; subst.
    destruct (IH k eq_refl) as (m1 & m2 & m3 & Em); [lia|].
    exists (h :: m1), m2, m3. cbn. rewrite Em. auto.
Qed.

Lemma linb_sound f x l : rk x < f -> linb B f x l = true -> Lin B x l.
Proof.
  intros H. unfold linb. destruct l as [|h t]; [discriminate|].
  rewrite !andb_true_iff. intros [[[Hh Hn] [H1 H2]] Ho].
  apply Nat.eqb_eq in Hh. subst h. split; [eauto|]. split; [apply nodupb_NoDup; auto|].
  rewrite forallb_forall in H1, H2, Ho. split.
  - intros y. rewrite <- (reach_list_In f x y H). split; intros Hy.
    + apply memb_In. apply H1; auto.
    + apply memb_In. apply H2; auto.
  - intros y b Hy Hb. specialize (Ho y Hy). rewrite forallb_forall in Ho.
    apply beforeb_Before. apply Ho; auto.
Qed.

Lemma valid_linb_sound f root x l : rk x < f -> valid_linb B f root x l = true -> ValidLin B root x l.
Proof.
  intros H. unfold valid_linb. rewrite andb_true_iff. intros [L E]. split; [eapply linb_sound; eauto|].
  destruct (rev l) as [|z r] eqn:Er; [discriminate|]. apply Nat.eqb_eq in E. subst.
  exists (rev r). rewrite <- (rev_involutive l), Er. reflexivity.
Qed.
End Oracle.

(* ------------------------------------------------------------------ strict creation
   (ZOPE_INTERFACE_STRICT_IRO=1): computing the __sro__ of a specification whose bases all have
   a C3 order raises exactly when the specification itself has none, and otherwise yields it *)
Section StrictSro.
Variable g : graph.
Variable rk : nat -> nat.
Variable root : nat.
Hypothesis W : wf rk (bases g).
Hypothesis R0 : bases g root = [].
Let B := bases g.
Let Br := rooted root (bases g).

Lemma calc_sro_strict f F x : rk x < S f -> rk x < F ->
  (forall b, In b (bases g x) -> c3_lin Br (S F) b <> None) ->
  calc_sro true root (S f) g (fresh_sro f root g) x =
  match c3_lin Br (S F) x with Some l => ROk l false | None => RRaise end.
Proof.
  intros Hf HF HB. pose proof (wf_rooted g rk root W) as Wr. fold Br in Wr.
  unfold calc_sro. rewrite (c3_lin_S Br).
  destruct (Nat.eqb x root) eqn:Ex.
  - apply Nat.eqb_eq in Ex. subst. unfold Br. rewrite !(Br_root g root). reflexivity.
  - apply Nat.eqb_neq in Ex. set (M := fresh_sro f root g).
    destruct F as [|F]; [lia|].
    fold B. destruct (B x) as [|b1 r] eqn:EB.
    + assert (E : c3_node true x [] (map M []) false (legacy_ro (S f) g x) = ROk [x] false).
      { unfold c3_node. cbn [map]. rewrite c3_merge_textbook.
        - cbn [app]. rewrite merge_front by (intros s [<-|[]] []). reflexivity.
        - repeat constructor; intros []. }
      rewrite E.
      assert (EBx : Br x = [root]).
      { unfold Br. rewrite (Br_nonroot g root x Ex). fold B. rewrite EB. reflexivity. }
      assert (Cr : c3_lin Br (S F) root = Some [root]).
      { rewrite (c3_lin_S Br). unfold Br. rewrite (Br_root g root). reflexivity. }
      rewrite EBx. cbn [map all_some]. rewrite Cr. cbn [app].
      rewrite merge_single by (constructor; [intros []|constructor]). cbn [option_map].
      unfold root_last, last_is. cbn. apply Nat.eqb_neq in Ex. rewrite Ex. reflexivity.
    + assert (EBr : Br x = B x) by (apply (Br_bases g root R0); fold B; rewrite EB; discriminate).
      assert (HL : forall b, In b (Br x) -> c3_lin Br (S F) b = Some (M b) /\ Lin Br b (M b)).
      { intros b Hb. rewrite EBr in Hb. destruct (W x) as [_ Rk]. specialize (Rk _ Hb).
        assert (Hn : c3_lin Br (S (S F)) b <> None) by (apply HB; exact Hb).
        destruct (c3_lin Br (S (S F)) b) as [l|] eqn:Cb; [|congruence].
        assert (Cb' : c3_lin Br (S F) b = Some l).
        { rewrite <- Cb. apply (c3_lin_fuel Br (rk_rooted rk root) Wr); unfold rk_rooted;
            destruct (Nat.eqb b root); lia. }
        assert (EM : M b = l) by (eapply (fresh_sro_eq_c3 g rk root W R0); [|exact Cb]; lia).
        rewrite EM. split; auto. apply (c3_lin_lin Br (rk_rooted rk root) Wr _ _ _ Cb'). }
      assert (AS : all_some (map (c3_lin Br (S F)) (Br x)) = Some (map M (Br x))).
      { rewrite all_some_all.
        - f_equal. apply map_ext_in. intros b Hb. unfold unwrap. destruct (HL b Hb) as [-> _]. auto.
        - intros b Hb. destruct (HL b Hb) as [-> _]. discriminate. }
      rewrite AS. rewrite <- EB in *. rewrite <- EBr.
      rewrite (c3_node_spec Br (rk_rooted rk root) Wr) by (intros b Hb; apply HL; auto).
      unfold node in *.
      destruct (merge (map M (Br x) ++ [Br x])) as [l'|] eqn:Mg; cbn [option_map]; auto.
      assert (L : Lin Br x (x :: l')).
      { eapply (merge_lin Br (rk_rooted rk root) Wr); eauto. intros b Hb. apply HL; auto. }
      destruct (lin_rooted_last g root _ _ L) as [l0 El]. rewrite El, root_last_id. reflexivity.
Qed.
End StrictSro.

Lemma strict_sro_thm rk g root x f F : wfb rk g = true -> bases g root = [] ->
  rk x < S f -> rk x < F ->
  (forall b, In b (bases g x) -> c3_lin (rooted root (bases g)) (S F) b <> None) ->
  calc_sro true root (S f) g (fresh_sro f root g) x =
  match c3_lin (rooted root (bases g)) (S F) x with Some l => ROk l false | None => RRaise end.
Proof. intros W R. apply (calc_sro_strict g rk root (wfb_wf _ _ W) R). Qed.

(* ZOPE_INTERFACE_USE_LEGACY_IRO=1: __sro__ is the legacy order with Interface forced last — still a
   valid linearization of the rooted hierarchy *)
Lemma legacy_sro_thm rk g root x fuel : wfb rk g = true -> bases g root = [] -> x <> root ->
  rk x < fuel ->
  ValidLin (rooted root (bases g)) root x (root_last root (legacy_ro fuel g x)).
Proof.
  intros Wb R N H. pose proof (wfb_wf _ _ Wb) as W.
  assert (L : Lin (rooted root (bases g)) x (root_last root (legacy_ro fuel g x))).
  { apply (root_last_lin g root); auto. apply (Lin_B_QLin g rk root W R); auto.
    apply (legacy_lin g rk W); auto. }
  split; auto. eapply lin_rooted_last; eauto.
Qed.
