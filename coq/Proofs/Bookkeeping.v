(* Proofs for C09: the registry's bookkeeping (Model/Adapter.v via Model/Bookkeeping.v) refines the
   abstract ledger of Spec/Bookkeeping.v for ALL histories; rebuild()/replay preserve it. *)
From Coq Require Import List Arith Bool Lia Permutation.
Import ListNotations.
From ZI Require Import Model.Ro Model.Adapter Model.Bookkeeping Spec.Bookkeeping.

(* ------------------------------------------------------------------ boolean equalities *)
Lemma lspec_eqb_eq a b : lspec_eqb a b = true <-> a = b.
Proof.
  revert b; induction a as [|x a IH]; intros [|y b]; cbn; try (split; congruence).
  fold (lspec_eqb a b). rewrite andb_true_iff, Nat.eqb_eq, IH.
  split; [intros [-> ->]; auto | intros E; inversion E; auto].
Qed.

Lemma akey_eqb_eq k1 k2 : akey_eqb k1 k2 = true <-> k1 = k2.
Proof.
  destruct k1 as [[r1 p1] n1], k2 as [[r2 p2] n2]; cbn.
  rewrite !andb_true_iff, lspec_eqb_eq, !Nat.eqb_eq.
  split; [intros [[-> ->] ->]; auto | intros E; inversion E; auto].
Qed.

Lemma ospec_eqb_eq a b : ospec_eqb a b = true <-> a = b.
Proof.
  destruct a, b; cbn; try (split; congruence).
  rewrite Nat.eqb_eq. split; congruence.
Qed.

Lemma skey_eqb_eq k1 k2 : skey_eqb k1 k2 = true <-> k1 = k2.
Proof.
  destruct k1 as [r1 p1], k2 as [r2 p2]; unfold skey_eqb; cbn.
  rewrite andb_true_iff, lspec_eqb_eq, ospec_eqb_eq.
  split; [intros [-> ->]; auto | intros E; inversion E; auto].
Qed.

Lemma mem_In x l : mem x l = true <-> In x l.
Proof.
  induction l as [|y l IH]; cbn; [split; [discriminate|tauto]|].
  rewrite orb_true_iff, Nat.eqb_eq, IH. split; intros [H|H]; auto.
Qed.

Lemma map_conv_Some l : map conv (map Some l) = l.
Proof. induction l; cbn; congruence. Qed.

(* ------------------------------------------------------------------ association lists *)
Section AssocFacts.
  Context {K V : Type} (eqb : K -> K -> bool).
  Hypothesis eqb_eq : forall a b, eqb a b = true <-> a = b.

  Lemma eqb_refl k : eqb k k = true.
  Proof. apply eqb_eq; auto. Qed.

  Lemma eqb_neq a b : a <> b -> eqb a b = false.
  Proof. intros H. destruct (eqb a b) eqn:E; auto. apply eqb_eq in E. contradiction. Qed.

  Lemma eqb_dec (a b : K) : {a = b} + {a <> b}.
  Proof.
    destruct (eqb a b) eqn:E; [left; apply eqb_eq; auto | right; intros ->; rewrite eqb_refl in E; discriminate].
  Qed.

  Lemma aget_aset_same (m : list (K * V)) k v : aget eqb (aset eqb m k v) k = Some v.
  Proof.
    induction m as [|[k' v'] m IH]; cbn; [rewrite eqb_refl; auto|].
    destruct (eqb k k') eqn:E; cbn; rewrite E; auto.
  Qed.

  Lemma aget_aset_other (m : list (K * V)) k v k' : k' <> k -> aget eqb (aset eqb m k v) k' = aget eqb m k'.
  Proof.
    intros N. induction m as [|[k0 v0] m IH]; cbn; [rewrite eqb_neq; auto|].
    destruct (eqb k k0) eqn:E; cbn.
    - apply eqb_eq in E; subst k0. rewrite eqb_neq; auto.
    - destruct (eqb k' k0); auto.
  Qed.

  Lemma aget_adel_other (m : list (K * V)) k k' : k' <> k -> aget eqb (adel eqb m k) k' = aget eqb m k'.
  Proof.
    intros N. induction m as [|[k0 v0] m IH]; cbn; auto.
    destruct (eqb k k0) eqn:E; cbn.
    - apply eqb_eq in E; subst k0. rewrite eqb_neq; auto.
    - destruct (eqb k' k0); auto.
  Qed.

  Lemma aget_None_notin (m : list (K * V)) k : aget eqb m k = None <-> ~ In k (map fst m).
  Proof.
    induction m as [|[k0 v0] m IH]; cbn; [tauto|].
    destruct (eqb k k0) eqn:E.
    - apply eqb_eq in E; subst. split; [discriminate | intros H; exfalso; apply H; auto].
    - rewrite IH. split; [intros H [H'|H']; [subst; rewrite eqb_refl in E; discriminate | auto] | tauto].
  Qed.

  Lemma aget_Some_In (m : list (K * V)) k v : aget eqb m k = Some v -> In (k, v) m.
  Proof.
    induction m as [|[k0 v0] m IH]; cbn; [discriminate|].
    destruct (eqb k k0) eqn:E; [apply eqb_eq in E; subst; intros [= ->]; auto | auto].
  Qed.

  Lemma In_aget (m : list (K * V)) k v : NoDup (map fst m) -> In (k, v) m -> aget eqb m k = Some v.
  Proof.
    induction m as [|[k0 v0] m IH]; cbn; [tauto|].
    intros ND [H|H]; inversion ND; subst.
    - inversion H; subst. rewrite eqb_refl; auto.
    - destruct (eqb k k0) eqn:E; auto. apply eqb_eq in E; subst.
      exfalso. apply H2. apply (in_map fst) in H; auto.
  Qed.

  Lemma aget_adel_same (m : list (K * V)) k : NoDup (map fst m) -> aget eqb (adel eqb m k) k = None.
  Proof.
    induction m as [|[k0 v0] m IH]; cbn; auto.
    intros ND; inversion ND; subst.
    destruct (eqb k k0) eqn:E; cbn.
    - apply eqb_eq in E; subst. apply aget_None_notin; auto.
    - rewrite E; auto.
  Qed.

  Lemma keys_aset (m : list (K * V)) k v :
    map fst (aset eqb m k v) = match aget eqb m k with Some _ => map fst m | None => map fst m ++ [k] end.
  Proof.
    induction m as [|[k0 v0] m IH]; cbn; auto.
    destruct (eqb k k0) eqn:E; cbn; auto.
    rewrite IH. destruct (aget eqb m k); auto.
  Qed.

  Lemma NoDup_aset (m : list (K * V)) k v : NoDup (map fst m) -> NoDup (map fst (aset eqb m k v)).
  Proof.
    intros ND. rewrite keys_aset. destruct (aget eqb m k) eqn:E; auto.
    apply aget_None_notin in E.
    apply NoDup_rev in ND. rewrite <- (rev_involutive (map fst m ++ [k])). apply NoDup_rev.
    rewrite rev_app_distr; cbn. constructor; auto. rewrite <- in_rev; auto.
  Qed.

  Lemma keys_adel_incl (m : list (K * V)) k x : In x (map fst (adel eqb m k)) -> In x (map fst m).
  Proof.
    induction m as [|[k0 v0] m IH]; cbn; auto.
    destruct (eqb k k0); cbn; tauto.
  Qed.

  Lemma NoDup_adel (m : list (K * V)) k : NoDup (map fst m) -> NoDup (map fst (adel eqb m k)).
  Proof.
    induction m as [|[k0 v0] m IH]; cbn; auto.
    intros ND; inversion ND; subst.
    destruct (eqb k k0); cbn; auto.
    constructor; auto. intros H. apply H1. eapply keys_adel_incl; eauto.
  Qed.

  Lemma In_aset (m : list (K * V)) k v x : In x (aset eqb m k v) -> x = (k, v) \/ In x m.
  Proof.
    induction m as [|[k0 v0] m IH]; cbn; [intros [H|[]]; auto|].
    destruct (eqb k k0) eqn:E; cbn.
    - apply eqb_eq in E; subst. intros [H|H]; auto.
    - intros [H|H]; auto. destruct (IH H); auto.
  Qed.

  Lemma In_adel (m : list (K * V)) k x : In x (adel eqb m k) -> In x m.
  Proof.
    induction m as [|[k0 v0] m IH]; cbn; auto.
    destruct (eqb k k0); cbn; tauto.
  Qed.

  (* weighted sums over entries *)
  Fixpoint wsum (w : K * V -> nat) (m : list (K * V)) : nat :=
    match m with [] => 0 | x :: m' => w x + wsum w m' end.

  Lemma wsum_aset w (m : list (K * V)) k v :
    wsum w (aset eqb m k v) + match aget eqb m k with Some old => w (k, old) | None => 0 end
    = wsum w m + w (k, v).
  Proof.
    induction m as [|[k0 v0] m IH]; cbn; [lia|].
    destruct (eqb k k0) eqn:E; cbn.
    - apply eqb_eq in E; subst. lia.
    - lia.
  Qed.

  Lemma wsum_adel w (m : list (K * V)) k :
    wsum w (adel eqb m k) + match aget eqb m k with Some old => w (k, old) | None => 0 end = wsum w m.
  Proof.
    induction m as [|[k0 v0] m IH]; cbn; [lia|].
    destruct (eqb k k0) eqn:E; cbn.
    - apply eqb_eq in E; subst. lia.
    - lia.
  Qed.
End AssocFacts.

Lemma filter_length_wsum {K V} (f : K * V -> bool) (l : list (K * V)) :
  length (filter f l) = wsum (fun x => if f x then 1 else 0) l.
Proof. induction l as [|x l IH]; cbn; auto. destruct (f x); cbn; lia. Qed.

Lemma Permutation_filter {A} (f : A -> bool) (l l' : list A) :
  Permutation l l' -> Permutation (filter f l) (filter f l').
Proof.
  induction 1; cbn; auto.
  - destruct (f x); auto.
  - destruct (f x), (f y); auto. apply perm_swap.
  - eapply perm_trans; eauto.
Qed.

(* ------------------------------------------------------------------ extendors and _provided *)
Definition nat_eqb_eq := Nat.eqb_eq.

Lemma ext_get_aset e i x j : ext_get (aset Nat.eqb e i x) j = if Nat.eqb j i then x else ext_get e j.
Proof.
  unfold ext_get. destruct (Nat.eqb j i) eqn:E.
  - apply Nat.eqb_eq in E; subst. rewrite (aget_aset_same Nat.eqb Nat.eqb_eq); auto.
  - apply Nat.eqb_neq in E. rewrite (aget_aset_other Nat.eqb Nat.eqb_eq); auto.
Qed.

Lemma cnt_get_aset c p n q : cnt_get (aset Nat.eqb c p n) q = if Nat.eqb q p then n else cnt_get c q.
Proof.
  unfold cnt_get. destruct (Nat.eqb q p) eqn:E.
  - apply Nat.eqb_eq in E; subst. rewrite (aget_aset_same Nat.eqb Nat.eqb_eq); auto.
  - apply Nat.eqb_neq in E. rewrite (aget_aset_other Nat.eqb Nat.eqb_eq); auto.
Qed.

Lemma cnt_get_adel c p q : NoDup (map fst c) ->
  cnt_get (adel Nat.eqb c p) q = if Nat.eqb q p then 0 else cnt_get c q.
Proof.
  intros ND. unfold cnt_get. destruct (Nat.eqb q p) eqn:E.
  - apply Nat.eqb_eq in E; subst. rewrite (aget_adel_same Nat.eqb Nat.eqb_eq); auto.
  - apply Nat.eqb_neq in E. rewrite (aget_adel_other Nat.eqb Nat.eqb_eq); auto.
Qed.

Section Ext.
  Variable W : world.

  Definition ins_ext (p : spec) (old : list spec) : list spec :=
    filter (fun x => isOrExtends W p x) old ++ [p] ++ filter (fun x => negb (isOrExtends W p x)) old.
  Definition del_ext (p : spec) (old : list spec) : list spec := filter (fun x => negb (Nat.eqb x p)) old.

  Lemma In_ins_ext p old q : In q (ins_ext p old) <-> In q old \/ q = p.
  Proof.
    unfold ins_ext. rewrite !in_app_iff, !filter_In. cbn.
    destruct (isOrExtends W p q); cbn; intuition congruence.
  Qed.

  Lemma In_del_ext p old q : In q (del_ext p old) <-> In q old /\ q <> p.
  Proof.
    unfold del_ext. rewrite filter_In, negb_true_iff, Nat.eqb_neq. tauto.
  Qed.

  Lemma fold_ext_In (g : list spec -> list spec) (l : list spec) :
    forall e j, ext_get (fold_left (fun e i => aset Nat.eqb e i (g (ext_get e i))) l e) j
                = ext_get e j \/ In j l.
  Proof.
    induction l as [|i l IH]; intros e j; cbn; auto.
    destruct (IH (aset Nat.eqb e i (g (ext_get e i))) j) as [H|H]; auto.
    rewrite H, ext_get_aset. destruct (Nat.eqb j i) eqn:E; auto.
    apply Nat.eqb_eq in E; auto.
  Qed.

  Lemma add_ext_In p l : forall e q j,
    In q (ext_get (fold_left (fun e i => aset Nat.eqb e i (ins_ext p (ext_get e i))) l e) j)
    <-> In q (ext_get e j) \/ (q = p /\ In j l).
  Proof.
    induction l as [|i l IH]; intros e q j; cbn; [tauto|].
    rewrite IH, ext_get_aset. destruct (Nat.eqb j i) eqn:E.
    - apply Nat.eqb_eq in E; subst. rewrite In_ins_ext. tauto.
    - apply Nat.eqb_neq in E. intuition congruence.
  Qed.

  Lemma del_ext_In p l : forall e q j,
    In q (ext_get (fold_left (fun e i => aset Nat.eqb e i (del_ext p (ext_get e i))) l e) j)
    <-> In q (ext_get e j) /\ (In j l -> q <> p).
  Proof.
    induction l as [|i l IH]; intros e q j; cbn; [tauto|].
    rewrite IH, ext_get_aset. destruct (Nat.eqb j i) eqn:E.
    - apply Nat.eqb_eq in E; subst. rewrite In_del_ext. tauto.
    - apply Nat.eqb_neq in E. intuition congruence.
  Qed.

  Lemma add_extendor_In e p q j :
    In q (ext_get (add_extendor W e p) j) <-> In q (ext_get e j) \/ (q = p /\ In j (iro W p)).
  Proof. apply (add_ext_In p (iro W p)). Qed.

  Lemma remove_extendor_In e p q j :
    In q (ext_get (remove_extendor W e p) j) <-> In q (ext_get e j) /\ (In j (iro W p) -> q <> p).
  Proof. apply (del_ext_In p (iro W p)). Qed.

  (* extendors[i] lists exactly the provided interfaces with a positive count that extend i *)
  Definition ext_inv (c : list (spec * nat)) (e : list (spec * list spec)) : Prop :=
    forall i p, In p (ext_get e i) <-> (0 < cnt_get c p /\ In i (iro W p)).

  Lemma provide_incr_fields r p :
    adapters (provide_incr W r p) = adapters r /\ subscribers (provide_incr W r p) = subscribers r
    /\ generation (provide_incr W r p) = generation r.
  Proof. unfold provide_incr; cbn; auto. Qed.

  Lemma provide_decr_fields r p k :
    adapters (provide_decr W r p k) = adapters r /\ subscribers (provide_decr W r p k) = subscribers r
    /\ generation (provide_decr W r p k) = generation r.
  Proof. unfold provide_decr. destruct (Nat.eqb _ 0); cbn; auto. Qed.

  Lemma cnt_provide_incr r p q :
    cnt_get (provided_cnt (provide_incr W r p)) q
    = if Nat.eqb q p then S (cnt_get (provided_cnt r) p) else cnt_get (provided_cnt r) q.
  Proof. unfold provide_incr; cbn. apply cnt_get_aset. Qed.

  Lemma cnt_provide_decr r p k q : NoDup (map fst (provided_cnt r)) ->
    cnt_get (provided_cnt (provide_decr W r p k)) q
    = if Nat.eqb q p then cnt_get (provided_cnt r) p - k else cnt_get (provided_cnt r) q.
  Proof.
    intros ND. unfold provide_decr. destruct (Nat.eqb (cnt_get (provided_cnt r) p - k) 0) eqn:E; cbn.
    - rewrite cnt_get_adel; auto. apply Nat.eqb_eq in E. rewrite E. auto.
    - apply cnt_get_aset.
  Qed.

  Lemma nodup_cnt_incr r p : NoDup (map fst (provided_cnt r)) -> NoDup (map fst (provided_cnt (provide_incr W r p))).
  Proof. unfold provide_incr; cbn. apply NoDup_aset, Nat.eqb_eq. Qed.

  Lemma nodup_cnt_decr r p k : NoDup (map fst (provided_cnt r)) -> NoDup (map fst (provided_cnt (provide_decr W r p k))).
  Proof.
    unfold provide_decr. destruct (Nat.eqb _ 0); cbn; [apply NoDup_adel | apply NoDup_aset, Nat.eqb_eq].
  Qed.

  Lemma ext_inv_incr r p : ext_inv (provided_cnt r) (extendors r) ->
    ext_inv (provided_cnt (provide_incr W r p)) (extendors (provide_incr W r p)).
  Proof.
    intros I i q. rewrite cnt_provide_incr. unfold provide_incr; cbn [extendors].
    destruct (Nat.eqb (S (cnt_get (provided_cnt r) p)) 1) eqn:E.
    - apply Nat.eqb_eq in E. assert (Z : cnt_get (provided_cnt r) p = 0) by lia.
      rewrite add_extendor_In, (I i q). destruct (Nat.eqb q p) eqn:Q.
      + apply Nat.eqb_eq in Q; subst q. rewrite Z. split; [intros [[H _]|[_ H]]; [lia | split; [lia | auto]] | intros [_ H]; auto].
      + apply Nat.eqb_neq in Q. tauto.
    - apply Nat.eqb_neq in E. rewrite (I i q). destruct (Nat.eqb q p) eqn:Q; [|tauto].
      apply Nat.eqb_eq in Q; subst q. split; intros [H1 H2]; split; auto; lia.
  Qed.

  Lemma ext_inv_decr r p k : NoDup (map fst (provided_cnt r)) -> ext_inv (provided_cnt r) (extendors r) ->
    ext_inv (provided_cnt (provide_decr W r p k)) (extendors (provide_decr W r p k)).
  Proof.
    intros ND I i q. rewrite cnt_provide_decr; auto. unfold provide_decr.
    destruct (Nat.eqb (cnt_get (provided_cnt r) p - k) 0) eqn:E; cbn [extendors].
    - apply Nat.eqb_eq in E. rewrite remove_extendor_In, (I i q). destruct (Nat.eqb q p) eqn:Q.
      + apply Nat.eqb_eq in Q; subst q. rewrite E. split; [intros [[_ H] H']; exfalso; apply H'; auto | intros [H _]; lia].
      + apply Nat.eqb_neq in Q. tauto.
    - apply Nat.eqb_neq in E. rewrite (I i q). destruct (Nat.eqb q p) eqn:Q; [|tauto].
      apply Nat.eqb_eq in Q; subst q. split; intros [H1 H2]; split; auto; lia.
  Qed.
End Ext.

(* ------------------------------------------------------------------ the four mutators, case by case *)
Definition set_ad (r : reg) (a : list (akey * value)) : reg :=
  mkReg a (subscribers r) (provided_cnt r) (extendors r) (generation r).
Definition set_su (r : reg) (s : list (skey * list value)) : reg :=
  mkReg (adapters r) s (provided_cnt r) (extendors r) (generation r).

Lemma filter_len_le {A} (f : A -> bool) (l : list A) : length (filter f l) <= length l.
Proof. induction l as [|x l IH]; cbn; auto. destruct (f x); cbn; lia. Qed.

Lemma filter_length_eq {A} (f : A -> bool) (l : list A) : length (filter f l) = length l -> filter f l = l.
Proof.
  induction l as [|x l IH]; cbn; auto.
  destruct (f x); cbn; intros H.
  - f_equal. apply IH. lia.
  - pose proof (filter_len_le f l). lia.
Qed.

Section Cases.
  Variable W : world.

  Lemma register_cases r req p n v' :
    let k := (map conv req, p, n) in
    (register W r req p n (Some v') = r /\ exists old, aget akey_eqb (adapters r) k = Some old /\ v_is old v' = true)
    \/ (register W r req p n (Some v') = changed (provide_incr W (set_ad r (aset akey_eqb (adapters r) k v')) p)
        /\ forall old, aget akey_eqb (adapters r) k = Some old -> v_is old v' = false).
  Proof.
    intros k. unfold register. fold k. destruct (aget akey_eqb (adapters r) k) as [old|] eqn:E.
    - destruct (v_is old v') eqn:I.
      + left. split; auto. exists old; auto.
      + right. split; auto. intros o [= <-]; auto.
    - right. split; auto. discriminate.
  Qed.

  Definition removes (old : value) (v : option value) : bool :=
    match v with Some v' => v_is old v' | None => true end.

  Lemma unregister_cases r req p n v :
    let k := (map conv req, p, n) in
    (unregister W r req p n v = r
     /\ forall old, aget akey_eqb (adapters r) k = Some old -> removes old v = false)
    \/ (unregister W r req p n v = changed (provide_decr W (set_ad r (adel akey_eqb (adapters r) k)) p 1)
        /\ exists old, aget akey_eqb (adapters r) k = Some old /\ removes old v = true).
  Proof.
    intros k. unfold unregister. fold k. destruct (aget akey_eqb (adapters r) k) as [old|] eqn:E.
    - destruct v as [v'|]; cbn.
      + destruct (v_is old v') eqn:I.
        * right. split; auto. exists old; auto.
        * left. split; auto. intros o [= <-]; auto.
      + right. split; auto. exists old; auto.
    - left. split; auto. discriminate.
  Qed.

  Lemma subscribe_form r req p v :
    let k := (map conv req, p) in
    subscribe W r req p v
    = changed (match p with
               | Some p' => provide_incr W (set_su r (aset skey_eqb (subscribers r) k (sub_leaf r k ++ [v]))) p'
               | None => set_su r (aset skey_eqb (subscribers r) k (sub_leaf r k ++ [v]))
               end).
  Proof. reflexivity. Qed.

  Definition unsub_new (old : list value) (v : option value) : list value :=
    match v with None => [] | Some v' => filter (fun x => negb (v_eq x v')) old end.

  Lemma unsub_new_le old v : length (unsub_new old v) <= length old.
  Proof. destruct v; cbn; [apply filter_len_le | lia]. Qed.

  Lemma unsubscribe_cases r req p v :
    let k := (map conv req, p) in
    let old := sub_leaf r k in
    let new := unsub_new old v in
    (unsubscribe W r req p v = r /\ new = old)
    \/ (length new < length old
        /\ unsubscribe W r req p v
           = changed (match p with
                      | Some p' => provide_decr W (set_su r (match new with
                                                            | [] => adel skey_eqb (subscribers r) k
                                                            | _ => aset skey_eqb (subscribers r) k new end))
                                                p' (length old - length new)
                      | None => set_su r (match new with
                                          | [] => adel skey_eqb (subscribers r) k
                                          | _ => aset skey_eqb (subscribers r) k new end)
                      end)).
  Proof.
    intros k old new. subst old new. unfold unsubscribe. fold k.
    destruct (sub_leaf r k) as [|x old'] eqn:EO.
    - left; split; auto. destruct v; auto.
    - cbv zeta. set (old := x :: old') in *.
      change (match v with None => [] | Some v' => filter (fun x0 => negb (v_eq x0 v')) old end) with (unsub_new old v).
      set (new := unsub_new old v).
      destruct (Nat.eqb (length new) (length old)) eqn:E.
      + left. split; auto. apply Nat.eqb_eq in E. subst new. destruct v as [v'|]; unfold unsub_new in *.
        * apply filter_length_eq; auto.
        * subst old; discriminate.
      + right. apply Nat.eqb_neq in E. pose proof (unsub_new_le old v). fold new in H.
        split; [lia|]. reflexivity.
  Qed.
End Cases.

(* ------------------------------------------------------------------ the invariant of reachable registries *)
Definition wa (q : spec) (kv : akey * value) : nat := if Nat.eqb (aprov kv) q then 1 else 0.
Definition ws (q : spec) (kl : skey * list value) : nat :=
  if ospec_eqb (snd (fst kl)) (Some q) then length (snd kl) else 0.
Definition live (r : reg) (q : spec) : nat := wsum (wa q) (adapters r) + wsum (ws q) (subscribers r).

Lemma wa_aset q ad k v :
  wsum (wa q) (aset akey_eqb ad k v)
  = wsum (wa q) ad + match aget akey_eqb ad k with Some _ => 0 | None => wa q (k, v) end.
Proof.
  pose proof (wsum_aset akey_eqb akey_eqb_eq (wa q) ad k v) as H.
  destruct (aget akey_eqb ad k) as [old|]; [|lia].
  assert (wa q (k, old) = wa q (k, v)) by reflexivity. lia.
Qed.

Lemma wa_adel q ad k old : aget akey_eqb ad k = Some old ->
  wsum (wa q) (adel akey_eqb ad k) + wa q (k, old) = wsum (wa q) ad.
Proof.
  intros E. pose proof (wsum_adel akey_eqb akey_eqb_eq (wa q) ad k) as H. rewrite E in H. auto.
Qed.

Section Inv.
  Variable W : world.

  Record inv0 (r : reg) : Prop := mkInv0 {
    inv_ad : NoDup (map fst (adapters r));
    inv_su : NoDup (map fst (subscribers r));
    inv_ne : forall k l, In (k, l) (subscribers r) -> l <> [];
    inv_pc : NoDup (map fst (provided_cnt r));
    inv_ex : ext_inv W (provided_cnt r) (extendors r)
  }.
  Definition ge (r : reg) : Prop := forall q, live r q <= cnt_get (provided_cnt r) q.
  Definition inv (r : reg) : Prop := inv0 r /\ ge r.

  Lemma inv0_changed r : inv0 r -> inv0 (changed r).
  Proof. intros []; constructor; cbn; auto. Qed.

  Lemma inv0_incr r p : inv0 r -> inv0 (provide_incr W r p).
  Proof.
    intros []. destruct (provide_incr_fields W r p) as (A & S & _).
    constructor; try rewrite A; try rewrite S; auto.
    - apply nodup_cnt_incr; auto.
    - apply ext_inv_incr; auto.
  Qed.

  Lemma inv0_decr r p k : inv0 r -> inv0 (provide_decr W r p k).
  Proof.
    intros []. destruct (provide_decr_fields W r p k) as (A & S & _).
    constructor; try rewrite A; try rewrite S; auto.
    - apply nodup_cnt_decr; auto.
    - apply ext_inv_decr; auto.
  Qed.

  Lemma inv0_set_ad r a : inv0 r -> NoDup (map fst a) -> inv0 (set_ad r a).
  Proof. intros [] H; constructor; cbn; auto. Qed.

  Lemma inv0_set_su r s : inv0 r -> NoDup (map fst s) -> (forall k l, In (k, l) s -> l <> []) -> inv0 (set_su r s).
  Proof. intros [] H H'; constructor; cbn; auto. Qed.

  Lemma live_incr r p q : live (provide_incr W r p) q = live r q.
  Proof. unfold live. destruct (provide_incr_fields W r p) as (A & S & _). rewrite A, S; auto. Qed.

  Lemma live_decr r p k q : live (provide_decr W r p k) q = live r q.
  Proof. unfold live. destruct (provide_decr_fields W r p k) as (A & S & _). rewrite A, S; auto. Qed.

  Lemma inv_empty g : inv (mkReg [] [] [] [] g).
  Proof.
    split; [|intros q; cbn; lia].
    constructor; cbn; try constructor; try tauto.
    - cbn. tauto.
    - cbn. intros [H _]; lia.
  Qed.

  Lemma inv_changed r : inv r -> inv (changed r).
  Proof. intros [H G]; split; [apply inv0_changed; auto | exact G]. Qed.

  (* ---- unregister *)
  Lemma inv_unregister r req p n v : inv r -> inv (unregister W r req p n v).
  Proof.
    intros [I G]. pose proof (unregister_cases W r req p n v) as C; cbv zeta in C.
    destruct C as [[C _]|[C (old & E & _)]]; rewrite C; clear C; [split; auto|].
    set (k := (map conv req, p, n)) in *.
    assert (I1 : inv0 (set_ad r (adel akey_eqb (adapters r) k))).
    { apply inv0_set_ad; auto. apply NoDup_adel; apply I. }
    split; [apply inv0_changed, inv0_decr; auto|].
    intros q. change (live (provide_decr W (set_ad r (adel akey_eqb (adapters r) k)) p 1) q
                      <= cnt_get (provided_cnt (provide_decr W (set_ad r (adel akey_eqb (adapters r) k)) p 1)) q).
    rewrite live_decr, cnt_provide_decr; [|apply I1].
    specialize (G q). unfold live in *. cbn [adapters subscribers set_ad provided_cnt].
    pose proof (wa_adel q _ _ _ E) as H. unfold wa at 2 in H. cbn in H.
    destruct (Nat.eqb q p) eqn:Q.
    - apply Nat.eqb_eq in Q; subst q. rewrite Nat.eqb_refl in H. lia.
    - rewrite Nat.eqb_sym, Q in H. lia.
  Qed.

  (* ---- register *)
  Lemma inv_register r req p n v : inv r -> inv (register W r req p n v).
  Proof.
    destruct v as [v'|]; [|apply inv_unregister].
    intros [I G]. pose proof (register_cases W r req p n v') as C; cbv zeta in C.
    destruct C as [[C _]|[C _]]; rewrite C; clear C; [split; auto|].
    set (k := (map conv req, p, n)) in *.
    assert (I1 : inv0 (set_ad r (aset akey_eqb (adapters r) k v'))).
    { apply inv0_set_ad; auto. apply NoDup_aset; [apply akey_eqb_eq | apply I]. }
    split; [apply inv0_changed, inv0_incr; auto|].
    intros q. change (live (provide_incr W (set_ad r (aset akey_eqb (adapters r) k v')) p) q
                      <= cnt_get (provided_cnt (provide_incr W (set_ad r (aset akey_eqb (adapters r) k v')) p)) q).
    rewrite live_incr, cnt_provide_incr.
    specialize (G q). unfold live in *. cbn [adapters subscribers set_ad provided_cnt].
    rewrite wa_aset. destruct (aget akey_eqb (adapters r) k).
    - destruct (Nat.eqb q p) eqn:Q; [apply Nat.eqb_eq in Q; subst q|]; lia.
    - change (wa q (k, v')) with (if Nat.eqb p q then 1 else 0).
      destruct (Nat.eqb q p) eqn:Q.
      + apply Nat.eqb_eq in Q; subst q. rewrite Nat.eqb_refl. lia.
      + rewrite Nat.eqb_sym, Q. lia.
  Qed.

  (* ---- subscribe *)
  Lemma ws_aset q su k l :
    wsum (ws q) (aset skey_eqb su k l)
    + (if ospec_eqb (snd k) (Some q)
       then length (match aget skey_eqb su k with Some o => o | None => [] end) else 0)
    = wsum (ws q) su + (if ospec_eqb (snd k) (Some q) then length l else 0).
  Proof.
    pose proof (wsum_aset skey_eqb skey_eqb_eq (ws q) su k l) as H.
    destruct (aget skey_eqb su k); unfold ws in *; cbn [fst snd length] in *;
      destruct (ospec_eqb (snd k) (Some q)); lia.
  Qed.

  Lemma ws_adel q su k :
    wsum (ws q) (adel skey_eqb su k)
    + (if ospec_eqb (snd k) (Some q)
       then length (match aget skey_eqb su k with Some o => o | None => [] end) else 0)
    = wsum (ws q) su.
  Proof.
    pose proof (wsum_adel skey_eqb skey_eqb_eq (ws q) su k) as H.
    destruct (aget skey_eqb su k); unfold ws in *; cbn [fst snd length] in *;
      destruct (ospec_eqb (snd k) (Some q)); lia.
  Qed.

  Lemma inv_subscribe r req p v : inv r -> inv (subscribe W r req p v).
  Proof.
    intros [I G]. rewrite subscribe_form. cbv zeta.
    set (k := (map conv req, p)). set (su' := aset skey_eqb (subscribers r) k (sub_leaf r k ++ [v])).
    assert (I1 : inv0 (set_su r su')).
    { apply inv0_set_su; auto.
      - apply NoDup_aset; [apply skey_eqb_eq | apply I].
      - intros k' l H. apply (In_aset skey_eqb skey_eqb_eq) in H. destruct H as [H|H].
        + inversion H; subst. destruct (sub_leaf r k); discriminate.
        + eapply inv_ne; eauto. }
    assert (L : forall q, live (set_su r su') q = live r q + if ospec_eqb p (Some q) then 1 else 0).
    { intros q. unfold live. cbn [adapters subscribers set_su]. subst su'.
      pose proof (ws_aset q (subscribers r) k (sub_leaf r k ++ [v])) as H.
      fold (sub_leaf r k) in H. rewrite app_length in H. cbn [snd length] in H. subst k. cbn [snd] in H.
      destruct (ospec_eqb p (Some q)); lia. }
    destruct p as [p'|].
    - split; [apply inv0_changed, inv0_incr; auto|].
      intros q. change (live (provide_incr W (set_su r su') p') q
                        <= cnt_get (provided_cnt (provide_incr W (set_su r su') p')) q).
      rewrite live_incr, cnt_provide_incr, L. cbn [provided_cnt set_su ospec_eqb]. specialize (G q).
      destruct (Nat.eqb q p') eqn:Q.
      + apply Nat.eqb_eq in Q; subst q. rewrite Nat.eqb_refl. lia.
      + rewrite Nat.eqb_sym, Q. lia.
    - split; [apply inv0_changed; auto|].
      intros q. change (live (set_su r su') q <= cnt_get (provided_cnt r) q).
      rewrite L. cbn. specialize (G q). lia.
  Qed.

  (* ---- unsubscribe *)
  Lemma sub_leaf_aget r k : sub_leaf r k <> [] -> aget skey_eqb (subscribers r) k = Some (sub_leaf r k).
  Proof. unfold sub_leaf. destruct (aget skey_eqb (subscribers r) k); [auto | intros H; contradiction]. Qed.

  Lemma inv_unsubscribe r req p v : inv r -> inv (unsubscribe W r req p v).
  Proof.
    intros [I G]. pose proof (unsubscribe_cases W r req p v) as C; cbv zeta in C.
    set (k := (map conv req, p)) in *. set (old := sub_leaf r k) in *. set (new := unsub_new old v) in *.
    destruct C as [[C _]|[LT C]]; rewrite C; clear C; [split; auto|].
    assert (A : aget skey_eqb (subscribers r) k = Some old).
    { apply sub_leaf_aget. fold old. intros E. rewrite E in LT. cbn in LT. lia. }
    set (su' := match new with [] => adel skey_eqb (subscribers r) k | _ => aset skey_eqb (subscribers r) k new end).
    assert (I1 : inv0 (set_su r su')).
    { apply inv0_set_su; auto; subst su'; destruct new as [|y new'] eqn:EN.
      - apply NoDup_adel; apply I.
      - apply NoDup_aset; [apply skey_eqb_eq | apply I].
      - intros k' l H. apply In_adel in H. eapply inv_ne; eauto.
      - intros k' l H. apply (In_aset skey_eqb skey_eqb_eq) in H. destruct H as [H|H].
        + inversion H; subst. discriminate.
        + eapply inv_ne; eauto. }
    assert (L : forall q, live (set_su r su') q + (if ospec_eqb p (Some q) then length old - length new else 0) = live r q).
    { intros q. unfold live. cbn [adapters subscribers set_su].
      subst su'. destruct new as [|y new'] eqn:EN.
      - pose proof (ws_adel q (subscribers r) k) as H. rewrite A in H. subst k. cbn [snd length] in *.
        destruct (ospec_eqb p (Some q)); lia.
      - pose proof (ws_aset q (subscribers r) k (y :: new')) as H. rewrite A in H. subst k. cbn [snd] in *.
        destruct (ospec_eqb p (Some q)); lia. }
    destruct p as [p'|].
    - split; [apply inv0_changed, inv0_decr; auto|].
      intros q. change (live (provide_decr W (set_su r su') p' (length old - length new)) q
                        <= cnt_get (provided_cnt (provide_decr W (set_su r su') p' (length old - length new))) q).
      rewrite live_decr, cnt_provide_decr; [|apply I1]. cbn [provided_cnt set_su].
      specialize (G q). specialize (L q). cbn [ospec_eqb] in L.
      destruct (Nat.eqb q p') eqn:Q.
      + apply Nat.eqb_eq in Q; subst q. rewrite Nat.eqb_refl in L. lia.
      + rewrite Nat.eqb_sym, Q in L. lia.
    - split; [apply inv0_changed; auto|].
      intros q. change (live (set_su r su') q <= cnt_get (provided_cnt r) q).
      specialize (G q). specialize (L q). cbn [ospec_eqb] in L. lia.
  Qed.
End Inv.

(* ------------------------------------------------------------------ effect of the mutators on the two maps *)
Section Effects.
  Variable W : world.

  Lemma sub_leaf_ext r r' k : subscribers r = subscribers r' -> sub_leaf r k = sub_leaf r' k.
  Proof. unfold sub_leaf. intros ->; auto. Qed.

  Lemma adapters_chg_incr r p : adapters (changed (provide_incr W r p)) = adapters r.
  Proof. reflexivity. Qed.
  Lemma adapters_chg_decr r p k : adapters (changed (provide_decr W r p k)) = adapters r.
  Proof. unfold provide_decr. destruct (Nat.eqb _ 0); reflexivity. Qed.
  Lemma subscribers_chg_incr r p : subscribers (changed (provide_incr W r p)) = subscribers r.
  Proof. reflexivity. Qed.
  Lemma subscribers_chg_decr r p k : subscribers (changed (provide_decr W r p k)) = subscribers r.
  Proof. unfold provide_decr. destruct (Nat.eqb _ 0); reflexivity. Qed.

  Lemma adapters_register r req p n v' k' :
    aget akey_eqb (adapters (register W r req p n (Some v'))) k'
    = if akey_eqb k' (map conv req, p, n)
      then match aget akey_eqb (adapters r) (map conv req, p, n) with
           | Some old => if v_is old v' then Some old else Some v'
           | None => Some v'
           end
      else aget akey_eqb (adapters r) k'.
  Proof.
    pose proof (register_cases W r req p n v') as C; cbv zeta in C.
    set (k := (map conv req, p, n)) in *.
    destruct C as [[C (old & E & I)]|[C N]]; rewrite C; clear C.
    - destruct (akey_eqb k' k) eqn:K; auto. apply akey_eqb_eq in K; subst k'. rewrite E, I; auto.
    - rewrite adapters_chg_incr. cbn [adapters set_ad].
      destruct (akey_eqb k' k) eqn:K.
      + apply akey_eqb_eq in K; subst k'. rewrite (aget_aset_same akey_eqb akey_eqb_eq).
        destruct (aget akey_eqb (adapters r) k) as [old|] eqn:E; auto. rewrite (N old); auto.
      + rewrite (aget_aset_other akey_eqb akey_eqb_eq); auto. intros ->. rewrite (eqb_refl akey_eqb akey_eqb_eq) in K. discriminate.
  Qed.

  Lemma adapters_unregister r req p n v k' : NoDup (map fst (adapters r)) ->
    aget akey_eqb (adapters (unregister W r req p n v)) k'
    = if akey_eqb k' (map conv req, p, n)
      then match aget akey_eqb (adapters r) (map conv req, p, n) with
           | Some old => if removes old v then None else Some old
           | None => None
           end
      else aget akey_eqb (adapters r) k'.
  Proof.
    intros ND. pose proof (unregister_cases W r req p n v) as C; cbv zeta in C.
    set (k := (map conv req, p, n)) in *.
    destruct C as [[C N]|[C (old & E & I)]]; rewrite C; clear C.
    - destruct (akey_eqb k' k) eqn:K; auto. apply akey_eqb_eq in K; subst k'.
      destruct (aget akey_eqb (adapters r) k) as [old|] eqn:E; auto. rewrite (N old); auto.
    - rewrite adapters_chg_decr. cbn [adapters set_ad].
      destruct (akey_eqb k' k) eqn:K.
      + apply akey_eqb_eq in K; subst k'. rewrite (aget_adel_same akey_eqb akey_eqb_eq); auto. rewrite E, I; auto.
      + rewrite (aget_adel_other akey_eqb akey_eqb_eq); auto. intros ->. rewrite (eqb_refl akey_eqb akey_eqb_eq) in K. discriminate.
  Qed.

  Lemma subscribers_unregister r req p n v : subscribers (unregister W r req p n v) = subscribers r.
  Proof.
    pose proof (unregister_cases W r req p n v) as C; cbv zeta in C.
    destruct C as [[C _]|[C _]]; rewrite C; auto. rewrite subscribers_chg_decr; auto.
  Qed.

  Lemma subscribers_register r req p n v : subscribers (register W r req p n v) = subscribers r.
  Proof.
    destruct v as [v'|]; [|apply subscribers_unregister].
    pose proof (register_cases W r req p n v') as C; cbv zeta in C.
    destruct C as [[C _]|[C _]]; rewrite C; auto.
  Qed.

  Lemma adapters_subscribe r req p v : adapters (subscribe W r req p v) = adapters r.
  Proof.
    rewrite subscribe_form. cbv zeta. destruct p; [rewrite adapters_chg_incr|]; reflexivity.
  Qed.

  Lemma adapters_unsubscribe r req p v : adapters (unsubscribe W r req p v) = adapters r.
  Proof.
    pose proof (unsubscribe_cases W r req p v) as C; cbv zeta in C.
    destruct C as [[C _]|[_ C]]; rewrite C; auto.
    destruct p; [rewrite adapters_chg_decr|]; reflexivity.
  Qed.

  Lemma sub_leaf_set_su r s k : sub_leaf (set_su r s) k = match aget skey_eqb s k with Some l => l | None => [] end.
  Proof. reflexivity. Qed.

  Lemma leaf_subscribe r req p v k' :
    sub_leaf (subscribe W r req p v) k'
    = if skey_eqb k' (map conv req, p) then sub_leaf r (map conv req, p) ++ [v] else sub_leaf r k'.
  Proof.
    rewrite subscribe_form. cbv zeta. set (k := (map conv req, p)).
    set (s := aset skey_eqb (subscribers r) k (sub_leaf r k ++ [v])).
    assert (E : sub_leaf (changed match p with Some p' => provide_incr W (set_su r s) p' | None => set_su r s end) k'
                = sub_leaf (set_su r s) k').
    { apply sub_leaf_ext. destruct p; [rewrite subscribers_chg_incr|]; reflexivity. }
    rewrite E, sub_leaf_set_su. subst s.
    destruct (skey_eqb k' k) eqn:K.
    - apply skey_eqb_eq in K; subst k'. rewrite (aget_aset_same skey_eqb skey_eqb_eq); auto.
    - rewrite (aget_aset_other skey_eqb skey_eqb_eq); auto. intros ->. rewrite (eqb_refl skey_eqb skey_eqb_eq) in K. discriminate.
  Qed.

  Lemma leaf_unsubscribe r req p v k' : NoDup (map fst (subscribers r)) ->
    sub_leaf (unsubscribe W r req p v) k'
    = if skey_eqb k' (map conv req, p) then unsub_new (sub_leaf r (map conv req, p)) v else sub_leaf r k'.
  Proof.
    intros ND. pose proof (unsubscribe_cases W r req p v) as C; cbv zeta in C.
    set (k := (map conv req, p)) in *. set (old := sub_leaf r k) in *. set (new := unsub_new old v) in *.
    destruct C as [[C E]|[LT C]]; rewrite C; clear C.
    - destruct (skey_eqb k' k) eqn:K; auto. apply skey_eqb_eq in K; subst k'. rewrite E; auto.
    - set (s := match new with [] => adel skey_eqb (subscribers r) k | _ => aset skey_eqb (subscribers r) k new end).
      assert (E : sub_leaf (changed match p with
                                    | Some p' => provide_decr W (set_su r s) p' (length old - length new)
                                    | None => set_su r s end) k' = sub_leaf (set_su r s) k').
      { apply sub_leaf_ext. destruct p; [rewrite subscribers_chg_decr|]; reflexivity. }
      rewrite E, sub_leaf_set_su. subst s.
      destruct (skey_eqb k' k) eqn:K.
      + apply skey_eqb_eq in K; subst k'. destruct new as [|y new'] eqn:EN.
        * rewrite (aget_adel_same skey_eqb skey_eqb_eq); auto.
        * rewrite (aget_aset_same skey_eqb skey_eqb_eq); auto.
      + assert (N : k' <> k) by (intros ->; rewrite (eqb_refl skey_eqb skey_eqb_eq) in K; discriminate).
        destruct new as [|y new'] eqn:EN.
        * rewrite (aget_adel_other skey_eqb skey_eqb_eq); auto.
        * rewrite (aget_aset_other skey_eqb skey_eqb_eq); auto.
  Qed.
End Effects.

(* ------------------------------------------------------------------ replaying listings *)
Lemma wsum_perm {K V} (w : K * V -> nat) l l' : Permutation l l' -> wsum w l = wsum w l'.
Proof. induction 1; cbn; lia. Qed.

Lemma perm_aget {K V} (eqb : K -> K -> bool) (eqb_eq : forall a b, eqb a b = true <-> a = b)
      (m m' : list (K * V)) k :
  NoDup (map fst m) -> Permutation m' m -> aget eqb m' k = aget eqb m k.
Proof.
  intros ND P.
  assert (ND' : NoDup (map fst m')).
  { eapply Permutation_NoDup; [apply Permutation_map, Permutation_sym, P | auto]. }
  destruct (aget eqb m k) as [v|] eqn:E.
  - apply (In_aget eqb eqb_eq); auto. eapply Permutation_in; [apply Permutation_sym, P|].
    apply (aget_Some_In eqb eqb_eq); auto.
  - apply (aget_None_notin eqb eqb_eq). apply (aget_None_notin eqb eqb_eq) in E.
    intros H. apply E. eapply Permutation_in; [apply Permutation_map, P | auto].
Qed.

Lemma ws_allsubs q (su : list (skey * list value)) :
  wsum (ws q) su
  = length (filter (fun kv : skey * value => ospec_eqb (sprov kv) (Some q))
                   (flat_map (fun kv => map (fun v => (fst kv, v)) (snd kv)) su)).
Proof.
  induction su as [|[k l] su IH]; cbn [wsum flat_map]; auto.
  rewrite filter_app, app_length, <- IH. f_equal.
  unfold ws, sprov; cbn [fst snd].
  induction l as [|x l IHl]; cbn; [destruct (ospec_eqb (snd k) (Some q)); auto|].
  destruct (ospec_eqb (snd k) (Some q)); cbn in *; lia.
Qed.

Lemma live_live_count r q : live r q = live_count r q.
Proof.
  unfold live, live_count, allRegistrations, allSubscriptions.
  rewrite ws_allsubs. f_equal. symmetry. apply (filter_length_wsum (fun kv : akey * value => Nat.eqb (aprov kv) q)).
Qed.

Lemma proj_allsubs (su : list (skey * list value)) k : NoDup (map fst su) ->
  map snd (filter (fun kv : skey * value => skey_eqb (fst kv) k)
                  (flat_map (fun kv => map (fun v => (fst kv, v)) (snd kv)) su))
  = match aget skey_eqb su k with Some l => l | None => [] end.
Proof.
  induction su as [|[k0 l] su IH]; cbn [flat_map aget map fst snd]; auto.
  intros ND; inversion ND; subst. rewrite filter_app, map_app, IH; auto.
  assert (F : map snd (filter (fun kv : skey * value => skey_eqb (fst kv) k) (map (fun v => (k0, v)) l))
                        = if skey_eqb k0 k then l else []).
  { clear. induction l as [|x l IHl]; cbn; [destruct (skey_eqb k0 k); auto|].
    destruct (skey_eqb k0 k); cbn; [f_equal|]; auto. }
  rewrite F. destruct (skey_eqb k k0) eqn:E.
  - apply skey_eqb_eq in E; subst k0. rewrite (eqb_refl skey_eqb skey_eqb_eq).
    assert (A : aget skey_eqb su k = None) by (apply (aget_None_notin skey_eqb skey_eqb_eq); auto).
    rewrite A, app_nil_r; auto.
  - destruct (skey_eqb k0 k) eqn:E'; auto. apply skey_eqb_eq in E'; subst. rewrite (eqb_refl skey_eqb skey_eqb_eq) in E. discriminate.
Qed.

Section Replay.
  Variable W : world.

  Lemma provided_cnt_changed x : provided_cnt (changed x) = provided_cnt x.
  Proof. reflexivity. Qed.

  Lemma cnt_register_fresh r req p n v q : aget akey_eqb (adapters r) (map conv req, p, n) = None ->
    cnt_get (provided_cnt (register W r req p n (Some v))) q
    = cnt_get (provided_cnt r) q + if Nat.eqb p q then 1 else 0.
  Proof.
    intros E. pose proof (register_cases W r req p n v) as C; cbv zeta in C.
    destruct C as [[_ (old & E' & _)]|[C _]]; [congruence|]. rewrite C, provided_cnt_changed, cnt_provide_incr.
    cbn [provided_cnt set_ad]. destruct (Nat.eqb q p) eqn:Q.
    - apply Nat.eqb_eq in Q; subst. rewrite Nat.eqb_refl. lia.
    - rewrite Nat.eqb_sym, Q. lia.
  Qed.

  Lemma cnt_subscribe r req p v q :
    cnt_get (provided_cnt (subscribe W r req p v)) q
    = cnt_get (provided_cnt r) q + if ospec_eqb p (Some q) then 1 else 0.
  Proof.
    rewrite subscribe_form. cbv zeta. rewrite provided_cnt_changed. destruct p as [p'|]; cbn [ospec_eqb].
    - rewrite cnt_provide_incr. cbn [provided_cnt set_su]. destruct (Nat.eqb q p') eqn:Q.
      + apply Nat.eqb_eq in Q; subst. rewrite Nat.eqb_refl. lia.
      + rewrite Nat.eqb_sym, Q. lia.
    - cbn. lia.
  Qed.

  Lemma replay_regs_spec : forall regs acc,
    inv W acc -> NoDup (map fst regs) ->
    (forall k, In k (map fst regs) -> aget akey_eqb (adapters acc) k = None) ->
    inv W (replay_regs W acc regs)
    /\ (forall k, aget akey_eqb (adapters (replay_regs W acc regs)) k
                  = match aget akey_eqb regs k with Some v => Some v | None => aget akey_eqb (adapters acc) k end)
    /\ subscribers (replay_regs W acc regs) = subscribers acc
    /\ (forall q, cnt_get (provided_cnt (replay_regs W acc regs)) q
                  = cnt_get (provided_cnt acc) q + wsum (wa q) regs).
  Proof.
    induction regs as [|[[[req p] n] v] regs IH]; intros acc I ND F.
    - cbn. split; [auto|]. split; [auto|]. split; [auto|]. intros; lia.
    - inversion ND as [|? ? NI ND']; subst. unfold replay_regs. cbn [fold_left fst snd].
      set (acc1 := register W acc (map Some req) p n (Some v)).
      fold (replay_regs W acc1 regs).
      assert (K : forall k', aget akey_eqb (adapters acc1) k'
                             = if akey_eqb k' (req, p, n) then Some v else aget akey_eqb (adapters acc) k').
      { intros k'. subst acc1. rewrite adapters_register, map_conv_Some.
        rewrite (F (req, p, n)); [auto | cbn; auto]. }
      destruct (IH acc1) as (I' & A' & S' & C'); auto.
      { apply inv_register; auto. }
      { intros k H. rewrite K. destruct (akey_eqb k (req, p, n)) eqn:E.
        - apply akey_eqb_eq in E; subst. contradiction.
        - apply F; cbn; auto. }
      split; [auto|]. split; [|split].
      + intros k. rewrite A', K. cbn [aget]. destruct (akey_eqb k (req, p, n)) eqn:E; auto.
        apply akey_eqb_eq in E; subst k.
        assert (N : aget akey_eqb regs (req, p, n) = None) by (apply (aget_None_notin akey_eqb akey_eqb_eq); auto).
        rewrite N; auto.
      + rewrite S'. apply subscribers_register.
      + intros q. rewrite C'. subst acc1. rewrite cnt_register_fresh.
        * cbn [wsum]. change (wa q (req, p, n, v)) with (if Nat.eqb p q then 1 else 0). lia.
        * rewrite map_conv_Some. apply F; cbn; auto.
  Qed.

  Lemma replay_subs_spec : forall subs acc,
    inv W acc ->
    inv W (replay_subs W acc subs)
    /\ adapters (replay_subs W acc subs) = adapters acc
    /\ (forall k, sub_leaf (replay_subs W acc subs) k
                  = sub_leaf acc k ++ map snd (filter (fun kv => skey_eqb (fst kv) k) subs))
    /\ (forall q, cnt_get (provided_cnt (replay_subs W acc subs)) q
                  = cnt_get (provided_cnt acc) q
                    + length (filter (fun kv => ospec_eqb (sprov kv) (Some q)) subs)).
  Proof.
    induction subs as [|[[req p] v] subs IH]; intros acc I.
    - cbn. split; [auto|]. split; [auto|]. split; [intros k; rewrite app_nil_r; auto|]. intros; lia.
    - unfold replay_subs. cbn [fold_left fst snd].
      set (acc1 := subscribe W acc (map Some req) p v).
      fold (replay_subs W acc1 subs).
      destruct (IH acc1) as (I' & A' & L' & C'); [apply inv_subscribe; auto|].
      split; [auto|]. split; [|split].
      + rewrite A'. apply adapters_subscribe.
      + intros k. rewrite L'. subst acc1. rewrite leaf_subscribe, map_conv_Some. cbn [filter fst].
        destruct (skey_eqb k (req, p)) eqn:E.
        * apply skey_eqb_eq in E; subst k. rewrite (eqb_refl skey_eqb skey_eqb_eq). cbn [map snd].
          rewrite <- app_assoc. reflexivity.
        * destruct (skey_eqb (req, p) k) eqn:E'; auto.
          apply skey_eqb_eq in E'; subst k. rewrite (eqb_refl skey_eqb skey_eqb_eq) in E. discriminate.
      + intros q. rewrite C'. subst acc1. rewrite cnt_subscribe. cbn [filter].
        change (sprov (req, p, v)) with p. destruct (ospec_eqb p (Some q)); cbn [length]; lia.
  Qed.
End Replay.

(* ------------------------------------------------------------------ replay / rebuild preserve the maps *)
Definition storage_empty (r0 : reg) : Prop :=
  adapters r0 = [] /\ subscribers r0 = [] /\ provided_cnt r0 = [] /\ extendors r0 = [].

Section Main.
  Variable W : world.

  Lemma inv_storage_empty r0 : storage_empty r0 -> inv W r0.
  Proof.
    destruct r0 as [a s c e g]; unfold storage_empty; cbn. intros (-> & -> & -> & ->). apply inv_empty.
  Qed.

  Lemma replay_preserves_lemma r r0 regs subs :
    inv W r -> storage_empty r0 ->
    Permutation regs (allRegistrations r) -> Permutation subs (allSubscriptions r) ->
    (forall k, map snd (filter (fun kv => skey_eqb (fst kv) k) subs) = sub_leaf r k) ->
    inv W (replay_into W r0 regs subs)
    /\ (forall k, aget akey_eqb (adapters (replay_into W r0 regs subs)) k = aget akey_eqb (adapters r) k)
    /\ (forall k, sub_leaf (replay_into W r0 regs subs) k = sub_leaf r k)
    /\ (forall q, cnt_get (provided_cnt (replay_into W r0 regs subs)) q = live_count r q).
  Proof.
    intros [I G] E PR PS PK. pose proof (inv_storage_empty r0 E) as I0.
    destruct E as (Ea & Es & Ec & Ee).
    assert (NDr : NoDup (map fst regs)).
    { eapply Permutation_NoDup; [apply Permutation_map, Permutation_sym, PR | apply I]. }
    destruct (replay_regs_spec W regs r0 I0 NDr) as (I1 & A1 & S1 & C1).
    { intros k _. rewrite Ea; auto. }
    unfold replay_into. destruct (replay_subs_spec W subs (replay_regs W r0 regs) I1) as (I2 & A2 & L2 & C2).
    split; [auto|]. split; [|split].
    - intros k. rewrite A2, A1, Ea. cbn [aget].
      rewrite (perm_aget akey_eqb akey_eqb_eq (adapters r) regs k); [|apply I|exact PR].
      destruct (aget akey_eqb (adapters r) k); auto.
    - intros k. rewrite L2, PK. unfold sub_leaf at 1. rewrite S1, Es. reflexivity.
    - intros q. rewrite C2, C1, Ec. cbn [cnt_get aget]. unfold live_count.
      rewrite (wsum_perm (wa q) regs (allRegistrations r) PR).
      rewrite (Permutation_length (Permutation_filter _ _ _ PS)).
      rewrite (filter_length_wsum (fun kv : akey * value => Nat.eqb (aprov kv) q)). reflexivity.
  Qed.

  Lemma rebuild_is_replay r :
    rebuild W r = replay_into W (fresh_reg (generation r)) (allRegistrations r) (allSubscriptions r).
  Proof. reflexivity. Qed.

  Lemma rebuild_preserves_lemma r : inv W r ->
    inv W (rebuild W r)
    /\ (forall k, aget akey_eqb (adapters (rebuild W r)) k = aget akey_eqb (adapters r) k)
    /\ (forall k, sub_leaf (rebuild W r) k = sub_leaf r k)
    /\ (forall q, cnt_get (provided_cnt (rebuild W r)) q = live_count r q).
  Proof.
    intros I. rewrite rebuild_is_replay. apply replay_preserves_lemma; auto.
    - repeat split.
    - intros k. apply proj_allsubs. apply I.
  Qed.

  (* ---- every reachable registry satisfies the invariant *)
  Lemma inv_bstep r o : inv W r -> inv W (bstep W r o).
  Proof.
    intros I. destruct o; cbn [bstep].
    - apply inv_register; auto.
    - apply inv_unregister; auto.
    - apply inv_subscribe; auto.
    - apply inv_unsubscribe; auto.
    - apply rebuild_preserves_lemma; auto.
  Qed.

  Lemma brun_snoc ops o : brun W (ops ++ [o]) = bstep W (brun W ops) o.
  Proof. unfold brun. rewrite fold_left_app. reflexivity. Qed.

  Lemma inv_brun ops : inv W (brun W ops).
  Proof.
    induction ops as [|o ops IH] using rev_ind; [apply inv_empty|].
    rewrite brun_snoc. apply inv_bstep; auto.
  Qed.

  (* ---- refinement to the ledger *)
  Lemma aledger_snoc ops o : aledger (ops ++ [o]) = aled_step (aledger ops) o.
  Proof. unfold aledger. rewrite fold_left_app. reflexivity. Qed.
  Lemma sledger_snoc ops o : sledger (ops ++ [o]) = sled_step (sledger ops) o.
  Proof. unfold sledger. rewrite fold_left_app. reflexivity. Qed.

  Lemma avalues_app a b : avalues (a ++ b) = avalues a ++ avalues b.
  Proof. unfold avalues. apply flat_map_app. Qed.

  Lemma aledger_range ops : forall k x, aledger ops k = Some x -> In x (avalues ops).
  Proof.
    induction ops as [|o ops IH] using rev_ind; [discriminate|].
    intros k x. rewrite aledger_snoc, avalues_app, in_app_iff.
    destruct o as [req p n v|req p n v| | |]; cbn [aled_step]; try (intros H; left; eapply IH; exact H).
    - unfold aupd. destruct (akey_eqb k (akey_of req p n)); [|intros H; left; eapply IH; exact H].
      intros ->. right. cbn. auto.
    - destruct v as [v|].
      + destruct (aledger ops (akey_of req p n)) as [old|] eqn:E; [|intros H; left; eapply IH; exact H].
        destruct (v_is old v); [|intros H; left; eapply IH; exact H].
        unfold aupd. destruct (akey_eqb k (akey_of req p n)); [discriminate|intros H; left; eapply IH; exact H].
      + unfold aupd. destruct (akey_eqb k (akey_of req p n)); [discriminate|intros H; left; eapply IH; exact H].
  Qed.

  Lemma identity_ok_app_l a b : identity_ok (a ++ b) -> identity_ok a.
  Proof. intros H x y Hx Hy. apply H; apply in_app_iff; auto. Qed.

  Lemma registered_is_last_lemma ops : identity_ok (avalues ops) ->
    forall k, aget akey_eqb (adapters (brun W ops)) k = aledger ops k.
  Proof.
    induction ops as [|o ops IH] using rev_ind; [reflexivity|].
    intros ID k. rewrite avalues_app in ID. specialize (IH (identity_ok_app_l _ _ ID)).
    rewrite brun_snoc, aledger_snoc. pose proof (inv_brun ops) as I.
    destruct o as [req p n v|req p n v|req p v|req p v|]; cbn [bstep aled_step].
    - destruct v as [v|].
      + rewrite adapters_register. unfold aupd, akey_of.
        destruct (akey_eqb k (map conv req, p, n)) eqn:K; [|apply IH].
        destruct (aget akey_eqb (adapters (brun W ops)) (map conv req, p, n)) as [old|] eqn:E; auto.
        destruct (v_is old v) eqn:V; auto.
        f_equal. apply ID.
        * apply in_app_iff; left. rewrite IH in E. eapply aledger_range; eauto.
        * apply in_app_iff; right. cbn; auto.
        * apply Nat.eqb_eq; auto.
      + unfold register. rewrite adapters_unregister; [|apply I]. unfold aupd, akey_of.
        destruct (akey_eqb k (map conv req, p, n)) eqn:K; [|apply IH].
        destruct (aget akey_eqb (adapters (brun W ops)) (map conv req, p, n)); auto.
    - rewrite adapters_unregister; [|apply I]. unfold akey_of. rewrite <- IH.
      destruct v as [v|].
      + destruct (aget akey_eqb (adapters (brun W ops)) (map conv req, p, n)) as [old|] eqn:E.
        * cbn [removes]. destruct (v_is old v); unfold aupd.
          -- destruct (akey_eqb k (map conv req, p, n)); auto.
          -- destruct (akey_eqb k (map conv req, p, n)) eqn:K; auto. apply akey_eqb_eq in K; subst k. rewrite IH in E. rewrite E; auto.
        * destruct (akey_eqb k (map conv req, p, n)) eqn:K; auto. apply akey_eqb_eq in K; subst k. rewrite IH in E. rewrite E; auto.
      + unfold aupd. destruct (akey_eqb k (map conv req, p, n)); auto.
        destruct (aget akey_eqb (adapters (brun W ops)) (map conv req, p, n)); auto.
    - rewrite adapters_subscribe; auto.
    - rewrite adapters_unsubscribe; auto.
    - destruct (rebuild_preserves_lemma (brun W ops) I) as (_ & A & _). rewrite A; auto.
  Qed.

  Lemma sub_leaf_register r req p n v k : sub_leaf (register W r req p n v) k = sub_leaf r k.
  Proof. apply sub_leaf_ext, subscribers_register. Qed.
  Lemma sub_leaf_unregister r req p n v k : sub_leaf (unregister W r req p n v) k = sub_leaf r k.
  Proof. apply sub_leaf_ext, subscribers_unregister. Qed.

  Lemma sub_leaf_is_ledger ops : forall k, sub_leaf (brun W ops) k = sledger ops k.
  Proof.
    induction ops as [|o ops IH] using rev_ind; [reflexivity|].
    intros k. rewrite brun_snoc, sledger_snoc. pose proof (inv_brun ops) as I.
    destruct o as [req p n v|req p n v|req p v|req p v|]; cbn [bstep sled_step].
    - rewrite sub_leaf_register; auto.
    - rewrite sub_leaf_unregister; auto.
    - rewrite leaf_subscribe. unfold supd, skey_of. rewrite !IH. reflexivity.
    - rewrite leaf_unsubscribe; [|apply I]. unfold supd, skey_of. rewrite !IH.
      destruct v; reflexivity.
    - destruct (rebuild_preserves_lemma (brun W ops) I) as (_ & _ & L & _). rewrite L; auto.
  Qed.
End Main.

(* ------------------------------------------------------------------ unambiguous lookups coincide *)
Lemma first_some_ext_in {A B} (f g : A -> option B) l :
  (forall x, In x l -> f x = g x) -> first_some f l = first_some g l.
Proof.
  induction l as [|x l IH]; cbn; auto. intros H. rewrite (H x); auto.
  destruct (g x); auto.
Qed.

Lemma first_some_None_all {A B} (f : A -> option B) l :
  first_some f l = None <-> forall x, In x l -> f x = None.
Proof.
  induction l as [|x l IH]; cbn; [tauto|].
  destruct (f x) eqn:E.
  - split; [discriminate | intros H; rewrite <- E; auto].
  - rewrite IH. split; [intros H y [<-|Hy]; auto | auto].
Qed.

Lemma first_some_Some_In {A B} (f : A -> option B) l v :
  first_some f l = Some v -> exists x, In x l /\ f x = Some v.
Proof.
  induction l as [|x l IH]; cbn; [discriminate|].
  destruct (f x) eqn:E.
  - intros [= ->]. exists x; auto.
  - intros H. destruct (IH H) as (y & Hy & Fy). exists y; auto.
Qed.

Lemma first_some_unique {A B} (f : A -> option B) l x v :
  In x l -> f x = Some v -> (forall y, In y l -> f y <> None -> y = x) -> first_some f l = Some v.
Proof.
  induction l as [|y l IH]; cbn; [tauto|].
  intros Hx Fx U. destruct (f y) eqn:E.
  - assert (y = x) by (apply U; auto; congruence). subst y. congruence.
  - destruct Hx as [->|Hx]; [congruence|]. apply IH; auto.
Qed.

Lemma In_le_wsum {K V} (w : K * V -> nat) l x : In x l -> w x <= wsum w l.
Proof. induction l as [|y l IH]; cbn; [tauto|]. intros [->|H]; [lia | specialize (IH H); lia]. Qed.

Section Lookups.
  Variable W : world.

  Lemma lookup_walk_ext m1 m2 exts1 exts2 n : forall specs prefix,
    (forall xs, Forall2 (fun x s => In x (w_sro W s)) xs specs ->
                first_some (fun e => aget akey_eqb m1 (prefix ++ xs, e, n)) exts1
                = first_some (fun e => aget akey_eqb m2 (prefix ++ xs, e, n)) exts2) ->
    lookup_walk W m1 prefix specs exts1 n = lookup_walk W m2 prefix specs exts2 n.
  Proof.
    induction specs as [|s specs IH]; intros prefix H; cbn [lookup_walk].
    - specialize (H [] (Forall2_nil _)). rewrite app_nil_r in H. exact H.
    - apply first_some_ext_in. intros x Hx. apply IH. intros xs Hxs.
      rewrite <- !app_assoc. cbn [app]. apply (H (x :: xs)). constructor; auto.
  Qed.

  Lemma lookup_walk_nil m n : forall specs prefix, lookup_walk W m prefix specs [] n = None.
  Proof.
    induction specs as [|s specs IH]; intros prefix; cbn [lookup_walk]; auto.
    apply first_some_None_all. intros x _. apply IH.
  Qed.

  Definition lookup_in (r : reg) (required : list spec) (p : spec) (n : name) : option value :=
    lookup_walk W (adapters r) [] required (ext_get (extendors r) p) n.

  Lemma uncached_lookup_first ro required p n :
    uncached_lookup W ro required p n = first_some (fun r => lookup_in r required p n) ro.
  Proof.
    unfold uncached_lookup. apply first_some_ext_in. intros r _. unfold lookup_in.
    destruct (ext_get (extendors r) p) eqn:E; auto. symmetry. apply lookup_walk_nil.
  Qed.

  (* a live entry keeps its provided interface in the extendors of everything it extends *)
  Lemma live_entry_in_extendors r prefix e n v i : inv W r ->
    aget akey_eqb (adapters r) (prefix, e, n) = Some v -> In i (iro W e) -> In e (ext_get (extendors r) i).
  Proof.
    intros [I G] A Hi. apply (inv_ex W r I). split; auto.
    specialize (G e). unfold live in G.
    apply (aget_Some_In akey_eqb akey_eqb_eq) in A.
    pose proof (In_le_wsum (wa e) _ _ A) as H. unfold wa at 1 in H. cbn in H. rewrite Nat.eqb_refl in H. lia.
  Qed.

  Lemma extendor_sound r i e : inv W r -> In e (ext_get (extendors r) i) -> In i (iro W e).
  Proof. intros [I _] H. apply (inv_ex W r I) in H. tauto. Qed.

  Lemma lookup_in_coincides r r' required p n :
    inv W r -> inv W r' ->
    (forall k, aget akey_eqb (adapters r') k = aget akey_eqb (adapters r) k) ->
    unamb_lookup W (fun k => aget akey_eqb (adapters r) k) required p n ->
    lookup_in r' required p n = lookup_in r required p n.
  Proof.
    intros I I' A U. unfold lookup_in. apply lookup_walk_ext. intros xs Hxs. cbn [app].
    set (f' := fun e => aget akey_eqb (adapters r') (xs, e, n)).
    set (f := fun e => aget akey_eqb (adapters r) (xs, e, n)).
    assert (FF : forall e, f' e = f e) by (intros e; apply A).
    destruct (first_some f (ext_get (extendors r) p)) as [v|] eqn:E.
    - apply first_some_Some_In in E. destruct E as (e & He & Fe).
      assert (Pe : In p (iro W e)) by (apply (extendor_sound r p e I He)).
      apply first_some_unique with (x := e).
      + apply (live_entry_in_extendors r' xs e n v p I'); auto. rewrite A. exact Fe.
      + rewrite FF; auto.
      + intros y Hy Fy. rewrite FF in Fy. apply (U xs y e); auto.
        * apply (extendor_sound r' p y I' Hy).
        * unfold f in Fe. congruence.
    - apply first_some_None_all. intros y Hy. rewrite FF.
      destruct (f y) as [w|] eqn:Fy; auto. exfalso.
      assert (Py : In p (iro W y)) by (apply (extendor_sound r' p y I' Hy)).
      assert (In y (ext_get (extendors r) p)) by (apply (live_entry_in_extendors r xs y n w p I); auto).
      pose proof (proj1 (first_some_None_all f _) E y H). congruence.
  Qed.

  Lemma unambiguous_lookup_coincides_lemma ro ro' required p n :
    Forall2 (fun r r' => inv W r /\ inv W r'
                         /\ (forall k, aget akey_eqb (adapters r') k = aget akey_eqb (adapters r) k)
                         /\ unamb_lookup W (fun k => aget akey_eqb (adapters r) k) required p n) ro ro' ->
    uncached_lookup W ro' required p n = uncached_lookup W ro required p n.
  Proof.
    rewrite !uncached_lookup_first. induction 1 as [|r r' ro ro' (I & I' & A & U) _ IH]; cbn; auto.
    rewrite (lookup_in_coincides r r'); auto. rewrite IH; auto.
  Qed.
End Lookups.

(* ------------------------------------------------------------------ extendors lists have no duplicates *)
Definition world_ok (W : world) : Prop := forall x, NoDup (w_sro W x).
Definition nd (r : reg) : Prop := forall i, NoDup (ext_get (extendors r) i).

Lemma perm_partition {A} (f : A -> bool) (l : list A) :
  Permutation (filter f l ++ filter (fun x => negb (f x)) l) l.
Proof.
  induction l as [|x l IH]; cbn; auto.
  destruct (f x); cbn; [constructor; auto|].
  eapply perm_trans; [apply Permutation_sym, Permutation_middle|]. constructor; auto.
Qed.

Section NoDupExt.
  Variable W : world.
  Hypothesis WOK : world_ok W.

  Lemma NoDup_iro p : NoDup (iro W p).
  Proof. unfold iro. apply NoDup_filter, WOK. Qed.

  Lemma NoDup_ins_ext p old : NoDup old -> ~ In p old -> NoDup (ins_ext W p old).
  Proof.
    intros ND NI. unfold ins_ext.
    apply (Permutation_NoDup (l := p :: old)); [|constructor; auto].
    eapply perm_trans; [|apply Permutation_middle]. constructor.
    apply Permutation_sym, (perm_partition (fun x => isOrExtends W p x)).
  Qed.

  Lemma fold_ins_nodup p l : forall e, NoDup l ->
    (forall j, NoDup (ext_get e j)) -> (forall j, In j l -> ~ In p (ext_get e j)) ->
    forall j, NoDup (ext_get (fold_left (fun e i => aset Nat.eqb e i (ins_ext W p (ext_get e i))) l e) j).
  Proof.
    induction l as [|i l IH]; intros e NDl ND NI j; cbn [fold_left]; auto.
    inversion NDl; subst. apply IH; auto.
    - intros j'. rewrite ext_get_aset. destruct (Nat.eqb j' i); auto.
      apply NoDup_ins_ext; auto. apply NI; cbn; auto.
    - intros j' Hj'. rewrite ext_get_aset. destruct (Nat.eqb j' i) eqn:E.
      + apply Nat.eqb_eq in E; subst. contradiction.
      + apply NI; cbn; auto.
  Qed.

  Lemma fold_del_nodup p l : forall e,
    (forall j, NoDup (ext_get e j)) ->
    forall j, NoDup (ext_get (fold_left (fun e i => aset Nat.eqb e i (del_ext p (ext_get e i))) l e) j).
  Proof.
    induction l as [|i l IH]; intros e ND j; cbn [fold_left]; auto.
    apply IH. intros j'. rewrite ext_get_aset. destruct (Nat.eqb j' i); auto.
    apply NoDup_filter; auto.
  Qed.

  Lemma nd_incr r p : ext_inv W (provided_cnt r) (extendors r) -> nd r -> nd (provide_incr W r p).
  Proof.
    intros I ND. unfold nd, provide_incr; cbn [extendors].
    destruct (Nat.eqb (S (cnt_get (provided_cnt r) p)) 1) eqn:E; auto.
    apply Nat.eqb_eq in E. intros j.
    apply (fold_ins_nodup p (iro W p)); auto; [apply NoDup_iro|].
    intros j' _ H. apply (I j' p) in H. lia.
  Qed.

  Lemma nd_decr r p k : nd r -> nd (provide_decr W r p k).
  Proof.
    intros ND. unfold nd, provide_decr.
    destruct (Nat.eqb (cnt_get (provided_cnt r) p - k) 0); cbn [extendors]; auto.
    intros j. apply (fold_del_nodup p (iro W p)); auto.
  Qed.

  Definition inv2 (r : reg) : Prop := inv W r /\ nd r.

  Lemma inv2_unregister r req p n v : inv2 r -> inv2 (unregister W r req p n v).
  Proof.
    intros [I N]. split; [apply inv_unregister; auto|].
    pose proof (unregister_cases W r req p n v) as C; cbv zeta in C.
    destruct C as [[C _]|[C _]]; rewrite C; auto.
    apply (nd_decr (set_ad r _)). exact N.
  Qed.

  Lemma inv2_register r req p n v : inv2 r -> inv2 (register W r req p n v).
  Proof.
    destruct v as [v'|]; [|apply inv2_unregister].
    intros [I N]. split; [apply inv_register; auto|].
    pose proof (register_cases W r req p n v') as C; cbv zeta in C.
    destruct C as [[C _]|[C _]]; rewrite C; auto.
    apply (nd_incr (set_ad r _)); [apply I | exact N].
  Qed.

  Lemma inv2_subscribe r req p v : inv2 r -> inv2 (subscribe W r req p v).
  Proof.
    intros [I N]. split; [apply inv_subscribe; auto|].
    rewrite subscribe_form; cbv zeta. destruct p as [p'|]; [|exact N].
    apply (nd_incr (set_su r _)); [apply I | exact N].
  Qed.

  Lemma inv2_unsubscribe r req p v : inv2 r -> inv2 (unsubscribe W r req p v).
  Proof.
    intros [I N]. split; [apply inv_unsubscribe; auto|].
    pose proof (unsubscribe_cases W r req p v) as C; cbv zeta in C.
    destruct C as [[C _]|[_ C]]; rewrite C; auto.
    destruct p as [p'|]; [|exact N]. apply (nd_decr (set_su r _)). exact N.
  Qed.

  Lemma inv2_replay_regs regs : forall acc, inv2 acc -> inv2 (replay_regs W acc regs).
  Proof.
    induction regs as [|[[[req p] n] v] regs IH]; intros acc I; auto.
    unfold replay_regs. cbn [fold_left fst snd]. apply IH. apply inv2_register; auto.
  Qed.

  Lemma inv2_replay_subs subs : forall acc, inv2 acc -> inv2 (replay_subs W acc subs).
  Proof.
    induction subs as [|[[req p] v] subs IH]; intros acc I; auto.
    unfold replay_subs. cbn [fold_left fst snd]. apply IH. apply inv2_subscribe; auto.
  Qed.

  Lemma inv2_replay r0 regs subs : storage_empty r0 -> inv2 (replay_into W r0 regs subs).
  Proof.
    intros E. apply inv2_replay_subs, inv2_replay_regs. split; [apply inv_storage_empty; auto|].
    destruct E as (_ & _ & _ & E). intros i. rewrite E. constructor.
  Qed.

  Lemma inv2_brun ops : inv2 (brun W ops).
  Proof.
    induction ops as [|o ops IH] using rev_ind.
    - split; [apply inv_empty | intros i; constructor].
    - rewrite brun_snoc. destruct o; cbn [bstep].
      + apply inv2_register; auto.
      + apply inv2_unregister; auto.
      + apply inv2_subscribe; auto.
      + apply inv2_unsubscribe; auto.
      + rewrite rebuild_is_replay. apply inv2_replay. repeat split.
  Qed.
End NoDupExt.

(* ------------------------------------------------------------------ unambiguous subscriptions coincide *)
Lemma flat_map_ext_in' {A B} (f g : A -> list B) l :
  (forall x, In x l -> f x = g x) -> flat_map f l = flat_map g l.
Proof. induction l as [|x l IH]; cbn; auto. intros H. rewrite (H x), IH; auto. Qed.

Lemma flat_map_map' {A B C} (f : B -> list C) (h : A -> B) l :
  flat_map f (map h l) = flat_map (fun x => f (h x)) l.
Proof. induction l as [|x l IH]; cbn; auto. rewrite IH; auto. Qed.

Lemma flat_map_all_nil {A B} (f : A -> list B) l : (forall y, In y l -> f y = []) -> flat_map f l = [].
Proof. induction l as [|x l IH]; cbn; auto. intros H. rewrite (H x), IH; auto. Qed.

Lemma flat_map_single {A B} (f : A -> list B) l x :
  NoDup l -> In x l -> (forall y, In y l -> y <> x -> f y = []) -> flat_map f l = f x.
Proof.
  induction l as [|y l IH]; cbn; [tauto|].
  intros ND Hx H. inversion ND; subst. destruct Hx as [->|Hx].
  - rewrite flat_map_all_nil; [apply app_nil_r|]. intros z Hz. apply H; auto. intros ->. contradiction.
  - assert (E : f y = []) by (apply H; auto; intros ->; contradiction).
    rewrite E. cbn. apply IH; auto.
Qed.

Lemma all_nil_or_witness {A B} (f : A -> list B) l :
  (forall y, In y l -> f y = []) \/ exists x, In x l /\ f x <> [].
Proof.
  induction l as [|x l [IH|(z & Hz & Fz)]]; [left; cbn; tauto| |right; exists z; cbn; auto].
  destruct (f x) eqn:E.
  - left. intros y [<-|Hy]; auto.
  - right. exists x. cbn. split; auto. congruence.
Qed.

Lemma flat_map_rev_Forall2 {A A' B} (P : A -> A' -> Prop) (f : A -> list B) (g : A' -> list B) l l' :
  Forall2 P l l' -> (forall a b, P a b -> f a = g b) -> flat_map f (rev l) = flat_map g (rev l').
Proof.
  intros F H. induction F as [|a b l l' Pab _ IH]; cbn; auto.
  rewrite !flat_map_app, IH. cbn. rewrite (H a b Pab). reflexivity.
Qed.

Section Subs.
  Variable W : world.

  Definition leaf (m : list (skey * list value)) (prefix : list spec) (e : option spec) : list value :=
    match aget skey_eqb m (prefix, e) with Some l => l | None => [] end.

  Lemma subs_walk_ext m1 m2 exts1 exts2 : forall specs prefix,
    (forall xs, Forall2 (fun x s => In x (w_sro W s)) xs specs ->
                flat_map (leaf m1 (prefix ++ xs)) (rev exts1) = flat_map (leaf m2 (prefix ++ xs)) (rev exts2)) ->
    subs_walk W m1 prefix specs exts1 = subs_walk W m2 prefix specs exts2.
  Proof.
    induction specs as [|s specs IH]; intros prefix H; cbn [subs_walk].
    - specialize (H [] (Forall2_nil _)). rewrite app_nil_r in H. exact H.
    - apply flat_map_ext_in'. intros x Hx. apply IH. intros xs Hxs.
      rewrite <- !app_assoc. cbn [app]. apply (H (x :: xs)). constructor; auto.
      apply in_rev; auto.
  Qed.

  Lemma subs_walk_nil m : forall specs prefix, subs_walk W m prefix specs [] = [].
  Proof.
    induction specs as [|s specs IH]; intros prefix; cbn [subs_walk]; auto.
    apply flat_map_all_nil. intros x _. apply IH.
  Qed.

  Definition subs_in (r : reg) (required : list spec) (p : option spec) : list value :=
    match p with
    | None => subs_walk W (subscribers r) [] required [None]
    | Some p' => subs_walk W (subscribers r) [] required (map Some (ext_get (extendors r) p'))
    end.

  Lemma uncached_subscriptions_flat ro required p :
    uncached_subscriptions W ro required p = flat_map (fun r => subs_in r required p) (rev ro).
  Proof.
    unfold uncached_subscriptions. apply flat_map_ext_in'. intros r _. unfold subs_in.
    destruct p as [p'|]; auto. unfold ext_get.
    destruct (aget Nat.eqb (extendors r) p'); auto. cbn [map]. symmetry. apply subs_walk_nil.
  Qed.

  Lemma live_sub_in_extendors r prefix e i : inv W r ->
    sub_leaf r (prefix, Some e) <> [] -> In i (iro W e) -> In e (ext_get (extendors r) i).
  Proof.
    intros [I G] A Hi. apply (inv_ex W r I). split; auto.
    specialize (G e). unfold live in G.
    apply (sub_leaf_aget r) in A. apply (aget_Some_In skey_eqb skey_eqb_eq) in A.
    pose proof (In_le_wsum (ws e) _ _ A) as H. unfold ws at 1 in H. cbn [fst snd] in H.
    cbn [ospec_eqb] in H. rewrite Nat.eqb_refl in H.
    destruct (sub_leaf r (prefix, Some e)) eqn:E; [|cbn in H; lia].
    unfold sub_leaf in E. apply (In_aget skey_eqb skey_eqb_eq) in A; [|apply I]. rewrite A in E.
    exfalso. eapply (inv_ne W r I); [eapply (aget_Some_In skey_eqb skey_eqb_eq); eauto | auto].
  Qed.

  Lemma subs_in_coincides r r' required p :
    inv W r -> nd r -> inv W r' -> nd r' ->
    (forall k, sub_leaf r' k = sub_leaf r k) ->
    match p with Some p' => unamb_subs W (fun k => sub_leaf r k) required p' | None => True end ->
    subs_in r' required p = subs_in r required p.
  Proof.
    intros I N I' N' A U. unfold subs_in. destruct p as [p'|].
    - apply subs_walk_ext. intros xs Hxs. cbn [app].
      rewrite <- !map_rev, !flat_map_map'.
      set (g' := fun e => leaf (subscribers r') xs (Some e)). set (g := fun e => leaf (subscribers r) xs (Some e)).
      assert (GG : forall e, g' e = g e) by (intros e; apply (A (xs, Some e))).
      assert (GL : forall e, g e = sub_leaf r (xs, Some e)) by reflexivity.
      destruct (all_nil_or_witness g (rev (ext_get (extendors r) p'))) as [AN|(e & He & Fe)].
      + rewrite (flat_map_all_nil g _ AN). apply flat_map_all_nil. intros y Hy. rewrite GG.
        destruct (g y) eqn:Gy; auto. exfalso.
        rewrite <- in_rev in Hy. pose proof (extendor_sound W r' p' y I' Hy) as Py.
        assert (Hy2 : In y (ext_get (extendors r) p')).
        { apply (live_sub_in_extendors r xs y p' I); auto. rewrite <- GL, Gy. discriminate. }
        rewrite (AN y) in Gy; [discriminate | rewrite <- in_rev; auto].
      + rewrite <- in_rev in He. pose proof (extendor_sound W r p' e I He) as Pe.
        assert (He' : In e (ext_get (extendors r') p')).
        { apply (live_sub_in_extendors r' xs e p' I'); auto. rewrite A, <- GL; auto. }
        assert (S1 : flat_map g (rev (ext_get (extendors r) p')) = g e).
        { apply flat_map_single; [apply NoDup_rev, N | rewrite <- in_rev; auto |].
          intros y Hy Ny. destruct (g y) eqn:Gy; auto. exfalso. apply Ny.
          rewrite <- in_rev in Hy.
          apply (U xs y e Hxs (extendor_sound W r p' y I Hy) Pe); [rewrite <- GL, Gy; discriminate | rewrite <- GL; exact Fe]. }
        assert (S2 : flat_map g' (rev (ext_get (extendors r') p')) = g' e).
        { apply flat_map_single; [apply NoDup_rev, N' | rewrite <- in_rev; auto |].
          intros y Hy Ny. rewrite GG. destruct (g y) eqn:Gy; auto. exfalso. apply Ny.
          rewrite <- in_rev in Hy.
          apply (U xs y e Hxs (extendor_sound W r' p' y I' Hy) Pe); [rewrite <- GL, Gy; discriminate | rewrite <- GL; exact Fe]. }
        rewrite S1, S2, GG. reflexivity.
    - apply subs_walk_ext. intros xs _. cbn. rewrite !app_nil_r. apply (A (xs, None)).
  Qed.

  Lemma unambiguous_subscriptions_coincide_lemma ro ro' required p :
    Forall2 (fun r r' => inv W r /\ nd r /\ inv W r' /\ nd r'
                         /\ (forall k, sub_leaf r' k = sub_leaf r k)
                         /\ match p with Some p' => unamb_subs W (fun k => sub_leaf r k) required p' | None => True end)
            ro ro' ->
    uncached_subscriptions W ro' required p = uncached_subscriptions W ro required p.
  Proof.
    intros F. rewrite !uncached_subscriptions_flat. symmetry.
    eapply flat_map_rev_Forall2; [exact F|].
    intros r r' (I & N & I' & N' & A & U). symmetry. apply subs_in_coincides; auto.
  Qed.
End Subs.

(* ------------------------------------------------------------------ statements assembled for Properties/C09.v *)
Lemma aled_step_untouched m o k : touches_a k o = false -> aled_step m o k = m k.
Proof.
  destruct o as [req p n v|req p n v| | |]; cbn [touches_a aled_step]; auto; intros T.
  - unfold aupd. rewrite T; auto.
  - destruct v as [v|]; [|unfold aupd; rewrite T; auto].
    destruct (m (akey_of req p n)) as [old|]; auto.
    destruct (v_is old v); auto. unfold aupd. rewrite T; auto.
Qed.

Lemma ledger_last_write_wins_lemma ops ops' req p n v :
  forallb (fun o => negb (touches_a (akey_of req p n) o)) ops' = true ->
  aledger (ops ++ BRegister req p n v :: ops') (akey_of req p n) = v.
Proof.
  unfold aledger. rewrite fold_left_app. cbn [fold_left].
  generalize (fold_left aled_step ops (fun _ : akey => None)). intros m0.
  assert (G : forall m, forallb (fun o => negb (touches_a (akey_of req p n) o)) ops' = true ->
                        fold_left aled_step ops' m (akey_of req p n) = m (akey_of req p n)).
  { induction ops' as [|o ops' IH]; intros m; cbn [fold_left forallb]; auto.
    rewrite andb_true_iff, negb_true_iff. intros [T R]. rewrite IH; auto. apply aled_step_untouched; auto. }
  intros H. rewrite G; auto. cbn [aled_step]. unfold aupd. rewrite (eqb_refl akey_eqb akey_eqb_eq). reflexivity.
Qed.

Lemma unamb_lookup_ext W m m' required p n :
  (forall k, m k = m' k) -> unamb_lookup W m required p n -> unamb_lookup W m' required p n.
Proof. intros E U prefix e1 e2 H1 H2 H3 H4 H5. apply (U prefix e1 e2); auto; rewrite E; auto. Qed.

Lemma unamb_subs_ext W m m' required p :
  (forall k, m k = m' k) -> unamb_subs W m required p -> unamb_subs W m' required p.
Proof. intros E U prefix e1 e2 H1 H2 H3 H4 H5. apply (U prefix e1 e2); auto; rewrite E; auto. Qed.

Section Corollaries.
  Variable W : world.

  Lemma replay_answers_lemma ops r0 regs subs required :
    identity_ok (avalues ops) -> storage_empty r0 ->
    Permutation regs (allRegistrations (brun W ops)) -> Permutation subs (allSubscriptions (brun W ops)) ->
    (forall k, map snd (filter (fun kv => skey_eqb (fst kv) k) subs) = sub_leaf (brun W ops) k) ->
    (forall p n, unamb_lookup W (aledger ops) required p n ->
       uncached_lookup W [replay_into W r0 regs subs] required p n = uncached_lookup W [brun W ops] required p n)
    /\ (world_ok W -> forall p,
          match p with Some p' => unamb_subs W (sledger ops) required p' | None => True end ->
          uncached_subscriptions W [replay_into W r0 regs subs] required p
          = uncached_subscriptions W [brun W ops] required p).
  Proof.
    intros ID E PR PS PK. pose proof (inv_brun W ops) as I.
    destruct (replay_preserves_lemma W (brun W ops) r0 regs subs I E PR PS PK) as (I' & A & L & _).
    split.
    - intros p n U. apply unambiguous_lookup_coincides_lemma. constructor; [|constructor].
      split; [auto|]. split; [auto|]. split; [auto|]. eapply unamb_lookup_ext; [|exact U].
      intros k. symmetry. apply registered_is_last_lemma; auto.
    - intros WOK p U. apply unambiguous_subscriptions_coincide_lemma. constructor; [|constructor].
      split; [auto|]. split; [apply (inv2_brun W WOK ops)|]. split; [auto|].
      split; [apply (inv2_replay W WOK r0 regs subs E)|]. split; [auto|].
      destruct p as [p'|]; auto. eapply unamb_subs_ext; [|exact U].
      intros k. symmetry. apply sub_leaf_is_ledger.
  Qed.

  Lemma rebuild_answers_lemma ops required :
    identity_ok (avalues ops) ->
    (forall p n, unamb_lookup W (aledger ops) required p n ->
       uncached_lookup W [rebuild W (brun W ops)] required p n = uncached_lookup W [brun W ops] required p n)
    /\ (world_ok W -> forall p,
          match p with Some p' => unamb_subs W (sledger ops) required p' | None => True end ->
          uncached_subscriptions W [rebuild W (brun W ops)] required p
          = uncached_subscriptions W [brun W ops] required p).
  Proof.
    intros ID. rewrite rebuild_is_replay. apply replay_answers_lemma; auto.
    - repeat split.
    - intros k. apply proj_allsubs. apply (inv_brun W ops).
  Qed.
End Corollaries.
