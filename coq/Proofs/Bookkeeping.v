(* Proofs for C09: the registry's bookkeeping (Model/Adapter.v via Model/Bookkeeping.v) refines the
   abstract ledger of Spec/Bookkeeping.v for ALL histories; rebuild()/replay preserve it. *)
From Coq Require Import List Arith Bool Lia Permutation.
Import ListNotations.
From ZI Require Import Model.Ro Model.Adapter Model.Bookkeeping Spec.Bookkeeping.

(* ------------------------------------------------------------------ boolean equalities *)
Lemma lspec_eqb_eq a b : lspec_eqb a b = true <-> a = b.
Proof.
  revert b; induction a as [|x a IH]; intros [|y b]; cbn; try (split; congruence).
  fold (lspec_eqb a b). rewrite andb_true_iff, Nat.eqb_eq, IH.
  split; [intros [-> ->]; auto | intros E; inversion E; auto].
Qed.

Lemma akey_eqb_eq k1 k2 : akey_eqb k1 k2 = true <-> k1 = k2.
Proof.
  destruct k1 as [[r1 p1] n1], k2 as [[r2 p2] n2]; cbn.
  rewrite !andb_true_iff, lspec_eqb_eq, !Nat.eqb_eq.
  split; [intros [[-> ->] ->]; auto | intros E; inversion E; auto].
Qed.

Lemma ospec_eqb_eq a b : ospec_eqb a b = true <-> a = b.
Proof.
  destruct a, b; cbn; try (split; congruence).
  rewrite Nat.eqb_eq. split; congruence.
Qed.

Lemma skey_eqb_eq k1 k2 : skey_eqb k1 k2 = true <-> k1 = k2.
Proof.
  destruct k1 as [r1 p1], k2 as [r2 p2]; unfold skey_eqb; cbn.
  rewrite andb_true_iff, lspec_eqb_eq, ospec_eqb_eq.
  split; [intros [-> ->]; auto | intros E; inversion E; auto].
Qed.

Lemma mem_In x l : mem x l = true <-> In x l.
Proof.
  induction l as [|y l IH]; cbn; [split; [discriminate|tauto]|].
  rewrite orb_true_iff, Nat.eqb_eq, IH. split; intros [H|H]; auto.
Qed.

Lemma map_conv_Some l : map conv (map Some l) = l.
Proof. induction l; cbn; congruence. Qed.

(* ------------------------------------------------------------------ association lists *)
Section AssocFacts.
  Context {K V : Type} (eqb : K -> K -> bool).
  Hypothesis eqb_eq : forall a b, eqb a b = true <-> a = b.

  Lemma eqb_refl k : eqb k k = true.
  Proof. apply eqb_eq; auto. Qed.

  Lemma eqb_neq a b : a <> b -> eqb a b = false.
  Proof. intros H. destruct (eqb a b) eqn:E; auto. apply eqb_eq in E. contradiction. Qed.

  Lemma eqb_dec (a b : K) : {a = b} + {a <> b}.
  Proof.
    destruct (eqb a b) eqn:E; [left; apply eqb_eq; auto | right; intros ->; rewrite eqb_refl in E; discriminate].
  Qed.

  Lemma aget_aset_same (m : list (K * V)) k v : aget eqb (aset eqb m k v) k = Some v.
  Proof.
    induction m as [|[k' v'] m IH]; cbn; [rewrite eqb_refl; auto|].
    destruct (eqb k k') eqn:E; cbn; rewrite E; auto.
  Qed.

  Lemma aget_aset_other (m : list (K * V)) k v k' : k' <> k -> aget eqb (aset eqb m k v) k' = aget eqb m k'.
  Proof.
    intros N. induction m as [|[k0 v0] m IH]; cbn; [rewrite eqb_neq; auto|].
    destruct (eqb k k0) eqn:E; cbn.
    - apply eqb_eq in E; subst k0. rewrite eqb_neq; auto.
    - destruct (eqb k' k0); auto.
  Qed.

  Lemma aget_adel_other (m : list (K * V)) k k' : k' <> k -> aget eqb (adel eqb m k) k' = aget eqb m k'.
  Proof.
    intros N. induction m as [|[k0 v0] m IH]; cbn; auto.
    destruct (eqb k k0) eqn:E; cbn.
    - apply eqb_eq in E; subst k0. rewrite eqb_neq; auto.
    - destruct (eqb k' k0); auto.
  Qed.

  Lemma aget_None_notin (m : list (K * V)) k : aget eqb m k = None <-> ~ In k (map fst m).
  Proof.
    induction m as [|[k0 v0] m IH]; cbn; [tauto|].
    destruct (eqb k k0) eqn:E.
    - apply eqb_eq in E; subst. split; [discriminate | intros H; exfalso; apply H; auto].
    - rewrite IH. split; [intros H [H'|H']; [subst; rewrite eqb_refl in E; discriminate | auto] | tauto].
  Qed.

  Lemma aget_Some_In (m : list (K * V)) k v : aget eqb m k = Some v -> In (k, v) m.
  Proof.
    induction m as [|[k0 v0] m IH]; cbn; [discriminate|].
    destruct (eqb k k0) eqn:E; [apply eqb_eq in E; subst; intros [= ->]; auto | auto].
  Qed.

  Lemma In_aget (m : list (K * V)) k v : NoDup (map fst m) -> In (k, v) m -> aget eqb m k = Some v.
  Proof.
    induction m as [|[k0 v0] m IH]; cbn; [tauto|].
    intros ND [H|H]; inversion ND; subst.
    - inversion H; subst. rewrite eqb_refl; auto.
    - destruct (eqb k k0) eqn:E; auto. apply eqb_eq in E; subst.
      exfalso. apply H2. apply (in_map fst) in H; auto.
  Qed.

  Lemma aget_adel_same (m : list (K * V)) k : NoDup (map fst m) -> aget eqb (adel eqb m k) k = None.
  Proof.
    induction m as [|[k0 v0] m IH]; cbn; auto.
    intros ND; inversion ND; subst.
    destruct (eqb k k0) eqn:E; cbn.
    - apply eqb_eq in E; subst. apply aget_None_notin; auto.
    - rewrite E; auto.
  Qed.

  Lemma keys_aset (m : list (K * V)) k v :
    map fst (aset eqb m k v) = match aget eqb m k with Some _ => map fst m | None => map fst m ++ [k] end.
  Proof.
    induction m as [|[k0 v0] m IH]; cbn; auto.
    destruct (eqb k k0) eqn:E; cbn; auto.
    rewrite IH. destruct (aget eqb m k); auto.
  Qed.

  Lemma NoDup_aset (m : list (K * V)) k v : NoDup (map fst m) -> NoDup (map fst (aset eqb m k v)).
  Proof.
    intros ND. rewrite keys_aset. destruct (aget eqb m k) eqn:E; auto.
    apply aget_None_notin in E.
    apply NoDup_rev in ND. rewrite <- (rev_involutive (map fst m ++ [k])). apply NoDup_rev.
    rewrite rev_app_distr; cbn. constructor; auto. rewrite <- in_rev; auto.
  Qed.

  Lemma keys_adel_incl (m : list (K * V)) k x : In x (map fst (adel eqb m k)) -> In x (map fst m).
  Proof.
    induction m as [|[k0 v0] m IH]; cbn; auto.
    destruct (eqb k k0); cbn; tauto.
  Qed.

  Lemma NoDup_adel (m : list (K * V)) k : NoDup (map fst m) -> NoDup (map fst (adel eqb m k)).
  Proof.
    induction m as [|[k0 v0] m IH]; cbn; auto.
    intros ND; inversion ND; subst.
    destruct (eqb k k0); cbn; auto.
    constructor; auto. intros H. apply H1. eapply keys_adel_incl; eauto.
  Qed.

  Lemma In_aset (m : list (K * V)) k v x : In x (aset eqb m k v) -> x = (k, v) \/ In x m.
  Proof.
    induction m as [|[k0 v0] m IH]; cbn; [intros [H|[]]; auto|].
    destruct (eqb k k0) eqn:E; cbn.
    - apply eqb_eq in E; subst. intros [H|H]; auto.
    - intros [H|H]; auto. destruct (IH H); auto.
  Qed.

  Lemma In_adel (m : list (K * V)) k x : In x (adel eqb m k) -> In x m.
  Proof.
    induction m as [|[k0 v0] m IH]; cbn; auto.
    destruct (eqb k k0); cbn; tauto.
  Qed.

  (* weighted sums over entries *)
  Fixpoint wsum (w : K * V -> nat) (m : list (K * V)) : nat :=
    match m with [] => 0 | x :: m' => w x + wsum w m' end.

  Lemma wsum_aset w (m : list (K * V)) k v :
    wsum w (aset eqb m k v) + match aget eqb m k with Some old => w (k, old) | None => 0 end
    = wsum w m + w (k, v).
  Proof.
    induction m as [|[k0 v0] m IH]; cbn; [lia|].
    destruct (eqb k k0) eqn:E; cbn.
    - apply eqb_eq in E; subst. lia.
    - lia.
  Qed.

  Lemma wsum_adel w (m : list (K * V)) k :
    wsum w (adel eqb m k) + match aget eqb m k with Some old => w (k, old) | None => 0 end = wsum w m.
  Proof.
    induction m as [|[k0 v0] m IH]; cbn; [lia|].
    destruct (eqb k k0) eqn:E; cbn.
    - apply eqb_eq in E; subst. lia.
    - lia.
  Qed.
End AssocFacts.

Lemma filter_length_wsum {K V} (f : K * V -> bool) (l : list (K * V)) :
  length (filter f l) = wsum (fun x => if f x then 1 else 0) l.
Proof. induction l as [|x l IH]; cbn; auto. destruct (f x); cbn; lia. Qed.

Lemma Permutation_filter {A} (f : A -> bool) (l l' : list A) :
  Permutation l l' -> Permutation (filter f l) (filter f l').
Proof.
  induction 1; cbn; auto.
  - destruct (f x); auto.
  - destruct (f x), (f y); auto. apply perm_swap.
  - eapply perm_trans; eauto.
Qed.

(* ------------------------------------------------------------------ extendors and _provided *)
Definition nat_eqb_eq := Nat.eqb_eq.

Lemma ext_get_aset e i x j : ext_get (aset Nat.eqb e i x) j = if Nat.eqb j i then x else ext_get e j.
Proof.
  unfold ext_get. destruct (Nat.eqb j i) eqn:E.
  - apply Nat.eqb_eq in E; subst. rewrite (aget_aset_same Nat.eqb Nat.eqb_eq); auto.
  - apply Nat.eqb_neq in E. rewrite (aget_aset_other Nat.eqb Nat.eqb_eq); auto.
Qed.

Lemma cnt_get_aset c p n q : cnt_get (aset Nat.eqb c p n) q = if Nat.eqb q p then n else cnt_get c q.
Proof.
  unfold cnt_get. destruct (Nat.eqb q p) eqn:E.
  - apply Nat.eqb_eq in E; subst. rewrite (aget_aset_same Nat.eqb Nat.eqb_eq); auto.
  - apply Nat.eqb_neq in E. rewrite (aget_aset_other Nat.eqb Nat.eqb_eq); auto.
Qed.

Lemma cnt_get_adel c p q : NoDup (map fst c) ->
  cnt_get (adel Nat.eqb c p) q = if Nat.eqb q p then 0 else cnt_get c q.
Proof.
  intros ND. unfold cnt_get. destruct (Nat.eqb q p) eqn:E.
  - apply Nat.eqb_eq in E; subst. rewrite (aget_adel_same Nat.eqb Nat.eqb_eq); auto.
  - apply Nat.eqb_neq in E. rewrite (aget_adel_other Nat.eqb Nat.eqb_eq); auto.
Qed.

Section Ext.
  Variable W : world.

  Definition ins_ext (p : spec) (old : list spec) : list spec :=
    filter (fun x => isOrExtends W p x) old ++ [p] ++ filter (fun x => negb (isOrExtends W p x)) old.
  Definition del_ext (p : spec) (old : list spec) : list spec := filter (fun x => negb (Nat.eqb x p)) old.

  Lemma In_ins_ext p old q : In q (ins_ext p old) <-> In q old \/ q = p.
  Proof.
    unfold ins_ext. rewrite !in_app_iff, !filter_In. cbn.
    destruct (isOrExtends W p q); cbn; intuition congruence.
  Qed.

  Lemma In_del_ext p old q : In q (del_ext p old) <-> In q old /\ q <> p.
  Proof.
    unfold del_ext. rewrite filter_In, negb_true_iff, Nat.eqb_neq. tauto.
  Qed.

  Lemma fold_ext_In (g : list spec -> list spec) (l : list spec) :
    forall e j, ext_get (fold_left (fun e i => aset Nat.eqb e i (g (ext_get e i))) l e) j
                = ext_get e j \/ In j l.
  Proof.
    induction l as [|i l IH]; intros e j; cbn; auto.
    destruct (IH (aset Nat.eqb e i (g (ext_get e i))) j) as [H|H]; auto.
    rewrite H, ext_get_aset. destruct (Nat.eqb j i) eqn:E; auto.
    apply Nat.eqb_eq in E; auto.
  Qed.

  Lemma add_ext_In p l : forall e q j,
    In q (ext_get (fold_left (fun e i => aset Nat.eqb e i (ins_ext p (ext_get e i))) l e) j)
    <-> In q (ext_get e j) \/ (q = p /\ In j l).
  Proof.
    induction l as [|i l IH]; intros e q j; cbn; [tauto|].
    rewrite IH, ext_get_aset. destruct (Nat.eqb j i) eqn:E.
    - apply Nat.eqb_eq in E; subst. rewrite In_ins_ext. tauto.
    - apply Nat.eqb_neq in E. intuition congruence.
  Qed.

  Lemma del_ext_In p l : forall e q j,
    In q (ext_get (fold_left (fun e i => aset Nat.eqb e i (del_ext p (ext_get e i))) l e) j)
    <-> In q (ext_get e j) /\ (In j l -> q <> p).
  Proof.
    induction l as [|i l IH]; intros e q j; cbn; [tauto|].
    rewrite IH, ext_get_aset. destruct (Nat.eqb j i) eqn:E.
    - apply Nat.eqb_eq in E; subst. rewrite In_del_ext. tauto.
    - apply Nat.eqb_neq in E. intuition congruence.
  Qed.

  Lemma add_extendor_In e p q j :
    In q (ext_get (add_extendor W e p) j) <-> In q (ext_get e j) \/ (q = p /\ In j (iro W p)).
  Proof. apply (add_ext_In p (iro W p)). Qed.

  Lemma remove_extendor_In e p q j :
    In q (ext_get (remove_extendor W e p) j) <-> In q (ext_get e j) /\ (In j (iro W p) -> q <> p).
  Proof. apply (del_ext_In p (iro W p)). Qed.

  (* extendors[i] lists exactly the provided interfaces with a positive count that extend i *)
  Definition ext_inv (c : list (spec * nat)) (e : list (spec * list spec)) : Prop :=
    forall i p, In p (ext_get e i) <-> (0 < cnt_get c p /\ In i (iro W p)).

  Lemma provide_incr_fields r p :
    adapters (provide_incr W r p) = adapters r /\ subscribers (provide_incr W r p) = subscribers r
    /\ generation (provide_incr W r p) = generation r.
  Proof. unfold provide_incr; cbn; auto. Qed.

  Lemma provide_decr_fields r p k :
    adapters (provide_decr W r p k) = adapters r /\ subscribers (provide_decr W r p k) = subscribers r
    /\ generation (provide_decr W r p k) = generation r.
  Proof. unfold provide_decr. destruct (Nat.eqb _ 0); cbn; auto. Qed.

  Lemma cnt_provide_incr r p q :
    cnt_get (provided_cnt (provide_incr W r p)) q
    = if Nat.eqb q p then S (cnt_get (provided_cnt r) p) else cnt_get (provided_cnt r) q.
  Proof. unfold provide_incr; cbn. apply cnt_get_aset. Qed.

  Lemma cnt_provide_decr r p k q : NoDup (map fst (provided_cnt r)) ->
    cnt_get (provided_cnt (provide_decr W r p k)) q
    = if Nat.eqb q p then cnt_get (provided_cnt r) p - k else cnt_get (provided_cnt r) q.
  Proof.
    intros ND. unfold provide_decr. destruct (Nat.eqb (cnt_get (provided_cnt r) p - k) 0) eqn:E; cbn.
    - rewrite cnt_get_adel; auto. apply Nat.eqb_eq in E. rewrite E. auto.
    - apply cnt_get_aset.
  Qed.

  Lemma nodup_cnt_incr r p : NoDup (map fst (provided_cnt r)) -> NoDup (map fst (provided_cnt (provide_incr W r p))).
  Proof. unfold provide_incr; cbn. apply NoDup_aset, Nat.eqb_eq. Qed.

  Lemma nodup_cnt_decr r p k : NoDup (map fst (provided_cnt r)) -> NoDup (map fst (provided_cnt (provide_decr W r p k))).
  Proof.
    unfold provide_decr. destruct (Nat.eqb _ 0); cbn; [apply NoDup_adel | apply NoDup_aset, Nat.eqb_eq].
  Qed.

  Lemma ext_inv_incr r p : ext_inv (provided_cnt r) (extendors r) ->
    ext_inv (provided_cnt (provide_incr W r p)) (extendors (provide_incr W r p)).
  Proof.
    intros I i q. rewrite cnt_provide_incr. unfold provide_incr; cbn [extendors].
    destruct (Nat.eqb (S (cnt_get (provided_cnt r) p)) 1) eqn:E.
    - apply Nat.eqb_eq in E. assert (Z : cnt_get (provided_cnt r) p = 0) by lia.
      rewrite add_extendor_In, (I i q). destruct (Nat.eqb q p) eqn:Q.
      + apply Nat.eqb_eq in Q; subst q. rewrite Z. split; [intros [[H _]|[_ H]]; [lia | split; [lia | auto]] | intros [_ H]; auto].
      + apply Nat.eqb_neq in Q. tauto.
    - apply Nat.eqb_neq in E. rewrite (I i q). destruct (Nat.eqb q p) eqn:Q; [|tauto].
      apply Nat.eqb_eq in Q; subst q. split; intros [H1 H2]; split; auto; lia.
  Qed.

  Lemma ext_inv_decr r p k : NoDup (map fst (provided_cnt r)) -> ext_inv (provided_cnt r) (extendors r) ->
    ext_inv (provided_cnt (provide_decr W r p k)) (extendors (provide_decr W r p k)).
  Proof.
    intros ND I i q. rewrite cnt_provide_decr; auto. unfold provide_decr.
    destruct (Nat.eqb (cnt_get (provided_cnt r) p - k) 0) eqn:E; cbn [extendors].
    - apply Nat.eqb_eq in E. rewrite remove_extendor_In, (I i q). destruct (Nat.eqb q p) eqn:Q.
      + apply Nat.eqb_eq in Q; subst q. rewrite E. split; [intros [[_ H] H']; exfalso; apply H'; auto | intros [H _]; lia].
      + apply Nat.eqb_neq in Q. tauto.
    - apply Nat.eqb_neq in E. rewrite (I i q). destruct (Nat.eqb q p) eqn:Q; [|tauto].
      apply Nat.eqb_eq in Q; subst q. split; intros [H1 H2]; split; auto; lia.
  Qed.
End Ext.

(* ------------------------------------------------------------------ the four mutators, case by case *)
Definition set_ad (r : reg) (a : list (akey * value)) : reg :=
  mkReg a (subscribers r) (provided_cnt r) (extendors r) (generation r).
Definition set_su (r : reg) (s : list (skey * list value)) : reg :=
  mkReg (adapters r) s (provided_cnt r) (extendors r) (generation r).

Lemma filter_len_le {A} (f : A -> bool) (l : list A) : length (filter f l) <= length l.
Proof. induction l as [|x l IH]; cbn; auto. destruct (f x); cbn; lia. Qed.

Lemma filter_length_eq {A} (f : A -> bool) (l : list A) : length (filter f l) = length l -> filter f l = l.
Proof.
  induction l as [|x l IH]; cbn; auto.
  destruct (f x); cbn; intros H.
  - f_equal. apply IH. lia.
  - pose proof (filter_len_le f l). lia.
Qed.

Section Cases.
  Variable W : world.

  Lemma register_cases r req p n v' :
    let k := (map conv req, p, n) in
    (register W r req p n (Some v') = r /\ exists old, aget akey_eqb (adapters r) k = Some old /\ v_is old v' = true)
    \/ (register W r req p n (Some v') = changed (provide_incr W (set_ad r (aset akey_eqb (adapters r) k v')) p)
        /\ forall old, aget akey_eqb (adapters r) k = Some old -> v_is old v' = false).
  Proof.
    intros k. unfold register. fold k. destruct (aget akey_eqb (adapters r) k) as [old|] eqn:E.
    - destruct (v_is old v') eqn:I.
      + left. split; auto. exists old; auto.
      + right. split; auto. intros o [= <-]; auto.
    - right. split; auto. discriminate.
  Qed.

  Definition removes (old : value) (v : option value) : bool :=
    match v with Some v' => v_is old v' | None => true end.

  Lemma unregister_cases r req p n v :
    let k := (map conv req, p, n) in
    (unregister W r req p n v = r
     /\ forall old, aget akey_eqb (adapters r) k = Some old -> removes old v = false)
    \/ (unregister W r req p n v = changed (provide_decr W (set_ad r (adel akey_eqb (adapters r) k)) p 1)
        /\ exists old, aget akey_eqb (adapters r) k = Some old /\ removes old v = true).
  Proof.
    intros k. unfold unregister. fold k. destruct (aget akey_eqb (adapters r) k) as [old|] eqn:E.
    - destruct v as [v'|]; cbn.
      + destruct (v_is old v') eqn:I.
        * right. split; auto. exists old; auto.
        * left. split; auto. intros o [= <-]; auto.
      + right. split; auto. exists old; auto.
    - left. split; auto. discriminate.
  Qed.

  Lemma subscribe_form r req p v :
    let k := (map conv req, p) in
    subscribe W r req p v
    = changed (match p with
               | Some p' => provide_incr W (set_su r (aset skey_eqb (subscribers r) k (sub_leaf r k ++ [v]))) p'
               | None => set_su r (aset skey_eqb (subscribers r) k (sub_leaf r k ++ [v]))
               end).
  Proof. reflexivity. Qed.

  Definition unsub_new (old : list value) (v : option value) : list value :=
    match v with None => [] | Some v' => filter (fun x => negb (v_eq x v')) old end.

  Lemma unsub_new_le old v : length (unsub_new old v) <= length old.
  Proof. destruct v; cbn; [apply filter_len_le | lia]. Qed.

  Lemma unsubscribe_cases r req p v :
    let k := (map conv req, p) in
    let old := sub_leaf r k in
    let new := unsub_new old v in
    (unsubscribe W r req p v = r /\ new = old)
    \/ (length new < length old
        /\ unsubscribe W r req p v
           = changed (match p with
                      | Some p' => provide_decr W (set_su r (match new with
                                                            | [] => adel skey_eqb (subscribers r) k
                                                            | _ => aset skey_eqb (subscribers r) k new end))
                                                p' (length old - length new)
                      | None => set_su r (match new with
                                          | [] => adel skey_eqb (subscribers r) k
                                          | _ => aset skey_eqb (subscribers r) k new end)
                      end)).
  Proof.
    intros k old new. subst old new. unfold unsubscribe. fold k.
    destruct (sub_leaf r k) as [|x old'] eqn:EO.
    - left; split; auto. destruct v; auto.
    - cbv zeta. set (old := x :: old') in *.
      change (match v with None => [] | Some v' => filter (fun x0 => negb (v_eq x0 v')) old end) with (unsub_new old v).
      set (new := unsub_new old v).
      destruct (Nat.eqb (length new) (length old)) eqn:E.
      + left. split; auto. apply Nat.eqb_eq in E. subst new. destruct v as [v'|]; unfold unsub_new in *.
        * apply filter_length_eq; auto.
        * subst old; discriminate.
      + right. apply Nat.eqb_neq in E. pose proof (unsub_new_le old v). fold new in H.
        split; [lia|]. reflexivity.
  Qed.
End Cases.
