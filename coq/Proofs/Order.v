(* Proofs about Model/Order.v (property C12). *)
From Coq Require Import List NArith Bool ZArith Lia Sorting.Sorted Sorting.Permutation.
Import ListNotations.
From ZI Require Import Lib.Str Model.Order.

Definition is_iface (a : operand) : Prop := okind_of a = KIface.
Definition is_impl (a : operand) : Prop := okind_of a = KImpl.
Definition is_spec (a : operand) : Prop := is_iface a \/ is_impl a.
Definition ordering (o : op) : Prop := o = OpLt \/ o = OpLe \/ o = OpGt \/ o = OpGe.

Lemma okind_eqb_eq a b : okind_eqb a b = true <-> a = b.
Proof. destruct a, b; cbn; split; congruence. Qed.

Lemma same_obj_eq a b : same_obj a b = true <-> a = b.
Proof.
  destruct a as [ka ia na ma], b as [kb ib nb mb]; unfold same_obj; cbn.
  rewrite !andb_true_iff, okind_eqb_eq, Nat.eqb_eq, !str_eqb_eq.
  split.
  - intros [[[-> ->] ->] ->]; reflexivity.
  - intros H; inversion H; auto.
Qed.

Lemma same_obj_refl a : same_obj a a = true.
Proof. apply same_obj_eq; reflexivity. Qed.

Lemma same_obj_sym a b : same_obj a b = same_obj b a.
Proof.
  destruct (same_obj a b) eqn:E1, (same_obj b a) eqn:E2; auto.
  - apply same_obj_eq in E1; subst. rewrite same_obj_refl in E2; discriminate.
  - apply same_obj_eq in E2; subst. rewrite same_obj_refl in E1; discriminate.
Qed.

Lemma same_obj_key a b : same_obj a b = true -> key_cmp (okey a) (okey b) = Eq.
Proof. intros H; apply same_obj_eq in H; subst; apply key_cmp_refl. Qed.

Lemma op_on_swap o c : op_on (swap_op o) (CompOpp c) = op_on o c.
Proof. destruct o, c; reflexivity. Qed.

(* ---- the C short cut computes the tuple comparison *)
Lemma c_tuple_cmp o a b :
  (if str_eqb (oname a) (oname b)
   then op_on o (str_cmp (omodule a) (omodule b))
   else op_on o (str_cmp (oname a) (oname b)))
  = op_on o (key_cmp (okey a) (okey b)).
Proof.
  unfold key_cmp, okey, str_eqb; cbn.
  destruct (str_cmp (oname a) (oname b)); reflexivity.
Qed.

Lemma via_compare_key o a b :
  has_key b = true ->
  via_compare o a b = MBool (op_on o (key_cmp (okey a) (okey b))).
Proof.
  intros Hk. unfold via_compare, compare_mixin.
  destruct (same_obj b a) eqn:E.
  - rewrite same_obj_sym in E. rewrite (same_obj_key _ _ E). reflexivity.
  - rewrite Hk. destruct (okind_of b) eqn:K; try reflexivity.
    unfold has_key in Hk; rewrite K in Hk; discriminate.
Qed.

(* C10 part: the C slot and the Python methods of an interface agree on every operand *)
Lemma via_compare_self o a : via_compare o a a = MBool (op_on o Eq).
Proof. unfold via_compare, compare_mixin. rewrite same_obj_refl. reflexivity. Qed.

Lemma via_compare_other o a b : same_obj a b = false ->
  via_compare o a b =
    match okind_of b with
    | KNone => MBool (op_on o Lt)
    | _ => if has_key b then MBool (op_on o (key_cmp (okey a) (okey b))) else MNotImpl
    end.
Proof.
  intros E. unfold via_compare, compare_mixin. rewrite (same_obj_sym b a), E.
  destruct (okind_of b); cbn; try reflexivity; destruct (has_key b); reflexivity.
Qed.

Lemma c_tail_norm o a b :
  (if has_key b
   then if str_eqb (oname a) (oname b)
        then MBool (op_on o (str_cmp (omodule a) (omodule b)))
        else MBool (op_on o (str_cmp (oname a) (oname b)))
   else MNotImpl)
  = if has_key b then MBool (op_on o (key_cmp (okey a) (okey b))) else MNotImpl.
Proof.
  destruct (has_key b); auto. rewrite <- c_tuple_cmp. destruct (str_eqb _ _); reflexivity.
Qed.

Lemma c_richcompare_eq_py_lemma o a b :
  is_iface a -> c_richcompare o a b = py_method o a b.
Proof.
  intros Ha. unfold py_method, c_richcompare. rewrite Ha. rewrite c_tail_norm.
  destruct (same_obj a b) eqn:E.
  - apply same_obj_eq in E; subst b. rewrite same_obj_refl.
    assert (Hk : has_key a = true) by (unfold has_key; rewrite Ha; reflexivity).
    rewrite Ha, Hk, key_cmp_refl.
    destruct o; cbn [andb]; rewrite ?via_compare_self; reflexivity.
  - cbn [andb]. rewrite (same_obj_sym b a), E.
    destruct o; rewrite via_compare_other by exact E; destruct (okind_of b); reflexivity.
Qed.

Lemma method_table_py uc o a b : method_table uc o a b = py_method o a b.
Proof.
  unfold method_table. destruct uc; cbn [andb]; auto.
  destruct (okind_eqb (okind_of a) KIface) eqn:E; auto.
  apply okind_eqb_eq in E. apply c_richcompare_eq_py_lemma; exact E.
Qed.

Lemma binop_uc uc o a b : binop uc o a b = binop false o a b.
Proof. unfold binop. rewrite !method_table_py. reflexivity. Qed.

Lemma spec_has_key a : is_spec a -> has_key a = true.
Proof. intros [H|H]; unfold has_key; rewrite H; reflexivity. Qed.

Lemma py_method_iface o a b :
  is_iface a -> has_key b = true ->
  py_method o a b = MBool (op_on o (key_cmp (okey a) (okey b))).
Proof.
  intros Ha Hk. unfold py_method. rewrite Ha.
  destruct o; try apply via_compare_key; auto.
  destruct (same_obj b a) eqn:E.
  - rewrite same_obj_sym in E. rewrite (same_obj_key _ _ E). reflexivity.
  - apply via_compare_key; auto.
Qed.

Lemma py_method_impl_order o a b :
  is_impl a -> has_key b = true -> ordering o ->
  py_method o a b = MBool (op_on o (key_cmp (okey a) (okey b))).
Proof.
  intros Ha Hk Ho. unfold py_method. rewrite Ha.
  destruct Ho as [->|[->|[->| ->]]]; apply via_compare_key; auto.
Qed.

Lemma binop_iface uc o a b :
  is_iface a -> is_iface b ->
  binop uc o a b = BBool (op_on o (key_cmp (okey a) (okey b))).
Proof.
  intros Ha Hb. rewrite binop_uc. unfold binop. rewrite !method_table_py.
  rewrite py_method_iface; auto. apply spec_has_key; left; auto.
Qed.

Lemma binop_spec_order uc o a b :
  is_spec a -> is_spec b -> ordering o ->
  binop uc o a b = BBool (op_on o (key_cmp (okey a) (okey b))).
Proof.
  intros Ha Hb Ho. rewrite binop_uc. unfold binop. rewrite !method_table_py.
  destruct Ha as [Ha|Ha].
  - rewrite py_method_iface; auto using spec_has_key.
  - rewrite py_method_impl_order; auto using spec_has_key.
Qed.

(* ---- equality and hashing *)
Lemma eq_iff_key_lemma uc a b :
  is_iface a -> is_iface b ->
  (binop uc OpEq a b = BBool true <-> okey a = okey b).
Proof.
  intros Ha Hb. rewrite binop_iface by auto. rewrite <- key_cmp_eq_iff.
  destruct (key_cmp (okey a) (okey b)); cbn; split; congruence.
Qed.

Lemma ne_is_negb_eq_lemma uc a b :
  is_iface a -> is_iface b ->
  exists r, binop uc OpEq a b = BBool r /\ binop uc OpNe a b = BBool (negb r).
Proof.
  intros Ha Hb. rewrite !binop_iface by auto.
  destruct (key_cmp (okey a) (okey b)); cbn; eauto.
Qed.

Section HashProofs.
  Variable h : key -> Z.
  Variable hid : nat -> Z.
  (* the memo, once filled, holds the hash of the key (interfaces' names are immutable) *)
  Definition memo_ok (m : option Z) (a : operand) : Prop :=
    match m with None => True | Some v => v = h (okey a) end.

  Lemma hash_memo_inv m a : is_iface a -> memo_ok m a ->
    fst (hash_of h hid m a) = h (okey a) /\ memo_ok (snd (hash_of h hid m a)) a.
  Proof.
    intros Ha Hm. unfold hash_of. rewrite Ha. destruct m; cbn in *; subst; auto.
  Qed.

  Lemma hash_respects_eq_lemma uc ma mb a b :
    is_iface a -> is_iface b -> memo_ok ma a -> memo_ok mb b ->
    binop uc OpEq a b = BBool true ->
    fst (hash_of h hid ma a) = fst (hash_of h hid mb b).
  Proof.
    intros Ha Hb Hma Hmb E. apply eq_iff_key_lemma in E; auto.
    destruct (hash_memo_inv ma a Ha Hma) as [-> _].
    destruct (hash_memo_inv mb b Hb Hmb) as [-> _]. congruence.
  Qed.
End HashProofs.

(* ---- strict total order on interfaces, strict weak order on all specifications *)
Definition lt uc a b := binop uc OpLt a b = BBool true.

Lemma lt_key uc a b : is_spec a -> is_spec b -> (lt uc a b <-> key_cmp (okey a) (okey b) = Lt).
Proof.
  intros Ha Hb. unfold lt. rewrite binop_spec_order by (auto; left; auto).
  destruct (key_cmp (okey a) (okey b)); cbn; split; congruence.
Qed.

Lemma lt_irrefl uc a : is_spec a -> ~ lt uc a a.
Proof. intros Ha H. apply lt_key in H; auto. rewrite key_cmp_refl in H; discriminate. Qed.

Lemma lt_trans uc a b c : is_spec a -> is_spec b -> is_spec c ->
  lt uc a b -> lt uc b c -> lt uc a c.
Proof.
  intros Ha Hb Hc H1 H2. apply lt_key in H1, H2; auto. apply lt_key; auto.
  eapply key_cmp_lt_trans; eauto.
Qed.

Lemma lt_trichotomy uc a b : is_spec a -> is_spec b ->
  (lt uc a b /\ okey a <> okey b /\ ~ lt uc b a) \/
  (~ lt uc a b /\ okey a = okey b /\ ~ lt uc b a) \/
  (~ lt uc a b /\ okey a <> okey b /\ lt uc b a).
Proof.
  intros Ha Hb. rewrite !lt_key by auto. rewrite (key_cmp_antisym (okey a) (okey b)).
  rewrite <- (key_cmp_eq_iff (okey a) (okey b)).
  destruct (key_cmp (okey a) (okey b)); cbn; [right; left | left | right; right]; repeat split; congruence.
Qed.

(* incomparability (neither a<b nor b<a) is "same key", hence an equivalence: strict weak order *)
Lemma incomparable_iff_key uc a b : is_spec a -> is_spec b ->
  (~ lt uc a b /\ ~ lt uc b a) <-> okey a = okey b.
Proof.
  intros Ha Hb. destruct (lt_trichotomy uc a b Ha Hb) as [(H1&H2&H3)|[(H1&H2&H3)|(H1&H2&H3)]]; tauto.
Qed.

Lemma order_ops_consistent uc a b : is_spec a -> is_spec b ->
  exists c, c = key_cmp (okey a) (okey b) /\
    binop uc OpLt a b = BBool (match c with Lt => true | _ => false end) /\
    binop uc OpLe a b = BBool (match c with Gt => false | _ => true end) /\
    binop uc OpGt a b = BBool (match c with Gt => true | _ => false end) /\
    binop uc OpGe a b = BBool (match c with Lt => false | _ => true end).
Proof.
  intros Ha Hb. eexists; split; [reflexivity|].
  rewrite !binop_spec_order by (auto; unfold ordering; auto).
  destruct (key_cmp (okey a) (okey b)); cbn; auto.
Qed.

(* identity equality of class specifications *)
Lemma impl_eq_identity uc a b : is_impl a -> is_impl b ->
  binop uc OpEq a b = BBool (same_obj a b) /\ binop uc OpNe a b = BBool (negb (same_obj a b)).
Proof.
  intros Ha Hb. rewrite !binop_uc. unfold binop. rewrite !method_table_py. unfold py_method.
  rewrite Ha, Hb. cbn. rewrite (same_obj_sym b a). destruct (same_obj a b); auto.
Qed.

(* None: every specification sorts before None *)
Definition none_op : operand := mkOp KNone 0 [] [].

Lemma none_is_greatest_lemma uc a : is_spec a ->
  binop uc OpLt a none_op = BBool true /\ binop uc OpLe a none_op = BBool true /\
  binop uc OpGt a none_op = BBool false /\ binop uc OpGe a none_op = BBool false /\
  binop uc OpLt none_op a = BBool false /\ binop uc OpLe none_op a = BBool false /\
  binop uc OpGt none_op a = BBool true /\ binop uc OpGe none_op a = BBool true /\
  binop uc OpEq a none_op = BBool false /\ binop uc OpNe a none_op = BBool true /\
  binop uc OpEq none_op a = BBool false /\ binop uc OpNe none_op a = BBool true.
Proof.
  intros Ha. rewrite !binop_uc. unfold binop. rewrite !method_table_py.
  assert (E : same_obj none_op a = false).
  { destruct (same_obj none_op a) eqn:E; auto. apply same_obj_eq in E. subst a.
    destruct Ha as [H|H]; discriminate. }
  assert (E' : same_obj a none_op = false) by (rewrite same_obj_sym; exact E).
  destruct Ha as [Ha|Ha]; unfold py_method, via_compare, compare_mixin, object_method;
    rewrite Ha; cbn; rewrite ?E, ?E'; cbn; rewrite ?E, ?E'; repeat split; reflexivity.
Qed.

(* ---- reflected comparisons agree, for every kind of operand (incl. None / foreign) *)
Lemma via_compare_reflect o a b x y :
  has_key a = true -> has_key b = true ->
  via_compare o a b = MBool x -> via_compare (swap_op o) b a = MBool y -> x = y.
Proof.
  intros Ka Kb. rewrite !via_compare_key by auto.
  rewrite (key_cmp_antisym (okey a) (okey b)), op_on_swap. congruence.
Qed.

Lemma py_method_key_or_object o a b r :
  py_method o a b = MBool r ->
  (has_key a = true /\ has_key b = true /\ r = op_on o (key_cmp (okey a) (okey b)))
  \/ (okind_of a = KIface /\ okind_of b = KNone /\ r = op_on o Lt)
  \/ (okind_of a = KImpl /\ okind_of b = KNone /\ ordering o /\ r = op_on o Lt)
  \/ (a = b /\ r = op_on o Eq).
Proof.
  unfold py_method. intros H.
  assert (Obj : forall o', object_method o' a b = MBool r -> a = b /\ r = op_on o' Eq).
  { intros o'. unfold object_method. destruct o'; try discriminate;
      destruct (same_obj a b) eqn:E; try discriminate; apply same_obj_eq in E;
      intros X; inversion X; subst; auto. }
  assert (Via : forall o', via_compare o' a b = MBool r ->
     (has_key b = true /\ r = op_on o' (key_cmp (okey a) (okey b)))
     \/ (okind_of b = KNone /\ r = op_on o' Lt) \/ (a = b /\ r = op_on o' Eq)).
  { intros o'. unfold via_compare, compare_mixin. destruct (same_obj b a) eqn:E.
    - apply same_obj_eq in E. intros X; inversion X; subst; auto.
    - destruct (okind_of b) eqn:K; cbn;
        try (destruct (has_key b) eqn:Hk; [|discriminate]); intros X; inversion X; subst; auto. }
  destruct (okind_of a) eqn:Ka.
  - assert (has_key a = true) by (unfold has_key; rewrite Ka; auto).
    destruct o;
      try (apply Via in H; destruct H as [[? ?]|[[? ?]|[? ?]]]; [left|right;left|right;right;right]; auto; fail).
    destruct (same_obj b a) eqn:E.
    + apply same_obj_eq in E. inversion H; subst. right; right; right; auto.
    + apply Via in H; destruct H as [[? ?]|[[? ?]|[? ?]]]; [left|right;left|right;right;right]; auto.
  - assert (has_key a = true) by (unfold has_key; rewrite Ka; auto).
    destruct o;
      try (apply Obj in H; right; right; right; tauto);
      (apply Via in H; destruct H as [[? ?]|[[? ?]|[? ?]]];
       [left; auto | right; right; left; repeat split; auto; unfold ordering; auto | right;right;right; auto]).
  - apply Obj in H; right; right; right; tauto.
  - apply Obj in H; right; right; right; tauto.
  - apply Obj in H; right; right; right; tauto.
Qed.

Lemma reflected_agree_lemma uc o a b : binop uc o a b = binop uc (swap_op o) b a.
Proof.
  rewrite !binop_uc. unfold binop. rewrite !method_table_py.
  assert (SS : swap_op (swap_op o) = o) by (destruct o; reflexivity).
  rewrite SS.
  destruct (py_method o a b) as [|x] eqn:E1; destruct (py_method (swap_op o) b a) as [|y] eqn:E2; auto.
  - rewrite (same_obj_sym b a). destruct o; reflexivity.
  - f_equal.
    apply py_method_key_or_object in E1. apply py_method_key_or_object in E2.
    assert (NK : forall z, okind_of z = KNone -> has_key z = false) by (intros z Hz; unfold has_key; rewrite Hz; auto).
    destruct E1 as [(A1&A2&A3)|[(A1&A2&A3)|[(A1&A2&A3&A4)|(A1&A2)]]];
      destruct E2 as [(B1&B2&B3)|[(B1&B2&B3)|[(B1&B2&B3&B4)|(B1&B2)]]]; subst;
      try (rewrite (NK _ A2) in *; discriminate);
      try (rewrite (NK _ B2) in *; discriminate);
      try congruence.
    + rewrite (key_cmp_antisym (okey a) (okey b)), op_on_swap; reflexivity.
    + rewrite key_cmp_refl. destruct o; reflexivity.
    + rewrite key_cmp_refl. destruct o; reflexivity.
    + destruct o; reflexivity.
Qed.

(* ---- deterministic sorting *)
Definition kle (a b : operand) : Prop := key_cmp (okey a) (okey b) <> Gt.

Lemma insert_perm ltb x l : Permutation (x :: l) (insert ltb x l).
Proof.
  induction l as [|y l IH]; cbn; auto.
  destruct (ltb y x); auto.
  eapply perm_trans; [apply perm_swap|]. apply perm_skip; exact IH.
Qed.

Lemma sort_perm ltb l : Permutation l (sort ltb l).
Proof.
  induction l as [|x l IH]; cbn; auto.
  eapply perm_trans; [apply perm_skip; exact IH|]. apply insert_perm.
Qed.

Lemma kle_trans a b c : kle a b -> kle b c -> kle a c.
Proof.
  unfold kle. intros H1 H2 H3.
  destruct (key_cmp (okey a) (okey b)) eqn:E1; try congruence.
  - apply key_cmp_eq_iff in E1. rewrite E1 in H3. congruence.
  - destruct (key_cmp (okey b) (okey c)) eqn:E2; try congruence.
    + apply key_cmp_eq_iff in E2. rewrite <- E2 in H3. congruence.
    + rewrite (key_cmp_lt_trans _ _ _ E1 E2) in H3. discriminate.
Qed.

Lemma insert_sorted uc x l :
  is_spec x -> Forall is_spec l ->
  StronglySorted kle l -> StronglySorted kle (insert (lt_of uc) x l).
Proof.
  intros Hx Hl Hs. induction l as [|y l IH]; cbn.
  - constructor; constructor.
  - inversion Hl as [|? ? Hy Hl']; subst. inversion Hs as [|? ? Hs' Hall]; subst.
    assert (Hlt : lt_of uc y x = match key_cmp (okey y) (okey x) with Lt => true | _ => false end).
    { unfold lt_of. rewrite binop_spec_order by (auto; unfold ordering; auto).
      destruct (key_cmp (okey y) (okey x)); reflexivity. }
    rewrite Hlt. destruct (key_cmp (okey y) (okey x)) eqn:E.
    + constructor; [constructor; auto|].
      assert (kle x y) by (unfold kle; rewrite key_cmp_antisym, E; cbn; congruence).
      constructor; auto. eapply Forall_impl; [|exact Hall]. intros z Hz; eapply kle_trans; eauto.
    + constructor; auto.
      assert (Hyx : kle y x) by (unfold kle; rewrite E; congruence).
      eapply Permutation_Forall; [apply insert_perm|]. constructor; auto.
    + constructor; [constructor; auto|].
      assert (kle x y) by (unfold kle; rewrite key_cmp_antisym, E; cbn; congruence).
      constructor; auto. eapply Forall_impl; [|exact Hall]. intros z Hz; eapply kle_trans; eauto.
Qed.

Lemma insert_spec uc x l : is_spec x -> Forall is_spec l -> Forall is_spec (insert (lt_of uc) x l).
Proof. intros. eapply Permutation_Forall; [apply insert_perm|]. constructor; auto. Qed.

Lemma sort_sorted_lemma uc l :
  Forall is_spec l ->
  StronglySorted kle (sort (lt_of uc) l) /\ Permutation l (sort (lt_of uc) l).
Proof.
  intros Hl. split; [|apply sort_perm].
  induction l as [|x l IH]; cbn; [constructor|].
  inversion Hl; subst. apply insert_sorted; auto.
  eapply Permutation_Forall; [apply sort_perm|]; auto.
Qed.

(* the result is a function of the *keys* of the input sequence only: two inputs whose
   elements have pairwise the same keys are sorted by the same permutation, and neither
   the implementation in use nor hashes / addresses enter. *)
Fixpoint insert_k (x : key) (l : list key) : list key :=
  match l with
  | [] => [x]
  | y :: l' => match key_cmp y x with Lt => y :: insert_k x l' | _ => x :: l end
  end.
Definition sort_k (l : list key) : list key := fold_right insert_k [] l.

Lemma insert_keys uc x l : is_spec x -> Forall is_spec l ->
  map okey (insert (lt_of uc) x l) = insert_k (okey x) (map okey l).
Proof.
  intros Hx Hl. induction l as [|y l IH]; cbn; auto.
  inversion Hl; subst.
  assert (Hlt : lt_of uc y x = match key_cmp (okey y) (okey x) with Lt => true | _ => false end).
  { unfold lt_of. rewrite binop_spec_order by (auto; unfold ordering; auto).
    destruct (key_cmp (okey y) (okey x)); reflexivity. }
  rewrite Hlt. destruct (key_cmp (okey y) (okey x)); cbn; auto. rewrite IH; auto.
Qed.

Lemma sort_keys_lemma uc l : Forall is_spec l ->
  map okey (sort (lt_of uc) l) = sort_k (map okey l).
Proof.
  intros Hl. induction l as [|x l IH]; [reflexivity|]. inversion Hl; subst.
  change (sort (lt_of uc) (x :: l)) with (insert (lt_of uc) x (sort (lt_of uc) l)).
  change (sort_k (map okey (x :: l))) with (insert_k (okey x) (sort_k (map okey l))).
  rewrite insert_keys; auto.
  - rewrite IH; auto.
  - eapply Permutation_Forall; [apply sort_perm|]; auto.
Qed.
