(* Proofs about the ownership machine of Model/Own.v (property C11).

   Main result [discipline_safe]: a path that satisfies the static discipline D never dereferences
   a freed object, never releases a reference it does not hold, never reads a NULL slot, and returns
   with balanced reference counts, whatever the environment does at the may-call points. *)
From Coq Require Import List Arith Bool Lia.
Import ListNotations.
From ZI Require Import Model.Own.

(* ------------------------------------------------------------------ booleans *)
Lemma holder_eqb_eq a b : holder_eqb a b = true <-> a = b.
Proof.
  destruct a, b; cbn; try (split; [discriminate|congruence]); try tauto;
    rewrite Nat.eqb_eq; split; congruence.
Qed.

Lemma holder_eqb_refl a : holder_eqb a a = true.
Proof. apply holder_eqb_eq; reflexivity. Qed.

Lemma holder_eqb_neq a b : a <> b -> holder_eqb a b = false.
Proof. intros H; destruct (holder_eqb a b) eqn:E; auto. apply holder_eqb_eq in E; contradiction. Qed.

Lemma ref_eqb_eq a b : ref_eqb a b = true <-> a = b.
Proof.
  destruct a as [h o], b as [h' o']; unfold ref_eqb; cbn.
  rewrite andb_true_iff, holder_eqb_eq, Nat.eqb_eq. split; [intros [-> ->]; auto | intros E; inversion E; auto].
Qed.

Lemma mem_In x l : mem x l = true <-> In x l.
Proof.
  induction l as [|y l IH]; cbn; [split; [discriminate|tauto]|].
  rewrite orb_true_iff, Nat.eqb_eq, IH. split; intros [H|H]; auto.
Qed.

Lemma mem_false x l : mem x l = false <-> ~ In x l.
Proof. rewrite <- mem_In. destruct (mem x l); split; congruence. Qed.

Lemma has_In rs r : has rs r = true <-> In r rs.
Proof.
  unfold has. rewrite existsb_exists. split.
  - intros [x [Hi He]]. apply ref_eqb_eq in He. subst; auto.
  - intros H. exists r. split; auto. apply ref_eqb_eq; auto.
Qed.

Lemma has_ref_In rs o : has_ref rs o = true <-> exists h, In (h, o) rs.
Proof.
  unfold has_ref. rewrite existsb_exists. split.
  - intros [[h o'] [Hi He]]. cbn in He. apply Nat.eqb_eq in He. subst. eauto.
  - intros [h H]. exists (h, o). split; auto. cbn. apply Nat.eqb_refl.
Qed.

Lemma has_ref_cons r rs o : has_ref rs o = true -> has_ref (r :: rs) o = true.
Proof. unfold has_ref. cbn. intros ->. apply orb_true_r. Qed.

(* ------------------------------------------------------------------ remove1 / orphan *)
Lemma In_remove1 x r l : In x (remove1 r l) -> In x l.
Proof.
  induction l as [|y l IH]; cbn; auto.
  destruct (ref_eqb r y); cbn; intros H; auto. destruct H; auto.
Qed.

Lemma In_remove1_neq x r l : In x l -> x <> r -> In x (remove1 r l).
Proof.
  induction l as [|y l IH]; cbn; auto. intros [H|H] N.
  - subst y. destruct (ref_eqb r x) eqn:E; [apply ref_eqb_eq in E; congruence | left; auto].
  - destruct (ref_eqb r y); [auto | right; auto].
Qed.

Lemma filter_remove1_neg (P : ref -> bool) r l : P r = false -> filter P (remove1 r l) = filter P l.
Proof.
  intros HP. induction l as [|y l IH]; cbn; auto.
  destruct (ref_eqb r y) eqn:E.
  - apply ref_eqb_eq in E. subst y. rewrite HP. reflexivity.
  - cbn. rewrite IH. reflexivity.
Qed.

Lemma filter_remove1_pos (P : ref -> bool) r l :
  P r = true -> In r l -> S (length (filter P (remove1 r l))) = length (filter P l).
Proof.
  intros HP. induction l as [|y l IH]; cbn; [tauto|]. intros [H|H].
  - subst y. assert (E : ref_eqb r r = true) by (apply ref_eqb_eq; auto). rewrite E, HP. reflexivity.
  - destruct (ref_eqb r y) eqn:E.
    + apply ref_eqb_eq in E. subst y. rewrite HP. reflexivity.
    + cbn. destruct (P y); cbn; rewrite <- (IH H); reflexivity.
Qed.

Definition is_var (v : var) (p : ref) : bool := holder_eqb (fst p) (HVar v).

Lemma own_count_filter s v : own_count s v = length (filter (is_var v) (refs s)).
Proof. reflexivity. Qed.

Lemma filter_orphan_var v c l : length (filter (is_var v) (orphan c l)) = length (filter (is_var v) l).
Proof.
  induction l as [|[h o] l IH]; [reflexivity|].
  change (orphan c ((h, o) :: l)) with
    ((if holder_eqb h (HItem c) then (HExt, o) else (h, o)) :: orphan c l).
  destruct (holder_eqb h (HItem c)) eqn:E.
  - apply holder_eqb_eq in E. subst h. cbn [filter is_var fst holder_eqb]. exact IH.
  - cbn [filter]. change (is_var v (h, o)) with (holder_eqb h (HVar v)).
    destruct (holder_eqb h (HVar v)); cbn [length]; rewrite IH; reflexivity.
Qed.

Lemma In_orphan h o c l : In (h, o) (orphan c l) ->
  exists h0, In (h0, o) l /\ (h = h0 \/ h = HExt) /\ (h = HLeak -> h0 = HLeak) /\ (forall v, h = HVar v -> h0 = HVar v).
Proof.
  unfold orphan. rewrite in_map_iff. intros [[h0 o0] [E Hi]]. cbn in E.
  destruct (holder_eqb h0 (HItem c)); inversion E; subst.
  - exists h0. split; auto. split; auto. split; intros; discriminate.
  - exists h. split; auto.
Qed.

Lemma In_count_pos v o s : In (HVar v, o) (refs s) -> own_count s v >= 1.
Proof.
  unfold own_count. intros H.
  assert (I : In (HVar v, o) (filter (fun p => holder_eqb (fst p) (HVar v)) (refs s))).
  { apply filter_In. split; auto. cbn. apply Nat.eqb_refl. }
  destruct (filter (fun p => holder_eqb (fst p) (HVar v)) (refs s)); cbn in *; [tauto | lia].
Qed.

Lemma count_pos_In v s : own_count s v >= 1 -> exists o, In (HVar v, o) (refs s).
Proof.
  unfold own_count. intros H.
  destruct (filter (fun p => holder_eqb (fst p) (HVar v)) (refs s)) as [|[h o] l] eqn:E; cbn in H; [lia|].
  assert (I : In (h, o) (filter (fun p => holder_eqb (fst p) (HVar v)) (refs s))) by (rewrite E; left; auto).
  apply filter_In in I. destruct I as [I Hh]. cbn in Hh. apply holder_eqb_eq in Hh. subst h. eauto.
Qed.

(* ------------------------------------------------------------------ the global invariant *)
Record Genv (s : st) : Prop := mkG {
  g_live : forall h o, In (h, o) (refs s) -> ~ In o (freed s);
  g_bound : forall h o, In (h, o) (refs s) -> o < next s;
  g_fbound : forall o, In o (freed s) -> o < next s;
  g_var : forall v o, In (HVar v, o) (refs s) -> lookup (venv s) v = Some o;
  g_noleak : forall o, ~ In (HLeak, o) (refs s)
}.

(* what a transition that is not ours leaves alone: the references we hold, our pointers, which objects
   are tuples, and the items of every tuple that is still alive afterwards *)
Definition same_own (s s' : st) : Prop :=
  (forall v, own_count s' v = own_count s v) /\ venv s' = venv s /\
  incl (tuples s) (tuples s') /\ incl (freed s) (freed s') /\
  (forall c o, In c (tuples s) -> In (HItem c, o) (refs s) -> ~ In c (freed s') -> In (HItem c, o) (refs s')).

Lemma same_own_refl s : same_own s s.
Proof.
  split; [auto|]. split; [auto|]. split; [apply incl_refl|]. split; [apply incl_refl|]. auto.
Qed.

Lemma same_own_trans a b c : same_own a b -> same_own b c -> same_own a c.
Proof.
  intros [H1 [H2 [H3 [H4 H5]]]] [K1 [K2 [K3 [K4 K5]]]]. repeat split.
  - intros v. rewrite K1. auto.
  - congruence.
  - eapply incl_tran; eauto.
  - eapply incl_tran; eauto.
  - intros x o Hx Hi Nf. apply K5; [apply H3; exact Hx | apply H5; auto; intros F; apply Nf; apply K4; exact F | exact Nf].
Qed.

Lemma has_leak_false s : has_leak s = false <-> forall o, ~ In (HLeak, o) (refs s).
Proof.
  unfold has_leak. split.
  - intros H o Hi. assert (E : existsb (fun p => holder_eqb (fst p) HLeak) (refs s) = true).
    { apply existsb_exists. exists (HLeak, o). split; auto. }
    congruence.
  - intros H. destruct (existsb (fun p => holder_eqb (fst p) HLeak) (refs s)) eqn:E; auto. apply existsb_exists in E.
    destruct E as [[h o] [Hi He]]. cbn in He. apply holder_eqb_eq in He. subst. exfalso. eapply H; eauto.
Qed.

(* releasing an existing reference *)
Lemma release_G s r : Genv s -> In r (refs s) -> Genv (release s r).
Proof.
  intros G Hr. destruct r as [hr orr]. unfold release. cbn [snd].
  destruct (has_ref (remove1 (hr, orr) (refs s)) orr) eqn:E.
  - constructor; cbn; intros.
    + eapply g_live; eauto. eapply In_remove1; eauto.
    + eapply g_bound; eauto. eapply In_remove1; eauto.
    + eapply g_fbound; eauto.
    + eapply g_var; eauto. eapply In_remove1; eauto.
    + intros Hi. eapply g_noleak; eauto. eapply In_remove1; eauto.
  - assert (N : forall h, ~ In (h, orr) (remove1 (hr, orr) (refs s))).
    { intros h Hi. assert (has_ref (remove1 (hr, orr) (refs s)) orr = true) by (apply has_ref_In; eauto). congruence. }
    constructor; cbn; intros.
    + apply In_orphan in H. destruct H as [h0 [Hi _]]. intros [F|F].
      * subst o. eapply N; eauto.
      * exact (g_live s G h0 o (In_remove1 _ _ _ Hi) F).
    + apply In_orphan in H. destruct H as [h0 [Hi _]]. eapply g_bound; eauto. eapply In_remove1; eauto.
    + destruct H as [H|H]; [subst; eapply g_bound; eauto | eapply g_fbound; eauto].
    + apply In_orphan in H. destruct H as [h0 [Hi [_ [_ Hv]]]]. rewrite (Hv v eq_refl) in Hi.
      eapply g_var; eauto. eapply In_remove1; eauto.
    + intros Hi. apply In_orphan in Hi. destruct Hi as [h0 [Hi [_ [Hl _]]]]. rewrite (Hl eq_refl) in Hi.
      eapply g_noleak; eauto. eapply In_remove1; eauto.
Qed.

Lemma release_count s r v : In r (refs s) ->
  own_count (release s r) v + (if is_var v r then 1 else 0) = own_count s v.
Proof.
  intros Hr. unfold release, own_count.
  assert (C : length (filter (is_var v) (remove1 r (refs s))) + (if is_var v r then 1 else 0)
              = length (filter (is_var v) (refs s))).
  { destruct (is_var v r) eqn:E.
    - rewrite <- (filter_remove1_pos (is_var v) r (refs s) E Hr). lia.
    - rewrite filter_remove1_neg by auto. lia. }
  destruct (has_ref (remove1 r (refs s)) (snd r)); cbn [refs set_refs].
  - exact C.
  - change (length (filter (is_var v) (orphan (snd r) (remove1 r (refs s)))) + (if is_var v r then 1 else 0)
            = length (filter (is_var v) (refs s))).
    rewrite filter_orphan_var. exact C.
Qed.

Lemma release_venv s r : venv (release s r) = venv s.
Proof. unfold release. destruct (has_ref _ _); reflexivity. Qed.

Lemma release_tuples s r : tuples (release s r) = tuples s.
Proof. unfold release. destruct (has_ref _ _); reflexivity. Qed.

Lemma release_freed s r : incl (freed s) (freed (release s r)).
Proof. unfold release. destruct (has_ref _ _); cbn; [apply incl_refl | apply incl_tl, incl_refl]. Qed.

Lemma In_orphan_keep x c l : In x l -> fst x <> HItem c -> In x (orphan c l).
Proof.
  intros Hi N. unfold orphan. apply in_map_iff. exists x. split; auto.
  destruct (holder_eqb (fst x) (HItem c)) eqn:E; auto. apply holder_eqb_eq in E. contradiction.
Qed.

(* an item of a container that is not freed by this release survives it *)
Lemma release_item_kept s r c o : In (HItem c, o) (refs s) -> (HItem c, o) <> r ->
  ~ In c (freed (release s r)) -> In (HItem c, o) (refs (release s r)).
Proof.
  intros Hi N Nf. unfold release in *. destruct (has_ref (remove1 r (refs s)) (snd r)); cbn in *.
  - apply In_remove1_neq; auto.
  - apply In_orphan_keep; [apply In_remove1_neq; auto|]. cbn. intros E. inversion E; subst. apply Nf. left; auto.
Qed.

Lemma release_other s r : In r (refs s) -> (forall v, is_var v r = false) ->
  (forall c o, r = (HItem c, o) -> ~ In c (tuples s)) -> same_own s (release s r).
Proof.
  intros Hr Hn Ht. split; [|split; [apply release_venv|split; [rewrite release_tuples; apply incl_refl|split; [apply release_freed|]]]].
  - intros v. pose proof (release_count s r v Hr) as C. rewrite Hn in C. lia.
  - intros c o Hc Hi Nf. apply release_item_kept; auto. intros E. subst r. apply (Ht c o eq_refl). exact Hc.
Qed.

(* adding a reference to a live object *)
Lemma add_ref_G s h o : Genv s -> ~ In o (freed s) -> o < next s ->
  (forall v, h = HVar v -> lookup (venv s) v = Some o) -> h <> HLeak -> Genv (add_ref s (h, o)).
Proof.
  intros G Hf Hb Hv Hl. constructor; cbn; intros.
  - destruct H as [H|H]; [inversion H; subst; auto | eapply g_live; eauto].
  - destruct H as [H|H]; [inversion H; subst; auto | eapply g_bound; eauto].
  - eapply g_fbound; eauto.
  - destruct H as [H|H]; [inversion H; subst; auto | eapply g_var; eauto].
  - intros [H|H]; [inversion H; congruence | eapply g_noleak; eauto].
Qed.

Lemma add_ref_count s h o v :
  own_count (add_ref s (h, o)) v = own_count s v + (if holder_eqb h (HVar v) then 1 else 0).
Proof.
  unfold own_count, add_ref. cbn. destruct (holder_eqb h (HVar v)); cbn; lia.
Qed.

Lemma live_facts s o : Genv s -> live s o = true -> ~ In o (freed s) /\ o < next s.
Proof.
  intros G H. apply has_ref_In in H. destruct H as [h H]. split; [eapply g_live | eapply g_bound]; eauto.
Qed.

Lemma slot_get_In s sl o : slot_get s sl = Some o -> In (HSlot sl, o) (refs s).
Proof.
  unfold slot_get. destruct (find (fun p => holder_eqb (fst p) (HSlot sl)) (refs s)) as [[h o']|] eqn:E; [|discriminate].
  intros H. inversion H; subst. apply find_some in E. destruct E as [Hi He]. cbn in He.
  apply holder_eqb_eq in He. subst. auto.
Qed.

Lemma slot_get_None s sl : slot_get s sl = None <-> forall o, ~ In (HSlot sl, o) (refs s).
Proof.
  unfold slot_get. split.
  - destruct (find (fun p => holder_eqb (fst p) (HSlot sl)) (refs s)) eqn:E; [discriminate|]. intros _ o Hi.
    eapply find_none in E; eauto. cbn in E. rewrite Nat.eqb_refl in E. discriminate.
  - intros H. destruct (find (fun p => holder_eqb (fst p) (HSlot sl)) (refs s)) as [[h o]|] eqn:E; auto.
    apply find_some in E. destruct E as [Hi He]. cbn in He. apply holder_eqb_eq in He. subst.
    exfalso. eapply H; eauto.
Qed.

(* ------------------------------------------------------------------ the environment cannot hurt us *)
Lemma add_ref_same s h o : (forall v, h <> HVar v) -> same_own s (add_ref s (h, o)).
Proof.
  intros N. split; [|split; [reflexivity|split; [apply incl_refl|split; [apply incl_refl|]]]].
  - intros v. rewrite add_ref_count. rewrite (holder_eqb_neq h (HVar v)) by auto. lia.
  - intros c x Hc Hi _. right. exact Hi.
Qed.

Lemma alloc_G s h tup items : Genv s -> (forall v, h = HVar v -> False) -> h <> HLeak -> Genv (fst (alloc s h tup items)).
Proof.
  intros G Nv Nl. unfold alloc. cbn [fst].
  assert (It : forall x, In x (map (fun i => (HItem (next s), i)) (filter (fun i => has_ref (refs s) i) items)) ->
                 exists i, x = (HItem (next s), i) /\ has_ref (refs s) i = true).
  { intros x Hx. apply in_map_iff in Hx. destruct Hx as [i [E Hi]]. apply filter_In in Hi. exists i. split; [auto | tauto]. }
  constructor; cbn.
  - intros h0 o [H|H]; [inversion H; subst; intros F; apply (g_fbound s G) in F; lia|].
    apply in_app_or in H. destruct H as [H|H]; [|eapply g_live; eauto].
    destruct (It _ H) as [i [E L]]. inversion E; subst. apply (live_facts s i G L).
  - intros h0 o [H|H]; [inversion H; subst; lia|].
    apply in_app_or in H. destruct H as [H|H]; [|apply (g_bound s G) in H; lia].
    destruct (It _ H) as [i [E L]]. inversion E; subst. destruct (live_facts s i G L). lia.
  - intros o H. apply (g_fbound s G) in H. lia.
  - intros v o [H|H]; [inversion H; subst; exfalso; eapply Nv; eauto|].
    apply in_app_or in H. destruct H as [H|H]; [|eapply g_var; eauto].
    destruct (It _ H) as [i [E L]]. inversion E.
  - intros o [H|H]; [inversion H; congruence|].
    apply in_app_or in H. destruct H as [H|H]; [|eapply g_noleak; eauto].
    destruct (It _ H) as [i [E L]]. inversion E.
Qed.

Lemma filter_var_items v o its l :
  filter (is_var v) (map (fun i : obj => (HItem o, i)) its ++ l) = filter (is_var v) l.
Proof. induction its as [|i its IH]; cbn; auto. Qed.

Lemma alloc_same s h tup items : (forall v, h <> HVar v) -> same_own s (fst (alloc s h tup items)).
Proof.
  intros N. unfold alloc. cbn [fst]. split; [|split; [reflexivity|split; [|split]]]; cbn [tuples freed refs].
  - intros v. unfold own_count. cbn [refs filter fst]. rewrite (holder_eqb_neq h (HVar v)) by auto.
    change (fun p : holder * obj => holder_eqb (fst p) (HVar v)) with (is_var v). rewrite filter_var_items. reflexivity.
  - destruct tup; [apply incl_tl|]; apply incl_refl.
  - apply incl_refl.
  - intros c o Hc Hi _. right. apply in_or_app. right. exact Hi.
Qed.

Lemma env_step_ok s x : Genv s -> Genv (env_step s x) /\ same_own s (env_step s x).
Proof.
  intros G. destruct x; cbn [env_step].
  - (* XAlloc *)
    split; [apply alloc_G; auto; intros; discriminate | apply alloc_same; intros; discriminate].
  - (* XIncExt *)
    destruct (live s o) eqn:L; [|split; [auto|apply same_own_refl]].
    destruct (live_facts s o G L). split.
    + apply add_ref_G; auto; intros; discriminate.
    + apply add_ref_same. intros; discriminate.
  - (* XDecExt *)
    destruct (has (refs s) (HExt, o)) eqn:H; [|split; [auto|apply same_own_refl]].
    apply has_In in H. split; [apply release_G; auto | apply release_other; auto; intros; discriminate].
  - (* XClearSlot *)
    destruct (slot_get s s0) eqn:E; [|split; [auto|apply same_own_refl]].
    apply slot_get_In in E. split; [apply release_G; auto | apply release_other; auto; intros; discriminate].
  - (* XSetSlot *)
    destruct (slot_get s s0); [split; [auto|apply same_own_refl]|].
    destruct (live s o) eqn:L; [|split; [auto|apply same_own_refl]].
    destruct (live_facts s o G L). split.
    + apply add_ref_G; auto; intros; discriminate.
    + apply add_ref_same. intros; discriminate.
  - (* XAddItem *)
    destruct (live s c && live s o && negb (mem c (tuples s))) eqn:L; [|split; [auto|apply same_own_refl]].
    apply andb_true_iff in L. destruct L as [L _]. apply andb_true_iff in L. destruct L as [_ L].
    destruct (live_facts s o G L). split.
    + apply add_ref_G; auto; intros; discriminate.
    + apply add_ref_same. intros; discriminate.
  - (* XDelItem *)
    destruct (has (refs s) (HItem c, o) && negb (mem c (tuples s))) eqn:H; [|split; [auto|apply same_own_refl]].
    apply andb_true_iff in H. destruct H as [H Nt]. apply has_In in H. apply negb_true_iff in Nt. apply mem_false in Nt.
    split; [apply release_G; auto | apply release_other; auto].
    intros c0 o0 E. inversion E; subst. exact Nt.
Qed.

Lemma env_run_ok xs : forall s, Genv s -> Genv (env_run s xs) /\ same_own s (env_run s xs).
Proof.
  induction xs as [|x xs IH]; intros s G; cbn.
  - split; [auto | apply same_own_refl].
  - destruct (env_step_ok s x G) as [G1 S1]. destruct (IH _ G1) as [G2 S2].
    split; auto. eapply same_own_trans; eauto.
Qed.

(* ------------------------------------------------------------------ the status invariant *)
Definition VI (x : vstat) (s : st) (v : var) : Prop :=
  match x with
  | SOwned n => own_count s v = S n
  | SFresh => own_count s v = 0 /\ exists o, lookup (venv s) v = Some o /\ has_ref (refs s) o = true
  | SVia _ => own_count s v = 0
  | SStale => own_count s v = 0
  end.

(* v points to an item of the tuple t points to *)
Definition TV (s : st) (v t : var) : Prop :=
  exists o c, lookup (venv s) v = Some o /\ lookup (venv s) t = Some c /\ In c (tuples s) /\ In (HItem c, o) (refs s).

(* the tuple-item borrows: good while the tuple is owned *)
Definition VIA (d : dst) (s : st) : Prop :=
  forall v t, stat d v = SVia t -> is_owned (stat d t) = true -> TV s v t.

Record Inv (d : dst) (s : st) : Prop := mkInv {
  i_g : Genv s;
  i_v : forall v, VI (stat d v) s v;
  i_via : VIA d s;
  i_e : forall sl, In sl (d_empty d) -> slot_get s sl = None;
  i_f : forall sl, In sl (d_full d) -> slot_get s sl <> None
}.

Lemma stat_set_stat d v x w : stat (set_stat d v x) w = if Nat.eqb w v then x else stat d w.
Proof. unfold stat, set_stat. cbn. destruct (Nat.eqb w v); reflexivity. Qed.

Definition demote (x : vstat) : vstat := match x with SFresh => SStale | _ => x end.

Lemma stat_invalidate d v : stat (invalidate d) v = demote (stat d v).
Proof.
  unfold stat, invalidate. cbn. induction (d_stat d) as [|[w x] l IH]; cbn; auto.
  destruct x; cbn; destruct (Nat.eqb v w); auto.
Qed.

Lemma stat_unvia t d w :
  stat (unvia t d) w = match stat d w with SVia u => if Nat.eqb u t then SStale else SVia u | x => x end.
Proof.
  unfold stat, unvia. cbn. induction (d_stat d) as [|[k x] l IH]; cbn; auto.
  destruct (Nat.eqb w k) eqn:E.
  - destruct x; cbn; rewrite ?E; auto. destruct (Nat.eqb t0 t); cbn; rewrite E; auto.
  - destruct x; cbn; rewrite ?E; auto. destruct (Nat.eqb t0 t); cbn; rewrite E; auto.
Qed.

Lemma stat_forget d w : stat (forget d) w = match stat d w with SVia _ => SStale | x => x end.
Proof.
  unfold stat, forget. cbn. induction (d_stat d) as [|[k x] l IH]; cbn; auto.
  destruct (Nat.eqb w k) eqn:E; destruct x; cbn; rewrite ?E; auto.
Qed.

Lemma stat_reassign d v x w : stat (reassign d v x) w = if Nat.eqb w v then x else stat (unvia v d) w.
Proof. unfold reassign. apply stat_set_stat. Qed.

Lemma owned_unvia t d w : is_owned (stat (unvia t d) w) = is_owned (stat d w).
Proof. rewrite stat_unvia. destruct (stat d w); auto. destruct (Nat.eqb t0 t); auto. Qed.

Lemma VI_unvia t d s w : VI (stat d w) s w -> VI (stat (unvia t d) w) s w.
Proof. rewrite stat_unvia. destruct (stat d w); auto. destruct (Nat.eqb t0 t); auto. Qed.

(* how a step may change the tuple-item borrows: none is created, none is revived *)
Definition via_sub (d d' : dst) : Prop :=
  forall v t, stat d' v = SVia t -> is_owned (stat d' t) = true -> stat d v = SVia t /\ is_owned (stat d t) = true.

Lemma via_sub_refl d : via_sub d d.
Proof. intros v t H1 H2. auto. Qed.

Lemma via_sub_trans a b c : via_sub a b -> via_sub b c -> via_sub a c.
Proof. intros H K v t H1 H2. destruct (K v t H1 H2). auto. Qed.

Lemma via_sub_set d v x : (forall t, x <> SVia t) -> (is_owned x = true -> is_owned (stat d v) = true) ->
  via_sub d (set_stat d v x).
Proof.
  intros Nx Ox w t H1 H2. rewrite stat_set_stat in H1, H2.
  destruct (Nat.eqb w v) eqn:E1; [exfalso; eapply Nx; eauto|]. split; auto.
  destruct (Nat.eqb t v) eqn:E2; auto. apply Nat.eqb_eq in E2. subst. auto.
Qed.

Lemma via_sub_reassign d v x : (forall t, x <> SVia t) -> via_sub d (reassign d v x).
Proof.
  intros Nx w t H1 H2. rewrite stat_reassign in H1, H2.
  destruct (Nat.eqb w v) eqn:E1; [exfalso; eapply Nx; eauto|].
  rewrite stat_unvia in H1. destruct (stat d w) eqn:Es; try discriminate.
  destruct (Nat.eqb t0 v) eqn:E3; [discriminate|]. inversion H1; subst t0. split; auto.
  rewrite E3 in H2. rewrite owned_unvia in H2. exact H2.
Qed.

Lemma via_sub_invalidate d : via_sub d (invalidate d).
Proof.
  intros w t H1 H2. rewrite stat_invalidate in H1, H2. destruct (stat d w) eqn:E; try discriminate.
  cbn in H1. inversion H1; subst. split; auto. destruct (stat d t); auto.
Qed.

Lemma via_sub_forget d : via_sub d (forget d).
Proof. intros w t H1 H2. rewrite stat_forget in H1. destruct (stat d w); discriminate. Qed.

Lemma via_sub_slots d e f : via_sub d (mkD (d_stat d) e f).
Proof. intros w t H1 H2. auto. Qed.

Lemma via_sub_drop d v after d1 : drop_one d v after = Some d1 -> (forall t, after <> SVia t) ->
  is_owned after = false -> via_sub d d1.
Proof.
  unfold drop_one. intros H Na Oa. destruct (stat d v) as [| | |[|n]] eqn:Ev; try discriminate; inversion H; subst.
  - apply (via_sub_reassign d v after Na).
  - apply via_sub_set; [intros; discriminate|]. rewrite Ev. auto.
Qed.

(* counts only: what survives a may-call point *)
Definition CI (d : dst) (s : st) : Prop :=
  forall w, match stat d w with SOwned n => own_count s w = S n | _ => own_count s w = 0 end.

Lemma VI_CI d s : (forall w, VI (stat d w) s w) -> CI d s.
Proof. intros H w. specialize (H w). destruct (stat d w); cbn in H; tauto. Qed.

(* re-establishing the borrows after a transition *)
Lemma VIA_transfer d d' s s' : VIA d s -> Genv s' -> CI d' s' -> via_sub d d' ->
  (forall v t, stat d' v = SVia t -> lookup (venv s') v = lookup (venv s) v /\ lookup (venv s') t = lookup (venv s) t) ->
  incl (tuples s) (tuples s') ->
  (forall c o, In c (tuples s) -> In (HItem c, o) (refs s) -> ~ In c (freed s') -> In (HItem c, o) (refs s')) ->
  VIA d' s'.
Proof.
  intros V G C Sub Ev It Ik v t H1 H2. destruct (Sub v t H1 H2) as [K1 K2].
  destruct (V v t K1 K2) as [o [c [L1 [L2 [T Hi]]]]]. destruct (Ev v t H1) as [E1 E2].
  exists o, c. rewrite E1, E2. repeat split; auto. apply Ik; auto.
  specialize (C t). destruct (stat d' t) as [| | |n] eqn:Et; try discriminate.
  destruct (count_pos_In t s') as [c' Hc]; [lia|]. pose proof (g_var s' G t c' Hc) as Lc.
  rewrite E2, L2 in Lc. inversion Lc; subst c'. eapply g_live; eauto.
Qed.

Lemma VI_demote x s s' v : VI x s v -> own_count s' v = own_count s v -> VI (demote x) s' v.
Proof. destruct x; cbn; intros H E; rewrite E; tauto. Qed.

Lemma Inv_invalidate d s s' : Inv d s -> Genv s' -> same_own s s' -> Inv (invalidate d) s'.
Proof.
  intros I G [So [Sv [St [Sf Sk]]]].
  assert (V : forall v, VI (stat (invalidate d) v) s' v).
  { intros v. rewrite stat_invalidate. eapply VI_demote; [apply (i_v d s I) | apply So]. }
  constructor; auto; try (cbn; tauto).
  apply (VIA_transfer d (invalidate d) s s' (i_via d s I) G (VI_CI _ _ V) (via_sub_invalidate d)); auto.
  intros; rewrite Sv; auto.
Qed.

Lemma Inv_env d s xs : Inv d s -> Inv (invalidate d) (env_run s xs).
Proof.
  intros I. destruct (env_run_ok xs s (i_g d s I)). eapply Inv_invalidate; eauto.
Qed.

(* a valid variable points to a live object *)
Lemma valid_deref d s v : Inv d s -> valid d v = true ->
  exists o, lookup (venv s) v = Some o /\ ~ In o (freed s) /\ o < next s /\ has_ref (refs s) o = true
            /\ deref s v = inl (Some o).
Proof.
  intros I V. unfold valid in V. pose proof (i_v d s I v) as H. pose proof (i_g d s I) as G.
  assert (K : exists o, lookup (venv s) v = Some o /\ has_ref (refs s) o = true).
  { destruct (stat d v) eqn:Es; cbn in H; try discriminate.
    - destruct H as [_ [o [H1 H2]]]. eauto.
    - destruct (i_via d s I v t Es V) as [o [c [L1 [L2 [T Hi]]]]]. exists o. split; auto. apply has_ref_In. eauto.
    - destruct (count_pos_In v s) as [o Ho]; [lia|]. exists o. split; [eapply g_var; eauto|].
      apply has_ref_In. eauto. }
  destruct K as [o [K1 K2]]. exists o. pose proof K2 as K3. apply has_ref_In in K3. destruct K3 as [h K3].
  assert (Nf : ~ In o (freed s)) by (eapply g_live; eauto).
  repeat split; auto; [eapply g_bound; eauto|].
  unfold deref. rewrite K1. apply mem_false in Nf. rewrite Nf. reflexivity.
Qed.

Lemma owned_ref d s v n : Inv d s -> stat d v = SOwned n ->
  exists o, lookup (venv s) v = Some o /\ In (HVar v, o) (refs s) /\ own_count s v = S n.
Proof.
  intros I E. pose proof (i_v d s I v) as H. rewrite E in H. cbn in H.
  destruct (count_pos_In v s) as [o Ho]; [lia|]. exists o. split; [eapply g_var; eauto; apply I|auto].
Qed.

Lemma not_owned_count d s v : Inv d s -> is_owned (stat d v) = false -> own_count s v = 0.
Proof.
  intros I E. pose proof (i_v d s I v) as H. destruct (stat d v); cbn in *; try tauto. discriminate.
Qed.

Lemma count0_no_ref s v o : own_count s v = 0 -> ~ In (HVar v, o) (refs s).
Proof. intros E Hi. apply In_count_pos in Hi. lia. Qed.

(* ------------------------------------------------------------------ frames *)
Lemma VI_frame x s s' v : VI x s v -> own_count s' v = own_count s v ->
  lookup (venv s') v = lookup (venv s) v ->
  (forall o, has_ref (refs s) o = true -> has_ref (refs s') o = true) -> VI x s' v.
Proof.
  destruct x; cbn; intros H E1 E2 M; rewrite E1; auto.
  destruct H as [H0 [o [H1 H2]]]. split; auto. exists o. rewrite E2. auto.
Qed.

Lemma slot_get_set_var s v o sl : slot_get (set_var s v o) sl = slot_get s sl.
Proof. reflexivity. Qed.

Lemma slot_get_cons s h o sl :
  slot_get (set_refs s ((h, o) :: refs s)) sl = if holder_eqb h (HSlot sl) then Some o else slot_get s sl.
Proof. unfold slot_get. cbn. destruct (holder_eqb h (HSlot sl)); reflexivity. Qed.

Lemma find_remove1_neg (P : ref -> bool) r l : P r = false -> find P (remove1 r l) = find P l.
Proof.
  intros HP. induction l as [|y l IH]; cbn; auto.
  destruct (ref_eqb r y) eqn:E.
  - apply ref_eqb_eq in E. subst y. rewrite HP. reflexivity.
  - cbn. rewrite IH. reflexivity.
Qed.

(* moving our reference (HVar v, o) to another holder h *)
Definition moved (s : st) (v : var) (o : obj) (h : holder) : st :=
  set_refs s ((h, o) :: remove1 (HVar v, o) (refs s)).

Lemma moved_G s v o h : Genv s -> In (HVar v, o) (refs s) -> h <> HLeak -> (forall w, h <> HVar w) ->
  Genv (moved s v o h).
Proof.
  intros G Hi Hl Hv. constructor; cbn; intros.
  - destruct H as [H|H]; [inversion H; subst; eapply g_live; eauto | eapply g_live; eauto; eapply In_remove1; eauto].
  - destruct H as [H|H]; [inversion H; subst; eapply g_bound; eauto | eapply g_bound; eauto; eapply In_remove1; eauto].
  - eapply g_fbound; eauto.
  - destruct H as [H|H]; [inversion H; subst; exfalso; eapply Hv; eauto | eapply g_var; eauto; eapply In_remove1; eauto].
  - intros [H|H]; [inversion H; congruence | eapply g_noleak; eauto; eapply In_remove1; eauto].
Qed.

Lemma moved_count s v o h w : In (HVar v, o) (refs s) -> (forall u, h <> HVar u) ->
  own_count (moved s v o h) w + (if Nat.eqb w v then 1 else 0) = own_count s w.
Proof.
  intros Hi Hv. unfold own_count, moved. cbn [refs set_refs filter fst].
  assert (E : holder_eqb h (HVar w) = false) by (apply holder_eqb_neq; auto). rewrite E.
  change (fun p : holder * obj => holder_eqb (fst p) (HVar w)) with (is_var w).
  destruct (Nat.eqb w v) eqn:Ew.
  - assert (P : is_var w (HVar v, o) = true) by (unfold is_var; cbn; rewrite Nat.eqb_sym; exact Ew).
    pose proof (filter_remove1_pos (is_var w) (HVar v, o) (refs s) P Hi).
    change (if true then 1 else 0) with 1. rewrite Nat.add_1_r. exact H.
  - change (if false then 1 else 0) with 0. rewrite Nat.add_0_r.
    apply (f_equal (@length ref)). apply filter_remove1_neg. unfold is_var. cbn. rewrite Nat.eqb_sym. exact Ew.
Qed.

Lemma moved_has_ref s v o h x : has_ref (refs s) x = true -> has_ref (refs (moved s v o h)) x = true.
Proof.
  rewrite !has_ref_In. intros [h0 H]. cbn.
  destruct (ref_eqb (h0, x) (HVar v, o)) eqn:E.
  - apply ref_eqb_eq in E. inversion E; subst. exists h. left; auto.
  - exists h0. right. apply In_remove1_neq; auto. intros F. rewrite F in E.
    assert (ref_eqb (HVar v, o) (HVar v, o) = true) by (apply ref_eqb_eq; auto). congruence.
Qed.

Lemma moved_slot s v o h sl :
  slot_get (moved s v o h) sl = if holder_eqb h (HSlot sl) then Some o else slot_get s sl.
Proof.
  unfold slot_get, moved. cbn [refs set_refs find fst].
  destruct (holder_eqb h (HSlot sl)); auto.
  rewrite find_remove1_neg; auto.
Qed.

Lemma hand_over_moved s v o h : In (HVar v, o) (refs s) -> hand_over s v o h = Some (moved s v o h).
Proof. intros H. unfold hand_over. apply has_In in H. rewrite H. reflexivity. Qed.

Lemma moved_item s v o h c x : In (HItem c, x) (refs s) -> In (HItem c, x) (refs (moved s v o h)).
Proof. intros H. cbn. right. apply In_remove1_neq; auto. discriminate. Qed.

(* the status of v after giving up one reference *)
Lemma drop_one_inv d s v after d1 o h :
  Inv d s -> drop_one d v after = Some d1 -> lookup (venv s) v = Some o -> In (HVar v, o) (refs s) ->
  h <> HLeak -> (forall w, h <> HVar w) ->
  (after = SFresh \/ after = SStale) ->
  Genv (moved s v o h) /\
  (forall w, VI (stat d1 w) (moved s v o h) w) /\
  VIA d1 (moved s v o h) /\
  venv (moved s v o h) = venv s.
Proof.
  intros I Dr Lv Hi Hl Hv Ha.
  assert (G' : Genv (moved s v o h)) by (apply moved_G; auto; apply I).
  assert (V' : forall w, VI (stat d1 w) (moved s v o h) w).
  { intros w. pose proof (moved_count s v o h w Hi Hv) as C. pose proof (i_v d s I w) as Hw.
    unfold drop_one in Dr. destruct (stat d v) as [| | |[|n]] eqn:Ev; try discriminate; inversion Dr; subst d1; clear Dr;
      rewrite stat_set_stat; destruct (Nat.eqb w v) eqn:Ew.
    - apply Nat.eqb_eq in Ew. subst w. rewrite Ev in Hw. cbn in Hw.
      destruct Ha as [-> | ->]; cbn [VI].
      + split; [lia|]. exists o. split; auto. apply has_ref_In. exists h. left; auto.
      + lia.
    - apply VI_unvia. eapply VI_frame; eauto; [lia | intros; apply moved_has_ref; auto].
    - apply Nat.eqb_eq in Ew. subst w. rewrite Ev in Hw. cbn in Hw. cbn [VI]. lia.
    - eapply VI_frame; eauto; [lia | intros; apply moved_has_ref; auto]. }
  split; auto. split; auto. split; [|reflexivity].
  apply (VIA_transfer d d1 s (moved s v o h) (i_via d s I) G' (VI_CI _ _ V')); auto.
  - eapply via_sub_drop; eauto; destruct Ha as [-> | ->]; try (intros; discriminate); reflexivity.
  - apply incl_refl.
  - intros c x _ Hx _. apply moved_item; auto.
Qed.

(* changing the holder of an existing reference that is not ours *)
Definition retag (s : st) (h1 : holder) (o : obj) (h2 : holder) : st :=
  set_refs s ((h2, o) :: remove1 (h1, o) (refs s)).

Lemma retag_G s h1 o h2 : Genv s -> In (h1, o) (refs s) -> h2 <> HLeak -> (forall w, h2 <> HVar w) ->
  Genv (retag s h1 o h2).
Proof.
  intros G Hi Hl Hv. constructor; cbn; intros.
  - destruct H as [H|H]; [inversion H; subst; eapply g_live; eauto | eapply g_live; eauto; eapply In_remove1; eauto].
  - destruct H as [H|H]; [inversion H; subst; eapply g_bound; eauto | eapply g_bound; eauto; eapply In_remove1; eauto].
  - eapply g_fbound; eauto.
  - destruct H as [H|H]; [inversion H; subst; exfalso; eapply Hv; eauto | eapply g_var; eauto; eapply In_remove1; eauto].
  - intros [H|H]; [inversion H; congruence | eapply g_noleak; eauto; eapply In_remove1; eauto].
Qed.

Lemma retag_count s h1 o h2 w : (forall u, h1 <> HVar u) -> (forall u, h2 <> HVar u) ->
  own_count (retag s h1 o h2) w = own_count s w.
Proof.
  intros N1 N2. unfold own_count, retag. cbn [refs set_refs filter fst].
  assert (E : holder_eqb h2 (HVar w) = false) by (apply holder_eqb_neq; auto). rewrite E.
  apply (f_equal (@length ref)). apply filter_remove1_neg. cbn. apply holder_eqb_neq; auto.
Qed.

Lemma Inv_CI d s : Inv d s -> CI d s.
Proof. intros I. apply VI_CI. apply I. Qed.

Lemma CI_env d s xs : Genv s -> CI d s -> VIA d s -> Inv (invalidate d) (env_run s xs).
Proof.
  intros G C V. destruct (env_run_ok xs s G) as [G' [So [Sv [St [Sf Sk]]]]].
  assert (C' : CI (invalidate d) (env_run s xs)).
  { intros v. rewrite stat_invalidate. specialize (C v). rewrite <- So in C. destruct (stat d v); cbn; auto. }
  constructor; auto; try (cbn; tauto).
  - intros v. specialize (C' v). destruct (stat (invalidate d) v) eqn:E; cbn; auto.
    rewrite stat_invalidate in E. destruct (stat d v); discriminate.
  - apply (VIA_transfer d (invalidate d) s _ V G' C' (via_sub_invalidate d)); auto. intros; rewrite Sv; auto.
Qed.

Lemma CI_drop d s s' v after d1 : CI d s -> drop_one d v after = Some d1 ->
  (after = SFresh \/ after = SStale) ->
  (forall w, own_count s' w + (if Nat.eqb w v then 1 else 0) = own_count s w) -> CI d1 s'.
Proof.
  intros C Dr Ha Hc w. specialize (C w). specialize (Hc w). unfold drop_one in Dr.
  destruct (stat d v) as [| | |[|n]] eqn:Ev; try discriminate; inversion Dr; subst d1; clear Dr;
    rewrite stat_set_stat; destruct (Nat.eqb w v) eqn:Ew.
  - apply Nat.eqb_eq in Ew. subst w. rewrite Ev in C. destruct Ha as [-> | ->]; lia.
  - rewrite stat_unvia. destruct (stat d w); try lia. destruct (Nat.eqb t v); lia.
  - apply Nat.eqb_eq in Ew. subst w. rewrite Ev in C. lia.
  - destruct (stat d w); lia.
Qed.

(* the borrows survive our own release of a reference, as far as their tuples stay owned *)
Lemma VIA_release d d1 s r : VIA d s -> In r (refs s) -> (forall c o, r <> (HItem c, o)) ->
  Genv (release s r) -> CI d1 (release s r) -> via_sub d d1 -> VIA d1 (release s r).
Proof.
  intros V Hr Nr G C Sub. apply (VIA_transfer d d1 s (release s r) V G C Sub).
  - intros. rewrite release_venv. auto.
  - rewrite release_tuples. apply incl_refl.
  - intros c o _ Hi Nf. apply release_item_kept; auto.
Qed.

Lemma lookup_cons {A} v (o : A) l w : lookup ((v, o) :: l) w = if Nat.eqb w v then Some o else lookup l w.
Proof. reflexivity. Qed.

(* v := a pointer of status x (not owned) to the object o; x's own clause is proved by the caller *)
Lemma Inv_set_var d s v o x : Inv d s -> is_owned (stat d v) = false -> is_owned x = false ->
  VI x (set_var s v o) v ->
  (forall t, x = SVia t -> is_owned (stat d t) = true -> t <> v /\ TV (set_var s v o) v t) ->
  Inv (reassign d v x) (set_var s v o).
Proof.
  intros I No Nx Vx Tx. pose proof (not_owned_count d s v I No) as C0. pose proof (i_g d s I) as G.
  assert (G' : Genv (set_var s v o)).
  { constructor; cbn.
    + apply G. + apply G. + apply G.
    + intros w o' H. destruct (Nat.eqb w v) eqn:E.
      * apply Nat.eqb_eq in E. subst w. exfalso. eapply count0_no_ref; eauto.
      * eapply g_var; eauto.
    + apply G. }
  assert (V' : forall w, VI (stat (reassign d v x) w) (set_var s v o) w).
  { intros w. rewrite stat_reassign. destruct (Nat.eqb w v) eqn:E.
    + apply Nat.eqb_eq in E. subst w. exact Vx.
    + apply VI_unvia. eapply VI_frame; [apply (i_v d s I) | reflexivity | cbn; rewrite E; reflexivity | auto]. }
  constructor; auto.
  - intros w t H1 H2. rewrite stat_reassign in H1. destruct (Nat.eqb w v) eqn:E.
    + apply Nat.eqb_eq in E. subst w x. rewrite stat_reassign in H2.
      destruct (Nat.eqb t v) eqn:E2; [rewrite Nx in H2; discriminate|]. rewrite owned_unvia in H2.
      apply (Tx t eq_refl H2).
    + rewrite stat_unvia in H1. destruct (stat d w) eqn:Es; try discriminate.
      destruct (Nat.eqb t0 v) eqn:E3; [discriminate|]. inversion H1; subst t0.
      rewrite stat_reassign, E3, owned_unvia in H2.
      destruct (i_via d s I w t Es H2) as [o1 [c [L1 [L2 [T Hi]]]]]. exists o1, c. cbn. rewrite E, E3. auto.
  - intros sl Hs. rewrite slot_get_set_var. apply (i_e d s I). exact Hs.
  - intros sl Hs. rewrite slot_get_set_var. apply (i_f d s I). exact Hs.
Qed.

(* v := a new reference to o (an existing object, or a fresh one born with the items l) *)
Lemma Inv_newref d s v o n' tp l : Inv d s -> is_owned (stat d v) = false ->
  ~ In o (freed s) -> o < n' -> next s <= n' ->
  (forall i, In i l -> has_ref (refs s) i = true) ->
  incl (tuples s) tp ->
  Inv (reassign d v (SOwned 0))
      (mkSt ((HVar v, o) :: map (fun i => (HItem o, i)) l ++ refs s) (freed s) tp n' ((v, o) :: venv s)).
Proof.
  intros I No Nf Hb Hn Hl Htp. pose proof (not_owned_count d s v I No) as C0. pose proof (i_g d s I) as G.
  set (its := map (fun i => (HItem o, i)) l).
  assert (Hits : forall x, In x its -> exists i, x = (HItem o, i) /\ has_ref (refs s) i = true).
  { intros x Hx. apply in_map_iff in Hx. destruct Hx as [i [E Hi]]. exists i. split; auto. }
  set (s' := mkSt ((HVar v, o) :: its ++ refs s) (freed s) tp n' ((v, o) :: venv s)).
  assert (G' : Genv s').
  { constructor; cbn.
    + intros h x [H|H]; [inversion H; subst; auto|]. apply in_app_or in H. destruct H as [H|H]; [|eapply g_live; eauto].
      destruct (Hits _ H) as [i [E L]]. inversion E; subst. apply (live_facts s i G L).
    + intros h x [H|H]; [inversion H; subst; auto|]. apply in_app_or in H. destruct H as [H|H]; [|apply (g_bound s G) in H; lia].
      destruct (Hits _ H) as [i [E L]]. inversion E; subst. destruct (live_facts s i G L). lia.
    + intros x H. apply (g_fbound s G) in H. lia.
    + intros w x [H|H].
      * inversion H; subst. rewrite Nat.eqb_refl. reflexivity.
      * apply in_app_or in H. destruct H as [H|H]; [destruct (Hits _ H) as [i [E _]]; inversion E|].
        destruct (Nat.eqb w v) eqn:E.
        -- apply Nat.eqb_eq in E. subst w. exfalso. eapply count0_no_ref; eauto.
        -- eapply g_var; eauto.
    + intros x [H|H]; [inversion H|]. apply in_app_or in H. destruct H as [H|H]; [|eapply g_noleak; eauto].
      destruct (Hits _ H) as [i [E _]]. inversion E. }
  assert (Cn : forall w, own_count s' w = own_count s w + (if Nat.eqb w v then 1 else 0)).
  { intros w. unfold own_count, s', its. cbn [refs filter fst holder_eqb]. rewrite (Nat.eqb_sym v w).
    change (fun p : holder * obj => holder_eqb (fst p) (HVar w)) with (is_var w).
    rewrite filter_var_items. destruct (Nat.eqb w v); cbn [length]; [rewrite Nat.add_1_r | rewrite Nat.add_0_r]; reflexivity. }
  assert (V' : forall w, VI (stat (reassign d v (SOwned 0)) w) s' w).
  { intros w. rewrite stat_reassign. destruct (Nat.eqb w v) eqn:E.
    + apply Nat.eqb_eq in E. subst w. cbn [VI]. rewrite Cn, Nat.eqb_refl. lia.
    + apply VI_unvia. eapply VI_frame; [apply (i_v d s I) | | cbn; rewrite E; reflexivity | ].
      * rewrite Cn, E. lia.
      * intros x Hx. apply has_ref_In in Hx. destruct Hx as [h Hx]. apply has_ref_In. exists h. right. apply in_or_app. right. exact Hx. }
  constructor; auto.
  - apply (VIA_transfer d _ s s' (i_via d s I) G' (VI_CI _ _ V') (via_sub_reassign d v (SOwned 0) ltac:(intros; discriminate))); auto.
    + intros w t H1. rewrite stat_reassign in H1. cbn.
      destruct (Nat.eqb w v) eqn:E; [discriminate|]. rewrite stat_unvia in H1.
      destruct (stat d w); try discriminate. destruct (Nat.eqb t0 v) eqn:E3; [discriminate|]. inversion H1; subst. rewrite E3. auto.
    + intros c x _ Hx _. right. apply in_or_app. right. exact Hx.
  - intros sl Hs. apply (i_e d s I) in Hs. apply slot_get_None. intros x [H|H]; [inversion H|].
    apply in_app_or in H. destruct H as [H|H]; [destruct (Hits _ H) as [i [E _]]; inversion E|].
    apply (proj1 (slot_get_None s sl) Hs x H).
  - intros sl Hs. pose proof (i_f d s I sl Hs) as F. destruct (slot_get s sl) as [x|] eqn:E; [|congruence].
    apply slot_get_In in E. intros N. apply (proj1 (slot_get_None _ sl) N x). right. apply in_or_app. right. exact E.
Qed.

(* v's reference moves to the variable r (which holds nothing) *)
Lemma moveref_inv d s r v d1 o :
  Inv d s -> is_owned (stat d r) = false -> r <> v -> drop_one d v SStale = Some d1 ->
  lookup (venv s) v = Some o -> In (HVar v, o) (refs s) ->
  Inv (reassign d1 r (SOwned 0))
      (mkSt ((HVar r, o) :: remove1 (HVar v, o) (refs s)) (freed s) (tuples s) (next s) ((r, o) :: venv s)).
Proof.
  intros I Nr Nrv Dr Lv Hi. pose proof (i_g d s I) as G.
  pose proof (not_owned_count d s r I Nr) as Cr.
  set (s' := mkSt ((HVar r, o) :: remove1 (HVar v, o) (refs s)) (freed s) (tuples s) (next s) ((r, o) :: venv s)).
  assert (Cnt : forall w, own_count s' w + (if Nat.eqb w v then 1 else 0) = own_count s w + (if Nat.eqb w r then 1 else 0)).
  { intros w. unfold own_count, s'. cbn [refs filter fst holder_eqb].
    change (fun p : holder * obj => holder_eqb (fst p) (HVar w)) with (is_var w).
    rewrite (Nat.eqb_sym r w).
    assert (E : length (filter (is_var w) (remove1 (HVar v, o) (refs s))) + (if Nat.eqb w v then 1 else 0)
                = length (filter (is_var w) (refs s))).
    { destruct (Nat.eqb w v) eqn:Ew.
      - assert (P : is_var w (HVar v, o) = true) by (unfold is_var; cbn; rewrite Nat.eqb_sym; exact Ew).
        pose proof (filter_remove1_pos (is_var w) (HVar v, o) (refs s) P Hi) as H. rewrite Nat.add_1_r. exact H.
      - rewrite Nat.add_0_r. apply (f_equal (@length ref)). apply filter_remove1_neg.
        unfold is_var. cbn. rewrite Nat.eqb_sym. exact Ew. }
    destruct (Nat.eqb w r); cbn [length].
    - rewrite Nat.add_1_r. cbn [Nat.add]. f_equal. exact E.
    - rewrite Nat.add_0_r. exact E. }
  assert (G' : Genv s').
  { constructor; cbn.
    + intros h x [H|H]; [inversion H; subst; eapply g_live; eauto | eapply g_live; eauto; eapply In_remove1; eauto].
    + intros h x [H|H]; [inversion H; subst; eapply g_bound; eauto | eapply g_bound; eauto; eapply In_remove1; eauto].
    + apply G.
    + intros w x [H|H].
      * inversion H; subst. rewrite Nat.eqb_refl. reflexivity.
      * apply In_remove1 in H. destruct (Nat.eqb w r) eqn:E.
        -- apply Nat.eqb_eq in E. subst w. exfalso. eapply count0_no_ref; eauto.
        -- eapply g_var; eauto.
    + intros x [H|H]; [inversion H | eapply g_noleak; eauto; eapply In_remove1; eauto]. }
  assert (Mono : forall x, has_ref (refs s) x = true -> has_ref (refs s') x = true).
  { intros x Hx. exact (moved_has_ref s v o (HVar r) x Hx). }
  assert (Sub1 : via_sub d d1).
  { apply (via_sub_drop d v SStale d1 Dr); [intros; discriminate | reflexivity]. }
  assert (V1 : forall w, w <> r -> VI (stat d1 w) s' w).
  { intros w Nw. specialize (Cnt w). pose proof (i_v d s I w) as Hw.
    assert (Er : Nat.eqb w r = false) by (apply Nat.eqb_neq; auto). rewrite Er in Cnt.
    unfold drop_one in Dr. destruct (stat d v) as [| | |[|n]] eqn:Ev; try discriminate; inversion Dr; subst d1;
      rewrite stat_set_stat; destruct (Nat.eqb w v) eqn:Ew.
    - apply Nat.eqb_eq in Ew. subst w. rewrite Ev in Hw. cbn in Hw. cbn [VI]. lia.
    - apply VI_unvia. eapply VI_frame; eauto; [lia | cbn; rewrite Er; reflexivity].
    - apply Nat.eqb_eq in Ew. subst w. rewrite Ev in Hw. cbn in Hw. cbn [VI]. lia.
    - eapply VI_frame; eauto; [lia | cbn; rewrite Er; reflexivity]. }
  assert (V' : forall w, VI (stat (reassign d1 r (SOwned 0)) w) s' w).
  { intros w. rewrite stat_reassign. destruct (Nat.eqb w r) eqn:Er.
    - apply Nat.eqb_eq in Er. subst w. cbn [VI]. specialize (Cnt r).
      assert (Nat.eqb r v = false) by (apply Nat.eqb_neq; auto). rewrite H, Nat.eqb_refl in Cnt. lia.
    - apply VI_unvia. apply V1. apply Nat.eqb_neq; auto. }
  constructor; auto.
  - apply (VIA_transfer d _ s s' (i_via d s I) G' (VI_CI _ _ V')
             (via_sub_trans _ _ _ Sub1 (via_sub_reassign d1 r (SOwned 0) ltac:(intros; discriminate)))); auto.
    + intros w t H1. rewrite stat_reassign in H1. cbn.
      destruct (Nat.eqb w r) eqn:E; [discriminate|]. rewrite stat_unvia in H1.
      destruct (stat d1 w); try discriminate. destruct (Nat.eqb t0 r) eqn:E3; [discriminate|]. inversion H1; subst. rewrite E3. auto.
    + apply incl_refl.
    + intros c x _ Hx _. right. apply In_remove1_neq; auto. discriminate.
  - intros sl Hs. assert (Hs' : In sl (d_empty d)).
    { unfold drop_one in Dr. destruct (stat d v) as [| | |[|n]]; try discriminate; inversion Dr; subst; exact Hs. }
    apply (i_e d s I) in Hs'. unfold slot_get in *. cbn. rewrite find_remove1_neg; auto.
  - intros sl Hs. assert (Hs' : In sl (d_full d)).
    { unfold drop_one in Dr. destruct (stat d v) as [| | |[|n]]; try discriminate; inversion Dr; subst; exact Hs. }
    apply (i_f d s I) in Hs'. unfold slot_get in *. cbn. rewrite find_remove1_neg; auto.
Qed.

Definition not_return (e : ev) : Prop := match e with EReturn _ => False | _ => True end.

Lemma with_obj_ok s v o f : deref s v = inl (Some o) -> with_obj s v f = f o.
Proof. unfold with_obj. intros ->. reflexivity. Qed.

Lemma VI_fresh_set s v o : own_count s v = 0 -> has_ref (refs s) o = true -> VI SFresh (set_var s v o) v.
Proof. intros C H. cbn. split; auto. exists o. rewrite Nat.eqb_refl. auto. Qed.

(* a reference that is not ours and not a slot's is added *)
Lemma Inv_add_ref d s h o : Inv d s -> has_ref (refs s) o = true -> (forall v, h <> HVar v) -> h <> HLeak ->
  (forall sl, h <> HSlot sl) -> Inv d (add_ref s (h, o)).
Proof.
  intros I L Nv Nl Ns. pose proof (i_g d s I) as G. destruct (live_facts s o G L) as [Nf Hb].
  assert (G' : Genv (add_ref s (h, o))) by (apply add_ref_G; auto; intros v E; exfalso; eapply Nv; eauto).
  assert (V' : forall w, VI (stat d w) (add_ref s (h, o)) w).
  { intros w. eapply VI_frame; [apply (i_v d s I) | | reflexivity | intros x Hx; apply has_ref_cons; exact Hx].
    rewrite add_ref_count. rewrite (holder_eqb_neq h (HVar w)) by auto. lia. }
  constructor; auto.
  - apply (VIA_transfer d d s _ (i_via d s I) G' (VI_CI _ _ V') (via_sub_refl d)); auto.
    + apply incl_refl.
    + intros c x _ Hx _. right. exact Hx.
  - intros sl Hs. apply (i_e d s I) in Hs. unfold slot_get in *. cbn. rewrite (holder_eqb_neq h (HSlot sl)) by auto. exact Hs.
  - intros sl Hs. apply (i_f d s I) in Hs. unfold slot_get in *. cbn. rewrite (holder_eqb_neq h (HSlot sl)) by auto. exact Hs.
Qed.

Lemma drop_slots d v after d1 : drop_one d v after = Some d1 -> d_empty d1 = d_empty d /\ d_full d1 = d_full d.
Proof. unfold drop_one. destruct (stat d v) as [| | |[|n]]; intros H; inversion H; auto. Qed.

Lemma drop_owned d v after d1 : drop_one d v after = Some d1 -> exists n, stat d v = SOwned n.
Proof. unfold drop_one. destruct (stat d v); intros H; try discriminate. eauto. Qed.

Lemma step_ok strict orc d s k e d' : Inv d s -> dstep strict d e = Some d' -> not_return e ->
  match step strict orc s k e with
  | Running s' _ => Inv d' s'
  | Infeasible => True
  | _ => False
  end.
Proof.
  intros I Ds NR. pose proof (i_g d s I) as G. destruct e; cbn [dstep] in Ds; cbn [step].
  - (* EFetchSlot *)
    destruct (negb (is_owned (stat d v)) && mem s0 (d_full d)) eqn:C; [|discriminate]. inversion Ds; subst d'.
    apply andb_true_iff in C. destruct C as [C1 C2]. apply negb_true_iff in C1. apply mem_In in C2.
    pose proof (i_f d s I _ C2) as F. destruct (slot_get s s0) as [o|] eqn:E; [|congruence].
    apply Inv_set_var; auto; [|intros; discriminate].
    apply VI_fresh_set; [eapply not_owned_count; eauto|]. apply has_ref_In. exists (HSlot s0). apply slot_get_In; auto.
  - (* EFetchItem *)
    destruct (negb (is_owned (stat d v)) && valid d d0) eqn:C; [|discriminate]. inversion Ds; subst d'.
    apply andb_true_iff in C. destruct C as [C1 C2]. apply negb_true_iff in C1.
    destruct (valid_deref d s d0 I C2) as [c [_ [_ [_ [_ Dc]]]]]. rewrite (with_obj_ok _ _ _ _ Dc).
    destruct (nth_error (items_of s c) (o_pick orc k)) as [o|] eqn:E; auto.
    apply nth_error_In in E. unfold items_of in E. apply in_map_iff in E. destruct E as [[h o'] [E1 E2]].
    cbn in E1. subst o'. apply filter_In in E2. destruct E2 as [E2 _].
    apply Inv_set_var; auto; [|intros; discriminate].
    apply VI_fresh_set; [eapply not_owned_count; eauto|]. apply has_ref_In. eauto.
  - (* EFetchTuple *)
    destruct (negb (is_owned (stat d v)) && is_owned (stat d t) && negb (Nat.eqb v t)) eqn:C; [|discriminate].
    inversion Ds; subst d'. apply andb_true_iff in C. destruct C as [C C3]. apply andb_true_iff in C. destruct C as [C1 C2].
    apply negb_true_iff in C1, C3. apply Nat.eqb_neq in C3.
    assert (Vt : valid d t = true) by (unfold valid; destruct (stat d t); auto; discriminate).
    destruct (valid_deref d s t I Vt) as [c [Lt [_ [_ [_ Dc]]]]]. rewrite (with_obj_ok _ _ _ _ Dc).
    destruct (mem c (tuples s)) eqn:Mt; auto. apply mem_In in Mt.
    destruct (nth_error (items_of s c) (o_pick orc k)) as [o|] eqn:E; auto.
    apply nth_error_In in E. unfold items_of in E. apply in_map_iff in E. destruct E as [[h o'] [E1 E2]].
    cbn in E1. subst o'. apply filter_In in E2. destruct E2 as [E2 Eh]. cbn in Eh. apply holder_eqb_eq in Eh. subst h.
    apply Inv_set_var; auto.
    + cbn. eapply not_owned_count; eauto.
    + intros t0 Et _. inversion Et; subst t0. split; [auto|]. exists o, c. cbn. rewrite Nat.eqb_refl.
      assert (Nat.eqb t v = false) by (apply Nat.eqb_neq; auto). rewrite H. auto.
  - (* EForget *)
    inversion Ds; subst d'. constructor; auto.
    + intros w. rewrite stat_forget. pose proof (i_v d s I w) as H. destruct (stat d w); auto.
    + intros w t H1 _. rewrite stat_forget in H1. destruct (stat d w); discriminate.
    + apply I.
    + apply I.
  - (* ENewRef *)
    destruct (negb (is_owned (stat d v))) eqn:C; [|discriminate]. inversion Ds; subst d'.
    apply negb_true_iff in C. destruct (live s (o_pick orc k)) eqn:L.
    + destruct (live_facts s _ G L).
      apply (Inv_newref d s v (o_pick orc k) (next s) (tuples s) []); auto; try (intros i []); apply incl_refl.
    + unfold alloc. cbn [fst snd set_var refs freed tuples next venv].
      apply (Inv_newref d s v (next s) (S (next s))
               (if fst (o_new orc k) then next s :: tuples s else tuples s)
               (filter (fun i => has_ref (refs s) i) (snd (o_new orc k)))); auto;
        try (intros F; apply (g_fbound s G) in F; lia);
        try (intros i Hi; apply filter_In in Hi; tauto).
      destruct (fst (o_new orc k)); [apply incl_tl|]; apply incl_refl.
  - (* EIncref *)
    destruct (valid d v) eqn:V; [|discriminate]. inversion Ds; subst d'. clear Ds.
    destruct (valid_deref d s v I V) as [o [Lv [Nf [Hb [Hr Dv]]]]]. rewrite (with_obj_ok _ _ _ _ Dv).
    set (d' := match stat d v with SOwned n => set_stat d v (SOwned (S n)) | _ => reassign d v (SOwned 0) end).
    assert (G' : Genv (add_ref s (HVar v, o))).
    { apply add_ref_G; auto. intros w E. inversion E; subst. auto. discriminate. }
    assert (AC : forall w, own_count (add_ref s (HVar v, o)) w = own_count s w + (if Nat.eqb w v then 1 else 0)).
    { intros w. rewrite add_ref_count. cbn. rewrite (Nat.eqb_sym v w). reflexivity. }
    assert (Sub : via_sub d d').
    { unfold d'. destruct (stat d v) eqn:Es; try (apply via_sub_reassign; intros; discriminate).
      apply via_sub_set; [intros; discriminate | rewrite Es; auto]. }
    assert (V' : forall w, VI (stat d' w) (add_ref s (HVar v, o)) w).
    { intros w. specialize (AC w). pose proof (i_v d s I w) as Hw. unfold d'.
      destruct (Nat.eqb w v) eqn:E.
      - apply Nat.eqb_eq in E. subst w. unfold valid in V.
        cbv iota in AC.
        destruct (stat d v) eqn:Es; try discriminate; rewrite ?stat_reassign, ?stat_set_stat, Nat.eqb_refl; cbn [VI] in *.
        + destruct Hw as [Hw0 _]. lia.
        + lia.
        + lia.
      - assert (F : VI (stat d w) (add_ref s (HVar v, o)) w).
        { eapply VI_frame; eauto; [lia | intros x Hx; apply has_ref_cons; exact Hx]. }
        destruct (stat d v); rewrite ?stat_reassign, ?stat_set_stat, E; try apply VI_unvia; exact F. }
    constructor; auto.
    + apply (VIA_transfer d d' s _ (i_via d s I) G' (VI_CI _ _ V') Sub); auto.
      * apply incl_refl.
      * intros c x _ Hx _. right. exact Hx.
    + intros sl Hs. assert (Hs' : In sl (d_empty d)) by (unfold d' in Hs; destruct (stat d v); exact Hs).
      apply (i_e d s I) in Hs'. unfold slot_get in *. cbn. exact Hs'.
    + intros sl Hs. assert (Hs' : In sl (d_full d)) by (unfold d' in Hs; destruct (stat d v); exact Hs).
      apply (i_f d s I) in Hs'. unfold slot_get in *. cbn. exact Hs'.
  - (* EDecref *)
    destruct (drop_one d v SStale) as [d1|] eqn:Dr; [|discriminate]. inversion Ds; subst d'.
    destruct (drop_owned _ _ _ _ Dr) as [n Ow]. destruct (owned_ref d s v n I Ow) as [o [Lv [Hi _]]]. rewrite Lv.
    pose proof Hi as Hh. apply has_In in Hh. rewrite Hh.
    assert (G1 : Genv (release s (HVar v, o))) by (apply release_G; auto).
    assert (C1 : CI d1 (release s (HVar v, o))).
    { eapply CI_drop; [apply Inv_CI; eauto | eauto | auto |].
      intros w. pose proof (release_count s (HVar v, o) w Hi) as RC. unfold is_var in RC. cbn in RC.
      rewrite (Nat.eqb_sym v w) in RC. exact RC. }
    apply CI_env; auto.
    apply (VIA_release d d1 s _ (i_via d s I) Hi); auto; [intros; discriminate|].
    apply (via_sub_drop d v SStale d1 Dr); [intros; discriminate | reflexivity].
  - (* EMayCall *) inversion Ds; subst d'. apply Inv_env; auto.
  - (* EKeyCall *) inversion Ds; subst d'. destruct strict; [apply Inv_env; auto | auto].
  - (* EUse *)
    destruct (valid d v) eqn:V; [|discriminate]. inversion Ds; subst d'.
    destruct (valid_deref d s v I V) as [o [_ [_ [_ [_ Dv]]]]]. rewrite (with_obj_ok _ _ _ _ Dv). auto.
  - (* EStoreItem *)
    destruct (valid d d0 && valid d v) eqn:V; [|discriminate]. inversion Ds; subst d'.
    apply andb_true_iff in V. destruct V as [V1 V2].
    destruct (valid_deref d s d0 I V1) as [c [_ [_ [_ [_ Dc]]]]]. rewrite (with_obj_ok _ _ _ _ Dc).
    destruct (valid_deref d s v I V2) as [o [_ [Nf [Hb [Hr Dv]]]]]. rewrite (with_obj_ok _ _ _ _ Dv).
    apply Inv_add_ref; auto; intros; discriminate.
  - (* EStealItem *)
    destruct (valid d d0 && negb (Nat.eqb d0 v)) eqn:V; [|discriminate].
    apply andb_true_iff in V. destruct V as [V1 _].
    destruct (valid_deref d s d0 I V1) as [c [_ [_ [_ [_ Dc]]]]]. rewrite (with_obj_ok _ _ _ _ Dc).
    destruct (drop_owned _ _ _ _ Ds) as [n Ow]. destruct (owned_ref d s v n I Ow) as [o [Lv [Hi _]]]. rewrite Lv.
    rewrite (hand_over_moved s v o (HItem c) Hi).
    destruct (drop_one_inv d s v SFresh d' o (HItem c) I Ds Lv Hi) as [G' [V' [A' _]]]; try discriminate; auto.
    destruct (drop_slots _ _ _ _ Ds) as [Es1 Es2]. constructor; auto.
    + intros sl Hs. rewrite Es1 in Hs. rewrite moved_slot. cbn. apply (i_e d s I); auto.
    + intros sl Hs. rewrite Es2 in Hs. rewrite moved_slot. cbn. apply (i_f d s I); auto.
  - (* EStoreSlot *)
    destruct (mem s0 (d_empty d)) eqn:M; [|discriminate]. apply mem_In in M.
    destruct (drop_one d v SFresh) as [d1|] eqn:Dr; [|discriminate]. inversion Ds; subst d'. clear Ds.
    destruct (drop_owned _ _ _ _ Dr) as [n Ow]. destruct (owned_ref d s v n I Ow) as [o [Lv [Hi _]]]. rewrite Lv.
    rewrite (i_e d s I _ M). rewrite (hand_over_moved s v o (HSlot s0) Hi).
    destruct (drop_one_inv d s v SFresh d1 o (HSlot s0) I Dr Lv Hi) as [G' [V' [A' _]]]; try discriminate; auto.
    destruct (drop_slots _ _ _ _ Dr) as [Es1 Es2]. constructor; auto.
    + intros sl Hs. cbn in Hs. rewrite Es1 in Hs. unfold remove_nat in Hs. apply filter_In in Hs.
      destruct Hs as [Hs Hn]. rewrite moved_slot. cbn. apply negb_true_iff in Hn. rewrite Hn.
      apply (i_e d s I); auto.
    + intros sl Hs. cbn in Hs. rewrite moved_slot. cbn. destruct (Nat.eqb s0 sl) eqn:E; [discriminate|].
      destruct Hs as [Hs|Hs]; [subst; rewrite Nat.eqb_refl in E; discriminate|].
      rewrite Es2 in Hs. apply (i_f d s I); auto.
  - (* ESwapSlot *)
    destruct (drop_one d v SFresh) as [d1|] eqn:Dr; [|discriminate]. inversion Ds; subst d'. clear Ds.
    destruct (drop_owned _ _ _ _ Dr) as [n Ow]. destruct (owned_ref d s v n I Ow) as [o [Lv [Hi _]]]. rewrite Lv.
    assert (Sub : via_sub d d1) by (apply (via_sub_drop d v SFresh d1 Dr); [intros; discriminate | reflexivity]).
    destruct (slot_get s s0) as [old|] eqn:Sg.
    + apply slot_get_In in Sg.
      change (set_refs s ((HExt, old) :: remove1 (HSlot s0, old) (refs s))) with (retag s (HSlot s0) old HExt).
      assert (G0 : Genv (retag s (HSlot s0) old HExt)).
      { apply retag_G; auto; intros; discriminate. }
      assert (Hi0 : In (HVar v, o) (refs (retag s (HSlot s0) old HExt))).
      { cbn. right. apply In_remove1_neq; auto. discriminate. }
      rewrite (hand_over_moved _ v o (HSlot s0) Hi0).
      assert (He : In (HExt, old) (refs (moved (retag s (HSlot s0) old HExt) v o (HSlot s0)))).
      { cbn. right. destruct (ref_eqb (HVar v, o) (HExt, old)) eqn:Er; [cbn in Er; discriminate|]. left; auto. }
      set (s3 := release (moved (retag s (HSlot s0) old HExt) v o (HSlot s0)) (HExt, old)).
      assert (G3 : Genv s3) by (apply release_G; auto; apply moved_G; auto; intros; discriminate).
      assert (C3 : CI d1 s3).
      { eapply CI_drop; [apply Inv_CI; eauto | eauto | auto |].
        intros w. pose proof (release_count _ (HExt, old) w He) as RC. change (is_var w (HExt, old)) with false in RC. cbv iota in RC.
        pose proof (moved_count (retag s (HSlot s0) old HExt) v o (HSlot s0) w Hi0) as MC.
        rewrite retag_count in MC by (intros; discriminate). specialize (MC ltac:(intros; discriminate)).
        fold s3 in RC. destruct (Nat.eqb w v); lia. }
      apply CI_env; auto.
      apply (VIA_transfer d d1 s s3 (i_via d s I) G3 C3 Sub).
      * intros. unfold s3. rewrite release_venv. auto.
      * unfold s3. rewrite release_tuples. apply incl_refl.
      * intros c x _ Hx Nf. unfold s3 in *. apply release_item_kept; auto; [|discriminate].
        apply moved_item. cbn. right. apply In_remove1_neq; auto. discriminate.
    + rewrite (hand_over_moved s v o (HSlot s0) Hi).
      destruct (drop_one_inv d s v SFresh d1 o (HSlot s0) I Dr Lv Hi) as [G' [V' [A' _]]]; try discriminate; auto.
      apply CI_env; auto. apply VI_CI. exact V'.
  - (* EClearSlot *)
    inversion Ds; subst d'. destruct (slot_get s s0) as [o|] eqn:Sg; [|apply Inv_env; auto].
    apply slot_get_In in Sg.
    assert (G1 : Genv (release s (HSlot s0, o))) by (apply release_G; auto).
    assert (C1 : CI d (release s (HSlot s0, o))).
    { intros w. pose proof (Inv_CI d s I w) as C. pose proof (release_count s (HSlot s0, o) w Sg) as RC.
      change (is_var w (HSlot s0, o)) with false in RC. cbv iota in RC. rewrite Nat.add_0_r in RC. rewrite RC. exact C. }
    apply CI_env; auto.
    apply (VIA_release d d s _ (i_via d s I) Sg); auto; [intros; discriminate | apply via_sub_refl].
  - (* EAssumeSlot *)
    inversion Ds; subst d'. destruct (slot_get s s0) as [o|] eqn:Sg; destruct full; auto.
    + constructor; try apply I. intros sl [Hs|Hs]; [subst; congruence | apply (i_f d s I); auto].
    + constructor; try apply I. intros sl [Hs|Hs]; [subst; auto | apply (i_e d s I); auto].
  - (* ECall *) discriminate.
  - (* EMoveRef *)
    destruct (negb (is_owned (stat d r)) && negb (Nat.eqb r v)) eqn:C; [|discriminate].
    apply andb_true_iff in C. destruct C as [C1 C2]. apply negb_true_iff in C1, C2. apply Nat.eqb_neq in C2.
    destruct (drop_one d v SStale) as [d1|] eqn:Dr; [|discriminate]. inversion Ds; subst d'. clear Ds.
    destruct (drop_owned _ _ _ _ Dr) as [n Ow]. destruct (owned_ref d s v n I Ow) as [o [Lv [Hi _]]]. rewrite Lv.
    pose proof Hi as Hh. apply has_In in Hh. rewrite Hh.
    eapply moveref_inv; eauto.
  - (* EReturn *) destruct NR.
Qed.

(* ------------------------------------------------------------------ return, start, whole paths *)
Record Fin (d : dst) (s : st) : Prop := mkFin {
  f_g : Genv s;
  f_v : forall v, VI (stat d v) s v
}.

Lemma return_ok strict orc d s k r d' : Inv d s -> dstep strict d (EReturn r) = Some d' ->
  match step strict orc s k (EReturn r) with
  | Done s' => Fin d' s'
  | _ => False
  end.
Proof.
  intros I Ds. cbn [dstep] in Ds. cbn [step]. destruct r as [v|].
  - assert (Ow : exists n, stat d v = SOwned n).
    { unfold drop_one in Ds. destruct (stat d v); try discriminate. eauto. }
    destruct Ow as [n Ow]. destruct (owned_ref d s v n I Ow) as [o [Lv [Hi _]]]. rewrite Lv.
    rewrite (hand_over_moved s v o HExt Hi).
    destruct (drop_one_inv d s v SStale d' o HExt I Ds Lv Hi) as [G' [V' _]]; try discriminate; auto.
    constructor; auto.
  - inversion Ds; subst d'. constructor; apply I.
Qed.

Lemma run_ok strict orc p : forall d s k d', Inv d s -> drun strict d p = Some d' ->
  match exec strict orc p s k with
  | Done s' => Fin d' s'
  | Infeasible => True
  | _ => False
  end.
Proof.
  induction p as [|e p IH]; intros d s k d' I Dr; [discriminate|].
  assert (R : forall r, e = EReturn r -> p = [] /\ dstep strict d (EReturn r) = Some d').
  { intros r ->. cbn in Dr. destruct p; [auto | discriminate]. }
  destruct e; try (pose proof (return_ok strict orc d s k r d' I) as RO;
                   destruct (R r eq_refl) as [-> Ds]; specialize (RO Ds); cbn [exec];
                   destruct (step strict orc s k (EReturn r)); try contradiction; auto; fail);
  (cbn [drun] in Dr;
   match type of Dr with
   | match dstep strict d ?e with _ => _ end = _ =>
       destruct (dstep strict d e) as [d1|] eqn:Ds; [|discriminate];
       pose proof (step_ok strict orc d s k e d1 I Ds Logic.I) as SO; cbn [exec];
       destruct (step strict orc s k e); try contradiction; auto; eapply IH; eauto
   end).
Qed.

Lemma stat_init params v :
  stat (d_init params) v = if mem v params then SOwned 0 else SStale.
Proof.
  unfold stat, d_init. cbn. induction params as [|p ps IH]; cbn; auto.
  destruct (Nat.eqb v p); cbn; auto.
Qed.

Lemma init_Inv params s : init_ok params s = true -> Inv (d_init params) s.
Proof.
  unfold init_ok. rewrite !andb_true_iff. intros [[[[Hl Hr] Hp] Hf] Hv].
  apply negb_true_iff in Hl. rewrite forallb_forall in Hr, Hp, Hf.
  assert (R : forall h o, In (h, o) (refs s) ->
              o < next s /\ ~ In o (freed s) /\
              (forall v, h = HVar v -> In v params /\ lookup (venv s) v = Some o)).
  { intros h o Hi. specialize (Hr _ Hi). cbn in Hr. rewrite !andb_true_iff in Hr. destruct Hr as [[H1 H2] H3].
    apply Nat.ltb_lt in H1. apply negb_true_iff in H2. apply mem_false in H2. repeat split; auto.
    - subst h. rewrite !andb_true_iff in H3. destruct H3 as [[H3 _] _]. apply mem_In; auto.
    - subst h. rewrite !andb_true_iff in H3. destruct H3 as [_ H3].
      destruct (lookup (venv s) v); [|discriminate]. apply Nat.eqb_eq in H3. subst; auto. }
  constructor.
  - constructor.
    + intros h o Hi. apply (R h o Hi).
    + intros h o Hi. apply (R h o Hi).
    + intros o Hi. apply Hf in Hi. apply Nat.ltb_lt; auto.
    + intros v o Hi. destruct (R _ o Hi) as [_ [_ K]]. apply (K v eq_refl).
    + apply has_leak_false; auto.
  - intros v. rewrite stat_init. destruct (mem v params) eqn:M; cbn.
    + apply mem_In in M. apply Hp in M. apply Nat.eqb_eq; auto.
    + destruct (own_count s v) eqn:C; auto. exfalso.
      destruct (count_pos_In v s) as [o Ho]; [lia|]. destruct (R _ o Ho) as [_ [_ K]].
      destruct (K v eq_refl) as [K1 _]. apply mem_In in K1. congruence.
  - intros v t H. rewrite stat_init in H. destruct (mem v params); discriminate.
  - cbn. tauto.
  - cbn. tauto.
Qed.

Lemma lookup_Some_In {A} (l : list (nat * A)) k a : lookup l k = Some a -> exists a', In (k, a') l.
Proof.
  induction l as [|[k' a'] l IH]; cbn; [discriminate|].
  destruct (Nat.eqb k k') eqn:E; intros H.
  - apply Nat.eqb_eq in E. subst. eauto.
  - destruct (IH H) as [x Hx]. eauto.
Qed.

Lemma final_balanced params d s : Fin d s -> d_final params d = true -> balanced params s = true.
Proof.
  intros [G V] Df. unfold balanced. apply andb_true_iff. split.
  - apply negb_true_iff. apply has_leak_false. apply G.
  - apply forallb_forall. intros [h o] Hi. cbn. destruct h; auto.
    pose proof (In_count_pos _ _ _ Hi) as C. pose proof (V v) as Hv.
    destruct (stat d v) as [| | |n] eqn:Es; cbn in Hv; try lia.
    assert (L : exists x, lookup (d_stat d) v = Some x).
    { unfold stat in Es. destruct (lookup (d_stat d) v); [eauto | discriminate]. }
    destruct L as [x L]. destruct (lookup_Some_In _ _ _ L) as [x' Hx].
    unfold d_final in Df. rewrite forallb_forall in Df. specialize (Df _ Hx). cbn in Df. rewrite Es in Df.
    apply andb_true_iff in Df. destruct Df as [D1 D2]. apply Nat.eqb_eq in D2. subst n.
    rewrite D1, Hv. reflexivity.
Qed.

(* THE SAFETY THEOREM: a disciplined path, started in any well-formed state, under any behaviour of
   the environment (oracle), never faults and returns balanced *)
Theorem discipline_safe : forall strict params p, D strict params p = true ->
  forall orc s k, init_ok params s = true ->
  match exec strict orc p s k with
  | Done s' => balanced params s' = true
  | Infeasible => True
  | Running _ _ => False
  | Fault _ => False
  end.
Proof.
  intros strict params p HD orc s k Hi. unfold D in HD. apply andb_true_iff in HD. destruct HD as [_ HD].
  destruct (drun strict (d_init params) p) as [d|] eqn:Dr; [|discriminate].
  pose proof (run_ok strict orc p _ s k d (init_Inv params s Hi) Dr) as R.
  destruct (exec strict orc p s k); auto. eapply final_balanced; eauto.
Qed.

(* the same for every prefix: no intermediate state of the execution is a fault (exec stops at the
   first fault, so this is a corollary; stated for the record) *)
Corollary discipline_no_fault : forall strict params p, D strict params p = true ->
  forall orc s k f, init_ok params s = true -> exec strict orc p s k <> Fault f.
Proof.
  intros strict params p HD orc s k f Hi E.
  pose proof (discipline_safe strict params p HD orc s k Hi) as S. rewrite E in S. exact S.
Qed.
