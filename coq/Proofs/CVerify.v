(* C10 proofs: the C VerifyingBase entry points (one _verify up front) and the Python ones
   (_verify inside _getcache, after the name test, and again in the nested self.lookup) are
   observationally equivalent: same answers on every call of every program, in every environment
   history in which generations only grow. *)
From Coq Require Import List Arith Bool Lia.
Import ListNotations.
From ZI Require Import Lib.Util Model.Ro Model.Adapter Model.Lookup Model.CLookup Proofs.CLookup Model.CVerify.

Lemma lnat_eqb_eq a b : lnat_eqb a b = true <-> a = b.
Proof. apply list_eqb_eq. intros x y. apply Nat.eqb_eq. Qed.

Lemma lnat_eqb_sym a b : lnat_eqb a b = lnat_eqb b a.
Proof.
  destruct (lnat_eqb a b) eqn:E1, (lnat_eqb b a) eqn:E2; try reflexivity.
  - apply lnat_eqb_eq in E1. subst. assert (lnat_eqb b b = true) by (apply lnat_eqb_eq; reflexivity). congruence.
  - apply lnat_eqb_eq in E2. subst. assert (lnat_eqb a a = true) by (apply lnat_eqb_eq; reflexivity). congruence.
Qed.

Definition inited (s : vstate) : Prop := exists ro g, vs_vro s = Some ro /\ vs_vgen s = Some g.

Definition vfresh (e : venv) (s : vstate) : bool :=
  match vs_vro s, vs_vgen s with
  | Some ro, Some g => lnat_eqb g (gens e ro)
  | _, _ => false
  end.

Lemma c_verify_fresh e s : c_verify e s = if vfresh e s then s else v_changed e s.
Proof. unfold c_verify, vfresh. destruct (vs_vro s), (vs_vgen s); reflexivity. Qed.

Lemma vfresh_changed e s : vfresh e (v_changed e s) = true.
Proof. unfold vfresh, v_changed; cbn. apply lnat_eqb_eq. reflexivity. Qed.

Lemma vfresh_verify e s : vfresh e (c_verify e s) = true.
Proof. rewrite c_verify_fresh. destruct (vfresh e s) eqn:E; [exact E | apply vfresh_changed]. Qed.

Lemma c_verify_idem e s : c_verify e (c_verify e s) = c_verify e s.
Proof. rewrite (c_verify_fresh e (c_verify e s)), vfresh_verify. reflexivity. Qed.

Lemma inited_verify e s : inited (c_verify e s).
Proof.
  rewrite c_verify_fresh. unfold vfresh. destruct (vs_vro s) as [ro|] eqn:E1, (vs_vgen s) as [g|] eqn:E2;
    try (eexists; eexists; split; reflexivity).
  destruct (lnat_eqb g (gens e ro)); [exists ro, g; auto | eexists; eexists; split; reflexivity].
Qed.

Lemma inited_with_c s c : inited s -> inited (with_c s c).
Proof. intros H; exact H. Qed.

Lemma py_verify_inited e s : inited s -> py_verify e s = Some (c_verify e s).
Proof.
  intros (ro & g & H1 & H2). unfold py_verify, c_verify. rewrite H1, H2, lnat_eqb_sym. reflexivity.
Qed.

Lemma with_c_same s : with_c s (vs_c s) = s.
Proof. destruct s; reflexivity. Qed.

Lemma vfresh_with_c e s c : vfresh e (with_c s c) = vfresh e s.
Proof. reflexivity. Qed.

Lemma c_verify_with_c_fresh e s c : vfresh e s = true -> c_verify e (with_c s c) = with_c s c.
Proof. intros H. rewrite c_verify_fresh, vfresh_with_c, H. reflexivity. Qed.

Section VEq.
  Variable u_lookup : list spec -> spec -> Adapter.name -> option value.
  Variable u_lookupAll : list spec -> spec -> list (Adapter.name * value).
  Variable u_subscriptions : list spec -> option spec -> list value.
  Variable call : value -> list nat -> option nat.

  Notation c_step := (c_vstep u_lookup u_lookupAll u_subscriptions call).
  Notation py_step := (py_vstep u_lookup u_lookupAll u_subscriptions call).

  (* the Python lookup on a verified, initialised state with a string name *)
  Lemma py_vb_lookup_verified e s1 l p name d : inited s1 -> vfresh e s1 = true -> c_name_bad name = false ->
    py_vb_lookup u_lookup e s1 (RqOk l) p name d =
    (with_c s1 (fst (lookup u_lookup (vs_c s1) l p (cname name))),
     VRet (py_ret d (snd (lookup u_lookup (vs_c s1) l p (cname name))))).
  Proof.
    intros Hi Hf Hn. unfold py_vb_lookup.
    assert (Hs : exists n, cname name = NStr n) by (destruct name as [[n|]|]; try discriminate; eexists; reflexivity).
    destruct Hs as [n Hs]. rewrite Hs, (py_verify_inited e s1 Hi), c_verify_fresh, Hf.
    destruct (lookup u_lookup (vs_c s1) l p (NStr n)); reflexivity.
  Qed.

  (* one call: same answer; afterwards the two objects differ at most by a pending _verify; the
     Python object is either untouched (ValueError before _verify) or exactly the C object *)
  Lemma vstep_eq e sc sp c : inited sp -> c_verify e sc = c_verify e sp ->
    snd (c_step e sc c) = snd (py_step e sp c) /\
    c_verify e (fst (c_step e sc c)) = c_verify e (fst (py_step e sp c)) /\
    inited (fst (py_step e sp c)) /\
    (fst (py_step e sp c) = sp \/ fst (py_step e sp c) = fst (c_step e sc c)).
  Proof.
    intros Hi Hv.
    pose proof (inited_verify e sp) as Hi1. pose proof (vfresh_verify e sp) as Hf1.
    destruct c as [req p name d|r p name d|p o name d|o p name d|req p|req p|]; cbn [c_vstep py_vstep].
    - (* lookup *)
      unfold c_vb_lookup, py_vb_lookup. rewrite Hv.
      destruct name as [[n|]|]; cbn [c_name_bad cname].
      + rewrite (py_verify_inited e sp Hi). destruct req as [l|x]; cbn [fst snd].
        * rewrite c_lookup_eq_py. cbn [cname].
          destruct (lookup u_lookup (vs_c (c_verify e sp)) l p (NStr n)); cbn [fst snd]. repeat split; auto.
        * repeat split; auto.
      + cbn [fst snd]. rewrite c_verify_idem. repeat split; auto.
      + rewrite (py_verify_inited e sp Hi). destruct req as [l|x]; cbn [fst snd].
        * rewrite c_lookup_eq_py. cbn [cname].
          destruct (lookup u_lookup (vs_c (c_verify e sp)) l p (NStr 0)); cbn [fst snd]. repeat split; auto.
        * repeat split; auto.
    - (* lookup1 *)
      unfold c_vb_lookup1, py_vb_lookup1. rewrite Hv, c_lookup1_eq_py.
      destruct name as [[n|]|]; cbn [cname].
      + rewrite (py_verify_inited e sp Hi). unfold lookup1.
        destruct (aget cache_key_eqb (c_cache (vs_c (c_verify e sp))) (p, n, CSingle r)) as [[v|]|];
          cbn [fst snd].
        * rewrite with_c_same. repeat split; auto.
        * rewrite with_c_same. repeat split; auto.
        * rewrite (py_vb_lookup_verified e (c_verify e sp) [r] p (Some (NStr n)) d Hi1 Hf1 eq_refl). cbn [cname fst snd].
          repeat split; auto.
      + cbn [lookup1 fst snd]. rewrite with_c_same, c_verify_idem. repeat split; auto.
      + rewrite (py_verify_inited e sp Hi). unfold lookup1.
        destruct (aget cache_key_eqb (c_cache (vs_c (c_verify e sp))) (p, (0 : Adapter.name), CSingle r)) as [[v|]|];
          cbn [fst snd].
        * rewrite with_c_same. repeat split; auto.
        * rewrite with_c_same. repeat split; auto.
        * rewrite (py_vb_lookup_verified e (c_verify e sp) [r] p None d Hi1 Hf1 eq_refl). cbn [cname fst snd].
          repeat split; auto.
    - (* adapter_hook *)
      unfold c_vb_adapter_hook, py_vb_adapter_hook. rewrite Hv, c_adapter_hook_eq_py.
      destruct name as [[n|]|]; cbn [cname].
      + rewrite (py_verify_inited e sp Hi). unfold adapter_hook.
        destruct (aget cache_key_eqb (c_cache (vs_c (c_verify e sp))) (p, n, CSingle (o_provides o))) as [[v|]|].
        * destruct (call v [unwrap o]); cbn [fst snd]; rewrite with_c_same; repeat split; auto.
        * cbn [fst snd]. rewrite with_c_same. repeat split; auto.
        * rewrite (py_vb_lookup_verified e (c_verify e sp) [o_provides o] p (Some (NStr n)) DNone Hi1 Hf1 eq_refl).
          cbn [cname]. unfold lookup. cbn [ckey_of].
          destruct (aget cache_key_eqb (c_cache (vs_c (c_verify e sp))) (p, n, CSingle (o_provides o))) as [[v|]|];
            cbn [fst snd py_ret dflt_obj].
          -- destruct (call v [unwrap o]); cbn [fst snd]; repeat split; auto.
          -- repeat split; auto.
          -- destruct (u_lookup [o_provides o] p n) as [v|]; cbn [fst snd py_ret dflt_obj].
             ++ destruct (call v [unwrap o]); cbn [fst snd]; repeat split; auto.
             ++ repeat split; auto.
      + cbn [adapter_hook fst snd]. rewrite with_c_same, c_verify_idem. repeat split; auto.
      + rewrite (py_verify_inited e sp Hi). unfold adapter_hook.
        destruct (aget cache_key_eqb (c_cache (vs_c (c_verify e sp))) (p, (0 : Adapter.name), CSingle (o_provides o))) as [[v|]|].
        * destruct (call v [unwrap o]); cbn [fst snd]; rewrite with_c_same; repeat split; auto.
        * cbn [fst snd]. rewrite with_c_same. repeat split; auto.
        * rewrite (py_vb_lookup_verified e (c_verify e sp) [o_provides o] p None DNone Hi1 Hf1 eq_refl).
          cbn [cname]. unfold lookup. cbn [ckey_of].
          destruct (aget cache_key_eqb (c_cache (vs_c (c_verify e sp))) (p, (0 : Adapter.name), CSingle (o_provides o))) as [[v|]|];
            cbn [fst snd py_ret dflt_obj].
          -- destruct (call v [unwrap o]); cbn [fst snd]; repeat split; auto.
          -- repeat split; auto.
          -- destruct (u_lookup [o_provides o] p 0) as [v|]; cbn [fst snd py_ret dflt_obj].
             ++ destruct (call v [unwrap o]); cbn [fst snd]; repeat split; auto.
             ++ repeat split; auto.
    - (* queryAdapter = adapter_hook *)
      unfold c_vb_queryAdapter, py_vb_queryAdapter, c_vb_adapter_hook, py_vb_adapter_hook.
      rewrite Hv, c_adapter_hook_eq_py.
      destruct name as [[n|]|]; cbn [cname].
      + rewrite (py_verify_inited e sp Hi). unfold adapter_hook.
        destruct (aget cache_key_eqb (c_cache (vs_c (c_verify e sp))) (p, n, CSingle (o_provides o))) as [[v|]|].
        * destruct (call v [unwrap o]); cbn [fst snd]; rewrite with_c_same; repeat split; auto.
        * cbn [fst snd]. rewrite with_c_same. repeat split; auto.
        * rewrite (py_vb_lookup_verified e (c_verify e sp) [o_provides o] p (Some (NStr n)) DNone Hi1 Hf1 eq_refl).
          cbn [cname]. unfold lookup. cbn [ckey_of].
          destruct (aget cache_key_eqb (c_cache (vs_c (c_verify e sp))) (p, n, CSingle (o_provides o))) as [[v|]|];
            cbn [fst snd py_ret dflt_obj].
          -- destruct (call v [unwrap o]); cbn [fst snd]; repeat split; auto.
          -- repeat split; auto.
          -- destruct (u_lookup [o_provides o] p n) as [v|]; cbn [fst snd py_ret dflt_obj].
             ++ destruct (call v [unwrap o]); cbn [fst snd]; repeat split; auto.
             ++ repeat split; auto.
      + cbn [adapter_hook fst snd]. rewrite with_c_same, c_verify_idem. repeat split; auto.
      + rewrite (py_verify_inited e sp Hi). unfold adapter_hook.
        destruct (aget cache_key_eqb (c_cache (vs_c (c_verify e sp))) (p, (0 : Adapter.name), CSingle (o_provides o))) as [[v|]|].
        * destruct (call v [unwrap o]); cbn [fst snd]; rewrite with_c_same; repeat split; auto.
        * cbn [fst snd]. rewrite with_c_same. repeat split; auto.
        * rewrite (py_vb_lookup_verified e (c_verify e sp) [o_provides o] p None DNone Hi1 Hf1 eq_refl).
          cbn [cname]. unfold lookup. cbn [ckey_of].
          destruct (aget cache_key_eqb (c_cache (vs_c (c_verify e sp))) (p, (0 : Adapter.name), CSingle (o_provides o))) as [[v|]|];
            cbn [fst snd py_ret dflt_obj].
          -- destruct (call v [unwrap o]); cbn [fst snd]; repeat split; auto.
          -- repeat split; auto.
          -- destruct (u_lookup [o_provides o] p 0) as [v|]; cbn [fst snd py_ret dflt_obj].
             ++ destruct (call v [unwrap o]); cbn [fst snd]; repeat split; auto.
             ++ repeat split; auto.
    - (* lookupAll *)
      unfold c_vb_lookupAll, py_vb_lookupAll. rewrite Hv, (py_verify_inited e sp Hi).
      destruct req as [l|x]; cbn [fst snd]; [|repeat split; auto].
      rewrite c_lookupAll_eq_py. destruct (lookupAll u_lookupAll (vs_c (c_verify e sp)) l p); cbn [fst snd].
      repeat split; auto.
    - (* subscriptions *)
      unfold c_vb_subscriptions, py_vb_subscriptions. rewrite Hv, (py_verify_inited e sp Hi).
      destruct req as [l|x]; cbn [fst snd]; [|repeat split; auto].
      rewrite c_subscriptions_eq_py. destruct (subscriptions u_subscriptions (vs_c (c_verify e sp)) l p); cbn [fst snd].
      repeat split; auto.
    - (* changed() from outside *)
      cbn [fst snd]. repeat split; auto. eexists; eexists; split; reflexivity.
  Qed.

  (* ---- environments over time *)

  Definition snapshot_ok (e : venv) (s : vstate) : Prop :=
    match vs_vro s, vs_vgen s with
    | Some ro, Some g => Forall2 le g (gens e ro)
    | _, _ => True
    end.

  Lemma Forall2_le_refl l : Forall2 le l l.
  Proof. induction l; constructor; auto. Qed.

  Lemma Forall2_le_trans a b c : Forall2 le a b -> Forall2 le b c -> Forall2 le a c.
  Proof.
    intros H; revert c; induction H; intros c Hc; inversion Hc; subst; constructor; [lia|auto].
  Qed.

  Lemma Forall2_le_antisym a b : Forall2 le a b -> Forall2 le b a -> a = b.
  Proof.
    intros H; induction H; intros Hb; inversion Hb; subst; [reflexivity|].
    f_equal; [lia|auto].
  Qed.

  Lemma gens_mono e e' ro : (forall r, e_gen e r <= e_gen e' r) -> Forall2 le (gens e ro) (gens e' ro).
  Proof. intros H. induction ro; cbn; constructor; auto. Qed.

  Lemma snapshot_mono e e' s : env_le e e' -> snapshot_ok e s -> snapshot_ok e' s.
  Proof.
    intros [Hm _]. unfold snapshot_ok. destruct (vs_vro s) as [ro|], (vs_vgen s) as [g|]; auto.
    intros H. eapply Forall2_le_trans; [exact H | apply gens_mono; exact Hm].
  Qed.

  Lemma snapshot_changed e s : snapshot_ok e (v_changed e s).
  Proof. unfold snapshot_ok, v_changed; cbn. apply Forall2_le_refl. Qed.

  Lemma snapshot_verify e s : snapshot_ok e s -> snapshot_ok e (c_verify e s).
  Proof. intros H. rewrite c_verify_fresh. destruct (vfresh e s); [exact H | apply snapshot_changed]. Qed.

  (* a _verify that was skipped earlier is made up for by the next one *)
  Lemma verify_absorbs e e' s : env_le e e' -> snapshot_ok e s ->
    c_verify e' (c_verify e s) = c_verify e' s.
  Proof.
    intros [Hm Hro] Hs. rewrite (c_verify_fresh e s). destruct (vfresh e s) eqn:Ef; [reflexivity|].
    (* stale at e: still stale at e' *)
    assert (Ef' : vfresh e' s = false).
    { unfold vfresh, snapshot_ok in *. destruct (vs_vro s) as [ro|], (vs_vgen s) as [g|]; auto.
      destruct (lnat_eqb g (gens e' ro)) eqn:E; [|reflexivity].
      apply lnat_eqb_eq in E. subst g.
      assert (gens e' ro = gens e ro).
      { apply Forall2_le_antisym; [exact Hs | apply gens_mono; exact Hm]. }
      rewrite H in Ef. assert (lnat_eqb (gens e ro) (gens e ro) = true) by (apply lnat_eqb_eq; reflexivity).
      congruence. }
    rewrite (c_verify_fresh e' s), Ef'.
    rewrite c_verify_fresh. unfold vfresh at 1. cbn [v_changed vs_vro vs_vgen].
    destruct (lnat_eqb (gens e (e_ro_tail e)) (gens e' (e_ro_tail e))) eqn:E; [|reflexivity].
    apply lnat_eqb_eq in E. unfold v_changed. rewrite (Hro (eq_sym E)), <- E. reflexivity.
  Qed.

  Fixpoint env_chain (e : venv) (prog : list (venv * vcall)) : Prop :=
    match prog with
    | [] => True
    | (e', _) :: rest => env_le e e' /\ env_chain e' rest
    end.

  Lemma c_step_snapshot e s c : snapshot_ok e s -> snapshot_ok e (fst (c_step e s c)).
  Proof.
    intros H. pose proof (snapshot_verify e s H) as Hv.
    destruct c as [req p name d|r p name d|p o name d|o p name d|req p|req p|]; cbn [c_vstep].
    - unfold c_vb_lookup. destruct (c_name_bad name); [exact Hv|]. destruct req; [|exact Hv].
      destruct (c_lookup u_lookup (vs_c (c_verify e s)) l p name d). exact Hv.
    - unfold c_vb_lookup1. destruct (c_lookup1 u_lookup (vs_c (c_verify e s)) r p name d). exact Hv.
    - unfold c_vb_adapter_hook. destruct (c_adapter_hook u_lookup call (vs_c (c_verify e s)) p o name d). exact Hv.
    - unfold c_vb_queryAdapter, c_vb_adapter_hook.
      destruct (c_adapter_hook u_lookup call (vs_c (c_verify e s)) p o name d). exact Hv.
    - unfold c_vb_lookupAll. destruct req; [|exact Hv].
      destruct (c_lookupAll u_lookupAll (vs_c (c_verify e s)) l p). exact Hv.
    - unfold c_vb_subscriptions. destruct req; [|exact Hv].
      destruct (c_subscriptions u_subscriptions (vs_c (c_verify e s)) l p). exact Hv.
    - apply snapshot_changed.
  Qed.

  (* whole programs: every call answers the same, in every environment history *)
  Lemma vrun_eq_gen prog : forall e sc sp,
    inited sp -> snapshot_ok e sc -> snapshot_ok e sp -> c_verify e sc = c_verify e sp -> env_chain e prog ->
    c_vrun u_lookup u_lookupAll u_subscriptions call sc prog =
    py_vrun u_lookup u_lookupAll u_subscriptions call sp prog.
  Proof.
    induction prog as [|[e' c] rest IH]; intros e sc sp Hi Hsc Hsp Hv Hch; [reflexivity|].
    destruct Hch as [Hle Hch]. cbn [c_vrun py_vrun].
    assert (Hv' : c_verify e' sc = c_verify e' sp).
    { rewrite <- (verify_absorbs e e' sc Hle Hsc), <- (verify_absorbs e e' sp Hle Hsp), Hv. reflexivity. }
    pose proof (snapshot_mono e e' sc Hle Hsc) as Hsc'. pose proof (snapshot_mono e e' sp Hle Hsp) as Hsp'.
    destruct (vstep_eq e' sc sp c Hi Hv') as (Ho & Hs & Hi' & Hor).
    pose proof (c_step_snapshot e' sc c Hsc') as Hcs.
    destruct (c_step e' sc c) as [sc1 oc], (py_step e' sp c) as [sp1 op]; cbn [fst snd] in *.
    subst op. f_equal. apply (IH e' sc1 sp1); auto.
    destruct Hor as [->| ->]; assumption.
  Qed.
End VEq.
