(* Proofs for property C15 (model: Model/Attrs.v). *)
From Coq Require Import List Arith Bool Lia.
Import ListNotations.
From ZI Require Import Model.Ro Model.Attrs.

(* ================================================================ dicts *)
Lemma dget_dset {V} (d : list (nat * V)) k v k' :
  dget (dset d k v) k' = if Nat.eqb k' k then Some v else dget d k'.
Proof.
  induction d as [|[k0 v0] d IH]; cbn.
  - destruct (Nat.eqb k' k); reflexivity.
  - destruct (Nat.eqb k k0) eqn:E; cbn.
    + apply Nat.eqb_eq in E; subst k0. destruct (Nat.eqb k' k); reflexivity.
    + rewrite IH. destruct (Nat.eqb k' k0) eqn:E0; [|reflexivity].
      apply Nat.eqb_eq in E0; subst k0. destruct (Nat.eqb k' k) eqn:E1; [|reflexivity].
      apply Nat.eqb_eq in E1; subst k'. rewrite Nat.eqb_refl in E; discriminate.
Qed.

Lemma dget_app {V} (l1 l2 : list (nat * V)) k :
  dget (l1 ++ l2) k = match dget l1 k with Some v => Some v | None => dget l2 k end.
Proof.
  induction l1 as [|[k0 v0] l1 IH]; cbn; [reflexivity|].
  destruct (Nat.eqb k k0); auto.
Qed.

(* update: the LAST item with that key wins, else the old value *)
Lemma dget_dupdate {V} (items d : list (nat * V)) k :
  dget (dupdate d items) k = match dget (rev items) k with Some v => Some v | None => dget d k end.
Proof.
  unfold dupdate. revert d; induction items as [|[k0 v0] items IH]; intros d; cbn [fold_left rev].
  - reflexivity.
  - rewrite IH, dget_app. cbn [fst snd]. destruct (dget (rev items) k); [reflexivity|].
    rewrite dget_dset. cbn. destruct (Nat.eqb k k0); reflexivity.
Qed.

Lemma dset_keys_in {V} (d : list (nat * V)) k v x :
  In x (map fst (dset d k v)) <-> x = k \/ In x (map fst d).
Proof.
  induction d as [|[k0 v0] d IH]; cbn.
  - intuition.
  - destruct (Nat.eqb k k0) eqn:E; cbn.
    + apply Nat.eqb_eq in E; subst. intuition.
    + rewrite IH. intuition.
Qed.

Lemma dset_keys_nodup {V} (d : list (nat * V)) k v :
  NoDup (map fst d) -> NoDup (map fst (dset d k v)).
Proof.
  induction d as [|[k0 v0] d IH]; cbn; intros H.
  - constructor; [intros []|constructor].
  - inversion H; subst. destruct (Nat.eqb k k0) eqn:E; cbn.
    + constructor; auto.
    + constructor; auto. rewrite dset_keys_in. intros [->|Hin]; auto.
      rewrite Nat.eqb_refl in E; discriminate.
Qed.

Lemma dupdate_keys_nodup {V} (items d : list (nat * V)) :
  NoDup (map fst d) -> NoDup (map fst (dupdate d items)).
Proof.
  unfold dupdate. revert d; induction items as [|kv items IH]; intros d H; cbn; auto.
  apply IH, dset_keys_nodup, H.
Qed.

Lemma dget_In {V} (l : list (nat * V)) k v :
  NoDup (map fst l) -> (dget l k = Some v <-> In (k, v) l).
Proof.
  induction l as [|[k0 v0] l IH]; cbn; intros H.
  - split; [discriminate|tauto].
  - inversion H; subst. destruct (Nat.eqb k k0) eqn:E.
    + apply Nat.eqb_eq in E; subst k0. split.
      * intros [= ->]; auto.
      * intros [[= ->]|Hin]; auto. exfalso. apply H2. apply (in_map fst) in Hin. exact Hin.
    + rewrite IH by auto. split; auto. intros [[= -> ->]|Hin]; auto.
      rewrite Nat.eqb_refl in E; discriminate.
Qed.

Lemma dget_rev {V} (l : list (nat * V)) k :
  NoDup (map fst l) -> dget (rev l) k = dget l k.
Proof.
  intros H. assert (Hr : NoDup (map fst (rev l))) by (rewrite map_rev; apply NoDup_rev, H).
  destruct (dget (rev l) k) as [v|] eqn:E.
  - apply (dget_In _ _ _ Hr) in E. apply in_rev in E. symmetry. apply dget_In; auto.
  - destruct (dget l k) as [v|] eqn:E2; [|reflexivity].
    apply (dget_In _ _ _ H) in E2. apply in_rev in E2. apply (dget_In _ _ _ Hr) in E2. congruence.
Qed.

Lemma dget_none_iff {V} (l : list (nat * V)) k : dget l k = None <-> ~ In k (map fst l).
Proof.
  induction l as [|[k0 v0] l IH]; cbn.
  - tauto.
  - destruct (Nat.eqb k k0) eqn:E.
    + apply Nat.eqb_eq in E; subst. split; [discriminate|intros H; exfalso; auto].
    + rewrite IH. apply Nat.eqb_neq in E. split; [intros H [?|?]; auto; congruence|tauto].
Qed.

Lemma dget_some_iff {V} (l : list (nat * V)) k : dget l k <> None <-> In k (map fst l).
Proof.
  rewrite dget_none_iff. split; [|tauto].
  intros H. destruct (in_dec Nat.eq_dec k (map fst l)); tauto.
Qed.

(* dict(items) then update : still "last item wins", without any hypothesis *)
Lemma dget_update_dict_of {V} (items r : list (nat * V)) k :
  dget (dupdate r (dict_of items)) k
  = match dget (rev items) k with Some v => Some v | None => dget r k end.
Proof.
  rewrite dget_dupdate.
  assert (Hn : NoDup (map fst (dict_of items))) by (apply dupdate_keys_nodup; constructor).
  rewrite (dget_rev _ _ Hn). unfold dict_of. rewrite dget_dupdate. cbn.
  destruct (dget (rev items) k); reflexivity.
Qed.

(* ---- key sets *)
Lemma mem_In x l : mem x l = true <-> In x l.
Proof.
  induction l as [|y l IH]; cbn; [split; [discriminate|tauto]|].
  rewrite orb_true_iff, Nat.eqb_eq, IH. split; intros [H|H]; auto.
Qed.

Lemma kadd_in r k x : In x (kadd r k) <-> In x r \/ x = k.
Proof.
  unfold kadd. destruct (mem k r) eqn:E.
  - apply mem_In in E. split; auto. intros [H| ->]; auto.
  - rewrite in_app_iff; cbn. intuition.
Qed.

Lemma kupdate_in ks r x : In x (kupdate r ks) <-> In x r \/ In x ks.
Proof.
  unfold kupdate. revert r; induction ks as [|k ks IH]; intros r; cbn.
  - tauto.
  - rewrite IH, kadd_in. intuition.
Qed.

Lemma kadd_nodup r k : NoDup r -> NoDup (kadd r k).
Proof.
  unfold kadd. destruct (mem k r) eqn:E; auto. intros H.
  apply NoDup_rev in H. rewrite <- (rev_involutive (r ++ [k])). apply NoDup_rev.
  rewrite rev_app_distr. cbn. constructor; auto.
  rewrite <- in_rev. intros Hin. apply mem_In in Hin. congruence.
Qed.

Lemma kupdate_nodup ks r : NoDup r -> NoDup (kupdate r ks).
Proof.
  unfold kupdate. revert r; induction ks as [|k ks IH]; intros r H; cbn; auto.
  apply IH, kadd_nodup, H.
Qed.

(* ================================================================ get / first_direct *)
Definition defines (w : world) (i : node) (n : name) : Prop := direct w i n <> None.

(* "the description defined by the first interface of the order that defines the name" *)
Definition first_def (w : world) (iro : list node) (n : name) (d : desc) : Prop :=
  exists l1 i l2, iro = l1 ++ i :: l2 /\ direct w i n = Some d /\
                  forall j, In j l1 -> direct w j n = None.

Lemma first_direct_some w iro n d : first_direct w iro n = Some d <-> first_def w iro n d.
Proof.
  induction iro as [|i r IH]; cbn.
  - split; [discriminate|]. intros (l1 & i & l2 & E & _). destruct l1; discriminate.
  - destruct (direct w i n) as [d'|] eqn:E.
    + split.
      * intros [= ->]. exists [], i, r. repeat split; auto. intros j [].
      * intros (l1 & i' & l2 & El & Hd & Hn). destruct l1 as [|j l1]; cbn in El.
        -- inversion El; subst. congruence.
        -- inversion El; subst. rewrite (Hn j) in E by (left; auto). discriminate.
    + rewrite IH. split.
      * intros (l1 & i' & l2 & -> & Hd & Hn). exists (i :: l1), i', l2. repeat split; auto.
        intros j [<-|Hj]; auto.
      * intros (l1 & i' & l2 & El & Hd & Hn). destruct l1 as [|j l1]; cbn in El.
        -- inversion El; subst. congruence.
        -- inversion El; subst. exists l1, i', l2. repeat split; auto.
           intros j' Hj'. apply Hn. right; auto.
Qed.

Lemma first_direct_none w iro n :
  first_direct w iro n = None <-> forall j, In j iro -> direct w j n = None.
Proof.
  induction iro as [|i r IH]; cbn.
  - split; auto. intros _ j [].
  - destruct (direct w i n) eqn:E.
    + split; [discriminate|]. intros H. rewrite (H i) in E by auto. discriminate.
    + rewrite IH. split; [intros H j [<-|Hj]; auto | intros H j Hj; apply H; auto].
Qed.

Lemma first_direct_present w iro n :
  first_direct w iro n <> None <-> exists i, In i iro /\ defines w i n.
Proof.
  rewrite first_direct_none. unfold defines. split.
  - intros H. induction iro as [|i r IH].
    + exfalso. apply H. intros j [].
    + destruct (direct w i n) eqn:E.
      * exists i. split; [left; auto|congruence].
      * destruct IH as (j & Hj & Hd).
        -- intros H'. apply H. intros j [<-|Hj]; auto.
        -- exists j. split; [right; auto|auto].
  - intros (i & Hi & Hd) H. apply Hd, H, Hi.
Qed.

(* the memo only ever holds answers the walk would give *)
Definition memo_ok (w : world) (s : state) : Prop :=
  forall x m n d, st_memo s x = Some m -> dget m n = Some d ->
                  first_direct w (st_iro s x) n = Some d.

Lemma get_result w s x n : memo_ok w s -> fst (get w s x n) = get_nomemo w s x n.
Proof.
  intros Hm. unfold get, get_nomemo.
  destruct (st_memo s x) as [m|] eqn:Em.
  - destruct (dget m n) as [d|] eqn:Ed; cbn.
    + symmetry. eapply Hm; eauto.
    + destruct (first_direct w (st_iro s x) n); reflexivity.
  - cbn. destruct (first_direct w (st_iro s x) n); reflexivity.
Qed.

Lemma get_iro w s x n y : st_iro (snd (get w s x n)) y = st_iro s y.
Proof.
  unfold get. destruct (dget _ n); [reflexivity|].
  destruct (first_direct w (st_iro s x) n); reflexivity.
Qed.

Lemma get_graph w s x n : st_graph (snd (get w s x n)) = st_graph s.
Proof.
  unfold get. destruct (dget _ n); [reflexivity|].
  destruct (first_direct w (st_iro s x) n); reflexivity.
Qed.

Lemma get_tags w s x n : st_tags (snd (get w s x n)) = st_tags s.
Proof.
  unfold get. destruct (dget _ n); [reflexivity|].
  destruct (first_direct w (st_iro s x) n); reflexivity.
Qed.

Lemma get_memo_ok w s x n : memo_ok w s -> memo_ok w (snd (get w s x n)).
Proof.
  intros Hm y m k d. rewrite get_iro.
  unfold get.
  set (attrs := match st_memo s x with Some m0 => m0 | None => [] end).
  assert (Hattrs : forall k d, dget attrs k = Some d -> first_direct w (st_iro s x) k = Some d).
  { unfold attrs. destruct (st_memo s x) eqn:E; [intros; eapply Hm; eauto | cbn; discriminate]. }
  destruct (dget attrs n) as [d0|] eqn:Ed; [|destruct (first_direct w (st_iro s x) n) as [d1|] eqn:Ef];
    cbn [snd set_memo st_memo]; destruct (Nat.eqb y x) eqn:Eyx;
    try (apply Nat.eqb_eq in Eyx; subst y);
    try (intros [= <-]; auto; fail);
    try (intros H1 H2; eapply Hm; eauto; fail).
  intros [= <-]. rewrite dget_dset. destruct (Nat.eqb k n) eqn:Ekn.
  - apply Nat.eqb_eq in Ekn; subst k. intros [= <-]. exact Ef.
  - auto.
Qed.

(* ================================================================ rebasing: locality of the order *)
Lemma bases_gupdate g x bs y : bases (gupdate g x bs) y = if Nat.eqb y x then bs else bases g y.
Proof. reflexivity. Qed.

Section Locality.
  Variables (g : graph) (x : node) (bs : list node).
  Let g' := gupdate g x bs.

  Lemma reachesb_S_false f y :
    reachesb (S f) g' y x = false ->
    Nat.eqb y x = false /\ bases g' y = bases g y /\
    forall b, In b (bases g y) -> reachesb f g' b x = false.
  Proof.
    cbn [reachesb]. intros H. apply orb_false_iff in H. destruct H as [H1 H2].
    assert (Hb : bases g' y = bases g y) by (unfold g'; rewrite bases_gupdate, H1; reflexivity).
    repeat split; auto. intros b Hb'. rewrite Hb in H2.
    destruct (reachesb f g' b x) eqn:E; auto.
    assert (existsb (fun b => reachesb f g' b x) (bases g y) = true)
      by (apply existsb_exists; eauto). congruence.
  Qed.

  Lemma legacy_flatten_local f y :
    reachesb f g' y x = false -> legacy_flatten f g' y = legacy_flatten f g y.
  Proof.
    revert y; induction f as [|f IH]; intros y H; [reflexivity|].
    apply reachesb_S_false in H. destruct H as (_ & Hb & Hr).
    cbn [legacy_flatten]. rewrite Hb. f_equal.
    revert Hr. generalize (bases g y). intros l Hr.
    induction l as [|b l IHl]; cbn; [reflexivity|].
    rewrite IH by (apply Hr; left; auto). f_equal. apply IHl. intros b' Hb'; apply Hr; right; auto.
  Qed.

  Lemma fresh_sro_local r f y :
    reachesb f g' y x = false -> fresh_sro f r g' y = fresh_sro f r g y.
  Proof.
    revert y; induction f as [|f IH]; intros y H; [reflexivity|].
    pose proof (legacy_flatten_local _ _ H) as Hl.
    apply reachesb_S_false in H. destruct H as (_ & Hb & Hr).
    cbn [fresh_sro]. unfold calc_sro, legacy_ro. rewrite Hb, Hl.
    rewrite (map_ext_in (fresh_sro f r g') (fresh_sro f r g) (bases g y)); [reflexivity|].
    intros b Hin. apply IH, Hr, Hin.
  Qed.
End Locality.

Definition iro_ok (w : world) (s : state) : Prop :=
  forall y, st_iro s y = iro_fresh (w_fuel w) (st_graph s) y.

Lemma set_bases_iro_ok w s x bs : iro_ok w s -> iro_ok w (set_bases w s x bs).
Proof.
  intros H y. unfold set_bases; cbn [st_iro st_graph].
  destruct (reachesb (w_fuel w) (gupdate (st_graph s) x bs) y x) eqn:E; [reflexivity|].
  rewrite H. unfold iro_fresh. symmetry. apply fresh_sro_local, E.
Qed.

Lemma set_bases_memo_ok w s x bs : memo_ok w s -> memo_ok w (set_bases w s x bs).
Proof.
  intros H y m n d. unfold set_bases; cbn [st_iro st_memo].
  destruct (reachesb (w_fuel w) (gupdate (st_graph s) x bs) y x); [discriminate|].
  apply H.
Qed.

(* ---- invariant of every history *)
Definition inv (w : world) (s : state) : Prop := memo_ok w s /\ iro_ok w s.

Lemma init_inv w g tg : inv w (init w g tg).
Proof. split; [intros x m n d; cbn; discriminate | intros y; reflexivity]. Qed.

Lemma step_inv w s o : inv w s -> inv w (step w s o).
Proof.
  intros [Hm Hi]. destruct o as [x bs|x n|x t v]; cbn [step].
  - split; [apply set_bases_memo_ok, Hm | apply set_bases_iro_ok, Hi].
  - split; [apply get_memo_ok, Hm|]. intros y. rewrite get_iro, get_graph. apply Hi.
  - split; [exact Hm | exact Hi].
Qed.

Lemma run_inv w ops : forall s, inv w s -> inv w (run w s ops).
Proof.
  unfold run. induction ops as [|o ops IH]; intros s H; cbn; auto. apply IH, step_inv, H.
Qed.

Lemma run_obs_state w ops : forall s, snd (run_obs w s ops) = run w s ops.
Proof.
  unfold run. induction ops as [|o ops IH]; intros s; cbn [run_obs fold_left]; [reflexivity|].
  destruct o as [x bs|x n|x t v]; try apply IH.
  destruct (get w s x n) as [a s'] eqn:Eg. specialize (IH s').
  destruct (run_obs w s' ops) as [l s'']. cbn in *. rewrite IH.
  change s' with (snd (a, s')). rewrite <- Eg. reflexivity.
Qed.

(* ---- the theorems about get *)
Lemma get_first_in_iro_lemma : forall w g tg ops x n,
  let s := run w (init w g tg) ops in
  (forall d, fst (get w s x n) = Some d <-> first_def w (st_iro s x) n d) /\
  (fst (get w s x n) = None <-> forall j, In j (st_iro s x) -> direct w j n = None).
Proof.
  intros w g tg ops x n s.
  assert (Hinv : inv w s) by (apply run_inv, init_inv).
  rewrite (get_result w s x n (proj1 Hinv)). unfold get_nomemo. split.
  - intros d. apply first_direct_some.
  - apply first_direct_none.
Qed.

Lemma iro_follows_bases_lemma : forall w g tg ops y,
  let s := run w (init w g tg) ops in
  st_iro s y = fresh_sro (w_fuel w) 0 (st_graph s) y.
Proof. intros w g tg ops y s. apply (proj2 (run_inv w ops _ (init_inv w g tg))). Qed.

Lemma memo_transparent_lemma : forall w g tg ops x n,
  let s := run w (init w g tg) ops in
  fst (get w s x n) = first_direct w (fresh_sro (w_fuel w) 0 (st_graph s) x) n.
Proof.
  intros w g tg ops x n s.
  assert (Hinv : inv w s) by (apply run_inv, init_inv).
  rewrite (get_result w s x n (proj1 Hinv)). unfold get_nomemo.
  rewrite (proj2 Hinv). reflexivity.
Qed.

(* the accessors built on get *)
Lemma accessors_agree_lemma : forall w s x n,
  fst (getitem w s x n) = fst (get w s x n) /\
  fst (query_description_for w s x n) = fst (get w s x n) /\
  (fst (contains w s x n) = true <-> fst (get w s x n) <> None).
Proof.
  intros. repeat split; unfold contains; destruct (get w s x n) as [[d|] s']; cbn; congruence.
Qed.

(* ================================================================ namesAndDescriptions(all) *)
Definition tables_wf (w : world) : Prop := forall i, NoDup (map fst (w_attrs w i)).

Lemma nad_fold w n l :
  dget (fold_left (fun r i => dupdate r (dict_of (w_attrs w i))) (rev l) []) n
  = (fix first (iro : list node) : option desc :=
       match iro with
       | [] => None
       | i :: r => match dget (rev (w_attrs w i)) n with Some d => Some d | None => first r end
       end) l.
Proof.
  induction l as [|i l IH]; [reflexivity|].
  cbn [rev]. rewrite fold_left_app. cbn [fold_left].
  rewrite dget_update_dict_of, IH. reflexivity.
Qed.

(* first match walking forward = last write walking backward *)
Lemma nad_all_first w s x n : tables_wf w -> dget (nad_all w s x) n = first_direct w (st_iro s x) n.
Proof.
  intros Hwf. unfold nad_all. rewrite nad_fold.
  induction (st_iro s x) as [|i l IH]; [reflexivity|].
  cbn [first_direct]. unfold direct. rewrite (dget_rev _ _ (Hwf i)), IH. reflexivity.
Qed.

Lemma nad_all_nodup w s x : NoDup (map fst (nad_all w s x)).
Proof.
  unfold nad_all. generalize (rev (st_iro s x)). intros l.
  enough (H : forall r : list (name * desc), NoDup (map fst r) ->
            NoDup (map fst (fold_left (fun r i => dupdate r (dict_of (w_attrs w i))) l r)))
    by (apply H; constructor).
  induction l as [|i l IH]; intros r H; cbn; auto.
  apply IH, dupdate_keys_nodup, H.
Qed.

Lemma nad_all_eq_get_lemma : forall w g tg ops x,
  tables_wf w ->
  let s := run w (init w g tg) ops in
  NoDup (map fst (nad_all w s x)) /\
  forall n d, In (n, d) (nad_all w s x) <-> fst (get w s x n) = Some d.
Proof.
  intros w g tg ops x Hwf s. split; [apply nad_all_nodup|]. intros n d.
  assert (Hinv : inv w s) by (apply run_inv, init_inv).
  rewrite (get_result w s x n (proj1 Hinv)). unfold get_nomemo.
  rewrite <- (nad_all_first w s x n Hwf). symmetry. apply dget_In, nad_all_nodup.
Qed.

(* ================================================================ tagged values *)
Definition first_tag_def (s : state) (iro : list node) (t : tag) (v : tval) : Prop :=
  exists l1 i l2, iro = l1 ++ i :: l2 /\ query_direct_tag s i t = Some v /\
                  forall j, In j l1 -> query_direct_tag s j t = None.

Lemma first_tag_some s iro t v : first_tag s iro t = Some v <-> first_tag_def s iro t v.
Proof.
  induction iro as [|i r IH]; cbn.
  - split; [discriminate|]. intros (l1 & i & l2 & E & _). destruct l1; discriminate.
  - destruct (query_direct_tag s i t) as [v'|] eqn:E.
    + split.
      * intros [= ->]. exists [], i, r. repeat split; auto. intros j [].
      * intros (l1 & i' & l2 & El & Hd & Hn). destruct l1 as [|j l1]; cbn in El.
        -- inversion El; subst. congruence.
        -- inversion El; subst. rewrite (Hn j) in E by (left; auto). discriminate.
    + rewrite IH. split.
      * intros (l1 & i' & l2 & -> & Hd & Hn). exists (i :: l1), i', l2. repeat split; auto.
        intros j [<-|Hj]; auto.
      * intros (l1 & i' & l2 & El & Hd & Hn). destruct l1 as [|j l1]; cbn in El.
        -- inversion El; subst. congruence.
        -- inversion El; subst. exists l1, i', l2. repeat split; auto.
           intros j' Hj'. apply Hn. right; auto.
Qed.

Lemma first_tag_none s iro t :
  first_tag s iro t = None <-> forall j, In j iro -> query_direct_tag s j t = None.
Proof.
  induction iro as [|i r IH]; cbn.
  - split; auto. intros _ j [].
  - destruct (query_direct_tag s i t) eqn:E.
    + split; [discriminate|]. intros H. rewrite (H i) in E by auto. discriminate.
    + rewrite IH. split; [intros H j [<-|Hj]; auto | intros H j Hj; apply H; auto].
Qed.

Lemma tagged_first_in_iro_lemma : forall s x t,
  (forall v, query_tagged s x t = Some v <-> first_tag_def s (st_iro s x) t v) /\
  (query_tagged s x t = None <-> forall j, In j (st_iro s x) -> query_direct_tag s j t = None) /\
  get_tagged s x t = query_tagged s x t.
Proof.
  intros. unfold get_tagged, query_tagged. repeat split; try apply first_tag_some; try apply first_tag_none.
Qed.

Lemma tagged_tags_in s l : forall r t,
  In t (fold_left (fun keys i => kupdate keys (direct_tags s i)) l r)
  <-> In t r \/ exists i, In i l /\ In t (direct_tags s i).
Proof.
  induction l as [|i l IH]; intros r t; cbn.
  - split; auto. intros [H|(i & [] & _)]; auto.
  - rewrite IH, kupdate_in. split.
    + intros [[H|H]|(j & Hj & Ht)]; [left; auto | right; exists i; split; [left|]; auto
                                      | right; exists j; split; [right|]; auto].
    + intros [H|(j & [<-|Hj] & Ht)]; [left; left; auto | left; right; auto | right; eauto].
Qed.

Lemma tags_union_lemma : forall s x t,
  NoDup (tagged_tags s x) /\
  (In t (tagged_tags s x) <-> exists i, In i (st_iro s x) /\ In t (direct_tags s i)) /\
  (In t (tagged_tags s x) <-> query_tagged s x t <> None).
Proof.
  intros s x t.
  assert (H1 : In t (tagged_tags s x) <-> exists i, In i (st_iro s x) /\ In t (direct_tags s i)).
  { unfold tagged_tags. rewrite tagged_tags_in. split; [intros [[]|H]; auto | auto]. }
  split; [|split; [exact H1|]].
  - unfold tagged_tags. generalize (st_iro s x). intros l.
    enough (H : forall r : list tag, NoDup r ->
              NoDup (fold_left (fun keys i => kupdate keys (direct_tags s i)) l r))
      by (apply H; constructor).
    induction l as [|i l IH]; intros r H; cbn; auto. apply IH, kupdate_nodup, H.
  - rewrite H1. unfold query_tagged. rewrite first_tag_none. unfold direct_tags, dkeys, query_direct_tag.
    split.
    + intros (i & Hi & Ht) H. apply dget_some_iff in Ht. apply Ht, H, Hi.
    + generalize (st_iro s x). intros l H. induction l as [|i l IH].
      * exfalso. apply H. intros j [].
      * destruct (dget (st_tags s i) t) eqn:E.
        -- exists i. split; [left; auto|]. apply dget_some_iff. congruence.
        -- destruct IH as (j & Hj & Ht).
           ++ intros H'. apply H. intros j [<-|Hj]; auto.
           ++ exists j. split; [right; auto|auto].
Qed.

(* setTaggedValue is seen by every later query *)
Lemma set_tag_direct s x t v i t' :
  query_direct_tag (set_tag s x t v) i t'
  = if Nat.eqb i x && Nat.eqb t' t then Some v else query_direct_tag s i t'.
Proof.
  unfold query_direct_tag, set_tag; cbn [st_tags].
  destruct (Nat.eqb i x) eqn:E; cbn; [|reflexivity].
  apply Nat.eqb_eq in E; subst i. apply dget_dset.
Qed.

(* ================================================================ invariants *)
Section Invariants.
  Variable fails : nat -> bool.

  (* with an errors list: everything runs, every failure is appended, nothing propagates *)
  Lemma run_invs_collect l : forall e,
    run_invs fails l (Some e) = (l, Some (e ++ filter fails l), None).
  Proof.
    induction l as [|i l IH]; intros e; cbn.
    - rewrite app_nil_r. reflexivity.
    - destruct (fails i).
      + rewrite IH. rewrite <- app_assoc. reflexivity.
      + rewrite IH. reflexivity.
  Qed.

  (* without: stops at the first failing invariant *)
  Lemma run_invs_raise l :
    (forallb (fun i => negb (fails i)) l = true -> run_invs fails l None = (l, None, None)) /\
    (forall l1 i l2, l = l1 ++ i :: l2 -> forallb (fun j => negb (fails j)) l1 = true -> fails i = true ->
       run_invs fails l None = (l1 ++ [i], None, Some i)).
  Proof.
    induction l as [|i l [IH1 IH2]]; split.
    - reflexivity.
    - intros l1 i l2 E. destruct l1; discriminate.
    - cbn. intros H. apply andb_true_iff in H. destruct H as [Hi Hl].
      destruct (fails i); [discriminate|]. rewrite IH1 by auto. reflexivity.
    - intros l1 j l2 E Hl1 Hj. destruct l1 as [|k l1]; cbn in E; inversion E; subst.
      + cbn. rewrite Hj. reflexivity.
      + cbn in Hl1. apply andb_true_iff in Hl1. destruct Hl1 as [Hk Hl1].
        cbn. destruct (fails k); [discriminate|].
        rewrite (IH2 l1 j l2) by auto. reflexivity.
  Qed.

  Lemma errors_all_collected_lemma : forall s x e,
    let r := validate fails s x (Some e) in
    v_ran r = all_invs s x /\
    v_errors r = Some (e ++ filter fails (all_invs s x)) /\
    v_exc r = match e ++ filter fails (all_invs s x) with
              | [] => VNoExc
              | errs => VRaisedErrors errs
              end.
  Proof.
    intros s x e. unfold validate. rewrite run_invs_collect.
    destruct (e ++ filter fails (all_invs s x)); cbn; auto.
  Qed.

  Lemma invariants_all_run_lemma : forall s x,
    let r := validate fails s x None in
    (* nothing fails: every invariant of every interface of the order has run, no exception *)
    ((forall i, In i (all_invs s x) -> fails i = false) ->
       v_ran r = all_invs s x /\ v_exc r = VNoExc) /\
    (* otherwise: the first failing invariant (in order) propagates, all before it ran *)
    (forall l1 i l2, all_invs s x = l1 ++ i :: l2 -> (forall j, In j l1 -> fails j = false) ->
       fails i = true -> v_ran r = l1 ++ [i] /\ v_exc r = VRaisedInv i).
  Proof.
    intros s x. unfold validate. destruct (run_invs_raise (all_invs s x)) as [H1 H2]. split.
    - intros H. rewrite H1; [cbn; auto|]. apply forallb_forall. intros i Hi. rewrite (H i Hi). reflexivity.
    - intros l1 i l2 E Hl1 Hi. rewrite (H2 l1 i l2 E); [cbn; auto| |exact Hi].
      apply forallb_forall. intros j Hj. rewrite (Hl1 j Hj). reflexivity.
  Qed.
End Invariants.

Lemma all_invs_in s x k :
  In k (all_invs s x) <-> exists i, In i (st_iro s x) /\ In k (invs_of s i).
Proof. unfold all_invs. apply in_flat_map. Qed.

(* ================================================================ members of the order = ancestors
   (needed to compare names(all=True), which recurses over __bases__, with the walk over __iro__) *)
Inductive Reach (g : graph) : node -> node -> Prop :=
| Reach_refl x : Reach g x x
| Reach_step x b z : In b (bases g x) -> Reach g b z -> Reach g x z.

Lemma Reach_inv g x z : Reach g x z <-> x = z \/ exists b, In b (bases g x) /\ Reach g b z.
Proof.
  split.
  - intros H. destruct H; [left; auto | right; eauto].
  - intros [<-|(b & Hb & Hr)]; [constructor | econstructor; eauto].
Qed.

Lemma flatten_mem g f : forall x, deep f g x = true ->
  forall z, In z (legacy_flatten f g x) <-> Reach g x z.
Proof.
  induction f as [|f IH]; intros x Hd z; [discriminate|].
  cbn [deep] in Hd. rewrite forallb_forall in Hd.
  cbn [legacy_flatten]. rewrite Reach_inv. cbn [In]. rewrite in_flat_map.
  split; (intros [H|(b & Hb & H)]; [left; auto | right; exists b; split; auto; apply (IH b (Hd b Hb)); auto]).
Qed.

Lemma keep_last_mem l z : In z (keep_last l) <-> In z l.
Proof.
  induction l as [|x t IH]; cbn; [tauto|].
  destruct (Ro.mem x t) eqn:E; cbn; rewrite IH; [|tauto].
  apply mem_In in E. split; auto. intros [<-|H]; auto.
Qed.

(* ---- the C3 merge terminates within its fuel and returns exactly the members of its inputs *)
Lemma nonempty_in (s : list node) z : In z s -> nonempty s = true.
Proof. destruct s; [intros []|reflexivity]. Qed.

Lemma total_len_filter_nonempty seqs : total_len (filter nonempty seqs) = total_len seqs.
Proof.
  unfold total_len. induction seqs as [|s seqs IH]; [reflexivity|].
  destruct s; cbn [filter nonempty fold_right length]; rewrite IH; reflexivity.
Qed.

Lemma filter_len_le {A} (p : A -> bool) l : length (filter p l) <= length l.
Proof. induction l as [|a l IH]; cbn; [lia|]. destruct (p a); cbn; lia. Qed.

Lemma filter_len_lt {A} (p : A -> bool) l a : In a l -> p a = false -> length (filter p l) < length l.
Proof.
  induction l as [|b l IH]; [intros []|]. intros [->|Hin] Hp; cbn.
  - rewrite Hp. pose proof (filter_len_le p l). lia.
  - specialize (IH Hin Hp). destruct (p b); cbn; lia.
Qed.

Lemma total_len_cons (s : list node) seqs : total_len (s :: seqs) = length s + total_len seqs.
Proof. reflexivity. Qed.

Lemma total_len_map_filter_le p seqs : total_len (map (filter p) seqs) <= total_len seqs.
Proof.
  induction seqs as [|s seqs IH]; cbn [map]; [lia|]. rewrite !total_len_cons.
  pose proof (filter_len_le p s). lia.
Qed.

Lemma total_len_map_filter_lt p seqs s (a : node) :
  In s seqs -> In a s -> p a = false -> total_len (map (filter p) seqs) < total_len seqs.
Proof.
  induction seqs as [|s0 seqs IH]; [intros []|]. intros [->|Hin] Ha Hp; cbn [map]; rewrite !total_len_cons.
  - pose proof (filter_len_lt p s a Ha Hp). pose proof (total_len_map_filter_le p seqs). lia.
  - specialize (IH Hin Ha Hp). pose proof (filter_len_le p s0). lia.
Qed.

Lemma remove_everywhere_len b seqs s :
  In s seqs -> In b s -> total_len (remove_everywhere b seqs) < total_len seqs.
Proof.
  intros Hs Hb. unfold remove_everywhere. rewrite total_len_filter_nonempty.
  apply (total_len_map_filter_lt _ seqs s b Hs Hb). rewrite Nat.eqb_refl. reflexivity.
Qed.

Lemma remove_everywhere_mem b seqs z :
  (exists s, In s (remove_everywhere b seqs) /\ In z s) <-> (z <> b /\ exists s, In s seqs /\ In z s).
Proof.
  unfold remove_everywhere. split.
  - intros (s & Hs & Hz). apply filter_In in Hs. destruct Hs as [Hs _].
    apply in_map_iff in Hs. destruct Hs as (s0 & <- & Hs0). apply filter_In in Hz. destruct Hz as [Hz Hne].
    split; [|eauto]. intros ->. rewrite Nat.eqb_refl in Hne. discriminate.
  - intros (Hne & s & Hs & Hz). exists (filter (fun c => negb (Nat.eqb c b)) s).
    assert (Hz' : In z (filter (fun c => negb (Nat.eqb c b)) s)).
    { apply filter_In. split; auto. apply negb_true_iff, Nat.eqb_neq, Hne. }
    split; auto. apply filter_In. split; [apply in_map, Hs | eapply nonempty_in, Hz'].
Qed.

Lemma find_next_head seqs b : find_next seqs = Some b -> exists t, In (b :: t) seqs.
Proof.
  unfold find_next.
  enough (H : forall l, find_from l seqs = Some b -> exists t, In (b :: t) l) by apply H.
  induction l as [|s l IH]; [discriminate|].
  destruct s as [|h t]; cbn [find_from].
  - intros H. destruct (IH H) as (t & Ht). exists t. right; auto.
  - destruct (can_choose h seqs).
    + intros [= ->]. exists t. left; auto.
    + intros H. destruct (IH H) as (t' & Ht). exists t'. right; auto.
Qed.

Lemma merge_loop_spec : forall fuel seqs acc,
  total_len seqs < fuel ->
  match merge_loop fuel seqs acc with
  | MOk l => forall z, In z l <-> In z acc \/ exists s, In s seqs /\ In z s
  | MBad => True
  | MFuel => False
  end.
Proof.
  induction fuel as [|f IH]; intros seqs acc Hlen; [lia|].
  cbn [merge_loop]. destruct seqs as [|s0 rest].
  - intros z. rewrite <- in_rev. split; auto. intros [H|(s & [] & _)]; auto.
  - remember (s0 :: rest) as seqs eqn:Eseqs.
    destruct (find_next seqs) as [b|] eqn:Ef; [|exact I].
    destruct (find_next_head _ _ Ef) as (t & Ht).
    assert (Hb : In b (b :: t)) by (left; auto).
    pose proof (remove_everywhere_len b seqs _ Ht Hb) as Hlt.
    specialize (IH (remove_everywhere b seqs) (b :: acc)).
    destruct (merge_loop f (remove_everywhere b seqs) (b :: acc)) as [l| |].
    + intros z. rewrite IH by lia. rewrite remove_everywhere_mem. cbn [In]. split.
      * intros [[<-|H]|[_ H]]; auto. right. eauto.
      * intros [H|H]; auto. destruct (Nat.eq_dec z b) as [->|Hne]; auto.
    + exact I.
    + apply IH. lia.
Qed.

Lemma c3_merge_spec seqs :
  match c3_merge seqs with
  | MOk l => forall z, In z l <-> exists s, In s seqs /\ In z s
  | MBad => True
  | MFuel => False
  end.
Proof.
  unfold c3_merge. pose proof (merge_loop_spec (S (total_len (filter nonempty seqs))) (filter nonempty seqs) []) as H.
  destruct (merge_loop _ _ _) as [l| |]; auto.
  intros z. rewrite H by lia. cbn [In]. split.
  - intros [[]|(s & Hs & Hz)]. apply filter_In in Hs. exists s. tauto.
  - intros (s & Hs & Hz). right. exists s. split; auto. apply filter_In. split; auto. eapply nonempty_in, Hz.
Qed.

(* one node of the (non-strict) resolver: a result whose members are bounded both ways, or the
   legacy order *)
Lemma c3_node_spec x bs mros leg :
  exists m i, c3_node false x bs mros false leg = ROk m i /\
    (m = leg \/
     ((forall z, In z m -> z = x \/ (exists mm, In mm mros /\ In z mm) \/ In z bs) /\
      (forall z, z = x \/ (exists mm, In mm mros /\ In z mm) -> In z m))).
Proof.
  assert (Hmerge : exists m i,
    match c3_merge ([[x]] ++ mros ++ [bs]) with
    | MOk l => ROk l false
    | MBad => ROk leg true
    | MFuel => RFuel
    end = ROk m i /\
    (m = leg \/
     ((forall z, In z m -> z = x \/ (exists mm, In mm mros /\ In z mm) \/ In z bs) /\
      (forall z, z = x \/ (exists mm, In mm mros /\ In z mm) -> In z m)))).
  { pose proof (c3_merge_spec ([[x]] ++ mros ++ [bs])) as H.
    destruct (c3_merge ([[x]] ++ mros ++ [bs])) as [l| |]; [|eauto|contradiction].
    exists l, false. split; auto. right. split; intros z.
    - rewrite H. intros (s & Hs & Hz). cbn in Hs. destruct Hs as [<-|Hs].
      + destruct Hz as [<-|[]]. auto.
      + apply in_app_iff in Hs. destruct Hs as [Hs|[<-|[]]]; eauto.
    - rewrite H. intros [->|(mm & Hmm & Hz)].
      + exists [x]. split; cbn; auto.
      + exists mm. split; auto. cbn. right. apply in_app_iff. auto. }
  unfold c3_node.
  destruct bs as [|b [|b2 bs]]; destruct mros as [|m1 [|m2 mros]]; try exact Hmerge.
  exists (x :: m1), false. split; auto. right. split; intros z; cbn.
  - intros [<-|H]; auto. right. left. exists m1. auto.
  - intros [->|(mm & [<-|[]] & Hz)]; auto.
Qed.

Lemma last_is_in r l : last_is r l = true -> In r l.
Proof.
  unfold last_is. destruct (rev l) as [|y t] eqn:E; [discriminate|].
  intros H. apply Nat.eqb_eq in H; subst y. apply in_rev. rewrite E. left; auto.
Qed.

Lemma root_last_mem r m z : m <> [] -> (In z (root_last r m) <-> In z m \/ z = r).
Proof.
  intros Hne. unfold root_last. destruct m as [|a m]; [congruence|].
  destruct (last_is r (a :: m)) eqn:E.
  - split; auto. intros [H| ->]; auto. apply last_is_in, E.
  - rewrite in_app_iff, filter_In. cbn [In]. split.
    + intros [[H _]|[<-|[]]]; auto.
    + intros [H| ->]; auto. destruct (Nat.eq_dec z r) as [->|Hzr]; auto.
      left. split; auto. apply negb_true_iff, Nat.eqb_neq, Hzr.
Qed.

Lemma fresh_sro_mem g r : bases g r = [] ->
  forall f x, deep f g x = true ->
  forall z, In z (fresh_sro f r g x) <-> z = r \/ Reach g x z.
Proof.
  intros Hroot. induction f as [|f IH]; intros x Hd z; [discriminate|].
  pose proof (flatten_mem g (S f) x Hd) as Hflat.
  cbn [deep] in Hd. rewrite forallb_forall in Hd.
  cbn [fresh_sro]. unfold calc_sro.
  destruct (Nat.eqb x r) eqn:Exr.
  - apply Nat.eqb_eq in Exr; subst x. cbn [In]. rewrite Reach_inv, Hroot. cbn [In].
    split; [intros [<-|[]]; auto | intros [->|[->|(b & [] & _)]]; auto].
  - destruct (c3_node_spec x (bases g x) (map (fresh_sro f r g) (bases g x)) (legacy_ro (S f) g x))
      as (m & i & -> & Hm).
    assert (Hmem : forall z, In z m -> Reach g x z \/ z = r).
    { destruct Hm as [->|[Hup _]].
      - intros z' Hz. left. apply Hflat. unfold legacy_ro in Hz. apply (proj1 (keep_last_mem _ _)) in Hz. exact Hz.
      - intros z' Hz. destruct (Hup z' Hz) as [->|[(mm & Hmm & Hz')|Hb]].
        + left; constructor.
        + apply in_map_iff in Hmm. destruct Hmm as (b & <- & Hb).
          apply (IH b (Hd b Hb)) in Hz'. destruct Hz' as [->|Hr]; auto. left. econstructor; eauto.
        + left. econstructor; eauto. constructor. }
    assert (Hmem2 : forall z, Reach g x z -> In z m).
    { destruct Hm as [->|[_ Hlo]].
      - intros z' Hz. unfold legacy_ro. apply keep_last_mem, Hflat, Hz.
      - intros z' Hz. apply Hlo. apply Reach_inv in Hz. destruct Hz as [<-|(b & Hb & Hr)]; auto.
        right. exists (fresh_sro f r g b). split; [apply in_map, Hb|].
        apply (IH b (Hd b Hb)). auto. }
    assert (Hne : m <> []) by (intros ->; apply (Hmem2 x); constructor).
    rewrite (root_last_mem r m z Hne). split.
    + intros [H| ->]; auto. destruct (Hmem z H); auto.
    + intros [->|H]; auto.
Qed.

Lemma names_all_mem w g f : forall x, deep f g x = true ->
  forall n, In n (names_all w f g x) <-> exists z, Reach g x z /\ In n (names_direct w z).
Proof.
  induction f as [|f IH]; intros x Hd n; [discriminate|].
  cbn [deep] in Hd. rewrite forallb_forall in Hd. cbn [names_all].
  assert (Hfold : forall l r, (forall b, In b l -> In b (bases g x)) ->
    (In n (fold_left (fun r b => kupdate r (names_all w f g b)) l r)
     <-> In n r \/ exists b, In b l /\ exists z, Reach g b z /\ In n (names_direct w z))).
  { induction l as [|b l IHl]; intros r0 Hsub; cbn [fold_left].
    - split; auto. intros [H|(b & [] & _)]; auto.
    - rewrite IHl by (intros b' Hb'; apply Hsub; right; auto).
      rewrite kupdate_in, (IH b (Hd b (Hsub b (or_introl eq_refl)))). split.
      + intros [[H|H]|(b' & Hb' & H)]; auto.
        * right. exists b. split; [left|]; auto.
        * right. exists b'. split; [right|]; auto.
      + intros [H|(b' & [<-|Hb'] & H)]; auto. right. eauto. }
  rewrite Hfold by auto. split.
  - intros [H|(b & Hb & z & Hr & Hn)].
    + exists x. split; [constructor|auto].
    + exists z. split; [econstructor; eauto|auto].
  - intros (z & Hr & Hn). apply Reach_inv in Hr. destruct Hr as [<-|(b & Hb & Hr)]; auto.
    right. eauto.
Qed.

(* ---- all accessors agree on which names are present *)
Lemma presence_lemma : forall w g tg ops x n,
  let s := run w (init w g tg) ops in
  let present := exists i, In i (st_iro s x) /\ direct w i n <> None in
  (fst (get w s x n) <> None <-> present) /\
  (fst (contains w s x n) = true <-> present) /\
  (tables_wf w -> (In n (map fst (nad_all w s x)) <-> present)) /\
  (deep (w_fuel w) (st_graph s) x = true -> bases (st_graph s) 0 = [] -> w_attrs w 0 = [] ->
     (In n (iter w s x) <-> present) /\
     (In n (names_all w (w_fuel w) (st_graph s) x) <-> present)).
Proof.
  intros w g tg ops x n s present.
  assert (Hinv : inv w s) by (apply run_inv, init_inv).
  assert (Hget : fst (get w s x n) <> None <-> present).
  { rewrite (get_result w s x n (proj1 Hinv)). apply first_direct_present. }
  split; [exact Hget|]. split; [|split].
  - rewrite <- Hget. apply accessors_agree_lemma.
  - intros Hwf. rewrite <- dget_some_iff, (nad_all_first w s x n Hwf). apply first_direct_present.
  - intros Hd Hroot Hr0. unfold iter.
    assert (H : In n (names_all w (w_fuel w) (st_graph s) x) <-> present); [|tauto].
    rewrite (names_all_mem w _ _ x Hd). unfold present. rewrite (proj2 Hinv). unfold iro_fresh.
    split.
    + intros (z & Hz & Hn). exists z. split.
      * apply (fresh_sro_mem _ _ Hroot _ _ Hd). auto.
      * unfold direct. apply dget_some_iff. exact Hn.
    + intros (i & Hi & Hdef). apply (fresh_sro_mem _ _ Hroot _ _ Hd) in Hi.
      unfold direct in Hdef. apply dget_some_iff in Hdef.
      destruct Hi as [->|Hr]; [unfold root in Hdef; rewrite Hr0 in Hdef; destruct Hdef|].
      exists i. auto.
Qed.
