(* Lazy creation of class specifications (Model/DeclLazy.v) is invisible: in every reachable
   lazy state the answers of the lazy query functions are those of Model/Decl.v. *)
From Coq Require Import List Arith Bool Lia.
Import ListNotations.
From ZI Require Import Lib.Util Model.Decl Model.DeclLazy Proofs.Decl.

(* ------------------------------------------------------------------ flags *)
Lemma nth_upd_eq {A} (l : list A) n x d : n < length l -> nth n (upd l n x) d = x.
Proof. revert n; induction l as [|h t IH]; intros [|n] H; cbn in *; try lia; auto. apply IH; lia. Qed.
Lemma nth_upd_ne {A} (l : list A) n m x d : n <> m -> nth m (upd l n x) d = nth m l d.
Proof. revert n m; induction l as [|h t IH]; intros [|n] [|m] H; cbn; auto; try congruence. Qed.

Lemma zcreated_upd_true fl c d : zcreated fl d = true -> zcreated (upd fl c true) d = true.
Proof.
  unfold zcreated. intros H. destruct (Nat.eq_dec c d) as [->|Hne].
  - destruct (lt_dec d (length fl)); [rewrite nth_upd_eq; auto|].
    rewrite nth_overflow in H by lia. discriminate.
  - rewrite nth_upd_ne; auto.
Qed.

Lemma zcreated_range fl c : zcreated fl c = true -> c < length fl.
Proof.
  unfold zcreated. intros H. destruct (lt_dec c (length fl)); auto. rewrite nth_overflow in H by lia. discriminate.
Qed.

Definition closedfl (cs : list crec) (fl : list bool) : Prop :=
  forall c r b, zcreated fl c = true -> nth_error cs c = Some r -> c_inherit r = true -> In b (c_bases r) ->
                zcreated fl b = true.

Lemma zensure_length cs f : forall fl c, length (zensure_f cs f fl c) = length fl.
Proof.
  induction f as [|f IH]; intros fl c; cbn [zensure_f]; auto.
  destruct (zcreated fl c); auto. destruct (nth_error cs c) as [r|]; auto.
  rewrite length_upd. destruct (c_inherit r); auto.
  generalize fl. induction (c_bases r) as [|b l IHl]; intros fl0; cbn; auto.
  rewrite IHl, IH. auto.
Qed.

Lemma zensure_mono cs f : forall fl c d, zcreated fl d = true -> zcreated (zensure_f cs f fl c) d = true.
Proof.
  induction f as [|f IH]; intros fl c d H; cbn [zensure_f]; auto.
  destruct (zcreated fl c); auto. destruct (nth_error cs c) as [r|]; auto.
  apply zcreated_upd_true. destruct (c_inherit r); auto.
  revert fl H. induction (c_bases r) as [|b l IHl]; intros fl0 H; cbn; auto.
  apply IHl. apply IH. auto.
Qed.

Lemma fold_ensure_mono cs f l : forall fl d, zcreated fl d = true -> zcreated (fold_left (zensure_f cs f) l fl) d = true.
Proof. induction l as [|b l IH]; intros fl d H; cbn; auto. apply IH. apply zensure_mono; auto. Qed.

Lemma fold_ensure_length cs f l : forall fl, length (fold_left (zensure_f cs f) l fl) = length fl.
Proof. induction l as [|b l IH]; intros fl; cbn; auto. rewrite IH. apply zensure_length. Qed.

(* with enough fuel, implementedBy(c) leaves c and everything it points to created *)
Lemma zensure_closed cs : wf_classes cs -> forall f fl c,
  length fl = length cs -> closedfl cs fl -> c < f ->
  closedfl cs (zensure_f cs f fl c) /\ (c < length cs -> zcreated (zensure_f cs f fl c) c = true).
Proof.
  intros W. induction f as [|f IH]; intros fl c Hlen Hcl Hf; [lia|].
  cbn [zensure_f]. destruct (zcreated fl c) eqn:Ec; [split; auto|].
  destruct (nth_error cs c) as [r|] eqn:E.
  - assert (Hb : forall b, In b (c_bases r) -> b < f) by (intros b Hb; pose proof (W _ _ _ E Hb); lia).
    assert (Hfold : forall l fl0, length fl0 = length cs -> closedfl cs fl0 -> (forall b, In b l -> b < f /\ b < length cs) ->
              closedfl cs (fold_left (zensure_f cs f) l fl0) /\
              (forall b, In b l -> zcreated (fold_left (zensure_f cs f) l fl0) b = true)).
    { induction l as [|b l IHl]; intros fl0 Hl0 Hc0 Hbl; cbn [fold_left]; [split; auto; intros b []|].
      destruct (Hbl b (or_introl eq_refl)) as [Hb1 Hb2].
      destruct (IH fl0 b Hl0 Hc0 Hb1) as [Hc1 Hb3].
      destruct (IHl (zensure_f cs f fl0 b)) as [Hc2 Hall].
      - rewrite zensure_length; auto.
      - auto.
      - intros b' Hb'. apply Hbl. right; auto.
      - split; auto. intros b' [<-|Hb']; auto. apply fold_ensure_mono. auto. }
    set (fl1 := if c_inherit r then fold_left (zensure_f cs f) (c_bases r) fl else fl).
    assert (H1 : closedfl cs fl1 /\ length fl1 = length fl /\
                 (c_inherit r = true -> forall b, In b (c_bases r) -> zcreated fl1 b = true)).
    { unfold fl1. destruct (c_inherit r) eqn:Ei.
      - destruct (Hfold (c_bases r) fl Hlen Hcl) as [Hc1 Hall].
        { intros b Hb'. split; auto. pose proof (W _ _ _ E Hb'). pose proof (nth_error_lt _ _ _ E). lia. }
        split; [|split]; auto. apply fold_ensure_length.
      - split; [|split]; auto. intros; discriminate. }
    destruct H1 as [Hc1 [Hl1 Hall]].
    split.
    + intros d rd b Hd Ed Hi Hin. destruct (Nat.eq_dec c d) as [->|Hne].
      * rewrite E in Ed. inversion Ed; subst. apply zcreated_upd_true. auto.
      * unfold zcreated in Hd. rewrite nth_upd_ne in Hd by auto. apply zcreated_upd_true. eapply Hc1; eauto.
    + intros Hc. unfold zcreated. apply nth_upd_eq. rewrite Hl1. lia.
  - split; auto. intros Hc. apply nth_error_None in E. lia.
Qed.

(* ------------------------------------------------------------------ an existing specification reads like the eager model *)
Lemma zdirect_cdirect cs fl : closedfl cs fl -> forall f c, zcreated fl c = true ->
  zdirect_f cs fl f c = cdirect_f cs f c.
Proof.
  intros Hcl. induction f as [|f IH]; intros c Hc; cbn [zdirect_f cdirect_f]; auto.
  rewrite Hc. destruct (nth_error cs c) as [r|] eqn:E; auto. f_equal.
  destruct (c_inherit r) eqn:Ei; auto. apply flat_map_ext_in. intros b Hb. apply IH. eapply Hcl; eauto.
Qed.

Lemma NoDup_dedup l : NoDup (dedup l).
Proof.
  induction l as [|x l IH]; cbn [dedup]; constructor.
  - intro H. apply filter_In in H. destruct H as [_ H]. rewrite Nat.eqb_refl in H. discriminate.
  - apply NoDup_filter. auto.
Qed.

(* ------------------------------------------------------------------ the invariant *)
(* new-style: declared = (), inherit = cls; old-style attribute: inherit = None and the attribute's
   interfaces; no class-object declaration either way *)
Definition dflt (r : crec) : Prop := (c_inherit r = true -> c_decl r = []) /\ c_cprov r = [].

Record zinv (z : zstate) : Prop := mkZinv {
  z_len : length (snd z) = length (classes (fst z));
  z_wf : wf_classes (classes (fst z));
  z_closed : closedfl (classes (fst z)) (snd z);
  (* a class without specification: its record is what the specification will contain *)
  z_default : forall c r, nth_error (classes (fst z)) c = Some r -> zcreated (snd z) c = false -> dflt r;
  z_builtin : forall c r, nth_error (classes (fst z)) c = Some r -> c_builtin r = true -> c_cprov r = [];
  z_inst : forall o r k, nth_error (insts (fst z)) o = Some r -> i_prov r = Some k -> zcreated (snd z) (i_cls r) = true;
  z_icls : forall o r, nth_error (insts (fst z)) o = Some r -> i_cls r < length (classes (fst z));
  z_nodup : forall c r, nth_error (classes (fst z)) c = Some r -> NoDup (c_bases r) }.

Lemma zinv_init : zinv zinit.
Proof.
  split; cbn; auto.
  - intros c r b H. destruct c; discriminate.
  - intros c r b H. unfold zcreated in H. destruct c; discriminate.
  - intros c r H. destruct c; discriminate.
  - intros c r H. destruct c; discriminate.
  - intros o r k H. destruct o; discriminate.
  - intros o r H. destruct o; discriminate.
  - intros c r H. destruct c; discriminate.
Qed.

Lemma zinv_ensure z c : zinv z -> zinv (zensure z c) /\ (c < length (classes (fst z)) -> zcreated (snd (zensure z c)) c = true).
Proof.
  intros [L W Cl D B I Ic Nd]. unfold zensure. cbn [fst snd].
  destruct (zensure_closed _ W (S c) (snd z) c L Cl (Nat.lt_succ_diag_r c)) as [Hc1 Hc2].
  split; auto. split; cbn [fst snd]; auto.
  - rewrite zensure_length; auto.
  - intros d r E Hd. apply (D d r E). destruct (zcreated (snd z) d) eqn:Ed; auto.
    rewrite (zensure_mono _ _ _ _ _ Ed) in Hd. discriminate.
  - intros o r k E Hp. apply zensure_mono. eauto.
Qed.

Lemma zensure_fst z c : fst (zensure z c) = fst z.
Proof. reflexivity. Qed.

Lemma pre_ensure_fst z o : fst (pre_ensure z o) = fst z.
Proof.
  unfold pre_ensure. destruct (decl_class o); auto. destruct (decl_target o) as [[i|c]|]; auto.
  destruct (nth_error (insts (fst z)) i) as [r|]; auto. destruct (i_live r); auto.
Qed.

Lemma zinv_pre_ensure z o : zinv z -> zinv (pre_ensure z o).
Proof.
  intros H. unfold pre_ensure. destruct (decl_class o); [apply zinv_ensure; auto|].
  destruct (decl_target o) as [[i|c]|]; auto; [|apply zinv_ensure; auto].
  destruct (nth_error (insts (fst z)) i) as [r|]; auto. destruct (i_live r); auto. apply zinv_ensure; auto.
Qed.

(* ------------------------------------------------------------------ what a step of Model/Decl.v does to the class records *)
Definition touched (o : op) : option cls :=
  match decl_class o with
  | Some c => Some c
  | None => match decl_target o with Some (TCls c) => Some c | _ => None end
  end.

Definition cshape (t : option cls) (cs cs' : list crec) : Prop :=
  length cs' = length cs /\
  forall d r', nth_error cs' d = Some r' ->
    exists r, nth_error cs d = Some r /\ c_bases r' = c_bases r /\ c_builtin r' = c_builtin r /\
              (t <> Some d -> r' = r) /\ (c_builtin r = true -> c_cprov r' = c_cprov r) /\
              (c_inherit r' = true -> c_inherit r = true).

Lemma cshape_refl t cs : cshape t cs cs.
Proof. split; auto. intros d r' E. exists r'. repeat split; auto. Qed.

Lemma cshape_trans t a b c : cshape t a b -> cshape t b c -> cshape t a c.
Proof.
  intros [L1 H1] [L2 H2]. split; [congruence|]. intros d r' E.
  destruct (H2 d r' E) as [r1 [E1 [B1 [Bi1 [F1 [P1 I1]]]]]]. destruct (H1 d r1 E1) as [r0 [E0 [B0 [Bi0 [F0 [P0 I0]]]]]].
  exists r0. repeat split; try congruence.
  - intros Ht. rewrite (F1 Ht). auto.
  - intros Hb. rewrite P1 by congruence. auto.
  - auto.
Qed.

Lemma cshape_upd cs c r r' :
  nth_error cs c = Some r -> c_bases r' = c_bases r -> c_builtin r' = c_builtin r ->
  (c_builtin r = true -> c_cprov r' = c_cprov r) -> (c_inherit r' = true -> c_inherit r = true) ->
  cshape (Some c) cs (upd cs c r').
Proof.
  intros E Hb Hbi Hp Hinh. split; [apply length_upd|]. intros d rd Ed.
  apply nth_error_upd_inv in Ed. destruct Ed as [[-> [-> _]]|[Hne Ed]].
  - exists r. repeat split; auto. intros H; congruence.
  - exists rd. repeat split; auto.
Qed.

Lemma cshape_class_ordered ev g st c b a : cshape (Some c) (classes st) (classes (class_ordered ev g st c b a)).
Proof.
  unfold class_ordered. destruct (nth_error (classes st) c) as [r|] eqn:E; [|apply cshape_refl].
  cbn [set_class classes]. apply cshape_upd with r; auto.
Qed.

Lemma cshape_set_plain st c pl : cshape (Some c) (classes st) (classes (set_plain st c pl)).
Proof.
  unfold set_plain. destruct (nth_error (classes st) c) as [r|] eqn:E; [|apply cshape_refl].
  cbn [classes]. apply cshape_upd with r; auto.
Qed.

Lemma directly_cshape g st t args :
  cshape (match t with TCls c => Some c | TInst _ => None end) (classes st) (classes (directly g st t args)) /\ True.
Proof.
  split; auto. destruct t as [o|c]; cbn [directly].
  - unfold direct_inst. destruct (nth_error (insts st) o) as [r|]; [|apply cshape_refl].
    destruct (i_live r && negb (class_builtin st (i_cls r))); [|apply cshape_refl].
    destruct (provides g st (i_cls r) args) as [st1 k] eqn:P.
    destruct (provides_frame _ _ _ _ _ _ P) as [Hc _]. cbn [classes]. rewrite Hc. apply cshape_refl.
  - unfold direct_cls. destruct (nth_error (classes st) c) as [r|] eqn:E; [|apply cshape_refl].
    destruct (c_builtin r) eqn:Eb; [apply cshape_refl|]. cbn [classes].
    apply cshape_upd with r; auto. intros; congruence.
Qed.

Lemma step_cshape ev g st o :
  (forall bs m bi old, o <> NewClass bs m bi old) -> cshape (touched o) (classes st) (classes (step ev g st o)).
Proof.
  intros Hn. destruct o; cbn [step touched decl_class decl_target]; try apply cshape_refl.
  - exfalso. eapply Hn; eauto.
  - destruct (Nat.ltb c (length (classes st))); apply cshape_refl.
  - destruct (nth_error (insts st) o); apply cshape_refl.
  - unfold class_implements. destruct (nth_error (classes st) c); [apply cshape_class_ordered|apply cshape_refl].
  - unfold class_only. destruct (nth_error (classes st) c) as [r|] eqn:E; [|apply cshape_refl].
    eapply cshape_trans; [|apply cshape_set_plain].
    eapply cshape_trans; [|apply cshape_class_ordered]. cbn [set_class classes]. apply cshape_upd with r; auto; cbn; intros; discriminate.
  - unfold class_implements. destruct (nth_error (classes st) c); [apply cshape_class_ordered|apply cshape_refl].
  - unfold class_only. destruct (nth_error (classes st) c) as [r|] eqn:E; [|apply cshape_refl].
    eapply cshape_trans; [|apply cshape_set_plain].
    eapply cshape_trans; [|apply cshape_class_ordered]. cbn [set_class classes]. apply cshape_upd with r; auto; cbn; intros; discriminate.
  - apply cshape_class_ordered.
  - apply (proj1 (directly_cshape g st t _)).
  - apply (proj1 (directly_cshape g st t _)).
  - apply (proj1 (directly_cshape g st t _)).
  - apply (proj1 (directly_cshape g st t _)).
Qed.

Lemma zcreated_snoc_false fl c : zcreated (fl ++ [false]) c = zcreated fl c.
Proof.
  unfold zcreated. destruct (lt_dec c (length fl)) as [H|H].
  - apply app_nth1; auto.
  - rewrite (nth_overflow fl) by lia. rewrite app_nth2 by lia. destruct (c - length fl) as [|[|k]]; auto.
Qed.

(* what a step does to the instances *)
Lemma step_insts ev g st o i r' :
  nth_error (insts (step ev g st o)) i = Some r' ->
  (exists r, nth_error (insts st) i = Some r /\ i_cls r' = i_cls r /\
             (i_prov r' = i_prov r \/ (decl_target o = Some (TInst i) /\ i_live r = true))) \/
  (exists c, o = NewInstance c /\ c < length (classes st) /\ i_cls r' = c /\ i_prov r' = None).
Proof.
  intros H.
  assert (Hsame : insts (step ev g st o) = insts st -> exists r, nth_error (insts st) i = Some r /\ i_cls r' = i_cls r /\
             (i_prov r' = i_prov r \/ (decl_target o = Some (TInst i) /\ i_live r = true))).
  { intros E. rewrite E in H. exists r'. auto. }
  assert (Hdir : forall t (args : list iface), True ->
            nth_error (insts (directly g st t args)) i = Some r' -> decl_target o = Some t ->
            exists r, nth_error (insts st) i = Some r /\ i_cls r' = i_cls r /\
             (i_prov r' = i_prov r \/ (decl_target o = Some (TInst i) /\ i_live r = true))).
  { intros t args _ Hd Ht. destruct t as [o1|c1]; cbn [directly] in Hd.
    - unfold direct_inst in Hd. destruct (nth_error (insts st) o1) as [r1|] eqn:E1; [|exists r'; auto].
      destruct (i_live r1 && negb (class_builtin st (i_cls r1))) eqn:El; [|exists r'; auto].
      destruct (provides g st (i_cls r1) args) as [st1 k] eqn:P.
      destruct (provides_frame _ _ _ _ _ _ P) as [_ Hi]. cbn [insts] in Hd. rewrite Hi in Hd.
      apply nth_error_upd_inv in Hd. destruct Hd as [[-> [-> _]]|[Hne Hd]].
      + exists r1. repeat split; auto. right. split; auto. apply andb_true_iff in El. tauto.
      + exists r'. auto.
    - unfold direct_cls in Hd. destruct (nth_error (classes st) c1) as [rc|]; [|exists r'; auto].
      destruct (c_builtin rc); exists r'; auto. }
  destruct o; cbn [step] in *;
    try (left; apply Hsame; first [apply (proj1 (cframe_class_implements ev g c st (nargs st l)))
                                 |apply (proj1 (cframe_class_only ev g c st (nargs st l) (plain_args l)))
                                 |apply (proj1 (cframe_class_ordered ev g c st [x] []))
                                 |reflexivity]);
    try (left; eapply Hdir; eauto; fail).
  - (* NewInstance *) destruct (Nat.ltb c (length (classes st))) eqn:Ec; [|left; apply Hsame; auto].
    cbn [insts] in H. apply nth_error_snoc in H. destruct H as [[_ H]|[-> ->]].
    + left. exists r'. auto.
    + right. exists c. apply Nat.ltb_lt in Ec. auto.
  - (* DropInstance *) destruct (nth_error (insts st) o) as [r|] eqn:E; [|left; apply Hsame; auto].
    cbn [insts] in H. apply nth_error_upd_inv in H. destruct H as [[-> [-> _]]|[_ H]].
    + left. exists r. auto.
    + left. exists r'. auto.
Qed.

Lemma touched_created z o c :
  zinv z -> touched o = Some c -> c < length (classes (fst z)) -> zcreated (snd (pre_ensure z o)) c = true.
Proof.
  intros I Ht Hc. unfold touched in Ht. unfold pre_ensure. destruct (decl_class o) as [c0|].
  - inversion Ht; subst. apply zinv_ensure; auto.
  - destruct (decl_target o) as [[i|c1]|]; try discriminate. inversion Ht; subst. apply zinv_ensure; auto.
Qed.

Lemma zinv_zstep ev g z o : zinv z -> zinv (zstep ev g z o).
Proof.
  intros I0. pose proof (zinv_pre_ensure z o I0) as I1. unfold zstep.
  pose proof (pre_ensure_fst z o) as Ef. set (z1 := pre_ensure z o) in *.
  destruct I1 as [L W Cl D B Ii Ic Nd].
  destruct (match o with NewClass _ _ _ _ => true | _ => false end) eqn:Hnew.
  - destruct o; try discriminate. cbn [step fst snd]. split; cbn [fst snd classes insts].
    + rewrite !app_length, L. auto.
    + intros c r b Hc Hin. apply nth_error_snoc in Hc. destruct Hc as [[_ Hc]|[-> ->]]; [eapply W; eauto|].
      cbn in Hin. rewrite In_dedup in Hin. apply filter_In in Hin. destruct Hin as [_ Hin]. apply Nat.ltb_lt in Hin. auto.
    + intros c r b Hc E Hi Hin. rewrite zcreated_snoc_false in *. pose proof (zcreated_range _ _ Hc) as Hr.
      rewrite nth_error_app1 in E by lia. eapply Cl; eauto.
    + intros c r E Hc. rewrite zcreated_snoc_false in Hc. apply nth_error_snoc in E.
      destruct E as [[_ E]|[-> ->]]; [eauto|]. split; cbn; auto. destruct old; [discriminate|auto].
    + intros c r E Hb. apply nth_error_snoc in E. destruct E as [[_ E]|[-> ->]]; [eauto|]. auto.
    + intros i r k E Hp. rewrite zcreated_snoc_false. eauto.
    + intros i r E. rewrite app_length. apply Ic in E. lia.
    + intros c r E. apply nth_error_snoc in E. destruct E as [[_ E]|[-> ->]]; [eauto|]. cbn. apply NoDup_dedup.
  - assert (Hn : forall bs m bi old, o <> NewClass bs m bi old) by (intros; intro; subst; discriminate).
    pose proof (step_cshape ev g (fst z1) o Hn) as [Hlen Hsh].
    replace (match o with NewClass _ _ _ _ => snd z1 ++ [false] | _ => snd z1 end) with (snd z1)
      by (destruct o; auto; discriminate).
    split; cbn [fst snd].
    + rewrite L. auto.
    + intros c r' b E Hin. destruct (Hsh c r' E) as [r [E0 [Hb _]]]. rewrite Hb in Hin. eapply W; eauto.
    + intros c r' b Hc E Hi Hin. destruct (Hsh c r' E) as [r [E0 [Hb [_ [_ [_ Hinh]]]]]]. rewrite Hb in Hin. eapply Cl; eauto.
    + intros c r' E Hc. destruct (Hsh c r' E) as [r [E0 [_ [_ [Hsame _]]]]].
      rewrite Hsame; [eauto|]. intro Ht.
      assert (zcreated (snd z1) c = true).
      { apply touched_created; auto. rewrite <- Ef. eapply nth_error_lt; eauto. }
      congruence.
    + intros c r' E Hb. destruct (Hsh c r' E) as [r [E0 [_ [Hbi [_ [Hp _]]]]]]. rewrite Hp by congruence.
      eapply B; eauto; congruence.
    + intros i r' k E Hp. destruct (step_insts _ _ _ _ _ _ E) as [[r [E0 [Hc [Hsame|[Ht Hl]]]]]|[c [-> [_ [_ Hnone]]]]].
      * rewrite Hc. apply (Ii i r k E0). congruence.
      * rewrite Hc. pose proof (Ic _ _ E0) as Hlt.
        assert (Hdc : decl_class o = None) by (destruct o; cbn in Ht; try discriminate; auto).
        subst z1. unfold pre_ensure in *. rewrite Hdc, Ht in *.
        cbn [fst] in E0. rewrite Ef in E0. rewrite E0, Hl in *.
        apply zinv_ensure; auto.
      * congruence.
    + intros i r' E. rewrite Hlen. destruct (step_insts _ _ _ _ _ _ E) as [[r [E0 [Hc _]]]|[c [-> [Hlt [Hc _]]]]].
      * rewrite Hc. eauto.
      * rewrite Hc. auto.
    + intros c r' E. destruct (Hsh c r' E) as [r [E0 [Hb _]]]. rewrite Hb. eauto.
Qed.

(* ------------------------------------------------------------------ lazy answers = eager answers *)
Lemma zdirect_created z c : zinv z -> zcreated (snd z) c = true -> zdirect z c = cdirect (fst z) c.
Proof. intros I H. unfold zdirect, cdirect. apply zdirect_cdirect; auto. apply (z_closed _ I). Qed.

Lemma zdirect_after_ensure z c : zinv z -> zdirect (zensure z c) c = cdirect (fst z) c.
Proof.
  intros I. destruct (zinv_ensure z c I) as [I' Hc].
  destruct (lt_dec c (length (classes (fst z)))) as [Hlt|Hlt].
  - rewrite zdirect_created; auto.
  - unfold zdirect, cdirect, zensure. cbn [fst snd zdirect_f cdirect_f zensure_f].
    assert (E : nth_error (classes (fst z)) c = None) by (apply nth_error_None; lia).
    rewrite E. destruct (zcreated (snd z) c) eqn:Ec.
    + pose proof (zcreated_range _ _ Ec). rewrite (z_len _ I) in *. lia.
    + rewrite Ec. auto.
Qed.

Lemma zq_implemented_eq g z c : zinv z ->
  snd (zq_implemented g z c) = implemented g (fst z) c /\ fst (fst (zq_implemented g z c)) = fst z /\
  zinv (fst (zq_implemented g z c)).
Proof.
  intros I. unfold zq_implemented, implemented, cflat. cbn [fst snd]. rewrite zdirect_after_ensure by auto.
  split; [|split]; auto. apply (proj1 (zinv_ensure z c I)).
Qed.

Lemma zq_i_implementedBy_eq g z c i : zinv z ->
  snd (zq_i_implementedBy g z c i) = i_implementedBy g (fst z) c i.
Proof. intros I. unfold zq_i_implementedBy, i_implementedBy. cbn [snd]. rewrite zdirect_after_ensure by auto. auto. Qed.

Lemma zq_provided_eq g z t : zinv z ->
  snd (zq_provided g z t) = provided g (fst z) t /\ fst (fst (zq_provided g z t)) = fst z /\
  zinv (fst (zq_provided g z t)).
Proof.
  intros I. unfold zq_provided, provided, spec_direct. destruct t as [o|c].
  - destruct (nth_error (insts (fst z)) o) as [r|] eqn:E; [|split; [|split]; auto].
    destruct (i_prov r) as [k|] eqn:Ep; cbn [fst snd].
    + rewrite zdirect_created; [split; [|split]; auto|auto|eapply z_inst; eauto].
    + rewrite zdirect_after_ensure by auto. split; [|split]; auto. apply (proj1 (zinv_ensure z (i_cls r) I)).
  - cbn [fst snd]. split; [|split]; auto.
    destruct (nth_error (classes (fst z)) c) as [r|] eqn:E; auto.
    destruct (zcreated (snd z) c) eqn:Ec; cbn [andb].
    + destruct (c_builtin r) eqn:Eb; cbn [negb]; auto. rewrite (z_builtin _ I _ _ E Eb). auto.
    + destruct (z_default _ I _ _ E Ec) as [_ Hp]. rewrite Hp. auto.
Qed.

Lemma zq_dpb_eq z t : zinv z -> zq_dpb z t = dpb (fst z) t.
Proof.
  intros I. destruct t as [o|c]; cbn [zq_dpb dpb]; auto.
  destruct (nth_error (classes (fst z)) c) as [r|] eqn:E; auto.
  destruct (zcreated (snd z) c) eqn:Ec; cbn [andb].
  - destruct (c_builtin r) eqn:Eb; cbn [negb]; auto. rewrite (z_builtin _ I _ _ E Eb). auto.
  - destruct (z_default _ I _ _ E Ec) as [_ Hp]. rewrite Hp. auto.
Qed.

(* ------------------------------------------------------------------ histories with queries *)
Lemma zstep_op_fst g z q :
  fst (zstep_op g z q) = match q with ZOp o => step true g (fst z) o | _ => fst z end.
Proof.
  destruct q; cbn [zstep_op]; auto.
  - unfold zstep. cbn [fst]. rewrite pre_ensure_fst. auto.
  - unfold zq_provided. destruct t as [o|c]; auto.
    destruct (nth_error (insts (fst z)) o) as [r|]; auto. destruct (i_prov r); auto.
Qed.

Lemma zinv_zstep_op g z q : zinv z -> zinv (zstep_op g z q).
Proof.
  intros I. destruct q; cbn [zstep_op]; auto.
  - apply zinv_zstep; auto.
  - apply zq_implemented_eq; auto.
  - apply zq_provided_eq; auto.
Qed.

Lemma zfold_fst g qs : forall z,
  fst (fold_left (zstep_op g) qs z) = fold_left (step true g) (ops_of qs) (fst z).
Proof.
  induction qs as [|q qs IH]; intros z; cbn [fold_left ops_of]; auto.
  rewrite IH, zstep_op_fst. destruct q; auto.
Qed.

Lemma zfold_inv g qs : forall z, zinv z -> zinv (fold_left (zstep_op g) qs z).
Proof. induction qs as [|q qs IH]; intros z I; cbn; auto. apply IH, zinv_zstep_op; auto. Qed.

Lemma zrun_fst g qs : fst (zrun g qs) = run true g (ops_of qs).
Proof. unfold zrun, run. rewrite zfold_fst. auto. Qed.

Lemma zrun_inv g qs : zinv (zrun g qs).
Proof. apply zfold_inv, zinv_init. Qed.

(* every lazy answer, after any history with any queries in it, is the eager model's answer
   after the history without the queries *)
Lemma lazy_answers_eq_eager g qs :
  let z := zrun g qs in
  let st := run true g (ops_of qs) in
  (forall c, snd (zq_implemented g z c) = implemented g st c) /\
  (forall c i, snd (zq_i_implementedBy g z c i) = i_implementedBy g st c i) /\
  (forall t, snd (zq_provided g z t) = provided g st t) /\
  (forall t, zq_dpb z t = dpb st t).
Proof.
  intros z st. pose proof (zrun_inv g qs) as I. pose proof (zrun_fst g qs) as E. fold z in I, E. fold st in E.
  rewrite <- E. repeat split; intros.
  - apply zq_implemented_eq; auto.
  - apply zq_i_implementedBy_eq; auto.
  - apply zq_provided_eq; auto.
  - apply zq_dpb_eq; auto.
Qed.

(* a class without specification holds exactly what its specification will contain; a class
   with one has all the specifications it points to *)
Lemma lazy_invariant g qs :
  let z := zrun g qs in
  (forall c r, nth_error (classes (fst z)) c = Some r -> zcreated (snd z) c = false ->
     (c_inherit r = true -> c_decl r = []) /\ c_cprov r = []) /\
  (forall c r b, zcreated (snd z) c = true -> nth_error (classes (fst z)) c = Some r -> c_inherit r = true ->
     In b (c_bases r) -> zcreated (snd z) b = true) /\
  (forall o r k, nth_error (insts (fst z)) o = Some r -> i_prov r = Some k -> zcreated (snd z) (i_cls r) = true).
Proof.
  intros z. pose proof (zrun_inv g qs) as I. fold z in I. split; [|split].
  - apply (z_default _ I).
  - apply (z_closed _ I).
  - apply (z_inst _ I).
Qed.

From ZI Require Import Spec.Provided.

Lemma lazy_provided_within_ledger g qs :
  let z := zrun g qs in
  let L := lrun g (ops_of qs) in
  (forall t, incl (lo_provided g L t) (snd (zq_provided g z t)) /\ incl (snd (zq_provided g z t)) (hi_provided g L t)) /\
  (forall c, incl (lo_implemented g L c) (snd (zq_implemented g z c)) /\
             incl (snd (zq_implemented g z c)) (hi_implemented g L c)).
Proof.
  intros z L. destruct (lazy_answers_eq_eager g qs) as [H1 [_ [H3 _]]].
  destruct (provided_within_ledger_lemma g (ops_of qs)) as [A B].
  split; intros.
  - fold z in H3. rewrite H3. apply A.
  - fold z in H1. rewrite H1. apply B.
Qed.
