(* The discipline holds on the skeleton extracted from today's C source (Gen/CSkeleton.v is rewritten
   by harness/translate/cskeleton.py on every run): THIS is the obligation that breaks when the C code
   stops owning what it uses across a callback, releases twice, or leaks. *)
From Coq Require Import List Arith Bool.
Import ListNotations.
From ZI Require Import Model.Own Proofs.Own Proofs.OwnInline Gen.CSkeleton.

(* every path of every extracted function: D, and the stronger Dc (parameters owned throughout) that
   makes the function a sound callee *)
Lemma skeleton_disciplined : forallb (D_fn true) skeleton && forallb (Dc_fn true) skeleton = true.
Proof. vm_compute. reflexivity. Qed.

Lemma skeleton_D : forallb (D_fn true) skeleton = true.
Proof. pose proof skeleton_disciplined as H. apply andb_true_iff in H. tauto. Qed.

Lemma skeleton_Dc : forallb (Dc_fn true) skeleton = true.
Proof. pose proof skeleton_disciplined as H. apply andb_true_iff in H. tauto. Qed.

Lemma skeleton_nonempty : (23 <=? length skeleton) && (13 <=? length (filter (fun f => 1 <=? length (fn_paths f)) skeleton)) = true.
Proof. vm_compute. reflexivity. Qed.

(* every extracted path of every extracted function is safe under every environment (calls replaced
   by their summaries) *)
Lemma today_safe : forall f p, In f skeleton -> In p (fn_paths f) ->
  forall orc s k, init_ok (fn_params f) s = true ->
  match exec true orc (expand p) s k with
  | Done s' => balanced (fn_params f) s' = true
  | Infeasible => True
  | Running _ _ => False
  | Fault _ => False
  end.
Proof.
  intros f p Hf Hp. pose proof skeleton_D as H. rewrite forallb_forall in H.
  specialize (H f Hf). unfold D_fn in H. rewrite forallb_forall in H. specialize (H p Hp).
  apply discipline_safe. exact H.
Qed.

(* ... and so is every path of every CALL TREE: calls replaced by the callee's own events, to any depth *)
Lemma today_trees_safe : forall fid cps body r, Tree skeleton fid cps body r ->
  forall orc s k, init_ok cps s = true ->
  match exec true orc (expand body ++ [EReturn r]) s k with
  | Done s' => balanced cps s' = true
  | Infeasible => True
  | Running _ _ => False
  | Fault _ => False
  end.
Proof. exact (tree_safe true skeleton skeleton_Dc). Qed.

(* the call trees one gets by computation: replace call after call by the first fitting callee path *)
Lemma today_inlined_safe : forall f p b r fuel b', In f skeleton -> In p (fn_paths f) ->
  split_ret p = Some (b, r) -> inline_all fuel skeleton (fn_params f) b r = Some b' ->
  forall orc s k, init_ok (fn_params f) s = true ->
  match exec true orc (expand b' ++ [EReturn r]) s k with
  | Done s' => balanced (fn_params f) s' = true
  | Infeasible => True
  | Running _ _ => False
  | Fault _ => False
  end.
Proof.
  intros f p b r fuel b' Hf Hp Hs Hi. apply split_ret_inv in Hs. subst p.
  apply (today_trees_safe (fn_id f)). eapply inline_all_Tree; [|exact Hi]. apply T_base; auto.
Qed.

(* such trees exist: every path of _lookup1, _adapter_hook, _verify, IB__call__ and providedBy inlines
   completely (no call left) within 40 replacements *)
Definition fully_inlines (f : fn) : bool :=
  forallb (fun p => match split_ret p with
                    | Some (b, r) => match inline_all 40 skeleton (fn_params f) b r with
                                     | Some b' => match first_call b' with None => true | Some _ => false end
                                     | None => false
                                     end
                    | None => false
                    end) (fn_paths f).

Lemma trees_exist :
  forallb fully_inlines (filter (fun f => existsb (Nat.eqb (fn_id f)) [6; 7; 12; 18; 22]) skeleton) = true
  /\ length (filter (fun f => existsb (Nat.eqb (fn_id f)) [6; 7; 12; 18; 22]) skeleton) = 5.
Proof. vm_compute. split; reflexivity. Qed.

(* LOOPS.  The paths above contain every loop run zero times, and the iterations that leave it by a
   return.  Every complete iteration of every extracted loop re-establishes the discipline state of the
   loop head ... *)
Lemma loops_ok_today :
  forallb (fun l => loop_ok true (fst (fst l)) (snd (fst l)) (snd l)) skeleton_loops = true.
Proof. vm_compute. reflexivity. Qed.

(* ... so any number of iterations, in any order of the ways through the body, can be inserted at the
   head of a path of the function that passes it: still safe, still balanced *)
Lemma today_loops_safe : forall ps pre conts, In (ps, pre, conts) skeleton_loops ->
  forall f p rest r, In f skeleton -> In p (fn_paths f) -> fn_params f = ps ->
  split_ret p = Some (pre ++ rest, r) ->
  forall bs, Forall (fun b => In b conts) bs ->
  forall orc s k, init_ok ps s = true ->
  match exec true orc (expand (pre ++ concat bs ++ rest) ++ [EReturn r]) s k with
  | Done s' => balanced ps s' = true
  | Infeasible => True
  | Running _ _ => False
  | Fault _ => False
  end.
Proof.
  intros ps pre conts Hl f p rest r Hf Hp Eps Hs bs Fb.
  pose proof loops_ok_today as HL. rewrite forallb_forall in HL. specialize (HL _ Hl). cbn in HL.
  pose proof skeleton_Dc as HD. rewrite forallb_forall in HD. specialize (HD f Hf). unfold Dc_fn in HD.
  rewrite forallb_forall in HD. specialize (HD p Hp). rewrite Hs, Eps in HD.
  apply loops_safe with (conts := conts); auto.
Qed.

Lemma loops_exist : 2 <=? length skeleton_loops = true.
Proof. vm_compute. reflexivity. Qed.
