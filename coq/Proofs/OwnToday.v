(* The discipline holds on the skeleton extracted from today's C source (Gen/CSkeleton.v is rewritten
   by harness/translate/cskeleton.py on every run): THIS is the obligation that breaks when the C code
   stops owning what it uses across a callback, releases twice, or leaks. *)
From Coq Require Import List Arith Bool.
Import ListNotations.
From ZI Require Import Model.Own Proofs.Own Gen.CSkeleton.

Lemma skeleton_disciplined : forallb (D_fn true) skeleton = true.
Proof. vm_compute. reflexivity. Qed.

Lemma skeleton_nonempty : (13 <=? length skeleton) && forallb (fun f => 1 <=? length (fn_paths f)) skeleton = true.
Proof. vm_compute. reflexivity. Qed.

(* every extracted path of every extracted function is safe under every environment *)
Lemma today_safe : forall f p, In f skeleton -> In p (fn_paths f) ->
  forall orc s k, init_ok (fn_params f) s = true ->
  match exec true orc (expand p) s k with
  | Done s' => balanced (fn_params f) s' = true
  | Infeasible => True
  | Running _ _ => False
  | Fault _ => False
  end.
Proof.
  intros f p Hf Hp. pose proof skeleton_disciplined as H. rewrite forallb_forall in H.
  specialize (H f Hf). unfold D_fn in H. rewrite forallb_forall in H. specialize (H p Hp).
  apply discipline_safe. exact H.
Qed.
