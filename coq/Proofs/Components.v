(* Proofs for C16: Model/Components.v refines the ledger of Spec/Components.v, for all histories.
   Part 1: association lists, equality tests, the adapter-registry storage operations. *)
From Coq Require Import List Arith Bool Lia.
Import ListNotations.
From ZI Require Import Model.Ro Model.Adapter Model.Components Spec.Components.

(* ------------------------------------------------------------------ equality tests *)
Lemma lspec_eqb_eq : forall a b, lspec_eqb a b = true <-> a = b.
Proof.
  induction a as [|x a IH]; intros [|y b]; cbn; try (split; congruence).
  rewrite andb_true_iff, Nat.eqb_eq. change ((fix go (a b : list spec) : bool :=
     match a, b with [], [] => true | x :: a', y :: b' => Nat.eqb x y && go a' b' | _, _ => false end) a b)
    with (lspec_eqb a b). rewrite IH. split; [intros [-> ->]; auto | intros E; inversion E; auto].
Qed.

Lemma lspec_eqb_refl a : lspec_eqb a a = true.
Proof. apply lspec_eqb_eq; auto. Qed.

Lemma lspec_eqb_sym a b : lspec_eqb a b = lspec_eqb b a.
Proof.
  destruct (lspec_eqb a b) eqn:E.
  - apply lspec_eqb_eq in E. subst. symmetry. apply lspec_eqb_refl.
  - destruct (lspec_eqb b a) eqn:E'; auto. apply lspec_eqb_eq in E'. subst. rewrite lspec_eqb_refl in E. discriminate.
Qed.

Lemma akey_eqb_eq : forall a b, akey_eqb a b = true <-> a = b.
Proof.
  intros [[r1 p1] n1] [[r2 p2] n2]. unfold akey_eqb.
  rewrite !andb_true_iff, lspec_eqb_eq, !Nat.eqb_eq. split; [intros [[-> ->] ->]; auto | intros E; inversion E; auto].
Qed.

Lemma ospec_eqb_eq : forall a b, ospec_eqb a b = true <-> a = b.
Proof.
  intros [x|] [y|]; cbn; try (split; congruence). rewrite Nat.eqb_eq. split; congruence.
Qed.

Lemma skey_eqb_eq : forall a b, skey_eqb a b = true <-> a = b.
Proof.
  intros [r1 p1] [r2 p2]. unfold skey_eqb; cbn [fst snd].
  rewrite andb_true_iff, lspec_eqb_eq, ospec_eqb_eq. split; [intros [-> ->]; auto | intros E; inversion E; auto].
Qed.

Lemma pn_eqb_eq : forall a b, pn_eqb a b = true <-> a = b.
Proof.
  intros [p1 n1] [p2 n2]. unfold pn_eqb; cbn [fst snd].
  rewrite andb_true_iff, !Nat.eqb_eq. split; [intros [-> ->]; auto | intros E; inversion E; auto].
Qed.

Lemma nat_eqb_eq : forall a b : nat, Nat.eqb a b = true <-> a = b.
Proof. exact Nat.eqb_eq. Qed.

Lemma v_eq_sym a b : v_eq a b = v_eq b a.
Proof. unfold v_eq. now rewrite (Nat.eqb_sym (vid a)), (Nat.eqb_sym (veq a)). Qed.

Lemma v_eq_refl a : v_eq a a = true.
Proof. unfold v_eq. now rewrite Nat.eqb_refl. Qed.

Lemma map_conv_some (r : list spec) : map conv (map Some r) = r.
Proof. induction r; cbn; congruence. Qed.

(* ------------------------------------------------------------------ association lists *)
Section AssocLemmas.
  Context {K V : Type} (eqb : K -> K -> bool).
  Hypothesis eqb_eq : forall a b, eqb a b = true <-> a = b.

  Lemma eqb_refl k : eqb k k = true.
  Proof. apply eqb_eq; auto. Qed.

  Lemma eqb_neq a b : a <> b -> eqb a b = false.
  Proof. intros H. destruct (eqb a b) eqn:E; auto. apply eqb_eq in E. contradiction. Qed.

  Lemma aget_In (m : list (K * V)) k v : aget eqb m k = Some v -> In (k, v) m.
  Proof.
    induction m as [|[k' v'] m IH]; cbn; [discriminate|].
    destruct (eqb k k') eqn:E; [apply eqb_eq in E; subst; intros [= ->]; auto | auto].
  Qed.

  Lemma aget_None_notin (m : list (K * V)) k : aget eqb m k = None <-> ~ In k (map fst m).
  Proof.
    induction m as [|[k' v'] m IH]; cbn; [tauto|].
    destruct (eqb k k') eqn:E.
    - apply eqb_eq in E. subst. split; [discriminate | intros H; exfalso; auto].
    - rewrite IH. split; [intros H [->|H']; [rewrite eqb_refl in E; discriminate | auto] | tauto].
  Qed.

  Lemma In_aget (m : list (K * V)) k v : NoDup (map fst m) -> In (k, v) m -> aget eqb m k = Some v.
  Proof.
    induction m as [|[k' v'] m IH]; cbn; [tauto|]. intros ND [E|H].
    - inversion E; subst. now rewrite eqb_refl.
    - inversion ND; subst. destruct (eqb k k') eqn:E; [|auto].
      apply eqb_eq in E. subst. exfalso. apply H2. change k' with (fst (k', v)). now apply in_map.
  Qed.

  Lemma aset_fresh (m : list (K * V)) k v : aget eqb m k = None -> aset eqb m k v = m ++ [(k, v)].
  Proof.
    induction m as [|[k' v'] m IH]; cbn; auto.
    destruct (eqb k k'); [discriminate | intros H; now rewrite IH].
  Qed.

  Lemma aset_same (m : list (K * V)) k v : aget eqb m k = Some v -> aset eqb m k v = m.
  Proof.
    induction m as [|[k' v'] m IH]; cbn; [discriminate|].
    destruct (eqb k k'); [intros [= ->]; auto | intros H; now rewrite IH].
  Qed.

  Lemma aset_keys (m : list (K * V)) k v v0 : aget eqb m k = Some v0 -> map fst (aset eqb m k v) = map fst m.
  Proof.
    induction m as [|[k' v'] m IH]; cbn; [discriminate|].
    destruct (eqb k k'); cbn; [auto | intros H; now rewrite IH].
  Qed.

  (* with unique keys, replacing the first binding = replacing every binding of the key *)
  Lemma aset_map (m : list (K * V)) k v v0 : aget eqb m k = Some v0 -> NoDup (map fst m) ->
    aset eqb m k v = map (fun kv => if eqb k (fst kv) then (k, v) else kv) m.
  Proof.
    induction m as [|[k' v'] m IH]; cbn; [discriminate|]. intros H ND. inversion ND; subst.
    destruct (eqb k k') eqn:E.
    - apply eqb_eq in E. subst. f_equal.
      clear IH H ND. induction m as [|[k2 v2] m IH]; cbn; auto.
      cbn in H2. destruct (eqb k' k2) eqn:E2; [apply eqb_eq in E2; subst; exfalso; auto|].
      f_equal. apply IH; [tauto | inversion H3; auto].
    - f_equal. auto.
  Qed.

  Lemma adel_filter (m : list (K * V)) k : NoDup (map fst m) ->
    adel eqb m k = filter (fun kv => negb (eqb k (fst kv))) m.
  Proof.
    induction m as [|[k' v'] m IH]; cbn; auto. intros ND. inversion ND; subst.
    destruct (eqb k k') eqn:E; cbn.
    - apply eqb_eq in E. subst. clear IH ND. induction m as [|[k2 v2] m IH]; cbn; auto.
      cbn in H1. destruct (eqb k' k2) eqn:E2; [apply eqb_eq in E2; subst; exfalso; auto|].
      cbn. f_equal. apply IH; [tauto | inversion H2; auto].
    - f_equal. auto.
  Qed.

  Lemma adel_absent (m : list (K * V)) k : aget eqb m k = None -> adel eqb m k = m.
  Proof.
    induction m as [|[k' v'] m IH]; cbn; auto.
    destruct (eqb k k'); [discriminate | intros H; now rewrite IH].
  Qed.

  Lemma NoDup_filter_keys (m : list (K * V)) f : NoDup (map fst m) -> NoDup (map fst (filter f m)).
  Proof.
    induction m as [|[k' v'] m IH]; cbn; auto. intros ND. inversion ND; subst.
    destruct (f (k', v')); cbn; auto. constructor; auto.
    intros H. apply H1. apply in_map_iff in H. destruct H as [x [E H]]. apply filter_In in H.
    apply in_map_iff. exists x. tauto.
  Qed.

  Lemma NoDup_adel (m : list (K * V)) k : NoDup (map fst m) -> NoDup (map fst (adel eqb m k)).
  Proof. intros H. rewrite adel_filter; auto. now apply NoDup_filter_keys. Qed.

  Lemma NoDup_aset (m : list (K * V)) k v : NoDup (map fst m) -> NoDup (map fst (aset eqb m k v)).
  Proof.
    intros ND. destruct (aget eqb m k) eqn:E.
    - now rewrite (aset_keys _ _ _ _ E).
    - rewrite aset_fresh; auto. rewrite map_app. cbn.
      apply aget_None_notin in E. clear -E ND. induction m as [|[k' v'] m IH]; cbn in *.
      + constructor; [intros [] | constructor].
      + inversion ND; subst. constructor; [|apply IH; tauto].
        rewrite in_app_iff. cbn. intros [H|[H|[]]]; [auto | subst; tauto].
  Qed.

  Lemma aget_aset (m : list (K * V)) k v k' :
    aget eqb (aset eqb m k v) k' = if eqb k' k then Some v else aget eqb m k'.
  Proof.
    induction m as [|[k2 v2] m IH]; cbn.
    - destruct (eqb k' k); auto.
    - destruct (eqb k k2) eqn:E; cbn.
      + apply eqb_eq in E. subst. destruct (eqb k' k2); auto.
      + destruct (eqb k' k2) eqn:E2.
        * apply eqb_eq in E2. subst. rewrite (eqb_neq k2 k); auto.
          intros ->. rewrite eqb_refl in E. discriminate.
        * apply IH.
  Qed.

  Lemma aget_adel (m : list (K * V)) k k' : NoDup (map fst m) ->
    aget eqb (adel eqb m k) k' = if eqb k' k then None else aget eqb m k'.
  Proof.
    induction m as [|[k2 v2] m IH]; cbn; intros ND.
    - destruct (eqb k' k); auto.
    - inversion ND; subst. destruct (eqb k k2) eqn:E; cbn.
      + apply eqb_eq in E. subst. destruct (eqb k' k2) eqn:E2; auto.
        apply eqb_eq in E2. subst. now apply aget_None_notin.
      + destruct (eqb k' k2) eqn:E2.
        * apply eqb_eq in E2. subst. rewrite (eqb_neq k2 k); auto.
          intros ->. rewrite eqb_refl in E. discriminate.
        * auto.
  Qed.

  Lemma aget_find (m : list (K * V)) k :
    aget eqb m k = option_map snd (find (fun kv => eqb k (fst kv)) m).
  Proof.
    induction m as [|[k' v'] m IH]; cbn; auto. destruct (eqb k k'); auto.
  Qed.
End AssocLemmas.

(* a projection of the values commutes with the assoc operations *)
Section AssocMap.
  Context {K V V' : Type} (eqb : K -> K -> bool) (g : V -> V').
  Definition vmap (m : list (K * V)) : list (K * V') := map (fun kv => (fst kv, g (snd kv))) m.

  Lemma aget_vmap m k : aget eqb (vmap m) k = option_map g (aget eqb m k).
  Proof. unfold vmap. induction m as [|[k' v'] m IH]; cbn; auto. destruct (eqb k k'); auto. Qed.
  Lemma aset_vmap m k v : aset eqb (vmap m) k (g v) = vmap (aset eqb m k v).
  Proof. unfold vmap. induction m as [|[k' v'] m IH]; cbn; auto. destruct (eqb k k'); cbn; congruence. Qed.
  Lemma adel_vmap m k : adel eqb (vmap m) k = vmap (adel eqb m k).
  Proof. unfold vmap. induction m as [|[k' v'] m IH]; cbn; auto. destruct (eqb k k'); cbn; congruence. Qed.
  Lemma vmap_keys m : map fst (vmap m) = map fst m.
  Proof. unfold vmap. rewrite map_map. apply map_ext. auto. Qed.
End AssocMap.

(* ------------------------------------------------------------------ lists *)
Lemma filter_length_le {A} (f : A -> bool) l : length (filter f l) <= length l.
Proof. induction l as [|x l IH]; cbn; auto. destruct (f x); cbn; lia. Qed.

Lemma filter_length_eq {A} (f : A -> bool) l : length (filter f l) = length l -> filter f l = l.
Proof.
  induction l as [|x l IH]; cbn; auto. destruct (f x); cbn; intros H.
  - f_equal. apply IH. lia.
  - pose proof (filter_length_le f l). lia.
Qed.

Lemma filter_neg_all {A} (f : A -> bool) l :
  length (filter (fun x => negb (f x)) l) = length l -> filter f l = [].
Proof.
  induction l as [|x l IH]; cbn; auto. destruct (f x); cbn; intros H.
  - pose proof (filter_length_le (fun x => negb (f x)) l). lia.
  - apply IH. lia.
Qed.

Lemma filter_neg_some {A} (f : A -> bool) l :
  length (filter (fun x => negb (f x)) l) <> length l -> filter f l <> [].
Proof.
  induction l as [|x l IH]; cbn; [congruence|]. destruct (f x); cbn; [discriminate|].
  intros H. apply IH. lia.
Qed.

Lemma filter_ext_in' {A} (f g : A -> bool) l : (forall x, In x l -> f x = g x) -> filter f l = filter g l.
Proof.
  induction l as [|x l IH]; cbn; auto. intros H. rewrite (H x); auto. destruct (g x); [f_equal|]; auto.
Qed.

Lemma filter_filter {A} (f g : A -> bool) l : filter f (filter g l) = filter (fun x => g x && f x) l.
Proof. induction l as [|x l IH]; cbn; auto. destruct (g x); cbn; [destruct (f x)|]; cbn; congruence. Qed.

Lemma filter_map_comm {A B} (h : A -> B) (f : B -> bool) l : filter f (map h l) = map h (filter (fun x => f (h x)) l).
Proof. induction l as [|x l IH]; cbn; auto. destruct (f (h x)); cbn; congruence. Qed.

(* ------------------------------------------------------------------ registry storage *)
Section RegLemmas.
  Variable W : world.

  Lemma provide_incr_adapters r p : adapters (provide_incr W r p) = adapters r.
  Proof. reflexivity. Qed.
  Lemma provide_incr_subscribers r p : subscribers (provide_incr W r p) = subscribers r.
  Proof. reflexivity. Qed.
  Lemma provide_decr_adapters r p k : adapters (provide_decr W r p k) = adapters r.
  Proof. unfold provide_decr. destruct (Nat.eqb _ 0); reflexivity. Qed.
  Lemma provide_decr_subscribers r p k : subscribers (provide_decr W r p k) = subscribers r.
  Proof. unfold provide_decr. destruct (Nat.eqb _ 0); reflexivity. Qed.

  (* register *)
  Lemma register_subscribers r q p n v : subscribers (register W r q p n v) = subscribers r.
  Proof.
    unfold register, unregister. destruct v as [v|].
    - destruct (aget akey_eqb (adapters r) _); [destruct (v_is _ _)|]; cbn; auto.
    - destruct (aget akey_eqb (adapters r) _); cbn; auto. now rewrite provide_decr_subscribers.
  Qed.

  Lemma register_adapters_new r q p n v :
    aget akey_eqb (adapters r) (q, p, n) = None ->
    adapters (register W r (map Some q) p n (Some v)) = adapters r ++ [((q, p, n), v)].
  Proof.
    intros H. unfold register. rewrite map_conv_some, H. cbn.
    apply aset_fresh. exact H.
  Qed.

  Lemma register_adapters_any r q p n v :
    (forall old, aget akey_eqb (adapters r) (q, p, n) = Some old -> v_is old v = true -> old = v) ->
    adapters (register W r (map Some q) p n (Some v)) = aset akey_eqb (adapters r) (q, p, n) v.
  Proof.
    intros H. unfold register. rewrite map_conv_some.
    destruct (aget akey_eqb (adapters r) (q, p, n)) as [old|] eqn:E; cbn; auto.
    destruct (v_is old v) eqn:Ev; cbn; auto.
    rewrite (H old eq_refl Ev) in E. symmetry. apply aset_same. exact E.
  Qed.

  Lemma unregister_subscribers r q p n v : subscribers (unregister W r q p n v) = subscribers r.
  Proof.
    unfold unregister. destruct (aget akey_eqb (adapters r) _); auto.
    destruct v as [v|]; [destruct (v_is _ _)|]; cbn; auto; now rewrite provide_decr_subscribers.
  Qed.

  Lemma unregister_adapters r q p n :
    adapters (unregister W r (map Some q) p n None) = adel akey_eqb (adapters r) (q, p, n).
  Proof.
    unfold unregister. rewrite map_conv_some.
    destruct (aget akey_eqb (adapters r) (q, p, n)) eqn:E; cbn.
    - now rewrite provide_decr_adapters.
    - symmetry. apply adel_absent. exact E.
  Qed.

  (* subscribe / unsubscribe *)
  Lemma subscribe_adapters r q p v : adapters (subscribe W r q p v) = adapters r.
  Proof. unfold subscribe. destruct p; reflexivity. Qed.

  Lemma subscribe_subscribers r q p v :
    subscribers (subscribe W r (map Some q) p v) = aset skey_eqb (subscribers r) (q, p) (sub_leaf r (q, p) ++ [v]).
  Proof. unfold subscribe. rewrite map_conv_some. destruct p; reflexivity. Qed.

  Lemma sub_leaf_subscribe r q p v k :
    sub_leaf (subscribe W r (map Some q) p v) k =
    if skey_eqb k (q, p) then sub_leaf r (q, p) ++ [v] else sub_leaf r k.
  Proof.
    unfold sub_leaf at 1. rewrite subscribe_subscribers, (aget_aset _ skey_eqb_eq).
    destruct (skey_eqb k (q, p)); auto.
  Qed.

  Lemma unsubscribe_adapters r q p v : adapters (unsubscribe W r q p v) = adapters r.
  Proof.
    unfold unsubscribe. destruct (sub_leaf r _); auto.
    destruct (Nat.eqb _ _); auto. destruct p; cbn; auto. now rewrite provide_decr_adapters.
  Qed.

  Definition unsub_leaf (old : list value) (v : option value) : list value :=
    match v with None => [] | Some v' => filter (fun x => negb (v_eq x v')) old end.

  Lemma unsubscribe_subscribers r q p v :
    subscribers (unsubscribe W r (map Some q) p v) = subscribers r /\ unsub_leaf (sub_leaf r (q, p)) v = sub_leaf r (q, p)
    \/ (unsub_leaf (sub_leaf r (q, p)) v = [] /\
        subscribers (unsubscribe W r (map Some q) p v) = adel skey_eqb (subscribers r) (q, p))
    \/ (unsub_leaf (sub_leaf r (q, p)) v <> [] /\
        subscribers (unsubscribe W r (map Some q) p v) =
        aset skey_eqb (subscribers r) (q, p) (unsub_leaf (sub_leaf r (q, p)) v)).
  Proof.
    unfold unsubscribe. rewrite map_conv_some.
    destruct (sub_leaf r (q, p)) as [|x old] eqn:E.
    - left. split; auto. destruct v; reflexivity.
    - set (new := match v with None => [] | Some v' => filter (fun y => negb (v_eq y v')) (x :: old) end).
      change (unsub_leaf (x :: old) v) with new.
      destruct (Nat.eqb (length new) (length (x :: old))) eqn:El.
      + left. split; auto. apply Nat.eqb_eq in El. subst new. destruct v as [v'|].
        * now apply filter_length_eq.
        * discriminate.
      + right. destruct new as [|y new'] eqn:En.
        * left. split; auto. destruct p; cbn; auto. now rewrite provide_decr_subscribers.
        * right. split; [discriminate|]. destruct p; cbn; auto. now rewrite provide_decr_subscribers.
  Qed.

  Lemma sub_leaf_unsubscribe r q p v k : NoDup (map fst (subscribers r)) ->
    sub_leaf (unsubscribe W r (map Some q) p v) k =
    if skey_eqb k (q, p) then unsub_leaf (sub_leaf r (q, p)) v else sub_leaf r k.
  Proof.
    intros ND. unfold sub_leaf at 1.
    destruct (unsubscribe_subscribers r q p v) as [[-> E]|[[E ->]|[E ->]]].
    - destruct (skey_eqb k (q, p)) eqn:Ek; auto. apply skey_eqb_eq in Ek. subst. now rewrite E.
    - rewrite (aget_adel _ skey_eqb_eq); auto. destruct (skey_eqb k (q, p)); auto.
    - rewrite (aget_aset _ skey_eqb_eq). destruct (skey_eqb k (q, p)); auto.
  Qed.

  Lemma NoDup_subscribe r q p v : NoDup (map fst (subscribers r)) ->
    NoDup (map fst (subscribers (subscribe W r (map Some q) p v))).
  Proof. intros H. rewrite subscribe_subscribers. now apply (NoDup_aset _ skey_eqb_eq). Qed.

  Lemma NoDup_unsubscribe r q p v : NoDup (map fst (subscribers r)) ->
    NoDup (map fst (subscribers (unsubscribe W r (map Some q) p v))).
  Proof.
    intros H. destruct (unsubscribe_subscribers r q p v) as [[-> E]|[[E ->]|[E ->]]]; auto.
    - now apply (NoDup_adel _ skey_eqb_eq).
    - now apply (NoDup_aset _ skey_eqb_eq).
  Qed.
End RegLemmas.

(* ================================================================== Part 2: values, the counting cache *)
Section Values.
  Variable cls : nat -> nat.

  (* well-formed value: the equality class is a function of the identity *)
  Definition okv (v : value) : bool := Nat.eqb (veq v) (cls (vid v)).
  Definition ok_ov (o : option value) : bool := match o with Some v => okv v | None => true end.
  Definition ok_op (o : cop) : bool :=
    match o with
    | RegUtility c _ _ _ _ _ => okv c
    | UnregUtility c _ _ => ok_ov c
    | RegAdapter f _ _ _ _ _ | RegSub f _ _ _ _ _ | RegHandler f _ _ _ _ => okv f
    | UnregAdapter f _ _ _ | UnregSub f _ _ _ | UnregHandler f _ _ => ok_ov f
    | UtilityBoth _ _ _ _ | Reinit => true
    end.

  Lemma v_eq_ok a b : okv a = true -> okv b = true -> v_eq a b = Nat.eqb (veq a) (veq b).
  Proof.
    unfold okv, v_eq. intros Ha Hb. apply Nat.eqb_eq in Ha, Hb.
    destruct (Nat.eqb (vid a) (vid b)) eqn:E; cbn; auto.
    apply Nat.eqb_eq in E. symmetry. apply Nat.eqb_eq. congruence.
  Qed.

  Lemma v_is_ok a b : okv a = true -> okv b = true -> v_is a b = true -> a = b.
  Proof.
    unfold okv, v_is. intros Ha Hb E. apply Nat.eqb_eq in Ha, Hb, E.
    destruct a as [ia ea], b as [ib eb]. cbn in *. subst. reflexivity.
  Qed.

  Lemma v_eq_veq a b : okv a = true -> okv b = true -> v_eq a b = true -> veq a = veq b.
  Proof. intros Ha Hb. rewrite v_eq_ok; auto. apply Nat.eqb_eq. Qed.

  Lemma v_eq_cong a b c : okv a = true -> okv b = true -> okv c = true ->
    v_eq a b = true -> v_eq a c = v_eq b c.
  Proof.
    intros Ha Hb Hc E. apply v_eq_veq in E; auto. rewrite !v_eq_ok by auto. now rewrite E.
  Qed.

  Lemma v_eq_cong_r a b c : okv a = true -> okv b = true -> okv c = true ->
    v_eq a b = true -> v_eq c a = v_eq c b.
  Proof. intros. rewrite (v_eq_sym c a), (v_eq_sym c b). now apply v_eq_cong. Qed.

  Definition okl (l : list value) : Prop := Forall (fun v => okv v = true) l.

  (* ---- the counter lists *)
  Lemma cnt_none l c : (forall k, In k (map fst l) -> v_eq k c = false) -> cnt l c = 0.
  Proof.
    induction l as [|[k m] l IH]; cbn; auto. intros H. rewrite (H k); auto.
  Qed.

  Lemma cnt_set_get l c n c' : okl (map fst l) -> okv c = true -> okv c' = true ->
    cnt (cnt_set l c n) c' = if v_eq c c' then n else cnt l c'.
  Proof.
    intros Hl Hc Hc'. induction l as [|[k m] l IH]; cbn.
    - destruct (v_eq c c'); auto.
    - inversion Hl; subst. cbn in H1. destruct (v_eq k c) eqn:E; cbn.
      + rewrite (v_eq_cong k c c'); auto. destruct (v_eq c c'); auto.
      + rewrite IH; auto. destruct (v_eq k c') eqn:E2; auto.
        destruct (v_eq c c') eqn:E3; auto.
        rewrite (v_eq_cong_r c' c k) in E2; auto; [congruence|]. now rewrite v_eq_sym.
  Qed.

  Lemma dict_set_get l c n c' : okl (map fst l) -> okv c = true -> okv c' = true ->
    cnt (dict_set l c n) c' = if v_eq c c' then n else cnt l c'.
  Proof.
    intros Hl Hc Hc'. induction l as [|[k m] l IH]; cbn.
    - destruct (v_eq c c'); auto.
    - inversion Hl; subst. cbn in H1. destruct (v_eq k c) eqn:E; cbn.
      + rewrite (v_eq_cong k c c'); auto. destruct (v_eq c c'); auto.
      + rewrite IH; auto. destruct (v_eq k c') eqn:E2; auto.
        destruct (v_eq c c') eqn:E3; auto.
        rewrite (v_eq_cong_r c' c k) in E2; auto; [congruence|]. now rewrite v_eq_sym.
  Qed.

  Lemma cnt_del_get l c c' : okl (map fst l) -> nodupeq (map fst l) -> okv c = true -> okv c' = true ->
    cnt (cnt_del l c) c' = if v_eq c c' then 0 else cnt l c'.
  Proof.
    intros Hl Hn Hc Hc'. induction l as [|[k m] l IH]; cbn.
    - destruct (v_eq c c'); auto.
    - inversion Hl; subst. cbn in H1. destruct Hn as [Hk Hn]. destruct (v_eq k c) eqn:E; cbn.
      + rewrite (v_eq_cong k c c'); auto. destruct (v_eq c c') eqn:E3; auto.
        apply cnt_none. intros y Hy. rewrite Forall_forall in H2.
        rewrite <- (v_eq_cong_r k c' y); auto; [| rewrite (v_eq_cong k c c'); auto].
        rewrite v_eq_sym. auto.
      + rewrite IH; auto. destruct (v_eq k c') eqn:E2; auto.
        destruct (v_eq c c') eqn:E3; auto.
        rewrite (v_eq_cong_r c' c k) in E2; auto; [congruence|]. now rewrite v_eq_sym.
  Qed.

  Lemma cnt_set_keys_in l c n y : In y (map fst (cnt_set l c n)) -> In y (map fst l) \/ y = c.
  Proof.
    induction l as [|[k m] l IH]; cbn; [intros [->|[]]; auto|].
    destruct (v_eq k c); cbn; [intros [->|H]; auto|]. intros [->|H]; auto. apply IH in H. tauto.
  Qed.

  Lemma dict_set_keys_in l c n y : In y (map fst (dict_set l c n)) -> In y (map fst l) \/ y = c.
  Proof.
    induction l as [|[k m] l IH]; cbn; [intros [->|[]]; auto|].
    destruct (v_eq k c); cbn; [tauto|]. intros [->|H]; auto. apply IH in H. tauto.
  Qed.

  Lemma cnt_set_nodup l c n : okl (map fst l) -> okv c = true -> nodupeq (map fst l) ->
    nodupeq (map fst (cnt_set l c n)).
  Proof.
    intros Hl Hc. induction l as [|[k m] l IH]; cbn; [intros _; split; [intros y []|exact I]|].
    inversion Hl; subst. cbn in H1. intros [Hk Hn]. destruct (v_eq k c) eqn:E; cbn.
    - split; auto. intros y Hy. unfold okl in H2. rewrite Forall_forall in H2.
      rewrite <- (v_eq_cong k c y); auto.
    - split; auto. intros y Hy. apply cnt_set_keys_in in Hy. destruct Hy as [Hy| ->]; auto.
  Qed.

  Lemma dict_set_nodup l c n : okl (map fst l) -> okv c = true -> nodupeq (map fst l) ->
    nodupeq (map fst (dict_set l c n)).
  Proof.
    intros Hl Hc. induction l as [|[k m] l IH]; cbn; [intros _; split; [intros y []|exact I]|].
    inversion Hl; subst. cbn in H1. intros [Hk Hn]. destruct (v_eq k c) eqn:E; cbn.
    - split; auto.
    - split; auto. intros y Hy. apply dict_set_keys_in in Hy. destruct Hy as [Hy| ->]; auto.
  Qed.

  (* the update of a cache value of either class *)
  Definition eset (counter : bool) (l : list (value * nat)) (c : value) (n : nat) : list (value * nat) :=
    if counter then cnt_set l c n else dict_set l c n.

  Lemma eset_get b l c n c' : okl (map fst l) -> okv c = true -> okv c' = true ->
    cnt (eset b l c n) c' = if v_eq c c' then n else cnt l c'.
  Proof. destruct b; [apply cnt_set_get | apply dict_set_get]. Qed.

  Lemma eset_okl b l c n : okl (map fst l) -> okv c = true -> okl (map fst (eset b l c n)).
  Proof.
    intros Hl Hc. apply Forall_forall. intros y Hy.
    assert (In y (map fst l) \/ y = c) as [H| ->]; auto.
    { destruct b; [eapply cnt_set_keys_in | eapply dict_set_keys_in]; eauto. }
    unfold okl in Hl. rewrite Forall_forall in Hl. auto.
  Qed.

  Lemma eset_nodup b l c n : okl (map fst l) -> okv c = true -> nodupeq (map fst l) ->
    nodupeq (map fst (eset b l c n)).
  Proof. destruct b; [apply cnt_set_nodup | apply dict_set_nodup]. Qed.

  Lemma cnt_del_keys_in l c y : In y (map fst (cnt_del l c)) -> In y (map fst l).
  Proof.
    induction l as [|[k m] l IH]; cbn; auto. destruct (v_eq k c); cbn; [tauto|]. intros [->|H]; auto.
  Qed.

  Lemma cnt_del_okl l c : okl (map fst l) -> okl (map fst (cnt_del l c)).
  Proof.
    intros Hl. apply Forall_forall. intros y Hy. apply cnt_del_keys_in in Hy.
    unfold okl in Hl. rewrite Forall_forall in Hl. auto.
  Qed.

  Lemma cnt_del_nodup l c : nodupeq (map fst l) -> nodupeq (map fst (cnt_del l c)).
  Proof.
    induction l as [|[k m] l IH]; cbn; auto. intros [Hk Hn]. destruct (v_eq k c); cbn; auto.
    split; auto. intros y Hy. apply cnt_del_keys_in in Hy. auto.
  Qed.

  Lemma nodupeq_filter f l : nodupeq l -> nodupeq (filter f l).
  Proof.
    induction l as [|x l IH]; cbn; auto. intros [Hx Hn]. destruct (f x); cbn; auto.
    split; auto. intros y Hy. apply filter_In in Hy. apply Hx. tauto.
  Qed.

  Lemma nodupeq_snoc l c : okl l -> okv c = true -> nodupeq l -> existsb (fun x => v_eq x c) l = false ->
    nodupeq (l ++ [c]).
  Proof.
    intros Hl Hc. induction l as [|x l IH]; cbn; [intros _ _; split; [intros y []|exact I]|].
    inversion Hl; subst. intros [Hx Hn] E. apply orb_false_iff in E. destruct E as [E1 E2].
    split; auto. intros y Hy. apply in_app_iff in Hy. destruct Hy as [Hy|[<-|[]]]; auto.
  Qed.

  Lemma existsb_veq_cong l c c' : okl l -> okv c = true -> okv c' = true -> v_eq c c' = true ->
    existsb (fun x => v_eq x c) l = existsb (fun x => v_eq x c') l.
  Proof.
    intros Hl Hc Hc' E. induction l as [|x l IH]; cbn; auto. inversion Hl; subst.
    rewrite IH; auto. f_equal. now apply v_eq_cong_r.
  Qed.
End Values.

(* ================================================================== Part 3: the utility side *)
Definition ureg_t := list ((spec * name) * (value * info * option nat)).
Definition uprov (kv : (spec * name) * (value * info * option nat)) : spec := fst (fst kv).
Definition uname (kv : (spec * name) * (value * info * option nat)) : name := snd (fst kv).
Definition ucomp (kv : (spec * name) * (value * info * option nat)) : value := fst (fst (snd kv)).
Definition ukv (kv : (spec * name) * (value * info * option nat)) : akey * value :=
  (([], uprov kv, uname kv), ucomp kv).

(* number of registrations of an ==-equal component under one provided interface *)
Definition ucount (U : ureg_t) (p : spec) (c : value) : nat :=
  length (filter (fun kv => Nat.eqb (uprov kv) p && v_eq (ucomp kv) c) U).

Lemma akey_nil_eqb p n p' n' : akey_eqb ([], p, n) ([], p', n') = pn_eqb (p, n) (p', n').
Proof. reflexivity. Qed.

Lemma aget_ukv (U : ureg_t) p n :
  aget akey_eqb (map ukv U) ([], p, n) = option_map (fun v => fst (fst v)) (aget pn_eqb U (p, n)).
Proof.
  induction U as [|[[p' n'] v] U IH]; cbn; auto.
  change (lspec_eqb [] []) with true. cbn [andb].
  unfold pn_eqb at 1. cbn [fst snd]. destruct (Nat.eqb p p' && Nat.eqb n n'); auto.
Qed.

Lemma adel_ukv (U : ureg_t) p n :
  adel akey_eqb (map ukv U) ([], p, n) = map ukv (adel pn_eqb U (p, n)).
Proof.
  induction U as [|[[p' n'] v] U IH]; cbn; auto.
  change (lspec_eqb [] []) with true. cbn [andb].
  unfold pn_eqb at 1. cbn [fst snd]. destruct (Nat.eqb p p' && Nat.eqb n n'); cbn; [reflexivity | rewrite IH; reflexivity].
Qed.

Lemma ucount_app U x p c :
  ucount (U ++ [x]) p c = ucount U p c + (if Nat.eqb (uprov x) p && v_eq (ucomp x) c then 1 else 0).
Proof.
  unfold ucount. rewrite filter_app, app_length. cbn.
  destruct (Nat.eqb (uprov x) p && v_eq (ucomp x) c); reflexivity.
Qed.

Lemma ucount_adel U k v p c : aget pn_eqb U k = Some v ->
  ucount U p c = ucount (adel pn_eqb U k) p c
                 + (if Nat.eqb (fst k) p && v_eq (fst (fst v)) c then 1 else 0).
Proof.
  induction U as [|[k' v'] U IH]; cbn; [discriminate|].
  destruct (pn_eqb k k') eqn:E.
  - apply pn_eqb_eq in E. subst. intros [= ->]. unfold ucount. cbn.
    unfold uprov, ucomp. cbn [fst snd].
    destruct (Nat.eqb (fst k') p && v_eq (fst (fst v)) c); cbn; lia.
  - intros H. specialize (IH H). unfold ucount in *. cbn.
    destruct (Nat.eqb (uprov (k', v')) p && v_eq (ucomp (k', v')) c); cbn; lia.
Qed.

Lemma ucount_pos U kv p c : In kv U -> uprov kv = p -> v_eq (ucomp kv) c = true -> 0 < ucount U p c.
Proof.
  intros H <- E. unfold ucount.
  assert (In kv (filter (fun kv0 => Nat.eqb (uprov kv0) (uprov kv) && v_eq (ucomp kv0) c) U)).
  { apply filter_In. split; auto. now rewrite Nat.eqb_refl, E. }
  destruct (filter _ U); [contradiction | cbn; lia].
Qed.

Lemma ucount_zero U p c : ucount U p c = 0 -> forall kv, In kv U -> uprov kv = p -> v_eq (ucomp kv) c = false.
Proof.
  intros H kv Hin Hp. destruct (v_eq (ucomp kv) c) eqn:E; auto.
  pose proof (ucount_pos U kv p c Hin Hp E). lia.
Qed.

Ltac fold_eset :=
  cbv zeta;
  repeat match goal with
         | |- context [if ?b then cnt_set ?l ?c ?n else dict_set ?l ?c ?n] =>
             change (if b then cnt_set l c n else dict_set l c n) with (eset b l c n)
         end.

Ltac ltb_solve :=
  repeat match goal with
         | |- context [?a <? ?b] =>
             first [ rewrite (proj2 (Nat.ltb_lt a b)) by lia | rewrite (proj2 (Nat.ltb_ge a b)) by lia ]
         end; auto.

Section Utilities.
  Variable W : world.
  Variable hashable : value -> bool.
  Variable cls : nat -> nat.
  Hypothesis hash_cls : forall a b, veq a = veq b -> hashable a = hashable b.

  Notation okv := (okv cls).
  Notation okl := (okl cls).

  Definition uok (U : ureg_t) : Prop := Forall (fun kv => okv (ucomp kv) = true) U.

  Lemma ucount_cong U p c c' : uok U -> okv c = true -> okv c' = true -> v_eq c c' = true ->
    ucount U p c = ucount U p c'.
  Proof.
    intros HU Hc Hc' E. unfold ucount. f_equal. apply filter_ext_in'. intros kv Hin.
    unfold uok in HU. rewrite Forall_forall in HU. f_equal. apply v_eq_cong_r with (cls := cls); auto.
  Qed.

  Definition leaf (u : reg) (p : spec) : list value := sub_leaf u ([], Some p).

  Record inv_u (u : reg) (U : ureg_t) (C : ucache) : Prop := {
    iu_keys : NoDup (map fst U);
    iu_ok : uok U;
    iu_adapters : adapters u = map ukv U;
    iu_subkeys : NoDup (map fst (Adapter.subscribers u));
    iu_other : forall k, (forall p, k <> ([], Some p)) -> sub_leaf u k = [];
    iu_leaf_ok : forall p, okl (leaf u p);
    iu_leaf_nodup : forall p, nodupeq (leaf u p);
    iu_leaf : forall p c, okv c = true ->
                existsb (fun x => v_eq x c) (leaf u p) = Nat.ltb 0 (ucount U p c);
    iu_cache_ok : forall p, okl (map fst (snd (cache_get C p)));
    iu_cache_nodup : forall p, nodupeq (map fst (snd (cache_get C p)));
    iu_cache_cnt : forall p c, okv c = true -> cnt (snd (cache_get C p)) c = ucount U p c;
    iu_cache_mode : forall p, fst (cache_get C p) = false ->
                      forall kv, In kv U -> uprov kv = p -> hashable (ucomp kv) = true
  }.

  Lemma inv_u_init : inv_u empty_reg [] [].
  Proof.
    constructor; cbn; auto; try constructor; try (intros; constructor).
  Qed.

  Lemma cache_get_aset C p e p' :
    cache_get (aset Nat.eqb C p e) p' = if Nat.eqb p' p then e else cache_get C p'.
  Proof. unfold cache_get. rewrite (aget_aset _ nat_eqb_eq). destruct (Nat.eqb p' p); auto. Qed.

  (* what _is_utility_subscribed answers *)
  Lemma is_subscribed_spec u U C p c : inv_u u U C -> okv c = true ->
    is_subscribed hashable C p c = Nat.ltb 0 (ucount U p c).
  Proof.
    intros I Hc. unfold is_subscribed.
    pose proof (iu_cache_cnt _ _ _ I p c Hc) as Hcnt.
    pose proof (iu_cache_mode _ _ _ I p) as Hmode.
    destruct (cache_get C p) as [counter l]. cbn [fst snd] in *.
    destruct counter; cbn [negb andb]; [now rewrite Hcnt|].
    destruct (hashable c) eqn:Hh; cbn [negb]; [now rewrite Hcnt|].
    symmetry. apply Nat.ltb_ge. destruct (ucount U p c) eqn:E; auto. exfalso.
    assert (Hex : exists kv, In kv U /\ uprov kv = p /\ v_eq (ucomp kv) c = true).
    { unfold ucount in E. destruct (filter _ U) as [|kv l'] eqn:Ef; [discriminate|].
      assert (Hin : In kv (filter (fun kv => Nat.eqb (uprov kv) p && v_eq (ucomp kv) c) U)) by (rewrite Ef; left; auto).
      apply filter_In in Hin. destruct Hin as [Hin Hb]. apply andb_true_iff in Hb.
      exists kv. rewrite <- Nat.eqb_eq. tauto. }
    destruct Hex as [kv [Hin [Hp Hv]]].
    pose proof (Hmode eq_refl kv Hin Hp) as Hk.
    pose proof (iu_ok _ _ _ I) as HU. unfold uok in HU. rewrite Forall_forall in HU.
    apply v_eq_veq with (cls := cls) in Hv; auto.
    rewrite (hash_cls _ _ Hv) in Hk. congruence.
  Qed.

  (* _UtilityRegistrations.registerUtility on a key that is not live *)
  Lemma inv_u_register u U C p n c i f : inv_u u U C -> aget pn_eqb U (p, n) = None -> okv c = true ->
    let u1 := register W u [] p n (Some c) in
    let u2 := if is_subscribed hashable C p c then u1 else subscribe W u1 [] (Some p) c in
    inv_u u2 (U ++ [((p, n), (c, i, f))]) (cache_utility hashable C p c).
  Proof.
    intros I Hfresh Hc u1 u2.
    pose proof (is_subscribed_spec _ _ _ p c I Hc) as Hsub.
    assert (Hu1a : adapters u1 = map ukv (U ++ [((p, n), (c, i, f))])).
    { subst u1. change (@nil (option spec)) with (map (@Some spec) []).
      rewrite register_adapters_new.
      - rewrite (iu_adapters _ _ _ I), map_app. reflexivity.
      - rewrite (iu_adapters _ _ _ I), aget_ukv, Hfresh. reflexivity. }
    assert (Hu1s : Adapter.subscribers u1 = Adapter.subscribers u) by apply register_subscribers.
    assert (Hleaf1 : forall k, sub_leaf u1 k = sub_leaf u k) by (intros k; unfold sub_leaf; now rewrite Hu1s).
    (* the leaves of u2 *)
    assert (Hleaf2 : forall k, sub_leaf u2 k =
                               if is_subscribed hashable C p c then sub_leaf u k
                               else if skey_eqb k ([], Some p) then sub_leaf u ([], Some p) ++ [c] else sub_leaf u k).
    { intros k. subst u2. destruct (is_subscribed hashable C p c); auto.
      change (@nil (option spec)) with (map (@Some spec) []). rewrite sub_leaf_subscribe.
      rewrite !Hleaf1. reflexivity. }
    assert (Hcount : forall p' c', ucount (U ++ [((p, n), (c, i, f))]) p' c'
                                   = ucount U p' c' + (if Nat.eqb p p' && v_eq c c' then 1 else 0)).
    { intros. apply ucount_app. }
    assert (HU' : uok (U ++ [((p, n), (c, i, f))])).
    { apply Forall_app. split; [apply (iu_ok _ _ _ I)|]. constructor; auto. }
    constructor.
    - (* keys *) rewrite map_app. cbn. apply aget_None_notin in Hfresh; [|apply pn_eqb_eq].
      pose proof (iu_keys _ _ _ I) as ND. clear -ND Hfresh.
      induction (map fst U) as [|k l IH]; cbn in *.
      + constructor; [intros []|constructor].
      + inversion ND; subst. constructor; [|apply IH; tauto].
        rewrite in_app_iff. cbn. intros [H|[H|[]]]; [auto | subst; tauto].
    - exact HU'.
    - subst u2. destruct (is_subscribed hashable C p c); [exact Hu1a|].
      now rewrite subscribe_adapters.
    - subst u2. destruct (is_subscribed hashable C p c).
      + rewrite Hu1s. apply (iu_subkeys _ _ _ I).
      + change (@nil (option spec)) with (map (@Some spec) []). apply NoDup_subscribe.
        rewrite Hu1s. apply (iu_subkeys _ _ _ I).
    - intros k Hk. rewrite Hleaf2. destruct (is_subscribed hashable C p c); [apply (iu_other _ _ _ I); auto|].
      destruct (skey_eqb k ([], Some p)) eqn:E; [apply skey_eqb_eq in E; subst; exfalso; eapply Hk; eauto|].
      apply (iu_other _ _ _ I); auto.
    - intros p'. unfold leaf. rewrite Hleaf2. destruct (is_subscribed hashable C p c); [apply (iu_leaf_ok _ _ _ I)|].
      destruct (skey_eqb _ _); [|apply (iu_leaf_ok _ _ _ I)].
      apply Forall_app. split; [apply (iu_leaf_ok _ _ _ I p)|]. constructor; auto.
    - intros p'. unfold leaf. rewrite Hleaf2.
      destruct (is_subscribed hashable C p c) eqn:Es; [apply (iu_leaf_nodup _ _ _ I)|].
      destruct (skey_eqb _ _) eqn:E; [|apply (iu_leaf_nodup _ _ _ I)].
      apply nodupeq_snoc with (cls := cls); auto.
      + apply (iu_leaf_ok _ _ _ I p).
      + apply (iu_leaf_nodup _ _ _ I p).
      + change (sub_leaf u ([], Some p)) with (leaf u p). rewrite (iu_leaf _ _ _ I) by auto. congruence.
    - intros p' c' Hc'. unfold leaf. rewrite Hleaf2, Hcount.
      pose proof (iu_leaf _ _ _ I p' c' Hc') as Hl. unfold leaf in Hl.
      destruct (Nat.eqb p p') eqn:Ep; cbn [andb].
      + apply Nat.eqb_eq in Ep. subst p'.
        destruct (v_eq c c') eqn:Ev.
        * assert (Hsame : ucount U p c' = ucount U p c).
          { symmetry. apply ucount_cong; auto. apply (iu_ok _ _ _ I). }
          destruct (is_subscribed hashable C p c) eqn:Es.
          -- rewrite Hl, Hsame. symmetry in Hsub. apply Nat.ltb_lt in Hsub. ltb_solve.
          -- unfold skey_eqb. cbn [fst snd]. rewrite lspec_eqb_refl. cbn [andb ospec_eqb]. rewrite Nat.eqb_refl.
             rewrite existsb_app. cbn [existsb]. rewrite Ev. rewrite !orb_true_r. ltb_solve.
        * rewrite Nat.add_0_r. destruct (is_subscribed hashable C p c); auto.
          unfold skey_eqb. cbn [fst snd]. rewrite lspec_eqb_refl. cbn [andb ospec_eqb]. rewrite Nat.eqb_refl.
          rewrite existsb_app. cbn [existsb]. rewrite Ev. rewrite !orb_false_r. exact Hl.
      + rewrite Nat.add_0_r. destruct (is_subscribed hashable C p c); auto.
        unfold skey_eqb. cbn [fst snd]. rewrite lspec_eqb_refl. cbn [andb ospec_eqb]. rewrite (Nat.eqb_sym p' p), Ep. exact Hl.
    - (* cache keys ok *)
      intros p'. unfold cache_utility. destruct (cache_get C p) as [counter l] eqn:Ec.
      rewrite cache_get_aset. destruct (Nat.eqb p' p) eqn:Ep; [|apply (iu_cache_ok _ _ _ I)].
      cbn [snd]. fold_eset. apply (eset_okl cls); auto.
      pose proof (iu_cache_ok _ _ _ I p) as H. now rewrite Ec in H.
    - intros p'. unfold cache_utility. destruct (cache_get C p) as [counter l] eqn:Ec.
      rewrite cache_get_aset. destruct (Nat.eqb p' p) eqn:Ep; [|apply (iu_cache_nodup _ _ _ I)].
      cbn [snd]. pose proof (iu_cache_ok _ _ _ I p) as H. pose proof (iu_cache_nodup _ _ _ I p) as H'.
      rewrite Ec in H, H'. fold_eset. apply (eset_nodup cls); auto.
    - intros p' c' Hc'. rewrite Hcount. unfold cache_utility.
      destruct (cache_get C p) as [counter l] eqn:Ec.
      rewrite cache_get_aset. rewrite (Nat.eqb_sym p p').
      destruct (Nat.eqb p' p) eqn:Ep; cbn [andb snd].
      + apply Nat.eqb_eq in Ep. subst p'.
        pose proof (iu_cache_ok _ _ _ I p) as H. rewrite Ec in H. cbn [snd] in H.
        fold_eset. rewrite (eset_get cls); auto.
        pose proof (iu_cache_cnt _ _ _ I p) as Hcnt. rewrite Ec in Hcnt. cbn [snd] in Hcnt.
        destruct (v_eq c c') eqn:Ev.
        * rewrite Hcnt; auto. rewrite (ucount_cong U p c c'); auto; [lia | apply (iu_ok _ _ _ I)].
        * rewrite Hcnt; auto.
      + rewrite Nat.add_0_r. apply (iu_cache_cnt _ _ _ I); auto.
    - intros p'. unfold cache_utility. destruct (cache_get C p) as [counter l] eqn:Ec.
      rewrite cache_get_aset. destruct (Nat.eqb p' p) eqn:Ep.
      + apply Nat.eqb_eq in Ep. subst p'. cbn [fst]. intros Hm kv Hin Hp.
        apply orb_false_iff in Hm. destruct Hm as [Hm Hh]. apply negb_false_iff in Hh.
        apply in_app_iff in Hin. destruct Hin as [Hin|[<-|[]]]; [|exact Hh].
        pose proof (iu_cache_mode _ _ _ I p) as Hmode. rewrite Ec in Hmode. apply Hmode; auto.
      + intros Hm kv Hin Hp. apply in_app_iff in Hin. destruct Hin as [Hin|[<-|[]]].
        * apply (iu_cache_mode _ _ _ I p'); auto.
        * unfold uprov in Hp. cbn in Hp. subst. rewrite Nat.eqb_refl in Ep. discriminate.
  Qed.

  Lemma In_adel_pn (U : ureg_t) k kv : In kv (adel pn_eqb U k) -> In kv U.
  Proof.
    induction U as [|[k' v'] U IH]; cbn; auto. destruct (pn_eqb k k'); cbn; [auto|]. intros [H|H]; auto.
  Qed.

  Lemma existsb_filter_veq l comp c' : okl l -> okv comp = true -> okv c' = true ->
    existsb (fun x => v_eq x c') (filter (fun x => negb (v_eq x comp)) l)
    = if v_eq comp c' then false else existsb (fun x => v_eq x c') l.
  Proof.
    intros Hl Hc Hc'. induction l as [|x l IH]; cbn; [destruct (v_eq comp c'); auto|].
    inversion Hl; subst. destruct (v_eq x comp) eqn:E; cbn.
    - rewrite IH; auto. rewrite (v_eq_cong cls x comp c'); auto. destruct (v_eq comp c'); auto.
    - rewrite IH; auto. destruct (v_eq comp c') eqn:E2; auto.
      rewrite <- (v_eq_cong_r cls comp c' x); auto. now rewrite E.
  Qed.

  (* _UtilityRegistrations.unregisterUtility of a live key with an ==-equal component *)
  Lemma inv_u_unregister u U C p n oc oi of comp : inv_u u U C ->
    aget pn_eqb U (p, n) = Some (oc, oi, of) -> okv comp = true -> v_eq comp oc = true ->
    let u1 := unregister W u [] p n None in
    exists C' still, uncache_utility hashable C p comp = Some (C', still) /\
      inv_u (if still then u1 else unsubscribe W u1 [] (Some p) (Some comp)) (adel pn_eqb U (p, n)) C'.
  Proof.
    intros I Hget Hc Heq u1.
    pose proof (aget_In _ pn_eqb_eq _ _ _ Hget) as Hin.
    pose proof (iu_ok _ _ _ I) as HU. assert (HU2 := HU). unfold uok in HU2. rewrite Forall_forall in HU2.
    assert (Hoc : okv oc = true) by (apply (HU2 _ Hin)).
    assert (Hdelta : forall p' c', ucount U p' c' = ucount (adel pn_eqb U (p, n)) p' c'
                                   + (if Nat.eqb p p' && v_eq oc c' then 1 else 0)).
    { intros. apply (ucount_adel U (p, n) (oc, oi, of)); auto. }
    assert (Hpos : 0 < ucount U p comp).
    { apply (ucount_pos U _ p comp Hin); auto. unfold ucomp; cbn. now rewrite v_eq_sym. }
    assert (HU' : uok (adel pn_eqb U (p, n))).
    { apply Forall_forall. intros kv Hkv. apply HU2. eapply In_adel_pn; eauto. }
    assert (Hu1a : adapters u1 = map ukv (adel pn_eqb U (p, n))).
    { subst u1. change (@nil (option spec)) with (map (@Some spec) []).
      rewrite unregister_adapters, (iu_adapters _ _ _ I). apply adel_ukv. }
    assert (Hu1s : Adapter.subscribers u1 = Adapter.subscribers u) by apply unregister_subscribers.
    assert (Hleaf1 : forall k, sub_leaf u1 k = sub_leaf u k) by (intros k; unfold sub_leaf; now rewrite Hu1s).
    assert (Hveq : forall c', okv c' = true -> v_eq oc c' = v_eq comp c').
    { intros c' Hc'. symmetry. apply v_eq_cong with (cls := cls); auto. }
    unfold uncache_utility.
    pose proof (iu_cache_cnt _ _ _ I p) as Hcnt. pose proof (iu_cache_mode _ _ _ I p) as Hmode.
    pose proof (iu_cache_ok _ _ _ I p) as Hcok. pose proof (iu_cache_nodup _ _ _ I p) as Hcnd.
    destruct (cache_get C p) as [counter l] eqn:Ec. cbn [fst snd] in *.
    assert (Hnoerr : negb counter && negb (hashable comp) = false).
    { destruct counter; auto. cbn. apply negb_false_iff.
      rewrite (hash_cls comp oc); [apply (Hmode eq_refl _ Hin); reflexivity|].
      apply v_eq_veq with (cls := cls); auto. }
    rewrite Hnoerr. rewrite (Hcnt comp Hc).
    (* facts shared by both branches *)
    assert (Hmode' : forall e p', fst (cache_get (aset Nat.eqb C p (counter, e)) p') = false ->
                       forall kv, In kv (adel pn_eqb U (p, n)) -> uprov kv = p' -> hashable (ucomp kv) = true).
    { intros e p' Hm kv Hkv Hp. apply In_adel_pn in Hkv. rewrite cache_get_aset in Hm.
      destruct (Nat.eqb p' p) eqn:Ep.
      - apply Nat.eqb_eq in Ep. subst p'. cbn in Hm. subst counter. apply (Hmode eq_refl kv); auto.
      - apply (iu_cache_mode _ _ _ I p'); auto. }
    destruct (Nat.eqb (ucount U p comp - 1) 0) eqn:E0.
    - (* last registration of this component under p: unsubscribe *)
      apply Nat.eqb_eq in E0. assert (Hone : ucount U p comp = 1) by lia.
      exists (aset Nat.eqb C p (counter, cnt_del l comp)), false. split; auto.
      set (u2 := unsubscribe W u1 [] (Some p) (Some comp)).
      assert (Hleaf2 : forall k, sub_leaf u2 k =
                                 if skey_eqb k ([], Some p)
                                 then filter (fun x => negb (v_eq x comp)) (sub_leaf u ([], Some p))
                                 else sub_leaf u k).
      { intros k. subst u2. change (@nil (option spec)) with (map (@Some spec) []).
        rewrite sub_leaf_unsubscribe; [|rewrite Hu1s; apply (iu_subkeys _ _ _ I)].
        rewrite !Hleaf1. reflexivity. }
      constructor.
      + apply (NoDup_adel _ pn_eqb_eq). apply (iu_keys _ _ _ I).
      + exact HU'.
      + subst u2. now rewrite unsubscribe_adapters.
      + subst u2. change (@nil (option spec)) with (map (@Some spec) []). apply NoDup_unsubscribe.
        rewrite Hu1s. apply (iu_subkeys _ _ _ I).
      + intros k Hk. rewrite Hleaf2.
        destruct (skey_eqb k ([], Some p)) eqn:E; [apply skey_eqb_eq in E; subst; exfalso; eapply Hk; eauto|].
        apply (iu_other _ _ _ I); auto.
      + intros p'. unfold leaf. rewrite Hleaf2. destruct (skey_eqb _ _); [|apply (iu_leaf_ok _ _ _ I)].
        apply Forall_forall. intros x Hx. apply filter_In in Hx.
        pose proof (iu_leaf_ok _ _ _ I p) as H. unfold okl in H. rewrite Forall_forall in H. apply H. tauto.
      + intros p'. unfold leaf. rewrite Hleaf2. destruct (skey_eqb _ _); [|apply (iu_leaf_nodup _ _ _ I)].
        apply nodupeq_filter. apply (iu_leaf_nodup _ _ _ I p).
      + intros p' c' Hc'. unfold leaf. rewrite Hleaf2.
        pose proof (iu_leaf _ _ _ I p' c' Hc') as Hl. unfold leaf in Hl.
        pose proof (Hdelta p' c') as Hd. rewrite (Hveq c' Hc') in Hd.
        unfold skey_eqb. cbn [fst snd]. rewrite lspec_eqb_refl. cbn [andb ospec_eqb].
        rewrite (Nat.eqb_sym p' p). destruct (Nat.eqb p p') eqn:Ep; cbn [andb] in Hd.
        * apply Nat.eqb_eq in Ep. subst p'.
          rewrite existsb_filter_veq; auto; [|apply (iu_leaf_ok _ _ _ I p)].
          destruct (v_eq comp c') eqn:Ev.
          -- rewrite <- (ucount_cong U p comp c') in Hd; auto. ltb_solve.
          -- rewrite Hl. f_equal. lia.
        * rewrite Hl. f_equal. lia.
      + intros p'. rewrite cache_get_aset. destruct (Nat.eqb p' p); [|apply (iu_cache_ok _ _ _ I)].
        cbn [snd]. now apply cnt_del_okl.
      + intros p'. rewrite cache_get_aset. destruct (Nat.eqb p' p); [|apply (iu_cache_nodup _ _ _ I)].
        cbn [snd]. now apply cnt_del_nodup.
      + intros p' c' Hc'. rewrite cache_get_aset.
        pose proof (Hdelta p' c') as Hd. rewrite (Hveq c' Hc') in Hd. rewrite (Nat.eqb_sym p p') in Hd.
        destruct (Nat.eqb p' p) eqn:Ep; cbn [andb snd] in *.
        * apply Nat.eqb_eq in Ep. subst p'. rewrite cnt_del_get with (cls := cls); auto.
          destruct (v_eq comp c') eqn:Ev.
          -- rewrite <- (ucount_cong U p comp c') in Hd; auto. lia.
          -- rewrite Hcnt; auto. lia.
        * rewrite (iu_cache_cnt _ _ _ I); auto. lia.
      + apply Hmode'.
    - (* an equal component is still registered under p: stays subscribed *)
      apply Nat.eqb_neq in E0.
      exists (aset Nat.eqb C p (counter, eset counter l comp (ucount U p comp - 1))), true. split; auto.
      constructor.
      + apply (NoDup_adel _ pn_eqb_eq). apply (iu_keys _ _ _ I).
      + exact HU'.
      + exact Hu1a.
      + rewrite Hu1s. apply (iu_subkeys _ _ _ I).
      + intros k Hk. rewrite Hleaf1. apply (iu_other _ _ _ I); auto.
      + intros p'. unfold leaf. rewrite Hleaf1. apply (iu_leaf_ok _ _ _ I).
      + intros p'. unfold leaf. rewrite Hleaf1. apply (iu_leaf_nodup _ _ _ I).
      + intros p' c' Hc'. unfold leaf. rewrite Hleaf1.
        pose proof (iu_leaf _ _ _ I p' c' Hc') as Hl. unfold leaf in Hl. rewrite Hl.
        pose proof (Hdelta p' c') as Hd. rewrite (Hveq c' Hc') in Hd.
        destruct (Nat.eqb p p') eqn:Ep; cbn [andb] in Hd.
        * apply Nat.eqb_eq in Ep. subst p'. destruct (v_eq comp c') eqn:Ev.
          -- rewrite <- (ucount_cong U p comp c') in Hd |- *; auto. ltb_solve.
          -- f_equal. lia.
        * f_equal. lia.
      + intros p'. rewrite cache_get_aset. destruct (Nat.eqb p' p); [|apply (iu_cache_ok _ _ _ I)].
        cbn [snd]. fold_eset. now apply (eset_okl cls).
      + intros p'. rewrite cache_get_aset. destruct (Nat.eqb p' p); [|apply (iu_cache_nodup _ _ _ I)].
        cbn [snd]. fold_eset. apply (eset_nodup cls); auto.
      + intros p' c' Hc'. rewrite cache_get_aset.
        pose proof (Hdelta p' c') as Hd. rewrite (Hveq c' Hc') in Hd. rewrite (Nat.eqb_sym p p') in Hd.
        destruct (Nat.eqb p' p) eqn:Ep; cbn [andb snd] in *.
        * apply Nat.eqb_eq in Ep. subst p'. fold_eset. rewrite (eset_get cls); auto.
          destruct (v_eq comp c') eqn:Ev.
          -- rewrite <- (ucount_cong U p comp c') in Hd; auto. lia.
          -- rewrite Hcnt; auto. lia.
        * rewrite (iu_cache_cnt _ _ _ I); auto. lia.
      + apply Hmode'.
  Qed.
End Utilities.

(* ================================================================== Part 4: the adapter side *)
Definition areg_t := list (akey * (value * info)).
Definition sreg_t := list (list spec * spec * value * info).
Definition hreg_t := list (list spec * value * info).
Definition s_fac (e : list spec * spec * value * info) : value := snd (fst e).
Definition h_fac (e : list spec * value * info) : value := snd (fst e).
Definition s_keyb (q : list spec) (p : spec) (e : list spec * spec * value * info) : bool :=
  let '(q', p', _, _) := e in lspec_eqb q' q && Nat.eqb p' p.
Definition h_keyb (q : list spec) (e : list spec * value * info) : bool :=
  let '(q', _, _) := e in lspec_eqb q' q.

Lemma sub_match_split f q p e : sub_match f q p e = s_keyb q p e && fac_match f (s_fac e).
Proof. destruct e as [[[q' p'] f'] i]. reflexivity. Qed.
Lemma hnd_match_split f q e : hnd_match f q e = h_keyb q e && fac_match f (h_fac e).
Proof. destruct e as [[q' f'] i]. reflexivity. Qed.

Section LeafFilter.
  Context {A : Type} (key : A -> bool) (fac : A -> value).

  Lemma unsub_filter (l : list A) fo :
    unsub_leaf (map fac (filter key l)) fo
    = map fac (filter key (filter (fun e => negb (key e && fac_match fo (fac e))) l)).
  Proof.
    destruct fo as [f'|]; cbn [unsub_leaf fac_match].
    - induction l as [|x l IH]; cbn; auto.
      destruct (key x) eqn:Ek; cbn.
      + destruct (v_eq (fac x) f') eqn:Ev; cbn; [auto | rewrite Ek; cbn; now rewrite IH].
      + rewrite Ek. auto.
    - induction l as [|x l IH]; cbn; auto.
      destruct (key x) eqn:Ek; cbn; auto. now rewrite Ek.
  Qed.

  Lemma other_filter (key' : A -> bool) (m : A -> bool) (l : list A) :
    (forall e, key' e = true -> key e = false) ->
    filter key' (filter (fun e => negb (key e && m e)) l) = filter key' l.
  Proof.
    intros H. induction l as [|x l IH]; cbn; auto.
    destruct (key' x) eqn:Ek'.
    - rewrite (H x Ek'). cbn. now rewrite Ek', IH.
    - destruct (negb (key x && m x)); cbn; [rewrite Ek'|]; auto.
  Qed.
End LeafFilter.

Lemma Forall_aset_snd {K V} (eqb : K -> K -> bool) (Q : V -> Prop) (m : list (K * V)) k v :
  Forall (fun kv => Q (snd kv)) m -> Q v -> Forall (fun kv => Q (snd kv)) (aset eqb m k v).
Proof.
  intros H Hv. induction m as [|[k' v'] m IH]; cbn; [constructor; auto|].
  inversion H; subst. destruct (eqb k k'); constructor; auto.
Qed.

Lemma Forall_adel {K V} (eqb : K -> K -> bool) (P : K * V -> Prop) (m : list (K * V)) k :
  Forall P m -> Forall P (adel eqb m k).
Proof.
  intros H. induction m as [|[k' v'] m IH]; cbn; auto.
  inversion H; subst. destruct (eqb k k'); auto.
Qed.

Lemma Forall_filter {A} (P : A -> Prop) f (l : list A) : Forall P l -> Forall P (filter f l).
Proof. intros H. induction l as [|x l IH]; cbn; auto. inversion H; subst. destruct (f x); auto. Qed.

Section AdapterSide.
  Variable W : world.
  Variable cls : nat -> nat.
  Notation okv := (okv cls).

  Record inv_a (a : reg) (A : areg_t) (S : sreg_t) (H : hreg_t) : Prop := {
    ia_keys : NoDup (map fst A);
    ia_aok : Forall (fun kv => okv (fst (snd kv)) = true) A;
    ia_sok : Forall (fun e => okv (s_fac e) = true) S;
    ia_hok : Forall (fun e => okv (h_fac e) = true) H;
    ia_adapters : adapters a = vmap fst A;
    ia_subkeys : NoDup (map fst (Adapter.subscribers a));
    ia_sleaf : forall q p, sub_leaf a (q, Some p) = map s_fac (filter (s_keyb q p) S);
    ia_hleaf : forall q, sub_leaf a (q, None) = map h_fac (filter (h_keyb q) H)
  }.

  Lemma inv_a_init : inv_a empty_reg [] [] [].
  Proof. constructor; cbn; auto; constructor. Qed.

  Lemma inv_a_regA a A S H f q p n i : inv_a a A S H -> okv f = true ->
    inv_a (register W a (map Some q) p n (Some f)) (aset akey_eqb A (q, p, n) (f, i)) S H.
  Proof.
    intros I Hf. constructor.
    - apply (NoDup_aset _ akey_eqb_eq). apply (ia_keys _ _ _ _ I).
    - apply (Forall_aset_snd akey_eqb (fun v => okv (fst v) = true)); [apply (ia_aok _ _ _ _ I) | exact Hf].
    - apply (ia_sok _ _ _ _ I).
    - apply (ia_hok _ _ _ _ I).
    - rewrite register_adapters_any.
      + rewrite (ia_adapters _ _ _ _ I). change f with (fst (f, i)) at 1. apply aset_vmap.
      + intros old Hold Hv. rewrite (ia_adapters _ _ _ _ I), aget_vmap in Hold.
        destruct (aget akey_eqb A (q, p, n)) as [[f0 i0]|] eqn:E; [|discriminate].
        cbn in Hold. injection Hold as <-.
        apply (aget_In _ akey_eqb_eq) in E.
        pose proof (ia_aok _ _ _ _ I) as Hok. rewrite Forall_forall in Hok. specialize (Hok _ E). cbn in Hok.
        apply v_is_ok with (cls := cls); auto.
    - rewrite register_subscribers. apply (ia_subkeys _ _ _ _ I).
    - intros q' p'. unfold sub_leaf. rewrite register_subscribers. apply (ia_sleaf _ _ _ _ I).
    - intros q'. unfold sub_leaf. rewrite register_subscribers. apply (ia_hleaf _ _ _ _ I).
  Qed.

  Lemma inv_a_unregA a A S H q p n : inv_a a A S H ->
    inv_a (unregister W a (map Some q) p n None) (adel akey_eqb A (q, p, n)) S H.
  Proof.
    intros I. constructor.
    - apply (NoDup_adel _ akey_eqb_eq). apply (ia_keys _ _ _ _ I).
    - apply Forall_adel. apply (ia_aok _ _ _ _ I).
    - apply (ia_sok _ _ _ _ I).
    - apply (ia_hok _ _ _ _ I).
    - rewrite unregister_adapters, (ia_adapters _ _ _ _ I). apply adel_vmap.
    - rewrite unregister_subscribers. apply (ia_subkeys _ _ _ _ I).
    - intros q' p'. unfold sub_leaf. rewrite unregister_subscribers. apply (ia_sleaf _ _ _ _ I).
    - intros q'. unfold sub_leaf. rewrite unregister_subscribers. apply (ia_hleaf _ _ _ _ I).
  Qed.

  Lemma skey_some_eqb q' p' q p : skey_eqb (q', Some p') (q, Some p) = lspec_eqb q' q && Nat.eqb p' p.
  Proof. reflexivity. Qed.
  Lemma skey_none_eqb q' q : skey_eqb (q', None) (q, None) = lspec_eqb q' q.
  Proof. unfold skey_eqb. cbn. now rewrite andb_true_r. Qed.
  Lemma skey_mixed1 q' p' q : skey_eqb (q', Some p') (q, None) = false.
  Proof. unfold skey_eqb. cbn. now rewrite andb_false_r. Qed.
  Lemma skey_mixed2 q' q p : skey_eqb (q', None) (q, Some p) = false.
  Proof. unfold skey_eqb. cbn. now rewrite andb_false_r. Qed.

  Lemma inv_a_regS a A S H f q p i : inv_a a A S H -> okv f = true ->
    inv_a (subscribe W a (map Some q) (Some p) f) A (S ++ [(q, p, f, i)]) H.
  Proof.
    intros I Hf. constructor.
    - apply (ia_keys _ _ _ _ I).
    - apply (ia_aok _ _ _ _ I).
    - apply Forall_app. split; [apply (ia_sok _ _ _ _ I)|]. constructor; auto.
    - apply (ia_hok _ _ _ _ I).
    - rewrite subscribe_adapters. apply (ia_adapters _ _ _ _ I).
    - apply NoDup_subscribe. apply (ia_subkeys _ _ _ _ I).
    - intros q' p'. rewrite sub_leaf_subscribe, skey_some_eqb, filter_app, map_app. cbn [filter s_keyb].
      rewrite (lspec_eqb_sym q q'), (Nat.eqb_sym p p').
      destruct (lspec_eqb q' q && Nat.eqb p' p) eqn:E; cbn.
      + apply andb_true_iff in E. destruct E as [E1 E2]. apply lspec_eqb_eq in E1. apply Nat.eqb_eq in E2.
        subst. now rewrite (ia_sleaf _ _ _ _ I).
      + rewrite app_nil_r. apply (ia_sleaf _ _ _ _ I).
    - intros q'. rewrite sub_leaf_subscribe, skey_mixed2. apply (ia_hleaf _ _ _ _ I).
  Qed.

  Lemma inv_a_regH a A S H f q i : inv_a a A S H -> okv f = true ->
    inv_a (subscribe W a (map Some q) None f) A S (H ++ [(q, f, i)]).
  Proof.
    intros I Hf. constructor.
    - apply (ia_keys _ _ _ _ I).
    - apply (ia_aok _ _ _ _ I).
    - apply (ia_sok _ _ _ _ I).
    - apply Forall_app. split; [apply (ia_hok _ _ _ _ I)|]. constructor; auto.
    - rewrite subscribe_adapters. apply (ia_adapters _ _ _ _ I).
    - apply NoDup_subscribe. apply (ia_subkeys _ _ _ _ I).
    - intros q' p'. rewrite sub_leaf_subscribe, skey_mixed1. apply (ia_sleaf _ _ _ _ I).
    - intros q'. rewrite sub_leaf_subscribe, skey_none_eqb, filter_app, map_app. cbn [filter h_keyb].
      rewrite (lspec_eqb_sym q q').
      destruct (lspec_eqb q' q) eqn:E; cbn.
      + apply lspec_eqb_eq in E. subst. now rewrite (ia_hleaf _ _ _ _ I).
      + rewrite app_nil_r. apply (ia_hleaf _ _ _ _ I).
  Qed.

  Lemma inv_a_unregS a A S H fo q p : inv_a a A S H ->
    inv_a (unsubscribe W a (map Some q) (Some p) fo) A (filter (fun e => negb (sub_match fo q p e)) S) H.
  Proof.
    intros I.
    assert (Efilt : filter (fun e => negb (sub_match fo q p e)) S
                    = filter (fun e => negb (s_keyb q p e && fac_match fo (s_fac e))) S).
    { apply filter_ext_in'. intros e _. now rewrite sub_match_split. }
    constructor.
    - apply (ia_keys _ _ _ _ I).
    - apply (ia_aok _ _ _ _ I).
    - apply Forall_filter. apply (ia_sok _ _ _ _ I).
    - apply (ia_hok _ _ _ _ I).
    - rewrite unsubscribe_adapters. apply (ia_adapters _ _ _ _ I).
    - apply NoDup_unsubscribe. apply (ia_subkeys _ _ _ _ I).
    - intros q' p'. rewrite sub_leaf_unsubscribe by apply (ia_subkeys _ _ _ _ I).
      rewrite skey_some_eqb, Efilt.
      destruct (lspec_eqb q' q && Nat.eqb p' p) eqn:E.
      + apply andb_true_iff in E. destruct E as [E1 E2]. apply lspec_eqb_eq in E1. apply Nat.eqb_eq in E2.
        subst. rewrite (ia_sleaf _ _ _ _ I). apply unsub_filter.
      + rewrite (ia_sleaf _ _ _ _ I). f_equal. symmetry. apply other_filter.
        intros [[[q2 p2] f2] i2]. cbn. intros E2. apply andb_true_iff in E2. destruct E2 as [E2 E3].
        apply lspec_eqb_eq in E2. apply Nat.eqb_eq in E3. subst. exact E.
    - intros q'. rewrite sub_leaf_unsubscribe by apply (ia_subkeys _ _ _ _ I).
      rewrite skey_mixed2. apply (ia_hleaf _ _ _ _ I).
  Qed.

  Lemma inv_a_unregH a A S H fo q : inv_a a A S H ->
    inv_a (unsubscribe W a (map Some q) None fo) A S (filter (fun e => negb (hnd_match fo q e)) H).
  Proof.
    intros I.
    assert (Efilt : filter (fun e => negb (hnd_match fo q e)) H
                    = filter (fun e => negb (h_keyb q e && fac_match fo (h_fac e))) H).
    { apply filter_ext_in'. intros e _. now rewrite hnd_match_split. }
    constructor.
    - apply (ia_keys _ _ _ _ I).
    - apply (ia_aok _ _ _ _ I).
    - apply (ia_sok _ _ _ _ I).
    - apply Forall_filter. apply (ia_hok _ _ _ _ I).
    - rewrite unsubscribe_adapters. apply (ia_adapters _ _ _ _ I).
    - apply NoDup_unsubscribe. apply (ia_subkeys _ _ _ _ I).
    - intros q' p'. rewrite sub_leaf_unsubscribe by apply (ia_subkeys _ _ _ _ I).
      rewrite skey_mixed1. apply (ia_sleaf _ _ _ _ I).
    - intros q'. rewrite sub_leaf_unsubscribe by apply (ia_subkeys _ _ _ _ I).
      rewrite skey_none_eqb, Efilt.
      destruct (lspec_eqb q' q) eqn:E.
      + apply lspec_eqb_eq in E. subst. rewrite (ia_hleaf _ _ _ _ I). apply unsub_filter.
      + rewrite (ia_hleaf _ _ _ _ I). f_equal. symmetry. apply other_filter.
        intros [[q2 f2] i2]. cbn. intros E2. apply lspec_eqb_eq in E2. subst. exact E.
  Qed.
End AdapterSide.

(* ================================================================== Part 5: refinement of the ledger *)
Definition u_of (kv : (spec * name) * (value * info * option nat)) : urec :=
  let '((p, n), (c, i, f)) := kv in (p, n, c, i, f).
Definition a_of (kv : akey * (value * info)) : arec :=
  let '((q, p, n), (f, i)) := kv in (q, p, n, f, i).

Definition refines (st : cstate) (L : ledger) : Prop :=
  l_u L = map u_of (c_ureg st) /\ l_a L = map a_of (c_areg st) /\ l_s L = c_sreg st /\ l_h L = c_hreg st.

Lemma find_u_key (U : ureg_t) p n :
  find (u_key p n) (map u_of U)
  = match aget pn_eqb U (p, n) with Some (c, i, f) => Some (p, n, c, i, f) | None => None end.
Proof.
  induction U as [|[[p' n'] [[c i] f]] U IH]; cbn; auto.
  unfold pn_eqb. cbn [fst snd]. rewrite (Nat.eqb_sym p' p), (Nat.eqb_sym n' n).
  destruct (Nat.eqb p p') eqn:E1; cbn; auto. destruct (Nat.eqb n n') eqn:E2; cbn; auto.
  apply Nat.eqb_eq in E1, E2. now subst.
Qed.

Lemma filter_u_key (U : ureg_t) p n : NoDup (map fst U) ->
  filter (fun r => negb (u_key p n r)) (map u_of U) = map u_of (adel pn_eqb U (p, n)).
Proof.
  intros ND. rewrite (adel_filter _ pn_eqb_eq) by auto. rewrite filter_map_comm. f_equal.
  apply filter_ext_in'. intros [[p' n'] [[c i] f]] _. cbn. unfold pn_eqb. cbn [fst snd].
  now rewrite (Nat.eqb_sym p' p), (Nat.eqb_sym n' n).
Qed.

Lemma a_key_of q p n kv : a_key q p n (a_of kv) = akey_eqb (q, p, n) (fst kv).
Proof.
  destruct kv as [[[q' p'] n'] [f i]]. cbn.
  now rewrite (lspec_eqb_sym q' q), (Nat.eqb_sym p' p), (Nat.eqb_sym n' n).
Qed.

Lemma find_a_key (A : areg_t) q p n :
  find (a_key q p n) (map a_of A)
  = match aget akey_eqb A (q, p, n) with Some (f, i) => Some (q, p, n, f, i) | None => None end.
Proof.
  induction A as [|kv A IH]; cbn [map find aget]; auto.
  rewrite a_key_of. destruct kv as [k [f i]]. cbn [fst].
  destruct (akey_eqb (q, p, n) k) eqn:E; auto.
  apply akey_eqb_eq in E. subst. reflexivity.
Qed.

Lemma filter_a_key (A : areg_t) q p n : NoDup (map fst A) ->
  filter (fun r => negb (a_key q p n r)) (map a_of A) = map a_of (adel akey_eqb A (q, p, n)).
Proof.
  intros ND. rewrite (adel_filter _ akey_eqb_eq) by auto. rewrite filter_map_comm. f_equal.
  apply filter_ext_in'. intros kv _. now rewrite a_key_of.
Qed.

Lemma map_a_key (A : areg_t) q p n f i v0 : NoDup (map fst A) -> aget akey_eqb A (q, p, n) = Some v0 ->
  map (fun r => if a_key q p n r then (q, p, n, f, i) else r) (map a_of A)
  = map a_of (aset akey_eqb A (q, p, n) (f, i)).
Proof.
  intros ND Hget. rewrite (aset_map _ akey_eqb_eq _ _ _ _ Hget ND), !map_map. apply map_ext.
  intros kv. rewrite a_key_of. destruct (akey_eqb (q, p, n) (fst kv)); reflexivity.
Qed.

Lemma value_eqb_eq a b : value_eqb a b = true <-> a = b.
Proof.
  destruct a as [ia ea], b as [ib eb]. unfold value_eqb. cbn.
  rewrite andb_true_iff, !Nat.eqb_eq. split; [intros [-> ->]; auto | intros E; inversion E; auto].
Qed.
Lemma value_eqb_refl a : value_eqb a a = true.
Proof. now apply value_eqb_eq. Qed.
Lemma onat_eqb_refl a : onat_eqb a a = true.
Proof. destruct a; cbn; auto. apply Nat.eqb_refl. Qed.
Lemma ovalue_eqb_refl a : ovalue_eqb a a = true.
Proof. destruct a; cbn; auto. apply value_eqb_refl. Qed.
Lemma regrec_eqb_refl r : regrec_eqb r r = true.
Proof.
  destruct r; cbn; rewrite ?Nat.eqb_refl, ?lspec_eqb_refl, ?value_eqb_refl, ?onat_eqb_refl, ?ovalue_eqb_refl; reflexivity.
Qed.

Section Refinement.
  Variable W : world.
  Variable hashable : value -> bool.
  Variable cls : nat -> nat.
  Hypothesis hash_cls : forall a b, veq a = veq b -> hashable a = hashable b.

  Notation okv := (okv cls).
  Notation cstep := (cstep W hashable).

  Record inv (st : cstate) : Prop := {
    inv_U : inv_u hashable cls (c_utils st) (c_ureg st) (c_cache st);
    inv_A : inv_a cls (c_adapters st) (c_areg st) (c_sreg st) (c_hreg st)
  }.

  Lemma inv_init : inv cinit.
  Proof. constructor; [apply inv_u_init | apply inv_a_init]. Qed.

  Lemma refines_init : refines cinit lempty.
  Proof. repeat split. Qed.

  (* ---- utilities *)
  (* unregistering a live key with an equal (or no) component *)
  Lemma unreg_live st L p n oc oi of comp : inv st -> refines st L ->
    aget pn_eqb (c_ureg st) (p, n) = Some (oc, oi, of) -> okv comp = true -> v_eq comp oc = true ->
    exists st', ur_unregister W hashable st p n comp = (st', true)
      /\ inv st' /\ c_ureg st' = adel pn_eqb (c_ureg st) (p, n)
      /\ refines st' (mkL (filter (fun r => negb (u_key p n r)) (l_u L)) (l_a L) (l_s L) (l_h L)).
  Proof.
    intros [IU IA] [Ru [Ra [Rs Rh]]] Hget Hc Heq.
    destruct (inv_u_unregister W hashable cls hash_cls _ _ _ p n oc oi of comp IU Hget Hc Heq)
      as [C' [still [Hunc I']]].
    unfold ur_unregister. rewrite Hunc. eexists. split; [reflexivity|].
    split; [|split].
    - constructor; cbn; auto.
    - reflexivity.
    - repeat split; cbn; auto. rewrite Ru. apply filter_u_key. apply (iu_keys _ _ _ _ _ IU).
  Qed.

  Lemma reg_fresh st L p n c i f : inv st -> refines st L ->
    aget pn_eqb (c_ureg st) (p, n) = None -> okv c = true ->
    inv (ur_register W hashable st p n c i f)
    /\ refines (ur_register W hashable st p n c i f) (mkL (l_u L ++ [(p, n, c, i, f)]) (l_a L) (l_s L) (l_h L)).
  Proof.
    intros [IU IA] [Ru [Ra [Rs Rh]]] Hfresh Hc.
    pose proof (inv_u_register W hashable cls hash_cls _ _ _ p n c i f IU Hfresh Hc) as I'.
    cbv zeta in I'. unfold ur_register. rewrite (aset_fresh _ _ _ _ Hfresh).
    split.
    - constructor; cbn; auto.
    - repeat split; cbn; auto. rewrite Ru, map_app. reflexivity.
  Qed.

  Definition step_claim (st : cstate) (L : ledger) (o : cop) : Prop :=
    let x := cstep st o in
    let y := spec_step L o in
    inv (st_of x) /\ refines (st_of x) (o_ledger y) /\ ret_of x = o_ret y
    /\ (benign L o = true -> events_ok (evs_of x) o y = true).

  Ltac simp_out := cbn [st_of ret_of evs_of o_ledger o_ret o_removed o_added fst snd].

  Ltac ev_cases := try match goal with ev : bool |- _ => destruct ev end.

  Ltac unchanged I R :=
    cbn; split; [exact I | split; [exact R | split; [reflexivity | intros _; unfold events_ok; cbn; ev_cases; reflexivity]]].

  Lemma step_unregU st L c p n : inv st -> refines st L -> ok_ov cls c = true ->
    step_claim st L (UnregUtility c p n).
  Proof.
    intros I R Hc. unfold step_claim. cbn [cstep spec_step]. unfold unregisterUtility.
    assert (R0 := R). destruct R as [Ru R']. rewrite Ru, find_u_key.
    destruct (aget pn_eqb (c_ureg st) (p, n)) as [[[oc oi] of]|] eqn:Hget.
    2:{ unchanged I R0. }
    assert (Hoc : okv oc = true).
    { pose proof (iu_ok _ _ _ _ _ (inv_U _ I)) as HU. unfold uok in HU. rewrite Forall_forall in HU.
      apply (HU _ (aget_In _ pn_eqb_eq _ _ _ Hget)). }
    assert (Hgo : forall comp, okv comp = true -> v_eq comp oc = true ->
              let x := match ur_unregister W hashable st p n comp with
                       | (st', true) => (st', RBool true, [Unregistered (RU p n comp oi of)])
                       | (st', false) => (st', RTypeError, [])
                       end in
              let y := (mkL (filter (fun r => negb (u_key p n r)) (map u_of (c_ureg st))) (l_a L) (l_s L) (l_h L),
                        RBool true, [RU p n oc oi of], @nil regrec) in
              inv (st_of x) /\ refines (st_of x) (o_ledger y) /\ ret_of x = o_ret y
              /\ (benign L (UnregUtility c p n) = true -> events_ok (evs_of x) (UnregUtility c p n) y = true)).
    { intros comp Hcomp Heq.
      destruct (unreg_live st L p n oc oi of comp I R0 Hget Hcomp Heq) as [st' [E [I' [_ R2]]]].
      rewrite E. cbn. rewrite Ru in R2.
      split; [exact I' | split; [exact R2 | split; [reflexivity|]]].
      intros _. unfold events_ok. cbn. rewrite !Nat.eqb_refl, Heq, onat_eqb_refl. reflexivity. }
    destruct c as [c'|].
    - cbn in Hc. destruct (v_eq c' oc) eqn:Ev; cbn [negb].
      + exact (Hgo c' Hc Ev).
      + unchanged I R0.
    - exact (Hgo oc Hoc (v_eq_refl oc)).
  Qed.

  Lemma step_regU st L c p n i f ev : inv st -> refines st L -> okv c = true ->
    step_claim st L (RegUtility c p n i f ev).
  Proof.
    intros I R Hc. unfold step_claim. cbn [cstep spec_step]. unfold registerUtility.
    assert (R0 := R). destruct R as [Ru R']. rewrite Ru, find_u_key.
    destruct (aget pn_eqb (c_ureg st) (p, n)) as [[[oc oi] of]|] eqn:Hget.
    - destruct (v_eq oc c && Nat.eqb oi i) eqn:Esame.
      + unchanged I R0.
      + assert (Hoc : okv oc = true).
        { pose proof (iu_ok _ _ _ _ _ (inv_U _ I)) as HU. unfold uok in HU. rewrite Forall_forall in HU.
          apply (HU _ (aget_In _ pn_eqb_eq _ _ _ Hget)). }
        unfold unregisterUtility. rewrite Hget, v_eq_refl. cbn [negb].
        destruct (unreg_live st L p n oc oi of oc I R0 Hget Hoc (v_eq_refl oc)) as [st1 [E [I1 [EU R1]]]].
        rewrite E.
        assert (Hfresh : aget pn_eqb (c_ureg st1) (p, n) = None).
        { rewrite EU, (aget_adel _ pn_eqb_eq) by apply (iu_keys _ _ _ _ _ (inv_U _ I)).
          now rewrite (eqb_refl _ pn_eqb_eq). }
        destruct (reg_fresh st1 _ p n c i f I1 R1 Hfresh Hc) as [I2 R2].
        cbn in R2. rewrite Ru in R2. cbn.
        split; [exact I2 | split; [exact R2 | split; [reflexivity|]]].
        intros _. unfold events_ok. destruct ev; cbn;
        rewrite !Nat.eqb_refl, v_eq_refl, !onat_eqb_refl, ?value_eqb_refl; reflexivity.
    - destruct (reg_fresh st L p n c i f I R0 Hget Hc) as [I2 R2]. rewrite Ru in R2.
      cbn. split; [exact I2 | split; [exact R2 | split; [reflexivity|]]].
      intros _. unfold events_ok. destruct ev; cbn; rewrite ?Nat.eqb_refl, ?onat_eqb_refl, ?value_eqb_refl; reflexivity.
  Qed.

  (* ---- adapters, subscription adapters, handlers *)
  Lemma inv_set_adapters st a A S H : inv st -> inv_a cls a A S H -> inv (set_adapters st a A S H).
  Proof. intros [IU IA] I'. constructor; cbn; auto. Qed.

  Lemma nonempty_false {A} (l : list A) : l = [] -> nonempty l = false.
  Proof. now intros ->. Qed.
  Lemma nonempty_true {A} (l : list A) : l <> [] -> nonempty l = true.
  Proof. destruct l; [congruence | reflexivity]. Qed.

  Lemma step_regA st L f req p n i ev : inv st -> refines st L -> okv f = true ->
    step_claim st L (RegAdapter f req p n i ev).
  Proof.
    intros I R Hf. unfold step_claim. cbn [cstep spec_step]. unfold registerAdapter, conv_req, benign.
    cbn [multi_removal adapter_overwrite negb andb].
    assert (R0 := R). destruct R as [Ru [Ra [Rs Rh]]]. set (q := map conv req).
    rewrite Ra, find_a_key.
    pose proof (inv_a_regA W cls _ _ _ _ f q p n i (inv_A _ I) Hf) as IA'.
    pose proof (ia_keys _ _ _ _ _ (inv_A _ I)) as ND.
    destruct (aget akey_eqb (c_areg st) (q, p, n)) as [[of oi]|] eqn:Hget.
    - destruct (value_eqb of f && Nat.eqb oi i) eqn:Esame.
      + apply andb_true_iff in Esame. destruct Esame as [E1 E2].
        apply value_eqb_eq in E1. apply Nat.eqb_eq in E2. subst of oi. cbn.
        split; [now apply inv_set_adapters | split; [|split; [reflexivity | discriminate]]].
        repeat split; cbn; auto. now rewrite Ra, (aset_same _ _ _ _ Hget).
      + cbn. split; [now apply inv_set_adapters | split; [|split; [reflexivity | discriminate]]].
        repeat split; cbn; auto. now apply map_a_key with (v0 := (of, oi)).
    - cbn. split; [now apply inv_set_adapters | split; [|split; [reflexivity|]]].
      + repeat split; cbn; auto. rewrite (aset_fresh _ _ _ _ Hget), map_app. reflexivity.
      + intros _. unfold events_ok. destruct ev; cbn;
        rewrite ?lspec_eqb_refl, ?Nat.eqb_refl, ?value_eqb_refl; reflexivity.
  Qed.

  Lemma step_unregA st L f req p n : inv st -> refines st L -> ok_ov cls f = true ->
    step_claim st L (UnregAdapter f req p n).
  Proof.
    intros I R Hf. unfold step_claim. cbn [cstep spec_step]. unfold unregisterAdapter, conv_req.
    assert (R0 := R). destruct R as [Ru [Ra [Rs Rh]]]. set (q := map conv req).
    rewrite Ra, find_a_key.
    pose proof (ia_keys _ _ _ _ _ (inv_A _ I)) as ND.
    destruct (aget akey_eqb (c_areg st) (q, p, n)) as [[of oi]|] eqn:Hget.
    2:{ unchanged I R0. }
    assert (Hcond : match f with Some f' => negb (v_eq f' of) | None => false end = negb (f_sel f of)).
    { destruct f as [f'|]; cbn; auto. now rewrite v_eq_sym. }
    rewrite Hcond. destruct (f_sel f of); cbn [negb].
    - cbn. split; [apply inv_set_adapters; auto; apply inv_a_unregA; apply (inv_A _ I)
                  | split; [|split; [reflexivity|]]].
      + repeat split; cbn; auto. now apply filter_a_key.
      + intros _. unfold events_ok. cbn.
        rewrite lspec_eqb_refl, !Nat.eqb_refl, value_eqb_refl. reflexivity.
    - unchanged I R0.
  Qed.

  Lemma step_regS st L f req p n i ev : inv st -> refines st L -> okv f = true ->
    step_claim st L (RegSub f req p n i ev).
  Proof.
    intros I R Hf. unfold step_claim. cbn [cstep spec_step]. unfold registerSub, conv_req.
    assert (R0 := R). destruct R as [Ru [Ra [Rs Rh]]].
    destruct (negb (Nat.eqb n 0)); [unchanged I R0|].
    cbn. split; [apply inv_set_adapters; auto; apply inv_a_regS; auto; apply (inv_A _ I)
                | split; [|split; [reflexivity|]]].
    - repeat split; cbn; auto. now rewrite Rs.
    - intros _. unfold events_ok. destruct ev; cbn;
      rewrite ?lspec_eqb_refl, ?Nat.eqb_refl, ?value_eqb_refl; reflexivity.
  Qed.

  Lemma step_regH st L f req n i ev : inv st -> refines st L -> okv f = true ->
    step_claim st L (RegHandler f req n i ev).
  Proof.
    intros I R Hf. unfold step_claim. cbn [cstep spec_step]. unfold registerHandler, conv_req.
    assert (R0 := R). destruct R as [Ru [Ra [Rs Rh]]].
    destruct (negb (Nat.eqb n 0)); [unchanged I R0|].
    cbn. split; [apply inv_set_adapters; auto; apply inv_a_regH; auto; apply (inv_A _ I)
                | split; [|split; [reflexivity|]]].
    - repeat split; cbn; auto. now rewrite Rh.
    - intros _. unfold events_ok. destruct ev; cbn;
      rewrite ?lspec_eqb_refl, ?Nat.eqb_refl, ?value_eqb_refl; reflexivity.
  Qed.

  Lemma single_of_short {A} (l : list A) : l <> [] -> Nat.ltb 1 (length l) = false -> exists x, l = [x].
  Proof.
    destruct l as [|x [|y l]]; [congruence | eauto |].
    intros _ H. apply Nat.ltb_ge in H. cbn in H. lia.
  Qed.

  Lemma step_unregS st L f req p n : inv st -> refines st L ->
    step_claim st L (UnregSub f req p n).
  Proof.
    intros I R. unfold step_claim, benign. cbn [cstep spec_step multi_removal adapter_overwrite negb andb].
    unfold unregisterSub, conv_req.
    assert (R0 := R). destruct R as [Ru [Ra [Rs Rh]]].
    destruct (negb (Nat.eqb n 0)); [unchanged I R0|].
    set (q := map conv req). rewrite Rs.
    change (fun e => negb (sub_match f q p e)) with (fun r => negb (s_sel f q p r)).
    match goal with |- context [Nat.eqb (length ?a) (length ?b)] => destruct (Nat.eqb (length a) (length b)) eqn:El end.
    - apply Nat.eqb_eq in El.
      assert (Hnone : @filter srec (s_sel f q p) (c_sreg st) = []) by (apply (filter_neg_all (s_sel f q p)); exact El).
      assert (Hall : @filter srec (fun r => negb (s_sel f q p r)) (c_sreg st) = c_sreg st) by (apply filter_length_eq; exact El).
      rewrite Hnone, Hall. simp_out.
      split; [exact I | split; [|split; [reflexivity | intros _; reflexivity]]].
      repeat split; cbn; auto.
    - apply Nat.eqb_neq in El.
      assert (Hsome : @filter srec (s_sel f q p) (c_sreg st) <> []) by (apply (filter_neg_some (s_sel f q p)); exact El).
      rewrite (nonempty_true _ Hsome). simp_out.
      split; [apply inv_set_adapters; auto; apply inv_a_unregS; apply (inv_A _ I)
             | split; [|split; [reflexivity|]]].
      + repeat split; cbn; auto.
      + rewrite map_length, andb_true_r. intros Hb. apply negb_true_iff in Hb.
        destruct (single_of_short _ Hsome Hb) as [e He].
        unfold events_ok. simp_out. rewrite He.
        assert (Hin : In e (filter (s_sel f q p) (c_sreg st))) by (rewrite He; left; auto).
        apply filter_In in Hin. destruct Hin as [_ Hsel].
        destruct e as [[[q' p'] f'] i']. cbn in Hsel |- *.
        rewrite (lspec_eqb_sym q q'), (Nat.eqb_sym p p'), Hsel. reflexivity.
  Qed.

  Lemma step_unregH st L f req n : inv st -> refines st L ->
    step_claim st L (UnregHandler f req n).
  Proof.
    intros I R. unfold step_claim, benign. cbn [cstep spec_step multi_removal adapter_overwrite negb andb].
    unfold unregisterHandler, conv_req.
    assert (R0 := R). destruct R as [Ru [Ra [Rs Rh]]].
    destruct (negb (Nat.eqb n 0)); [unchanged I R0|].
    set (q := map conv req). rewrite Rh.
    change (fun e => negb (hnd_match f q e)) with (fun r => negb (h_sel f q r)).
    match goal with |- context [Nat.eqb (length ?a) (length ?b)] => destruct (Nat.eqb (length a) (length b)) eqn:El end.
    - apply Nat.eqb_eq in El.
      assert (Hnone : @filter hrec (h_sel f q) (c_hreg st) = []) by (apply (filter_neg_all (h_sel f q)); exact El).
      assert (Hall : @filter hrec (fun r => negb (h_sel f q r)) (c_hreg st) = c_hreg st) by (apply filter_length_eq; exact El).
      rewrite Hnone, Hall. simp_out.
      split; [exact I | split; [|split; [reflexivity | intros _; reflexivity]]].
      repeat split; cbn; auto.
    - apply Nat.eqb_neq in El.
      assert (Hsome : @filter hrec (h_sel f q) (c_hreg st) <> []) by (apply (filter_neg_some (h_sel f q)); exact El).
      rewrite (nonempty_true _ Hsome). simp_out.
      split; [apply inv_set_adapters; auto; apply inv_a_unregH; apply (inv_A _ I)
             | split; [|split; [reflexivity|]]].
      + repeat split; cbn; auto.
      + rewrite map_length, andb_true_r. intros Hb. apply negb_true_iff in Hb.
        destruct (single_of_short _ Hsome Hb) as [e He].
        unfold events_ok. simp_out. rewrite He.
        assert (Hin : In e (filter (h_sel f q) (c_hreg st))) by (rewrite He; left; auto).
        apply filter_In in Hin. destruct Hin as [_ Hsel].
        destruct e as [[q' f'] i']. cbn in Hsel |- *.
        rewrite (lspec_eqb_sym q q'), Hsel. reflexivity.
  Qed.

  Theorem step_ok st L o : inv st -> refines st L -> ok_op cls o = true -> step_claim st L o.
  Proof.
    intros I R Hok. destruct o; cbn in Hok.
    - now apply step_regU.
    - now apply step_unregU.
    - now apply step_regA.
    - now apply step_unregA.
    - now apply step_regS.
    - now apply step_unregS.
    - now apply step_regH.
    - now apply step_unregH.
    - unchanged I R.
    - unfold step_claim. cbn. split; [apply inv_init | split; [apply refines_init | split; [reflexivity | intros _; reflexivity]]].
  Qed.

  (* ---- histories *)
  Lemma reach_from ops : forall st L, inv st -> refines st L -> forallb (ok_op cls) ops = true ->
    inv (fold_left (fun s o => st_of (cstep s o)) ops st)
    /\ refines (fold_left (fun s o => st_of (cstep s o)) ops st)
               (fold_left (fun L o => o_ledger (spec_step L o)) ops L).
  Proof.
    induction ops as [|o ops IH]; cbn; intros st L I R Hok; auto.
    apply andb_true_iff in Hok. destruct Hok as [Ho Hops].
    destruct (step_ok st L o I R Ho) as [I' [R' _]]. apply IH; auto.
  Qed.

  Theorem reach ops : forallb (ok_op cls) ops = true ->
    inv (final W hashable ops) /\ refines (final W hashable ops) (ledger_of ops).
  Proof. intros H. apply reach_from; auto using inv_init, refines_init. Qed.
End Refinement.

(* ================================================================== Part 6: the property lemmas *)
Lemma ltb_length_existsb {A} (f : A -> bool) (l : list A) : Nat.ltb 0 (length (filter f l)) = existsb f l.
Proof. induction l as [|x l IH]; cbn; auto. destruct (f x); cbn; auto. Qed.

Lemma listing_u (U : ureg_t) :
  map (fun kv => let '((p, n), (c, i, f)) := kv in RU p n c i f) U = map rec_u (map u_of U).
Proof. rewrite map_map. apply map_ext. intros [[p n] [[c i] f]]. reflexivity. Qed.
Lemma listing_a (A : areg_t) :
  map (fun kv => let '((r, p, n), (f, i)) := kv in RA r p n f i) A = map rec_a (map a_of A).
Proof. rewrite map_map. apply map_ext. intros [[[q p] n] [f i]]. reflexivity. Qed.

Lemma util_regs_listing (U : ureg_t) : util_regs (map rec_u (map u_of U)) = map ukv U.
Proof. unfold util_regs. induction U as [|[[p n] [[c i] f]] U IH]; cbn; auto. now rewrite IH. Qed.
Lemma adapter_regs_listing (A : areg_t) : adapter_regs (map rec_a (map a_of A)) = vmap fst A.
Proof. unfold adapter_regs, vmap. induction A as [|[[[q p] n] [f i]] A IH]; cbn; auto. f_equal. exact IH. Qed.
Lemma util_has_listing (U : ureg_t) p c : util_has (map rec_u (map u_of U)) p c = Nat.ltb 0 (ucount U p c).
Proof.
  unfold ucount. rewrite ltb_length_existsb. unfold util_has.
  induction U as [|[[p' n] [[c' i] f]] U IH]; cbn; auto. now rewrite IH.
Qed.
Lemma sub_facs_s (S : sreg_t) q p : sub_facs (map rec_s S) q (Some p) = map s_fac (filter (s_keyb q p) S).
Proof.
  unfold sub_facs. induction S as [|[[[q' p'] f] i] S IH]; cbn; auto.
  destruct (lspec_eqb q' q && Nat.eqb p' p); cbn; now rewrite IH.
Qed.
Lemma sub_facs_h (H : hreg_t) q : sub_facs (map rec_h H) q None = map h_fac (filter (h_keyb q) H).
Proof.
  unfold sub_facs. induction H as [|[[q' f] i] H IH]; cbn; auto.
  destruct (lspec_eqb q' q); cbn; now rewrite IH.
Qed.

Section PropertyLemmas.
  Variable W : world.
  Variable hashable : value -> bool.
  Variable cls : nat -> nat.
  Hypothesis hash_cls : forall a b, veq a = veq b -> hashable a = hashable b.
  Notation okv := (okv cls).
  Notation final := (final W hashable).
  Notation cstep := (cstep W hashable).

  Lemma listings_of st L : refines st L ->
    registeredUtilities st = map rec_u (l_u L) /\ registeredAdapters st = map rec_a (l_a L) /\
    registeredSubscriptionAdapters st = map rec_s (l_s L) /\ registeredHandlers st = map rec_h (l_h L).
  Proof.
    intros [Ru [Ra [Rs Rh]]].
    unfold registeredUtilities, registeredAdapters, registeredSubscriptionAdapters, registeredHandlers.
    rewrite Ru, Ra, Rs, Rh, listing_u, listing_a. repeat split.
  Qed.

  Theorem listings_exact_lemma ops : forallb (ok_op cls) ops = true ->
    registeredUtilities (final ops) = map rec_u (l_u (ledger_of ops)) /\
    registeredAdapters (final ops) = map rec_a (l_a (ledger_of ops)) /\
    registeredSubscriptionAdapters (final ops) = map rec_s (l_s (ledger_of ops)) /\
    registeredHandlers (final ops) = map rec_h (l_h (ledger_of ops)).
  Proof. intros H. destruct (reach W hashable cls hash_cls ops H) as [_ R]. now apply listings_of. Qed.

  Theorem registries_determined_lemma ops : forallb (ok_op cls) ops = true ->
    let st := final ops in
    adapters (c_utils st) = util_regs (registeredUtilities st)
    /\ (forall k, (forall p, k <> ([], Some p)) -> sub_leaf (c_utils st) k = [])
    /\ (forall p, nodupeq (sub_leaf (c_utils st) ([], Some p))
                  /\ forall c, okv c = true ->
                       existsb (fun x => v_eq x c) (sub_leaf (c_utils st) ([], Some p))
                       = util_has (registeredUtilities st) p c)
    /\ adapters (c_adapters st) = adapter_regs (registeredAdapters st)
    /\ (forall q p, sub_leaf (c_adapters st) (q, Some p) = sub_facs (registeredSubscriptionAdapters st) q (Some p))
    /\ (forall q, sub_leaf (c_adapters st) (q, None) = sub_facs (registeredHandlers st) q None).
  Proof.
    intros H st. destruct (reach W hashable cls hash_cls ops H) as [[IU IA] R]. fold st in IU, IA, R.
    destruct (listings_of st _ R) as [Lu [La [Ls Lh]]]. destruct R as [Ru [Ra [Rs Rh]]].
    rewrite Lu, La, Ls, Lh, Ru, Ra, Rs, Rh.
    split; [rewrite util_regs_listing; apply (iu_adapters _ _ _ _ _ IU)|].
    split; [apply (iu_other _ _ _ _ _ IU)|].
    split; [intros p; split; [apply (iu_leaf_nodup _ _ _ _ _ IU p)|]|].
    { intros c Hc. rewrite util_has_listing. apply (iu_leaf _ _ _ _ _ IU p c Hc). }
    split; [rewrite adapter_regs_listing; apply (ia_adapters _ _ _ _ _ IA)|].
    split; [intros q p; rewrite sub_facs_s; apply (ia_sleaf _ _ _ _ _ IA)|].
    intros q. rewrite sub_facs_h. apply (ia_hleaf _ _ _ _ _ IA).
  Qed.

  (* the probe: every listed utility is registered and subscribed *)
  Lemma probe_fold (u : reg) (U l : ureg_t) acc :
    (forall kv, In kv l -> (exists v', registered u [] (uprov kv) (uname kv) = Some v' /\ v_eq v' (ucomp kv) = true)
                           /\ subscribed u [] (Some (uprov kv)) (ucomp kv) = true) ->
    fold_left (fun acc kv =>
                 let '(nr, dr, ns, ds) := acc in
                 let '((p, n), (v, _, _)) := kv in
                 let ok_reg := match registered u [] p n with Some v' => v_eq v' v | None => false end in
                 let ok_sub := subscribed u [] (Some p) v in
                 ((if ok_reg then nr else S nr), (if ok_reg then S dr else dr),
                  (if ok_sub then ns else S ns), (if ok_sub then S ds else ds))) l acc
    = let '(nr, dr, ns, ds) := acc in (nr, dr + length l, ns, ds + length l).
  Proof.
    revert acc. induction l as [|[[p n] [[v i] f]] l IH]; intros [[[nr dr] ns] ds] Hl; cbn [fold_left length].
    - now rewrite !Nat.add_0_r.
    - destruct (Hl ((p, n), (v, i, f)) (or_introl eq_refl)) as [[v' [H1 H1']] H2].
      unfold uprov, uname, ucomp in H1, H1', H2. cbn [fst snd] in H1, H1', H2.
      rewrite H1, H1', H2. rewrite IH by (intros kv Hkv; apply Hl; right; auto).
      rewrite <- !plus_n_Sm. reflexivity.
  Qed.

  Theorem probe_lemma ops : forallb (ok_op cls) ops = true ->
    probe (final ops) = (0, length (registeredUtilities (final ops)), 0, length (registeredUtilities (final ops))).
  Proof.
    intros H. destruct (reach W hashable cls hash_cls ops H) as [[IU IA] R].
    unfold probe, registeredUtilities. rewrite map_length.
    rewrite (probe_fold (c_utils (final ops)) (c_ureg (final ops))); auto.
    intros kv Hkv. split.
    - exists (ucomp kv). split; [|apply v_eq_refl].
      unfold registered. cbn [map]. rewrite (iu_adapters _ _ _ _ _ IU).
      destruct kv as [[p n] [[c i] f]]. unfold uprov, uname, ucomp. cbn [fst snd].
      rewrite aget_ukv, (In_aget _ pn_eqb_eq _ _ _ (iu_keys _ _ _ _ _ IU) Hkv). reflexivity.
    - unfold subscribed. cbn [map].
      pose proof (iu_ok _ _ _ _ _ IU) as HU. unfold uok in HU. rewrite Forall_forall in HU.
      pose proof (iu_leaf _ _ _ _ _ IU (uprov kv) (ucomp kv) (HU _ Hkv)) as Hl. unfold leaf in Hl.
      rewrite Hl. apply Nat.ltb_lt. apply (ucount_pos _ kv); auto. apply v_eq_refl.
  Qed.

  Theorem events_partial_lemma ops o : forallb (ok_op cls) ops = true -> ok_op cls o = true ->
    benign (ledger_of ops) o = true ->
    events_ok (evs_of (cstep (final ops) o)) o (spec_step (ledger_of ops) o) = true.
  Proof.
    intros H Ho Hb. destruct (reach W hashable cls hash_cls ops H) as [I R].
    destruct (step_ok W hashable cls hash_cls _ _ o I R Ho) as [_ [_ [_ He]]]. auto.
  Qed.

  Theorem returns_lemma ops o : forallb (ok_op cls) ops = true -> ok_op cls o = true ->
    ret_of (cstep (final ops) o) = o_ret (spec_step (ledger_of ops) o).
  Proof.
    intros H Ho. destruct (reach W hashable cls hash_cls ops H) as [I R].
    destruct (step_ok W hashable cls hash_cls _ _ o I R Ho) as [_ [_ [Hr _]]]. auto.
  Qed.

  Lemma spec_unregister_ret L o : is_unregister o = true ->
    o_ret (spec_step L o) = RTypeError \/ o_ret (spec_step L o) = RBool (nonempty (o_removed (spec_step L o))).
  Proof.
    destruct o; cbn [is_unregister]; try discriminate; intros _; cbn [spec_step].
    - destruct (find _ _) as [[[[[p0 n0] oc] oi] of]|]; [destruct (match c with Some _ => _ | None => _ end)|]; cbn; auto.
    - destruct (find _ _) as [[[[[q0 p0] n0] of] oi]|]; [destruct (f_sel f of)|]; cbn; auto.
    - destruct (negb (Nat.eqb n 0)); cbn; auto. right. f_equal.
      destruct (filter _ _); reflexivity.
    - destruct (negb (Nat.eqb n 0)); cbn; auto. right. f_equal.
      destruct (filter _ _); reflexivity.
  Qed.

  Theorem unregister_returns_lemma ops o : forallb (ok_op cls) ops = true -> ok_op cls o = true ->
    is_unregister o = true ->
    ret_of (cstep (final ops) o) = RTypeError
    \/ ret_of (cstep (final ops) o) = RBool (nonempty (o_removed (spec_step (ledger_of ops) o))).
  Proof. intros H Ho Hu. rewrite (returns_lemma ops o H Ho). now apply spec_unregister_ret. Qed.

  Theorem replace_order_lemma ops c p n i f ev : forallb (ok_op cls) ops = true -> okv c = true ->
    let st := final ops in
    (forall oc oi of, In (RU p n oc oi of) (registeredUtilities st) ->
       if v_eq oc c && Nat.eqb oi i
       then cstep st (RegUtility c p n i f ev) = (st, RNone, [])
       else evs_of (cstep st (RegUtility c p n i f ev))
            = Unregistered (RU p n oc oi of) :: (if ev then [Registered (RU p n c i f)] else []))
    /\ ((forall oc oi of, ~ In (RU p n oc oi of) (registeredUtilities st)) ->
        evs_of (cstep st (RegUtility c p n i f ev)) = if ev then [Registered (RU p n c i f)] else []).
  Proof.
    intros H Hc st. destruct (reach W hashable cls hash_cls ops H) as [I R]. fold st in I, R.
    assert (Hlist : forall oc oi of, In (RU p n oc oi of) (registeredUtilities st) <->
                                      aget pn_eqb (c_ureg st) (p, n) = Some (oc, oi, of)).
    { intros oc oi of. unfold registeredUtilities. split.
      - intros Hin. apply in_map_iff in Hin. destruct Hin as [[[p' n'] [[c' i'] f']] [E Hin]].
        injection E as -> -> -> -> ->.
        apply (In_aget _ pn_eqb_eq); auto. apply (iu_keys _ _ _ _ _ (inv_U _ _ _ I)).
      - intros Hget. apply (aget_In _ pn_eqb_eq) in Hget. apply in_map_iff.
        exists ((p, n), (oc, oi, of)). auto. }
    split.
    - intros oc oi of Hin. apply Hlist in Hin. cbn [Components.cstep]. unfold registerUtility. rewrite Hin.
      destruct (v_eq oc c && Nat.eqb oi i); [reflexivity|].
      assert (Hoc : okv oc = true).
      { pose proof (iu_ok _ _ _ _ _ (inv_U _ _ _ I)) as HU. unfold uok in HU. rewrite Forall_forall in HU.
        apply (HU _ (aget_In _ pn_eqb_eq _ _ _ Hin)). }
      unfold unregisterUtility. rewrite Hin, v_eq_refl. cbn [negb].
      destruct (unreg_live W hashable cls hash_cls st _ p n oc oi of oc I R Hin Hoc (v_eq_refl oc))
        as [st1 [E _]].
      rewrite E. reflexivity.
    - intros Hnone. cbn [Components.cstep]. unfold registerUtility.
      destruct (aget pn_eqb (c_ureg st) (p, n)) as [[[oc oi] of]|] eqn:Hget; [|reflexivity].
      exfalso. apply (Hnone oc oi of). now apply Hlist.
  Qed.
End PropertyLemmas.

(* ================================================================== Part 7: computed witnesses *)
Definition W0 : world := mkW (fun x => if Nat.eqb x 0 then [0] else [x; 0]) (fun _ => true).
Definition hashable0 (v : value) : bool := negb (Nat.eqb (veq v) 5).
Definition cls0 (i : nat) : nat := match i with 1 | 2 => 1 | 5 | 6 => 5 | _ => i end.

Lemma hashable0_cls : forall a b, veq a = veq b -> hashable0 a = hashable0 b.
Proof. intros a b E. unfold hashable0. now rewrite E. Qed.

(* F9: the same subscription adapter registered twice, unregistered once: two registrations
   removed, one event *)
Definition f9_ops : list cop := [RegSub (mkV 1 1) [Some 1] 2 0 0 true; RegSub (mkV 1 1) [Some 1] 2 0 0 true].
Definition f9_op : cop := UnregSub (Some (mkV 1 1)) [Some 1] 2 0.

Lemma f9_witness :
  forallb (ok_op cls0) f9_ops = true /\ ok_op cls0 f9_op = true /\
  multi_removal (ledger_of f9_ops) f9_op = true /\
  length (o_removed (spec_step (ledger_of f9_ops) f9_op)) = 2 /\
  evs_of (cstep W0 hashable0 (final W0 hashable0 f9_ops) f9_op) = [Unregistered (RS [1] 2 (Some (mkV 1 1)) 0)] /\
  events_ok (evs_of (cstep W0 hashable0 (final W0 hashable0 f9_ops) f9_op)) f9_op (spec_step (ledger_of f9_ops) f9_op) = false.
Proof. vm_compute. repeat split. Qed.

(* F11: registerAdapter over a live key: the displaced registration gets no Unregistered event *)
Definition f11_ops : list cop := [RegAdapter (mkV 1 1) [Some 1] 2 0 0 true].
Definition f11_op : cop := RegAdapter (mkV 3 3) [Some 1] 2 0 1 true.

Lemma f11_witness :
  forallb (ok_op cls0) f11_ops = true /\ ok_op cls0 f11_op = true /\
  adapter_overwrite (ledger_of f11_ops) f11_op = true /\
  o_removed (spec_step (ledger_of f11_ops) f11_op) = [RA [1] 2 0 (mkV 1 1) 0] /\
  evs_of (cstep W0 hashable0 (final W0 hashable0 f11_ops) f11_op) = [Registered (RA [1] 2 0 (mkV 3 3) 1)] /\
  events_ok (evs_of (cstep W0 hashable0 (final W0 hashable0 f11_ops) f11_op)) f11_op (spec_step (ledger_of f11_ops) f11_op) = false.
Proof. vm_compute. repeat split. Qed.

Theorem events_exact_refuted_lemma :
  ~ (forall (W : world) (hashable : value -> bool) (cls : nat -> nat),
       (forall a b, veq a = veq b -> hashable a = hashable b) ->
       forall ops o, forallb (ok_op cls) ops = true -> ok_op cls o = true ->
       events_ok (evs_of (cstep W hashable (final W hashable ops) o)) o (spec_step (ledger_of ops) o) = true).
Proof.
  intros H. specialize (H W0 hashable0 cls0 hashable0_cls f9_ops f9_op eq_refl eq_refl).
  destruct f9_witness as [_ [_ [_ [_ [_ E]]]]]. congruence.
Qed.

Theorem events_refuted_multi_lemma :
  exists W hashable cls ops o,
    (forall a b, veq a = veq b -> hashable a = hashable b) /\
    forallb (ok_op cls) ops = true /\ ok_op cls o = true /\
    multi_removal (ledger_of ops) o = true /\
    events_ok (evs_of (cstep W hashable (final W hashable ops) o)) o (spec_step (ledger_of ops) o) = false.
Proof.
  exists W0, hashable0, cls0, f9_ops, f9_op. split; [exact hashable0_cls|].
  destruct f9_witness as [H1 [H2 [H3 [_ [_ H4]]]]]. auto.
Qed.

Theorem events_refuted_overwrite_lemma :
  exists W hashable cls ops o,
    (forall a b, veq a = veq b -> hashable a = hashable b) /\
    forallb (ok_op cls) ops = true /\ ok_op cls o = true /\
    adapter_overwrite (ledger_of ops) o = true /\
    events_ok (evs_of (cstep W hashable (final W hashable ops) o)) o (spec_step (ledger_of ops) o) = false.
Proof.
  exists W0, hashable0, cls0, f11_ops, f11_op. split; [exact hashable0_cls|].
  destruct f11_witness as [H1 [H2 [H3 [_ [_ H4]]]]]. auto.
Qed.

(* a history that exercises the counting cache: equal and unhashable components under several
   names, a replacement, removals; adapters, subscription adapters and handlers *)
Definition ex_ops : list cop :=
  [RegUtility (mkV 1 1) 3 0 0 None true; RegUtility (mkV 2 1) 3 1 0 None true; RegUtility (mkV 5 5) 3 2 1 (Some 7) false;
   RegUtility (mkV 6 5) 3 0 0 None true; UnregUtility (Some (mkV 1 1)) 3 1;
   RegAdapter (mkV 3 3) [Some 1; None] 2 1 0 true; RegSub (mkV 4 4) [Some 1] 2 0 0 false; RegSub (mkV 3 3) [Some 1] 2 0 1 true;
   RegHandler (mkV 4 4) [None] 0 0 true; UnregAdapter None [Some 1; None] 2 1].
Definition ex_op : cop := UnregSub None [Some 1] 3 0.
Definition ex_op2 : cop := UnregSub (Some (mkV 4 4)) [Some 1] 2 0.

(* F13: the first component of a ==-class stays subscribed after it has been unregistered, as
   long as an equal one is registered under the same provided interface *)
Definition f13_ops : list cop :=
  [RegUtility (mkV 1 1) 3 0 0 None true; RegUtility (mkV 2 1) 3 1 0 None true; UnregUtility (Some (mkV 1 1)) 3 0].

Lemma f13_witness :
  forallb (ok_op cls0) f13_ops = true /\
  registeredUtilities (final W0 hashable0 f13_ops) = [RU 3 1 (mkV 2 1) 0 None] /\
  getAllUtilitiesRegisteredFor W0 (final W0 hashable0 f13_ops) 3 = [mkV 1 1].
Proof. vm_compute. repeat split. Qed.

Theorem stale_utility_lemma :
  exists W hashable cls ops p v,
    (forall a b, veq a = veq b -> hashable a = hashable b) /\ forallb (ok_op cls) ops = true /\
    In v (getAllUtilitiesRegisteredFor W (final W hashable ops) p) /\
    forall p' n c i f, In (RU p' n c i f) (registeredUtilities (final W hashable ops)) -> vid c <> vid v.
Proof.
  exists W0, hashable0, cls0, f13_ops, 3, (mkV 1 1). split; [exact hashable0_cls|].
  destruct f13_witness as [H1 [H2 H3]]. split; [exact H1|]. rewrite H2, H3. split; [left; reflexivity|].
  intros p' n c i f [E|[]]. inversion E. cbn. discriminate.
Qed.
