(* The kernel regenerated from declarations.py (Gen/DeclKernel.v) equals the model of
   Model/Decl.v on embedded states. *)
From Coq Require Import List Arith Bool Lia.
Import ListNotations.
From ZI Require Import Lib.Util Model.Decl Model.DeclKernelPrims Proofs.Decl Gen.DeclKernel.

(* ------------------------------------------------------------------ equality tests *)
Lemma lnat_eqb_eq a b : lnat_eqb a b = true <-> a = b.
Proof. apply list_eqb_eq. apply Nat.eqb_eq. Qed.

Lemma node_eqb_eq a b : node_eqb a b = true <-> a = b.
Proof.
  destruct a, b; cbn; try (split; congruence);
    try (rewrite Nat.eqb_eq; split; congruence); rewrite lnat_eqb_eq; split; congruence.
Qed.
Lemma node_eqb_refl a : node_eqb a a = true.
Proof. apply node_eqb_eq; auto. Qed.
Lemma kclsref_eqb_eq a b : kclsref_eqb a b = true <-> a = b.
Proof.
  destruct a, b; cbn; try (split; congruence);
    try (rewrite Nat.eqb_eq; split; congruence); rewrite lnat_eqb_eq; split; congruence.
Qed.
Lemma lnode_eqb_eq a b : lnode_eqb a b = true <-> a = b.
Proof. apply list_eqb_eq. apply node_eqb_eq. Qed.
Lemma kkey_eqb_eq a b : kkey_eqb a b = true <-> a = b.
Proof.
  destruct a as [a1 a2], b as [b1 b2]. unfold kkey_eqb. cbn.
  rewrite andb_true_iff, kclsref_eqb_eq, lnode_eqb_eq. split; [intros [-> ->]; auto|intros E; inversion E; auto].
Qed.
Lemma kkey_eqb_refl a : kkey_eqb a a = true.
Proof. apply kkey_eqb_eq; auto. Qed.
Lemma lnode_eqb_refl a : lnode_eqb a a = true.
Proof. apply lnode_eqb_eq; auto. Qed.

Lemma map_NI_inj a b : map NI a = map NI b -> a = b.
Proof.
  revert b; induction a as [|x a IH]; intros [|y b] H; cbn in H; try discriminate; auto.
  inversion H. f_equal; auto.
Qed.

Lemma lnode_eqb_map_NI a b : lnode_eqb (map NI a) (map NI b) = lnat_eqb a b.
Proof.
  destruct (lnat_eqb a b) eqn:E.
  - apply (list_eqb_eq Nat.eqb Nat.eqb_eq) in E. subst. apply lnode_eqb_refl.
  - destruct (lnode_eqb (map NI a) (map NI b)) eqn:E2; auto.
    apply lnode_eqb_eq in E2. apply map_NI_inj in E2. subst.
    assert (lnat_eqb b b = true) by (apply (list_eqb_eq Nat.eqb Nat.eqb_eq); auto). congruence.
Qed.

(* ------------------------------------------------------------------ list helpers *)
Lemma map_upd {A B} (f : A -> B) l n x : map f (upd l n x) = upd (map f l) n (f x).
Proof. revert n; induction l as [|h t IH]; intros [|n]; cbn; auto. f_equal; auto. Qed.

Lemma filter_map {A B} (f : A -> B) (p : B -> bool) l : filter p (map f l) = map f (filter (fun x => p (f x)) l).
Proof. induction l as [|x l IH]; cbn; auto. destruct (p (f x)); cbn; rewrite IH; auto. Qed.

Lemma filter_filter_comm {A} (p q : A -> bool) l : filter p (filter q l) = filter q (filter p l).
Proof.
  induction l as [|x l IH]; cbn; auto. destruct (q x) eqn:Q, (p x) eqn:P; cbn; rewrite ?Q, ?P, IH; auto.
Qed.

Lemma p_in_In x l : p_in x l = true <-> In x l.
Proof.
  unfold p_in. rewrite existsb_exists. split.
  - intros [y [Hy E]]. apply node_eqb_eq in E. subst. auto.
  - intros H. exists x. split; auto. apply node_eqb_refl.
Qed.

Lemma p_in_app x a b : p_in x (a ++ b) = p_in x a || p_in x b.
Proof. unfold p_in. apply existsb_app. Qed.

Lemma p_in_map_NI x l : p_in (NI x) (map NI l) = mem_nat x l.
Proof. induction l as [|y l IH]; cbn; auto. rewrite <- IH. auto. Qed.

Lemma p_in_NC_map_NI c l : p_in (NC c) (map NI l) = false.
Proof. induction l; cbn; auto. Qed.

(* keep-first dedupe *)
Lemma filter_drop_neq (p : node -> bool) x m :
  p x = false -> filter p (filter (fun y => negb (node_eqb y x)) m) = filter p m.
Proof.
  intros P. induction m as [|y m IH]; cbn [filter]; auto.
  destruct (node_eqb y x) eqn:E; cbn [negb filter].
  - apply node_eqb_eq in E. subst. rewrite P. auto.
  - destruct (p y); rewrite IH; auto.
Qed.

Lemma kdedup_filter (p : node -> bool) l : kdedup (filter p l) = filter p (kdedup l).
Proof.
  induction l as [|x l IH]; cbn [filter kdedup]; auto.
  destruct (p x) eqn:P; cbn [kdedup filter]; rewrite ?P, IH.
  - f_equal. apply filter_filter_comm.
  - symmetry. apply filter_drop_neq. auto.
Qed.

Lemma kdedup_map_NI l : kdedup (map NI l) = map NI (dedup l).
Proof.
  induction l as [|x l IH]; cbn; auto. f_equal. rewrite IH, filter_map. auto.
Qed.

Lemma filter_id_on {A} (p : A -> bool) l : (forall x, In x l -> p x = true) -> filter p l = l.
Proof. induction l as [|x l IH]; cbn; auto. intros H. rewrite (H x) by auto. f_equal. apply IH. auto. Qed.

Lemma In_kdedup x l : In x (kdedup l) <-> In x l.
Proof.
  induction l as [|y l IH]; cbn [kdedup]; [tauto|]. cbn [In]. rewrite filter_In, IH, negb_true_iff.
  destruct (node_eqb x y) eqn:E.
  - apply node_eqb_eq in E. subst. tauto.
  - split; [tauto|]. intros [H|H]; auto.
Qed.

Lemma kdedup_idem l : kdedup (kdedup l) = kdedup l.
Proof.
  induction l as [|x l IH]; cbn [kdedup]; auto. f_equal.
  rewrite kdedup_filter, IH. apply filter_id_on.
  intros y Hy. apply filter_In in Hy. tauto.
Qed.

(* the dedupe loop of _classImplements_ordered *)
Definition dd (nd : list node) (l : list node) : list node :=
  fold_left (fun nd b => if p_in b nd then nd else nd ++ [b]) l nd.

Lemma filter_notin_snoc nd b l :
  filter (fun x => negb (p_in x (nd ++ [b]))) l =
  filter (fun y => negb (node_eqb y b)) (filter (fun x => negb (p_in x nd)) l).
Proof.
  induction l as [|y l IH]; cbn [filter]; auto.
  rewrite p_in_app. unfold p_in at 2. cbn [existsb]. rewrite orb_false_r.
  destruct (p_in y nd) eqn:Ey; cbn [orb negb filter]; auto.
  destruct (node_eqb y b) eqn:Eb; cbn [negb]; rewrite IH; auto.
Qed.

Lemma dd_spec l : forall nd, dd nd l = nd ++ kdedup (filter (fun x => negb (p_in x nd)) l).
Proof.
  induction l as [|b l IH]; intros nd; unfold dd; cbn [fold_left filter kdedup]; [rewrite app_nil_r; auto|].
  fold (dd (if p_in b nd then nd else nd ++ [b]) l). destruct (p_in b nd) eqn:E; cbn [negb].
  - apply IH.
  - rewrite IH. cbn [kdedup]. rewrite <- app_assoc. cbn [app]. f_equal. f_equal.
    rewrite <- kdedup_filter. f_equal. apply filter_notin_snoc.
Qed.

Lemma dd_nil l : dd [] l = kdedup l.
Proof.
  rewrite dd_spec. cbn [app]. f_equal. apply filter_id_on. intros; auto.
Qed.

(* ------------------------------------------------------------------ embedded states *)
Lemma nth_error_embed_cls cs c : nth_error (map embed_cls cs) c = option_map embed_cls (nth_error cs c).
Proof. apply nth_error_map. Qed.

Lemma flat_map_map {A B C} (f : A -> B) (h : B -> list C) l : flat_map h (map f l) = flat_map (fun x => h (f x)) l.
Proof. induction l; cbn; auto. f_equal; auto. Qed.

Lemma flat_map_flat_map {A B C} (h : A -> list B) (k : B -> list C) l :
  flat_map k (flat_map h l) = flat_map (fun x => flat_map k (h x)) l.
Proof. induction l; cbn; auto. rewrite flat_map_app. f_equal; auto. Qed.

Lemma kflat_NI g kcs f i : kflat_f g kcs f (NI i) = ups g i.
Proof. destruct f; auto. Qed.

Lemma kflat_embed g cs f : forall c, same (kflat_f g (map embed_cls cs) f (NC c)) (closure g (cdirect_f cs f c)).
Proof.
  induction f as [|f IH]; intros c; cbn [kflat_f cdirect_f]; [apply same_refl|].
  rewrite nth_error_embed_cls. destruct (nth_error cs c) as [r|]; cbn [option_map]; [|apply same_refl].
  cbn [embed_cls kc_bases]. unfold spec_bases, closure. rewrite !flat_map_app.
  apply same_app.
  - rewrite flat_map_map. erewrite flat_map_ext; [apply same_refl|]. intros; apply kflat_NI.
  - destruct (c_inherit r); [|apply same_refl]. rewrite flat_map_map, flat_map_flat_map.
    eapply same_trans; [apply same_flat_map_arg, same_dedup|].
    apply same_flat_map. intros b _. apply IH.
Qed.

Lemma isOrExtends_embed g st x c d :
  p_isOrExtends g (embed_exc st x) (NC c) (NI d) = implied_by (cflat g st c) d.
Proof.
  unfold p_isOrExtends, implied_by. cbn [kfuel embed_exc kclasses]. f_equal. apply mem_nat_same. apply kflat_embed.
Qed.

(* ------------------------------------------------------------------ _add_interfaces_to_cls *)
Lemma generated_add_interfaces_to_cls_eq g st x l d :
  gen_add_interfaces_to_cls g (embed_exc st x) (map NI l) (RClass d) = map NI (keepnew (cflat g st d) l) ++ [NC d].
Proof.
  unfold gen_add_interfaces_to_cls. cbn [p_implementedBy]. f_equal.
  rewrite filter_map. f_equal. unfold keepnew. apply filter_ext. intros a.
  rewrite isOrExtends_embed. auto.
Qed.

Lemma generated_add_interfaces_to_cls_meta g s l m :
  gen_add_interfaces_to_cls g s (map NI l) (meta_ref m) =
  map NI (keepnew (closure g (match m with Some x => x | None => [] end)) l) ++ [p_implementedBy (meta_ref m)].
Proof.
  unfold gen_add_interfaces_to_cls. f_equal. rewrite filter_map. f_equal. unfold keepnew.
  apply filter_ext. intros a. destruct m; reflexivity.
Qed.

(* ------------------------------------------------------------------ Provides.changed *)
Lemma generated_Provides_changed_eq g s self o :
  gen_Provides_changed g s self o =
  if p_origin_is o self then s
  else if p_opt_is (p_cache_get s (fst self)) self then p_cache_del s (fst self) else s.
Proof.
  unfold gen_Provides_changed, p_super_changed, p_args.
  destruct (p_origin_is o self); cbn [negb]; auto.
Qed.

(* ------------------------------------------------------------------ notification = eviction *)
Lemma existsb_map {A B} (f : A -> B) (p : B -> bool) l : existsb p (map f l) = existsb (fun x => p (f x)) l.
Proof. induction l; cbn; auto. f_equal; auto. Qed.

Lemma existsb_false_all {A} (p : A -> bool) l : (forall x, p x = false) -> existsb p l = false.
Proof. intros H. induction l; cbn; auto. rewrite H. auto. Qed.

Lemma existsb_dedup (p : nat -> bool) l : existsb p (dedup l) = existsb p l.
Proof.
  destruct (existsb p l) eqn:E.
  - apply existsb_exists in E. destruct E as [x [Hx Px]]. apply existsb_exists. exists x. split; auto.
    apply In_dedup; auto.
  - destruct (existsb p (dedup l)) eqn:E2; auto.
    apply existsb_exists in E2. destruct E2 as [x [Hx Px]]. rewrite In_dedup in Hx.
    assert (existsb p l = true) by (apply existsb_exists; exists x; auto). congruence.
Qed.

Definition bases_match (k : kcls) (r : crec) : Prop := kc_bases k = spec_bases r.

Lemma kdepends_match kcs cs c : Forall2 bases_match kcs cs ->
  forall f d, kdepends_f kcs f d c = depends_f cs f d c.
Proof.
  intros H. induction f as [|f IH]; intros d; cbn [kdepends_f depends_f]; auto.
  apply (f_equal (orb (Nat.eqb d c))).
  destruct (nth_error cs d) as [r|] eqn:E.
  - destruct (Forall2_nth_r _ _ _ _ _ H E) as [k [Ek Hk]]. rewrite Ek, Hk. unfold spec_bases.
    rewrite existsb_app, existsb_map. rewrite existsb_false_all by auto. cbn [orb].
    destruct (c_inherit r); cbn [andb existsb]; auto.
    rewrite existsb_map, existsb_dedup. apply existsb_ext_in. intros; apply IH.
  - assert (Ek : nth_error kcs d = None).
    { apply nth_error_None. apply nth_error_None in E. rewrite (F2_length _ _ _ H). auto. }
    rewrite Ek. auto.
Qed.

Lemma Forall2_map_l {A B} (P : B -> A -> Prop) (f : A -> B) l : (forall x, P (f x) x) -> Forall2 P (map f l) l.
Proof. intros H. induction l; cbn; constructor; auto. Qed.

Lemma bases_match_embed cs : Forall2 bases_match (map embed_cls cs) cs.
Proof. apply Forall2_map_l. intros; reflexivity. Qed.

Lemma kcache_lookup_app_notin k A B : ~ In k (map fst A) -> kcache_lookup k (A ++ B) = kcache_lookup k B.
Proof.
  induction A as [|[k' v] A IH]; cbn; auto. intros H.
  destruct (kkey_eqb k k') eqn:E; [apply kkey_eqb_eq in E; subst; tauto|]. apply IH. tauto.
Qed.

Lemma kcache_remove_notin k A : ~ In k (map fst A) -> kcache_remove k A = A.
Proof.
  intros H. unfold kcache_remove. apply filter_id_on. intros [k' v] Hin. cbn.
  destruct (kkey_eqb k k') eqn:E; auto. apply kkey_eqb_eq in E. subst. exfalso. apply H.
  apply in_map_iff. exists (k', v). auto.
Qed.

Lemma kcache_lookup_none_notin k A : kcache_lookup k A = None -> ~ In k (map fst A).
Proof.
  induction A as [|[k' v] A IH]; cbn; auto. destruct (kkey_eqb k k') eqn:E; [discriminate|].
  intros H [H1|H1]; [subst; rewrite kkey_eqb_refl in E; discriminate|]. apply IH; auto.
Qed.

Lemma In_map_fst_filter {A B} (p : A * B -> bool) l x : In x (map fst (filter p l)) -> In x (map fst l).
Proof.
  rewrite !in_map_iff. intros [e [He Hin]]. apply filter_In in Hin. exists e. tauto.
Qed.

Section Evict.
  Variable g : igraph.
  Variable c : cls.
  Variable DEP : cls -> bool.
  Definition dep_entry (e : kkey * list node) : bool :=
    match fst (fst e) with RClass d => DEP d | _ => false end.
  Definition notify_step (acc : kstate) (e : kkey * list node) : kstate :=
    match fst (fst e) with
    | RClass d => if DEP d then gen_Provides_changed g acc e (OClass c) else acc
    | _ => acc
    end.

  Lemma notify_fold : forall L2 L1 acc,
    NoDup (map fst (L1 ++ L2)) ->
    kcache acc = filter (fun e => negb (dep_entry e)) L1 ++ L2 ->
    fold_left notify_step L2 acc =
    mkK (kclasses acc) (kinsts acc) (filter (fun e => negb (dep_entry e)) (L1 ++ L2)) (kexc acc).
  Proof.
    induction L2 as [|e L2 IH]; intros L1 acc ND Hc; cbn [fold_left].
    - rewrite app_nil_r in *. rewrite <- Hc. destruct acc; auto.
    - assert (ND' : NoDup (map fst ((L1 ++ [e]) ++ L2))) by (rewrite <- app_assoc; auto).
      replace (L1 ++ e :: L2) with ((L1 ++ [e]) ++ L2) by (rewrite <- app_assoc; auto).
      destruct e as [[kc kl] v]. set (k := (kc, kl)) in *.
      assert (Hk1 : ~ In k (map fst L1)).
      { rewrite map_app in ND. cbn in ND. apply NoDup_remove_2 in ND. intro H. apply ND.
        apply in_or_app. auto. }
      assert (Hk2 : ~ In k (map fst L2)).
      { rewrite map_app in ND. cbn in ND. apply NoDup_remove_2 in ND. intro H. apply ND.
        apply in_or_app. auto. }
      unfold notify_step at 2. cbn [fst].
      assert (Keep : dep_entry (k, v) = false ->
                     fold_left notify_step L2 acc =
                     mkK (kclasses acc) (kinsts acc) (filter (fun e => negb (dep_entry e)) ((L1 ++ [(k, v)]) ++ L2)) (kexc acc)).
      { intros Hd. apply IH; auto. rewrite filter_app. cbn [filter]. rewrite Hd. cbn [negb].
        rewrite <- app_assoc. auto. }
      destruct kc as [| |d|ml]; try (apply Keep; reflexivity).
      cbn [fst k].
      destruct (DEP d) eqn:Ed; [|apply Keep; unfold dep_entry; cbn; auto].
      rewrite generated_Provides_changed_eq. cbn [p_origin_is fst].
      assert (Hget : p_cache_get acc k = Some (k, v)).
      { unfold p_cache_get. rewrite Hc. rewrite kcache_lookup_app_notin.
        - cbn. rewrite kkey_eqb_refl. auto.
        - intro H. apply Hk1. eapply In_map_fst_filter; eauto. }
      rewrite Hget. cbn [p_opt_is fst snd]. rewrite kkey_eqb_refl, lnode_eqb_refl. cbn [andb].
      rewrite (IH (L1 ++ [(k, v)]) (p_cache_del acc k)); auto.
      unfold p_cache_del. cbn [kcache]. rewrite Hc. unfold kcache_remove. rewrite filter_app. cbn [filter fst].
      rewrite kkey_eqb_refl. cbn [negb].
      fold (kcache_remove k (filter (fun e => negb (dep_entry e)) L1)). fold (kcache_remove k L2).
      rewrite !kcache_remove_notin; auto.
      + rewrite filter_app. cbn [filter].
        assert (Hd : dep_entry (k, v) = true) by (unfold dep_entry, k; cbn [fst]; auto).
        rewrite Hd. cbn [negb]. rewrite app_nil_r. auto.
      + intro H. apply Hk1. eapply In_map_fst_filter; eauto.
  Qed.
End Evict.

Lemma NoDup_map_embed_keys ca : NoDup (map fst ca) -> NoDup (map fst (map embed_entry ca)).
Proof.
  rewrite map_map. cbn [embed_entry fst].
  induction ca as [|[k v] ca IH]; cbn; intros H; constructor; inversion H; subst; auto.
  intro Hin. apply in_map_iff in Hin. destruct Hin as [[k' v'] [E Hin]]. cbn in E. inversion E.
  apply map_NI_inj in H4. apply H2. apply in_map_iff. exists (k', v'). split; auto.
  cbn. destruct k, k'; cbn in *; congruence.
Qed.

Definition kst (kcs : list kcls) (st : state) (x : option nat) : kstate :=
  mkK kcs (map embed_inst (insts st)) (map embed_entry (cache st)) x.

Lemma set_bases_kst g st x kcs c k bases :
  Forall2 bases_match kcs (classes st) -> nth_error kcs c = Some k -> NoDup (map fst (cache st)) ->
  p_set_bases gen_Provides_changed g (kst kcs st x) (NC c) bases =
  mkK (upd kcs c (mkKC (kc_pybases k) (kc_declared k) (kc_inherit k) bases (kc_provides k) (kc_meta k) (kc_builtin k) (kc_created k) (kc_old k)))
      (map embed_inst (insts st)) (map embed_entry (evict true (classes st) c (cache st))) x.
Proof.
  intros HM Ek ND. unfold p_set_bases, kst. cbn [kclasses kinsts kcache kexc]. rewrite Ek.
  change (fold_left _ (map embed_entry (cache st)) ?a) with
    (fold_left (notify_step g c (fun d => kdepends_f kcs (S d) d c)) (map embed_entry (cache st)) a).
  rewrite (notify_fold g c _ (map embed_entry (cache st)) []).
  - cbn [kclasses kinsts kexc app]. f_equal. rewrite filter_map. f_equal. cbn [evict].
    apply filter_ext. intros e. unfold dep_entry. cbn [embed_entry fst]. rewrite (kdepends_match _ _ c HM). auto.
  - cbn [app]. apply NoDup_map_embed_keys; auto.
  - reflexivity.
Qed.

Lemma Forall2_upd_l {A B} (P : A -> B -> Prop) l l' n a b :
  Forall2 P l l' -> nth_error l' n = Some b -> P a b -> Forall2 P (upd l n a) l'.
Proof.
  intros H; revert n; induction H; intros [|n] E Hab; cbn in *; try discriminate; auto.
  inversion E; subst. auto.
Qed.

(* the loops of _classImplements_ordered *)
Lemma fold_dedupe_gen : forall L (s : kstate) nd seen (bases : list node),
  (forall x, p_in x seen = p_in x nd) ->
  exists seen',
    fold_left (fun '(s, new_declared, seen, bases) b =>
                 let '(s, new_declared, seen, bases) :=
                   if negb (p_in b seen) then (s, new_declared ++ [b], b :: seen, bases)
                   else (s, new_declared, seen, bases) in
                 (s, new_declared, seen, bases)) L (s, nd, seen, bases) = (s, dd nd L, seen', bases) /\
    (forall x, p_in x seen' = p_in x (dd nd L)).
Proof.
  induction L as [|b L IH]; intros s nd seen bases H; cbn [fold_left].
  - exists seen. auto.
  - unfold dd. cbn [fold_left]. fold (dd (if p_in b nd then nd else nd ++ [b]) L).
    rewrite <- (H b). destruct (p_in b seen) eqn:E; cbn [negb].
    + apply IH; auto.
    + apply IH. intros x. rewrite p_in_app. unfold p_in at 1. cbn [existsb]. fold (p_in x seen).
      rewrite H. unfold p_in at 3. cbn [existsb]. rewrite orb_false_r. apply orb_comm.
Qed.

Lemma filter_notin_cons seen b (l : list node) :
  filter (fun x => negb (p_in x (b :: seen))) l =
  filter (fun y => negb (node_eqb y b)) (filter (fun x => negb (p_in x seen)) l).
Proof.
  induction l as [|y l IH]; cbn [filter]; auto.
  unfold p_in at 1. cbn [existsb]. fold (p_in y seen).
  destruct (node_eqb y b) eqn:Eb; cbn [orb negb].
  - destruct (p_in y seen); cbn [negb filter]; rewrite ?Eb; cbn [negb]; auto.
  - destruct (p_in y seen); cbn [negb filter]; rewrite ?Eb; cbn [negb]; rewrite IH; auto.
Qed.

Lemma fold_inherit_gen : forall (L : list cls) (s : kstate) (nd : list node) seen bases,
  exists seen',
    fold_left (fun '(s, new_declared, seen, bases) c =>
                 let '(s, new_declared, seen, bases) :=
                   if negb (p_in (p_implementedBy c) seen) then (s, new_declared, p_implementedBy c :: seen, bases ++ [p_implementedBy c])
                   else (s, new_declared, seen, bases) in
                 (s, new_declared, seen, bases)) (map RClass L) (s, nd, seen, bases)
    = (s, nd, seen', bases ++ kdedup (filter (fun x => negb (p_in x seen)) (map NC L))).
Proof.
  induction L as [|b L IH]; intros s nd seen bases; cbn [fold_left map filter kdedup].
  - exists seen. rewrite app_nil_r. auto.
  - cbn [p_implementedBy]. destruct (p_in (NC b) seen) eqn:E; cbn [negb].
    + apply IH.
    + destruct (IH s nd (NC b :: seen) (bases ++ [NC b])) as [seen' E']. exists seen'. rewrite E'.
      f_equal. rewrite <- app_assoc. cbn [app kdedup]. f_equal. f_equal.
      rewrite <- kdedup_filter. f_equal. apply filter_notin_cons.
Qed.

Lemma kdedup_map_NC l : kdedup (map NC l) = map NC (dedup l).
Proof. induction l as [|x l IH]; cbn; auto. f_equal. rewrite IH, filter_map. auto. Qed.

Lemma elision_filter g st x c decl l :
  filter (fun x0 => orb (negb (p_isOrExtends g (embed_exc st x) (NC c) x0))
                        (andb (p_is_root x0) (negb (p_truth (map NI decl))))) (map NI l)
  = map NI (celide (cflat g st c) decl l).
Proof.
  rewrite filter_map. f_equal. unfold celide. apply filter_ext. intros a.
  rewrite isOrExtends_embed. cbn [p_is_root node_eqb]. f_equal. f_equal. destruct decl; reflexivity.
Qed.

Lemma generated_classImplements_ordered_eq g st x c b a :
  NoDup (map fst (cache st)) ->
  gen_classImplements_ordered g (embed_exc st x) (NC c) (map NI b) (map NI a) =
  embed_exc (class_ordered true g st c b a) x.
Proof.
  intros ND. unfold gen_classImplements_ordered. cbv zeta.
  unfold class_ordered. destruct (nth_error (classes st) c) as [r|] eqn:E.
  - assert (Hd : p_declared (embed_exc st x) (NC c) = map NI (c_decl r)).
    { unfold p_declared, kget. cbn [embed_exc kclasses]. rewrite nth_error_embed_cls, E. auto. }
    rewrite Hd, !elision_filter, <- !map_app.
    set (L := celide (cflat g st c) (c_decl r) b ++ c_decl r ++ celide (cflat g st c) (c_decl r) a).
    destruct (fold_dedupe_gen (map NI L) (embed_exc st x) [] [] [] (fun _ => eq_refl)) as [seen' [E1 H1]].
    rewrite E1. clear E1. rewrite dd_nil, kdedup_map_NI in *.
    assert (Hlen : c < length (map embed_cls (classes st))) by (rewrite map_length; eapply nth_error_lt; eauto).
    unfold p_set_declared, kset. cbn [embed_exc kclasses kinsts kcache kexc].
    rewrite nth_error_embed_cls, E. cbn [option_map embed_cls kc_pybases kc_inherit kc_bases kc_provides kc_meta kc_builtin kc_created kc_old].
    unfold p_inherit_is_set, p_inherit_pybases, kget. cbn [kclasses]. rewrite nth_error_upd_eq by auto.
    cbn [kc_inherit kc_pybases]. rewrite negb_involutive.
    set (k1 := mkKC (c_bases r) (map NI (dedup L)) (c_inherit r) (spec_bases r)
                    (map NI (c_cprov r) ++ [p_implementedBy (meta_ref (c_meta r))]) (c_meta r) (c_builtin r) true None).
    assert (HB : exists seen2,
      (if c_inherit r
       then let '(s, new_declared, seen, bases) :=
              fold_left (fun '(s, new_declared, seen, bases) c0 =>
                 let '(s, new_declared, seen, bases) :=
                   if negb (p_in (p_implementedBy c0) seen) then (s, new_declared, p_implementedBy c0 :: seen, bases ++ [p_implementedBy c0])
                   else (s, new_declared, seen, bases) in
                 (s, new_declared, seen, bases)) (map RClass (c_bases r))
                 (mkK (upd (map embed_cls (classes st)) c k1) (map embed_inst (insts st)) (map embed_entry (cache st)) x,
                  map NI (dedup L), seen', map NI (dedup L)) in (s, new_declared, seen, bases)
       else (mkK (upd (map embed_cls (classes st)) c k1) (map embed_inst (insts st)) (map embed_entry (cache st)) x,
             map NI (dedup L), seen', map NI (dedup L)))
      = (kst (upd (map embed_cls (classes st)) c k1) st x, map NI (dedup L), seen2,
         map NI (dedup L) ++ (if c_inherit r then map NC (dedup (c_bases r)) else []))).
    { destruct (c_inherit r).
      - destruct (fold_inherit_gen (c_bases r) (kst (upd (map embed_cls (classes st)) c k1) st x)
                                   (map NI (dedup L)) seen' (map NI (dedup L))) as [seen2 E2].
        exists seen2. unfold kst in *. rewrite E2. f_equal. f_equal.
        rewrite filter_id_on, kdedup_map_NC; auto.
        intros y Hy. apply in_map_iff in Hy. destruct Hy as [b0 [<- _]].
        rewrite H1, p_in_NC_map_NI. auto.
      - exists seen'. rewrite app_nil_r. auto. }
    destruct HB as [seen2 HB]. rewrite HB. clear HB.
    rewrite (set_bases_kst g st x _ c k1); auto.
    + unfold set_class, embed_exc. cbn [classes insts cache]. f_equal.
      rewrite upd_upd, map_upd. f_equal.
    + eapply Forall2_upd_l; [apply bases_match_embed|eauto|reflexivity].
    + apply nth_error_upd_eq; auto.
  - assert (Hd : p_declared (embed_exc st x) (NC c) = []).
    { unfold p_declared, kget. cbn [embed_exc kclasses]. rewrite nth_error_embed_cls, E. auto. }
    rewrite Hd.
    assert (Hf : forall l, filter (fun x0 => orb (negb (p_isOrExtends g (embed_exc st x) (NC c) x0))
                                                (andb (p_is_root x0) (negb (p_truth [])))) (map NI l)
                           = map NI (celide (cflat g st c) [] l)) by (intros; apply (elision_filter g st x c [] l)).
    rewrite !Hf.
    destruct (fold_dedupe_gen (map NI (celide (cflat g st c) [] b) ++ [] ++ map NI (celide (cflat g st c) [] a))
                              (embed_exc st x) [] [] [] (fun _ => eq_refl)) as [seen' [E1 H1]].
    rewrite E1. clear E1.
    assert (Hs : forall l, p_set_declared (embed_exc st x) (NC c) l = embed_exc st x).
    { intros. unfold p_set_declared, kset. cbn [embed_exc kclasses]. rewrite nth_error_embed_cls, E. auto. }
    rewrite !Hs.
    assert (Hi : p_inherit_is_set (embed_exc st x) (NC c) = false).
    { unfold p_inherit_is_set, kget. cbn [embed_exc kclasses]. rewrite nth_error_embed_cls, E. auto. }
    rewrite Hi. cbn [negb]. unfold p_set_bases. cbn [embed_exc kclasses]. rewrite nth_error_embed_cls, E. auto.
Qed.

(* ------------------------------------------------------------------ classImplements *)
Lemma fold_split_gen g spec : forall (L : list node) (s : kstate) after before,
  fold_left (fun '(s, after, before) iface =>
               let '(s, after, before) :=
                 if existsb (fun b => p_extends g iface b) (p_declared s spec)
                 then (s, after, before ++ [iface]) else (s, after ++ [iface], before) in
               (s, after, before)) L (s, after, before)
  = (s, after ++ filter (fun i => negb (existsb (fun b => p_extends g i b) (p_declared s spec))) L,
        before ++ filter (fun i => existsb (fun b => p_extends g i b) (p_declared s spec)) L).
Proof.
  induction L as [|i L IH]; intros s after before; cbn [fold_left filter]; [rewrite !app_nil_r; auto|].
  destruct (existsb (fun b => p_extends g i b) (p_declared s spec)); cbn [negb]; rewrite IH, <- ?app_assoc; auto.
Qed.

Lemma generated_classImplements_eq g st x c l :
  NoDup (map fst (cache st)) ->
  (forall r, nth_error (classes st) c = Some r -> c_plain r = c_decl r) ->
  gen_classImplements g (embed_exc st x) (RClass c) (map NI l) = embed_exc (class_implements true g st c l) x.
Proof.
  intros ND Hpl. unfold gen_classImplements. cbv zeta. cbn [p_implementedBy p_normalizeargs].
  rewrite fold_split_gen. cbn [app]. unfold p_normalizeargs.
  unfold class_implements. destruct (nth_error (classes st) c) as [r|] eqn:E.
  - assert (Hd : p_declared (embed_exc st x) (NC c) = map NI (c_decl r)).
    { unfold p_declared, kget. cbn [embed_exc kclasses]. rewrite nth_error_embed_cls, E. auto. }
    rewrite Hd, !filter_map, (Hpl r eq_refl).
    rewrite generated_classImplements_ordered_eq by auto. f_equal. f_equal.
    + apply filter_ext. intros i. rewrite existsb_map. auto.
    + apply filter_ext. intros i. rewrite existsb_map. auto.
  - rewrite !filter_map. rewrite generated_classImplements_ordered_eq by auto.
    unfold class_ordered. rewrite E. auto.
Qed.

Lemma NoDup_map_fst_filter {A B} (p : A * B -> bool) l : NoDup (map fst l) -> NoDup (map fst (filter p l)).
Proof.
  induction l as [|e l IH]; cbn; auto. intros H. inversion H; subst.
  destruct (p e); cbn; auto. constructor; auto. intro Hin. apply H2. eapply In_map_fst_filter; eauto.
Qed.

(* which elements of ``declared`` are interfaces themselves is not part of the kernel state *)
Lemma embed_set_plain st c pl x : embed_exc (set_plain st c pl) x = embed_exc st x.
Proof.
  unfold set_plain. destruct (nth_error (classes st) c) as [r|] eqn:E; auto.
  unfold embed_exc. cbn [classes insts cache]. f_equal. rewrite map_upd.
  apply upd_same_id. rewrite nth_error_map, E. reflexivity.
Qed.

Lemma generated_classImplementsOnly_eq g st x c l pl :
  NoDup (map fst (cache st)) ->
  gen_classImplementsOnly g (embed_exc st x) (RClass c) (map NI l) = embed_exc (class_only true g st c l pl) x.
Proof.
  intros ND. unfold gen_classImplementsOnly. cbv zeta. cbn [p_implementedBy].
  unfold class_only. destruct (nth_error (classes st) c) as [r|] eqn:E; [rewrite embed_set_plain|].
  - assert (Hlen : c < length (map embed_cls (classes st))) by (rewrite map_length; eapply nth_error_lt; eauto).
    unfold p_set_declared, p_set_inherit_none, kset. cbn [embed_exc kclasses kinsts kcache kexc].
    rewrite nth_error_embed_cls, E. cbn [option_map kclasses]. rewrite nth_error_upd_eq by auto.
    cbn [kclasses kinsts kcache kexc]. rewrite upd_upd.
    cbn [embed_cls kc_pybases kc_declared kc_inherit kc_bases kc_provides kc_meta kc_builtin kc_created kc_old].
    match goal with |- context [p_set_bases _ _ (mkK (upd _ c ?k) _ _ _) _ _] => set (k2 := k) end.
    fold (kst (upd (map embed_cls (classes st)) c k2) st x).
    rewrite (set_bases_kst g st x _ c k2); auto.
    + rewrite upd_upd.
      replace (mkK _ _ _ x) with (embed_exc (set_class true st c (mkC (c_bases r) [] false (c_cprov r) (c_meta r) (c_builtin r) [])) x).
      * change (@nil node) with (map NI []). apply generated_classImplements_ordered_eq.
        cbn [set_class cache evict]. apply NoDup_map_fst_filter; auto.
      * unfold set_class, embed_exc. cbn [classes insts cache]. f_equal. rewrite map_upd. f_equal.
    + eapply Forall2_upd_l; [apply bases_match_embed|eauto|reflexivity].
    + apply nth_error_upd_eq; auto.
  - assert (Hs : forall l, p_set_declared (embed_exc st x) (NC c) l = embed_exc st x).
    { intros. unfold p_set_declared, kset. cbn [embed_exc kclasses]. rewrite nth_error_embed_cls, E. auto. }
    rewrite Hs.
    assert (Hi : p_set_inherit_none (embed_exc st x) (NC c) = embed_exc st x).
    { unfold p_set_inherit_none, kset. cbn [embed_exc kclasses]. rewrite nth_error_embed_cls, E. auto. }
    rewrite Hi.
    assert (Hb : forall l, p_set_bases gen_Provides_changed g (embed_exc st x) (NC c) l = embed_exc st x).
    { intros. unfold p_set_bases. cbn [embed_exc kclasses]. rewrite nth_error_embed_cls, E. auto. }
    rewrite Hb. change (@nil node) with (map NI []).
    rewrite generated_classImplements_ordered_eq by auto. unfold class_ordered. rewrite E. auto.
Qed.

Lemma generated_classImplementsFirst_eq g st x c i :
  NoDup (map fst (cache st)) ->
  gen_classImplementsFirst g (embed_exc st x) (RClass c) (NI i) = embed_exc (class_ordered true g st c [i] []) x.
Proof.
  intros ND. unfold gen_classImplementsFirst. cbv zeta. cbn [p_implementedBy].
  change [NI i] with (map NI [i]). change (@nil node) with (map NI []).
  apply generated_classImplements_ordered_eq; auto.
Qed.

(* ------------------------------------------------------------------ the Provides factory *)
Lemma kkey_eqb_embed d args d' args' :
  kkey_eqb (RClass d, map NI args) (RClass d', map NI args') = key_eqb (d, args) (d', args').
Proof. unfold kkey_eqb, key_eqb. cbn. rewrite lnode_eqb_map_NI. auto. Qed.

Lemma cache_lookup_embed d args ca :
  kcache_lookup (RClass d, map NI args) (map embed_entry ca) =
  option_map (fun k => map NI k ++ [NC d]) (cache_get (d, args) ca).
Proof.
  induction ca as [|[[d' a'] v] ca IH]; cbn [map kcache_lookup cache_get embed_entry fst snd]; auto.
  rewrite kkey_eqb_embed. destruct (key_eqb (d, args) (d', a')) eqn:E; auto.
  apply key_eqb_eq in E. inversion E; subst. auto.
Qed.

Lemma generated_Provides_eq g st x d args st1 k :
  provides g st d args = (st1, k) ->
  gen_Provides g (embed_exc st x) (RClass d, map NI args) =
  (embed_exc st1 x, ((RClass d, map NI args), map NI k ++ [NC d])).
Proof.
  intros P. unfold gen_Provides. cbv zeta. unfold p_cache_get. cbn [embed_exc kcache].
  rewrite cache_lookup_embed. unfold provides in P.
  destruct (cache_get (d, args) (cache st)) as [v|] eqn:E; inversion P; subst; cbn [option_map p_is_none_opt p_the].
  - auto.
  - unfold p_new_provides, p_cache_set. cbn [fst snd kclasses kinsts kcache kexc].
    fold (embed_exc st x). rewrite generated_add_interfaces_to_cls_eq.
    rewrite kcache_remove_notin.
    + reflexivity.
    + apply kcache_lookup_none_notin. cbn [embed_exc kcache]. rewrite cache_lookup_embed, E. auto.
Qed.

(* ------------------------------------------------------------------ directlyProvidedBy *)
Lemma dpb_dedup_raw st t : dpb st t = dedup (dpb_raw st t).
Proof.
  destruct t as [o|c]; cbn.
  - destruct (nth_error (insts st) o) as [r|]; auto. destruct (i_prov r); auto.
  - destruct (nth_error (classes st) c); auto.
Qed.

Lemma generated_directlyProvidedBy_raw g st x t :
  gen_directlyProvidedBy g (embed_exc st x) t = map NI (dpb_raw st t).
Proof.
  unfold gen_directlyProvidedBy. cbv zeta. destruct t as [o|c]; cbn [p_getattr_provides embed_exc kinsts kclasses dpb_raw].
  - rewrite nth_error_map. destruct (nth_error (insts st) o) as [r|]; cbn [option_map]; auto.
    cbn [embed_inst ki_provides]. destruct (i_prov r) as [k|]; cbn [option_map]; auto.
    cbn [p_got_is_none p_got_is_implements orb p_bases p_declaration]. apply removelast_last.
  - rewrite nth_error_map. destruct (nth_error (classes st) c) as [r|]; cbn [option_map]; auto.
    cbn [embed_cls kc_provides p_got_is_none p_got_is_implements orb p_bases p_declaration]. apply removelast_last.
Qed.

Lemma generated_directlyProvidedBy_eq g st x t :
  p_decl_interfaces (gen_directlyProvidedBy g (embed_exc st x) t) = map NI (dpb st t).
Proof.
  rewrite generated_directlyProvidedBy_raw, dpb_dedup_raw. unfold p_decl_interfaces. apply kdedup_map_NI.
Qed.

(* ------------------------------------------------------------------ directlyProvides *)
Lemma generated_directlyProvides_eq g st x t l :
  target_live st t ->
  gen_directlyProvides g (embed_exc st x) t (map NI l) = embed_exc (directly g st t l) x.
Proof.
  intros TL. unfold gen_directlyProvides. cbv zeta. destruct t as [o|c].
  - destruct TL as [r [E [Hl Hnb]]].
    assert (Hc : p_getattr_class (embed_exc st x) (TInst o) = RClass (i_cls r)).
    { cbn. rewrite nth_error_map, E. auto. }
    rewrite Hc. cbn [p_is_none_ref negb andb p_getattr_class_of_class kclsref_eqb p_issubclass_type
                     p_issubclass_module p_normalizeargs].
    cbn [directly]. unfold direct_inst. rewrite E, Hl, Hnb. cbn [negb andb].
    destruct (provides g st (i_cls r) l) as [st1 k] eqn:P.
    rewrite (generated_Provides_eq _ _ _ _ _ _ _ P).
    destruct (provides_frame _ _ _ _ _ _ P) as [Hcs His].
    unfold p_set_provides. cbn [embed_exc kinsts kclasses kcache kexc snd]. rewrite nth_error_map, His, E.
    cbn [option_map embed_inst ki_cls ki_live]. unfold embed_exc. cbn [classes insts cache].
    rewrite ?His, map_upd. cbn [embed_inst i_cls i_live i_prov option_map]. rewrite Hl. reflexivity.
  - cbn [directly]. unfold direct_cls.
    assert (Hc : p_getattr_class (embed_exc st x) (TCls c) =
                 match nth_error (classes st) c with Some r => meta_ref (c_meta r) | None => RType end).
    { cbn. rewrite nth_error_map. destruct (nth_error (classes st) c); auto. }
    rewrite Hc. clear Hc.
    assert (Hset : forall ref,
      p_set_provides (embed_exc st x) (TCls c)
        (p_new_class_provides gen_add_interfaces_to_cls g (embed_exc st x) (TCls c) ref (map NI l)) =
      match nth_error (classes st) c with
      | Some r => mkK (upd (map embed_cls (classes st)) c
                           (mkKC (c_bases r) (map NI (c_decl r)) (c_inherit r) (spec_bases r)
                                 (gen_add_interfaces_to_cls g (embed_exc st x) (map NI l) ref) (c_meta r) (c_builtin r) true None))
                      (map embed_inst (insts st)) (map embed_entry (cache st)) x
      | None => embed_exc st x
      end).
    { intros ref. unfold p_set_provides, p_new_class_provides, kset. cbn [embed_exc kclasses kinsts kcache kexc snd].
      rewrite nth_error_map. destruct (nth_error (classes st) c); auto. }
    destruct (nth_error (classes st) c) as [r|] eqn:E.
    + assert (Hnb : c_builtin r = false) by (unfold target_live, class_builtin in TL; rewrite E in TL; auto).
      rewrite Hnb.
      assert (Hres : mkK (upd (map embed_cls (classes st)) c
                           (mkKC (c_bases r) (map NI (c_decl r)) (c_inherit r) (spec_bases r)
                                 (gen_add_interfaces_to_cls g (embed_exc st x) (map NI l) (meta_ref (c_meta r))) (c_meta r) (c_builtin r) true None))
                      (map embed_inst (insts st)) (map embed_entry (cache st)) x =
                     embed_exc (mkS (upd (classes st) c (mkC (c_bases r) (c_decl r) (c_inherit r)
                                      (keepnew (closure g (meta_direct r)) l) (c_meta r) false (c_plain r))) (insts st) (cache st)) x).
      { unfold embed_exc. cbn [classes insts cache]. rewrite map_upd. f_equal. f_equal.
        rewrite generated_add_interfaces_to_cls_meta, Hnb. reflexivity. }
      destruct (c_meta r) as [ml|] eqn:Em; cbn [meta_ref p_is_none_ref negb andb p_getattr_class_of_class
          kclsref_eqb p_isinstance_type p_issubclass_type p_normalizeargs]; rewrite Hset, <- Hres; reflexivity.
    + cbn [p_is_none_ref negb andb p_getattr_class_of_class kclsref_eqb p_isinstance_type
           p_issubclass_type p_normalizeargs]. rewrite Hset. reflexivity.
Qed.

Lemma generated_alsoProvides_eq g st x t l :
  target_live st t ->
  gen_alsoProvides g (embed_exc st x) t (map NI l) = embed_exc (directly g st t (dpb st t ++ l)) x.
Proof.
  intros TL. unfold gen_alsoProvides. cbv zeta.
  rewrite generated_directlyProvidedBy_eq, <- map_app. apply generated_directlyProvides_eq; auto.
Qed.

(* ------------------------------------------------------------------ noLongerProvides *)
Lemma existsb_ext_mem g L x : existsb (fun y => ext g y x) L = mem_nat x (closure g L).
Proof.
  destruct (mem_nat x (closure g L)) eqn:E.
  - apply mem_nat_In in E. apply existsb_ext_closure; auto.
  - destruct (existsb (fun y => ext g y x) L) eqn:E2; auto.
    apply existsb_ext_closure in E2. apply mem_nat_In in E2. congruence.
Qed.

Lemma providedBy_embed g st e t x : p_providedBy g (embed_exc st e) (NI x) t = i_providedBy g st t x.
Proof.
  unfold p_providedBy, i_providedBy, spec_direct. apply (f_equal (orb (Nat.eqb x 0))).
  destruct t as [o|c]; cbn [embed_exc kinsts kclasses].
  - rewrite nth_error_map. destruct (nth_error (insts st) o) as [r|]; cbn [option_map]; auto.
    cbn [embed_inst ki_provides ki_cls].
    assert (Hc : mem_nat x (kflat_f g (map embed_cls (classes st)) (S (i_cls r)) (NC (i_cls r)))
                 = existsb (fun y => ext g y x) (cdirect st (i_cls r))).
    { rewrite existsb_ext_mem. apply mem_nat_same. apply kflat_embed. }
    destruct (i_prov r) as [k|]; cbn [option_map]; auto.
    rewrite !existsb_app, existsb_map. cbn [existsb]. rewrite orb_false_r, Hc. f_equal.
  - rewrite nth_error_map. destruct (nth_error (classes st) c) as [r|]; cbn [option_map]; auto.
    cbn [embed_cls kc_provides]. rewrite !existsb_app, existsb_map. cbn [existsb]. rewrite orb_false_r.
    f_equal. unfold meta_direct. destruct (c_meta r) as [ml|]; cbn [meta_ref p_implementedBy kflat_f mem_nat existsb]; auto.
    symmetry. apply existsb_ext_mem.
Qed.

Lemma generated_noLongerProvides_eq g st t i :
  target_live st t ->
  let st' := directly g st t (filter (fun y => negb (ext g y i)) (dpb st t)) in
  gen_noLongerProvides g (embed st) t (NI i) =
  embed_exc st' (if raises g st' (NoLongerProvides t i) then Some exc_ValueError else None).
Proof.
  intros TL st'. unfold gen_noLongerProvides. cbv zeta.
  assert (Ha : p_decl_interfaces (p_decl_sub g (gen_directlyProvidedBy g (embed st) t) (NI i))
               = map NI (filter (fun y => negb (ext g y i)) (dpb st t))).
  { unfold embed. rewrite generated_directlyProvidedBy_raw, dpb_dedup_raw.
    unfold p_decl_interfaces, p_decl_sub. rewrite kdedup_filter, kdedup_idem, kdedup_map_NI, filter_map. reflexivity. }
  rewrite Ha. unfold embed. rewrite generated_directlyProvides_eq by auto. fold st'.
  rewrite providedBy_embed. cbn [raises]. destruct (i_providedBy g st' t i); reflexivity.
Qed.

(* ------------------------------------------------------------------ cache keys are unique in every reachable state *)
Definition cache_keys_unique (st : state) : Prop := NoDup (map fst (cache st)).

Lemma key_eqb_refl k : key_eqb k k = true.
Proof.
  destruct k as [d a]. unfold key_eqb. cbn. rewrite Nat.eqb_refl. apply (list_eqb_eq Nat.eqb Nat.eqb_eq). auto.
Qed.

Lemma cache_get_none_notin k ca : cache_get k ca = None -> ~ In k (map fst ca).
Proof.
  induction ca as [|[k' v] ca IH]; cbn; auto. destruct (key_eqb k k') eqn:E; [discriminate|].
  intros H [H1|H1]; [subst; rewrite key_eqb_refl in E; discriminate|]. apply IH; auto.
Qed.

Lemma cku_set_class ev st c r : cache_keys_unique st -> cache_keys_unique (set_class ev st c r).
Proof.
  unfold cache_keys_unique, set_class, evict. cbn [cache]. destruct ev; auto. apply NoDup_map_fst_filter.
Qed.

Lemma cku_class_ordered ev g st c b a : cache_keys_unique st -> cache_keys_unique (class_ordered ev g st c b a).
Proof. intros H. unfold class_ordered. destruct (nth_error (classes st) c); auto. apply cku_set_class; auto. Qed.

Lemma cku_set_plain st c pl : cache_keys_unique st -> cache_keys_unique (set_plain st c pl).
Proof. intros H. unfold set_plain. destruct (nth_error (classes st) c); auto. Qed.

Lemma cku_directly g st t l : cache_keys_unique st -> cache_keys_unique (directly g st t l).
Proof.
  intros H. destruct t as [o|c]; cbn [directly].
  - unfold direct_inst. destruct (nth_error (insts st) o) as [r|]; auto.
    destruct (i_live r && negb (class_builtin st (i_cls r))); auto.
    unfold provides. destruct (cache_get (i_cls r, l) (cache st)) eqn:E; cbn [cache]; auto.
    unfold cache_keys_unique. cbn [cache map fst]. constructor; auto. apply cache_get_none_notin; auto.
  - unfold direct_cls. destruct (nth_error (classes st) c) as [r|]; auto. destruct (c_builtin r); auto.
Qed.

Lemma cku_step ev g st o : cache_keys_unique st -> cache_keys_unique (step ev g st o).
Proof.
  intros H. destruct o; cbn [step]; auto; try (apply cku_directly; auto); try (apply cku_class_ordered; auto).
  - destruct (Nat.ltb c (length (classes st))); auto.
  - destruct (nth_error (insts st) o); auto.
  - unfold class_implements. destruct (nth_error (classes st) c); auto. apply cku_class_ordered; auto.
  - unfold class_only. destruct (nth_error (classes st) c); auto. apply cku_set_plain, cku_class_ordered, cku_set_class; auto.
  - unfold class_implements. destruct (nth_error (classes st) c); auto. apply cku_class_ordered; auto.
  - unfold class_only. destruct (nth_error (classes st) c); auto. apply cku_set_plain, cku_class_ordered, cku_set_class; auto.
Qed.

Lemma cku_run ev g ops : cache_keys_unique (run ev g ops).
Proof.
  unfold run. assert (H : cache_keys_unique init) by constructor.
  revert H. generalize init. induction ops as [|o ops IH]; cbn; auto. intros st H. apply IH, cku_step; auto.
Qed.

(* ------------------------------------------------------------------ the step function through the generated kernel *)
Definition is_declaration (o : op) : bool :=
  match decl_class o, decl_target o with None, None => false | _, _ => true end.

Definition op_target_live (st : state) (o : op) : Prop :=
  match decl_target o with Some t => target_live st t | None => True end.

Lemma generated_step_eq g st o :
  cache_keys_unique st -> is_declaration o = true -> op_target_live st o ->
  (forall c r, decl_class o = Some c -> nth_error (classes st) c = Some r -> c_plain r = c_decl r) ->
  gen_step g (embed st) o (nargs st (op_args o)) =
  embed_exc (step true g st o) (if raises g (step true g st o) o then Some exc_ValueError else None).
Proof.
  intros ND Hd TL Hpl. unfold op_target_live in TL.
  destruct o; cbn [is_declaration decl_class decl_target] in *; try discriminate;
    cbn [gen_step step raises op_args]; unfold embed.
  - apply generated_classImplements_eq; auto. intros r; apply Hpl; auto.
  - apply generated_classImplementsOnly_eq; auto.
  - apply generated_classImplements_eq; auto. intros r; apply Hpl; auto.
  - apply generated_classImplementsOnly_eq; auto.
  - apply generated_classImplementsFirst_eq; auto.
  - apply generated_directlyProvides_eq; auto.
  - apply generated_alsoProvides_eq; auto.
  - apply (generated_noLongerProvides_eq g st t x TL).
  - apply generated_directlyProvides_eq; auto.
Qed.

Lemma generated_directlyProvidedBy_both g st x t :
  gen_directlyProvidedBy g (embed_exc st x) t = map NI (dpb_raw st t) /\
  p_decl_interfaces (gen_directlyProvidedBy g (embed_exc st x) t) = map NI (dpb st t).
Proof. split; [apply generated_directlyProvidedBy_raw|apply generated_directlyProvidedBy_eq]. Qed.

Lemma generated_step_eq_spelled g st o :
  NoDup (map fst (cache st)) ->
  (decl_class o <> None \/ decl_target o <> None) ->
  (forall t, decl_target o = Some t -> target_live st t) ->
  (forall c r, decl_class o = Some c -> nth_error (classes st) c = Some r -> c_plain r = c_decl r) ->
  gen_step g (embed st) o (nargs st (op_args o)) =
  embed_exc (step true g st o) (if raises g (step true g st o) o then Some exc_ValueError else None).
Proof.
  intros ND Hd TL Hpl. apply generated_step_eq; auto.
  - unfold is_declaration. destruct (decl_class o), (decl_target o); auto. destruct Hd; congruence.
  - unfold op_target_live. destruct (decl_target o); auto.
Qed.

(* ------------------------------------------------------------------ implementedBy: the ClassProvides of a new class
   names the class's METACLASS (getattr(cls, '__class__', type(cls))): installing it on a class
   whose class object has no declaration yet leaves the embedded state as it is — what the
   class object provides does not depend on whether implementedBy(cls) was computed. *)
Lemma upd_same {A} (l : list A) n x : nth_error l n = Some x -> upd l n x = l.
Proof. revert n; induction l as [|h t IH]; intros [|n] H; cbn in *; try discriminate; [inversion H; auto|f_equal; auto]. Qed.

Lemma generated_implementedBy_class_provides_eq g st x c r :
  nth_error (classes st) c = Some r -> c_cprov r = [] ->
  gen_implementedBy_class_provides g (embed_exc st x) (TCls c) = embed_exc st x.
Proof.
  intros E Hp. unfold gen_implementedBy_class_provides. cbv zeta.
  cbn [p_isinstance_type p_has_own_provides negb andb].
  assert (Hc : p_getattr_class (embed_exc st x) (TCls c) = meta_ref (c_meta r)).
  { cbn. rewrite nth_error_map, E. auto. }
  rewrite Hc. unfold p_set_provides, p_new_class_provides, kset. cbn [embed_exc kclasses kinsts kcache kexc snd].
  rewrite nth_error_map, E. cbn [option_map]. change (@nil node) with (map NI []).
  fold (embed_exc st x). rewrite generated_add_interfaces_to_cls_meta.
  unfold embed_exc. f_equal. apply upd_same. rewrite nth_error_map, E. cbn [option_map].
  unfold embed_cls. rewrite Hp. reflexivity.
Qed.

(* ------------------------------------------------------------------ implementedBy (translated) = lazy creation (Model/DeclLazy.v) *)
From ZI Require Import Proofs.DeclLazy.

Lemma nth_error_combine {A B} (l : list A) (m : list B) n a b :
  nth_error l n = Some a -> nth_error m n = Some b -> nth_error (combine l m) n = Some (a, b).
Proof.
  revert m n; induction l as [|x l IH]; intros [|y m] [|n] Ha Hb; cbn in *; try discriminate; auto.
  inversion Ha; inversion Hb; auto.
Qed.

Lemma nth_error_flag (fl : list bool) c : c < length fl -> nth_error fl c = Some (zcreated fl c).
Proof.
  unfold zcreated. revert c; induction fl as [|b fl IH]; intros [|c] H; cbn in *; try lia; auto. apply IH; lia.
Qed.

Lemma combine_upd_r {A B} (l : list A) (m : list B) n a b :
  nth_error l n = Some a -> combine l (upd m n b) = upd (combine l m) n (a, b).
Proof.
  revert m n; induction l as [|x l IH]; intros [|y m] [|n] Ha; cbn in *; try discriminate; auto.
  - inversion Ha; auto.
  - f_equal; auto.
Qed.

Lemma dedup_NoDup_id l : NoDup l -> dedup l = l.
Proof.
  induction 1 as [|x l Hx Hn IH]; cbn [dedup]; auto. rewrite IH. f_equal. apply filter_id_on.
  intros y Hy. apply negb_true_iff, Nat.eqb_neq. intro; subst; auto.
Qed.

Lemma kclasses_zembed cs ins ca fl x c r :
  length fl = length cs -> nth_error cs c = Some r ->
  nth_error (kclasses (zembed (mkS cs ins ca, fl) x)) c = Some (zembed_cls (r, zcreated fl c)).
Proof.
  intros L E. unfold zembed. cbn [kclasses fst snd classes]. rewrite nth_error_map.
  rewrite (nth_error_combine _ _ _ _ _ E (nth_error_flag fl c ltac:(rewrite L; eapply nth_error_lt; eauto))). auto.
Qed.

(* implementedBy only creates specifications of the class and of classes below it *)
Lemma zensure_below cs : wf_classes cs -> forall f fl b d,
  zcreated (zensure_f cs f fl b) d = true -> zcreated fl d = true \/ d <= b.
Proof.
  intros W. induction f as [|f IH]; intros fl b d H; cbn [zensure_f] in H; auto.
  destruct (zcreated fl b) eqn:Eb; auto. destruct (nth_error cs b) as [r|] eqn:E; auto.
  destruct (Nat.eq_dec b d) as [->|Hne]; [right; lia|].
  unfold zcreated in H. rewrite nth_upd_ne in H by auto.
  destruct (c_inherit r); [|left; exact H].
  fold (zcreated (fold_left (zensure_f cs f) (c_bases r) fl) d) in H.
  assert (Hl : forall l fl0, (forall b', In b' l -> b' < b) ->
             zcreated (fold_left (zensure_f cs f) l fl0) d = true -> zcreated fl0 d = true \/ d < b).
  { induction l as [|b' l IHl]; intros fl0 Hb H0; cbn in H0; auto.
    destruct (IHl _ (fun x Hx => Hb x (or_intror Hx)) H0) as [H1|H1]; auto.
    apply IH in H1. destruct H1 as [H1|H1]; auto. right. pose proof (Hb b' (or_introl eq_refl)). lia. }
  destruct (Hl _ _ (fun x Hx => W _ _ _ E Hx) H) as [H1|H1]; auto. right. lia.
Qed.

Lemma kset_some K I C X c k f :
  nth_error K c = Some k -> kset (mkK K I C X) (NC c) f = mkK (upd K c (f k)) I C X.
Proof. intros E. unfold kset. cbn [kclasses kinsts kcache kexc]. rewrite E. auto. Qed.

Lemma kset_upd K I C X c k f :
  c < length K -> kset (mkK (upd K c k) I C X) (NC c) f = mkK (upd K c (f k)) I C X.
Proof. intros H. rewrite (kset_some _ _ _ _ c k); [rewrite upd_upd; auto|apply nth_error_upd_eq; auto]. Qed.

Definition zok (cs : list crec) (fl : list bool) : Prop :=
  length fl = length cs /\ closedfl cs fl /\
  (forall c r, nth_error cs c = Some r -> zcreated fl c = false -> dflt r).

Lemma zok_ensure cs : wf_classes cs -> forall f fl b, zok cs fl -> b < f -> zok cs (zensure_f cs f fl b).
Proof.
  intros W f fl b [L [Cl D]] Hb. split; [|split].
  - rewrite zensure_length; auto.
  - apply (zensure_closed cs W f fl b L Cl Hb).
  - intros c r E Hc. apply (D c r E). destruct (zcreated fl c) eqn:Ec; auto.
    rewrite (zensure_mono _ _ _ _ _ Ec) in Hc. discriminate.
Qed.

Lemma fold_zok cs : wf_classes cs -> forall f l fl, (forall b, In b l -> b < f) -> zok cs fl ->
  zok cs (fold_left (zensure_f cs f) l fl).
Proof.
  intros W f. induction l as [|b l IHl]; intros fl Hl Hok; cbn [fold_left]; auto.
  apply IHl; [intros; apply Hl; right; auto|]. apply zok_ensure; auto. apply Hl; left; auto.
Qed.

Lemma fold_uncreated cs : wf_classes cs -> forall f c l fl, (forall b, In b l -> b < c) -> zcreated fl c = false ->
  zcreated (fold_left (zensure_f cs f) l fl) c = false.
Proof.
  intros W f c. induction l as [|b l IHl]; intros fl Hl Hc; cbn [fold_left]; auto.
  apply IHl; [intros; apply Hl; right; auto|]. destruct (zcreated (zensure_f cs f fl b) c) eqn:E2; auto.
  apply (zensure_below cs W) in E2. destruct E2 as [E2|E2]; [congruence|].
  pose proof (Hl b (or_introl eq_refl)). lia.
Qed.

Lemma gen_implementedBy_eq g x cs ins ca :
  wf_classes cs -> (forall c r, nth_error cs c = Some r -> NoDup (c_bases r)) ->
  forall f fl c, zok cs fl -> c < f -> c < length cs ->
  gen_implementedBy f g (zembed (mkS cs ins ca, fl) x) (RClass c) =
  (zembed (mkS cs ins ca, zensure_f cs f fl c) x, NC c).
Proof.
  intros W Nd. induction f as [|f IH]; intros fl c Hok Hf Hc; [lia|].
  destruct (nth_error cs c) as [r|] eqn:E; [|apply nth_error_None in E; lia].
  destruct Hok as [L [Cl D]].
  pose proof (kclasses_zembed cs ins ca fl x c r L E) as Ek.
  set (S0 := zembed (mkS cs ins ca, fl) x) in *.
  assert (Hdict : p_dict_get_implemented S0 (RClass c) =
                  if zcreated fl c then (if c_builtin r then DNone else DSpec (NC c))
                  else if c_inherit r then DNone else DOld (map NI (c_decl r))).
  { unfold p_dict_get_implemented. rewrite Ek. unfold zembed_cls, embed_cls. cbn [fst snd].
    destruct (zcreated fl c), (c_builtin r), (c_inherit r); reflexivity. }
  assert (Htab : p_table_get S0 (RClass c) = if zcreated fl c && c_builtin r then DSpec (NC c) else DNone).
  { unfold p_table_get, kcget. rewrite Ek. unfold zembed_cls, embed_cls. cbn [fst snd].
    destruct (zcreated fl c), (c_builtin r); reflexivity. }
  assert (Hpy : p_pybases S0 (RClass c) = map RClass (c_bases r)).
  { unfold p_pybases, kcget. rewrite Ek. unfold zembed_cls, embed_cls. cbn [fst snd].
    destruct (zcreated fl c), (c_builtin r); reflexivity. }
  cbn [gen_implementedBy zensure_f]. cbv zeta. unfold p_isinstance_super. rewrite !Hdict, !Htab, !Hpy.
  destruct (zcreated fl c) eqn:Ecr.
  - (* the specification exists: __dict__ or the builtin table *)
    destruct (c_builtin r); reflexivity.
  - destruct (D c r E Ecr) as [Hd Hp]. rewrite E.
    set (K := map zembed_cls (combine cs fl)).
    assert (HcK0 : length K = length cs).
    { unfold K. rewrite map_length, combine_length, L. lia. }
    assert (Hfin : forall fl', map zembed_cls (combine cs (upd fl' c true)) = upd (map zembed_cls (combine cs fl')) c (zembed_cls (r, true))).
    { intros fl'. rewrite (combine_upd_r _ _ _ r true E), map_upd. reflexivity. }
    assert (Hcan : forall K' k, c < length K' ->
              p_can_setattr (mkK (upd K' c k) (map embed_inst ins) (map embed_entry ca) x) (RClass c) = negb (kc_builtin k)).
    { intros K' k HK'. unfold p_can_setattr, kcget. cbn [kclasses]. rewrite nth_error_upd_eq by auto. auto. }
    assert (Hga : forall K' k, c < length K' ->
              p_getattr_class (mkK (upd K' c k) (map embed_inst ins) (map embed_entry ca) x) (TCls c) = meta_ref (kc_meta k)).
    { intros K' k HK'. cbn [p_getattr_class kclasses]. rewrite nth_error_upd_eq by auto. auto. }
    destruct (c_inherit r) eqn:Ei.
    + (* new-style: creation from the bases' specifications *)
      specialize (Hd eq_refl). cbn [andb p_dv_is_implements p_dv_is_none negb].
      assert (Hb : forall b, In b (c_bases r) -> b < f /\ b < length cs).
      { intros b Hb. pose proof (W _ _ _ E Hb). lia. }
      assert (Hfold : forall l fl0 acc, (forall b, In b l -> b < f /\ b < length cs) -> zok cs fl0 ->
        fold_left (fun '(s, acc) c0 => let '(s0, v) := gen_implementedBy f g s c0 in (s0, acc ++ [v]))
                  (map RClass l) (zembed (mkS cs ins ca, fl0) x, acc)
        = (zembed (mkS cs ins ca, fold_left (zensure_f cs f) l fl0) x, acc ++ map NC l)).
      { induction l as [|b l IHl]; intros fl0 acc Hl Hok0; cbn [map fold_left]; [rewrite app_nil_r; auto|].
        destruct (Hl b (or_introl eq_refl)) as [Hb1 Hb2]. rewrite (IH fl0 b Hok0 Hb1 Hb2).
        rewrite IHl; [|intros; apply Hl; right; auto|apply zok_ensure; auto].
        rewrite <- app_assoc. reflexivity. }
      subst S0. rewrite (Hfold (c_bases r) fl [] Hb (conj L (conj Cl D))). cbn [app].
      set (fl1 := fold_left (zensure_f cs f) (c_bases r) fl).
      assert (Hok1 : zok cs fl1).
      { apply fold_zok; auto.
        - intros b Hb'. apply (proj1 (Hb b Hb')).
        - split; [|split]; auto. }
      assert (Hc1 : zcreated fl1 c = false).
      { apply fold_uncreated; auto. intros b Hb'. eapply W; eauto. }
      destruct Hok1 as [L1 [Cl1 D1]].
      pose proof (kclasses_zembed cs ins ca fl1 x c r L1 E) as Ek1. rewrite Hc1 in Ek1.
      set (K1 := map zembed_cls (combine cs fl1)).
      change (zembed (mkS cs ins ca, fl1) x) with (mkK K1 (map embed_inst ins) (map embed_entry ca) x) in *.
      cbn [kclasses] in Ek1.
      change (zembed_cls (r, false)) with (mkKC (c_bases r) [] false [] [] (c_meta r) (c_builtin r) false
                                                (if c_inherit r then None else Some (map NI (c_decl r)))) in Ek1.
      rewrite Ei in Ek1.
      assert (HcK : c < length K1) by (eapply nth_error_lt; eauto).
      unfold p_implements_named, p_implements_name, kcset. rewrite (kset_some _ _ _ _ c _ _ Ek1).
      cbv iota beta. cbn [p_dv_spec p_implementedBy].
      unfold p_set_inherit_cls. rewrite kset_upd by auto. unfold p_set_implements_cls.
      rewrite Hcan by auto. cbn [kc_builtin kc_pybases kc_provides kc_meta kc_created kc_old].
      unfold zembed at 1. cbn [fst snd classes insts cache]. rewrite Hfin. fold K1.
      assert (Hbs : spec_bases r = map NC (c_bases r)).
      { unfold spec_bases. rewrite Hd, Ei, (dedup_NoDup_id _ (Nd _ _ E)). reflexivity. }
      destruct (c_builtin r) eqn:Eb; cbn [negb].
      * cbn [p_as_object p_isinstance_type negb].
        unfold p_table_set, kmark_created, kcset. rewrite kset_upd by auto.
        cbn [kc_builtin kc_pybases kc_provides kc_meta kc_created kc_declared kc_inherit kc_bases kc_old p_dv_spec].
        assert (Hz : zembed_cls (r, true) = mkKC (c_bases r) (map NI (c_decl r)) (c_inherit r) (spec_bases r) [] (c_meta r) true true None)
          by (unfold zembed_cls; cbn [fst snd]; rewrite Eb; reflexivity).
        rewrite Hz, Hd, Ei, Hbs. reflexivity.
      * unfold p_store_dict, kmark_created, kcset. rewrite kset_upd by auto.
        unfold p_hasattr_providedBy, p_install_osd. cbn [negb]. cbv iota beta.
        cbn [p_as_object p_isinstance_type p_has_own_provides negb andb]. cbv iota beta.
        unfold p_set_provides, p_new_class_provides. cbn [snd]. rewrite kset_upd by auto.
        cbn [kc_builtin kc_pybases kc_provides kc_meta kc_created kc_declared kc_inherit kc_bases kc_old p_dv_spec].
        rewrite Hga by auto. cbn [kc_meta]. change (@nil node) with (map NI []).
        rewrite generated_add_interfaces_to_cls_meta. cbn [keepnew filter map app].
        assert (Hz : zembed_cls (r, true) = embed_cls r) by (unfold zembed_cls; cbn [fst snd]; rewrite Eb; reflexivity).
        rewrite Hz. unfold embed_cls. rewrite Eb, Hd, Ei, Hp, Hbs. reflexivity.
    + (* old-style ``__implemented__`` attribute: declared = its interfaces, inherit = None *)
      cbn [andb p_dv_is_implements p_dv_is_none negb p_dv_old]. unfold p_normalizeargs.
      subst S0. fold K in Ek.
      change (zembed (mkS cs ins ca, fl) x) with (mkK K (map embed_inst ins) (map embed_entry ca) x) in *.
      cbn [kclasses] in Ek.
      change (zembed_cls (r, false)) with (mkKC (c_bases r) [] false [] [] (c_meta r) (c_builtin r) false
                                                (if c_inherit r then None else Some (map NI (c_decl r)))) in Ek.
      rewrite Ei in Ek.
      assert (HcK : c < length K) by (eapply nth_error_lt; eauto).
      unfold p_implements_named, p_implements_name, kcset. rewrite (kset_some _ _ _ _ c _ _ Ek).
      cbv iota beta. cbn [p_dv_spec p_implementedBy].
      unfold p_set_inherit_none, p_set_declared, p_del_dict_implemented, kcset. rewrite !kset_upd by auto.
      unfold p_set_implements_cls. rewrite Hcan by auto.
      cbn [kc_builtin kc_pybases kc_provides kc_meta kc_created kc_old kc_declared kc_inherit kc_bases].
      unfold zembed at 1. cbn [fst snd classes insts cache]. rewrite Hfin. fold K.
      assert (Hbs : spec_bases r = map NI (c_decl r)).
      { unfold spec_bases. rewrite Ei, app_nil_r. reflexivity. }
      destruct (c_builtin r) eqn:Eb; cbn [negb].
      * cbn [p_as_object p_isinstance_type negb].
        unfold p_table_set, kmark_created, kcset. rewrite kset_upd by auto.
        cbn [kc_builtin kc_pybases kc_provides kc_meta kc_created kc_declared kc_inherit kc_bases kc_old p_dv_spec].
        assert (Hz : zembed_cls (r, true) = mkKC (c_bases r) (map NI (c_decl r)) (c_inherit r) (spec_bases r) [] (c_meta r) true true None)
          by (unfold zembed_cls; cbn [fst snd]; rewrite Eb; reflexivity).
        rewrite Hz, Ei, Hbs. reflexivity.
      * unfold p_store_dict, kmark_created, kcset. rewrite kset_upd by auto.
        unfold p_hasattr_providedBy, p_install_osd. cbn [negb]. cbv iota beta.
        cbn [p_as_object p_isinstance_type p_has_own_provides negb andb]. cbv iota beta.
        unfold p_set_provides, p_new_class_provides. cbn [snd]. rewrite kset_upd by auto.
        cbn [kc_builtin kc_pybases kc_provides kc_meta kc_created kc_declared kc_inherit kc_bases kc_old p_dv_spec].
        rewrite Hga by auto. cbn [kc_meta]. change (@nil node) with (map NI []).
        rewrite generated_add_interfaces_to_cls_meta. cbn [keepnew filter map app].
        assert (Hz : zembed_cls (r, true) = embed_cls r) by (unfold zembed_cls; cbn [fst snd]; rewrite Eb; reflexivity).
        rewrite Hz. unfold embed_cls. rewrite Eb, Ei, Hp, Hbs. reflexivity.
Qed.

Lemma generated_implementedBy_eq_lazy g qs x c :
  let z := zrun g qs in
  c < length (classes (fst z)) ->
  gen_implementedBy (S c) g (zembed z x) (RClass c) = (zembed (zensure z c) x, NC c).
Proof.
  intros z Hc. pose proof (zrun_inv g qs) as I. fold z in I. destruct z as [[cs ins ca] fl].
  destruct I as [L W Cl D B Ii Ic Nd]. cbn [fst snd classes] in *.
  unfold zensure. cbn [fst snd classes].
  apply gen_implementedBy_eq; auto. split; [|split]; auto.
Qed.
