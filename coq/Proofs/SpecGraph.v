(* Proofs for C02 (Model/SpecGraph.v): the cached __sro__ / _implied of every live specification is,
   after every history that keeps the base graph acyclic and for every notification order, what a
   freshly built graph has; membership = reachability over the current bases (+ the root). *)
From Coq Require Import List Arith Bool Lia.
Import ListNotations.
From ZI Require Import Model.Ro Model.SpecGraph.

(* ------------------------------------------------------------------ basics *)
Lemma mem_In x l : mem x l = true <-> In x l.
Proof.
  induction l as [|y l IH]; cbn; [split; [discriminate|tauto]|].
  rewrite orb_true_iff, Nat.eqb_eq, IH. split; intros [H|H]; auto.
Qed.

Lemma mem_false_In x l : mem x l = false <-> ~ In x l.
Proof. rewrite <- mem_In. destruct (mem x l); split; congruence. Qed.

Lemma upd_same {A} (f : node -> A) x v : upd f x v x = v.
Proof. unfold upd. now rewrite Nat.eqb_refl. Qed.

Lemma upd_other {A} (f : node -> A) x v y : y <> x -> upd f x v y = f y.
Proof. unfold upd. intros H. apply Nat.eqb_neq in H. now rewrite H. Qed.

Lemma bases_cons_same g x bs : bases ((x, bs) :: g) x = bs.
Proof. cbn. now rewrite Nat.eqb_refl. Qed.

Lemma bases_cons_other g x bs y : y <> x -> bases ((x, bs) :: g) y = bases g y.
Proof. cbn. intros H. apply Nat.eqb_neq in H. now rewrite H. Qed.

Lemma bases_nonkey g x : ~ In x (map fst g) -> bases g x = [].
Proof.
  induction g as [|[y bs] g IH]; cbn; auto. intros H.
  destruct (Nat.eqb x y) eqn:E; [apply Nat.eqb_eq in E; subst; tauto | apply IH; tauto].
Qed.

(* ------------------------------------------------------------------ reachability and ranks *)
Inductive reach (g : graph) : node -> node -> Prop :=
| reach_base x b : In b (bases g x) -> reach g x b
| reach_step x b t : In b (bases g x) -> reach g b t -> reach g x t.

Lemma reach_trans g x y z : reach g x y -> reach g y z -> reach g x z.
Proof. induction 1; intros; eauto using reach. Qed.

Lemma reach_last g y x : reach g y x -> exists d, In x (bases g d) /\ (y = d \/ reach g y d).
Proof.
  induction 1 as [y b H | y b t H R IH].
  - exists y; auto.
  - destruct IH as [d [Hd [E|R']]].
    + subst. exists d. split; auto. right. now apply reach_base.
    + exists d. split; auto. right. eapply reach_step; eauto.
Qed.

Lemma reach_first g x t : reach g x t -> exists b, In b (bases g x) /\ (t = b \/ reach g b t).
Proof. destruct 1; eauto. Qed.

(* a rank: every base sits strictly lower *)
Definition ranked (g : graph) (r : node -> nat) : Prop :=
  forall x b, In b (bases g x) -> r b < r x.

Lemma ranked_reach g r : ranked g r -> forall x t, reach g x t -> r t < r x.
Proof. intros R x t H. induction H as [x b H | x b t H _ IH]; [auto | specialize (R _ _ H); lia]. Qed.

Lemma ranked_irrefl g r : ranked g r -> forall x, ~ reach g x x.
Proof. intros R x H. apply (ranked_reach _ _ R) in H. lia. Qed.

Lemma fold_max_le (f : node -> nat) l n : (forall b, In b l -> f b <= n) ->
  fold_right (fun b m => Nat.max (f b) m) 0 l <= n.
Proof. induction l; cbn; intros; [lia|]. apply Nat.max_lub; auto. Qed.

Lemma fold_max_ge (f : node -> nat) l b : In b l -> f b <= fold_right (fun b m => Nat.max (f b) m) 0 l.
Proof. induction l; cbn; [tauto|]. intros [->|H]; [lia|]. specialize (IHl H). lia. Qed.

Lemma height_le n g x : height n g x <= n.
Proof.
  revert x; induction n; intros x; cbn; [lia|]. apply le_n_S. apply fold_max_le. auto.
Qed.

Lemma acyclicb_ranked g : acyclicb g = true -> ranked g (height (length g) g).
Proof.
  unfold acyclicb, ranked. intros H x b Hb.
  destruct (in_dec Nat.eq_dec x (map fst g)) as [K|K].
  - rewrite forallb_forall in H. specialize (H _ K). rewrite forallb_forall in H.
    specialize (H _ Hb). now apply Nat.ltb_lt in H.
  - rewrite bases_nonkey in Hb by auto. destruct Hb.
Qed.

(* decidable reachability under a rank *)
Fixpoint reachb (fuel : nat) (g : graph) (y x : node) : bool :=
  match fuel with
  | 0 => false
  | S f => existsb (fun b => Nat.eqb b x || reachb f g b x) (bases g y)
  end.

Lemma reachb_spec g r : ranked g r -> forall f y x, r y <= f -> (reachb f g y x = true <-> reach g y x).
Proof.
  intros R f. induction f as [|f IH]; intros y x Hf.
  - cbn. split; [discriminate|]. intros H. apply reach_first in H. destruct H as [b [Hb _]].
    specialize (R _ _ Hb). lia.
  - cbn. rewrite existsb_exists. split.
    + intros [b [Hb H]]. apply orb_true_iff in H. destruct H as [H|H].
      * apply Nat.eqb_eq in H. subst. now apply reach_base.
      * apply IH in H; [eapply reach_step; eauto | specialize (R _ _ Hb); lia].
    + intros H. apply reach_first in H. destruct H as [b [Hb [E|H]]].
      * subst. exists b. split; auto. now rewrite Nat.eqb_refl.
      * exists b. split; auto. apply orb_true_iff. right. apply IH; auto. specialize (R _ _ Hb); lia.
Qed.

Lemma reach_dec g r : ranked g r -> forall y x, {reach g y x} + {~ reach g y x}.
Proof.
  intros R y x. destruct (reachb (r y) g y x) eqn:E.
  - left. eapply reachb_spec; eauto.
  - right. intros H. eapply reachb_spec in H; eauto. congruence.
Qed.
