(* Proofs for C02 (Model/SpecGraph.v): the cached __sro__ / _implied of every live specification is,
   after every history that keeps the base graph acyclic and for every notification order, what a
   freshly built graph has; membership = reachability over the current bases (+ the root). *)
From Coq Require Import List Arith Bool Lia.
Import ListNotations.
From ZI Require Import Model.Ro Model.SpecGraph.

(* ------------------------------------------------------------------ basics *)
Lemma mem_In x l : mem x l = true <-> In x l.
Proof.
  induction l as [|y l IH]; cbn; [split; [discriminate|tauto]|].
  rewrite orb_true_iff, Nat.eqb_eq, IH. split; intros [H|H]; auto.
Qed.

Lemma mem_false_In x l : mem x l = false <-> ~ In x l.
Proof. rewrite <- mem_In. destruct (mem x l); split; congruence. Qed.

Lemma upd_same {A} (f : node -> A) x v : upd f x v x = v.
Proof. unfold upd. now rewrite Nat.eqb_refl. Qed.

Lemma upd_other {A} (f : node -> A) x v y : y <> x -> upd f x v y = f y.
Proof. unfold upd. intros H. apply Nat.eqb_neq in H. now rewrite H. Qed.

Lemma bases_cons_same g x bs : bases ((x, bs) :: g) x = bs.
Proof. cbn. now rewrite Nat.eqb_refl. Qed.

Lemma bases_cons_other g x bs y : y <> x -> bases ((x, bs) :: g) y = bases g y.
Proof. cbn. intros H. apply Nat.eqb_neq in H. now rewrite H. Qed.

Lemma bases_nonkey g x : ~ In x (map fst g) -> bases g x = [].
Proof.
  induction g as [|[y bs] g IH]; cbn; auto. intros H.
  destruct (Nat.eqb x y) eqn:E; [apply Nat.eqb_eq in E; subst; tauto | apply IH; tauto].
Qed.

(* ------------------------------------------------------------------ reachability and ranks *)
Inductive reach (g : graph) : node -> node -> Prop :=
| reach_base x b : In b (bases g x) -> reach g x b
| reach_step x b t : In b (bases g x) -> reach g b t -> reach g x t.

Lemma reach_trans g x y z : reach g x y -> reach g y z -> reach g x z.
Proof. induction 1; intros; eauto using reach. Qed.

Lemma reach_last g y x : reach g y x -> exists d, In x (bases g d) /\ (y = d \/ reach g y d).
Proof.
  induction 1 as [y b H | y b t H R IH].
  - exists y; auto.
  - destruct IH as [d [Hd [E|R']]].
    + subst. exists d. split; auto. right. now apply reach_base.
    + exists d. split; auto. right. eapply reach_step; eauto.
Qed.

Lemma reach_first g x t : reach g x t -> exists b, In b (bases g x) /\ (t = b \/ reach g b t).
Proof. destruct 1; eauto. Qed.

(* a rank: every base sits strictly lower *)
Definition ranked (g : graph) (r : node -> nat) : Prop :=
  forall x b, In b (bases g x) -> r b < r x.

Lemma ranked_reach g r : ranked g r -> forall x t, reach g x t -> r t < r x.
Proof. intros R x t H. induction H as [x b H | x b t H _ IH]; [auto | specialize (R _ _ H); lia]. Qed.

Lemma ranked_irrefl g r : ranked g r -> forall x, ~ reach g x x.
Proof. intros R x H. apply (ranked_reach _ _ R) in H. lia. Qed.

Lemma fold_max_le (f : node -> nat) l n : (forall b, In b l -> f b <= n) ->
  fold_right (fun b m => Nat.max (f b) m) 0 l <= n.
Proof. induction l; cbn; intros; [lia|]. apply Nat.max_lub; auto. Qed.

Lemma fold_max_ge (f : node -> nat) l b : In b l -> f b <= fold_right (fun b m => Nat.max (f b) m) 0 l.
Proof. induction l; cbn; [tauto|]. intros [-> |H]; [lia|]. specialize (IHl H). lia. Qed.

Lemma height_le n g x : height n g x <= n.
Proof.
  revert x; induction n; intros x; cbn; [lia|]. apply le_n_S. apply fold_max_le. auto.
Qed.

Lemma acyclicb_ranked g : acyclicb g = true -> ranked g (height (length g) g).
Proof.
  unfold acyclicb, ranked. intros H x b Hb.
  destruct (in_dec Nat.eq_dec x (map fst g)) as [K|K].
  - rewrite forallb_forall in H. specialize (H _ K). rewrite forallb_forall in H.
    specialize (H _ Hb). now apply Nat.ltb_lt in H.
  - rewrite bases_nonkey in Hb by auto. destruct Hb.
Qed.

(* decidable reachability under a rank *)
Fixpoint reachb (fuel : nat) (g : graph) (y x : node) : bool :=
  match fuel with
  | 0 => false
  | S f => existsb (fun b => Nat.eqb b x || reachb f g b x) (bases g y)
  end.

Lemma reachb_spec g r : ranked g r -> forall f y x, r y <= f -> (reachb f g y x = true <-> reach g y x).
Proof.
  intros R f. induction f as [|f IH]; intros y x Hf.
  - cbn. split; [discriminate|]. intros H. apply reach_first in H. destruct H as [b [Hb _]].
    specialize (R _ _ Hb). lia.
  - cbn. rewrite existsb_exists. split.
    + intros [b [Hb H]]. apply orb_true_iff in H. destruct H as [H|H].
      * apply Nat.eqb_eq in H. subst. now apply reach_base.
      * apply IH in H; [eapply reach_step; eauto | specialize (R _ _ Hb); lia].
    + intros H. apply reach_first in H. destruct H as [b [Hb [E|H]]].
      * subst. exists b. split; auto. now rewrite Nat.eqb_refl.
      * exists b. split; auto. apply orb_true_iff. right. apply IH; auto. specialize (R _ _ Hb); lia.
Qed.

Lemma reach_dec g r : ranked g r -> forall y x, {reach g y x} + {~ reach g y x}.
Proof.
  intros R y x. destruct (reachb (r y) g y x) eqn:E.
  - left. eapply reachb_spec; eauto.
  - right. intros H. eapply reachb_spec in H; eauto. congruence.
Qed.

(* ------------------------------------------------------------------ C3 merge: fuel and members *)
Lemma find_from_In cands seqs b : find_from cands seqs = Some b -> In b (concat cands).
Proof.
  induction cands as [|s l IH]; cbn; [discriminate|].
  destruct s as [|h s]; cbn.
  - exact IH.
  - destruct (can_choose h seqs); [intros E; injection E; auto | intros E; right; apply in_or_app; auto].
Qed.

Lemma find_next_In seqs b : find_next seqs = Some b -> In b (concat seqs).
Proof. apply find_from_In. Qed.

Lemma concat_filter_nonempty (L : list (list node)) y :
  In y (concat (filter nonempty L)) <-> In y (concat L).
Proof.
  induction L as [|s L IH]; cbn; [tauto|].
  destruct s as [|h s]; cbn; [exact IH|].
  rewrite !in_app_iff. cbn. rewrite IH. tauto.
Qed.

Lemma In_remove_everywhere b seqs y :
  In y (concat (remove_everywhere b seqs)) <-> In y (concat seqs) /\ y <> b.
Proof.
  unfold remove_everywhere. rewrite concat_filter_nonempty.
  induction seqs as [|s L IH]; cbn; [tauto|].
  rewrite !in_app_iff, IH, filter_In, negb_true_iff, Nat.eqb_neq. tauto.
Qed.

Lemma total_len_filter_nonempty L : total_len (filter nonempty L) = total_len L.
Proof. induction L as [|[|h s] L IH]; cbn; auto. Qed.

Lemma filter_length_le {A} (p : A -> bool) s : length (filter p s) <= length s.
Proof. induction s; cbn; [lia|]. destruct (p a); cbn; lia. Qed.

Lemma filter_length_lt {A} (p : A -> bool) s b : In b s -> p b = false -> length (filter p s) < length s.
Proof.
  induction s as [|a s IH]; cbn; [tauto|]. intros [-> |H] Hp.
  - rewrite Hp. pose proof (filter_length_le p s). lia.
  - specialize (IH H Hp). destruct (p a); cbn; lia.
Qed.

Lemma total_len_cons s L : total_len (s :: L) = length s + total_len L.
Proof. reflexivity. Qed.

Lemma total_len_map_filter_le p L : total_len (map (filter p) L) <= total_len L.
Proof.
  induction L as [|s L IH]; [cbn; lia|]. cbn [map]. rewrite !total_len_cons.
  pose proof (filter_length_le p s). lia.
Qed.

Lemma total_len_map_filter_lt p b seqs : In b (concat seqs) -> p b = false ->
  total_len (map (filter p) seqs) < total_len seqs.
Proof.
  intros H E. induction seqs as [|s L IH]; [destruct H|].
  cbn [concat map] in *. rewrite in_app_iff in H. rewrite !total_len_cons.
  pose proof (total_len_map_filter_le p L) as Hle.
  pose proof (filter_length_le p s) as Hs.
  destruct H as [H|H].
  - pose proof (filter_length_lt p s b H E) as Hlt. lia.
  - specialize (IH H). lia.
Qed.

Lemma total_len_remove b seqs : In b (concat seqs) ->
  total_len (remove_everywhere b seqs) < total_len seqs.
Proof.
  unfold remove_everywhere. rewrite total_len_filter_nonempty. intros H.
  apply total_len_map_filter_lt with (b := b); auto. now rewrite Nat.eqb_refl.
Qed.

Lemma merge_loop_no_fuel fuel : forall seqs acc, total_len seqs < fuel -> merge_loop fuel seqs acc <> MFuel.
Proof.
  induction fuel as [|f IH]; intros seqs acc H; [lia|]. cbn.
  destruct seqs as [|s L]; [discriminate|].
  destruct (find_next (s :: L)) eqn:E; [|discriminate].
  apply IH. apply find_next_In in E. apply total_len_remove in E. lia.
Qed.

Lemma merge_loop_members fuel : forall seqs acc l, merge_loop fuel seqs acc = MOk l ->
  forall y, In y l <-> In y acc \/ In y (concat seqs).
Proof.
  induction fuel as [|f IH]; intros seqs acc l; cbn; [discriminate|].
  destruct seqs as [|s L].
  - intros E; injection E as <-. intros y. rewrite <- in_rev. cbn. tauto.
  - destruct (find_next (s :: L)) eqn:E; [|discriminate]. intros H y.
    rewrite (IH _ _ _ H y), In_remove_everywhere. cbn [In].
    apply find_next_In in E.
    destruct (Nat.eq_dec y n) as [-> |N]; [tauto|]. split; [intros [[?|?]|[? ?]]; auto; congruence | tauto].
Qed.

Lemma c3_merge_no_fuel seqs : c3_merge seqs <> MFuel.
Proof. unfold c3_merge. apply merge_loop_no_fuel. lia. Qed.

Lemma c3_merge_members seqs l : c3_merge seqs = MOk l -> forall y, In y l <-> In y (concat seqs).
Proof.
  unfold c3_merge. intros H y. rewrite (merge_loop_members _ _ _ _ H y), concat_filter_nonempty.
  cbn. tauto.
Qed.

(* what one non-strict C3 node returns: the legacy order, or something between
   {x} + the bases' orders and that + the bases themselves *)
Lemma c3_node_members x bs ms leg :
  exists l i, c3_node false x bs ms false leg = ROk l i /\
    (l = leg \/ ((forall y, In y l -> y = x \/ In y (concat ms) \/ In y bs) /\
                 (forall y, y = x \/ In y (concat ms) -> In y l))).
Proof.
  unfold c3_node.
  assert (G : exists l i, match c3_merge ([[x]] ++ ms ++ [bs]) with
                          | MOk l => ROk l false | MBad => ROk leg true | MFuel => RFuel end = ROk l i /\
    (l = leg \/ ((forall y, In y l -> y = x \/ In y (concat ms) \/ In y bs) /\
                 (forall y, y = x \/ In y (concat ms) -> In y l)))).
  { destruct (c3_merge ([[x]] ++ ms ++ [bs])) eqn:E.
    - exists l, false. split; auto. right.
      pose proof (c3_merge_members _ _ E) as M.
      assert (M' : forall y, In y l <-> y = x \/ In y (concat ms) \/ In y bs).
      { intros y. rewrite M. cbn. rewrite concat_app, in_app_iff. cbn. rewrite app_nil_r.
        split; [intros [?|[?|?]]; auto | intros [?|[?|?]]; auto]. }
      split; intros y; rewrite M'; tauto.
    - exists leg, true. auto.
    - exfalso. eapply c3_merge_no_fuel; eauto. }
  destruct bs as [|b [|b' bs']]; auto.
  destruct ms as [|m [|m' ms']]; auto.
  exists (x :: m), false. split; auto. right. cbn. rewrite app_nil_r.
  split; intros y; [intros [?|?]; auto | intros [?|?]; auto].
Qed.

(* ------------------------------------------------------------------ legacy order *)
Lemma keep_last_In l y : In y (keep_last l) <-> In y l.
Proof.
  induction l as [|x t IH]; cbn; [tauto|].
  destruct (mem x t) eqn:E; cbn; rewrite IH; [|tauto].
  apply mem_In in E. split; [auto|intros [-> |?]; auto].
Qed.

Lemma legacy_flatten_fuel g r : ranked g r -> forall f1 f2 x, r x <= f1 -> r x <= f2 ->
  legacy_flatten f1 g x = legacy_flatten f2 g x.
Proof.
  intros R f1. induction f1 as [|f1 IH]; intros f2 x H1 H2.
  - assert (E : bases g x = []).
    { destruct (bases g x) as [|b bs] eqn:E; auto. specialize (R x b). rewrite E in R.
      specialize (R (or_introl eq_refl)). lia. }
    destruct f2; cbn; [auto|]. now rewrite E.
  - destruct f2 as [|f2].
    + assert (E : bases g x = []).
      { destruct (bases g x) as [|b bs] eqn:E; auto. specialize (R x b). rewrite E in R.
        specialize (R (or_introl eq_refl)). lia. }
      cbn. now rewrite E.
    + cbn. f_equal. rewrite !flat_map_concat_map. f_equal. apply map_ext_in.
      intros b Hb. specialize (R _ _ Hb). apply IH; lia.
Qed.

Lemma legacy_flatten_In g r : ranked g r -> forall f x y, r x <= f ->
  (In y (legacy_flatten f g x) <-> y = x \/ reach g x y).
Proof.
  intros R f. induction f as [|f IH]; intros x y H.
  - cbn. split; [intros [?|[]]; auto|]. intros [?|K]; auto.
    apply (ranked_reach _ _ R) in K. lia.
  - cbn. rewrite in_flat_map. split.
    + intros [?|[b [Hb K]]]; auto. right. apply IH in K; [|specialize (R _ _ Hb); lia].
      destruct K as [-> |K]; [now apply reach_base | eapply reach_step; eauto].
    + intros [?|K]; auto. right. apply reach_first in K. destruct K as [b [Hb K]].
      exists b. split; auto. apply IH; [specialize (R _ _ Hb); lia|]. destruct K; auto.
Qed.

Lemma legacy_ro_In g r : ranked g r -> forall f x y, r x <= f ->
  (In y (legacy_ro f g x) <-> y = x \/ reach g x y).
Proof. intros R f x y H. unfold legacy_ro. rewrite keep_last_In. eapply legacy_flatten_In; eauto. Qed.

Lemma legacy_ro_fuel g r : ranked g r -> forall f1 f2 x, r x <= f1 -> r x <= f2 ->
  legacy_ro f1 g x = legacy_ro f2 g x.
Proof. intros. unfold legacy_ro. f_equal. eapply legacy_flatten_fuel; eauto. Qed.

(* frame: rebinding [x] does not change the legacy order of a node that does not reach [x] *)
Lemma legacy_flatten_frame g x bs f : forall y,
  y <> x -> ~ reach ((x, bs) :: g) y x ->
  legacy_flatten f ((x, bs) :: g) y = legacy_flatten f g y.
Proof.
  induction f as [|f IH]; intros y N K; cbn [legacy_flatten]; auto.
  rewrite bases_cons_other by auto. f_equal.
  rewrite !flat_map_concat_map. f_equal. apply map_ext_in. intros b Hb.
  assert (Hb' : In b (bases ((x, bs) :: g) y)) by now rewrite bases_cons_other.
  apply IH.
  - intros ->. apply K. now apply reach_base.
  - intros K'. apply K. eapply reach_step; eauto.
Qed.

(* ------------------------------------------------------------------ one node's order *)
Lemma calc_sro_fuel g r root0 c : ranked g r -> forall f1 f2 x, r x <= f1 -> r x <= f2 ->
  calc_sro false root0 f1 g c x = calc_sro false root0 f2 g c x.
Proof. intros R f1 f2 x H1 H2. unfold calc_sro. now rewrite (legacy_ro_fuel _ _ R f1 f2 x H1 H2). Qed.

Lemma calc_sro_ext root0 f g c1 c2 x : (forall b, In b (bases g x) -> c1 b = c2 b) ->
  calc_sro false root0 f g c1 x = calc_sro false root0 f g c2 x.
Proof. intros H. unfold calc_sro. now rewrite (map_ext_in _ _ _ H). Qed.

Lemma calc_ext g c1 c2 x : (forall b, In b (bases g x) -> c1 b = c2 b) -> calc g c1 x = calc g c2 x.
Proof. intros H. unfold calc. now rewrite (calc_sro_ext _ _ _ _ _ _ H). Qed.

Lemma root_last_In r0 l y : l <> [] -> (In y (root_last r0 l) <-> In y l \/ y = r0).
Proof.
  intros N. unfold root_last. destruct l as [|a l]; [congruence|].
  destruct (last_is r0 (a :: l)) eqn:E.
  - split; auto. intros [?| ->]; auto. unfold last_is in E.
    destruct (rev (a :: l)) as [|z t] eqn:Er; [discriminate|]. apply Nat.eqb_eq in E. subst.
    apply in_rev. rewrite Er. now left.
  - rewrite in_app_iff, filter_In, negb_true_iff, Nat.eqb_neq. cbn [In].
    destruct (Nat.eq_dec y r0); [subst; tauto|]. split; [intros [[? _]|[?|[]]]; auto; congruence | intros [?|?]; auto; congruence].
Qed.

(* members of the recomputed order, when every base's cached order has the right members *)
Lemma calc_members g r c x : ranked g r -> r x <= fuel_of g -> bases g root = [] ->
  (forall b, In b (bases g x) -> forall t, In t (c b) <-> t = b \/ reach g b t \/ t = root) ->
  forall t, In t (calc g c x) <-> t = x \/ reach g x t \/ t = root.
Proof.
  intros R Hf Hroot Hc t. unfold calc, calc_sro.
  destruct (Nat.eqb x root) eqn:Ex.
  - apply Nat.eqb_eq in Ex. subst x. cbn. split; [intros [<- |[]]; auto|].
    intros [?|[K|?]]; auto. apply reach_first in K. destruct K as [b [Hb _]]. rewrite Hroot in Hb. destruct Hb.
  - destruct (c3_node_members x (bases g x) (map c (bases g x)) (legacy_ro (fuel_of g) g x))
      as [l [i [E M]]]. rewrite E.
    assert (Hx : In x l).
    { destruct M as [-> |[_ M]]; [eapply legacy_ro_In; eauto | apply M; auto]. }
    rewrite root_last_In by (intros ->; destruct Hx).
    assert (Hl : In t l <-> t = x \/ reach g x t \/ (t = root /\ In root l)).
    { destruct M as [-> |[M1 M2]].
      - rewrite (legacy_ro_In _ _ R _ _ t Hf). split; [intros [?|?]; auto|].
        intros [?|[?|[-> K]]]; auto. eapply legacy_ro_In; eauto.
      - split.
        + intros K. pose proof K as K0. apply M1 in K. destruct K as [?|[K|K]]; auto.
          * apply in_concat in K. destruct K as [m [Hm K]]. apply in_map_iff in Hm.
            destruct Hm as [b [<- Hb]]. apply (Hc b Hb) in K.
            destruct K as [-> |[K| ->]]; auto.
            -- right; left. now apply reach_base.
            -- right; left. eapply reach_step; eauto.
          * right; left. now apply reach_base.
        + intros [?|[K|[-> K]]]; auto. apply M2. right.
          apply reach_first in K. destruct K as [b [Hb K]].
          apply in_concat. exists (c b). split; [now apply in_map|]. apply (Hc b Hb). tauto. }
    rewrite Hl. tauto.
Qed.

(* ------------------------------------------------------------------ the freshly built graph *)
Definition unres (r : rres) : list node := match r with ROk m _ => m | _ => [] end.

Lemma calc_unfold g c x : calc g c x = unres (calc_sro false root (fuel_of g) g c x).
Proof. reflexivity. Qed.

Lemma fresh_unfold f g x :
  fresh_sro (S f) root g x = unres (calc_sro false root (S f) g (fresh_sro f root g) x).
Proof. reflexivity. Qed.

Lemma fresh_sro_fuel g r : ranked g r -> forall f1 f2 x, r x < f1 -> r x < f2 ->
  fresh_sro f1 root g x = fresh_sro f2 root g x.
Proof.
  intros R f1. induction f1 as [|f1 IH]; intros f2 x H1 H2; [lia|].
  destruct f2 as [|f2]; [lia|]. rewrite !fresh_unfold.
  rewrite (calc_sro_fuel g r root (fresh_sro f1 root g) R (S f1) (S f2) x) by lia.
  rewrite (calc_sro_ext root (S f2) g (fresh_sro f1 root g) (fresh_sro f2 root g)); auto.
  intros b Hb. specialize (R _ _ Hb). apply IH; lia.
Qed.

(* local consistency: the cached order is what _calculate_sro gives from the bases' caches *)
Definition lc_at (g : graph) (c : node -> list node) (y : node) : Prop := c y = calc g c y.

Lemma lc_fresh g r c (P : node -> Prop) : ranked g r -> (forall x, r x <= fuel_of g) ->
  (forall y b, P y -> In b (bases g y) -> P b) ->
  (forall y, P y -> lc_at g c y) ->
  forall f y, P y -> r y < f -> c y = fresh_sro f root g y.
Proof.
  intros R Hb Hcl Hlc f. induction f as [|f IH]; intros y Py Hf; [lia|].
  rewrite (Hlc y Py), fresh_unfold, calc_unfold.
  rewrite (calc_sro_fuel g r root c R (fuel_of g) (S f) y) by (auto; lia).
  f_equal. apply calc_sro_ext. intros b Hbb. specialize (R _ _ Hbb).
  apply IH; [eapply Hcl; eauto | lia].
Qed.

Lemma lc_members g r c (P : node -> Prop) : ranked g r -> (forall x, r x <= fuel_of g) ->
  bases g root = [] ->
  (forall y b, P y -> In b (bases g y) -> P b) ->
  (forall y, P y -> lc_at g c y) ->
  forall n y, P y -> r y < n -> forall t, In t (c y) <-> t = y \/ reach g y t \/ t = root.
Proof.
  intros R Hb Hroot Hcl Hlc n. induction n as [|n IH]; intros y Py Hn; [lia|].
  rewrite (Hlc y Py). apply (calc_members g r c y R (Hb y) Hroot).
  intros b Hbb. specialize (R _ _ Hbb). apply IH; [eapply Hcl; eauto | lia].
Qed.

(* ------------------------------------------------------------------ the dependents dictionaries *)
Definition deps_pos (l : deps_t) : Prop := Forall (fun p => 0 < snd p) l.

Lemma dep_total_incr D d l :
  dep_total D (dep_incr d l) = dep_total D l + (if Nat.eqb D d then 1 else 0).
Proof.
  induction l as [|[y n] l IH]; cbn.
  - destruct (Nat.eqb D d); lia.
  - destruct (Nat.eqb d y) eqn:E; cbn.
    + apply Nat.eqb_eq in E. subst y. destruct (Nat.eqb D d); lia.
    + rewrite IH. lia.
Qed.

Lemma deps_pos_incr d l : deps_pos l -> deps_pos (dep_incr d l).
Proof.
  unfold deps_pos. induction l as [|[y n] l IH]; cbn; intros H.
  - constructor; cbn; auto.
  - inversion H; subst. destruct (Nat.eqb d y); constructor; cbn in *; auto; lia.
Qed.

Lemma dep_total_decr D d l : deps_pos l ->
  dep_total D (dep_decr d l) = dep_total D l - (if Nat.eqb D d then 1 else 0).
Proof.
  unfold deps_pos. induction l as [|[y n] l IH]; cbn; intros H; [lia|].
  inversion H as [|? ? Hn Hl]; subst. cbn in Hn.
  destruct (Nat.eqb d y) eqn:E.
  - apply Nat.eqb_eq in E. subst y. destruct n as [|[|k]]; [lia| |]; cbn; destruct (Nat.eqb D d); lia.
  - cbn. rewrite (IH Hl). destruct (Nat.eqb D d) eqn:E2; [|lia].
    apply Nat.eqb_eq in E2. subst D. rewrite E. lia.
Qed.

Lemma deps_pos_decr d l : deps_pos l -> deps_pos (dep_decr d l).
Proof.
  unfold deps_pos. induction l as [|[y n] l IH]; cbn; intros H; auto.
  inversion H; subst. destruct (Nat.eqb d y).
  - destruct n as [|[|k]]; auto. constructor; cbn; auto; lia.
  - constructor; auto.
Qed.

Lemma dep_total_remove D d l :
  dep_total D (dep_remove d l) = if Nat.eqb D d then 0 else dep_total D l.
Proof.
  unfold dep_remove. induction l as [|[y n] l IH]; cbn; [destruct (Nat.eqb D d); auto|].
  destruct (Nat.eqb y d) eqn:E; cbn; rewrite IH.
  - apply Nat.eqb_eq in E. subst y. destruct (Nat.eqb D d); lia.
  - destruct (Nat.eqb D d) eqn:E2; auto. apply Nat.eqb_eq in E2. subst D.
    rewrite Nat.eqb_sym, E. lia.
Qed.

Lemma deps_pos_remove d l : deps_pos l -> deps_pos (dep_remove d l).
Proof.
  unfold deps_pos, dep_remove. intros H. apply Forall_forall. intros p Hp.
  apply filter_In in Hp. rewrite Forall_forall in H. apply H. tauto.
Qed.

Lemma dep_keys_total d l : deps_pos l -> (In d (dep_keys l) <-> 0 < dep_total d l).
Proof.
  unfold deps_pos, dep_keys. induction l as [|[y n] l IH]; cbn; intros H; [split; [tauto|lia]|].
  inversion H as [|? ? Hn Hl]; subst. cbn in Hn. specialize (IH Hl).
  destruct (Nat.eqb d y) eqn:E.
  - apply Nat.eqb_eq in E. subst. split; auto. intros _. lia.
  - apply Nat.eqb_neq in E. rewrite IH. split; [intros [?|?]; [congruence|lia] | intros ?; right; lia].
Qed.

(* the two loops of __setBases on the dictionaries *)
Lemma unsub_fold x l : forall dp, (forall S, deps_pos (dp S)) ->
  let dp' := fold_left (fun dp b => unsubscribe x b dp) l dp in
  (forall S, deps_pos (dp' S)) /\
  (forall S D, dep_total D (dp' S) = dep_total D (dp S) - (if Nat.eqb D x then count_occ Nat.eq_dec l S else 0)).
Proof.
  induction l as [|b l IH]; intros dp Hp; cbn [fold_left].
  - split; auto. intros S D. cbn. destruct (Nat.eqb D x); lia.
  - set (dp1 := unsubscribe x b dp).
    assert (Hp1 : forall S, deps_pos (dp1 S)).
    { intros S. unfold dp1, unsubscribe, upd. destruct (Nat.eqb S b); auto. now apply deps_pos_decr. }
    destruct (IH dp1 Hp1) as [A B]. split; auto. intros S D. rewrite B.
    unfold dp1, unsubscribe, upd. destruct (Nat.eq_dec b S) as [->|N].
    + rewrite (count_occ_cons_eq Nat.eq_dec l eq_refl), Nat.eqb_refl, dep_total_decr by auto. destruct (Nat.eqb D x); lia.
    + assert (E : Nat.eqb S b = false) by (apply Nat.eqb_neq; congruence). rewrite E.
      rewrite (count_occ_cons_neq Nat.eq_dec l N). destruct (Nat.eqb D x); lia.
Qed.

Lemma sub_fold x l : forall dp, (forall S, deps_pos (dp S)) ->
  let dp' := fold_left (fun dp b => subscribe x b dp) l dp in
  (forall S, deps_pos (dp' S)) /\
  (forall S D, dep_total D (dp' S) = dep_total D (dp S) + (if Nat.eqb D x then count_occ Nat.eq_dec l S else 0)).
Proof.
  induction l as [|b l IH]; intros dp Hp; cbn [fold_left].
  - split; auto. intros S D. cbn. destruct (Nat.eqb D x); lia.
  - set (dp1 := subscribe x b dp).
    assert (Hp1 : forall S, deps_pos (dp1 S)).
    { intros S. unfold dp1, subscribe, upd. destruct (Nat.eqb S b); auto. now apply deps_pos_incr. }
    destruct (IH dp1 Hp1) as [A B]. split; auto. intros S D. rewrite B.
    unfold dp1, subscribe, upd. destruct (Nat.eq_dec b S) as [->|N].
    + rewrite (count_occ_cons_eq Nat.eq_dec l eq_refl), Nat.eqb_refl, dep_total_incr. destruct (Nat.eqb D x); lia.
    + assert (E : Nat.eqb S b = false) by (apply Nat.eqb_neq; congruence). rewrite E.
      rewrite (count_occ_cons_neq Nat.eq_dec l N). destruct (Nat.eqb D x); lia.
Qed.

Lemma remove_fold x l : forall dp, (forall S, deps_pos (dp S)) ->
  let dp' := fold_left (fun dp b => upd dp b (dep_remove x (dp b))) l dp in
  (forall S, deps_pos (dp' S)) /\
  (forall S D, dep_total D (dp' S) = if Nat.eqb D x && mem S l then 0 else dep_total D (dp S)).
Proof.
  induction l as [|b l IH]; intros dp Hp; cbn.
  - split; auto. intros S D. now rewrite andb_false_r.
  - set (dp1 := upd dp b (dep_remove x (dp b))).
    assert (Hp1 : forall S, deps_pos (dp1 S)).
    { intros S. unfold dp1, upd. destruct (Nat.eqb S b); auto. now apply deps_pos_remove. }
    destruct (IH dp1 Hp1) as [A B]. split; auto. intros S D. rewrite B.
    unfold dp1, upd. destruct (Nat.eqb S b) eqn:E; cbn.
    + rewrite dep_total_remove. destruct (Nat.eqb D x); cbn; auto. now destruct (mem S l).
    + reflexivity.
Qed.
