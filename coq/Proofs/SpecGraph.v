(* Proofs for C02 (Model/SpecGraph.v): the cached __sro__ / _implied of every live specification is,
   after every history that keeps the base graph acyclic and for every notification order, what a
   freshly built graph has; membership = reachability over the current bases (+ the root). *)
From Coq Require Import List Arith Bool Lia.
Import ListNotations.
From ZI Require Import Model.Ro Model.SpecGraph Spec.SpecGraph.

(* ------------------------------------------------------------------ basics *)
Lemma mem_In x l : mem x l = true <-> In x l.
Proof.
  induction l as [|y l IH]; cbn; [split; [discriminate|tauto]|].
  rewrite orb_true_iff, Nat.eqb_eq, IH. split; intros [H|H]; auto.
Qed.

Lemma mem_false_In x l : mem x l = false <-> ~ In x l.
Proof. rewrite <- mem_In. destruct (mem x l); split; congruence. Qed.

Lemma upd_same {A} (f : node -> A) x v : upd f x v x = v.
Proof. unfold upd. now rewrite Nat.eqb_refl. Qed.

Lemma upd_other {A} (f : node -> A) x v y : y <> x -> upd f x v y = f y.
Proof. unfold upd. intros H. apply Nat.eqb_neq in H. now rewrite H. Qed.

Lemma bases_cons_same g x bs : bases ((x, bs) :: g) x = bs.
Proof. cbn. now rewrite Nat.eqb_refl. Qed.

Lemma bases_cons_other g x bs y : y <> x -> bases ((x, bs) :: g) y = bases g y.
Proof. cbn. intros H. apply Nat.eqb_neq in H. now rewrite H. Qed.

Lemma bases_nonkey g x : ~ In x (map fst g) -> bases g x = [].
Proof.
  induction g as [|[y bs] g IH]; cbn; auto. intros H.
  destruct (Nat.eqb x y) eqn:E; [apply Nat.eqb_eq in E; subst; tauto | apply IH; tauto].
Qed.

(* ------------------------------------------------------------------ reachability and ranks *)
Lemma reach_trans g x y z : reach g x y -> reach g y z -> reach g x z.
Proof. induction 1; intros; eauto using reach. Qed.

Lemma reach_last g y x : reach g y x -> exists d, In x (bases g d) /\ (y = d \/ reach g y d).
Proof.
  induction 1 as [y b H | y b t H R IH].
  - exists y; auto.
  - destruct IH as [d [Hd [E|R']]].
    + subst. exists d. split; auto. right. now apply reach_base.
    + exists d. split; auto. right. eapply reach_step; eauto.
Qed.

Lemma reach_first g x t : reach g x t -> exists b, In b (bases g x) /\ (t = b \/ reach g b t).
Proof. destruct 1; eauto. Qed.

Lemma ranked_reach g r : ranked g r -> forall x t, reach g x t -> r t < r x.
Proof. intros R x t H. induction H as [x b H | x b t H _ IH]; [auto | specialize (R _ _ H); lia]. Qed.

Lemma ranked_irrefl g r : ranked g r -> forall x, ~ reach g x x.
Proof. intros R x H. apply (ranked_reach _ _ R) in H. lia. Qed.

Lemma fold_max_le (f : node -> nat) l n : (forall b, In b l -> f b <= n) ->
  fold_right (fun b m => Nat.max (f b) m) 0 l <= n.
Proof. induction l; cbn; intros; [lia|]. apply Nat.max_lub; auto. Qed.

Lemma fold_max_ge (f : node -> nat) l b : In b l -> f b <= fold_right (fun b m => Nat.max (f b) m) 0 l.
Proof. induction l; cbn; [tauto|]. intros [-> |H]; [lia|]. specialize (IHl H). lia. Qed.

Lemma height_le n g x : height n g x <= n.
Proof.
  revert x; induction n; intros x; cbn; [lia|]. apply le_n_S. apply fold_max_le. auto.
Qed.

Lemma acyclicb_ranked g : acyclicb g = true -> ranked g (height (length g) g).
Proof.
  unfold acyclicb, ranked. intros H x b Hb.
  destruct (in_dec Nat.eq_dec x (map fst g)) as [K|K].
  - rewrite forallb_forall in H. specialize (H _ K). rewrite forallb_forall in H.
    specialize (H _ Hb). now apply Nat.ltb_lt in H.
  - rewrite bases_nonkey in Hb by auto. destruct Hb.
Qed.

(* decidable reachability under a rank *)
Fixpoint reachb (fuel : nat) (g : graph) (y x : node) : bool :=
  match fuel with
  | 0 => false
  | S f => existsb (fun b => Nat.eqb b x || reachb f g b x) (bases g y)
  end.

Lemma reachb_spec g r : ranked g r -> forall f y x, r y <= f -> (reachb f g y x = true <-> reach g y x).
Proof.
  intros R f. induction f as [|f IH]; intros y x Hf.
  - cbn. split; [discriminate|]. intros H. apply reach_first in H. destruct H as [b [Hb _]].
    specialize (R _ _ Hb). lia.
  - cbn. rewrite existsb_exists. split.
    + intros [b [Hb H]]. apply orb_true_iff in H. destruct H as [H|H].
      * apply Nat.eqb_eq in H. subst. now apply reach_base.
      * apply IH in H; [eapply reach_step; eauto | specialize (R _ _ Hb); lia].
    + intros H. apply reach_first in H. destruct H as [b [Hb [E|H]]].
      * subst. exists b. split; auto. now rewrite Nat.eqb_refl.
      * exists b. split; auto. apply orb_true_iff. right. apply IH; auto. specialize (R _ _ Hb); lia.
Qed.

Lemma reach_dec g r : ranked g r -> forall y x, {reach g y x} + {~ reach g y x}.
Proof.
  intros R y x. destruct (reachb (r y) g y x) eqn:E.
  - left. eapply reachb_spec; eauto.
  - right. intros H. eapply reachb_spec in H; eauto. congruence.
Qed.

(* ------------------------------------------------------------------ C3 merge: fuel and members *)
Lemma find_from_In cands seqs b : find_from cands seqs = Some b -> In b (concat cands).
Proof.
  induction cands as [|s l IH]; cbn; [discriminate|].
  destruct s as [|h s]; cbn.
  - exact IH.
  - destruct (can_choose h seqs); [intros E; injection E; auto | intros E; right; apply in_or_app; auto].
Qed.

Lemma find_next_In seqs b : find_next seqs = Some b -> In b (concat seqs).
Proof. apply find_from_In. Qed.

Lemma concat_filter_nonempty (L : list (list node)) y :
  In y (concat (filter nonempty L)) <-> In y (concat L).
Proof.
  induction L as [|s L IH]; cbn; [tauto|].
  destruct s as [|h s]; cbn; [exact IH|].
  rewrite !in_app_iff. cbn. rewrite IH. tauto.
Qed.

Lemma In_remove_everywhere b seqs y :
  In y (concat (remove_everywhere b seqs)) <-> In y (concat seqs) /\ y <> b.
Proof.
  unfold remove_everywhere. rewrite concat_filter_nonempty.
  induction seqs as [|s L IH]; cbn; [tauto|].
  rewrite !in_app_iff, IH, filter_In, negb_true_iff, Nat.eqb_neq. tauto.
Qed.

Lemma total_len_filter_nonempty L : total_len (filter nonempty L) = total_len L.
Proof. induction L as [|[|h s] L IH]; cbn; auto. Qed.

Lemma filter_length_le {A} (p : A -> bool) s : length (filter p s) <= length s.
Proof. induction s; cbn; [lia|]. destruct (p a); cbn; lia. Qed.

Lemma filter_length_lt {A} (p : A -> bool) s b : In b s -> p b = false -> length (filter p s) < length s.
Proof.
  induction s as [|a s IH]; cbn; [tauto|]. intros [-> |H] Hp.
  - rewrite Hp. pose proof (filter_length_le p s). lia.
  - specialize (IH H Hp). destruct (p a); cbn; lia.
Qed.

Lemma total_len_cons s L : total_len (s :: L) = length s + total_len L.
Proof. reflexivity. Qed.

Lemma total_len_map_filter_le p L : total_len (map (filter p) L) <= total_len L.
Proof.
  induction L as [|s L IH]; [cbn; lia|]. cbn [map]. rewrite !total_len_cons.
  pose proof (filter_length_le p s). lia.
Qed.

Lemma total_len_map_filter_lt p b seqs : In b (concat seqs) -> p b = false ->
  total_len (map (filter p) seqs) < total_len seqs.
Proof.
  intros H E. induction seqs as [|s L IH]; [destruct H|].
  cbn [concat map] in *. rewrite in_app_iff in H. rewrite !total_len_cons.
  pose proof (total_len_map_filter_le p L) as Hle.
  pose proof (filter_length_le p s) as Hs.
  destruct H as [H|H].
  - pose proof (filter_length_lt p s b H E) as Hlt. lia.
  - specialize (IH H). lia.
Qed.

Lemma total_len_remove b seqs : In b (concat seqs) ->
  total_len (remove_everywhere b seqs) < total_len seqs.
Proof.
  unfold remove_everywhere. rewrite total_len_filter_nonempty. intros H.
  apply total_len_map_filter_lt with (b := b); auto. now rewrite Nat.eqb_refl.
Qed.

Lemma merge_loop_no_fuel fuel : forall seqs acc, total_len seqs < fuel -> merge_loop fuel seqs acc <> MFuel.
Proof.
  induction fuel as [|f IH]; intros seqs acc H; [lia|]. cbn.
  destruct seqs as [|s L]; [discriminate|].
  destruct (find_next (s :: L)) eqn:E; [|discriminate].
  apply IH. apply find_next_In in E. apply total_len_remove in E. lia.
Qed.

Lemma merge_loop_members fuel : forall seqs acc l, merge_loop fuel seqs acc = MOk l ->
  forall y, In y l <-> In y acc \/ In y (concat seqs).
Proof.
  induction fuel as [|f IH]; intros seqs acc l; cbn; [discriminate|].
  destruct seqs as [|s L].
  - intros E; injection E as <-. intros y. rewrite <- in_rev. cbn. tauto.
  - destruct (find_next (s :: L)) eqn:E; [|discriminate]. intros H y.
    rewrite (IH _ _ _ H y), In_remove_everywhere. cbn [In].
    apply find_next_In in E.
    destruct (Nat.eq_dec y n) as [-> |N]; [tauto|]. split; [intros [[?|?]|[? ?]]; auto; congruence | tauto].
Qed.

Lemma c3_merge_no_fuel seqs : c3_merge seqs <> MFuel.
Proof. unfold c3_merge. apply merge_loop_no_fuel. lia. Qed.

Lemma c3_merge_members seqs l : c3_merge seqs = MOk l -> forall y, In y l <-> In y (concat seqs).
Proof.
  unfold c3_merge. intros H y. rewrite (merge_loop_members _ _ _ _ H y), concat_filter_nonempty.
  cbn. tauto.
Qed.

(* what one non-strict C3 node returns: the legacy order, or something between
   {x} + the bases' orders and that + the bases themselves *)
Lemma c3_node_members x bs ms leg :
  exists l i, c3_node false x bs ms false leg = ROk l i /\
    (l = leg \/ ((forall y, In y l -> y = x \/ In y (concat ms) \/ In y bs) /\
                 (forall y, y = x \/ In y (concat ms) -> In y l))).
Proof.
  unfold c3_node.
  assert (G : exists l i, match c3_merge ([[x]] ++ ms ++ [bs]) with
                          | MOk l => ROk l false | MBad => ROk leg true | MFuel => RFuel end = ROk l i /\
    (l = leg \/ ((forall y, In y l -> y = x \/ In y (concat ms) \/ In y bs) /\
                 (forall y, y = x \/ In y (concat ms) -> In y l)))).
  { destruct (c3_merge ([[x]] ++ ms ++ [bs])) eqn:E.
    - exists l, false. split; auto. right.
      pose proof (c3_merge_members _ _ E) as M.
      assert (M' : forall y, In y l <-> y = x \/ In y (concat ms) \/ In y bs).
      { intros y. rewrite M. cbn. rewrite concat_app, in_app_iff. cbn. rewrite app_nil_r.
        split; [intros [?|[?|?]]; auto | intros [?|[?|?]]; auto]. }
      split; intros y; rewrite M'; tauto.
    - exists leg, true. auto.
    - exfalso. eapply c3_merge_no_fuel; eauto. }
  destruct bs as [|b [|b' bs']]; auto.
  destruct ms as [|m [|m' ms']]; auto.
  exists (x :: m), false. split; auto. right. cbn. rewrite app_nil_r.
  split; intros y; [intros [?|?]; auto | intros [?|?]; auto].
Qed.

(* ------------------------------------------------------------------ legacy order *)
Lemma keep_last_In l y : In y (keep_last l) <-> In y l.
Proof.
  induction l as [|x t IH]; cbn; [tauto|].
  destruct (mem x t) eqn:E; cbn; rewrite IH; [|tauto].
  apply mem_In in E. split; [auto|intros [-> |?]; auto].
Qed.

Lemma legacy_flatten_fuel g r : ranked g r -> forall f1 f2 x, r x <= f1 -> r x <= f2 ->
  legacy_flatten f1 g x = legacy_flatten f2 g x.
Proof.
  intros R f1. induction f1 as [|f1 IH]; intros f2 x H1 H2.
  - assert (E : bases g x = []).
    { destruct (bases g x) as [|b bs] eqn:E; auto. specialize (R x b). rewrite E in R.
      specialize (R (or_introl eq_refl)). lia. }
    destruct f2; cbn; [auto|]. now rewrite E.
  - destruct f2 as [|f2].
    + assert (E : bases g x = []).
      { destruct (bases g x) as [|b bs] eqn:E; auto. specialize (R x b). rewrite E in R.
        specialize (R (or_introl eq_refl)). lia. }
      cbn. now rewrite E.
    + cbn. f_equal. rewrite !flat_map_concat_map. f_equal. apply map_ext_in.
      intros b Hb. specialize (R _ _ Hb). apply IH; lia.
Qed.

Lemma legacy_flatten_In g r : ranked g r -> forall f x y, r x <= f ->
  (In y (legacy_flatten f g x) <-> y = x \/ reach g x y).
Proof.
  intros R f. induction f as [|f IH]; intros x y H.
  - cbn. split; [intros [?|[]]; auto|]. intros [?|K]; auto.
    apply (ranked_reach _ _ R) in K. lia.
  - cbn. rewrite in_flat_map. split.
    + intros [?|[b [Hb K]]]; auto. right. apply IH in K; [|specialize (R _ _ Hb); lia].
      destruct K as [-> |K]; [now apply reach_base | eapply reach_step; eauto].
    + intros [?|K]; auto. right. apply reach_first in K. destruct K as [b [Hb K]].
      exists b. split; auto. apply IH; [specialize (R _ _ Hb); lia|]. destruct K; auto.
Qed.

Lemma legacy_ro_In g r : ranked g r -> forall f x y, r x <= f ->
  (In y (legacy_ro f g x) <-> y = x \/ reach g x y).
Proof. intros R f x y H. unfold legacy_ro. rewrite keep_last_In. eapply legacy_flatten_In; eauto. Qed.

Lemma legacy_ro_fuel g r : ranked g r -> forall f1 f2 x, r x <= f1 -> r x <= f2 ->
  legacy_ro f1 g x = legacy_ro f2 g x.
Proof. intros. unfold legacy_ro. f_equal. eapply legacy_flatten_fuel; eauto. Qed.

(* frame: rebinding [x] does not change the legacy order of a node that does not reach [x] *)
Lemma legacy_flatten_frame g x bs f : forall y,
  y <> x -> ~ reach ((x, bs) :: g) y x ->
  legacy_flatten f ((x, bs) :: g) y = legacy_flatten f g y.
Proof.
  induction f as [|f IH]; intros y N K; cbn [legacy_flatten]; auto.
  rewrite bases_cons_other by auto. f_equal.
  rewrite !flat_map_concat_map. f_equal. apply map_ext_in. intros b Hb.
  assert (Hb' : In b (bases ((x, bs) :: g) y)) by now rewrite bases_cons_other.
  apply IH.
  - intros ->. apply K. now apply reach_base.
  - intros K'. apply K. eapply reach_step; eauto.
Qed.

(* ------------------------------------------------------------------ one node's order *)
Lemma calc_sro_fuel g r root0 c : ranked g r -> forall f1 f2 x, r x <= f1 -> r x <= f2 ->
  calc_sro false root0 f1 g c x = calc_sro false root0 f2 g c x.
Proof. intros R f1 f2 x H1 H2. unfold calc_sro. now rewrite (legacy_ro_fuel _ _ R f1 f2 x H1 H2). Qed.

Lemma calc_sro_ext root0 f g c1 c2 x : (forall b, In b (bases g x) -> c1 b = c2 b) ->
  calc_sro false root0 f g c1 x = calc_sro false root0 f g c2 x.
Proof. intros H. unfold calc_sro. now rewrite (map_ext_in _ _ _ H). Qed.

Lemma calc_ext g c1 c2 x : (forall b, In b (bases g x) -> c1 b = c2 b) -> calc g c1 x = calc g c2 x.
Proof. intros H. unfold calc. now rewrite (calc_sro_ext _ _ _ _ _ _ H). Qed.

Lemma root_last_In r0 l y : l <> [] -> (In y (root_last r0 l) <-> In y l \/ y = r0).
Proof.
  intros N. unfold root_last. destruct l as [|a l]; [congruence|].
  destruct (last_is r0 (a :: l)) eqn:E.
  - split; auto. intros [?| ->]; auto. unfold last_is in E.
    destruct (rev (a :: l)) as [|z t] eqn:Er; [discriminate|]. apply Nat.eqb_eq in E. subst.
    apply in_rev. rewrite Er. now left.
  - rewrite in_app_iff, filter_In, negb_true_iff, Nat.eqb_neq. cbn [In].
    destruct (Nat.eq_dec y r0); [subst; tauto|]. split; [intros [[? _]|[?|[]]]; auto; congruence | intros [?|?]; auto; congruence].
Qed.

(* members of the recomputed order, when every base's cached order has the right members *)
Lemma calc_members g r c x : ranked g r -> r x <= fuel_of g -> bases g root = [] ->
  (forall b, In b (bases g x) -> forall t, In t (c b) <-> t = b \/ reach g b t \/ t = root) ->
  forall t, In t (calc g c x) <-> t = x \/ reach g x t \/ t = root.
Proof.
  intros R Hf Hroot Hc t. unfold calc, calc_sro.
  destruct (Nat.eqb x root) eqn:Ex.
  - apply Nat.eqb_eq in Ex. subst x. cbn. split; [intros [<- |[]]; auto|].
    intros [?|[K|?]]; auto. apply reach_first in K. destruct K as [b [Hb _]]. rewrite Hroot in Hb. destruct Hb.
  - destruct (c3_node_members x (bases g x) (map c (bases g x)) (legacy_ro (fuel_of g) g x))
      as [l [i [E M]]]. rewrite E.
    assert (Hx : In x l).
    { destruct M as [-> |[_ M]]; [eapply legacy_ro_In; eauto | apply M; auto]. }
    rewrite root_last_In by (intros ->; destruct Hx).
    assert (Hl : In t l <-> t = x \/ reach g x t \/ (t = root /\ In root l)).
    { destruct M as [-> |[M1 M2]].
      - rewrite (legacy_ro_In _ _ R _ _ t Hf). split; [intros [?|?]; auto|].
        intros [?|[?|[-> K]]]; auto. eapply legacy_ro_In; eauto.
      - split.
        + intros K. pose proof K as K0. apply M1 in K. destruct K as [?|[K|K]]; auto.
          * apply in_concat in K. destruct K as [m [Hm K]]. apply in_map_iff in Hm.
            destruct Hm as [b [<- Hb]]. apply (Hc b Hb) in K.
            destruct K as [-> |[K| ->]]; auto.
            -- right; left. now apply reach_base.
            -- right; left. eapply reach_step; eauto.
          * right; left. now apply reach_base.
        + intros [?|[K|[-> K]]]; auto. apply M2. right.
          apply reach_first in K. destruct K as [b [Hb K]].
          apply in_concat. exists (c b). split; [now apply in_map|]. apply (Hc b Hb). tauto. }
    rewrite Hl. tauto.
Qed.

(* ------------------------------------------------------------------ the freshly built graph *)
Definition unres (r : rres) : list node := match r with ROk m _ => m | _ => [] end.

Lemma calc_unfold g c x : calc g c x = unres (calc_sro false root (fuel_of g) g c x).
Proof. reflexivity. Qed.

Lemma fresh_unfold f g x :
  fresh_sro (S f) root g x = unres (calc_sro false root (S f) g (fresh_sro f root g) x).
Proof. reflexivity. Qed.

Lemma fresh_sro_fuel g r : ranked g r -> forall f1 f2 x, r x < f1 -> r x < f2 ->
  fresh_sro f1 root g x = fresh_sro f2 root g x.
Proof.
  intros R f1. induction f1 as [|f1 IH]; intros f2 x H1 H2; [lia|].
  destruct f2 as [|f2]; [lia|]. rewrite !fresh_unfold.
  rewrite (calc_sro_fuel g r root (fresh_sro f1 root g) R (S f1) (S f2) x) by lia.
  rewrite (calc_sro_ext root (S f2) g (fresh_sro f1 root g) (fresh_sro f2 root g)); auto.
  intros b Hb. specialize (R _ _ Hb). apply IH; lia.
Qed.

(* local consistency: the cached order is what _calculate_sro gives from the bases' caches *)
Definition lc_at (g : graph) (c : node -> list node) (y : node) : Prop := c y = calc g c y.

Lemma lc_fresh g r c (P : node -> Prop) : ranked g r -> (forall x, r x <= fuel_of g) ->
  (forall y b, P y -> In b (bases g y) -> P b) ->
  (forall y, P y -> lc_at g c y) ->
  forall f y, P y -> r y < f -> c y = fresh_sro f root g y.
Proof.
  intros R Hb Hcl Hlc f. induction f as [|f IH]; intros y Py Hf; [lia|].
  rewrite (Hlc y Py), fresh_unfold, calc_unfold.
  rewrite (calc_sro_fuel g r root c R (fuel_of g) (S f) y) by (auto; lia).
  f_equal. apply calc_sro_ext. intros b Hbb. specialize (R _ _ Hbb).
  apply IH; [eapply Hcl; eauto | lia].
Qed.

Lemma lc_members g r c (P : node -> Prop) : ranked g r -> (forall x, r x <= fuel_of g) ->
  bases g root = [] ->
  (forall y b, P y -> In b (bases g y) -> P b) ->
  (forall y, P y -> lc_at g c y) ->
  forall n y, P y -> r y < n -> forall t, In t (c y) <-> t = y \/ reach g y t \/ t = root.
Proof.
  intros R Hb Hroot Hcl Hlc n. induction n as [|n IH]; intros y Py Hn; [lia|].
  rewrite (Hlc y Py). apply (calc_members g r c y R (Hb y) Hroot).
  intros b Hbb. specialize (R _ _ Hbb). apply IH; [eapply Hcl; eauto | lia].
Qed.

(* ------------------------------------------------------------------ the dependents dictionaries *)
Definition deps_pos (l : deps_t) : Prop := Forall (fun p => 0 < snd p) l.

Lemma dep_total_incr D d l :
  dep_total D (dep_incr d l) = dep_total D l + (if Nat.eqb D d then 1 else 0).
Proof.
  induction l as [|[y n] l IH]; cbn.
  - destruct (Nat.eqb D d); lia.
  - destruct (Nat.eqb d y) eqn:E; cbn.
    + apply Nat.eqb_eq in E. subst y. destruct (Nat.eqb D d); lia.
    + rewrite IH. lia.
Qed.

Lemma deps_pos_incr d l : deps_pos l -> deps_pos (dep_incr d l).
Proof.
  unfold deps_pos. induction l as [|[y n] l IH]; cbn; intros H.
  - constructor; cbn; auto.
  - inversion H; subst. destruct (Nat.eqb d y); constructor; cbn in *; auto; lia.
Qed.

Lemma dep_total_decr D d l : deps_pos l ->
  dep_total D (dep_decr d l) = dep_total D l - (if Nat.eqb D d then 1 else 0).
Proof.
  unfold deps_pos. induction l as [|[y n] l IH]; cbn; intros H; [lia|].
  inversion H as [|? ? Hn Hl]; subst. cbn in Hn.
  destruct (Nat.eqb d y) eqn:E.
  - apply Nat.eqb_eq in E. subst y. destruct n as [|[|k]]; [lia| |]; cbn; destruct (Nat.eqb D d); lia.
  - cbn. rewrite (IH Hl). destruct (Nat.eqb D d) eqn:E2; [|lia].
    apply Nat.eqb_eq in E2. subst D. rewrite E. lia.
Qed.

Lemma deps_pos_decr d l : deps_pos l -> deps_pos (dep_decr d l).
Proof.
  unfold deps_pos. induction l as [|[y n] l IH]; cbn; intros H; auto.
  inversion H; subst. destruct (Nat.eqb d y).
  - destruct n as [|[|k]]; auto. constructor; cbn; auto; lia.
  - constructor; auto.
Qed.

Lemma dep_total_remove D d l :
  dep_total D (dep_remove d l) = if Nat.eqb D d then 0 else dep_total D l.
Proof.
  unfold dep_remove. induction l as [|[y n] l IH]; cbn; [destruct (Nat.eqb D d); auto|].
  destruct (Nat.eqb y d) eqn:E; cbn; rewrite IH.
  - apply Nat.eqb_eq in E. subst y. destruct (Nat.eqb D d); lia.
  - destruct (Nat.eqb D d) eqn:E2; auto. apply Nat.eqb_eq in E2. subst D.
    rewrite Nat.eqb_sym, E. lia.
Qed.

Lemma deps_pos_remove d l : deps_pos l -> deps_pos (dep_remove d l).
Proof.
  unfold deps_pos, dep_remove. intros H. apply Forall_forall. intros p Hp.
  apply filter_In in Hp. rewrite Forall_forall in H. apply H. tauto.
Qed.

Lemma dep_keys_total d l : deps_pos l -> (In d (dep_keys l) <-> 0 < dep_total d l).
Proof.
  unfold deps_pos, dep_keys. induction l as [|[y n] l IH]; cbn; intros H; [split; [tauto|lia]|].
  inversion H as [|? ? Hn Hl]; subst. cbn in Hn. specialize (IH Hl).
  destruct (Nat.eqb d y) eqn:E.
  - apply Nat.eqb_eq in E. subst. split; auto. intros _. lia.
  - apply Nat.eqb_neq in E. rewrite IH. split; [intros [?|?]; [congruence|lia] | intros ?; right; lia].
Qed.

(* the two loops of __setBases on the dictionaries *)
Lemma unsub_fold x l : forall dp, (forall S, deps_pos (dp S)) ->
  let dp' := fold_left (fun dp b => unsubscribe x b dp) l dp in
  (forall S, deps_pos (dp' S)) /\
  (forall S D, dep_total D (dp' S) = dep_total D (dp S) - (if Nat.eqb D x then count_occ Nat.eq_dec l S else 0)).
Proof.
  unfold node in *. induction l as [|b l IH]; intros dp Hp; cbn [fold_left].
  - split; auto. intros S D. cbn. destruct (Nat.eqb D x); lia.
  - set (dp1 := unsubscribe x b dp).
    assert (Hp1 : forall S, deps_pos (dp1 S)).
    { intros S. unfold dp1, unsubscribe, upd. destruct (Nat.eqb S b); auto. now apply deps_pos_decr. }
    destruct (IH dp1 Hp1) as [A B]. split; auto. intros S D. rewrite B.
    unfold dp1, unsubscribe, upd. destruct (Nat.eq_dec b S) as [->|N].
    + rewrite (count_occ_cons_eq Nat.eq_dec l eq_refl), Nat.eqb_refl, dep_total_decr by auto. destruct (Nat.eqb D x); lia.
    + assert (E : Nat.eqb S b = false) by (apply Nat.eqb_neq; congruence). rewrite E.
      rewrite (count_occ_cons_neq Nat.eq_dec l N). destruct (Nat.eqb D x); lia.
Qed.

Lemma sub_fold x l : forall dp, (forall S, deps_pos (dp S)) ->
  let dp' := fold_left (fun dp b => subscribe x b dp) l dp in
  (forall S, deps_pos (dp' S)) /\
  (forall S D, dep_total D (dp' S) = dep_total D (dp S) + (if Nat.eqb D x then count_occ Nat.eq_dec l S else 0)).
Proof.
  unfold node in *. induction l as [|b l IH]; intros dp Hp; cbn [fold_left].
  - split; auto. intros S D. cbn. destruct (Nat.eqb D x); lia.
  - set (dp1 := subscribe x b dp).
    assert (Hp1 : forall S, deps_pos (dp1 S)).
    { intros S. unfold dp1, subscribe, upd. destruct (Nat.eqb S b); auto. now apply deps_pos_incr. }
    destruct (IH dp1 Hp1) as [A B]. split; auto. intros S D. rewrite B.
    unfold dp1, subscribe, upd. destruct (Nat.eq_dec b S) as [->|N].
    + rewrite (count_occ_cons_eq Nat.eq_dec l eq_refl), Nat.eqb_refl, dep_total_incr. destruct (Nat.eqb D x); lia.
    + assert (E : Nat.eqb S b = false) by (apply Nat.eqb_neq; congruence). rewrite E.
      rewrite (count_occ_cons_neq Nat.eq_dec l N). destruct (Nat.eqb D x); lia.
Qed.

Lemma remove_fold x l : forall dp, (forall S, deps_pos (dp S)) ->
  let dp' := fold_left (fun dp b => upd dp b (dep_remove x (dp b))) l dp in
  (forall S, deps_pos (dp' S)) /\
  (forall S D, dep_total D (dp' S) = if Nat.eqb D x && mem S l then 0 else dep_total D (dp S)).
Proof.
  induction l as [|b l IH]; intros dp Hp; cbn.
  - split; auto. intros S D. now rewrite andb_false_r.
  - set (dp1 := upd dp b (dep_remove x (dp b))).
    assert (Hp1 : forall S, deps_pos (dp1 S)).
    { intros S. unfold dp1, upd. destruct (Nat.eqb S b); auto. now apply deps_pos_remove. }
    destruct (IH dp1 Hp1) as [A B]. split; auto. intros S D. rewrite B.
    unfold dp1, upd. destruct (Nat.eqb S b) eqn:E; cbn.
    + apply Nat.eqb_eq in E. subst b. rewrite dep_total_remove. destruct (Nat.eqb D x); cbn; auto. now destruct (mem S l).
    + reflexivity.
Qed.

(* ------------------------------------------------------------------ the propagation *)
Lemma fold_left_inv {A B} (F : A -> B -> A) (P : A -> Prop) l :
  (forall s d, In d l -> P s -> P (F s d)) -> forall s, P s -> P (fold_left F l s).
Proof.
  induction l as [|d l IH]; cbn; intros H s Hs; [exact Hs|].
  apply IH.
  - intros s0 d0 H0 P0. apply H; auto.
  - apply H; auto.
Qed.

(* [y] is [x] or one of its descendants *)
Definition desc (g : graph) (x y : node) : Prop := y = x \/ reach g y x.

Lemma desc_base g d b y : In b (bases g y) -> desc g d b -> desc g d y.
Proof.
  intros Hb [->|K]; right; [now apply reach_base | eapply reach_step; eauto].
Qed.

Lemma lc_transfer g c c' y : c' y = c y -> (forall b, In b (bases g y) -> c' b = c b) ->
  lc_at g c y -> lc_at g c' y.
Proof.
  unfold lc_at. intros E Eb H. rewrite E, H. apply calc_ext. intros b Hb. symmetry. auto.
Qed.

Section Changed.
  Variable reorder : list node -> list node.
  Hypothesis reorder_In : forall l y, In y (reorder l) <-> In y l.

  Definition same_shape (s s' : state) : Prop :=
    live s' = live s /\ gr s' = gr s /\ isif s' = isif s /\ deps s' = deps s.

  Lemma same_shape_refl s : same_shape s s.
  Proof. unfold same_shape; auto. Qed.

  Lemma same_shape_trans a b c : same_shape a b -> same_shape b c -> same_shape a c.
  Proof. unfold same_shape. intros [? [? [? ?]]] [? [? [? ?]]]. repeat split; congruence. Qed.

  Lemma recompute_shape x s : same_shape s (recompute x s).
  Proof. unfold same_shape, recompute; cbn; auto. Qed.

  Lemma changed_shape f : forall x s, same_shape s (changed reorder f x s).
  Proof.
    induction f as [|f IH]; intros x s; cbn [changed]; [apply same_shape_refl|].
    apply fold_left_inv with (P := same_shape s).
    - intros s0 d _ H. eapply same_shape_trans; eauto.
    - apply recompute_shape.
  Qed.

  Lemma changed_implied f : forall x s, (forall y, implied s y = sro s y) ->
    forall y, implied (changed reorder f x s) y = sro (changed reorder f x s) y.
  Proof.
    induction f as [|f IH]; intros x s H; cbn [changed]; auto.
    apply fold_left_inv with (P := fun s0 => forall y, implied s0 y = sro s0 y).
    - intros s0 d _ H0. now apply IH.
    - intros y. unfold recompute; cbn. unfold upd. destruct (Nat.eqb y x); auto.
  Qed.

  Variable g : graph.
  Variable r : node -> nat.
  Variable N : nat.
  Variable dp : node -> deps_t.
  Hypothesis Hrank : ranked g r.
  Hypothesis Hbound : forall y, r y <= N.
  Hypothesis Hpos : forall S, deps_pos (dp S).
  Hypothesis Hcomplete : forall S D, dep_total D (dp S) = count_occ Nat.eq_dec (bases g D) S.

  Lemma dependents_are x d : In d (reorder (dep_keys (dp x))) <-> In x (bases g d).
  Proof.
    rewrite reorder_In, dep_keys_total by auto. rewrite Hcomplete.
    rewrite (count_occ_In Nat.eq_dec). unfold gt. tauto.
  Qed.

  Lemma changed_spec f : forall x s, gr s = g -> deps s = dp -> N - r x < f ->
    let s' := changed reorder f x s in
    (forall y, ~ desc g x y -> sro s' y = sro s y) /\
    (forall y, desc g x y -> lc_at g (sro s') y).
  Proof.
    induction f as [|f IH]; intros x s Hg Hd Hf; [lia|]. cbn [changed]. cbv zeta.
    set (s1 := recompute x s).
    assert (Hg1 : gr s1 = g) by (unfold s1, recompute; cbn; auto).
    assert (Hd1 : deps s1 = dp) by (unfold s1, recompute; cbn; auto).
    rewrite Hd1.
    (* the notification loop, for any list of dependents of x *)
    assert (Loop : forall ds, (forall d, In d ds -> In x (bases g d)) ->
      forall s0, gr s0 = g -> deps s0 = dp ->
      let s' := fold_left (fun s d => changed reorder f d s) ds s0 in
      gr s' = g /\ deps s' = dp /\
      (forall y, (forall d, In d ds -> ~ desc g d y) -> sro s' y = sro s0 y) /\
      (forall y, (exists d, In d ds /\ desc g d y) -> lc_at g (sro s') y)).
    { induction ds as [|d ds IHds]; intros Hds s0 Hg0 Hd0; cbn [fold_left].
      - repeat split; auto. intros y [d [[] _]].
      - set (s2 := changed reorder f d s0).
        destruct (changed_shape f d s0) as [_ [Hg2 [_ Hd2]]]. fold s2 in Hg2, Hd2.
        assert (Hx : In x (bases g d)) by (apply Hds; now left).
        assert (Hfd : N - r d < f).
        { specialize (Hrank _ _ Hx). specialize (Hbound d). lia. }
        destruct (IH d s0 Hg0 Hd0 Hfd) as [U2 L2]. fold s2 in U2, L2.
        destruct (IHds (fun d' H' => Hds d' (or_intror H')) s2) as [Hg3 [Hd3 [U3 L3]]];
          [congruence | congruence |].
        repeat split; auto.
        + intros y Hy. rewrite U3 by (intros d' H'; apply Hy; now right).
          apply U2. apply Hy. now left.
        + intros y [d' [Hd' Hdesc]].
          (* is y below one of the remaining dependents? *)
          assert (Dec : (exists d'', In d'' ds /\ desc g d'' y) \/ (forall d'', In d'' ds -> ~ desc g d'' y)).
          { clear -Hrank. induction ds as [|a ds IHd]; [right; intros ? []|].
            destruct (Nat.eq_dec y a) as [->|Na].
            - left. exists a. split; [now left | now left].
            - destruct (reach_dec g r Hrank y a) as [Ra|Ra].
              + left. exists a. split; [now left | now right].
              + destruct IHd as [[d'' [H1 H2]]|H].
                * left. exists d''. split; [now right | auto].
                * right. intros d'' [<-|H']; [intros [?|?]; auto | auto]. }
          destruct Dec as [Ex|No]; [now apply L3|].
          destruct Hd' as [<-|Hd']; [|exfalso; eapply No; eauto].
          apply lc_transfer with (c := sro s2); auto.
          intros b Hb. apply U3. intros d'' H'' K. apply (No d'' H''). eapply desc_base; eauto. }
    assert (Hds : forall d, In d (reorder (dep_keys (dp x))) -> In x (bases g d))
      by (intros d; apply dependents_are).
    destruct (Loop _ Hds s1 Hg1 Hd1) as [_ [_ [U L]]].
    assert (Unch : forall y, ~ desc g x y -> forall d, In d (reorder (dep_keys (dp x))) -> ~ desc g d y).
    { intros y Hy d Hd' K. apply Hy. apply Hds in Hd'. destruct K as [->|K]; right.
      - now apply reach_base.
      - eapply reach_trans; eauto. now apply reach_base. }
    assert (A : forall y, ~ desc g x y ->
              sro (fold_left (fun s d => changed reorder f d s) (reorder (dep_keys (dp x))) s1) y = sro s y).
    { intros y Hy. rewrite U by (apply Unch; auto).
      unfold s1, recompute; cbn. apply upd_other. intros ->. apply Hy. now left. }
    split; [exact A|].
    intros y [->|K].
    - (* x itself: recomputed first, never touched again, its bases are not descendants *)
      assert (Hxx : forall d, In d (reorder (dep_keys (dp x))) -> ~ desc g d x).
      { intros d Hd' K. apply Hds in Hd'. apply (ranked_irrefl _ _ Hrank x).
        destruct K as [->|K]; [now apply reach_base | eapply reach_trans; eauto; now apply reach_base]. }
      unfold lc_at. rewrite (U x Hxx). unfold s1 at 1. unfold recompute; cbn. rewrite upd_same.
      rewrite <- Hg. apply calc_ext. intros b Hb. rewrite Hg in Hb. symmetry. apply A.
      intros [->|K]; apply (ranked_irrefl _ _ Hrank x).
      + now apply reach_base.
      + eapply reach_trans; eauto. now apply reach_base.
    - apply L. apply reach_last in K. destruct K as [d [Hd' K]].
      exists d. split; [now apply dependents_are|]. destruct K as [->|K]; [now left | now right].
  Qed.
End Changed.

(* ------------------------------------------------------------------ invariants of reachable states *)
Lemma calc_frame g x bs r c y : ranked ((x, bs) :: g) r -> r y <= fuel_of g ->
  y <> x -> ~ reach ((x, bs) :: g) y x -> calc ((x, bs) :: g) c y = calc g c y.
Proof.
  intros R Hr N K. unfold calc, calc_sro. rewrite bases_cons_other by auto.
  replace (legacy_ro (fuel_of ((x, bs) :: g)) ((x, bs) :: g) y) with (legacy_ro (fuel_of g) g y); auto.
  unfold legacy_ro. f_equal.
  rewrite (legacy_flatten_fuel _ _ R (fuel_of ((x, bs) :: g)) (fuel_of g) y); auto.
  - symmetry. now apply legacy_flatten_frame.
  - unfold fuel_of in *. cbn [length]. lia.
Qed.

Record Inv (st : state) : Prop := {
  inv_acyc : acyclicb (gr st) = true;
  inv_pos : forall S, deps_pos (deps st S);
  inv_deps : forall S D, dep_total D (deps st S) = count_occ Nat.eq_dec (bases (gr st) D) S;
  inv_lc : forall y, In y (live st) -> lc_at (gr st) (sro st) y;
  inv_closed : forall y b, In y (live st) -> In b (bases (gr st) y) -> In b (live st);
  inv_dead : forall y, ~ In y (live st) -> bases (gr st) y = [];
  inv_root : In root (live st) /\ bases (gr st) root = [];
  inv_implied : forall y, implied st y = sro st y;
  inv_keys : forall y, In y (live st) -> In y (map fst (gr st))
}.

Lemma init_inv : Inv init.
Proof.
  constructor; cbn.
  - reflexivity.
  - intros S. constructor.
  - intros S D. destruct (Nat.eqb D root); reflexivity.
  - intros y [<-|[]]. reflexivity.
  - intros y b [<-|[]]. cbn. tauto.
  - intros y H. destruct (Nat.eqb y root) eqn:E; auto.
  - auto.
  - auto.
  - intros y [<-|[]]. auto.
Qed.

Section Steps.
  Variable reorder : list node -> list node.
  Hypothesis reorder_In : forall l y, In y (reorder l) <-> In y l.

  (* what __setBases needs of the state it starts from ([x] itself need not be consistent) *)
  Record Pre (x : node) (st : state) : Prop := {
    pre_pos : forall S, deps_pos (deps st S);
    pre_deps : forall S D, dep_total D (deps st S) = count_occ Nat.eq_dec (bases (gr st) D) S;
    pre_lc : forall y, In y (live st) -> y <> x -> lc_at (gr st) (sro st) y;
    pre_closed : forall y b, In y (live st) -> In b (bases (gr st) y) -> In b (live st);
    pre_dead : forall y, ~ In y (live st) -> bases (gr st) y = [];
    pre_root : In root (live st) /\ bases (gr st) root = [];
    pre_implied : forall y, implied st y = sro st y;
    pre_keys : forall y, In y (live st) -> y <> x -> In y (map fst (gr st))
  }.

  Lemma set_bases_inv x bs st : Pre x st -> In x (live st) -> x <> root ->
    (forall b, In b bs -> In b (live st)) -> acyclicb ((x, bs) :: gr st) = true ->
    Inv (set_bases reorder x bs st).
  Proof.
    intros P Hx Hxr Hbs Hac. unfold set_bases.
    set (g := gr st). set (g' := (x, bs) :: g).
    set (dp1 := fold_left (fun dp b => unsubscribe x b dp) (bases g x) (deps st)).
    set (dp2 := fold_left (fun dp b => subscribe x b dp) bs dp1).
    set (s0 := mkState (live st) g' (isif st) (sro st) (implied st) dp2).
    pose proof (acyclicb_ranked _ Hac) as R. fold g' in R.
    set (r := height (length g') g') in *.
    assert (Hb : forall y, r y <= length g') by (intros y; apply height_le).
    destruct (unsub_fold x (bases g x) (deps st) (pre_pos _ _ P)) as [P1 T1]. fold dp1 in P1, T1.
    destruct (sub_fold x bs dp1 P1) as [P2 T2]. fold dp2 in P2, T2.
    assert (C2 : forall S D, dep_total D (dp2 S) = count_occ Nat.eq_dec (bases g' D) S).
    { intros S D. rewrite T2, T1, (pre_deps _ _ P). fold g. unfold g'.
      destruct (Nat.eqb D x) eqn:E.
      - apply Nat.eqb_eq in E. subst D. rewrite bases_cons_same. lia.
      - apply Nat.eqb_neq in E. rewrite bases_cons_other by auto. lia. }
    assert (Hf : length g' - r x < fuel_of g') by (unfold fuel_of; lia).
    destruct (changed_spec reorder reorder_In g' r (length g') dp2 R Hb P2 C2 (fuel_of g') x s0 eq_refl eq_refl Hf)
      as [U L].
    pose proof (changed_shape reorder (fuel_of g') x s0) as Sh.
    set (st' := changed reorder (fuel_of g') x s0) in *.
    destruct Sh as [Sl [Sg [_ Sd]]].
    change (live s0) with (live st) in Sl. change (gr s0) with g' in Sg. change (deps s0) with dp2 in Sd.
    constructor.
    - now rewrite Sg.
    - now rewrite Sd.
    - now rewrite Sd, Sg.
    - rewrite Sl, Sg. intros y Hy.
      assert (Dec : desc g' x y \/ ~ desc g' x y).
      { destruct (Nat.eq_dec y x) as [->|Ny]; [left; now left|].
        destruct (reach_dec g' r R y x); [left; now right | right; intros [?|?]; auto]. }
      destruct Dec as [D|D]; [now apply L|].
      assert (Ny : y <> x) by (intros ->; apply D; now left).
      assert (Nr : ~ reach g' y x) by (intros K; apply D; now right).
      apply lc_transfer with (c := sro st).
      + now apply U.
      + intros b Hbb. apply U. intros K. apply D. eapply desc_base; eauto.
      + unfold lc_at. unfold g'. rewrite (calc_frame g x bs r (sro st) y R (Hb y) Ny Nr).
        apply (pre_lc _ _ P); auto.
    - rewrite Sl, Sg. intros y b Hy Hbb. unfold g' in Hbb.
      destruct (Nat.eq_dec y x) as [->|Ny].
      + rewrite bases_cons_same in Hbb. auto.
      + rewrite bases_cons_other in Hbb by auto. eapply (pre_closed _ _ P); eauto.
    - rewrite Sl, Sg. intros y Hy. unfold g'. rewrite bases_cons_other by (intros ->; auto).
      now apply (pre_dead _ _ P).
    - rewrite Sl, Sg. split; [apply (pre_root _ _ P)|].
      unfold g'. rewrite bases_cons_other by auto. apply (pre_root _ _ P).
    - apply changed_implied. cbn. apply (pre_implied _ _ P).
    - rewrite Sl, Sg. intros y Hy. unfold g'. cbn [map fst].
      destruct (Nat.eq_dec y x) as [->|Ny]; [now left | right; now apply (pre_keys _ _ P)].
  Qed.

  Lemma inv_pre x st : Inv st -> Pre x st.
  Proof.
    intros I. constructor; try apply I.
    - intros y Hy _. now apply (inv_lc _ I).
    - intros y Hy _. now apply (inv_keys _ I).
  Qed.

  Lemma subset_In l m : subset l m = true -> forall b, In b l -> In b m.
  Proof. unfold subset. rewrite forallb_forall. intros H b Hb. apply mem_In. auto. Qed.

  Lemma step_inv st o : Inv st -> op_ok st o = true -> Inv (step reorder st o).
  Proof.
    intros I Hok. destruct o as [x k bs | x bs | x]; unfold op_ok, shape_ok, next_graph in Hok; cbn [step].
    - (* creation *)
      apply andb_true_iff in Hok. destruct Hok as [Hok Hac].
      apply andb_true_iff in Hok. destruct Hok as [Hfresh Hsub].
      apply negb_true_iff, mem_false_In in Hfresh.
      assert (Hnl : ~ In x (live st)) by (intros K; apply Hfresh; now apply (inv_keys _ I)).
      unfold new_spec. apply set_bases_inv; cbn [live gr]; auto.
      + constructor; cbn [live gr deps sro implied].
        * apply I.
        * apply I.
        * intros y Hy Ny. apply in_app_iff in Hy. destruct Hy as [Hy|[<-|[]]]; [|congruence].
          apply lc_transfer with (c := sro st).
          -- now apply upd_other.
          -- intros b Hb. apply upd_other. intros ->. apply Hnl. eapply (inv_closed _ I); eauto.
          -- now apply (inv_lc _ I).
        * intros y b Hy Hb. apply in_app_iff in Hy. apply in_app_iff. left.
          destruct Hy as [Hy|[<-|[]]]; [eapply (inv_closed _ I); eauto|].
          rewrite (inv_dead _ I x Hnl) in Hb. destruct Hb.
        * intros y Hy. apply (inv_dead _ I). intros K. apply Hy. apply in_app_iff. now left.
        * split; [apply in_app_iff; left|]; apply (inv_root _ I).
        * intros y. unfold upd. destruct (Nat.eqb y x); auto. apply I.
        * intros y Hy Ny. apply in_app_iff in Hy. destruct Hy as [Hy|[<-|[]]]; [|congruence].
          now apply (inv_keys _ I).
      + apply in_app_iff. right. now left.
      + intros ->. apply Hnl. apply (inv_root _ I).
      + intros b Hb. apply in_app_iff. left. eapply subset_In; eauto.
    - (* __bases__ assignment *)
      apply andb_true_iff in Hok. destruct Hok as [Hok Hac].
      apply andb_true_iff in Hok. destruct Hok as [Hok Hsub].
      apply andb_true_iff in Hok. destruct Hok as [Hl Hr].
      apply mem_In in Hl. apply negb_true_iff, Nat.eqb_neq in Hr.
      apply set_bases_inv; auto.
      + now apply inv_pre.
      + intros b Hb. eapply subset_In; eauto.
    - (* death of a leaf *)
      apply andb_true_iff in Hok. destruct Hok as [Hok Hac].
      apply andb_true_iff in Hok. destruct Hok as [Hok Hleaf].
      apply andb_true_iff in Hok. destruct Hok as [Hl Hr].
      apply mem_In in Hl. apply negb_true_iff, Nat.eqb_neq in Hr.
      assert (Hnb : forall y, ~ In x (bases (gr st) y)).
      { intros y. destruct (in_dec Nat.eq_dec y (live st)) as [Hy|Hy].
        - rewrite forallb_forall in Hleaf. specialize (Hleaf _ Hy).
          now apply negb_true_iff, mem_false_In in Hleaf.
        - rewrite (inv_dead _ I y Hy). tauto. }
      unfold drop.
      set (g := gr st). set (g' := (x, []) :: g).
      pose proof (acyclicb_ranked _ Hac) as R. fold g g' in R.
      set (r := height (length g') g') in *.
      assert (Hb : forall y, r y <= length g') by (intros y; apply height_le).
      assert (Hnr : forall y, ~ reach g' y x).
      { intros y K. apply reach_last in K. destruct K as [d [Hd _]]. unfold g' in Hd.
        destruct (Nat.eq_dec d x) as [->|Nd].
        - rewrite bases_cons_same in Hd. destruct Hd.
        - rewrite bases_cons_other in Hd by auto. eapply Hnb; eauto. }
      destruct (remove_fold x (bases g x) (deps st) (inv_pos _ I)) as [P1 T1].
      assert (Lf : forall y, In y (filter (fun y => negb (Nat.eqb y x)) (live st)) <-> In y (live st) /\ y <> x).
      { intros y. rewrite filter_In, negb_true_iff, Nat.eqb_neq. tauto. }
      constructor; cbn [live gr deps sro implied].
      + exact Hac.
      + exact P1.
      + intros S D. rewrite T1, (inv_deps _ I). fold g. unfold g'.
        destruct (Nat.eqb D x) eqn:E; cbn [andb].
        * apply Nat.eqb_eq in E. subst D. rewrite bases_cons_same. cbn.
          destruct (mem S (bases g x)) eqn:M; auto.
          apply mem_false_In in M. now apply count_occ_not_In.
        * apply Nat.eqb_neq in E. now rewrite bases_cons_other.
      + intros y Hy. apply Lf in Hy. destruct Hy as [Hy Ny]. unfold lc_at. fold g'. unfold g'.
        rewrite (calc_frame g x [] r (sro st) y R (Hb y) Ny (Hnr y)).
        now apply (inv_lc _ I).
      + intros y b Hy Hbb. apply Lf in Hy. destruct Hy as [Hy Ny]. fold g' in Hbb. unfold g' in Hbb.
        rewrite bases_cons_other in Hbb by auto. apply Lf. split.
        * eapply (inv_closed _ I); eauto.
        * intros ->. eapply Hnb; eauto.
      + intros y Hy. fold g'. unfold g'. destruct (Nat.eq_dec y x) as [->|Ny].
        * apply bases_cons_same.
        * rewrite bases_cons_other by auto. apply (inv_dead _ I). intros K. apply Hy. apply Lf. auto.
      + split.
        * apply Lf. split; [apply (inv_root _ I) | auto].
        * fold g'. unfold g'. rewrite bases_cons_other by auto. apply (inv_root _ I).
      + apply I.
      + intros y Hy. apply Lf in Hy. destruct Hy as [Hy Ny]. cbn [map fst]. right. now apply (inv_keys _ I).
  Qed.

  Lemma hist_inv ops : forall st, Inv st -> hist_ok reorder st ops = true ->
    Inv (fold_left (step reorder) ops st).
  Proof.
    induction ops as [|o ops IH]; intros st I H; cbn in *; auto.
    apply andb_true_iff in H. destruct H as [H1 H2]. apply IH; auto. now apply step_inv.
  Qed.
End Steps.

(* ------------------------------------------------------------------ what an invariant state answers *)
Lemma inv_rank st : Inv st ->
  let g := gr st in let r := height (length g) g in
  ranked g r /\ (forall x, r x <= fuel_of g).
Proof.
  intros I g r. split; [apply acyclicb_ranked, I|].
  intros x. pose proof (height_le (length g) g x). unfold fuel_of, r. lia.
Qed.

Lemma inv_members st : Inv st -> forall S T, In S (live st) ->
  (In T (sro st S) <-> T = S \/ reach (gr st) S T \/ T = root).
Proof.
  intros I S T HS. destruct (inv_rank st I) as [R B].
  eapply (lc_members (gr st) _ (sro st) (fun y => In y (live st)) R B).
  - apply (inv_root _ I).
  - intros y b; apply (inv_closed _ I).
  - apply (inv_lc _ I).
  - exact HS.
  - apply Nat.lt_succ_diag_r.
Qed.

Lemma inv_coherent st : Inv st -> forall S, In S (live st) ->
  sro st S = fresh_sro (fuel_of (gr st)) root (gr st) S.
Proof.
  intros I S HS. destruct (inv_rank st I) as [R B].
  eapply (lc_fresh (gr st) _ (sro st) (fun y => In y (live st)) R B).
  - intros y b; apply (inv_closed _ I).
  - apply (inv_lc _ I).
  - exact HS.
  - pose proof (height_le (length (gr st)) (gr st) S). unfold fuel_of. lia.
Qed.

Lemma acyclic_fresh_fuel g : acyclicb g = true -> forall f x, fuel_of g <= f ->
  fresh_sro f root g x = fresh_sro (fuel_of g) root g x.
Proof.
  intros H f x Hf. pose proof (acyclicb_ranked _ H) as R.
  pose proof (height_le (length g) g x).
  apply (fresh_sro_fuel g _ R); unfold fuel_of in *; lia.
Qed.

Lemma acyclicb_sound_lemma g : acyclicb g = true -> forall x, ~ reach g x x.
Proof. intros H. eapply ranked_irrefl. apply acyclicb_ranked; eauto. Qed.

Section History.
  Variable reorder : list node -> list node.
  Hypothesis reorder_In : forall l y, In y (reorder l) <-> In y l.
  Variable ops : list op.
  Hypothesis Hok : hist_ok reorder init ops = true.
  Let st := fold_left (step reorder) ops init.

  Lemma reachable_inv : Inv st.
  Proof. apply hist_inv; auto. apply init_inv. Qed.

  Lemma implied_iff_reachable_lemma S T : In S (live st) ->
    (isOrExtends st S T = true <-> T = S \/ reach (gr st) S T \/ T = root).
  Proof.
    intros HS. unfold isOrExtends. rewrite mem_In, (inv_implied _ reachable_inv).
    now apply inv_members; [apply reachable_inv|].
  Qed.

  Lemma extends_strict_lemma S T : In S (live st) ->
    (extends st S T true = true <-> T <> S /\ (reach (gr st) S T \/ T = root)).
  Proof.
    intros HS. unfold extends. cbn [negb orb]. rewrite andb_true_iff, negb_true_iff, Nat.eqb_neq.
    fold (isOrExtends st S T). rewrite (implied_iff_reachable_lemma S T HS).
    split; [intros [[?|?] ?]; split; auto; congruence | intros [? ?]; split; auto].
  Qed.

  Lemma sro_members_lemma S T : In S (live st) ->
    (In T (get_sro st S) <-> T = S \/ reach (gr st) S T \/ T = root).
  Proof. intros HS. apply inv_members; auto. apply reachable_inv. Qed.

  Lemma sro_coherent_lemma S : In S (live st) ->
    get_sro st S = fresh_sro (fuel_of (gr st)) root (gr st) S.
  Proof. intros HS. apply inv_coherent; auto. apply reachable_inv. Qed.

  Lemma fresh_fuel_lemma S f : fuel_of (gr st) <= f ->
    fresh_sro f root (gr st) S = fresh_sro (fuel_of (gr st)) root (gr st) S.
  Proof. apply acyclic_fresh_fuel. apply reachable_inv. Qed.

  Lemma iro_lemma S : In S (live st) ->
    get_iro st S = filter (isif st) (fresh_sro (fuel_of (gr st)) root (gr st) S).
  Proof. intros HS. unfold get_iro. now rewrite <- sro_coherent_lemma. Qed.

  Lemma dependents_complete_lemma S D :
    dep_total D (deps st S) = count_occ Nat.eq_dec (get_bases st D) S.
  Proof. apply (inv_deps _ reachable_inv). Qed.

  Lemma dependents_listed_lemma S D : In D (dep_keys (deps st S)) <-> In S (get_bases st D).
  Proof.
    rewrite dep_keys_total by apply (inv_pos _ reachable_inv).
    rewrite dependents_complete_lemma, (count_occ_In Nat.eq_dec). unfold gt. tauto.
  Qed.
End History.

Lemma extends_nonstrict_lemma st S T : extends st S T false = isOrExtends st S T.
Proof. unfold extends, isOrExtends. cbn. apply andb_true_r. Qed.

(* the shape of the world (who is live, the bases) does not depend on the notification order *)
Lemma set_bases_shape r1 r2 x bs s1 s2 : live s1 = live s2 -> gr s1 = gr s2 ->
  live (set_bases r1 x bs s1) = live (set_bases r2 x bs s2) /\
  gr (set_bases r1 x bs s1) = gr (set_bases r2 x bs s2).
Proof.
  intros El Eg. unfold set_bases.
  match goal with |- live (changed r1 ?f ?x ?a) = live (changed r2 ?f' ?x' ?b) /\ _ =>
    destruct (changed_shape r1 f x a) as [A1 [A2 _]]; destruct (changed_shape r2 f' x' b) as [B1 [B2 _]] end.
  cbn [live gr] in *. split; congruence.
Qed.

Lemma step_shape r1 r2 o s1 s2 : live s1 = live s2 -> gr s1 = gr s2 ->
  live (step r1 s1 o) = live (step r2 s2 o) /\ gr (step r1 s1 o) = gr (step r2 s2 o).
Proof.
  intros El Eg. destruct o as [x k bs | x bs | x]; cbn [step].
  - unfold new_spec. apply set_bases_shape; cbn [live gr]; congruence.
  - now apply set_bases_shape.
  - unfold drop; cbn [live gr]. split; congruence.
Qed.

Lemma op_ok_shape o s1 s2 : live s1 = live s2 -> gr s1 = gr s2 -> op_ok s1 o = op_ok s2 o.
Proof. intros El Eg. destruct o; unfold op_ok, shape_ok, next_graph; now rewrite El, Eg. Qed.

Lemma hist_shape r1 r2 ops : forall s1 s2, live s1 = live s2 -> gr s1 = gr s2 ->
  hist_ok r1 s1 ops = hist_ok r2 s2 ops /\
  live (fold_left (step r1) ops s1) = live (fold_left (step r2) ops s2) /\
  gr (fold_left (step r1) ops s1) = gr (fold_left (step r2) ops s2).
Proof.
  induction ops as [|o ops IH]; intros s1 s2 El Eg; cbn [hist_ok fold_left]; auto.
  destruct (step_shape r1 r2 o s1 s2 El Eg) as [El' Eg'].
  destruct (IH _ _ El' Eg') as [A [B C]]. rewrite (op_ok_shape o s1 s2 El Eg), A. auto.
Qed.

Lemma order_irrelevant_lemma r1 r2 ops :
  (forall l y, In y (r1 l) <-> In y l) -> (forall l y, In y (r2 l) <-> In y l) ->
  hist_ok r1 init ops = true ->
  let st1 := fold_left (step r1) ops init in
  let st2 := fold_left (step r2) ops init in
  hist_ok r2 init ops = true /\ live st1 = live st2 /\ gr st1 = gr st2 /\
  forall S, In S (live st1) -> sro st1 S = sro st2 S /\ implied st1 S = implied st2 S.
Proof.
  intros H1 H2 Hok st1 st2.
  destruct (hist_shape r1 r2 ops init init eq_refl eq_refl) as [A [B C]].
  fold st1 st2 in B, C. rewrite Hok in A. symmetry in A.
  assert (E : forall S, In S (live st1) -> sro st1 S = sro st2 S).
  { intros S H. pose proof (sro_coherent_lemma r1 H1 ops Hok S H) as E1.
    assert (H' : In S (live (fold_left (step r2) ops init))) by (fold st2; now rewrite <- B).
    pose proof (sro_coherent_lemma r2 H2 ops A S H') as E2.
    unfold get_sro in E1, E2. fold st1 in E1. fold st2 in E2. rewrite E1, E2. now rewrite C. }
  repeat split; auto.
  pose proof (reachable_inv r1 H1 ops Hok) as I1. pose proof (reachable_inv r2 H2 ops A) as I2.
  fold st1 in I1. fold st2 in I2. rewrite (inv_implied _ I1), (inv_implied _ I2). auto.
Qed.

(* ------------------------------------------------------------------ no repetitions *)
Lemma keep_last_NoDup l : NoDup (keep_last l).
Proof.
  induction l as [|x t IH]; cbn; [constructor|].
  destruct (mem x t) eqn:E; auto. constructor; auto.
  rewrite keep_last_In. now apply mem_false_In.
Qed.

Lemma NoDup_snoc (l : list node) a : NoDup l -> ~ In a l -> NoDup (l ++ [a]).
Proof.
  induction l as [|x l IH]; cbn; intros H N; [constructor; auto; constructor|].
  inversion H; subst. constructor.
  - rewrite in_app_iff. cbn. intros [?|[?|[]]]; auto.
  - apply IH; auto.
Qed.

Lemma root_last_NoDup r0 l : NoDup l -> NoDup (root_last r0 l).
Proof.
  intros H. unfold root_last. destruct l as [|a l]; auto.
  destruct (last_is r0 (a :: l)); auto.
  apply NoDup_snoc; [now apply NoDup_filter|].
  rewrite filter_In, negb_true_iff, Nat.eqb_neq. tauto.
Qed.

Lemma merge_loop_NoDup fuel : forall seqs acc l, merge_loop fuel seqs acc = MOk l ->
  NoDup acc -> (forall y, In y acc -> ~ In y (concat seqs)) -> NoDup l.
Proof.
  induction fuel as [|f IH]; intros seqs acc l; cbn; [discriminate|].
  destruct seqs as [|s L].
  - intros E; injection E as <-. intros H _. now apply NoDup_rev.
  - destruct (find_next (s :: L)) eqn:E; [|discriminate]. intros H Hacc Hdis.
    apply find_next_In in E.
    apply (IH _ _ _ H).
    + constructor; auto. intros K. exact (Hdis _ K E).
    + intros y [<-|Hy]; rewrite In_remove_everywhere.
      * tauto.
      * intros [K _]. exact (Hdis _ Hy K).
Qed.

Lemma c3_merge_NoDup seqs l : c3_merge seqs = MOk l -> NoDup l.
Proof.
  unfold c3_merge. intros H. eapply merge_loop_NoDup.
  - exact H.
  - constructor.
  - intros y [].
Qed.

Lemma c3_node_NoDup x bs ms leg l i : c3_node false x bs ms false leg = ROk l i ->
  NoDup leg -> (forall m, ms = [m] -> NoDup m /\ ~ In x m) -> NoDup l.
Proof.
  unfold c3_node. intros H Hleg Hone.
  assert (G : match c3_merge ([[x]] ++ ms ++ [bs]) with
              | MOk l => ROk l false | MBad => ROk leg true | MFuel => RFuel end = ROk l i -> NoDup l).
  { destruct (c3_merge ([[x]] ++ ms ++ [bs])) eqn:E; intros K; inversion K; subst; auto.
    eapply c3_merge_NoDup; eauto. }
  destruct bs as [|b [|b' bs']]; auto.
  destruct ms as [|m [|m' ms']]; auto.
  inversion H; subst. destruct (Hone m eq_refl). constructor; auto.
Qed.

Lemma calc_NoDup g r c x : ranked g r -> r x <= fuel_of g -> bases g root = [] ->
  (forall b, In b (bases g x) -> NoDup (c b) /\ forall t, In t (c b) <-> t = b \/ reach g b t \/ t = root) ->
  NoDup (calc g c x).
Proof.
  intros R Hf Hroot Hc. unfold calc, calc_sro.
  destruct (Nat.eqb x root) eqn:Ex; [repeat constructor; intros []|].
  apply Nat.eqb_neq in Ex.
  destruct (c3_node_members x (bases g x) (map c (bases g x)) (legacy_ro (fuel_of g) g x))
    as [l [i [E _]]]. rewrite E. apply root_last_NoDup.
  eapply c3_node_NoDup; eauto.
  - apply keep_last_NoDup.
  - intros m Hm. destruct (bases g x) as [|b [|b' bs']] eqn:Eb; try discriminate.
    cbn in Hm. injection Hm as <-.
    assert (Hb : In b (bases g x)) by (rewrite Eb; now left).
    destruct (Hc b (or_introl eq_refl)) as [ND M]. split; auto.
    rewrite M. intros [-> |[K| ->]]; auto.
    + apply (ranked_irrefl _ _ R b). now apply reach_base.
    + apply (ranked_irrefl _ _ R x). eapply reach_step; eauto.
Qed.

Lemma lc_NoDup g r c (P : node -> Prop) : ranked g r -> (forall x, r x <= fuel_of g) ->
  bases g root = [] ->
  (forall y b, P y -> In b (bases g y) -> P b) ->
  (forall y, P y -> lc_at g c y) ->
  forall n y, P y -> r y < n -> NoDup (c y).
Proof.
  intros R Hb Hroot Hcl Hlc n. induction n as [|n IH]; intros y Py Hn; [lia|].
  rewrite (Hlc y Py). apply (calc_NoDup g r c y R (Hb y) Hroot).
  intros b Hbb. pose proof (R _ _ Hbb). split.
  - apply IH; [eapply Hcl; eauto | lia].
  - eapply (lc_members g r c P R Hb Hroot Hcl Hlc (S (r b))); eauto.
Qed.

Lemma inv_NoDup st : Inv st -> forall S, In S (live st) -> NoDup (sro st S).
Proof.
  intros I S HS. destruct (inv_rank st I) as [R B].
  eapply (lc_NoDup (gr st) _ (sro st) (fun y => In y (live st)) R B).
  - apply (inv_root _ I).
  - intros y b; apply (inv_closed _ I).
  - apply (inv_lc _ I).
  - exact HS.
  - apply Nat.lt_succ_diag_r.
Qed.

Lemma sro_nodup_lemma (reorder : list node -> list node) :
  (forall l y, In y (reorder l) <-> In y l) ->
  forall ops, hist_ok reorder init ops = true ->
  let st := fold_left (step reorder) ops init in
  forall S, In S (live st) -> NoDup (get_sro st S).
Proof. intros H ops Hok st S HS. apply inv_NoDup; auto. now apply reachable_inv. Qed.

(* ------------------------------------------------------------------ acyclicb is complete *)
(* a descending chain of base steps starting at x *)
Fixpoint chain (g : graph) (x : node) (l : list node) : Prop :=
  match l with
  | [] => True
  | y :: l' => In y (bases g x) /\ chain g y l'
  end.

Lemma fold_max_argmax (f : node -> nat) l : l <> [] ->
  exists b, In b l /\ fold_right (fun b m => Nat.max (f b) m) 0 l = f b.
Proof.
  induction l as [|a l IH]; [congruence|]. intros _. cbn.
  destruct l as [|a' l'].
  - exists a. split; [now left | cbn; lia].
  - destruct IH as [b [Hb E]]; [discriminate|].
    destruct (Nat.le_ge_cases (f a) (fold_right (fun b m => Nat.max (f b) m) 0 (a' :: l'))) as [H|H].
    + exists b. split; [now right|]. rewrite <- E. lia.
    + exists a. split; [now left|]. lia.
Qed.

Lemma height_S f g x :
  height (S f) g x = S (fold_right (fun b m => Nat.max (height f g b) m) 0 (bases g x)).
Proof. reflexivity. Qed.

(* there is a chain as long as the height says *)
Lemma height_chain g f : forall x, exists l, chain g x l /\ S (length l) = height (S f) g x.
Proof.
  induction f as [|f IH]; intros x.
  - exists []. split; cbn; auto.
    destruct (bases g x) as [|b bs]; cbn; auto.
    clear. induction bs; cbn; auto.
  - rewrite height_S. destruct (bases g x) as [|b0 bs] eqn:E.
    + exists []. split; cbn; auto.
    + destruct (fold_max_argmax (height (S f) g) (b0 :: bs)) as [b [Hb M]]; [discriminate|].
      destruct (IH b) as [l [C L]]. exists (b :: l). split.
      * cbn [chain]. rewrite E. auto.
      * rewrite M. cbn [length]. now rewrite L.
Qed.

Lemma chain_ranks g r : ranked g r -> forall l x, chain g x l -> forall y, In y l -> r y < r x.
Proof.
  intros R l. induction l as [|a l IH]; intros x C y Hy; [destruct Hy|].
  destruct C as [Ha C]. specialize (R _ _ Ha). destruct Hy as [<-|Hy]; auto.
  specialize (IH _ C _ Hy). lia.
Qed.

Lemma chain_NoDup g r : ranked g r -> forall l x, chain g x l -> NoDup (x :: l).
Proof.
  intros R l. induction l as [|a l IH]; intros x C; [repeat constructor; intros []|].
  constructor.
  - intros K. pose proof (chain_ranks g r R _ _ C x K). lia.
  - destruct C as [_ C]. now apply IH.
Qed.

Lemma chain_keys g : (forall x b, In x (map fst g) -> In b (bases g x) -> In b (map fst g)) ->
  forall l x, In x (map fst g) -> chain g x l -> incl (x :: l) (map fst g).
Proof.
  intros Hc l. induction l as [|a l IH]; intros x Hx C y [<-|Hy]; auto; [destruct Hy|].
  destruct C as [Ha C]. apply (IH a); auto. eapply Hc; eauto.
Qed.

Lemma height_mono g f : forall x, height f g x <= height (S f) g x.
Proof.
  induction f as [|f IH]; intros x; [cbn; lia|].
  rewrite (height_S (S f)), (height_S f). apply le_n_S.
  induction (bases g x) as [|b bs IHb]; cbn [fold_right]; [lia|]. specialize (IH b). lia.
Qed.

(* a height that still grows with the fuel has used all of it *)
Lemma height_stable g f : forall x, height f g x < height (S f) g x -> height f g x = f.
Proof.
  induction f as [|f IH]; intros x H; [reflexivity|].
  pose proof (height_le (S f) g x) as Hle.
  rewrite (height_S (S f)), (height_S f) in H. apply Nat.succ_lt_mono in H.
  assert (Ex : exists b, In b (bases g x) /\ height f g b < height (S f) g b).
  { revert H. induction (bases g x) as [|b bs IHb]; cbn [fold_right]; [lia|]. intros H.
    destruct (Nat.lt_ge_cases (height f g b) (height (S f) g b)) as [K|K].
    - exists b. split; [now left | auto].
    - destruct IHb as [b' [Hb' K']]; [|exists b'; split; [now right | auto]].
      pose proof (height_mono g f b). lia. }
  destruct Ex as [b [Hb K]]. apply IH in K.
  rewrite (height_S f) in *.
  pose proof (fold_max_ge (height f g) _ _ Hb). lia.
Qed.

Lemma acyclicb_complete_lemma g :
  acyclic g ->
  (forall x b, In x (map fst g) -> In b (bases g x) -> In b (map fst g)) ->
  acyclicb g = true.
Proof.
  intros [r R] Hc. unfold acyclicb.
  apply forallb_forall. intros x Hx. apply forallb_forall. intros b Hb.
  apply Nat.ltb_lt.
  destruct (length g) as [|n] eqn:En.
  { destruct g; [destruct Hx | discriminate]. }
  destruct (Nat.lt_ge_cases (height (S n) g b) (height (S n) g x)) as [?|Hge]; auto. exfalso.
  (* height (S n) x = S (max ... height n b' ...) > height n b, so b's height still grows *)
  assert (G : height n g b < height (S n) g b).
  { rewrite (height_S n g x) in Hge. pose proof (fold_max_ge (height n g) _ _ Hb). lia. }
  pose proof (height_stable g n b G) as Hn.
  pose proof (height_mono g n b). pose proof (height_le (S n) g b).
  assert (Hb' : height (S n) g b = S n) by lia.
  destruct (height_chain g n b) as [l [C L]]. rewrite Hb' in L.
  assert (C' : chain g x (b :: l)) by (cbn; auto).
  pose proof (chain_NoDup g r R _ _ C') as ND.
  pose proof (chain_keys g Hc _ _ Hx C') as Inc.
  pose proof (NoDup_incl_length ND Inc) as Len.
  rewrite map_length, En in Len. cbn [length] in Len. lia.
Qed.

(* in a reachable state the well-formedness check rejects nothing but cycles *)
Lemma op_ok_complete_lemma (reorder : list node -> list node) :
  (forall l y, In y (reorder l) <-> In y l) ->
  forall ops, hist_ok reorder init ops = true ->
  let st := fold_left (step reorder) ops init in
  forall o, shape_ok st o = true -> acyclic (next_graph st o) -> op_ok st o = true.
Proof.
  intros Hre ops Hok st o Hs Hac. unfold op_ok. rewrite Hs. cbn [andb].
  pose proof (reachable_inv reorder Hre ops Hok) as I. fold st in I.
  apply acyclicb_complete_lemma; auto.
  assert (Hk : forall y b, In b (bases (gr st) y) -> In b (map fst (gr st))).
  { intros y b Hb. apply (inv_keys _ I).
    destruct (in_dec Nat.eq_dec y (live st)) as [Hy|Hy].
    - eapply (inv_closed _ I); eauto.
    - rewrite (inv_dead _ I y Hy) in Hb. destruct Hb. }
  assert (G : forall x bs, (forall b, In b bs -> In b (map fst (gr st))) ->
              forall y b, In b (bases ((x, bs) :: gr st) y) -> In b (map fst ((x, bs) :: gr st))).
  { intros x bs Hbs y b Hb. cbn [map fst]. right.
    destruct (Nat.eq_dec y x) as [->|N].
    - rewrite bases_cons_same in Hb. auto.
    - rewrite bases_cons_other in Hb by auto. eapply Hk; eauto. }
  destruct o as [x k bs | x bs | x]; cbn [next_graph shape_ok] in *; intros y b _; apply G.
  - apply andb_true_iff in Hs. destruct Hs as [_ Hs]. intros b' Hb'.
    apply (inv_keys _ I). eapply subset_In; eauto.
  - apply andb_true_iff in Hs. destruct Hs as [_ Hs]. intros b' Hb'.
    apply (inv_keys _ I). eapply subset_In; eauto.
  - intros b' [].
Qed.
