(* The kernels regenerated from the text of registry.py (Gen/ComponentsKernel.v, written by
   harness/translate/components.py on every run) are equal to the hand-written model
   Model/Components.v, for all states and arguments. *)
From Coq Require Import List Arith Bool Lia.
Import ListNotations.
From ZI Require Import Model.Ro Model.Adapter Model.Lookup Model.RegSys Model.Components Model.ComponentsSys
  Proofs.Components Gen.ComponentsKernel.

(* ------------------------------------------------------------------ _UnhashableComponentCounter *)
Lemma g_counter_init_eq l : g_counter_init l = l.
Proof. unfold g_counter_init. apply map_id. Qed.

Lemma g_counter_getitem_eq l c : g_counter_getitem l c = cnt l c.
Proof. induction l as [|[k n] l IH]; cbn; auto; try now rewrite IH. Qed.

Lemma g_counter_setitem_eq l c n : g_counter_setitem l c n = cnt_set l c n.
Proof. induction l as [|[k m] l IH]; cbn; auto; try now rewrite IH. Qed.

Lemma g_counter_delitem_eq l c : g_counter_delitem l c = cnt_del l c.
Proof. induction l as [|[k m] l IH]; cbn; auto; try now rewrite IH. Qed.

Lemma aset_aset {K V} (eqb : K -> K -> bool) (eqb_eq : forall a b, eqb a b = true <-> a = b)
      (m : list (K * V)) k v v' : aset eqb (aset eqb m k v) k v' = aset eqb m k v'.
Proof.
  induction m as [|[k' w] m IH]; cbn.
  - now rewrite (eqb_refl _ eqb_eq).
  - destruct (eqb k k') eqn:E; cbn; rewrite E; congruence.
Qed.

Lemma cache_get_set C p e : cache_get (cache_set C p e) p = e.
Proof. unfold cache_set. rewrite cache_get_aset. now rewrite Nat.eqb_refl. Qed.

(* ------------------------------------------------------------------ _UtilityRegistrations *)
Section UR.
  Variable W : world.
  Variable hashable : value -> bool.

  Theorem g_is_utility_subscribed_eq C p c :
    g_is_utility_subscribed hashable C p c = is_subscribed hashable C p c.
  Proof.
    unfold g_is_utility_subscribed, is_subscribed, entry_getitem.
    destruct (cache_get C p) as [counter l]. destruct counter; cbn.
    - now rewrite g_counter_getitem_eq.
    - destruct (hashable c); reflexivity.
  Qed.

  Theorem g_cache_utility_eq C p c : g_cache_utility hashable C p c = cache_utility hashable C p c.
  Proof.
    unfold g_cache_utility, cache_utility, entry_getitem, entry_setitem, entry_items, cache_set.
    destruct (cache_get C p) as [counter l] eqn:E. destruct counter; cbn.
    - rewrite g_counter_getitem_eq, g_counter_setitem_eq, Nat.add_1_r. reflexivity.
    - destruct (hashable c); cbn.
      + unfold dict_get. now rewrite Nat.add_1_r.
      + rewrite g_counter_init_eq, g_counter_getitem_eq, g_counter_setitem_eq, Nat.add_1_r.
        apply (aset_aset _ nat_eqb_eq).
  Qed.

  Theorem g_uncache_utility_eq C p c : g_uncache_utility hashable C p c = uncache_utility hashable C p c.
  Proof.
    unfold g_uncache_utility, uncache_utility, entry_getitem, entry_setitem, entry_delitem, cache_set.
    destruct (cache_get C p) as [counter l] eqn:E. destruct counter; cbn.
    - rewrite g_counter_getitem_eq. destruct (Nat.eqb (cnt l c - 1) 0) eqn:E0.
      + rewrite g_counter_delitem_eq. apply Nat.eqb_eq in E0. now rewrite E0.
      + rewrite g_counter_setitem_eq. apply Nat.eqb_neq in E0.
        destruct (cnt l c - 1); [congruence | reflexivity].
    - destruct (hashable c); cbn; auto. unfold dict_get, dict_del.
      destruct (Nat.eqb (cnt l c - 1) 0) eqn:E0.
      + apply Nat.eqb_eq in E0. now rewrite E0.
      + apply Nat.eqb_neq in E0. destruct (cnt l c - 1); [congruence | reflexivity].
  Qed.

  Theorem g_ur_registerUtility_eq st p n c i f :
    g_ur_registerUtility W hashable (c_utils st) (c_ureg st) (c_cache st) p n c i f
    = (c_utils (ur_register W hashable st p n c i f), c_ureg (ur_register W hashable st p n c i f),
       c_cache (ur_register W hashable st p n c i f)).
  Proof.
    unfold g_ur_registerUtility, ur_register. rewrite g_is_utility_subscribed_eq, !g_cache_utility_eq.
    destruct (is_subscribed hashable (c_cache st) p c); reflexivity.
  Qed.

  Theorem g_ur_unregisterUtility_eq st p n c :
    g_ur_unregisterUtility W hashable (c_utils st) (c_ureg st) (c_cache st) p n c
    = (c_utils (fst (ur_unregister W hashable st p n c)), c_ureg (fst (ur_unregister W hashable st p n c)),
       c_cache (fst (ur_unregister W hashable st p n c)), snd (ur_unregister W hashable st p n c)).
  Proof.
    unfold g_ur_unregisterUtility, ur_unregister. rewrite g_uncache_utility_eq.
    destruct (uncache_utility hashable (c_cache st) p c) as [[C' still]|]; [destruct still|]; reflexivity.
  Qed.
End UR.

(* ------------------------------------------------------------------ Components: utilities *)
Section Utilities.
  Variable W : world.
  Variable hashable : value -> bool.
  Variable gup : value -> option spec.      (* _getUtilityProvided *)
  Variable gn : value -> name.              (* _getName *)

  Lemma ur_unregister_rebuild st p n c :
    let st' := fst (ur_unregister W hashable st p n c) in
    with_cache (with_ureg (with_utils st (c_utils st')) (c_ureg st')) (c_cache st') = st'.
  Proof.
    unfold ur_unregister. destruct (uncache_utility hashable (c_cache st) p c) as [[C' still]|]; reflexivity.
  Qed.

  Lemma ur_register_rebuild st p n c i f :
    let st' := ur_register W hashable st p n c i f in
    with_cache (with_ureg (with_utils st (c_utils st')) (c_ureg st')) (c_cache st') = st'.
  Proof. reflexivity. Qed.

  (* the common tail of the generated unregisterUtility *)
  Lemma g_unreg_tail st p n comp oi of :
    (let '(u_, r_, c_, ok_) := g_ur_unregisterUtility W hashable (c_utils st) (c_ureg st) (c_cache st) p n comp in
     let st0 := with_cache (with_ureg (with_utils st u_) r_) c_ in
     if negb ok_ then (st0, RTypeError, @nil event)
     else (st0, RBool true, [] ++ [Unregistered (RU p n comp oi of)]))
    = match ur_unregister W hashable st p n comp with
      | (st', true) => (st', RBool true, [Unregistered (RU p n comp oi of)])
      | (st', false) => (st', RTypeError, [])
      end.
  Proof.
    rewrite g_ur_unregisterUtility_eq. pose proof (ur_unregister_rebuild st p n comp) as H. cbv zeta in H.
    destruct (ur_unregister W hashable st p n comp) as [st' ok]. cbn [fst snd] in *. rewrite H.
    destruct ok; reflexivity.
  Qed.

  Theorem g_unregisterUtility_eq st c p n :
    g_unregisterUtility W hashable gup st c (Some p) n None = unregisterUtility W hashable st c p n.
  Proof.
    unfold g_unregisterUtility, unregisterUtility.
    destruct (aget pn_eqb (c_ureg st) (p, n)) as [[[oc oi] of]|]; [|reflexivity].
    cbn [fst snd]. destruct c as [c'|].
    - destruct (negb (v_eq c' oc)); [reflexivity|]. apply g_unreg_tail.
    - apply g_unreg_tail.
  Qed.

  Theorem g_unregisterUtility_factory_eq st f c p n :
    g_unregisterUtility W hashable gup st None (Some p) n (Some (f, c)) = unregisterUtility W hashable st (Some c) p n.
  Proof.
    unfold g_unregisterUtility, unregisterUtility.
    destruct (aget pn_eqb (c_ureg st) (p, n)) as [[[oc oi] of]|]; [|reflexivity].
    cbn [fst snd]. destruct (negb (v_eq c oc)); [reflexivity|]. apply g_unreg_tail.
  Qed.

  Theorem g_unregisterUtility_both st f c c' p n :
    g_unregisterUtility W hashable gup st (Some c') p n (Some (f, c)) = (st, RTypeError, []).
  Proof. unfold g_unregisterUtility. destruct p; reflexivity. Qed.

  Lemma unregisterUtility_ret st c p n :
    (exists b, ret_of (unregisterUtility W hashable st c p n) = RBool b)
    \/ ret_of (unregisterUtility W hashable st c p n) = RTypeError.
  Proof.
    unfold unregisterUtility. destruct (aget pn_eqb (c_ureg st) (p, n)) as [[[oc oi] of]|]; [|left; eexists; reflexivity].
    assert (G : forall comp, (exists b, ret_of (match ur_unregister W hashable st p n comp with
                                                 | (st', true) => (st', RBool true, [Unregistered (RU p n comp oi of)])
                                                 | (st', false) => (st', RTypeError, [])
                                                 end) = RBool b)
                             \/ ret_of (match ur_unregister W hashable st p n comp with
                                        | (st', true) => (st', RBool true, [Unregistered (RU p n comp oi of)])
                                        | (st', false) => (st', RTypeError, [])
                                        end) = RTypeError).
    { intros comp. destruct (ur_unregister W hashable st p n comp) as [st' [|]]; [left; eexists|right]; reflexivity. }
    destruct c as [c'|]; [destruct (negb (v_eq c' oc)); [left; eexists; reflexivity|]|]; apply G.
  Qed.

  Hypothesis gn_none : forall c, gn c = 0.

  (* the part of the generated registerUtility after the argument preamble, for a resolved name *)
  Lemma g_reg_body st c p nm i (fo : option (nat * value)) (ev : bool) :
    (let reg := aget pn_eqb (c_ureg st) (p, nm) in
     match reg with
     | None =>
         let '(u_, r_, c_) := g_ur_registerUtility W hashable (c_utils st) (c_ureg st) (c_cache st) p nm c i (option_map fst fo) in
         let st0 := with_cache (with_ureg (with_utils st u_) r_) c_ in
         if ev then (st0, RNone, [] ++ [Registered (RU p nm c i (option_map fst fo))]) else (st0, RNone, [])
     | Some reg5 =>
         if v_eq (fst (fst reg5)) c && Nat.eqb (snd (fst reg5)) i then (st, RNone, [])
         else
           let '(st1_, r1_, evs1_) := g_unregisterUtility W hashable gup st (Some (fst (fst reg5))) (Some p) nm None in
           if is_exc r1_ then (st1_, r1_, [] ++ evs1_)
           else
             let '(u_, r_, c_) := g_ur_registerUtility W hashable (c_utils st1_) (c_ureg st1_) (c_cache st1_) p nm c i (option_map fst fo) in
             let st0 := with_cache (with_ureg (with_utils st1_ u_) r_) c_ in
             if ev then (st0, RNone, ([] ++ evs1_) ++ [Registered (RU p nm c i (option_map fst fo))])
             else (st0, RNone, [] ++ evs1_)
     end)
    = registerUtility W hashable st c p nm i (option_map fst fo) ev.
  Proof.
    unfold registerUtility. cbv zeta.
    destruct (aget pn_eqb (c_ureg st) (p, nm)) as [[[oc oi] of]|].
    - cbn [fst snd]. destruct (v_eq oc c && Nat.eqb oi i); [reflexivity|].
      rewrite g_unregisterUtility_eq.
      destruct (unregisterUtility_ret st (Some oc) p nm) as [[b Hb]|Hb];
        destruct (unregisterUtility W hashable st (Some oc) p nm) as [[st1 r1] ev1]; cbn [ret_of fst snd] in Hb; subst r1;
        cbn [is_exc app]; [|reflexivity].
      rewrite g_ur_registerUtility_eq. destruct ev; cbn [announce app]; [reflexivity | now rewrite app_nil_r].
    - rewrite g_ur_registerUtility_eq. destruct ev; reflexivity.
  Qed.

  Theorem g_registerUtility_eq st c p n i ev :
    g_registerUtility W hashable gup gn st (Some c) (Some p) n i ev None
    = registerUtility W hashable st c p n i None ev.
  Proof.
    unfold g_registerUtility. cbv beta iota zeta. destruct (Nat.eqb n 0) eqn:E.
    - apply Nat.eqb_eq in E. subst n. rewrite gn_none. exact (g_reg_body st c p 0 i None ev).
    - exact (g_reg_body st c p n i None ev).
  Qed.

  Theorem g_registerUtility_factory_eq st f c p n i ev :
    g_registerUtility W hashable gup gn st None (Some p) n i ev (Some (f, c))
    = registerUtility W hashable st c p n i (Some f) ev.
  Proof.
    unfold g_registerUtility. cbv beta iota zeta. cbn [snd]. destruct (Nat.eqb n 0) eqn:E.
    - apply Nat.eqb_eq in E. subst n. rewrite gn_none. exact (g_reg_body st c p 0 i (Some (f, c)) ev).
    - exact (g_reg_body st c p n i (Some (f, c)) ev).
  Qed.

  Theorem g_registerUtility_both st f c c' p n i ev :
    g_registerUtility W hashable gup gn st (Some c') p n i ev (Some (f, c)) = (st, RTypeError, []).
  Proof. reflexivity. Qed.
End Utilities.

(* ------------------------------------------------------------------ Components: adapters, subscription adapters, handlers *)
Section Adapters.
  Variable W : world.
  Variable gn : value -> name.                                   (* _getName *)
  Variable gap : value -> option spec.                           (* _getAdapterProvided *)
  Variable gar : option value -> option (list (option spec)) -> option (list spec).   (* _getAdapterRequired *)
  Hypothesis gn_none : forall c, gn c = 0.
  Hypothesis gar_explicit : forall f req, gar f (Some req) = Some (map conv req).

  Theorem g_registerAdapter_eq st f req p n i ev :
    g_registerAdapter W gn gap gar st f (Some req) (Some p) n i ev = registerAdapter W st f req p n i ev.
  Proof.
    unfold g_registerAdapter, registerAdapter, conv_req. cbv beta iota zeta. rewrite gar_explicit.
    destruct (Nat.eqb n 0) eqn:E; [apply Nat.eqb_eq in E; subst n; rewrite gn_none|]; destruct ev; reflexivity.
  Qed.

  Theorem g_unregisterAdapter_eq st f req p n :
    g_unregisterAdapter W gap gar st f (Some req) (Some p) n = unregisterAdapter W st f req p n.
  Proof.
    unfold g_unregisterAdapter, unregisterAdapter, conv_req. cbv beta iota zeta. rewrite gar_explicit.
    destruct (aget akey_eqb (c_areg st) (map conv req, p, n)) as [[of oi]|]; [|reflexivity].
    destruct f as [f'|]; cbn [fst snd]; [destruct (negb (v_eq f' of))|]; reflexivity.
  Qed.

  Theorem g_registerSubscriptionAdapter_eq st f req p n i ev :
    g_registerSubscriptionAdapter W gap gar st f (Some req) (Some p) n i ev = registerSub W st f req p n i ev.
  Proof.
    unfold g_registerSubscriptionAdapter, registerSub, conv_req. cbv beta iota zeta.
    destruct (negb (Nat.eqb n 0)); [reflexivity|]. rewrite gar_explicit. destruct ev; reflexivity.
  Qed.

  Theorem g_registerHandler_eq st f req n i ev :
    g_registerHandler W gar st f (Some req) n i ev = registerHandler W st f req n i ev.
  Proof.
    unfold g_registerHandler, registerHandler, conv_req. cbv beta iota zeta.
    destruct (negb (Nat.eqb n 0)); [reflexivity|]. rewrite gar_explicit. destruct ev; reflexivity.
  Qed.

  Theorem g_unregisterSubscriptionAdapter_eq st f req p n :
    g_unregisterSubscriptionAdapter W gap gar st f (Some req) (Some p) n = unregisterSub W st f req p n.
  Proof.
    unfold g_unregisterSubscriptionAdapter, unregisterSub, conv_req. cbv beta iota zeta.
    destruct (negb (Nat.eqb n 0)); [reflexivity|]. rewrite gar_explicit.
    destruct f as [f'|].
    - match goal with |- context [filter ?g (c_sreg st)] =>
        replace (filter g (c_sreg st)) with (filter (fun e => negb (sub_match (Some f') (map conv req) p e)) (c_sreg st))
          by (apply filter_ext; intros [[[? ?] ?] ?]; reflexivity) end.
      destruct (Nat.eqb _ _); reflexivity.
    - match goal with |- context [filter ?g (c_sreg st)] =>
        replace (filter g (c_sreg st)) with (filter (fun e => negb (sub_match None (map conv req) p e)) (c_sreg st))
          by (apply filter_ext; intros [[[? ?] ?] ?]; cbn; now rewrite andb_true_r) end.
      destruct (Nat.eqb _ _); reflexivity.
  Qed.

  Theorem g_unregisterHandler_eq st f req n :
    g_unregisterHandler W gar st f (Some req) n = unregisterHandler W st f req n.
  Proof.
    unfold g_unregisterHandler, unregisterHandler, conv_req. cbv beta iota zeta.
    destruct (negb (Nat.eqb n 0)); [reflexivity|]. rewrite gar_explicit.
    destruct f as [f'|].
    - match goal with |- context [filter ?g (c_hreg st)] =>
        replace (filter g (c_hreg st)) with (filter (fun e => negb (hnd_match (Some f') (map conv req) e)) (c_hreg st))
          by (apply filter_ext; intros [[? ?] ?]; reflexivity) end.
      destruct (Nat.eqb _ _); reflexivity.
    - match goal with |- context [filter ?g (c_hreg st)] =>
        replace (filter g (c_hreg st)) with (filter (fun e => negb (hnd_match None (map conv req) e)) (c_hreg st))
          by (apply filter_ext; intros [[? ?] ?]; cbn; now rewrite andb_true_r) end.
      destruct (Nat.eqb _ _); reflexivity.
  Qed.
End Adapters.

(* ------------------------------------------------------------------ the listings *)
Theorem g_registeredUtilities_eq st : g_registeredUtilities st = registeredUtilities st.
Proof. unfold g_registeredUtilities, registeredUtilities. apply map_ext. intros [[p n] [[c i] f]]. reflexivity. Qed.
Theorem g_registeredAdapters_eq st : g_registeredAdapters st = registeredAdapters st.
Proof. unfold g_registeredAdapters, registeredAdapters. apply map_ext. intros [[[q p] n] [f i]]. reflexivity. Qed.
Theorem g_registeredSubscriptionAdapters_eq st :
  g_registeredSubscriptionAdapters st = registeredSubscriptionAdapters st.
Proof.
  unfold g_registeredSubscriptionAdapters, registeredSubscriptionAdapters. apply map_ext.
  intros [[[q p] f] i]. reflexivity.
Qed.
Theorem g_registeredHandlers_eq st : g_registeredHandlers st = registeredHandlers st.
Proof. unfold g_registeredHandlers, registeredHandlers. apply map_ext. intros [[q f] i]. reflexivity. Qed.

(* ------------------------------------------------------------------ rebuildUtilityRegistryFromLocalCache *)
Lemma fold_left_ext_eq {A B} (f g : A -> B -> A) l : (forall a x, f a x = g a x) -> forall a, fold_left f l a = fold_left g l a.
Proof. intros H. induction l as [|x l IH]; intros a; cbn; auto. now rewrite H, IH. Qed.

Theorem g_rebuildUtilityRegistry_eq W rebuild st :
  g_rebuildUtilityRegistry W rebuild st = rebuildUtilityRegistry W rebuild st.
Proof.
  unfold g_rebuildUtilityRegistry, rebuildUtilityRegistry, rebuild_loop.
  match goal with |- context [fold_left ?f (c_ureg st) ?a] =>
    match goal with |- context [fold_left ?g (c_ureg st) a] =>
      tryif constr_eq f g then fail else
      replace (fold_left f (c_ureg st) a) with (fold_left g (c_ureg st) a)
    end
  end.
  - reflexivity.
  - apply fold_left_ext_eq. intros [u [[[nr dr] ns] ds]] [[p n] [[v i] f]].
    destruct (registered u [] p n) as [v'|]; [destruct (v_eq v' v)|]; destruct rebuild; cbn [negb];
      match goal with |- context [subscribed ?x [] (Some p) v] => destruct (subscribed x [] (Some p) v) end;
      reflexivity.
Qed.

(* ------------------------------------------------------------------ the query methods *)
Section Queries.
  Variable W : world.
  Variable call : value -> list nat -> option nat.

  Theorem g_queries_eq S r :
    (forall p n, g_queryUtility W (u_regs S r) p n = sys_queryUtility W S r p n) /\
    (forall p, g_getUtilitiesFor W (u_regs S r) p = sys_getUtilitiesFor W S r p) /\
    (forall p, g_getAllUtilitiesRegisteredFor W (u_regs S r) p = sys_getAllUtilitiesRegisteredFor W S r p) /\
    (forall o p n, g_queryAdapter W call (a_regs S r) o p n = sys_queryMultiAdapter W call S r [o] p n) /\
    (forall os p n, g_queryMultiAdapter W call (a_regs S r) os p n = sys_queryMultiAdapter W call S r os p n) /\
    (forall os p, g_getAdapters W call (a_regs S r) os p = sys_getAdapters W call S r os p) /\
    (forall os p, g_subscribers W call (a_regs S r) os p = sys_subscribers W call S r os p) /\
    (forall os, g_handle W call (a_regs S r) os = sys_handle W S r os).
  Proof.
    repeat split; intros; try reflexivity.
    unfold g_getAdapters, sys_getAdapters. apply flat_map_ext. intros [n f]. reflexivity.
  Qed.
End Queries.

(* ------------------------------------------------------------------ inferred arguments = explicit arguments
   Whatever the inference helpers answer ([gup] _getUtilityProvided, [gn] _getName, [gap]
   _getAdapterProvided, [gar] _getAdapterRequired: arbitrary oracles), a call that leaves provided /
   required / name to inference behaves exactly as the model's call with the inferred values passed
   explicitly; an inference failure (None) is a TypeError that changes nothing. *)
Section Inference.
  Variable W : world.
  Variable hashable : value -> bool.
  Variable gup : value -> option spec.
  Variable gn : value -> name.
  Variable gap : value -> option spec.
  Variable gar : option value -> option (list (option spec)) -> option (list spec).

  Definition or_infer {A} (given : option A) (inferred : option A) : option A :=
    match given with Some x => Some x | None => inferred end.
  Definition name_or (n : name) (inferred : name) : name := if Nat.eqb n 0 then inferred else n.

  Theorem g_registerUtility_inferred st c po n i ev :
    g_registerUtility W hashable gup gn st (Some c) po n i ev None
    = match or_infer po (gup c) with
      | None => (st, RTypeError, [])
      | Some p => registerUtility W hashable st c p (name_or n (gn c)) i None ev
      end.
  Proof.
    unfold g_registerUtility, or_infer, name_or. cbv beta iota zeta.
    destruct po as [p|]; [|destruct (gup c) as [p|]; [|reflexivity]];
      (destruct (Nat.eqb n 0); [exact (g_reg_body W hashable gup st c p (gn c) i None ev)
                               | exact (g_reg_body W hashable gup st c p n i None ev)]).
  Qed.

  Theorem g_unregisterUtility_inferred st c n :
    g_unregisterUtility W hashable gup st (Some c) None n None
    = match gup c with
      | None => (st, RTypeError, [])
      | Some p => unregisterUtility W hashable st (Some c) p n
      end.
  Proof.
    destruct (gup c) as [p|] eqn:E.
    - rewrite <- (g_unregisterUtility_eq W hashable gup st (Some c) p n).
      unfold g_unregisterUtility. now rewrite E.
    - unfold g_unregisterUtility. now rewrite E.
  Qed.

  Theorem g_registerAdapter_inferred st f ro po n i ev :
    g_registerAdapter W gn gap gar st f ro po n i ev
    = match or_infer po (gap f) with
      | None => (st, RTypeError, [])
      | Some p => match gar (Some f) ro with
                  | None => (st, RTypeError, [])
                  | Some q => registerAdapter W st f (map Some q) p (name_or n (gn f)) i ev
                  end
      end.
  Proof.
    unfold g_registerAdapter, registerAdapter, conv_req, or_infer, name_or. cbv beta iota zeta.
    destruct po as [p|]; [|destruct (gap f) as [p|]; [|reflexivity]];
      (destruct (gar (Some f) ro) as [q|]; [|reflexivity]); rewrite map_conv_some;
      destruct (Nat.eqb n 0); destruct ev; reflexivity.
  Qed.

  Theorem g_registerSubscriptionAdapter_inferred st f ro po i ev :
    g_registerSubscriptionAdapter W gap gar st f ro po 0 i ev
    = match or_infer po (gap f) with
      | None => (st, RTypeError, [])
      | Some p => match gar (Some f) ro with
                  | None => (st, RTypeError, [])
                  | Some q => registerSub W st f (map Some q) p 0 i ev
                  end
      end.
  Proof.
    unfold g_registerSubscriptionAdapter, registerSub, conv_req, or_infer. cbv beta iota zeta. cbn [Nat.eqb negb].
    destruct po as [p|]; [|destruct (gap f) as [p|]; [|reflexivity]];
      (destruct (gar (Some f) ro) as [q|]; [|reflexivity]); rewrite map_conv_some; destruct ev; reflexivity.
  Qed.

  Theorem g_registerHandler_inferred st f ro i ev :
    g_registerHandler W gar st f ro 0 i ev
    = match gar (Some f) ro with
      | None => (st, RTypeError, [])
      | Some q => registerHandler W st f (map Some q) 0 i ev
      end.
  Proof.
    unfold g_registerHandler, registerHandler, conv_req. cbv beta iota zeta. cbn [Nat.eqb negb].
    destruct (gar (Some f) ro) as [q|]; [|reflexivity]. rewrite map_conv_some. destruct ev; reflexivity.
  Qed.

  Theorem g_unregisterAdapter_inferred st f n :
    g_unregisterAdapter W gap gar st (Some f) None None n
    = match gap f with
      | None => (st, RTypeError, [])
      | Some p => match gar (Some f) None with
                  | None => (st, RTypeError, [])
                  | Some q => unregisterAdapter W st (Some f) (map Some q) p n
                  end
      end.
  Proof.
    unfold g_unregisterAdapter, unregisterAdapter, conv_req. cbv beta iota zeta.
    destruct (gap f) as [p|]; [|reflexivity]. destruct (gar (Some f) None) as [q|]; [|reflexivity].
    rewrite map_conv_some. destruct (aget akey_eqb (c_areg st) (q, p, n)) as [[of oi]|]; [|reflexivity].
    cbn [fst snd]. destruct (negb (v_eq f of)); reflexivity.
  Qed.
End Inference.
