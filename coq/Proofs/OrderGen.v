(* The kernel regenerated from interface.py on every run (Gen/Compare.v) equals the hand-written
   model the C12 theorems are about.  If the source changes, either this file stops checking
   (broken proof obligation) or the translator aborts. *)
From Coq Require Import List NArith Bool.
From ZI Require Import Lib.Str Model.Order Gen.Compare.

Lemma compare_gen_eq_model self other : compare_gen self other = compare_mixin self other.
Proof.
  unfold compare_gen, compare_mixin, okey.
  destruct (same_obj other self); [reflexivity|].
  destruct (okind_of other); reflexivity.
Qed.

Lemma gen_methods_eq_model self other :
  gen__lt self other = via_compare OpLt self other /\
  gen__le self other = via_compare OpLe self other /\
  gen__gt self other = via_compare OpGt self other /\
  gen__ge self other = via_compare OpGe self other /\
  gen__eq self other = via_compare OpEq self other /\
  gen__ne self other = (if same_obj other self then MBool false else via_compare OpNe self other).
Proof.
  unfold gen__lt, gen__le, gen__gt, gen__ge, gen__eq, gen__ne, via_compare.
  rewrite !compare_gen_eq_model.
  repeat split; destruct (compare_mixin self other) as [|c]; try reflexivity;
    destruct c; reflexivity.
Qed.

(* the Python method table of an interface, as generated, is the model's *)
Lemma gen_py_method_iface o self other :
  okind_of self = KIface ->
  py_method o self other =
    match o with
    | OpLt => gen__lt self other | OpLe => gen__le self other
    | OpGt => gen__gt self other | OpGe => gen__ge self other
    | OpEq => gen__eq self other | OpNe => gen__ne self other
    end.
Proof.
  intros K. unfold py_method. rewrite K.
  destruct (gen_methods_eq_model self other) as (H1 & H2 & H3 & H4 & H5 & H6).
  destruct o; congruence.
Qed.
