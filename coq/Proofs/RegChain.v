(* Proofs for property C06: registries consult exactly their current base chain.
   Part A: lists and systems.  Part B: the resolver of Model/Ro.v only looks at the part of the
   graph reachable from its argument (frame), is fuel-independent above the rank, total, and
   lists exactly the reachable nodes.  Part C: push flavour.  Part D: verifying flavour.
   Part E: what a lookup answers. *)
From Coq Require Import List Arith Bool Lia.
Import ListNotations.
From ZI Require Import Model.Ro Model.Adapter Model.Lookup Model.RegSys Spec.RegChain.

Ltac nlia := unfold node, spec, name in *; lia.

(* ================================================================== stable interface
   (the invariants of reachable systems; per-step preservation: PInv_step / VInv_step below;
   [Reach], [Bs], [wf_op], [wf_hist] are in Spec/RegChain.v) *)

(* every base has a smaller number than the registry: the registry graph is acyclic *)
Definition ranked (B : nat -> list nat) : Prop := forall y b, In b (B y) -> b < y.

Definition allPush (s : sys) : Prop := forall i, rs_flavour (get s i) = Push.

(* sub-registry lists: every listed sub-registry is a later, existing registry; and every
   registry is listed in each of its bases (the mirror of __bases__) *)
Definition subs_ok (s : sys) : Prop :=
  (forall r y, In y (rs_subs (get s r)) -> r < y /\ y < length s) /\
  (forall r b, In b (Bs s r) -> In r (rs_subs (get s b))).

(* the cached ``ro`` of every registry is the C3 order of the current base graph *)
Definition ro_coherent (s : sys) : Prop := forall r, r < length s -> rs_ro (get s r) = fresh_ro s r.

(* invariant of push-flavour systems *)
Definition PInv (s : sys) : Prop := allPush s /\ ranked (Bs s) /\ subs_ok s /\ ro_coherent s.

Definition allVer (s : sys) : Prop := forall i, i < length s -> rs_flavour (get s i) = Verifying.

(* the generation snapshot of a verifying registry: taken over ro[1:], of existing registries,
   never ahead of the current generations, and as long as it still matches the current
   generations the cached ``ro`` is the C3 order of the current base graph *)
Definition snap_ok (s : sys) (r : nat) : Prop :=
  rs_ro (get s r) = r :: rs_vro (get s r) /\
  (forall y, In y (rs_ro (get s r)) -> y < length s) /\
  Forall2 le (rs_vgen (get s r)) (gens s (rs_vro (get s r))) /\
  (gens s (rs_vro (get s r)) = rs_vgen (get s r) -> rs_ro (get s r) = fresh_ro s r).

(* invariant of verifying-flavour systems *)
Definition VInv (s : sys) : Prop := allVer s /\ ranked (Bs s) /\ forall r, r < length s -> snap_ok s r.

(* ================================================================== Part A *)

Lemma mem_In x l : mem x l = true <-> In x l.
Proof.
  induction l as [|y l IH]; cbn; [split; [discriminate|tauto]|].
  rewrite orb_true_iff, Nat.eqb_eq, IH. split; intros [H|H]; auto.
Qed.

Lemma mem_false x l : mem x l = false <-> ~ In x l.
Proof. rewrite <- mem_In. destruct (mem x l); split; congruence. Qed.

Lemma flat_map_ext_in {A B} (f g : A -> list B) l :
  (forall a, In a l -> f a = g a) -> flat_map f l = flat_map g l.
Proof.
  induction l as [|a l IH]; cbn; auto. intros H. rewrite H, IH; auto.
Qed.

Lemma fold_left_inv {A B} (P : A -> Prop) (f : A -> B -> A) l :
  forall a, P a -> (forall a b, P a -> In b l -> P (f a b)) -> P (fold_left f l a).
Proof.
  induction l as [|b l IH]; cbn [fold_left]; intros a Pa H; [exact Pa|].
  apply IH; [apply H; cbn; auto|]. intros; apply H; cbn; auto.
Qed.

Lemma fold_left_ext_inv {A B} (P : A -> Prop) (f g : A -> B -> A) l :
  forall a, P a -> (forall a b, P a -> In b l -> P (g a b)) ->
            (forall a b, P a -> In b l -> f a b = g a b) ->
            fold_left f l a = fold_left g l a.
Proof.
  induction l as [|b l IH]; cbn [fold_left]; intros a Pa Hg He; [reflexivity|].
  rewrite He by (cbn; auto). apply IH; [apply Hg; cbn; auto| |]; intros; [apply Hg|apply He]; cbn; auto.
Qed.

Lemma set_length s : forall r x, length (set s r x) = length s.
Proof. induction s as [|y s IH]; intros [|r] x; cbn; auto. Qed.

Lemma get_oob s r : length s <= r -> get s r = dummy_rs.
Proof. intros. unfold get. apply nth_overflow; auto. Qed.

Lemma set_oob s : forall r x, length s <= r -> set s r x = s.
Proof.
  induction s as [|y s IH]; intros [|r] x H; cbn in *; auto; try lia.
  rewrite IH; auto; lia.
Qed.

Lemma get_set_same s : forall r x, r < length s -> get (set s r x) r = x.
Proof.
  induction s as [|y s IH]; intros [|r] x H; cbn in *; try lia; auto.
  apply IH; lia.
Qed.

Lemma get_set_other s : forall r x i, i <> r -> get (set s r x) i = get s i.
Proof.
  induction s as [|y s IH]; intros [|r] x [|i] H; cbn in *; auto; try congruence.
  apply IH; auto.
Qed.

Lemma get_upd_same s r f : r < length s -> get (upd s r f) r = f (get s r).
Proof. intros. unfold upd. apply get_set_same; auto. Qed.

Lemma get_upd_other s r f i : i <> r -> get (upd s r f) i = get s i.
Proof. intros. unfold upd. apply get_set_other; auto. Qed.

Lemma upd_length s r f : length (upd s r f) = length s.
Proof. apply set_length. Qed.

Lemma get_app_l s t i : i < length s -> get (s ++ t) i = get s i.
Proof. intros. unfold get. apply app_nth1; auto. Qed.

Lemma get_app_new s x : get (s ++ [x]) (length s) = x.
Proof. unfold get. rewrite app_nth2, Nat.sub_diag; auto. Qed.

Lemma bases_combine (l : list (list nat)) : forall k x,
  bases (combine (seq k (length l)) l) x = if Nat.ltb x k then [] else nth (x - k) l [].
Proof.
  induction l as [|bs l IH]; intros k x; cbn [length seq combine bases].
  - destruct (Nat.ltb x k); destruct (x - k); auto.
  - rewrite IH. destruct (Nat.eqb x k) eqn:E.
    + apply Nat.eqb_eq in E. subst. rewrite Nat.ltb_irrefl, Nat.sub_diag. auto.
    + apply Nat.eqb_neq in E. destruct (Nat.ltb x k) eqn:L.
      * apply Nat.ltb_lt in L. replace (Nat.ltb x (S k)) with true; auto.
        symmetry; apply Nat.ltb_lt; lia.
      * apply Nat.ltb_ge in L. replace (Nat.ltb x (S k)) with false
          by (symmetry; apply Nat.ltb_ge; lia).
        replace (x - k) with (S (x - S k)) by lia. auto.
Qed.

Lemma bases_reg_graph s x : bases (reg_graph s) x = Bs s x.
Proof.
  unfold reg_graph, Bs, get. rewrite <- (map_length rs_bases s), bases_combine.
  cbn. rewrite Nat.sub_0_r. change (@nil nat) with (rs_bases dummy_rs). apply map_nth.
Qed.

(* ================================================================== Part B *)

Lemma Reach_base B x b : In b (B x) -> Reach B x b.
Proof. intros. eapply Reach_step; eauto. apply Reach_refl. Qed.

Lemma Reach_trans B x y z : Reach B x y -> Reach B y z -> Reach B x z.
Proof. induction 1; auto. intros. eapply Reach_step; eauto. Qed.

Lemma Reach_last B x z : Reach B x z -> x <> z -> exists y, Reach B x y /\ In z (B y).
Proof.
  induction 1 as [|x b y Hb Hr IH]; [congruence|]. intros _.
  destruct (Nat.eq_dec b y) as [->|N].
  - exists x. split; [apply Reach_refl | auto].
  - destruct (IH N) as (w & Hw & Hz). exists w. split; auto. eapply Reach_step; eauto.
Qed.


Lemma Reach_le B : ranked B -> forall x y, Reach B x y -> y <= x.
Proof. intros R x y H. induction H; auto. apply R in H. lia. Qed.

(* two hierarchies agree on everything reachable from x *)
Definition agree_from (B B' : nat -> list nat) (x : nat) : Prop :=
  forall y, Reach B x y -> B y = B' y.

Lemma agree_base B B' x b : agree_from B B' x -> In b (B x) -> agree_from B B' b.
Proof. intros A Hb y Hy. apply A. eapply Reach_step; eauto. Qed.

Lemma agree_Reach B B' x : agree_from B B' x -> forall y, Reach B x y -> Reach B' x y.
Proof.
  intros A y H. induction H as [|x b y Hb Hr IH]; [apply Reach_refl|].
  eapply Reach_step.
  - rewrite <- (A x (Reach_refl _ _)). eauto.
  - apply IH. eapply agree_base; eauto.
Qed.

Lemma Reach_dec B r : ranked B -> forall x, Reach B x r \/ ~ Reach B x r.
Proof.
  intros R x. induction x as [x IH] using lt_wf_ind.
  destruct (Nat.eq_dec x r) as [->|N]; [left; apply Reach_refl|].
  assert (D : forall l, (forall b, In b l -> b < x) ->
                        (exists b, In b l /\ Reach B b r) \/ (forall b, In b l -> ~ Reach B b r)).
  { induction l as [|b l IHl]; intros Hl; [right; intros b []|].
    destruct (IH b (Hl b (or_introl eq_refl))) as [Y|Nn].
    - left. exists b. split; [left|]; auto.
    - destruct IHl as [(c & Hc & Y)|Nl]; [intros; apply Hl; right; auto| |].
      + left. exists c. split; [right|]; auto.
      + right. intros c [<-|Hc]; auto. }
  destruct (D (B x) (R x)) as [(b & Hb & Y)|Nn].
  - left. eapply Reach_step; eauto.
  - right. intros H. inversion H; subst; [congruence|]. eapply Nn; eauto.
Qed.

(* ---- legacy order *)
Section Frame.
  Variables g g' : graph.
  Hypothesis Rk : ranked (bases g).

  Lemma flatten_frame : forall f1 f2 x, agree_from (bases g) (bases g') x -> x < f1 -> x < f2 ->
    legacy_flatten f1 g x = legacy_flatten f2 g' x.
  Proof.
    induction f1 as [|f1 IH]; intros [|f2] x A H1 H2; try lia. cbn [legacy_flatten].
    rewrite <- (A x (Reach_refl _ _)). f_equal. apply flat_map_ext_in. intros b Hb.
    pose proof (Rk _ _ Hb). apply IH; try lia. eapply agree_base; eauto.
  Qed.

  Lemma resolve_frame st : forall f1 f2 x, agree_from (bases g) (bases g') x -> x < f1 -> x < f2 ->
    resolve st f1 g x = resolve st f2 g' x.
  Proof.
    induction f1 as [|f1 IH]; intros [|f2] x A H1 H2; try lia. cbn [resolve].
    rewrite <- (A x (Reach_refl _ _)).
    replace (map (resolve st f2 g') (bases g x)) with (map (resolve st f1 g) (bases g x)).
    2:{ apply map_ext_in. intros b Hb. pose proof (Rk _ _ Hb). apply IH; try lia.
        eapply agree_base; eauto. }
    unfold legacy_ro. rewrite (flatten_frame (S f1) (S f2) x); auto.
  Qed.
End Frame.

(* ---- membership *)
Lemma keep_last_In y l : In y (keep_last l) <-> In y l.
Proof.
  induction l as [|x t IH]; cbn; [tauto|].
  destruct (mem x t) eqn:M.
  - rewrite IH. apply mem_In in M. split; auto. intros [<-|H]; auto.
  - cbn. rewrite IH. tauto.
Qed.

Lemma filter_length_le (p : nat -> bool) s : length (filter p s) <= length s.
Proof. induction s as [|h t IH]; cbn; auto. destruct (p h); cbn; lia. Qed.

Lemma total_len_cons s r : total_len (s :: r) = length s + total_len r.
Proof. reflexivity. Qed.

Lemma total_len_filter_ne seqs : total_len (filter nonempty seqs) = total_len seqs.
Proof.
  induction seqs as [|s r IH]; auto. cbn [filter]. destruct s; cbn [nonempty].
  - rewrite total_len_cons. cbn. auto.
  - rewrite !total_len_cons, IH. auto.
Qed.

Lemma total_len_remove_le x seqs : total_len (remove_everywhere x seqs) <= total_len seqs.
Proof.
  unfold remove_everywhere. rewrite total_len_filter_ne.
  induction seqs as [|s r IH]; [cbn; auto|].
  rewrite map_cons, !total_len_cons.
  pose proof (filter_length_le (fun b => negb (Nat.eqb b x)) s). nlia.
Qed.

Lemma total_len_remove_lt x t seqs :
  In (x :: t) seqs -> total_len (remove_everywhere x seqs) < total_len seqs.
Proof.
  unfold remove_everywhere. rewrite total_len_filter_ne.
  induction seqs as [|s r IH]; [cbn; tauto|].
  rewrite map_cons, !total_len_cons. intros [->|H].
  - cbn [filter length]. rewrite Nat.eqb_refl. cbn [negb].
    pose proof (filter_length_le (fun b => negb (Nat.eqb b x)) t).
    pose proof (total_len_remove_le x r) as H0. unfold remove_everywhere in H0.
    rewrite total_len_filter_ne in H0. cbn [length]. nlia.
  - specialize (IH H).
    pose proof (filter_length_le (fun b => negb (Nat.eqb b x)) s). nlia.
Qed.

Lemma find_from_some cands seqs c :
  find_from cands seqs = Some c -> exists t, In (c :: t) cands.
Proof.
  induction cands as [|[|h t] r IH]; cbn; intros H; try discriminate.
  - destruct (IH H) as [t Ht]; eauto.
  - destruct (can_choose h seqs).
    + inversion H; subst; eauto.
    + destruct (IH H) as [t' Ht]; eauto.
Qed.

Lemma merge_loop_fuel f : forall seqs acc, total_len seqs < f -> merge_loop f seqs acc <> MFuel.
Proof.
  induction f as [|f IH]; intros seqs acc H; [nlia|]. cbn.
  destruct seqs as [|s r]; [discriminate|].
  destruct (find_next (s :: r)) as [b|] eqn:F; [|discriminate].
  apply IH. destruct (find_from_some _ _ _ F) as [t Ht].
  pose proof (total_len_remove_lt _ _ _ Ht). nlia.
Qed.

Lemma c3_merge_no_fuel seqs : c3_merge seqs <> MFuel.
Proof. unfold c3_merge. apply merge_loop_fuel. nlia. Qed.

Definition in_seqs (y : node) (seqs : list (list node)) : Prop := exists s, In s seqs /\ In y s.

Lemma in_seqs_remove y b seqs :
  in_seqs y (remove_everywhere b seqs) <-> (y <> b /\ in_seqs y seqs).
Proof.
  unfold in_seqs, remove_everywhere. split.
  - intros (s & Hs & Hy). apply filter_In in Hs. destruct Hs as (Hs & _).
    apply in_map_iff in Hs. destruct Hs as (s0 & <- & Hs0).
    apply filter_In in Hy. destruct Hy as (Hy & Ne).
    apply negb_true_iff, Nat.eqb_neq in Ne. split; eauto.
  - intros (Ne & s0 & Hs0 & Hy).
    assert (Hy' : In y (filter (fun c => negb (Nat.eqb c b)) s0)).
    { apply filter_In. split; auto. apply negb_true_iff, Nat.eqb_neq; auto. }
    exists (filter (fun c => negb (Nat.eqb c b)) s0). split; auto.
    apply filter_In. split.
    + apply in_map_iff. eauto.
    + destruct (filter (fun c => negb (Nat.eqb c b)) s0); [destruct Hy'|reflexivity].
Qed.

Lemma merge_loop_mem f : forall seqs acc l, merge_loop f seqs acc = MOk l ->
  forall y, In y l <-> (In y acc \/ in_seqs y seqs).
Proof.
  induction f as [|f IH]; intros seqs acc l H y; [discriminate|]. cbn in H.
  destruct seqs as [|s r].
  - inversion H; subst. rewrite <- in_rev. split; auto. intros [?|(s & [] & _)]; auto.
  - destruct (find_next (s :: r)) as [b|] eqn:F; [|discriminate].
    rewrite (IH _ _ _ H y), in_seqs_remove. cbn [In].
    destruct (find_from_some _ _ _ F) as [t Ht].
    split.
    + intros [[<-|Ha]|(_ & Hs)]; auto. right. exists (b :: t). split; auto. left; auto.
    + intros [Ha|Hs]; auto. destruct (Nat.eq_dec y b) as [->|N]; auto.
Qed.

Lemma c3_merge_mem seqs l : c3_merge seqs = MOk l -> forall y, In y l <-> in_seqs y seqs.
Proof.
  unfold c3_merge. intros H y. rewrite (merge_loop_mem _ _ _ _ H y). cbn [In]. unfold in_seqs.
  split.
  - intros [[]|(s & Hs & Hy)]. apply filter_In in Hs. destruct Hs; eauto.
  - intros (s & Hs & Hy). right. exists s. split; auto. apply filter_In. split; auto.
    destruct s; [destruct Hy|reflexivity].
Qed.

Lemma collect_spec (F : node -> rres) bs : forall ms is, collect (map F bs) = inl (ms, is) ->
  (forall b, In b bs -> exists m i, F b = ROk m i /\ In m ms) /\
  (forall m, In m ms -> exists b i, In b bs /\ F b = ROk m i) /\
  (forall b m, bs = [b] -> ms = [m] -> exists i, F b = ROk m i).
Proof.
  induction bs as [|b bs IH]; cbn [map collect]; intros ms is H.
  - inversion H; subst. repeat split; try (intros ? []); intros; discriminate.
  - destruct (F b) as [| |m i] eqn:E; try discriminate.
    destruct (collect (map F bs)) as [[ms' is']|r] eqn:C; [|discriminate].
    inversion H; subst. destruct (IH _ _ eq_refl) as (I1 & I2 & _). repeat split.
    + intros c [<-|Hc]; [exists m, i; split; auto; left; auto|].
      destruct (I1 c Hc) as (m' & i' & E' & Hm). exists m', i'. split; auto. right; auto.
    + intros m' [<-|Hm]; [exists b, i; split; auto; left; auto|].
      destruct (I2 m' Hm) as (c & i' & Hc & E'). exists c, i'. split; auto. right; auto.
    + intros c m' Hb Hm. inversion Hb; inversion Hm; subst. eauto.
Qed.

Lemma collect_total (F : node -> rres) bs :
  (forall b, In b bs -> exists m i, F b = ROk m i) -> exists ms is, collect (map F bs) = inl (ms, is).
Proof.
  induction bs as [|b bs IH]; cbn [map collect]; intros H; [eauto|].
  destruct (H b (or_introl eq_refl)) as (m & i & ->).
  destruct IH as (ms & is & ->); [intros; apply H; right; auto|]. eauto.
Qed.

Section Mem.
  Variable g : graph.
  Hypothesis Rk : ranked (bases g).

  Lemma flatten_mem : forall f x y, x < f -> (In y (legacy_flatten f g x) <-> Reach (bases g) x y).
  Proof.
    induction f as [|f IH]; intros x y H; [lia|]. cbn [legacy_flatten In]. rewrite in_flat_map. split.
    - intros [<-|(b & Hb & Hy)]; [apply Reach_refl|].
      pose proof (Rk _ _ Hb). apply IH in Hy; [|lia]. eapply Reach_step; eauto.
    - intros R. inversion R; subst; auto. right. exists b. split; auto.
      pose proof (Rk _ _ H0). apply IH; auto; lia.
  Qed.

  Lemma resolve_total : forall f x, x < f -> exists m i, resolve false f g x = ROk m i.
  Proof.
    induction f as [|f IH]; intros x H; [lia|]. cbn [resolve].
    destruct (collect_total (resolve false f g) (bases g x)) as (ms & is & C).
    { intros b Hb. pose proof (Rk _ _ Hb). apply IH; lia. }
    rewrite C. unfold c3_node.
    assert (G : exists m i, match c3_merge ([[x]] ++ ms ++ [bases g x]) with
                            | MOk l => ROk l is
                            | MBad => ROk (legacy_ro (S f) g x) true
                            | MFuel => RFuel end = ROk m i).
    { destruct (c3_merge ([[x]] ++ ms ++ [bases g x])) eqn:M; eauto.
      exfalso; eapply c3_merge_no_fuel; eauto. }
    destruct (bases g x) as [|b [|b2 bs]]; auto. destruct ms as [|m [|m2 ms]]; eauto.
  Qed.

  Lemma resolve_mem : forall f x m i, x < f -> resolve false f g x = ROk m i ->
    forall y, In y m <-> Reach (bases g) x y.
  Proof.
    induction f as [|f IH]; intros x m i H E y; [lia|]. cbn [resolve] in E.
    destruct (collect (map (resolve false f g) (bases g x))) as [[ms is]|r] eqn:C.
    2:{ (* a base failed: impossible *)
      destruct (collect_total (resolve false f g) (bases g x)) as (ms & is & C').
      { intros b Hb. pose proof (Rk _ _ Hb). apply resolve_total; lia. }
      congruence. }
    destruct (collect_spec _ _ _ _ C) as (I1 & I2 & I3).
    assert (Hms : (y = x \/ (exists m', In m' ms /\ In y m')) <-> Reach (bases g) x y).
    { split.
      - intros [->|(m' & Hm' & Hy)]; [apply Reach_refl|].
        destruct (I2 m' Hm') as (b & i' & Hb & Eb). pose proof (Rk _ _ Hb).
        eapply Reach_step; eauto. eapply IH; eauto; lia.
      - intros R. inversion R; subst; auto. right.
        destruct (I1 b H0) as (m' & i' & Eb & Hm'). exists m'. split; auto.
        pose proof (Rk _ _ H0). eapply IH; eauto; lia. }
    assert (Hleg : In y (legacy_ro (S f) g x) <-> Reach (bases g) x y).
    { unfold legacy_ro. rewrite keep_last_In. apply flatten_mem; auto. }
    assert (Hgen : forall l i', match c3_merge ([[x]] ++ ms ++ [bases g x]) with
                            | MOk l => ROk l is
                            | MBad => ROk (legacy_ro (S f) g x) true
                            | MFuel => RFuel end = ROk l i' -> (In y l <-> Reach (bases g) x y)).
    { intros l i' E'. destruct (c3_merge ([[x]] ++ ms ++ [bases g x])) eqn:M; try discriminate.
      - inversion E'; subst. rewrite (c3_merge_mem _ _ M y), <- Hms. unfold in_seqs. split.
        + intros (s & Hs & Hy). cbn [app In] in Hs. destruct Hs as [<-|Hs].
          * destruct Hy as [<-|[]]; auto.
          * apply in_app_iff in Hs. destruct Hs as [Hs|[<-|[]]]; [right; eauto|].
            right. destruct (I1 y Hy) as (m' & i'' & Eb & Hm'). exists m'. split; auto.
            pose proof (Rk _ _ Hy). eapply IH; eauto; try lia. apply Reach_refl.
        + intros [->|(m' & Hm' & Hy)].
          * exists [x]. split; cbn; auto.
          * exists m'. split; auto. cbn [app In]. right. apply in_app_iff. auto.
      - inversion E'; subst. auto. }
    unfold c3_node in E.
    destruct (bases g x) as [|b [|b2 bs]] eqn:EB; try (eapply Hgen; eauto; fail).
    destruct ms as [|m1 [|m2 ms]]; try (eapply Hgen; eauto; fail).
    inversion E; subst. rewrite <- Hms. cbn [In]. split.
    - intros [<-|Hy]; auto. right. exists m1. split; auto; left; auto.
    - intros [->|(m' & [<-|[]] & Hy)]; auto.
  Qed.
End Mem.

(* ---- consequences for fresh_ro *)
Lemma fresh_ro_resolve s r :
  fresh_ro s r = match resolve false (S (length s)) (reg_graph s) r with ROk m _ => m | _ => [r] end.
Proof. unfold fresh_ro, ro. destruct (resolve false (S (length s)) (reg_graph s) r); auto. Qed.

Lemma ranked_graph s : ranked (Bs s) -> ranked (bases (reg_graph s)).
Proof. intros R y b. rewrite bases_reg_graph. apply R. Qed.

Lemma fresh_ro_frame s s' r : ranked (Bs s) -> agree_from (Bs s) (Bs s') r ->
  r < length s -> r < length s' -> fresh_ro s r = fresh_ro s' r.
Proof.
  intros R A H H'. rewrite !fresh_ro_resolve.
  rewrite (resolve_frame (reg_graph s) (reg_graph s') (ranked_graph _ R) false
                         (S (length s)) (S (length s')) r); auto; try lia.
  intros y Hy. rewrite !bases_reg_graph. apply A.
  clear - Hy. induction Hy; [apply Reach_refl|]. rewrite bases_reg_graph in H.
  eapply Reach_step; eauto.
Qed.

Lemma Reach_graph s x y : Reach (bases (reg_graph s)) x y <-> Reach (Bs s) x y.
Proof.
  split; induction 1; try apply Reach_refl; eapply Reach_step; eauto.
  - rewrite <- bases_reg_graph; auto.
  - rewrite bases_reg_graph; auto.
Qed.

Lemma fresh_ro_mem s r y : ranked (Bs s) -> r < length s ->
  (In y (fresh_ro s r) <-> Reach (Bs s) r y).
Proof.
  intros R H. rewrite fresh_ro_resolve.
  destruct (resolve_total _ (ranked_graph _ R) (S (length s)) r) as (m & i & E); [lia|].
  rewrite E. rewrite <- Reach_graph.
  apply (resolve_mem _ (ranked_graph _ R) (S (length s)) r m i); auto.
Qed.


(* ---- the order starts with the node itself *)
Lemma merge_loop_prefix f : forall seqs acc l, merge_loop f seqs acc = MOk l -> exists t, l = rev acc ++ t.
Proof.
  induction f as [|f IH]; intros seqs acc l H; [discriminate|]. cbn in H.
  destruct seqs as [|s r].
  - inversion H; subst. exists []. rewrite app_nil_r; auto.
  - destruct (find_next (s :: r)) as [b|]; [|discriminate].
    destruct (IH _ _ _ H) as (t & ->). cbn [rev]. rewrite <- app_assoc. eauto.
Qed.

Lemma can_choose_fresh x seqs : (forall s, In s seqs -> ~ In x s) -> can_choose x ([x] :: seqs) = true.
Proof.
  intros N. unfold can_choose. cbn [forallb]. rewrite Nat.eqb_refl. cbn [andb].
  apply forallb_forall. intros s Hs. destruct s as [|h t]; auto.
  destruct (Nat.eqb h x); auto. apply negb_true_iff, mem_false. apply N; auto.
Qed.

Lemma c3_merge_head x seqs l : (forall s, In s seqs -> ~ In x s) ->
  c3_merge ([[x]] ++ seqs) = MOk l -> exists t, l = x :: t.
Proof.
  intros N. unfold c3_merge. cbn [app filter nonempty].
  set (S' := filter nonempty seqs). cbn [merge_loop].
  unfold find_next. cbn [find_from]. rewrite can_choose_fresh.
  - intros H. apply merge_loop_prefix in H. destruct H as (t & ->). cbn. eauto.
  - intros s Hs. apply filter_In in Hs. apply N. tauto.
Qed.

Section Head.
  Variable g : graph.
  Hypothesis Rk : ranked (bases g).

  Lemma resolve_head : forall f x m i, x < f -> resolve false f g x = ROk m i -> exists t, m = x :: t.
  Proof.
    intros [|f] x m i H E; [lia|]. cbn [resolve] in E.
    destruct (collect (map (resolve false f g) (bases g x))) as [[ms is]|r] eqn:C.
    2:{ destruct (collect_total (resolve false f g) (bases g x)) as (ms & is & C').
        { intros b Hb. pose proof (Rk _ _ Hb). apply resolve_total; auto; lia. }
        congruence. }
    destruct (collect_spec _ _ _ _ C) as (I1 & I2 & I3).
    assert (N : forall s, In s (ms ++ [bases g x]) -> ~ In x s).
    { intros s Hs Hx. apply in_app_iff in Hs. destruct Hs as [Hs|[<-|[]]].
      - destruct (I2 s Hs) as (b & i' & Hb & Eb). pose proof (Rk _ _ Hb).
        apply (resolve_mem g Rk f b s i') in Hx; auto; try lia.
        apply (Reach_le _ Rk) in Hx. lia.
      - apply Rk in Hx. lia. }
    assert (Hleg : exists t, legacy_ro (S f) g x = x :: t).
    { unfold legacy_ro. cbn [legacy_flatten keep_last].
      destruct (mem x (flat_map (legacy_flatten f g) (bases g x))) eqn:M; eauto.
      apply mem_In, in_flat_map in M. destruct M as (b & Hb & Hx). pose proof (Rk _ _ Hb).
      apply (flatten_mem g Rk) in Hx; [|lia]. apply (Reach_le _ Rk) in Hx. lia. }
    assert (Hgen : forall l i', match c3_merge ([[x]] ++ ms ++ [bases g x]) with
                            | MOk l => ROk l is
                            | MBad => ROk (legacy_ro (S f) g x) true
                            | MFuel => RFuel end = ROk l i' -> exists t, l = x :: t).
    { intros l i' E'. destruct (c3_merge ([[x]] ++ ms ++ [bases g x])) eqn:M; try discriminate.
      - inversion E'; subst. eapply c3_merge_head; eauto.
      - inversion E'; subst. auto. }
    unfold c3_node in E.
    destruct (bases g x) as [|b [|b2 bs]] eqn:EB; try (eapply Hgen; eauto; fail).
    destruct ms as [|m1 [|m2 ms]]; try (eapply Hgen; eauto; fail).
    inversion E; subst. eauto.
  Qed.
End Head.

Lemma fresh_ro_head s r : ranked (Bs s) -> r < length s -> exists t, fresh_ro s r = r :: t.
Proof.
  intros R H. rewrite fresh_ro_resolve.
  destruct (resolve_total _ (ranked_graph _ R) (S (length s)) r) as (m & i & E); [lia|].
  rewrite E. apply (resolve_head _ (ranked_graph _ R) (S (length s)) r m i); auto.
Qed.

(* ================================================================== Part C: push flavour *)

Lemma get_upd s r f i :
  get (upd s r f) i = if Nat.eqb i r && Nat.ltb r (length s) then f (get s r) else get s i.
Proof.
  destruct (Nat.eqb i r) eqn:E; cbn [andb].
  - apply Nat.eqb_eq in E. subst. destruct (Nat.ltb r (length s)) eqn:L.
    + apply Nat.ltb_lt in L. apply get_upd_same; auto.
    + apply Nat.ltb_ge in L. unfold upd. rewrite set_oob; auto.
  - apply Nat.eqb_neq in E. apply get_upd_other; auto.
Qed.

Lemma get_set s r x i :
  get (set s r x) i = if Nat.eqb i r && Nat.ltb r (length s) then x else get s i.
Proof. apply (get_upd s r (fun _ => x) i). Qed.

Lemma Reach_ext B B' : (forall x, B x = B' x) -> forall x y, Reach B x y -> Reach B' x y.
Proof. intros E x y H. induction H; [apply Reach_refl|]. rewrite E in H. eapply Reach_step; eauto. Qed.

Lemma fresh_ro_ext s s' r : length s = length s' -> (forall i, Bs s i = Bs s' i) -> fresh_ro s r = fresh_ro s' r.
Proof.
  intros L E. unfold fresh_ro, reg_graph. rewrite L.
  replace (map rs_bases s') with (map rs_bases s); auto.
  apply (nth_ext _ _ [] []); rewrite !map_length; auto.
  intros n _. change (@nil nat) with (rs_bases dummy_rs). rewrite !map_nth. apply E.
Qed.

(* relations between systems: same base/notification graph; additionally same cached orders *)
Definition graph_eq (s s' : sys) : Prop :=
  length s = length s' /\
  forall i, rs_bases (get s i) = rs_bases (get s' i) /\ rs_subs (get s i) = rs_subs (get s' i) /\
            rs_flavour (get s i) = rs_flavour (get s' i).

Definition skel_eq (s s' : sys) : Prop :=
  graph_eq s s' /\ forall i, rs_ro (get s i) = rs_ro (get s' i).

Lemma graph_eq_refl s : graph_eq s s.
Proof. split; auto. Qed.

Lemma graph_eq_trans a b c : graph_eq a b -> graph_eq b c -> graph_eq a c.
Proof.
  intros (L1 & H1) (L2 & H2). split; [congruence|]. intros i.
  destruct (H1 i) as (? & ? & ?), (H2 i) as (? & ? & ?). repeat split; congruence.
Qed.

Lemma skel_eq_refl s : skel_eq s s.
Proof. split; auto using graph_eq_refl. Qed.

Lemma skel_eq_trans a b c : skel_eq a b -> skel_eq b c -> skel_eq a c.
Proof. intros (G1 & H1) (G2 & H2). split; [eapply graph_eq_trans; eauto|]. intros; congruence. Qed.

Lemma graph_eq_fresh s s' r : graph_eq s s' -> fresh_ro s r = fresh_ro s' r.
Proof. intros (L & H). apply fresh_ro_ext; auto. intros i. apply H. Qed.

Lemma graph_eq_Bs s s' : graph_eq s s' -> forall i, Bs s i = Bs s' i.
Proof. intros (L & H) i. apply H. Qed.

(* a one-registry update that keeps the graph fields *)
Lemma upd_graph_eq s r f :
  (forall x, rs_bases (f x) = rs_bases x /\ rs_subs (f x) = rs_subs x /\ rs_flavour (f x) = rs_flavour x) ->
  graph_eq s (upd s r f).
Proof.
  intros H. split; [symmetry; apply upd_length|]. intros i. rewrite get_upd.
  destruct (Nat.eqb i r && Nat.ltb r (length s)) eqn:E; auto.
  apply andb_true_iff in E. destruct E as (E & _). apply Nat.eqb_eq in E. subst.
  destruct (H (get s r)) as (? & ? & ?). auto.
Qed.

Lemma upd_skel_eq s r f :
  (forall x, rs_bases (f x) = rs_bases x /\ rs_subs (f x) = rs_subs x /\ rs_flavour (f x) = rs_flavour x
             /\ rs_ro (f x) = rs_ro x) ->
  skel_eq s (upd s r f).
Proof.
  intros H. split.
  - apply upd_graph_eq. intros x. destruct (H x) as (? & ? & ? & ?). auto.
  - intros i. rewrite get_upd. destruct (Nat.eqb i r && Nat.ltb r (length s)) eqn:E; auto.
    apply andb_true_iff in E. destruct E as (E & _). apply Nat.eqb_eq in E. subst.
    destruct (H (get s r)) as (? & ? & ? & ?). auto.
Qed.



Lemma graph_eq_allPush s s' : graph_eq s s' -> allPush s -> allPush s'.
Proof. intros (L & H) A i. destruct (H i) as (_ & _ & <-). auto. Qed.

Lemma graph_eq_ranked s s' : graph_eq s s' -> ranked (Bs s) -> ranked (Bs s').
Proof. intros G R y b. rewrite <- (graph_eq_Bs _ _ G). apply R. Qed.

Lemma graph_eq_subs_ok s s' : graph_eq s s' -> subs_ok s -> subs_ok s'.
Proof.
  intros (L & H) (S1 & S2). split.
  - intros r y. destruct (H r) as (_ & <- & _). rewrite <- L. apply S1.
  - intros r b. unfold Bs. destruct (H r) as (<- & _ & _). destruct (H b) as (_ & <- & _). apply S2.
Qed.

(* ---- the shape shared by _refresh_ro and changed(): handle r, then every sub-registry *)
Section Trav.
  Variable visit : sys -> nat -> sys.

  Fixpoint trav (fuel : nat) (s : sys) (r : nat) : sys :=
    let s1 := visit s r in
    match fuel with
    | 0 => s1
    | S f => fold_left (fun acc sub => trav f acc sub) (rs_subs (get s r)) s1
    end.

  Section Pres.
    Variable R : sys -> sys -> Prop.
    Hypothesis R_refl : forall s, R s s.
    Hypothesis R_trans : forall a b c, R a b -> R b c -> R a c.
    Hypothesis visit_R : forall s r, R s (visit s r).

    Lemma trav_pres : forall f s r, R s (trav f s r).
    Proof.
      induction f as [|f IH]; intros s r; cbn [trav]; auto.
      apply (fold_left_inv (fun acc => R s acc)); auto.
      intros a b Ha _. eapply R_trans; eauto.
    Qed.
  End Pres.

  Variable P : sys -> nat -> Prop.
  Hypothesis visit_graph : forall s r, graph_eq s (visit s r).
  Hypothesis visit_P : forall s r, r < length s -> P (visit s r) r.
  Hypothesis visit_keeps : forall s r x, P s x -> P (visit s r) x.

  Lemma trav_graph f s r : graph_eq s (trav f s r).
  Proof. apply trav_pres; auto using graph_eq_refl. intros; eapply graph_eq_trans; eauto. Qed.

  Lemma trav_keeps : forall f s r x, P s x -> P (trav f s r) x.
  Proof.
    induction f as [|f IH]; intros s r x H; cbn [trav]; auto.
    apply (fold_left_inv (fun acc => P acc x)); auto.
  Qed.

  Lemma trav_fold_keeps f l s x : P s x -> P (fold_left (fun acc sub => trav f acc sub) l s) x.
  Proof. intros. apply (fold_left_inv (fun acc => P acc x)); auto. intros; apply trav_keeps; auto. Qed.

  Lemma trav_fold_graph f l s : graph_eq s (fold_left (fun acc sub => trav f acc sub) l s).
  Proof.
    apply (fold_left_inv (fun acc => graph_eq s acc)); auto using graph_eq_refl.
    intros a b Ha _. eapply graph_eq_trans; eauto using trav_graph.
  Qed.

  Definition reach_goal (f : nat) : Prop :=
    forall s r, subs_ok s -> r < length s -> length s <= r + S f ->
                forall x, Reach (Bs s) x r -> P (trav f s r) x.

  Lemma trav_fold_reach f : reach_goal f ->
    forall l s0 acc y x, subs_ok s0 -> graph_eq s0 acc -> In y l -> y < length s0 -> length s0 <= y + S f ->
                         Reach (Bs s0) x y -> P (fold_left (fun acc sub => trav f acc sub) l acc) x.
  Proof.
    intros G. induction l as [|a l IH]; intros s0 acc y x S0 E Hy L1 L2 Rx; [destruct Hy|].
    cbn [fold_left]. destruct (Nat.eq_dec a y) as [->|N].
    - apply trav_fold_keeps. destruct E as (LE & HE). apply G.
      + eapply graph_eq_subs_ok; eauto. split; auto.
      + rewrite <- LE; auto.
      + rewrite <- LE; auto.
      + apply (Reach_ext (Bs s0) (Bs acc)); auto. intros i. apply HE.
    - destruct Hy as [?|Hy]; [congruence|]. eapply IH; eauto.
      eapply graph_eq_trans; eauto using trav_graph.
  Qed.

  Lemma trav_reach : forall f, reach_goal f.
  Proof.
    induction f as [|f IH]; intros s r S0 L1 L2 x Rx; cbn [trav].
    - destruct (Nat.eq_dec x r) as [->|N]; auto.
      destruct (Reach_last _ _ _ Rx N) as (y & _ & Hy). apply S0 in Hy. apply S0 in Hy. lia.
    - destruct (Nat.eq_dec x r) as [->|N]; [apply trav_fold_keeps; auto|].
      destruct (Reach_last _ _ _ Rx N) as (y & Ry & Hy). apply S0 in Hy.
      pose proof (proj1 S0 _ _ Hy).
      eapply (trav_fold_reach f IH _ s); eauto; lia.
  Qed.
End Trav.
