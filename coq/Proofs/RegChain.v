(* Proofs for property C06: registries consult exactly their current base chain.
   Part A: lists and systems.  Part B: the resolver of Model/Ro.v only looks at the part of the
   graph reachable from its argument (frame), is fuel-independent above the rank, total, and
   lists exactly the reachable nodes.  Part C: push flavour.  Part D: verifying flavour.
   Part E: what a lookup answers. *)
From Coq Require Import List Arith Bool Lia.
Import ListNotations.
From ZI Require Import Model.Ro Model.Adapter Model.Lookup Model.RegSys Spec.RegChain.

Ltac nlia := unfold node, spec, name in *; lia.

(* ================================================================== stable interface
   (the invariants of reachable systems; per-step preservation: PInv_step / VInv_step below;
   [Reach], [Bs], [wf_op], [wf_hist] are in Spec/RegChain.v) *)

(* every base has a smaller number than the registry: the registry graph is acyclic *)
Definition ranked (B : nat -> list nat) : Prop := forall y b, In b (B y) -> b < y.

Definition allPush (s : sys) : Prop := forall i, rs_flavour (get s i) = Push.

(* sub-registry lists: every listed sub-registry is a later, existing registry; and every
   registry is listed in each of its bases (the mirror of __bases__) *)
Definition subs_ok (s : sys) : Prop :=
  (forall r y, In y (rs_subs (get s r)) -> r < y /\ y < length s) /\
  (forall r b, In b (Bs s r) -> In r (rs_subs (get s b))).

(* the cached ``ro`` of every registry is the C3 order of the current base graph *)
Definition ro_coherent (s : sys) : Prop := forall r, r < length s -> rs_ro (get s r) = fresh_ro s r.

(* invariant of push-flavour systems *)
Definition PInv (s : sys) : Prop := allPush s /\ ranked (Bs s) /\ subs_ok s /\ ro_coherent s.

Definition allVer (s : sys) : Prop := forall i, i < length s -> rs_flavour (get s i) = Verifying.

(* the generation snapshot of a verifying registry: taken over ro[1:], of existing registries,
   never ahead of the current generations, and as long as it still matches the current
   generations the cached ``ro`` is the C3 order of the current base graph *)
Definition snap_ok (s : sys) (r : nat) : Prop :=
  rs_ro (get s r) = r :: rs_vro (get s r) /\
  (forall y, In y (rs_ro (get s r)) -> y < length s) /\
  Forall2 le (rs_vgen (get s r)) (gens s (rs_vro (get s r))) /\
  (gens s (rs_vro (get s r)) = rs_vgen (get s r) -> rs_ro (get s r) = fresh_ro s r).

(* invariant of verifying-flavour systems *)
Definition VInv (s : sys) : Prop := allVer s /\ ranked (Bs s) /\ forall r, r < length s -> snap_ok s r.

(* ================================================================== Part A *)

Lemma mem_In x l : mem x l = true <-> In x l.
Proof.
  induction l as [|y l IH]; cbn; [split; [discriminate|tauto]|].
  rewrite orb_true_iff, Nat.eqb_eq, IH. split; intros [H|H]; auto.
Qed.

Lemma mem_false x l : mem x l = false <-> ~ In x l.
Proof. rewrite <- mem_In. destruct (mem x l); split; congruence. Qed.

Lemma flat_map_ext_in {A B} (f g : A -> list B) l :
  (forall a, In a l -> f a = g a) -> flat_map f l = flat_map g l.
Proof.
  induction l as [|a l IH]; cbn; auto. intros H. rewrite H, IH; auto.
Qed.

Lemma fold_left_inv {A B} (P : A -> Prop) (f : A -> B -> A) l :
  forall a, P a -> (forall a b, P a -> In b l -> P (f a b)) -> P (fold_left f l a).
Proof.
  induction l as [|b l IH]; cbn [fold_left]; intros a Pa H; [exact Pa|].
  apply IH; [apply H; cbn; auto|]. intros; apply H; cbn; auto.
Qed.

Lemma fold_left_ext_inv {A B} (P : A -> Prop) (f g : A -> B -> A) l :
  forall a, P a -> (forall a b, P a -> In b l -> P (g a b)) ->
            (forall a b, P a -> In b l -> f a b = g a b) ->
            fold_left f l a = fold_left g l a.
Proof.
  induction l as [|b l IH]; cbn [fold_left]; intros a Pa Hg He; [reflexivity|].
  rewrite He by (cbn; auto). apply IH; [apply Hg; cbn; auto| |]; intros; [apply Hg|apply He]; cbn; auto.
Qed.

Lemma set_length s : forall r x, length (set s r x) = length s.
Proof. induction s as [|y s IH]; intros [|r] x; cbn; auto. Qed.

Lemma get_oob s r : length s <= r -> get s r = dummy_rs.
Proof. intros. unfold get. apply nth_overflow; auto. Qed.

Lemma set_oob s : forall r x, length s <= r -> set s r x = s.
Proof.
  induction s as [|y s IH]; intros [|r] x H; cbn in *; auto; try lia.
  rewrite IH; auto; lia.
Qed.

Lemma get_set_same s : forall r x, r < length s -> get (set s r x) r = x.
Proof.
  induction s as [|y s IH]; intros [|r] x H; cbn in *; try lia; auto.
  apply IH; lia.
Qed.

Lemma get_set_other s : forall r x i, i <> r -> get (set s r x) i = get s i.
Proof.
  induction s as [|y s IH]; intros [|r] x [|i] H; cbn in *; auto; try congruence.
  apply IH; auto.
Qed.

Lemma get_upd_same s r f : r < length s -> get (upd s r f) r = f (get s r).
Proof. intros. unfold upd. apply get_set_same; auto. Qed.

Lemma get_upd_other s r f i : i <> r -> get (upd s r f) i = get s i.
Proof. intros. unfold upd. apply get_set_other; auto. Qed.

Lemma upd_length s r f : length (upd s r f) = length s.
Proof. apply set_length. Qed.

Lemma get_app_l s t i : i < length s -> get (s ++ t) i = get s i.
Proof. intros. unfold get. apply app_nth1; auto. Qed.

Lemma get_app_new s x : get (s ++ [x]) (length s) = x.
Proof. unfold get. rewrite app_nth2, Nat.sub_diag; auto. Qed.

Lemma bases_combine (l : list (list nat)) : forall k x,
  bases (combine (seq k (length l)) l) x = if Nat.ltb x k then [] else nth (x - k) l [].
Proof.
  induction l as [|bs l IH]; intros k x; cbn [length seq combine bases].
  - destruct (Nat.ltb x k); destruct (x - k); auto.
  - rewrite IH. destruct (Nat.eqb x k) eqn:E.
    + apply Nat.eqb_eq in E. subst. rewrite Nat.ltb_irrefl, Nat.sub_diag. auto.
    + apply Nat.eqb_neq in E. destruct (Nat.ltb x k) eqn:L.
      * apply Nat.ltb_lt in L. replace (Nat.ltb x (S k)) with true; auto.
        symmetry; apply Nat.ltb_lt; lia.
      * apply Nat.ltb_ge in L. replace (Nat.ltb x (S k)) with false
          by (symmetry; apply Nat.ltb_ge; lia).
        replace (x - k) with (S (x - S k)) by lia. auto.
Qed.

Lemma bases_reg_graph s x : bases (reg_graph s) x = Bs s x.
Proof.
  unfold reg_graph, Bs, get. rewrite <- (map_length rs_bases s), bases_combine.
  cbn. rewrite Nat.sub_0_r. change (@nil nat) with (rs_bases dummy_rs). apply map_nth.
Qed.

(* ================================================================== Part B *)

Lemma Reach_base B x b : In b (B x) -> Reach B x b.
Proof. intros. eapply Reach_step; eauto. apply Reach_refl. Qed.

Lemma Reach_trans B x y z : Reach B x y -> Reach B y z -> Reach B x z.
Proof. induction 1; auto. intros. eapply Reach_step; eauto. Qed.

Lemma Reach_last B x z : Reach B x z -> x <> z -> exists y, Reach B x y /\ In z (B y).
Proof.
  induction 1 as [|x b y Hb Hr IH]; [congruence|]. intros _.
  destruct (Nat.eq_dec b y) as [->|N].
  - exists x. split; [apply Reach_refl | auto].
  - destruct (IH N) as (w & Hw & Hz). exists w. split; auto. eapply Reach_step; eauto.
Qed.


Lemma Reach_le B : ranked B -> forall x y, Reach B x y -> y <= x.
Proof. intros R x y H. induction H; auto. apply R in H. lia. Qed.

(* two hierarchies agree on everything reachable from x *)
Definition agree_from (B B' : nat -> list nat) (x : nat) : Prop :=
  forall y, Reach B x y -> B y = B' y.

Lemma agree_base B B' x b : agree_from B B' x -> In b (B x) -> agree_from B B' b.
Proof. intros A Hb y Hy. apply A. eapply Reach_step; eauto. Qed.

Lemma agree_Reach B B' x : agree_from B B' x -> forall y, Reach B x y -> Reach B' x y.
Proof.
  intros A y H. induction H as [|x b y Hb Hr IH]; [apply Reach_refl|].
  eapply Reach_step.
  - rewrite <- (A x (Reach_refl _ _)). eauto.
  - apply IH. eapply agree_base; eauto.
Qed.

Lemma Reach_dec B r : ranked B -> forall x, Reach B x r \/ ~ Reach B x r.
Proof.
  intros R x. induction x as [x IH] using lt_wf_ind.
  destruct (Nat.eq_dec x r) as [->|N]; [left; apply Reach_refl|].
  assert (D : forall l, (forall b, In b l -> b < x) ->
                        (exists b, In b l /\ Reach B b r) \/ (forall b, In b l -> ~ Reach B b r)).
  { induction l as [|b l IHl]; intros Hl; [right; intros b []|].
    destruct (IH b (Hl b (or_introl eq_refl))) as [Y|Nn].
    - left. exists b. split; [left|]; auto.
    - destruct IHl as [(c & Hc & Y)|Nl]; [intros; apply Hl; right; auto| |].
      + left. exists c. split; [right|]; auto.
      + right. intros c [<-|Hc]; auto. }
  destruct (D (B x) (R x)) as [(b & Hb & Y)|Nn].
  - left. eapply Reach_step; eauto.
  - right. intros H. inversion H; subst; [congruence|]. eapply Nn; eauto.
Qed.

(* ---- legacy order *)
Section Frame.
  Variables g g' : graph.
  Hypothesis Rk : ranked (bases g).

  Lemma flatten_frame : forall f1 f2 x, agree_from (bases g) (bases g') x -> x < f1 -> x < f2 ->
    legacy_flatten f1 g x = legacy_flatten f2 g' x.
  Proof.
    induction f1 as [|f1 IH]; intros [|f2] x A H1 H2; try lia. cbn [legacy_flatten].
    rewrite <- (A x (Reach_refl _ _)). f_equal. apply flat_map_ext_in. intros b Hb.
    pose proof (Rk _ _ Hb). apply IH; try lia. eapply agree_base; eauto.
  Qed.

  Lemma resolve_frame st : forall f1 f2 x, agree_from (bases g) (bases g') x -> x < f1 -> x < f2 ->
    resolve st f1 g x = resolve st f2 g' x.
  Proof.
    induction f1 as [|f1 IH]; intros [|f2] x A H1 H2; try lia. cbn [resolve].
    rewrite <- (A x (Reach_refl _ _)).
    replace (map (resolve st f2 g') (bases g x)) with (map (resolve st f1 g) (bases g x)).
    2:{ apply map_ext_in. intros b Hb. pose proof (Rk _ _ Hb). apply IH; try lia.
        eapply agree_base; eauto. }
    unfold legacy_ro. rewrite (flatten_frame (S f1) (S f2) x); auto.
  Qed.
End Frame.

(* ---- membership *)
Lemma keep_last_In y l : In y (keep_last l) <-> In y l.
Proof.
  induction l as [|x t IH]; cbn; [tauto|].
  destruct (mem x t) eqn:M.
  - rewrite IH. apply mem_In in M. split; auto. intros [<-|H]; auto.
  - cbn. rewrite IH. tauto.
Qed.

Lemma filter_length_le (p : nat -> bool) s : length (filter p s) <= length s.
Proof. induction s as [|h t IH]; cbn; auto. destruct (p h); cbn; lia. Qed.

Lemma total_len_cons s r : total_len (s :: r) = length s + total_len r.
Proof. reflexivity. Qed.

Lemma total_len_filter_ne seqs : total_len (filter nonempty seqs) = total_len seqs.
Proof.
  induction seqs as [|s r IH]; auto. cbn [filter]. destruct s; cbn [nonempty].
  - rewrite total_len_cons. cbn. auto.
  - rewrite !total_len_cons, IH. auto.
Qed.

Lemma total_len_remove_le x seqs : total_len (remove_everywhere x seqs) <= total_len seqs.
Proof.
  unfold remove_everywhere. rewrite total_len_filter_ne.
  induction seqs as [|s r IH]; [cbn; auto|].
  rewrite map_cons, !total_len_cons.
  pose proof (filter_length_le (fun b => negb (Nat.eqb b x)) s). nlia.
Qed.

Lemma total_len_remove_lt x t seqs :
  In (x :: t) seqs -> total_len (remove_everywhere x seqs) < total_len seqs.
Proof.
  unfold remove_everywhere. rewrite total_len_filter_ne.
  induction seqs as [|s r IH]; [cbn; tauto|].
  rewrite map_cons, !total_len_cons. intros [->|H].
  - cbn [filter length]. rewrite Nat.eqb_refl. cbn [negb].
    pose proof (filter_length_le (fun b => negb (Nat.eqb b x)) t).
    pose proof (total_len_remove_le x r) as H0. unfold remove_everywhere in H0.
    rewrite total_len_filter_ne in H0. cbn [length]. nlia.
  - specialize (IH H).
    pose proof (filter_length_le (fun b => negb (Nat.eqb b x)) s). nlia.
Qed.

Lemma find_from_some cands seqs c :
  find_from cands seqs = Some c -> exists t, In (c :: t) cands.
Proof.
  induction cands as [|[|h t] r IH]; cbn; intros H; try discriminate.
  - destruct (IH H) as [t Ht]; eauto.
  - destruct (can_choose h seqs).
    + inversion H; subst; eauto.
    + destruct (IH H) as [t' Ht]; eauto.
Qed.

Lemma merge_loop_fuel f : forall seqs acc, total_len seqs < f -> merge_loop f seqs acc <> MFuel.
Proof.
  induction f as [|f IH]; intros seqs acc H; [nlia|]. cbn.
  destruct seqs as [|s r]; [discriminate|].
  destruct (find_next (s :: r)) as [b|] eqn:F; [|discriminate].
  apply IH. destruct (find_from_some _ _ _ F) as [t Ht].
  pose proof (total_len_remove_lt _ _ _ Ht). nlia.
Qed.

Lemma c3_merge_no_fuel seqs : c3_merge seqs <> MFuel.
Proof. unfold c3_merge. apply merge_loop_fuel. nlia. Qed.

Definition in_seqs (y : node) (seqs : list (list node)) : Prop := exists s, In s seqs /\ In y s.

Lemma in_seqs_remove y b seqs :
  in_seqs y (remove_everywhere b seqs) <-> (y <> b /\ in_seqs y seqs).
Proof.
  unfold in_seqs, remove_everywhere. split.
  - intros (s & Hs & Hy). apply filter_In in Hs. destruct Hs as (Hs & _).
    apply in_map_iff in Hs. destruct Hs as (s0 & <- & Hs0).
    apply filter_In in Hy. destruct Hy as (Hy & Ne).
    apply negb_true_iff, Nat.eqb_neq in Ne. split; eauto.
  - intros (Ne & s0 & Hs0 & Hy).
    assert (Hy' : In y (filter (fun c => negb (Nat.eqb c b)) s0)).
    { apply filter_In. split; auto. apply negb_true_iff, Nat.eqb_neq; auto. }
    exists (filter (fun c => negb (Nat.eqb c b)) s0). split; auto.
    apply filter_In. split.
    + apply in_map_iff. eauto.
    + destruct (filter (fun c => negb (Nat.eqb c b)) s0); [destruct Hy'|reflexivity].
Qed.

Lemma merge_loop_mem f : forall seqs acc l, merge_loop f seqs acc = MOk l ->
  forall y, In y l <-> (In y acc \/ in_seqs y seqs).
Proof.
  induction f as [|f IH]; intros seqs acc l H y; [discriminate|]. cbn in H.
  destruct seqs as [|s r].
  - inversion H; subst. rewrite <- in_rev. split; auto. intros [?|(s & [] & _)]; auto.
  - destruct (find_next (s :: r)) as [b|] eqn:F; [|discriminate].
    rewrite (IH _ _ _ H y), in_seqs_remove. cbn [In].
    destruct (find_from_some _ _ _ F) as [t Ht].
    split.
    + intros [[<-|Ha]|(_ & Hs)]; auto. right. exists (b :: t). split; auto. left; auto.
    + intros [Ha|Hs]; auto. destruct (Nat.eq_dec y b) as [->|N]; auto.
Qed.

Lemma c3_merge_mem seqs l : c3_merge seqs = MOk l -> forall y, In y l <-> in_seqs y seqs.
Proof.
  unfold c3_merge. intros H y. rewrite (merge_loop_mem _ _ _ _ H y). cbn [In]. unfold in_seqs.
  split.
  - intros [[]|(s & Hs & Hy)]. apply filter_In in Hs. destruct Hs; eauto.
  - intros (s & Hs & Hy). right. exists s. split; auto. apply filter_In. split; auto.
    destruct s; [destruct Hy|reflexivity].
Qed.

Lemma collect_spec (F : node -> rres) bs : forall ms is, collect (map F bs) = inl (ms, is) ->
  (forall b, In b bs -> exists m i, F b = ROk m i /\ In m ms) /\
  (forall m, In m ms -> exists b i, In b bs /\ F b = ROk m i) /\
  (forall b m, bs = [b] -> ms = [m] -> exists i, F b = ROk m i).
Proof.
  induction bs as [|b bs IH]; cbn [map collect]; intros ms is H.
  - inversion H; subst. repeat split; try (intros ? []); intros; discriminate.
  - destruct (F b) as [| |m i] eqn:E; try discriminate.
    destruct (collect (map F bs)) as [[ms' is']|r] eqn:C; [|discriminate].
    inversion H; subst. destruct (IH _ _ eq_refl) as (I1 & I2 & _). repeat split.
    + intros c [<-|Hc]; [exists m, i; split; auto; left; auto|].
      destruct (I1 c Hc) as (m' & i' & E' & Hm). exists m', i'. split; auto. right; auto.
    + intros m' [<-|Hm]; [exists b, i; split; auto; left; auto|].
      destruct (I2 m' Hm) as (c & i' & Hc & E'). exists c, i'. split; auto. right; auto.
    + intros c m' Hb Hm. inversion Hb; inversion Hm; subst. eauto.
Qed.

Lemma collect_total (F : node -> rres) bs :
  (forall b, In b bs -> exists m i, F b = ROk m i) -> exists ms is, collect (map F bs) = inl (ms, is).
Proof.
  induction bs as [|b bs IH]; cbn [map collect]; intros H; [eauto|].
  destruct (H b (or_introl eq_refl)) as (m & i & ->).
  destruct IH as (ms & is & ->); [intros; apply H; right; auto|]. eauto.
Qed.

Section Mem.
  Variable g : graph.
  Hypothesis Rk : ranked (bases g).

  Lemma flatten_mem : forall f x y, x < f -> (In y (legacy_flatten f g x) <-> Reach (bases g) x y).
  Proof.
    induction f as [|f IH]; intros x y H; [lia|]. cbn [legacy_flatten In]. rewrite in_flat_map. split.
    - intros [<-|(b & Hb & Hy)]; [apply Reach_refl|].
      pose proof (Rk _ _ Hb). apply IH in Hy; [|lia]. eapply Reach_step; eauto.
    - intros R. inversion R; subst; auto. right. exists b. split; auto.
      pose proof (Rk _ _ H0). apply IH; auto; lia.
  Qed.

  Lemma resolve_total : forall f x, x < f -> exists m i, resolve false f g x = ROk m i.
  Proof.
    induction f as [|f IH]; intros x H; [lia|]. cbn [resolve].
    destruct (collect_total (resolve false f g) (bases g x)) as (ms & is & C).
    { intros b Hb. pose proof (Rk _ _ Hb). apply IH; lia. }
    rewrite C. unfold c3_node.
    assert (G : exists m i, match c3_merge ([[x]] ++ ms ++ [bases g x]) with
                            | MOk l => ROk l is
                            | MBad => ROk (legacy_ro (S f) g x) true
                            | MFuel => RFuel end = ROk m i).
    { destruct (c3_merge ([[x]] ++ ms ++ [bases g x])) eqn:M; eauto.
      exfalso; eapply c3_merge_no_fuel; eauto. }
    destruct (bases g x) as [|b [|b2 bs]]; auto. destruct ms as [|m [|m2 ms]]; eauto.
  Qed.

  Lemma resolve_mem : forall f x m i, x < f -> resolve false f g x = ROk m i ->
    forall y, In y m <-> Reach (bases g) x y.
  Proof.
    induction f as [|f IH]; intros x m i H E y; [lia|]. cbn [resolve] in E.
    destruct (collect (map (resolve false f g) (bases g x))) as [[ms is]|r] eqn:C.
    2:{ (* a base failed: impossible *)
      destruct (collect_total (resolve false f g) (bases g x)) as (ms & is & C').
      { intros b Hb. pose proof (Rk _ _ Hb). apply resolve_total; lia. }
      congruence. }
    destruct (collect_spec _ _ _ _ C) as (I1 & I2 & I3).
    assert (Hms : (y = x \/ (exists m', In m' ms /\ In y m')) <-> Reach (bases g) x y).
    { split.
      - intros [->|(m' & Hm' & Hy)]; [apply Reach_refl|].
        destruct (I2 m' Hm') as (b & i' & Hb & Eb). pose proof (Rk _ _ Hb).
        eapply Reach_step; eauto. eapply IH; eauto; lia.
      - intros R. inversion R; subst; auto. right.
        destruct (I1 b H0) as (m' & i' & Eb & Hm'). exists m'. split; auto.
        pose proof (Rk _ _ H0). eapply IH; eauto; lia. }
    assert (Hleg : In y (legacy_ro (S f) g x) <-> Reach (bases g) x y).
    { unfold legacy_ro. rewrite keep_last_In. apply flatten_mem; auto. }
    assert (Hgen : forall l i', match c3_merge ([[x]] ++ ms ++ [bases g x]) with
                            | MOk l => ROk l is
                            | MBad => ROk (legacy_ro (S f) g x) true
                            | MFuel => RFuel end = ROk l i' -> (In y l <-> Reach (bases g) x y)).
    { intros l i' E'. destruct (c3_merge ([[x]] ++ ms ++ [bases g x])) eqn:M; try discriminate.
      - inversion E'; subst. rewrite (c3_merge_mem _ _ M y), <- Hms. unfold in_seqs. split.
        + intros (s & Hs & Hy). cbn [app In] in Hs. destruct Hs as [<-|Hs].
          * destruct Hy as [<-|[]]; auto.
          * apply in_app_iff in Hs. destruct Hs as [Hs|[<-|[]]]; [right; eauto|].
            right. destruct (I1 y Hy) as (m' & i'' & Eb & Hm'). exists m'. split; auto.
            pose proof (Rk _ _ Hy). eapply IH; eauto; try lia. apply Reach_refl.
        + intros [->|(m' & Hm' & Hy)].
          * exists [x]. split; cbn; auto.
          * exists m'. split; auto. cbn [app In]. right. apply in_app_iff. auto.
      - inversion E'; subst. auto. }
    unfold c3_node in E.
    destruct (bases g x) as [|b [|b2 bs]] eqn:EB; try (eapply Hgen; eauto; fail).
    destruct ms as [|m1 [|m2 ms]]; try (eapply Hgen; eauto; fail).
    inversion E; subst. rewrite <- Hms. cbn [In]. split.
    - intros [<-|Hy]; auto. right. exists m1. split; auto; left; auto.
    - intros [->|(m' & [<-|[]] & Hy)]; auto.
  Qed.
End Mem.

(* ---- consequences for fresh_ro *)
Lemma fresh_ro_resolve s r :
  fresh_ro s r = match resolve false (S (length s)) (reg_graph s) r with ROk m _ => m | _ => [r] end.
Proof. unfold fresh_ro, ro. destruct (resolve false (S (length s)) (reg_graph s) r); auto. Qed.

Lemma ranked_graph s : ranked (Bs s) -> ranked (bases (reg_graph s)).
Proof. intros R y b. rewrite bases_reg_graph. apply R. Qed.

Lemma fresh_ro_frame s s' r : ranked (Bs s) -> agree_from (Bs s) (Bs s') r ->
  r < length s -> r < length s' -> fresh_ro s r = fresh_ro s' r.
Proof.
  intros R A H H'. rewrite !fresh_ro_resolve.
  rewrite (resolve_frame (reg_graph s) (reg_graph s') (ranked_graph _ R) false
                         (S (length s)) (S (length s')) r); auto; try lia.
  intros y Hy. rewrite !bases_reg_graph. apply A.
  clear - Hy. induction Hy; [apply Reach_refl|]. rewrite bases_reg_graph in H.
  eapply Reach_step; eauto.
Qed.

Lemma Reach_graph s x y : Reach (bases (reg_graph s)) x y <-> Reach (Bs s) x y.
Proof.
  split; induction 1; try apply Reach_refl; eapply Reach_step; eauto.
  - rewrite <- bases_reg_graph; auto.
  - rewrite bases_reg_graph; auto.
Qed.

Lemma fresh_ro_mem s r y : ranked (Bs s) -> r < length s ->
  (In y (fresh_ro s r) <-> Reach (Bs s) r y).
Proof.
  intros R H. rewrite fresh_ro_resolve.
  destruct (resolve_total _ (ranked_graph _ R) (S (length s)) r) as (m & i & E); [lia|].
  rewrite E. rewrite <- Reach_graph.
  apply (resolve_mem _ (ranked_graph _ R) (S (length s)) r m i); auto.
Qed.


(* ---- the order starts with the node itself *)
Lemma merge_loop_prefix f : forall seqs acc l, merge_loop f seqs acc = MOk l -> exists t, l = rev acc ++ t.
Proof.
  induction f as [|f IH]; intros seqs acc l H; [discriminate|]. cbn in H.
  destruct seqs as [|s r].
  - inversion H; subst. exists []. rewrite app_nil_r; auto.
  - destruct (find_next (s :: r)) as [b|]; [|discriminate].
    destruct (IH _ _ _ H) as (t & ->). cbn [rev]. rewrite <- app_assoc. eauto.
Qed.

Lemma can_choose_fresh x seqs : (forall s, In s seqs -> ~ In x s) -> can_choose x ([x] :: seqs) = true.
Proof.
  intros N. unfold can_choose. cbn [forallb]. rewrite Nat.eqb_refl. cbn [andb].
  apply forallb_forall. intros s Hs. destruct s as [|h t]; auto.
  destruct (Nat.eqb h x); auto. apply negb_true_iff, mem_false. apply N; auto.
Qed.

Lemma c3_merge_head x seqs l : (forall s, In s seqs -> ~ In x s) ->
  c3_merge ([[x]] ++ seqs) = MOk l -> exists t, l = x :: t.
Proof.
  intros N. unfold c3_merge. cbn [app filter nonempty].
  set (S' := filter nonempty seqs). cbn [merge_loop].
  unfold find_next. cbn [find_from]. rewrite can_choose_fresh.
  - intros H. apply merge_loop_prefix in H. destruct H as (t & ->). cbn. eauto.
  - intros s Hs. apply filter_In in Hs. apply N. tauto.
Qed.

Section Head.
  Variable g : graph.
  Hypothesis Rk : ranked (bases g).

  Lemma resolve_head : forall f x m i, x < f -> resolve false f g x = ROk m i -> exists t, m = x :: t.
  Proof.
    intros [|f] x m i H E; [lia|]. cbn [resolve] in E.
    destruct (collect (map (resolve false f g) (bases g x))) as [[ms is]|r] eqn:C.
    2:{ destruct (collect_total (resolve false f g) (bases g x)) as (ms & is & C').
        { intros b Hb. pose proof (Rk _ _ Hb). apply resolve_total; auto; lia. }
        congruence. }
    destruct (collect_spec _ _ _ _ C) as (I1 & I2 & I3).
    assert (N : forall s, In s (ms ++ [bases g x]) -> ~ In x s).
    { intros s Hs Hx. apply in_app_iff in Hs. destruct Hs as [Hs|[<-|[]]].
      - destruct (I2 s Hs) as (b & i' & Hb & Eb). pose proof (Rk _ _ Hb).
        apply (resolve_mem g Rk f b s i') in Hx; auto; try lia.
        apply (Reach_le _ Rk) in Hx. lia.
      - apply Rk in Hx. lia. }
    assert (Hleg : exists t, legacy_ro (S f) g x = x :: t).
    { unfold legacy_ro. cbn [legacy_flatten keep_last].
      destruct (mem x (flat_map (legacy_flatten f g) (bases g x))) eqn:M; eauto.
      apply mem_In, in_flat_map in M. destruct M as (b & Hb & Hx). pose proof (Rk _ _ Hb).
      apply (flatten_mem g Rk) in Hx; [|lia]. apply (Reach_le _ Rk) in Hx. lia. }
    assert (Hgen : forall l i', match c3_merge ([[x]] ++ ms ++ [bases g x]) with
                            | MOk l => ROk l is
                            | MBad => ROk (legacy_ro (S f) g x) true
                            | MFuel => RFuel end = ROk l i' -> exists t, l = x :: t).
    { intros l i' E'. destruct (c3_merge ([[x]] ++ ms ++ [bases g x])) eqn:M; try discriminate.
      - inversion E'; subst. eapply c3_merge_head; eauto.
      - inversion E'; subst. auto. }
    unfold c3_node in E.
    destruct (bases g x) as [|b [|b2 bs]] eqn:EB; try (eapply Hgen; eauto; fail).
    destruct ms as [|m1 [|m2 ms]]; try (eapply Hgen; eauto; fail).
    inversion E; subst. eauto.
  Qed.
End Head.

Lemma fresh_ro_head s r : ranked (Bs s) -> r < length s -> exists t, fresh_ro s r = r :: t.
Proof.
  intros R H. rewrite fresh_ro_resolve.
  destruct (resolve_total _ (ranked_graph _ R) (S (length s)) r) as (m & i & E); [lia|].
  rewrite E. apply (resolve_head _ (ranked_graph _ R) (S (length s)) r m i); auto.
Qed.

(* ================================================================== Part C: push flavour *)

Lemma get_upd s r f i :
  get (upd s r f) i = if Nat.eqb i r && Nat.ltb r (length s) then f (get s r) else get s i.
Proof.
  destruct (Nat.eqb i r) eqn:E; cbn [andb].
  - apply Nat.eqb_eq in E. subst. destruct (Nat.ltb r (length s)) eqn:L.
    + apply Nat.ltb_lt in L. apply get_upd_same; auto.
    + apply Nat.ltb_ge in L. unfold upd. rewrite set_oob; auto.
  - apply Nat.eqb_neq in E. apply get_upd_other; auto.
Qed.

Lemma get_set s r x i :
  get (set s r x) i = if Nat.eqb i r && Nat.ltb r (length s) then x else get s i.
Proof. apply (get_upd s r (fun _ => x) i). Qed.

Lemma Reach_ext B B' : (forall x, B x = B' x) -> forall x y, Reach B x y -> Reach B' x y.
Proof. intros E x y H. induction H; [apply Reach_refl|]. rewrite E in H. eapply Reach_step; eauto. Qed.

Lemma fresh_ro_ext s s' r : length s = length s' -> (forall i, Bs s i = Bs s' i) -> fresh_ro s r = fresh_ro s' r.
Proof.
  intros L E. unfold fresh_ro, reg_graph. rewrite L.
  replace (map rs_bases s') with (map rs_bases s); auto.
  apply (nth_ext _ _ [] []); rewrite !map_length; auto.
  intros n _. change (@nil nat) with (rs_bases dummy_rs). rewrite !map_nth. apply E.
Qed.

(* relations between systems: same base/notification graph; additionally same cached orders *)
Definition graph_eq (s s' : sys) : Prop :=
  length s = length s' /\
  forall i, rs_bases (get s i) = rs_bases (get s' i) /\ rs_subs (get s i) = rs_subs (get s' i) /\
            rs_flavour (get s i) = rs_flavour (get s' i).

Definition skel_eq (s s' : sys) : Prop :=
  graph_eq s s' /\ forall i, rs_ro (get s i) = rs_ro (get s' i).

Lemma graph_eq_refl s : graph_eq s s.
Proof. split; auto. Qed.

Lemma graph_eq_trans a b c : graph_eq a b -> graph_eq b c -> graph_eq a c.
Proof.
  intros (L1 & H1) (L2 & H2). split; [congruence|]. intros i.
  destruct (H1 i) as (? & ? & ?), (H2 i) as (? & ? & ?). repeat split; congruence.
Qed.

Lemma skel_eq_refl s : skel_eq s s.
Proof. split; auto using graph_eq_refl. Qed.

Lemma skel_eq_trans a b c : skel_eq a b -> skel_eq b c -> skel_eq a c.
Proof. intros (G1 & H1) (G2 & H2). split; [eapply graph_eq_trans; eauto|]. intros; congruence. Qed.

Lemma graph_eq_fresh s s' r : graph_eq s s' -> fresh_ro s r = fresh_ro s' r.
Proof. intros (L & H). apply fresh_ro_ext; auto. intros i. apply H. Qed.

Lemma graph_eq_Bs s s' : graph_eq s s' -> forall i, Bs s i = Bs s' i.
Proof. intros (L & H) i. apply H. Qed.

(* a one-registry update that keeps the graph fields *)
Lemma upd_graph_eq s r f :
  (forall x, rs_bases (f x) = rs_bases x /\ rs_subs (f x) = rs_subs x /\ rs_flavour (f x) = rs_flavour x) ->
  graph_eq s (upd s r f).
Proof.
  intros H. split; [symmetry; apply upd_length|]. intros i. rewrite get_upd.
  destruct (Nat.eqb i r && Nat.ltb r (length s)) eqn:E; auto.
  apply andb_true_iff in E. destruct E as (E & _). apply Nat.eqb_eq in E. subst.
  destruct (H (get s r)) as (? & ? & ?). auto.
Qed.

Lemma upd_skel_eq s r f :
  (forall x, rs_bases (f x) = rs_bases x /\ rs_subs (f x) = rs_subs x /\ rs_flavour (f x) = rs_flavour x
             /\ rs_ro (f x) = rs_ro x) ->
  skel_eq s (upd s r f).
Proof.
  intros H. split.
  - apply upd_graph_eq. intros x. destruct (H x) as (? & ? & ? & ?). auto.
  - intros i. rewrite get_upd. destruct (Nat.eqb i r && Nat.ltb r (length s)) eqn:E; auto.
    apply andb_true_iff in E. destruct E as (E & _). apply Nat.eqb_eq in E. subst.
    destruct (H (get s r)) as (? & ? & ? & ?). auto.
Qed.



Lemma graph_eq_allPush s s' : graph_eq s s' -> allPush s -> allPush s'.
Proof. intros (L & H) A i. destruct (H i) as (_ & _ & <-). auto. Qed.

Lemma graph_eq_ranked s s' : graph_eq s s' -> ranked (Bs s) -> ranked (Bs s').
Proof. intros G R y b. rewrite <- (graph_eq_Bs _ _ G). apply R. Qed.

Lemma graph_eq_subs_ok s s' : graph_eq s s' -> subs_ok s -> subs_ok s'.
Proof.
  intros (L & H) (S1 & S2). split.
  - intros r y. destruct (H r) as (_ & <- & _). rewrite <- L. apply S1.
  - intros r b. unfold Bs. destruct (H r) as (<- & _ & _). destruct (H b) as (_ & <- & _). apply S2.
Qed.

(* ---- the shape shared by _refresh_ro and changed(): handle r, then every sub-registry *)
Section Trav.
  Variable visit : sys -> nat -> sys.

  Fixpoint trav (fuel : nat) (s : sys) (r : nat) : sys :=
    let s1 := visit s r in
    match fuel with
    | 0 => s1
    | S f => fold_left (fun acc sub => trav f acc sub) (rs_subs (get s r)) s1
    end.

  (* [I]: a side condition on systems under which [visit] behaves (e.g. all registries push) *)
  Variable I : sys -> Prop.
  Hypothesis visit_I : forall s r, I s -> I (visit s r).

  Lemma trav_I : forall f s r, I s -> I (trav f s r).
  Proof.
    induction f as [|f IH]; intros s r H; cbn [trav]; auto.
    apply (fold_left_inv I); auto.
  Qed.

  Section Pres.
    Variable R : sys -> sys -> Prop.
    Hypothesis R_refl : forall s, R s s.
    Hypothesis R_trans : forall a b c, R a b -> R b c -> R a c.
    Hypothesis visit_R : forall s r, I s -> R s (visit s r).

    Lemma trav_pres : forall f s r, I s -> R s (trav f s r).
    Proof.
      induction f as [|f IH]; intros s r H; cbn [trav]; auto.
      apply (fold_left_inv (fun acc => I acc /\ R s acc)); auto.
      intros a b (Ia & Ha) _. split; [apply trav_I; auto|]. eapply R_trans; eauto.
    Qed.

    Lemma trav_fold_pres f l s : I s -> R s (fold_left (fun acc sub => trav f acc sub) l s).
    Proof.
      intros H. apply (fold_left_inv (fun acc => I acc /\ R s acc)); auto.
      intros a b (Ia & Ha) _. split; [apply trav_I; auto|]. eapply R_trans; eauto. apply trav_pres; auto.
    Qed.
  End Pres.

  Variable P : sys -> nat -> Prop.
  Hypothesis visit_graph : forall s r, I s -> graph_eq s (visit s r).
  Hypothesis visit_P : forall s r, I s -> r < length s -> P (visit s r) r.
  Hypothesis visit_keeps : forall s r x, I s -> P s x -> P (visit s r) x.

  Lemma trav_graph f s r : I s -> graph_eq s (trav f s r).
  Proof. apply trav_pres; auto using graph_eq_refl. intros; eapply graph_eq_trans; eauto. Qed.

  Lemma trav_keeps : forall f s r x, I s -> P s x -> P (trav f s r) x.
  Proof.
    induction f as [|f IH]; intros s r x Is H; cbn [trav]; auto.
    apply (fold_left_inv (fun acc => I acc /\ P acc x)); auto.
    intros a b (Ia & Ha) _. split; auto using trav_I.
  Qed.

  Lemma trav_fold_keeps f l s x : I s -> P s x -> P (fold_left (fun acc sub => trav f acc sub) l s) x.
  Proof.
    intros Is H. apply (fold_left_inv (fun acc => I acc /\ P acc x)); auto.
    intros a b (Ia & Ha) _. split; auto using trav_I, trav_keeps.
  Qed.

  Lemma trav_fold_I f l s : I s -> I (fold_left (fun acc sub => trav f acc sub) l s).
  Proof. intros. apply (fold_left_inv I); auto. intros; apply trav_I; auto. Qed.

  Lemma trav_fold_graph f l s : I s -> graph_eq s (fold_left (fun acc sub => trav f acc sub) l s).
  Proof. apply trav_fold_pres; auto using graph_eq_refl. intros; eapply graph_eq_trans; eauto. Qed.

  Definition reach_goal (f : nat) : Prop :=
    forall s r, I s -> subs_ok s -> r < length s -> length s <= r + S f ->
                forall x, Reach (Bs s) x r -> P (trav f s r) x.

  Lemma trav_fold_reach f : reach_goal f ->
    forall l s0 acc y x, I acc -> subs_ok s0 -> graph_eq s0 acc -> In y l -> y < length s0 ->
                         length s0 <= y + S f ->
                         Reach (Bs s0) x y -> P (fold_left (fun acc sub => trav f acc sub) l acc) x.
  Proof.
    intros G. induction l as [|a l IH]; intros s0 acc y x Ia S0 E Hy L1 L2 Rx; [destruct Hy|].
    cbn [fold_left]. destruct (Nat.eq_dec a y) as [->|N].
    - apply trav_fold_keeps; [apply trav_I; auto|]. destruct E as (LE & HE). apply G; auto.
      + eapply graph_eq_subs_ok; eauto. split; auto.
      + rewrite <- LE; auto.
      + rewrite <- LE; auto.
      + apply (Reach_ext (Bs s0) (Bs acc)); auto. intros i. apply HE.
    - destruct Hy as [?|Hy]; [congruence|]. eapply IH; eauto using trav_I.
      eapply graph_eq_trans; eauto using trav_graph.
  Qed.

  Lemma trav_reach : forall f, reach_goal f.
  Proof.
    induction f as [|f IH]; intros s r Is S0 L1 L2 x Rx; cbn [trav].
    - destruct (Nat.eq_dec x r) as [->|N]; auto.
      destruct (Reach_last _ _ _ Rx N) as (y & _ & Hy). apply S0 in Hy. apply S0 in Hy. lia.
    - destruct (Nat.eq_dec x r) as [->|N]; [apply trav_fold_keeps; auto|].
      destruct (Reach_last _ _ _ Rx N) as (y & Ry & Hy). apply S0 in Hy.
      pose proof (proj1 S0 _ _ Hy).
      eapply (trav_fold_reach f IH _ s); eauto; lia.
  Qed.
End Trav.

(* ---- _refresh_ro as a traversal *)
Definition visit_ro (s : sys) (r : nat) : sys :=
  upd s r (fun x => mkRS (rs_reg x) (rs_caches x) (rs_bases x) (fresh_ro s r) (rs_subs x)
                         (rs_vro x) (rs_vgen x) (rs_flavour x)).

Definition P_ro (s : sys) (x : nat) : Prop := rs_ro (get s x) = fresh_ro s x.

Lemma visit_ro_graph s r : graph_eq s (visit_ro s r).
Proof. apply upd_graph_eq. intros x. cbn. auto. Qed.

Lemma visit_ro_P s r : r < length s -> P_ro (visit_ro s r) r.
Proof.
  intros H. unfold P_ro. rewrite <- (graph_eq_fresh _ _ r (visit_ro_graph s r)).
  unfold visit_ro. rewrite get_upd_same; auto.
Qed.

Lemma visit_ro_keeps s r x : P_ro s x -> P_ro (visit_ro s r) x.
Proof.
  unfold P_ro. intros H. rewrite <- (graph_eq_fresh _ _ x (visit_ro_graph s r)).
  unfold visit_ro. rewrite get_upd.
  destruct (Nat.eqb x r && Nat.ltb r (length s)) eqn:E; auto.
  apply andb_true_iff in E. destruct E as (E & _). apply Nat.eqb_eq in E. subst. reflexivity.
Qed.

Lemma refresh_ro_trav : forall f s r, allPush s -> refresh_ro f s r = trav visit_ro f s r.
Proof.
  induction f as [|f IH]; intros s r A; cbn [refresh_ro trav]; [reflexivity|].
  assert (E : forall X Y : sys, match rs_flavour (get s r) with Push => X | Verifying => Y end = X)
    by (intros; rewrite (A r); auto).
  rewrite E. change (trav visit_ro f) with (trav visit_ro f).
  apply (fold_left_ext_inv allPush).
  - eapply graph_eq_allPush; eauto. apply visit_ro_graph.
  - intros a b Ha _. eapply graph_eq_allPush; eauto.
    apply (trav_graph visit_ro (fun _ => True)); auto. intros; apply visit_ro_graph.
  - intros a b Ha _. apply IH; auto.
Qed.

(* ---- changed() fan-out as a traversal *)
Definition visit_ch (s : sys) (r : nat) : sys := lookup_changed false (upd s r bump) r.

Definition P_c (s : sys) (x : nat) : Prop := rs_caches (get s x) = empty_caches.

Lemma lookup_changed_push b s r : rs_flavour (get s r) = Push ->
  lookup_changed b s r =
  upd s r (fun x => mkRS (rs_reg x) empty_caches (rs_bases x) (rs_ro x) (rs_subs x) (rs_vro x) (rs_vgen x) Push).
Proof. intros H. unfold lookup_changed. rewrite H. reflexivity. Qed.

Lemma lookup_changed_push_skel b s r : allPush s -> skel_eq s (lookup_changed b s r).
Proof.
  intros A. rewrite lookup_changed_push by apply A.
  split; [split; [symmetry; apply upd_length|]|]; intros i; rewrite get_upd;
    destruct (Nat.eqb i r && Nat.ltb r (length s)) eqn:E; auto;
    apply andb_true_iff in E; destruct E as (E & _); apply Nat.eqb_eq in E; subst; cbn; auto.
Qed.

Lemma bump_skel s r : skel_eq s (upd s r bump).
Proof. apply upd_skel_eq. intros x. cbn. auto. Qed.

Lemma skel_allPush s s' : skel_eq s s' -> allPush s -> allPush s'.
Proof. intros (G & _). eapply graph_eq_allPush; eauto. Qed.

Lemma visit_ch_skel s r : allPush s -> skel_eq s (visit_ch s r).
Proof.
  intros A. unfold visit_ch. eapply skel_eq_trans; [apply bump_skel|].
  apply lookup_changed_push_skel. eapply skel_allPush; eauto. apply bump_skel.
Qed.

Lemma visit_ch_P s r : allPush s -> r < length s -> P_c (visit_ch s r) r.
Proof.
  intros A H. unfold visit_ch, P_c. rewrite lookup_changed_push.
  - rewrite get_upd_same; [reflexivity|]. rewrite upd_length; auto.
  - eapply skel_allPush; eauto. apply bump_skel.
Qed.

Lemma visit_ch_keeps s r x : allPush s -> P_c s x -> P_c (visit_ch s r) x.
Proof.
  intros A H. unfold visit_ch, P_c. rewrite lookup_changed_push.
  - rewrite get_upd, upd_length. destruct (Nat.eqb x r && Nat.ltb r (length s)) eqn:E; [reflexivity|].
    rewrite get_upd, E. auto.
  - eapply skel_allPush; eauto. apply bump_skel.
Qed.

Lemma visit_ch_graph s r : allPush s -> graph_eq s (visit_ch s r).
Proof. intros A. apply visit_ch_skel; auto. Qed.

Lemma visit_ch_allPush s r : allPush s -> allPush (visit_ch s r).
Proof. intros A. eapply skel_allPush; eauto using visit_ch_skel. Qed.

Lemma sub_changed_trav : forall f s r, allPush s -> sub_changed f s r = trav visit_ch f s r.
Proof.
  induction f as [|f IH]; intros s r A; cbn [sub_changed trav]; [reflexivity|].
  fold (visit_ch s r).
  pose proof (visit_ch_allPush s r A) as A1.
  assert (E : forall X Y : sys, match rs_flavour (get (visit_ch s r) r) with Push => X | Verifying => Y end = X)
    by (intros; rewrite (A1 r); auto).
  rewrite E.
  replace (rs_subs (get (visit_ch s r) r)) with (rs_subs (get s r))
    by (destruct (visit_ch_graph s r A) as (_ & H); apply H).
  apply (fold_left_ext_inv allPush); auto.
  intros a b Ha _. apply (trav_I visit_ch allPush); auto. intros; apply visit_ch_allPush; auto.
Qed.

Lemma after_bump_push s r : allPush s ->
  after_bump s r = fold_left (fun acc sub => trav visit_ch (length s) acc sub) (rs_subs (get s r))
                             (lookup_changed false s r).
Proof.
  intros A. unfold after_bump.
  pose proof (lookup_changed_push_skel false s r A) as K.
  pose proof (skel_allPush _ _ K A) as A1. rewrite (A1 r).
  replace (rs_subs (get (lookup_changed false s r) r)) with (rs_subs (get s r))
    by (destruct K as ((_ & H) & _); apply H).
  apply (fold_left_ext_inv allPush); auto.
  - intros a b Ha _. apply (trav_I visit_ch allPush); auto. intros; apply visit_ch_allPush; auto.
  - intros a b Ha _. apply sub_changed_trav; auto.
Qed.

Lemma after_bump_skel s r : allPush s -> skel_eq s (after_bump s r).
Proof.
  intros A. rewrite after_bump_push; auto.
  pose proof (lookup_changed_push_skel false s r A) as K.
  eapply skel_eq_trans; eauto.
  apply (trav_fold_pres visit_ch allPush); auto using skel_eq_refl.
  - intros; apply visit_ch_allPush; auto.
  - intros; eapply skel_eq_trans; eauto.
  - intros; apply visit_ch_skel; auto.
  - eapply skel_allPush; eauto.
Qed.

(* changed() reaches the caches of the registry and of all its transitive sub-registries *)
Lemma after_bump_empties s r : allPush s -> subs_ok s -> r < length s ->
  forall x, Reach (Bs s) x r -> rs_caches (get (after_bump s r) x) = empty_caches.
Proof.
  intros A S0 L x Rx. rewrite after_bump_push; auto.
  pose proof (lookup_changed_push_skel false s r A) as K.
  pose proof (skel_allPush _ _ K A) as A1.
  destruct (Nat.eq_dec x r) as [->|N].
  - apply (trav_fold_keeps visit_ch allPush visit_ch_allPush P_c); auto.
    + intros; apply visit_ch_keeps; auto.
    + unfold P_c. rewrite lookup_changed_push by apply A. rewrite get_upd_same; auto.
  - destruct (Reach_last _ _ _ Rx N) as (y & Ry & Hy). apply S0 in Hy.
    pose proof (proj1 S0 _ _ Hy).
    apply (trav_fold_reach visit_ch allPush visit_ch_allPush P_c visit_ch_graph) with (s0 := s) (y := y);
      auto; try lia.
    + intros; apply visit_ch_keeps; auto.
    + apply trav_reach; auto using visit_ch_allPush, visit_ch_graph, visit_ch_P.
      intros; apply visit_ch_keeps; auto.
    + apply K.
Qed.

Lemma refresh_ro_graph f s r : allPush s -> graph_eq s (refresh_ro f s r).
Proof.
  intros A. rewrite refresh_ro_trav; auto.
  apply (trav_graph visit_ro (fun _ => True)); auto. intros; apply visit_ro_graph.
Qed.

Lemma refresh_ro_keeps f s r x : allPush s -> P_ro s x -> P_ro (refresh_ro f s r) x.
Proof.
  intros A H. rewrite refresh_ro_trav; auto.
  apply (trav_keeps visit_ro (fun _ => True)); auto. intros; apply visit_ro_keeps; auto.
Qed.

Lemma refresh_ro_reaches s r x : allPush s -> subs_ok s -> r < length s ->
  Reach (Bs s) x r -> P_ro (refresh_ro (length s) s r) x.
Proof.
  intros A S0 L Rx. rewrite refresh_ro_trav; auto.
  apply (trav_reach visit_ro (fun _ => True)); auto; try lia.
  - intros; apply visit_ro_graph.
  - intros; apply visit_ro_P; auto.
  - intros; apply visit_ro_keeps; auto.
Qed.

(* ---- _setBases: the sub-registry bookkeeping *)
Definition with_subs (y : rstate) (l : list nat) : rstate :=
  mkRS (rs_reg y) (rs_caches y) (rs_bases y) (rs_ro y) l (rs_vro y) (rs_vgen y) (rs_flavour y).

Definition rm_sub (r : nat) (y : rstate) : rstate := with_subs y (remove_nat r (rs_subs y)).
Definition add_sub (r : nat) (y : rstate) : rstate :=
  with_subs y (if mem r (rs_subs y) then rs_subs y else rs_subs y ++ [r]).

Definition book (old : list nat) (s : sys) (r : nat) (bs : list nat) : sys :=
  fold_left (fun acc b => if mem b old then acc else upd acc b (add_sub r)) bs
            (fold_left (fun acc b => if mem b bs then acc else upd acc b (rm_sub r)) old s).

Definition setb (bs : list nat) (y : rstate) : rstate :=
  mkRS (rs_reg y) (rs_caches y) bs (rs_ro y) (rs_subs y) (rs_vro y) (rs_vgen y) (rs_flavour y).

Lemma set_bases_push_eq s r bs : rs_flavour (get s r) = Push ->
  set_bases s r bs =
  let s2 := upd (book (rs_bases (get s r)) s r bs) r (setb bs) in
  after_bump (upd (refresh_ro (length s) s2 r) r bump) r.
Proof. intros H. unfold set_bases. rewrite H. reflexivity. Qed.

Lemma In_remove_nat r y l : In y (remove_nat r l) <-> In y l /\ y <> r.
Proof.
  unfold remove_nat. rewrite filter_In, negb_true_iff, Nat.eqb_neq. split; intros (? & ?); split; auto.
Qed.

(* what one bookkeeping step does to the sub-registry list of registry i *)
Lemma get_upd_subs s b f i :
  (forall y, exists l, f y = with_subs y l) ->
  exists l, get (upd s b f) i = with_subs (get s i) l.
Proof.
  intros Hf. rewrite get_upd. destruct (Nat.eqb i b && Nat.ltb b (length s)) eqn:E.
  - apply andb_true_iff in E. destruct E as (E & _). apply Nat.eqb_eq in E. subst. apply Hf.
  - exists (rs_subs (get s i)). destruct (get s i); reflexivity.
Qed.

Definition only_subs (s acc : sys) : Prop :=
  length acc = length s /\ forall i, exists l, get acc i = with_subs (get s i) l.

Lemma only_subs_refl s : only_subs s s.
Proof. split; auto. intros i. exists (rs_subs (get s i)). destruct (get s i); reflexivity. Qed.

Lemma only_subs_upd s acc b f : (forall y, exists l, f y = with_subs y l) ->
  only_subs s acc -> only_subs s (upd acc b f).
Proof.
  intros Hf (L & H). split; [rewrite upd_length; auto|]. intros i.
  destruct (get_upd_subs acc b f i Hf) as (l & ->). destruct (H i) as (l' & ->). exists l. reflexivity.
Qed.

Lemma rm_sub_shape r y : exists l, rm_sub r y = with_subs y l.
Proof. eexists; reflexivity. Qed.
Lemma add_sub_shape r y : exists l, add_sub r y = with_subs y l.
Proof. eexists; reflexivity. Qed.

Section Book.
  Variables (old bs : list nat) (r : nat) (s : sys).

  Let step1 := fun (acc : sys) b => if mem b bs then acc else upd acc b (rm_sub r).
  Let step2 := fun (acc : sys) b => if mem b old then acc else upd acc b (add_sub r).
  Let sa := fold_left step1 old s.
  Let sb := fold_left step2 bs sa.

  Definition J1 (acc : sys) : Prop :=
    only_subs s acc /\
    forall i, (forall y, In y (rs_subs (get acc i)) -> In y (rs_subs (get s i))) /\
              (forall y, In y (rs_subs (get s i)) -> y <> r -> In y (rs_subs (get acc i))) /\
              (In i bs -> rs_subs (get acc i) = rs_subs (get s i)).

  Lemma J1_sa : J1 sa.
  Proof.
    unfold sa. apply fold_left_inv.
    - split; [apply only_subs_refl|]. intros i. repeat split; auto.
    - intros acc b (O & H) _. unfold step1. destruct (mem b bs) eqn:M; [split; auto|].
      split; [apply only_subs_upd; auto using rm_sub_shape|].
      intros i. destruct (H i) as (H1 & H2 & H3). rewrite get_upd.
      destruct (Nat.eqb i b && Nat.ltb b (length acc)) eqn:E; [|repeat split; auto].
      apply andb_true_iff in E. destruct E as (E & _). apply Nat.eqb_eq in E. subst i.
      cbn [rm_sub with_subs rs_subs]. repeat split.
      + intros y Hy. apply In_remove_nat in Hy. apply H1. tauto.
      + intros y Hy N. apply In_remove_nat. auto.
      + intros Hb. apply mem_In in Hb. congruence.
  Qed.

  Definition J2 (acc : sys) : Prop :=
    only_subs s acc /\
    forall i, (forall y, In y (rs_subs (get acc i)) -> In y (rs_subs (get sa i)) \/ (y = r /\ In i bs)) /\
              (forall y, In y (rs_subs (get sa i)) -> In y (rs_subs (get acc i))).

  Lemma step2_J2 acc b : In b bs -> J2 acc -> J2 (step2 acc b).
  Proof.
    intros Hb (O & H). unfold step2. destruct (mem b old) eqn:M; [split; auto|].
    split; [apply only_subs_upd; auto using add_sub_shape|].
    intros i. destruct (H i) as (H1 & H2). rewrite get_upd.
    destruct (Nat.eqb i b && Nat.ltb b (length acc)) eqn:E; [|split; auto].
    apply andb_true_iff in E. destruct E as (E & _). apply Nat.eqb_eq in E. subst i.
    cbn [add_sub with_subs rs_subs]. destruct (mem r (rs_subs (get acc b))); [split; auto|]. split.
    - intros y Hy. apply in_app_iff in Hy. destruct Hy as [Hy|[<-|[]]]; auto.
    - intros y Hy. apply in_app_iff. auto.
  Qed.

  Lemma J2_sb : J2 sb.
  Proof.
    unfold sb. apply fold_left_inv.
    - split; [apply J1_sa|]. intros i. split; auto.
    - intros acc b Ha Hb. apply step2_J2; auto.
  Qed.

  Lemma step2_mono acc b i y : In y (rs_subs (get acc i)) -> In y (rs_subs (get (step2 acc b) i)).
  Proof.
    intros H. unfold step2. destruct (mem b old); auto. rewrite get_upd.
    destruct (Nat.eqb i b && Nat.ltb b (length acc)) eqn:E; auto.
    apply andb_true_iff in E. destruct E as (E & _). apply Nat.eqb_eq in E. subst i.
    cbn [add_sub with_subs rs_subs]. destruct (mem r (rs_subs (get acc b))); auto. apply in_app_iff; auto.
  Qed.

  Lemma step2_length acc b : length (step2 acc b) = length acc.
  Proof. unfold step2. destruct (mem b old); auto. apply upd_length. Qed.

  Lemma fold2_has : forall l acc i, In i l -> i < length acc ->
    (In i old -> In r (rs_subs (get acc i))) -> In r (rs_subs (get (fold_left step2 l acc) i)).
  Proof.
    induction l as [|b l IH]; intros acc i Hi L Ho; [destruct Hi|]. cbn [fold_left].
    destruct (Nat.eq_dec b i) as [->|N].
    - apply (fold_left_inv (fun a => In r (rs_subs (get a i)))); [|intros; apply step2_mono; auto].
      unfold step2. destruct (mem i old) eqn:M; [apply Ho, mem_In; auto|].
      rewrite get_upd_same by auto. cbn [add_sub with_subs rs_subs].
      destruct (mem r (rs_subs (get acc i))) eqn:M2; [apply mem_In; auto|apply in_app_iff; cbn; auto].
    - destruct Hi as [?|Hi]; [congruence|]. apply IH; auto.
      + rewrite step2_length; auto.
      + intros. apply step2_mono; auto.
  Qed.

  Lemma book_spec :
    only_subs s (book old s r bs) /\
    (forall i y, In y (rs_subs (get (book old s r bs) i)) -> In y (rs_subs (get s i)) \/ (y = r /\ In i bs)) /\
    (forall i y, In y (rs_subs (get s i)) -> y <> r -> In y (rs_subs (get (book old s r bs) i))) /\
    (forall i, In i bs -> i < length s -> (In i old -> In r (rs_subs (get s i))) ->
               In r (rs_subs (get (book old s r bs) i))).
  Proof.
    change (book old s r bs) with sb. destruct J2_sb as (O & H2). destruct J1_sa as (O1 & H1).
    split; auto. repeat split.
    - intros i y Hy. apply H2 in Hy. destruct Hy as [Hy|?]; auto. left. apply H1; auto.
    - intros i y Hy N. apply H2. apply H1; auto.
    - intros i Hi L Ho. unfold sb. apply fold2_has; auto.
      + destruct O1 as (-> & _); auto.
      + intros Hio. destruct (H1 i) as (_ & _ & ->); auto.
  Qed.
End Book.

(* ---- _setBases keeps the push invariant *)
Lemma PInv_skel s s' : skel_eq s s' -> PInv s -> PInv s'.
Proof.
  intros ((L & G) & Ro) (A & R & S0 & C). assert (GE : graph_eq s s') by (split; auto).
  split; [|split; [|split]].
  - eapply graph_eq_allPush; eauto.
  - eapply graph_eq_ranked; eauto.
  - apply (graph_eq_subs_ok _ _ GE S0).
  - intros r Hr. rewrite <- Ro, <- (graph_eq_fresh _ _ r GE). apply C. rewrite L; auto.
Qed.

Definition ro_coherent_except (s : sys) (r : nat) : Prop :=
  forall x, x < length s -> x <> r -> rs_ro (get s x) = fresh_ro s x.

Lemma s2_fields sb s r bs i : only_subs s sb -> r < length s ->
  rs_bases (get (upd sb r (setb bs)) i) = (if Nat.eqb i r then bs else rs_bases (get s i)) /\
  rs_subs (get (upd sb r (setb bs)) i) = rs_subs (get sb i) /\
  rs_flavour (get (upd sb r (setb bs)) i) = rs_flavour (get s i) /\
  rs_ro (get (upd sb r (setb bs)) i) = rs_ro (get s i).
Proof.
  intros (L & H) Lr. rewrite get_upd, L. destruct (Nat.eqb i r) eqn:E.
  - apply Nat.eqb_eq in E. subst. replace (Nat.ltb r (length s)) with true by (symmetry; apply Nat.ltb_lt; auto).
    cbn [andb]. destruct (H r) as (l & ->). cbn. auto.
  - cbn [andb]. destruct (H i) as (l & ->). cbn. auto.
Qed.

Lemma Reach_avoid B B' r : (forall y, y <> r -> B y = B' y) ->
  forall x, ~ Reach B x r -> agree_from B B' x.
Proof.
  intros E x N y Hy. apply E. intros ->. auto.
Qed.

Lemma set_bases_push_shape s r bs :
  allPush s -> ranked (Bs s) -> subs_ok s -> ro_coherent_except s r ->
  r < length s -> (forall b, In b bs -> b < r) ->
  exists s4, set_bases s r bs = after_bump s4 r /\ PInv s4 /\ length s4 = length s.
Proof.
  intros A R S0 C Lr Hbs. rewrite set_bases_push_eq by apply A. cbv zeta.
  destruct (book_spec (rs_bases (get s r)) bs r s) as (O & B2 & B3 & B4).
  set (sb := book (rs_bases (get s r)) s r bs) in *.
  set (s2 := upd sb r (setb bs)).
  assert (F : forall i, rs_bases (get s2 i) = (if Nat.eqb i r then bs else rs_bases (get s i)) /\
                        rs_subs (get s2 i) = rs_subs (get sb i) /\
                        rs_flavour (get s2 i) = rs_flavour (get s i) /\
                        rs_ro (get s2 i) = rs_ro (get s i)) by (intros; apply s2_fields; auto).
  assert (L2 : length s2 = length s) by (unfold s2; rewrite upd_length; apply O).
  assert (A2 : allPush s2) by (intros i; destruct (F i) as (_ & _ & -> & _); apply A).
  assert (R2 : ranked (Bs s2)).
  { intros y b. unfold Bs. destruct (F y) as (-> & _). destruct (Nat.eqb y r) eqn:E.
    - apply Nat.eqb_eq in E. subst. auto.
    - apply R. }
  assert (S2 : subs_ok s2).
  { split.
    - intros i y. destruct (F i) as (_ & -> & _). intros Hy. rewrite L2.
      destruct (B2 _ _ Hy) as [Hy'|(-> & Hi)]; [apply S0; auto|]. split; auto.
    - intros x b. unfold Bs. destruct (F x) as (-> & _). destruct (F b) as (_ & -> & _).
      destruct (Nat.eqb x r) eqn:E.
      + apply Nat.eqb_eq in E. subst. intros Hb. pose proof (Hbs _ Hb). apply B4; auto; try lia.
        intros Ho. apply S0; auto.
      + apply Nat.eqb_neq in E. intros Hb. apply B3; auto. apply S0; auto. }
  assert (C2 : forall x, x < length s2 -> ~ Reach (Bs s2) x r -> P_ro s2 x).
  { intros x Lx N. unfold P_ro. destruct (F x) as (_ & _ & _ & ->).
    assert (x <> r) by (intros ->; apply N, Reach_refl).
    rewrite C; auto; [|lia]. symmetry. apply fresh_ro_frame; auto; try lia.
    apply Reach_avoid with (r := r); auto.
    intros y Hy. unfold Bs. destruct (F y) as (-> & _).
    apply Nat.eqb_neq in Hy. rewrite Hy. auto. }
  set (s3 := refresh_ro (length s) s2 r).
  assert (G3 : graph_eq s2 s3) by (apply refresh_ro_graph; auto).
  assert (P3 : PInv s3).
  { split; [|split; [|split]].
    - eapply graph_eq_allPush; eauto.
    - eapply graph_eq_ranked; eauto.
    - apply (graph_eq_subs_ok _ _ G3 S2).
    - intros x Lx. destruct G3 as (L3 & _). rewrite <- L3 in Lx. fold (P_ro s3 x). unfold s3.
      destruct (Reach_dec (Bs s2) r R2 x) as [Y|N].
      + rewrite <- L2. apply refresh_ro_reaches; auto. lia.
      + apply refresh_ro_keeps; auto. }
  exists (upd s3 r bump). split; [reflexivity|]. split.
  - eapply PInv_skel; [apply bump_skel|exact P3].
  - rewrite upd_length. destruct G3 as (<- & _). auto.
Qed.

Lemma set_bases_push s r bs :
  allPush s -> ranked (Bs s) -> subs_ok s -> ro_coherent_except s r ->
  r < length s -> (forall b, In b bs -> b < r) ->
  PInv (set_bases s r bs) /\ length (set_bases s r bs) = length s.
Proof.
  intros A R S0 C Lr Hbs.
  destruct (set_bases_push_shape s r bs A R S0 C Lr Hbs) as (s4 & -> & P4 & L4).
  assert (K : skel_eq s4 (after_bump s4 r)) by (apply after_bump_skel; apply P4).
  split; [eapply PInv_skel; eauto|]. destruct K as ((<- & _) & _). auto.
Qed.

(* ---- every operation of a well-formed history keeps the push invariant *)
Lemma fst_let {A B C} (x : A * B) (g : B -> C) : fst (let '(s', a) := x in (s', g a)) = fst x.
Proof. destruct x; reflexivity. Qed.

Lemma with_lookup_fst W {A} s r (f : _ -> _ -> _ -> caches -> caches * A) :
  exists c', fst (with_lookup W s r f) = upd (verify s r) r (fun x => set_caches x c').
Proof.
  unfold with_lookup. cbv zeta.
  destruct (f (uncached_lookup W (ro_regs (verify s r) r)) (uncached_lookupAll W (ro_regs (verify s r) r))
              (uncached_subscriptions W (ro_regs (verify s r) r)) (rs_caches (get (verify s r) r))) as [c' a].
  exists c'. reflexivity.
Qed.

Lemma verify_push s r : rs_flavour (get s r) = Push -> verify s r = s.
Proof. intros H. unfold verify. rewrite H. reflexivity. Qed.

Lemma set_caches_skel s r c : skel_eq s (upd s r (fun x => set_caches x c)).
Proof. apply upd_skel_eq. intros x. cbn. auto. Qed.

Lemma with_lookup_push_skel W {A} s r (f : _ -> _ -> _ -> caches -> caches * A) :
  allPush s -> skel_eq s (fst (with_lookup W s r f)).
Proof.
  intros Al. destruct (with_lookup_fst W s r f) as (c' & ->). rewrite verify_push by apply Al.
  apply set_caches_skel.
Qed.

Lemma set_reg_skel s r g : skel_eq s (upd s r (fun x => mkRS g (rs_caches x) (rs_bases x) (rs_ro x) (rs_subs x)
                                                        (rs_vro x) (rs_vgen x) (rs_flavour x))).
Proof. apply upd_skel_eq. intros x. cbn. auto. Qed.

Lemma mutate_push_skel s r f : allPush s -> skel_eq s (mutate s r f).
Proof.
  intros Al. unfold mutate.
  destruct (Nat.eqb (generation (f (rs_reg (get s r)))) (generation (rs_reg (get s r)))); [apply skel_eq_refl|].
  eapply skel_eq_trans; [apply (set_reg_skel s r (f (rs_reg (get s r))))|].
  apply after_bump_skel. eapply skel_allPush; [apply set_reg_skel|]; auto.
Qed.

(* rebuild(): the storage is replaced (Model/Adapter.rebuild), then changed() *)
Lemma rebuild_push_skel s r g : allPush s ->
  skel_eq s (after_bump (set s r (mkRS g (rs_caches (get s r)) (rs_bases (get s r)) (rs_ro (get s r))
                                      (rs_subs (get s r)) (rs_vro (get s r)) (rs_vgen (get s r))
                                      (rs_flavour (get s r)))) r).
Proof.
  intros Al. eapply skel_eq_trans; [apply (set_reg_skel s r g)|].
  apply after_bump_skel. eapply skel_allPush; [apply set_reg_skel|]; auto.
Qed.

Lemma get_app_cases s x i :
  get (s ++ [x]) i = if Nat.ltb i (length s) then get s i else if Nat.eqb i (length s) then x else dummy_rs.
Proof.
  destruct (Nat.ltb i (length s)) eqn:L.
  - apply Nat.ltb_lt in L. apply get_app_l; auto.
  - apply Nat.ltb_ge in L. destruct (Nat.eqb i (length s)) eqn:E.
    + apply Nat.eqb_eq in E. subst. apply get_app_new.
    + apply Nat.eqb_neq in E. apply get_oob. rewrite app_length. cbn. lia.
Qed.

Lemma app_new_ranked s fl : ranked (Bs s) -> ranked (Bs (s ++ [mkRS empty_reg empty_caches [] [] [] [] [] fl])).
Proof.
  intros R y b. unfold Bs. rewrite get_app_cases.
  destruct (Nat.ltb y (length s)); [apply R|]. destruct (Nat.eqb y (length s)); cbn; tauto.
Qed.

Lemma app_new_fresh s fl x : ranked (Bs s) -> x < length s ->
  fresh_ro (s ++ [mkRS empty_reg empty_caches [] [] [] [] [] fl]) x = fresh_ro s x.
Proof.
  intros R L. symmetry. apply fresh_ro_frame; auto; [|rewrite app_length; lia].
  intros y Hy. apply (Reach_le _ R) in Hy. unfold Bs. rewrite get_app_cases.
  replace (Nat.ltb y (length s)) with true; auto. symmetry. apply Nat.ltb_lt. lia.
Qed.

Lemma new_reg_push s bs : PInv s -> (forall b, In b bs -> b < length s) ->
  PInv (new_reg s Push bs) /\ length (new_reg s Push bs) = S (length s).
Proof.
  intros (Al & R & S0 & C) Hbs. unfold new_reg.
  set (s0 := s ++ [mkRS empty_reg empty_caches [] [] [] [] [] Push]).
  assert (L0 : length s0 = S (length s)) by (unfold s0; rewrite app_length; cbn; lia).
  assert (G : forall i, get s0 i = if Nat.ltb i (length s) then get s i
                                   else if Nat.eqb i (length s) then mkRS empty_reg empty_caches [] [] [] [] [] Push
                                        else dummy_rs) by (intros; apply get_app_cases).
  destruct (set_bases_push s0 (length s) bs) as (P & L); auto; try lia.
  - intros i. rewrite G. destruct (Nat.ltb i (length s)); [apply Al|].
    destruct (Nat.eqb i (length s)); reflexivity.
  - apply app_new_ranked; auto.
  - split.
    + intros r y. rewrite G, L0. destruct (Nat.ltb r (length s)).
      * intros Hy. apply S0 in Hy. lia.
      * destruct (Nat.eqb r (length s)); cbn; tauto.
    + intros r b. unfold Bs. rewrite (G r). destruct (Nat.ltb r (length s)) eqn:Lr.
      * intros Hb. apply Nat.ltb_lt in Lr. pose proof (R _ _ Hb). rewrite G.
        replace (Nat.ltb b (length s)) with true by (symmetry; apply Nat.ltb_lt; lia). apply S0; auto.
      * destruct (Nat.eqb r (length s)); cbn; tauto.
  - intros x Lx N. rewrite L0 in Lx. rewrite G.
    replace (Nat.ltb x (length s)) with true by (symmetry; apply Nat.ltb_lt; lia).
    unfold s0. rewrite app_new_fresh; auto; try lia. apply C; lia.
  - split; auto. lia.
Qed.

Lemma forallb_ltb l n : forallb (fun b => Nat.ltb b n) l = true -> forall b, In b l -> b < n.
Proof. intros H b Hb. rewrite forallb_forall in H. apply Nat.ltb_lt. auto. Qed.

Lemma PInv_step W call s o : PInv s -> wf_op Push (length s) o = true ->
  PInv (fst (step W call s o)) /\ length (fst (step W call s o)) = n_after (length s) o.
Proof.
  intros P Wf. assert (Al : allPush s) by apply P.
  assert (SK : forall s', skel_eq s s' -> PInv s' /\ length s' = length s).
  { intros s' K. split; [eapply PInv_skel; eauto|]. destruct K as ((-> & _) & _); auto. }
  destruct o; cbn [step wf_op n_after fst] in *; try rewrite fst_let;
    try (apply SK; first [apply with_lookup_push_skel; auto | apply mutate_push_skel; auto | apply skel_eq_refl
                         | apply rebuild_push_skel; auto]; fail);
    try discriminate.
  - apply andb_true_iff in Wf. destruct Wf as (Fl & Hb). destruct fl; try discriminate.
    apply new_reg_push; auto. apply forallb_ltb; auto.
  - apply andb_true_iff in Wf. destruct Wf as (Lr & Hb). apply Nat.ltb_lt in Lr.
    destruct P as (? & ? & ? & C). apply set_bases_push; auto.
    + intros x Lx _. apply C; auto.
    + apply forallb_ltb; auto.
Qed.

Lemma PInv_nil : PInv [].
Proof.
  split; [|split; [|split]].
  - intros i. unfold get. destruct i; reflexivity.
  - intros y b. unfold Bs, get. destruct y; cbn; tauto.
  - split; intros r y; unfold Bs, get; destruct r; cbn; tauto.
  - intros r H. cbn in H. lia.
Qed.

Lemma PInv_final W call : forall ops s, PInv s -> wf_hist Push (length s) ops = true ->
  PInv (final W call s ops).
Proof.
  induction ops as [|o ops IH]; intros s P Wf; cbn [final fold_left]; auto.
  cbn [wf_hist] in Wf. apply andb_true_iff in Wf. destruct Wf as (Wo & Wf).
  destruct (PInv_step W call s o P Wo) as (P' & L'). apply IH; auto. rewrite L'; auto.
Qed.

(* ================================================================== Part D: verifying flavour *)

Definition gen_of (s : sys) (i : nat) : nat := generation (rs_reg (get s i)).

Lemma gens_map s l : gens s l = map (gen_of s) l.
Proof. reflexivity. Qed.

Lemma gens_ext s s' l : (forall i, In i l -> gen_of s i = gen_of s' i) -> gens s l = gens s' l.
Proof. intros H. rewrite !gens_map. apply map_ext_in; auto. Qed.

Lemma lspec_eqb_eq a : forall b, lspec_eqb a b = true <-> a = b.
Proof.
  induction a as [|x a IH]; intros [|y b]; cbn; try (split; congruence).
  rewrite andb_true_iff, Nat.eqb_eq. unfold lspec_eqb in IH. rewrite IH.
  split; [intros (-> & ->); auto | intros E; inversion E; auto].
Qed.

Lemma Forall2_le_refl l : Forall2 le l l.
Proof. induction l; constructor; auto. Qed.

Lemma gens_mono s s' : (forall i, gen_of s i <= gen_of s' i) ->
  forall l vg, Forall2 le vg (gens s l) -> Forall2 le vg (gens s' l).
Proof.
  intros M. induction l as [|y l IH]; intros vg H; inversion H; subst; constructor; auto.
  specialize (M y). unfold gen_of in M. lia.
Qed.

Lemma gens_sandwich s s' : (forall i, gen_of s i <= gen_of s' i) ->
  forall l vg, Forall2 le vg (gens s l) -> gens s' l = vg ->
               gens s l = vg /\ forall y, In y l -> gen_of s y = gen_of s' y.
Proof.
  intros M. induction l as [|y l IH]; intros vg H <-.
  - split; auto. intros ? [].
  - cbn [gens map] in *. inversion H as [|a b la lb Hab Hl]; subst.
    destruct (IH _ Hl eq_refl) as (E1 & E2).
    specialize (M y). unfold gen_of in *.
    assert (generation (rs_reg (get s y)) = generation (rs_reg (get s' y))) by lia.
    split.
    + f_equal; auto.
    + intros z [<-|Hz]; auto.
Qed.

(* what the lookup object's changed() does to a verifying registry *)
Lemma lookup_changed_ver b s r : rs_flavour (get s r) = Verifying -> r < length s ->
  length (lookup_changed b s r) = length s /\
  (forall i, i <> r -> get (lookup_changed b s r) i = get s i) /\
  get (lookup_changed b s r) r =
    mkRS (rs_reg (get s r)) empty_caches (rs_bases (get s r)) (fresh_ro s r) (rs_subs (get s r))
         (tl (fresh_ro s r)) (gens s (tl (fresh_ro s r))) Verifying.
Proof.
  intros F L. unfold lookup_changed. rewrite F. cbn [refresh_ro].
  set (X0 := mkRS (rs_reg (get s r)) (rs_caches (get s r)) (rs_bases (get s r)) (fresh_ro s r)
                  (rs_subs (get s r)) (rs_vro (get s r)) (rs_vgen (get s r)) (rs_flavour (get s r))).
  assert (G0 : get (set s r X0) r = X0) by (apply get_set_same; auto).
  rewrite G0. cbn [X0 rs_reg rs_bases rs_ro rs_subs].
  split; [rewrite !set_length; auto|]. split.
  - intros i N. rewrite !get_set_other; auto.
  - rewrite get_set_same by (rewrite set_length; auto). f_equal.
    apply gens_ext. intros i _. unfold gen_of. rewrite get_set.
    destruct (Nat.eqb i r && Nat.ltb r (length s)) eqn:E; auto.
    apply andb_true_iff in E. destruct E as (E & _). apply Nat.eqb_eq in E. subst. reflexivity.
Qed.

(* a registry that is not touched keeps a valid snapshot, provided generations only grow and
   every registry whose __bases__ changed has a strictly larger generation *)
Lemma snap_frame s s' x :
  ranked (Bs s) -> length s <= length s' -> x < length s ->
  rs_ro (get s' x) = rs_ro (get s x) -> rs_vro (get s' x) = rs_vro (get s x) ->
  rs_vgen (get s' x) = rs_vgen (get s x) ->
  (forall i, gen_of s i <= gen_of s' i) ->
  (forall i, Bs s i <> Bs s' i -> gen_of s i < gen_of s' i) ->
  Bs s x = Bs s' x ->
  snap_ok s x -> snap_ok s' x.
Proof.
  intros R L Lx E1 E2 E3 M St Bx (V1 & V4 & V2 & V3). unfold snap_ok. rewrite E1, E2, E3.
  split; auto. split; [intros y Hy; apply V4 in Hy; lia|]. split; [eapply gens_mono; eauto|].
  intros E. destruct (gens_sandwich s s' M _ _ V2 E) as (E' & Eq). rewrite (V3 E').
  apply fresh_ro_frame; auto; try lia.
  intros y Hy. apply (fresh_ro_mem s x y R Lx) in Hy. rewrite <- (V3 E'), V1 in Hy.
  destruct Hy as [<-|Hy]; auto.
  destruct (list_eq_dec Nat.eq_dec (Bs s y) (Bs s' y)) as [|N]; auto.
  apply St in N. apply Eq in Hy. lia.
Qed.

(* re-taking the snapshot of registry r, in a system that differs from a good one only at r *)
Lemma resnap b s s4 r :
  allVer s -> ranked (Bs s) -> (forall x, x < length s -> x <> r -> snap_ok s x) ->
  r < length s -> length s4 = length s -> (forall i, i <> r -> get s4 i = get s i) ->
  rs_flavour (get s4 r) = Verifying -> ranked (Bs s4) ->
  gen_of s r <= gen_of s4 r -> (Bs s r <> Bs s4 r -> gen_of s r < gen_of s4 r) ->
  VInv (lookup_changed b s4 r) /\ length (lookup_changed b s4 r) = length s.
Proof.
  intros Al R Sn Lr L4 O4 F4 R4 Gr St.
  destruct (lookup_changed_ver b s4 r F4) as (L' & O' & G'); [lia|].
  set (s' := lookup_changed b s4 r) in *.
  assert (B' : forall i, Bs s' i = Bs s4 i).
  { intros i. unfold Bs. destruct (Nat.eq_dec i r) as [->|N]; [rewrite G'; reflexivity|rewrite O'; auto]. }
  assert (Gn : forall i, gen_of s' i = gen_of s4 i).
  { intros i. unfold gen_of. destruct (Nat.eq_dec i r) as [->|N]; [rewrite G'; reflexivity|rewrite O'; auto]. }
  assert (R' : ranked (Bs s')) by (intros y c; rewrite B'; apply R4).
  assert (Fr : fresh_ro s' r = fresh_ro s4 r) by (apply fresh_ro_ext; auto).
  split; [|lia]. split; [|split; auto].
  - intros i Li. destruct (Nat.eq_dec i r) as [->|N]; [rewrite G'; reflexivity|].
    rewrite O', O4; auto. apply Al. lia.
  - intros x Lx. destruct (Nat.eq_dec x r) as [->|N].
    + destruct (fresh_ro_head s4 r R4) as (t & Ht); [lia|].
      unfold snap_ok. rewrite G'. cbn [rs_ro rs_vro rs_vgen]. rewrite Ht. cbn [tl].
      split; auto. split; [|split].
      * intros y Hy. rewrite <- Ht in Hy. apply fresh_ro_mem in Hy; auto; [|lia].
        apply (Reach_le _ R4) in Hy. lia.
      * rewrite (gens_ext s' s4 t) by (intros; apply Gn). apply Forall2_le_refl.
      * intros _. rewrite Fr. auto.
    + assert (Lx' : x < length s) by lia.
      apply (snap_frame s s' x); auto; try lia.
      * rewrite O', O4; auto.
      * rewrite O', O4; auto.
      * rewrite O', O4; auto.
      * intros i. rewrite Gn. destruct (Nat.eq_dec i r) as [->|Ni]; auto.
        unfold gen_of. rewrite O4; auto.
      * intros i. rewrite Gn, B'. destruct (Nat.eq_dec i r) as [->|Ni]; auto.
        unfold Bs. rewrite O4; auto. congruence.
      * rewrite B'. unfold Bs. rewrite O4; auto.
Qed.

Lemma refresh_ro_ver f s r : rs_flavour (get s r) = Verifying -> refresh_ro f s r = visit_ro s r.
Proof.
  intros F. destruct f; cbn [refresh_ro]; [reflexivity|].
  assert (E : forall X Y : sys, match rs_flavour (get s r) with Push => X | Verifying => Y end = Y)
    by (intros; rewrite F; auto).
  rewrite E. reflexivity.
Qed.

Lemma after_bump_ver s r : rs_flavour (get s r) = Verifying -> r < length s ->
  after_bump s r = lookup_changed false s r.
Proof.
  intros F L. unfold after_bump. destruct (lookup_changed_ver false s r F L) as (_ & _ & ->). reflexivity.
Qed.

Lemma set_bases_ver_eq s r bs : rs_flavour (get s r) = Verifying -> r < length s ->
  set_bases s r bs = lookup_changed false (upd (visit_ro (upd s r (setb bs)) r) r bump) r.
Proof.
  intros F L. unfold set_bases. rewrite F. fold (setb bs).
  change (upd s r (fun y => mkRS (rs_reg y) (rs_caches y) bs (rs_ro y) (rs_subs y) (rs_vro y) (rs_vgen y)
                                 (rs_flavour y))) with (upd s r (setb bs)).
  assert (F2 : rs_flavour (get (upd s r (setb bs)) r) = Verifying) by (rewrite get_upd_same; auto).
  rewrite refresh_ro_ver by auto.
  apply after_bump_ver.
  - rewrite get_upd_same by (unfold visit_ro; rewrite !upd_length; auto). cbn.
    unfold visit_ro. rewrite get_upd_same by (rewrite upd_length; auto). cbn. rewrite get_upd_same; auto.
  - unfold visit_ro. rewrite !upd_length. auto.
Qed.

Lemma set_bases_ver s r bs :
  allVer s -> ranked (Bs s) -> (forall x, x < length s -> x <> r -> snap_ok s x) ->
  r < length s -> (forall b, In b bs -> b < r) ->
  VInv (set_bases s r bs) /\ length (set_bases s r bs) = length s.
Proof.
  intros Al R Sn Lr Hbs. rewrite set_bases_ver_eq; auto.
  set (s4 := upd (visit_ro (upd s r (setb bs)) r) r bump).
  assert (L4 : length s4 = length s) by (unfold s4, visit_ro; rewrite !upd_length; auto).
  assert (O4 : forall i, i <> r -> get s4 i = get s i).
  { intros i N. unfold s4, visit_ro. rewrite !get_upd_other; auto. }
  assert (G4 : get s4 r = bump (mkRS (rs_reg (get s r)) (rs_caches (get s r)) bs
                                     (fresh_ro (upd s r (setb bs)) r) (rs_subs (get s r)) (rs_vro (get s r))
                                     (rs_vgen (get s r)) (rs_flavour (get s r)))).
  { unfold s4, visit_ro. rewrite get_upd_same by (rewrite !upd_length; auto).
    rewrite get_upd_same by (rewrite upd_length; auto). rewrite get_upd_same by auto. reflexivity. }
  apply (resnap false s s4 r); auto.
  - rewrite G4. cbn. auto.
  - intros y b. unfold Bs. destruct (Nat.eq_dec y r) as [->|N].
    + rewrite G4. cbn. auto.
    + rewrite O4 by auto. apply R.
  - unfold gen_of. rewrite G4. cbn. lia.
  - intros _. unfold gen_of. rewrite G4. cbn. lia.
Qed.

(* the storage mutators never lower the generation *)
Lemma provide_incr_gen W g p : generation (provide_incr W g p) = generation g.
Proof. reflexivity. Qed.
Lemma provide_decr_gen W g p k : generation (provide_decr W g p k) = generation g.
Proof. unfold provide_decr. destruct (Nat.eqb _ 0); reflexivity. Qed.

Lemma unregister_gen W g req p n v : generation g <= generation (unregister W g req p n v).
Proof.
  unfold unregister. destruct (aget akey_eqb (adapters g) (map conv req, p, n)) as [old|]; auto.
  destruct v as [v'|]; [destruct (v_is old v'); auto|]; cbn [changed generation];
    rewrite provide_decr_gen; cbn; lia.
Qed.

Lemma register_gen W g req p n v : generation g <= generation (register W g req p n v).
Proof.
  unfold register. destruct v as [v'|]; [|apply unregister_gen].
  destruct (aget akey_eqb (adapters g) (map conv req, p, n)) as [old|]; [destruct (v_is old v'); auto|];
    cbn; lia.
Qed.

Lemma subscribe_gen W g req p v : generation g <= generation (subscribe W g req p v).
Proof. unfold subscribe. destruct p; cbn; lia. Qed.

Lemma unsubscribe_gen W g req p v : generation g <= generation (unsubscribe W g req p v).
Proof.
  unfold unsubscribe. destruct (sub_leaf g (map conv req, p)) as [|a l]; auto.
  match goal with |- context [if ?c then _ else _] => destruct c end; auto.
  destruct p; cbn [changed generation]; try rewrite provide_decr_gen; cbn; lia.
Qed.

Lemma setreg_ver s r g' : VInv s -> r < length s -> generation (rs_reg (get s r)) <= generation g' ->
  let s4 := set s r (mkRS g' (rs_caches (get s r)) (rs_bases (get s r)) (rs_ro (get s r)) (rs_subs (get s r))
                          (rs_vro (get s r)) (rs_vgen (get s r)) (rs_flavour (get s r))) in
  VInv (after_bump s4 r) /\ length (after_bump s4 r) = length s /\
  (forall i, i <> r -> get (after_bump s4 r) i = get s i) /\
  gen_of (after_bump s4 r) r = generation g' /\
  rs_caches (get (after_bump s4 r) r) = empty_caches.
Proof.
  intros (Al & R & Sn) Lr Mg s4.
  assert (L4 : length s4 = length s) by (unfold s4; rewrite set_length; auto).
  assert (O4 : forall i, i <> r -> get s4 i = get s i) by (intros; unfold s4; rewrite get_set_other; auto).
  assert (G4 : get s4 r = mkRS g' (rs_caches (get s r)) (rs_bases (get s r)) (rs_ro (get s r))
                               (rs_subs (get s r)) (rs_vro (get s r)) (rs_vgen (get s r)) (rs_flavour (get s r)))
    by (unfold s4; rewrite get_set_same; auto).
  assert (F4 : rs_flavour (get s4 r) = Verifying) by (rewrite G4; cbn; auto).
  rewrite after_bump_ver; auto; try lia.
  assert (B4 : forall i, Bs s4 i = Bs s i).
  { intros i. unfold Bs. destruct (Nat.eq_dec i r) as [->|N]; [rewrite G4; reflexivity|rewrite O4; auto]. }
  destruct (resnap false s s4 r) as (V' & L'); auto.
  - intros y b. rewrite B4. apply R.
  - unfold gen_of. rewrite G4. cbn. auto.
  - rewrite B4. congruence.
  - destruct (lookup_changed_ver false s4 r F4) as (_ & O' & G'); [lia|].
    split; auto. split; auto. split; [|split].
    + intros i N. rewrite O' by auto. auto.
    + unfold gen_of. rewrite G', G4. reflexivity.
    + rewrite G'. reflexivity.
Qed.

Lemma rebuild_gen W g : generation g < generation (rebuild W g).
Proof.
  unfold rebuild.
  apply (fold_left_inv (fun a => generation g < generation a)).
  - apply (fold_left_inv (fun a => generation g < generation a)); [cbn; lia|].
    intros a kv Ha _. destruct (fst kv) as [[req p] n].
    pose proof (register_gen W a (map Some req) p n (Some (snd kv))). lia.
  - intros a kv Ha _. pose proof (subscribe_gen W a (map Some (fst (fst kv))) (snd (fst kv)) (snd kv)). lia.
Qed.

Lemma mutate_ver s r f : VInv s -> r < length s -> (forall g, generation g <= generation (f g)) ->
  VInv (mutate s r f) /\ length (mutate s r f) = length s.
Proof.
  intros (Al & R & Sn) Lr Mf. unfold mutate.
  destruct (Nat.eqb (generation (f (rs_reg (get s r)))) (generation (rs_reg (get s r)))); [split; auto; split; auto|].
  set (s4 := set s r _).
  assert (L4 : length s4 = length s) by (unfold s4; rewrite set_length; auto).
  assert (O4 : forall i, i <> r -> get s4 i = get s i) by (intros; unfold s4; rewrite get_set_other; auto).
  assert (G4 : get s4 r = mkRS (f (rs_reg (get s r))) (rs_caches (get s r)) (rs_bases (get s r)) (rs_ro (get s r))
                               (rs_subs (get s r)) (rs_vro (get s r)) (rs_vgen (get s r)) (rs_flavour (get s r)))
    by (unfold s4; rewrite get_set_same; auto).
  assert (F4 : rs_flavour (get s4 r) = Verifying) by (rewrite G4; cbn; auto).
  rewrite after_bump_ver; auto; try lia.
  assert (B4 : forall i, Bs s4 i = Bs s i).
  { intros i. unfold Bs. destruct (Nat.eq_dec i r) as [->|N]; [rewrite G4; reflexivity|rewrite O4; auto]. }
  apply (resnap false s s4 r); auto.
  - intros y b. rewrite B4. apply R.
  - unfold gen_of. rewrite G4. cbn. apply Mf.
  - rewrite B4. congruence.
Qed.

Lemma verify_ver s r : VInv s -> r < length s ->
  VInv (verify s r) /\ length (verify s r) = length s /\
  rs_ro (get (verify s r) r) = fresh_ro (verify s r) r /\
  (forall i, rs_reg (get (verify s r) i) = rs_reg (get s i)) /\
  (forall i, Bs (verify s r) i = Bs s i) /\
  (forall i, i <> r -> get (verify s r) i = get s i) /\
  (gens s (rs_vro (get s r)) <> rs_vgen (get s r) -> rs_caches (get (verify s r) r) = empty_caches) /\
  (gens s (rs_vro (get s r)) = rs_vgen (get s r) -> verify s r = s).
Proof.
  intros V Lr. pose proof V as (Al & R & Sn). unfold verify. rewrite (Al r Lr).
  destruct (lspec_eqb (gens s (rs_vro (get s r))) (rs_vgen (get s r))) eqn:E.
  - apply lspec_eqb_eq in E. split; [auto|]. split; [auto|]. split; [apply Sn; auto|].
    split; [auto|]. split; [auto|]. split; [auto|]. split; [intros N; congruence|auto].
  - assert (NE : gens s (rs_vro (get s r)) <> rs_vgen (get s r)).
    { intros H. apply lspec_eqb_eq in H. congruence. }
    destruct (lookup_changed_ver true s r (Al r Lr) Lr) as (L' & O' & G').
    destruct (resnap true s s r) as (V' & _); auto.
    { congruence. }
    split; auto. split; auto.
    assert (B' : forall i, Bs (lookup_changed true s r) i = Bs s i).
    { intros i. unfold Bs. destruct (Nat.eq_dec i r) as [->|N]; [rewrite G'; reflexivity|rewrite O'; auto]. }
    split; [|split; [|split; [|split; [|split]]]]; auto.
    + rewrite G'. cbn. apply fresh_ro_ext; auto.
    + intros i. destruct (Nat.eq_dec i r) as [->|N]; [rewrite G'; reflexivity|rewrite O'; auto].
    + intros _. rewrite G'. reflexivity.
    + congruence.
Qed.

Lemma set_caches_ver s r c : VInv s -> VInv (upd s r (fun x => set_caches x c)).
Proof.
  intros (Al & R & Sn). set (s' := upd s r (fun x => set_caches x c)).
  assert (F : forall i, rs_reg (get s' i) = rs_reg (get s i) /\ rs_bases (get s' i) = rs_bases (get s i) /\
                        rs_ro (get s' i) = rs_ro (get s i) /\ rs_vro (get s' i) = rs_vro (get s i) /\
                        rs_vgen (get s' i) = rs_vgen (get s i) /\ rs_flavour (get s' i) = rs_flavour (get s i)).
  { intros i. unfold s'. rewrite get_upd. destruct (Nat.eqb i r && Nat.ltb r (length s)) eqn:E;
      [|repeat split; reflexivity].
    apply andb_true_iff in E. destruct E as (E & _). apply Nat.eqb_eq in E. subst. cbn.
    repeat split; reflexivity. }
  assert (L : length s' = length s) by apply upd_length.
  split; [|split].
  - intros i Li. destruct (F i) as (_ & _ & _ & _ & _ & ->). apply Al. lia.
  - intros y b. unfold Bs. destruct (F y) as (_ & -> & _). apply R.
  - intros x Lx. rewrite L in Lx. apply (snap_frame s s' x); auto; try lia; try apply F.
    + intros i. unfold gen_of. destruct (F i) as (-> & _). auto.
    + intros i. unfold Bs. destruct (F i) as (_ & -> & _). congruence.
    + unfold Bs. destruct (F x) as (_ & -> & _). auto.
Qed.

Lemma with_lookup_ver W {A} s r (f : _ -> _ -> _ -> caches -> caches * A) :
  VInv s -> r < length s ->
  VInv (fst (with_lookup W s r f)) /\ length (fst (with_lookup W s r f)) = length s.
Proof.
  intros V Lr. destruct (with_lookup_fst W s r f) as (c' & ->).
  destruct (verify_ver s r V Lr) as (V' & L' & _). split; [apply set_caches_ver; auto|].
  rewrite upd_length; auto.
Qed.

Lemma new_reg_ver s bs : VInv s -> (forall b, In b bs -> b < length s) ->
  VInv (new_reg s Verifying bs) /\ length (new_reg s Verifying bs) = S (length s).
Proof.
  intros (Al & R & Sn) Hbs. unfold new_reg.
  set (s0 := s ++ [mkRS empty_reg empty_caches [] [] [] [] [] Verifying]).
  assert (L0 : length s0 = S (length s)) by (unfold s0; rewrite app_length; cbn; lia).
  assert (G : forall i, get s0 i = if Nat.ltb i (length s) then get s i
                                   else if Nat.eqb i (length s)
                                        then mkRS empty_reg empty_caches [] [] [] [] [] Verifying
                                        else dummy_rs) by (intros; apply get_app_cases).
  assert (G1 : forall i, i < length s -> get s0 i = get s i).
  { intros i Li. rewrite G. replace (Nat.ltb i (length s)) with true; auto. symmetry. apply Nat.ltb_lt; auto. }
  assert (B0 : forall i, Bs s0 i = Bs s i).
  { intros i. unfold Bs. rewrite G. destruct (Nat.ltb i (length s)) eqn:Li; auto.
    apply Nat.ltb_ge in Li. rewrite (get_oob s i) by auto. destruct (Nat.eqb i (length s)); reflexivity. }
  destruct (set_bases_ver s0 (length s) bs) as (V & L); auto; try lia.
  - intros i Li. rewrite G. destruct (Nat.ltb i (length s)) eqn:E.
    + apply Al. apply Nat.ltb_lt; auto.
    + apply Nat.ltb_ge in E. replace (Nat.eqb i (length s)) with true; auto.
      symmetry. apply Nat.eqb_eq. lia.
  - apply app_new_ranked; auto.
  - intros x Lx N. assert (Lx' : x < length s) by lia.
    apply (snap_frame s s0 x); auto; try lia; try (rewrite G1; auto; fail).
    + intros i. unfold gen_of. rewrite G. destruct (Nat.ltb i (length s)) eqn:Li; auto.
      apply Nat.ltb_ge in Li. rewrite (get_oob s i) by auto. cbn. lia.
    + intros i. rewrite B0. congruence.
  - split; auto. lia.
Qed.

Lemma VInv_step W call s o : VInv s -> wf_op Verifying (length s) o = true ->
  VInv (fst (step W call s o)) /\ length (fst (step W call s o)) = n_after (length s) o.
Proof.
  intros V Wf.
  destruct o; cbn [step wf_op n_after fst] in *; try rewrite fst_let;
    try (apply Nat.ltb_lt in Wf);
    try (apply with_lookup_ver; auto; fail);
    try (split; auto; fail);
    try discriminate.
  - apply andb_true_iff in Wf. destruct Wf as (Fl & Hb). destruct fl; try discriminate.
    apply new_reg_ver; auto. apply forallb_ltb; auto.
  - apply andb_true_iff in Wf. destruct Wf as (Lr & Hb). apply Nat.ltb_lt in Lr.
    destruct V as (? & ? & Sn). apply set_bases_ver; auto. apply forallb_ltb; auto.
  - apply mutate_ver; auto. intros; apply register_gen.
  - apply mutate_ver; auto. intros; apply unregister_gen.
  - apply mutate_ver; auto. intros; apply subscribe_gen.
  - apply mutate_ver; auto. intros; apply unsubscribe_gen.
  - destruct (setreg_ver s r (rebuild W (rs_reg (get s r))) V Wf) as (V' & L' & _); auto.
    pose proof (rebuild_gen W (rs_reg (get s r))). lia.
Qed.

Lemma VInv_nil : VInv [].
Proof.
  split; [|split].
  - intros i H. cbn in H. lia.
  - intros y b. unfold Bs, get. destruct y; cbn; tauto.
  - intros r H. cbn in H. lia.
Qed.

Lemma VInv_final W call : forall ops s, VInv s -> wf_hist Verifying (length s) ops = true ->
  VInv (final W call s ops).
Proof.
  induction ops as [|o ops IH]; intros s P Wf; cbn [final fold_left]; auto.
  cbn [wf_hist] in Wf. apply andb_true_iff in Wf. destruct Wf as (Wo & Wf).
  destruct (VInv_step W call s o P Wo) as (P' & L'). apply IH; auto. rewrite L'; auto.
Qed.

Lemma VInv_lookup_changed b s r : VInv s -> r < length s -> VInv (lookup_changed b s r).
Proof.
  intros (Al & R & Sn) Lr. destruct (resnap b s s r) as (V & _); auto. congruence.
Qed.

(* ================================================================== Part E: what lookups answer *)

Definition Inv (fl : flavour) (s : sys) : Prop := match fl with Push => PInv s | Verifying => VInv s end.

Lemma Inv_nil fl : Inv fl [].
Proof. destruct fl; [apply PInv_nil|apply VInv_nil]. Qed.

Lemma Inv_step W call fl s o : Inv fl s -> wf_op fl (length s) o = true ->
  Inv fl (fst (step W call s o)) /\ length (fst (step W call s o)) = n_after (length s) o.
Proof. destruct fl; [apply PInv_step|apply VInv_step]. Qed.

Lemma Inv_final W call fl : forall ops s, Inv fl s -> wf_hist fl (length s) ops = true ->
  Inv fl (final W call s ops).
Proof. destruct fl; [apply PInv_final|apply VInv_final]. Qed.

Lemma Inv_ranked fl s : Inv fl s -> ranked (Bs s).
Proof. destruct fl; intros H; apply H. Qed.

Lemma snd_let {A B C} (x : A * B) (g : B -> C) : snd (let '(s', a) := x in (s', g a)) = g (snd x).
Proof. destruct x; reflexivity. Qed.

Lemma with_lookup_snd W {A} s r (f : _ -> _ -> _ -> caches -> caches * A) :
  snd (with_lookup W s r f) =
  snd (f (uncached_lookup W (ro_regs (verify s r) r)) (uncached_lookupAll W (ro_regs (verify s r) r))
         (uncached_subscriptions W (ro_regs (verify s r) r)) (rs_caches (get (verify s r) r))).
Proof.
  unfold with_lookup. cbv zeta.
  destruct (f (uncached_lookup W (ro_regs (verify s r) r)) (uncached_lookupAll W (ro_regs (verify s r) r))
              (uncached_subscriptions W (ro_regs (verify s r) r)) (rs_caches (get (verify s r) r))) as [c' a].
  reflexivity.
Qed.

(* (the registries a lookup from r iterates, once _verify has run) = the current chain *)
Lemma chain_after_verify fl s r : Inv fl s -> r < length s -> ro_regs (verify s r) r = chain_regs s r.
Proof.
  intros I Lr. unfold ro_regs, chain_regs. destruct fl.
  - destruct I as (Al & _ & _ & C). rewrite verify_push by apply Al. rewrite C; auto.
  - destruct (verify_ver s r I Lr) as (_ & L' & Ro & Rg & B' & _). rewrite Ro.
    rewrite (fresh_ro_ext (verify s r) s r L' B'). apply map_ext. intros i. apply Rg.
Qed.

Lemma verify_cache_cases fl s r : Inv fl s -> r < length s ->
  rs_caches (get (verify s r) r) = empty_caches \/ verify s r = s.
Proof.
  intros I Lr. destruct fl.
  - right. apply verify_push. apply I.
  - destruct (verify_ver s r I Lr) as (_ & _ & _ & _ & _ & _ & Ne & Eq).
    destruct (list_eq_dec Nat.eq_dec (gens s (rs_vro (get s r))) (rs_vgen (get s r))); auto.
Qed.

(* ---- the cache layer on a miss *)
Lemma lookup_cold ul c req p n : aget cache_key_eqb (c_cache c) (p, n, ckey_of req) = None ->
  snd (lookup ul c req p (NStr n)) = res_of (ul req p n).
Proof. intros H. unfold lookup. rewrite H. cbn. destruct (ul req p n); reflexivity. Qed.

Lemma lookupAll_cold ua c req p : aget mkey_eqb (c_mcache c) (p, req) = None ->
  snd (lookupAll ua c req p) = ua req p.
Proof. intros H. unfold lookupAll. rewrite H. reflexivity. Qed.

Lemma subscriptions_cold us c req p : aget sckey_eqb (c_scache c) (p, req) = None ->
  snd (subscriptions us c req p) = us req p.
Proof. intros H. unfold subscriptions. rewrite H. reflexivity. Qed.

Section Answers.
  Variable W : world.
  Variable call : value -> list nat -> option nat.

  Lemma step_QLookup s r req p n :
    snd (step W call s (QLookup r req p n)) =
    enc_res_value (snd (lookup (uncached_lookup W (ro_regs (verify s r) r)) (rs_caches (get (verify s r) r)) req p n)).
  Proof. cbn [step]. rewrite snd_let, with_lookup_snd. reflexivity. Qed.

  Lemma step_QLookupAll s r req p :
    snd (step W call s (QLookupAll r req p)) =
    enc_pairs (snd (lookupAll (uncached_lookupAll W (ro_regs (verify s r) r)) (rs_caches (get (verify s r) r)) req p)).
  Proof. cbn [step]. rewrite snd_let, with_lookup_snd. reflexivity. Qed.

  Lemma step_QSubscriptions s r req p :
    snd (step W call s (QSubscriptions r req p)) =
    map vid (snd (subscriptions (uncached_subscriptions W (ro_regs (verify s r) r))
                                (rs_caches (get (verify s r) r)) req p)).
  Proof. cbn [step]. rewrite snd_let, with_lookup_snd. reflexivity. Qed.

  (* a cold cache entry stays cold across _verify *)
  Lemma cold_after_verify fl s r (P : caches -> Prop) : Inv fl s -> r < length s ->
    P empty_caches -> P (rs_caches (get s r)) -> P (rs_caches (get (verify s r) r)).
  Proof.
    intros I Lr P0 Ps. destruct (verify_cache_cases fl s r I Lr) as [->| ->]; auto.
  Qed.

  Lemma lookup_current_chain fl s r req p n : Inv fl s -> r < length s ->
    aget cache_key_eqb (c_cache (rs_caches (get s r))) (p, n, ckey_of req) = None ->
    snd (step W call s (QLookup r req p (NStr n))) =
    enc_res_value (res_of (uncached_lookup W (chain_regs s r) req p n)).
  Proof.
    intros I Lr Cold. rewrite step_QLookup, (chain_after_verify fl s r I Lr), lookup_cold; auto.
    apply (cold_after_verify fl s r (fun c => aget cache_key_eqb (c_cache c) (p, n, ckey_of req) = None)); auto.
  Qed.

  Lemma lookupAll_current_chain fl s r req p : Inv fl s -> r < length s ->
    aget mkey_eqb (c_mcache (rs_caches (get s r))) (p, req) = None ->
    snd (step W call s (QLookupAll r req p)) = enc_pairs (uncached_lookupAll W (chain_regs s r) req p).
  Proof.
    intros I Lr Cold. rewrite step_QLookupAll, (chain_after_verify fl s r I Lr), lookupAll_cold; auto.
    apply (cold_after_verify fl s r (fun c => aget mkey_eqb (c_mcache c) (p, req) = None)); auto.
  Qed.

  Lemma subscriptions_current_chain fl s r req p : Inv fl s -> r < length s ->
    aget sckey_eqb (c_scache (rs_caches (get s r))) (p, req) = None ->
    snd (step W call s (QSubscriptions r req p)) = map vid (uncached_subscriptions W (chain_regs s r) req p).
  Proof.
    intros I Lr Cold. rewrite step_QSubscriptions, (chain_after_verify fl s r I Lr), subscriptions_cold; auto.
    apply (cold_after_verify fl s r (fun c => aget sckey_eqb (c_scache c) (p, req) = None)); auto.
  Qed.

  (* with empty caches all three entry points are the uncached computations over the chain *)
  Lemma answers_when_cleared fl s r : Inv fl s -> r < length s ->
    rs_caches (get (verify s r) r) = empty_caches ->
    (forall req p n, snd (step W call s (QLookup r req p (NStr n))) =
                     enc_res_value (res_of (uncached_lookup W (chain_regs s r) req p n))) /\
    (forall req p, snd (step W call s (QLookupAll r req p)) =
                   enc_pairs (uncached_lookupAll W (chain_regs s r) req p)) /\
    (forall req p, snd (step W call s (QSubscriptions r req p)) =
                   map vid (uncached_subscriptions W (chain_regs s r) req p)).
  Proof.
    intros I Lr E. split; [|split]; intros.
    - rewrite step_QLookup, (chain_after_verify fl s r I Lr), E, lookup_cold; auto.
    - rewrite step_QLookupAll, (chain_after_verify fl s r I Lr), E, lookupAll_cold; auto.
    - rewrite step_QSubscriptions, (chain_after_verify fl s r I Lr), E, subscriptions_cold; auto.
  Qed.
End Answers.

(* ---- right after a change at m, the caches of every registry below m are (or get) emptied *)
Lemma Reach_first B B' m : (forall y, y <> m -> B y = B' y) -> forall x, Reach B x m -> Reach B' x m.
Proof.
  intros E x H. remember m as z eqn:Ez. induction H as [|x b y Hb Hr IH]; [apply Reach_refl|]. subst y.
  destruct (Nat.eq_dec x m) as [->|N]; [apply Reach_refl|].
  rewrite (E x N) in Hb. eapply Reach_step; eauto.
Qed.

Lemma push_cleared s4 m : PInv s4 -> m < length s4 ->
  forall r, Reach (Bs (after_bump s4 m)) r m ->
            rs_caches (get (verify (after_bump s4 m) r) r) = empty_caches.
Proof.
  intros (Al & R & S0 & _) Lm r Rr.
  pose proof (after_bump_skel s4 m Al) as K.
  rewrite verify_push by (apply (skel_allPush _ _ K Al)).
  apply after_bump_empties; auto.
  apply (Reach_ext (Bs (after_bump s4 m)) (Bs s4)); auto.
  intros i. symmetry. apply (graph_eq_Bs _ _ (proj1 K)).
Qed.

Lemma ver_cleared s0 s m : VInv s0 -> VInv s -> length s = length s0 -> m < length s0 ->
  (forall i, i <> m -> get s i = get s0 i) -> gen_of s0 m < gen_of s m ->
  rs_caches (get s m) = empty_caches ->
  forall r, r < length s -> Reach (Bs s) r m -> rs_caches (get (verify s r) r) = empty_caches.
Proof.
  intros V0 V L Lm O G Cm r Lr Rr.
  destruct (Nat.eq_dec r m) as [->|N].
  - destruct (verify_cache_cases Verifying s m V Lr) as [E|E]; auto. rewrite E. auto.
  - destruct (verify_ver s r V Lr) as (_ & _ & _ & _ & _ & _ & Ne & _). apply Ne. intros E.
    destruct V0 as (Al0 & R0 & Sn0). destruct (Sn0 r) as (V1 & V4 & V2 & V3); [lia|].
    rewrite (O r N) in E.
    assert (M : forall i, gen_of s0 i <= gen_of s i).
    { intros i. destruct (Nat.eq_dec i m) as [->|Ni]; [lia|]. unfold gen_of. rewrite O; auto. }
    destruct (gens_sandwich s0 s M _ _ V2 E) as (E0 & Eq).
    assert (Rr0 : Reach (Bs s0) r m).
    { apply (Reach_first (Bs s) (Bs s0) m); auto. intros y Ny. unfold Bs. rewrite O; auto. }
    apply (fresh_ro_mem s0 r m R0) in Rr0; [|lia]. rewrite <- (V3 E0), V1 in Rr0.
    destruct Rr0 as [?|Hm]; [congruence|]. apply Eq in Hm. lia.
Qed.

Lemma set_bases_ver_shape s r bs : rs_flavour (get s r) = Verifying -> r < length s ->
  (forall i, i <> r -> get (set_bases s r bs) i = get s i) /\
  gen_of (set_bases s r bs) r = S (gen_of s r) /\
  rs_caches (get (set_bases s r bs) r) = empty_caches.
Proof.
  intros F Lr. rewrite set_bases_ver_eq; auto.
  set (s4 := upd (visit_ro (upd s r (setb bs)) r) r bump).
  assert (L4 : length s4 = length s) by (unfold s4, visit_ro; rewrite !upd_length; auto).
  assert (G4 : get s4 r = bump (mkRS (rs_reg (get s r)) (rs_caches (get s r)) bs
                                     (fresh_ro (upd s r (setb bs)) r) (rs_subs (get s r)) (rs_vro (get s r))
                                     (rs_vgen (get s r)) (rs_flavour (get s r)))).
  { unfold s4, visit_ro. rewrite get_upd_same by (rewrite !upd_length; auto).
    rewrite get_upd_same by (rewrite upd_length; auto). rewrite get_upd_same by auto. reflexivity. }
  destruct (lookup_changed_ver false s4 r) as (_ & O' & G'); [rewrite G4; cbn; auto|lia|].
  split; [|split].
  - intros i N. rewrite O' by auto. unfold s4, visit_ro. rewrite !get_upd_other; auto.
  - unfold gen_of. rewrite G', G4. reflexivity.
  - rewrite G'. reflexivity.
Qed.

Lemma mutate_ver_shape s r f : rs_flavour (get s r) = Verifying -> r < length s ->
  generation (f (rs_reg (get s r))) <> generation (rs_reg (get s r)) ->
  (forall i, i <> r -> get (mutate s r f) i = get s i) /\
  gen_of (mutate s r f) r = generation (f (rs_reg (get s r))) /\
  rs_caches (get (mutate s r f) r) = empty_caches.
Proof.
  intros F Lr Ng. unfold mutate. apply Nat.eqb_neq in Ng. rewrite Ng.
  set (s4 := set s r _).
  assert (G4 : get s4 r = mkRS (f (rs_reg (get s r))) (rs_caches (get s r)) (rs_bases (get s r)) (rs_ro (get s r))
                               (rs_subs (get s r)) (rs_vro (get s r)) (rs_vgen (get s r)) (rs_flavour (get s r)))
    by (unfold s4; rewrite get_set_same; auto).
  assert (L4 : length s4 = length s) by (unfold s4; rewrite set_length; auto).
  assert (F4 : rs_flavour (get s4 r) = Verifying) by (rewrite G4; cbn; auto).
  rewrite after_bump_ver; auto; try lia.
  destruct (lookup_changed_ver false s4 r F4) as (_ & O' & G'); [lia|].
  split; [|split].
  - intros i N. rewrite O' by auto. unfold s4. rewrite get_set_other; auto.
  - unfold gen_of. rewrite G', G4. reflexivity.
  - rewrite G'. reflexivity.
Qed.

Lemma mutate_push_shape s r f : PInv s -> r < length s ->
  generation (f (rs_reg (get s r))) <> generation (rs_reg (get s r)) ->
  exists s4, mutate s r f = after_bump s4 r /\ PInv s4 /\ length s4 = length s.
Proof.
  intros P Lr Ng. unfold mutate. apply Nat.eqb_neq in Ng. rewrite Ng.
  eexists. split; [reflexivity|]. split.
  - eapply PInv_skel; [|exact P]. apply (set_reg_skel s r (f (rs_reg (get s r)))).
  - apply set_length.
Qed.

Section Cleared.
  Variable W : world.
  Variable call : value -> list nat -> option nat.

  Lemma mutate_cleared fl s0 m f : Inv fl s0 -> m < length s0 ->
    (forall g, generation g <= generation (f g)) ->
    changed_gen s0 m f = Some m ->
    forall r, r < length (mutate s0 m f) -> Reach (Bs (mutate s0 m f)) r m ->
              rs_caches (get (verify (mutate s0 m f) r) r) = empty_caches.
  Proof.
    intros I Lm Mf Ch. unfold changed_gen in Ch.
    destruct (Nat.eqb (generation (f (rs_reg (get s0 m)))) (generation (rs_reg (get s0 m)))) eqn:E;
      [discriminate|]. apply Nat.eqb_neq in E. destruct fl.
    - destruct (mutate_push_shape s0 m f I Lm E) as (s4 & -> & P4 & L4). intros r _.
      apply push_cleared; auto. lia.
    - pose proof I as (Al & _). destruct (mutate_ver s0 m f I Lm Mf) as (V' & L').
      destruct (mutate_ver_shape s0 m f (Al m Lm) Lm E) as (O & G & Cm).
      apply (ver_cleared s0 (mutate s0 m f) m); auto.
      rewrite G. specialize (Mf (rs_reg (get s0 m))). unfold gen_of. lia.
  Qed.

  Lemma cleared_after_change fl s0 o m : Inv fl s0 -> wf_op fl (length s0) o = true ->
    bump_target W s0 o = Some m ->
    forall r, r < length (fst (step W call s0 o)) -> Reach (Bs (fst (step W call s0 o))) r m ->
              rs_caches (get (verify (fst (step W call s0 o)) r) r) = empty_caches.
  Proof.
    intros I Wf Bt.
    destruct o; cbn [bump_target] in Bt; try discriminate; cbn [step fst wf_op] in *.
    - (* __bases__ assignment *)
      inversion Bt; subst r. apply andb_true_iff in Wf. destruct Wf as (Lm & Hb).
      apply Nat.ltb_lt in Lm. pose proof (forallb_ltb _ _ Hb) as Hbs. destruct fl.
      + destruct I as (Al & R & S0 & C).
        destruct (set_bases_push_shape s0 m bs) as (s4 & -> & P4 & L4); auto.
        { intros x Lx _. apply C; auto. }
        intros r _. apply push_cleared; auto. lia.
      + pose proof I as (Al & R & Sn).
        destruct (set_bases_ver s0 m bs) as (V' & L'); auto.
        destruct (set_bases_ver_shape s0 m bs (Al m Lm) Lm) as (O & G & Cm).
        apply (ver_cleared s0 (set_bases s0 m bs) m); auto. lia.
    - apply Nat.ltb_lt in Wf. pose proof Bt as Bt'. unfold changed_gen in Bt'.
      destruct (Nat.eqb _ _) in Bt'; inversion Bt'; subst r.
      apply (mutate_cleared fl s0 m (fun g => register W g req p n v)); auto. intros; apply register_gen.
    - apply Nat.ltb_lt in Wf. pose proof Bt as Bt'. unfold changed_gen in Bt'.
      destruct (Nat.eqb _ _) in Bt'; inversion Bt'; subst r.
      apply (mutate_cleared fl s0 m (fun g => unregister W g req p n v)); auto. intros; apply unregister_gen.
    - apply Nat.ltb_lt in Wf. pose proof Bt as Bt'. unfold changed_gen in Bt'.
      destruct (Nat.eqb _ _) in Bt'; inversion Bt'; subst r.
      apply (mutate_cleared fl s0 m (fun g => subscribe W g req p v)); auto. intros; apply subscribe_gen.
    - apply Nat.ltb_lt in Wf. pose proof Bt as Bt'. unfold changed_gen in Bt'.
      destruct (Nat.eqb _ _) in Bt'; inversion Bt'; subst r.
      apply (mutate_cleared fl s0 m (fun g => unsubscribe W g req p v)); auto. intros; apply unsubscribe_gen.
    - (* rebuild() *)
      inversion Bt; subst r. apply Nat.ltb_lt in Wf. destruct fl.
      + intros r _. apply push_cleared; [|rewrite set_length; auto].
        eapply PInv_skel; [|exact I]. apply (set_reg_skel s0 m (rebuild W (rs_reg (get s0 m)))).
      + pose proof (rebuild_gen W (rs_reg (get s0 m))) as Gn.
        destruct (setreg_ver s0 m (rebuild W (rs_reg (get s0 m))) I Wf) as (V' & L' & O & G & Cm); [lia|].
        apply (ver_cleared s0 _ m); auto. rewrite G. unfold gen_of. lia.
  Qed.

  (* the answers right after a change at m, from any registry below m (warm caches or not) *)
  Lemma answers_after_change fl s0 o m : Inv fl s0 -> wf_op fl (length s0) o = true ->
    bump_target W s0 o = Some m ->
    forall r, r < length (fst (step W call s0 o)) -> Reach (Bs (fst (step W call s0 o))) r m ->
    (forall req p n, snd (step W call (fst (step W call s0 o)) (QLookup r req p (NStr n))) =
                     enc_res_value (res_of (uncached_lookup W (chain_regs (fst (step W call s0 o)) r) req p n))) /\
    (forall req p, snd (step W call (fst (step W call s0 o)) (QLookupAll r req p)) =
                   enc_pairs (uncached_lookupAll W (chain_regs (fst (step W call s0 o)) r) req p)) /\
    (forall req p, snd (step W call (fst (step W call s0 o)) (QSubscriptions r req p)) =
                   map vid (uncached_subscriptions W (chain_regs (fst (step W call s0 o)) r) req p)).
  Proof.
    intros I Wf Bt r Lr Rr. destruct (Inv_step W call fl s0 o I Wf) as (I' & _).
    apply (answers_when_cleared W call fl); auto.
    apply (cleared_after_change fl s0 o m); auto.
  Qed.
End Cleared.

(* ================================================================== the code before the fix
   (for the Examples of Properties/C06.v only): _setBases recomputed ``ro`` of the registry whose
   __bases__ was assigned and of nobody else — no recursion into the sub-registries. *)
Definition set_bases_old (s : sys) (r : nat) (bs : list nat) : sys :=
  match rs_flavour (get s r) with
  | Push =>
      let s2 := upd (book (rs_bases (get s r)) s r bs) r (setb bs) in
      after_bump (upd (refresh_ro 0 s2 r) r bump) r
  | Verifying => set_bases s r bs
  end.

Definition step_old (W : world) (call : value -> list nat -> option nat) (s : sys) (o : rop)
  : sys * list nat :=
  match o with
  | OSetRegBases r bs => (set_bases_old s r bs, [])
  | _ => step W call s o
  end.

Fixpoint run_old (W : world) (call : value -> list nat -> option nat) (s : sys) (ops : list rop)
  : list (list nat) :=
  match ops with
  | [] => []
  | o :: ops' => let '(s', a) := step_old W call s o in a :: run_old W call s' ops'
  end.

Definition final_old (W : world) (call : value -> list nat -> option nat) (s : sys) (ops : list rop) : sys :=
  fold_left (fun s o => fst (step_old W call s o)) ops s.

(* ================================================================== statements over histories
   (quoted verbatim by Properties/C06.v) *)
Section Hist.
  Variable W : world.
  Variable call : value -> list nat -> option nat.
  Notation fin ops := (final W call [] ops).

  Lemma final_app s ops o : final W call s (ops ++ [o]) = fst (step W call (final W call s ops) o).
  Proof. unfold final. rewrite fold_left_app. reflexivity. Qed.

  Lemma wf_hist_app fl : forall ops s o, Inv fl s -> wf_hist fl (length s) (ops ++ [o]) = true ->
    Inv fl (final W call s ops) /\ wf_op fl (length (final W call s ops)) o = true.
  Proof.
    induction ops as [|a ops IH]; intros s o I H; cbn [app wf_hist final fold_left] in *.
    - apply andb_true_iff in H. destruct H; auto.
    - apply andb_true_iff in H. destruct H as (Wa & H).
      destruct (Inv_step W call fl s a I Wa) as (I' & L'). apply IH; auto. rewrite L'; auto.
  Qed.

  Lemma hist_Inv fl ops : wf_hist fl 0 ops = true -> Inv fl (fin ops).
  Proof. intros H. apply Inv_final; auto. apply Inv_nil. Qed.

  Lemma push_ro_coherent_hist ops : wf_hist Push 0 ops = true ->
    forall r, r < length (fin ops) -> rs_ro (get (fin ops) r) = fresh_ro (fin ops) r.
  Proof. intros H. apply (hist_Inv Push ops H). Qed.

  Lemma push_subregistries_mirror_bases_hist ops : wf_hist Push 0 ops = true ->
    forall r b, In b (rs_bases (get (fin ops) r)) -> In r (rs_subs (get (fin ops) b)) /\ b < r.
  Proof.
    intros H r b Hb. destruct (hist_Inv Push ops H) as (_ & R & (_ & S2) & _).
    split; [apply S2; exact Hb | apply R; exact Hb].
  Qed.

  Lemma verifying_ro_coherent_after_verify_hist ops r : wf_hist Verifying 0 ops = true ->
    r < length (fin ops) ->
    rs_ro (get (verify (fin ops) r) r) = fresh_ro (verify (fin ops) r) r /\
    fresh_ro (verify (fin ops) r) r = fresh_ro (fin ops) r /\
    (forall i, rs_reg (get (verify (fin ops) r) i) = rs_reg (get (fin ops) i)).
  Proof.
    intros H L. pose proof (hist_Inv Verifying ops H) as V.
    destruct (verify_ver _ r V L) as (_ & L' & Ro & Rg & B' & _).
    split; [exact Ro|]. split; [apply fresh_ro_ext; auto | exact Rg].
  Qed.

  Lemma verifying_snapshot_valid_hist ops r : wf_hist Verifying 0 ops = true -> r < length (fin ops) ->
    rs_ro (get (fin ops) r) = r :: rs_vro (get (fin ops) r) /\
    Forall2 le (rs_vgen (get (fin ops) r)) (gens (fin ops) (rs_vro (get (fin ops) r))) /\
    (gens (fin ops) (rs_vro (get (fin ops) r)) = rs_vgen (get (fin ops) r) ->
     rs_ro (get (fin ops) r) = fresh_ro (fin ops) r).
  Proof.
    intros H L. destruct (hist_Inv Verifying ops H) as (_ & _ & Sn).
    destruct (Sn r L) as (V1 & _ & V2 & V3). auto.
  Qed.

  Lemma current_chain_is_reachable_set_hist fl ops r : wf_hist fl 0 ops = true -> r < length (fin ops) ->
    (exists t, fresh_ro (fin ops) r = r :: t) /\
    (forall y, In y (fresh_ro (fin ops) r) <-> Reach (Bs (fin ops)) r y).
  Proof.
    intros H L. pose proof (hist_Inv fl ops H) as I. pose proof (Inv_ranked fl _ I) as R.
    split; [apply fresh_ro_head; auto|]. intros y. apply fresh_ro_mem; auto.
  Qed.

  Lemma lookup_uses_current_chain_hist fl ops r req p n : wf_hist fl 0 ops = true -> r < length (fin ops) ->
    aget cache_key_eqb (c_cache (rs_caches (get (fin ops) r))) (p, n, ckey_of req) = None ->
    snd (step W call (fin ops) (QLookup r req p (NStr n))) =
    enc_res_value (res_of (uncached_lookup W (chain_regs (fin ops) r) req p n)).
  Proof. intros H L. apply (lookup_current_chain W call fl); auto. apply hist_Inv; auto. Qed.

  Lemma lookupAll_uses_current_chain_hist fl ops r req p : wf_hist fl 0 ops = true -> r < length (fin ops) ->
    aget mkey_eqb (c_mcache (rs_caches (get (fin ops) r))) (p, req) = None ->
    snd (step W call (fin ops) (QLookupAll r req p)) =
    enc_pairs (uncached_lookupAll W (chain_regs (fin ops) r) req p).
  Proof. intros H L. apply (lookupAll_current_chain W call fl); auto. apply hist_Inv; auto. Qed.

  Lemma subscriptions_uses_current_chain_hist fl ops r req p : wf_hist fl 0 ops = true -> r < length (fin ops) ->
    aget sckey_eqb (c_scache (rs_caches (get (fin ops) r))) (p, req) = None ->
    snd (step W call (fin ops) (QSubscriptions r req p)) =
    map vid (uncached_subscriptions W (chain_regs (fin ops) r) req p).
  Proof. intros H L. apply (subscriptions_current_chain W call fl); auto. apply hist_Inv; auto. Qed.

  Lemma change_empties_caches_below_hist fl ops o m r : wf_hist fl 0 (ops ++ [o]) = true ->
    bump_target W (fin ops) o = Some m ->
    r < length (fin (ops ++ [o])) -> Reach (Bs (fin (ops ++ [o]))) r m ->
    rs_caches (get (verify (fin (ops ++ [o])) r) r) = empty_caches.
  Proof.
    intros H Bt. rewrite final_app.
    destruct (wf_hist_app fl ops [] o (Inv_nil fl) H) as (I & Wo).
    apply (cleared_after_change W call fl); auto.
  Qed.

  Lemma answers_after_change_hist fl ops o m r : wf_hist fl 0 (ops ++ [o]) = true ->
    bump_target W (fin ops) o = Some m ->
    r < length (fin (ops ++ [o])) -> Reach (Bs (fin (ops ++ [o]))) r m ->
    (forall req p n, snd (step W call (fin (ops ++ [o])) (QLookup r req p (NStr n))) =
                     enc_res_value (res_of (uncached_lookup W (chain_regs (fin (ops ++ [o])) r) req p n))) /\
    (forall req p, snd (step W call (fin (ops ++ [o])) (QLookupAll r req p)) =
                   enc_pairs (uncached_lookupAll W (chain_regs (fin (ops ++ [o])) r) req p)) /\
    (forall req p, snd (step W call (fin (ops ++ [o])) (QSubscriptions r req p)) =
                   map vid (uncached_subscriptions W (chain_regs (fin (ops ++ [o])) r) req p)).
  Proof.
    intros H Bt. rewrite final_app.
    destruct (wf_hist_app fl ops [] o (Inv_nil fl) H) as (I & Wo).
    apply (answers_after_change W call fl); auto.
  Qed.

  (* push flavour: the caches are already empty in the state itself (no lookup needed) *)
  Lemma push_change_empties_caches_hist ops o m r : wf_hist Push 0 (ops ++ [o]) = true ->
    bump_target W (fin ops) o = Some m -> r < length (fin (ops ++ [o])) ->
    Reach (Bs (fin (ops ++ [o]))) r m -> rs_caches (get (fin (ops ++ [o])) r) = empty_caches.
  Proof.
    intros H Bt L Rr. pose proof (change_empties_caches_below_hist Push ops o m r H Bt L Rr) as E.
    rewrite verify_push in E; auto. apply (hist_Inv Push _ H).
  Qed.

  (* verifying flavour: _verify empties the cache whenever a generation of the snapshot differs *)
  Lemma verifying_verify_empties_hist ops r : wf_hist Verifying 0 ops = true -> r < length (fin ops) ->
    gens (fin ops) (rs_vro (get (fin ops) r)) <> rs_vgen (get (fin ops) r) ->
    rs_caches (get (verify (fin ops) r) r) = empty_caches.
  Proof.
    intros H L. destruct (verify_ver _ r (hist_Inv Verifying ops H) L) as (_ & _ & _ & _ & _ & _ & Ne & _). exact Ne.
  Qed.
End Hist.

(* ================================================================== generations only grow
   (for ALL system states: no invariant is needed) *)
Definition regs_eq (s s' : sys) : Prop := forall i, rs_reg (get s i) = rs_reg (get s' i).
Definition gen_le (s s' : sys) : Prop := forall i, gen_of s i <= gen_of s' i.

Lemma regs_eq_refl s : regs_eq s s.
Proof. intros i; reflexivity. Qed.
Lemma regs_eq_trans a b c : regs_eq a b -> regs_eq b c -> regs_eq a c.
Proof. intros H1 H2 i. rewrite H1. apply H2. Qed.
Lemma regs_eq_gen_le s s' : regs_eq s s' -> gen_le s s'.
Proof. intros H i. unfold gen_of. rewrite H. auto. Qed.
Lemma gen_le_refl s : gen_le s s.
Proof. intros i; auto. Qed.
Lemma gen_le_trans a b c : gen_le a b -> gen_le b c -> gen_le a c.
Proof. intros H1 H2 i. specialize (H1 i). specialize (H2 i). lia. Qed.

Lemma upd_regs_eq s r f : (forall x, rs_reg (f x) = rs_reg x) -> regs_eq s (upd s r f).
Proof.
  intros H i. rewrite get_upd. destruct (Nat.eqb i r && Nat.ltb r (length s)) eqn:E; auto.
  apply andb_true_iff in E. destruct E as (E & _). apply Nat.eqb_eq in E. subst. rewrite H. reflexivity.
Qed.

Lemma set_regs_eq s r x : rs_reg x = rs_reg (get s r) -> regs_eq s (set s r x).
Proof.
  intros H i. rewrite get_set. destruct (Nat.eqb i r && Nat.ltb r (length s)) eqn:E; auto.
  apply andb_true_iff in E. destruct E as (E & _). apply Nat.eqb_eq in E. subst. auto.
Qed.

Lemma refresh_ro_regs : forall fuel s r, regs_eq s (refresh_ro fuel s r).
Proof.
  induction fuel as [|f IH]; intros s r; cbn [refresh_ro]; [apply set_regs_eq; reflexivity|].
  destruct (rs_flavour (get s r)); [|apply set_regs_eq; reflexivity].
  apply (fold_left_inv (fun a => regs_eq s a)); [apply set_regs_eq; reflexivity|].
  intros a b Ha _. eapply regs_eq_trans; eauto.
Qed.

Lemma lookup_changed_regs b s r : regs_eq s (lookup_changed b s r).
Proof.
  unfold lookup_changed. destruct (rs_flavour (get s r)); [apply set_regs_eq; reflexivity|].
  eapply regs_eq_trans; [apply (refresh_ro_regs 0 s r)|]. apply set_regs_eq. reflexivity.
Qed.

Lemma bump_gen_le s r : gen_le s (upd s r bump).
Proof.
  intros i. unfold gen_of. rewrite get_upd. destruct (Nat.eqb i r && Nat.ltb r (length s)) eqn:E; auto.
  apply andb_true_iff in E. destruct E as (E & _). apply Nat.eqb_eq in E. subst. cbn. lia.
Qed.

Lemma sub_changed_gen_le : forall fuel s r, gen_le s (sub_changed fuel s r).
Proof.
  assert (V : forall s r, gen_le s (lookup_changed false (upd s r bump) r)).
  { intros s r. eapply gen_le_trans; [apply bump_gen_le|]. apply regs_eq_gen_le, lookup_changed_regs. }
  induction fuel as [|f IH]; intros s r; cbn [sub_changed]; auto.
  destruct (rs_flavour (get (lookup_changed false (upd s r bump) r) r)); auto.
  apply (fold_left_inv (fun a => gen_le s a)); auto.
  intros a b Ha _. eapply gen_le_trans; eauto.
Qed.

Lemma after_bump_gen_le s r : gen_le s (after_bump s r).
Proof.
  unfold after_bump.
  assert (V : gen_le s (lookup_changed false s r)) by apply regs_eq_gen_le, lookup_changed_regs.
  destruct (rs_flavour (get (lookup_changed false s r) r)); auto.
  apply (fold_left_inv (fun a => gen_le s a)); auto.
  intros a b Ha _. eapply gen_le_trans; eauto. apply sub_changed_gen_le.
Qed.

(* the common tail of _setBases *)
Lemma set_bases_tail_gen (s s1 : sys) r bs : regs_eq s s1 -> length s1 = length s ->
  let s' := after_bump (upd (refresh_ro (length s)
                               (upd s1 r (fun y => mkRS (rs_reg y) (rs_caches y) bs (rs_ro y) (rs_subs y) (rs_vro y)
                                                        (rs_vgen y) (rs_flavour y))) r) r bump) r in
  gen_le s s' /\ (r < length s -> gen_of s r < gen_of s' r).
Proof.
  intros R1 L1 s'.
  set (s2 := upd s1 r _) in *. set (s3 := refresh_ro (length s) s2 r) in *.
  assert (R3 : regs_eq s s3).
  { eapply regs_eq_trans; [exact R1|]. eapply regs_eq_trans; [|apply refresh_ro_regs].
    apply upd_regs_eq. reflexivity. }
  assert (L3 : length s3 = length s).
  { unfold s3. destruct (graph_eq_refl s2) as (_ & _).
    assert (forall f (t : sys) x, length (refresh_ro f t x) = length t) as RL.
    { induction f as [|f IH]; intros t x; cbn [refresh_ro]; [apply set_length|].
      destruct (rs_flavour (get t x)); [|apply set_length].
      apply (fold_left_inv (fun a => length a = length t)); [apply set_length|].
      intros a b Ha _. rewrite IH; auto. }
    rewrite RL. unfold s2. rewrite upd_length. auto. }
  split.
  - eapply gen_le_trans; [apply regs_eq_gen_le, R3|]. eapply gen_le_trans; [apply bump_gen_le|].
    apply after_bump_gen_le.
  - intros Lr. pose proof (after_bump_gen_le (upd s3 r bump) r r) as M. fold s' in M.
    unfold gen_of in *. rewrite get_upd_same in M by lia. cbn in M. rewrite <- R3 in M. lia.
Qed.

Lemma set_bases_gen s r bs :
  gen_le s (set_bases s r bs) /\ (r < length s -> gen_of s r < gen_of (set_bases s r bs) r).
Proof.
  unfold set_bases. cbv zeta. apply set_bases_tail_gen.
  - destruct (rs_flavour (get s r)); [|apply regs_eq_refl].
    apply (fold_left_inv (fun a => regs_eq s a)).
    + apply (fold_left_inv (fun a => regs_eq s a)); [apply regs_eq_refl|].
      intros a b Ha _. destruct (mem b bs); auto. eapply regs_eq_trans; eauto. apply upd_regs_eq. reflexivity.
    + intros a b Ha _. destruct (mem b (rs_bases (get s r))); auto.
      eapply regs_eq_trans; eauto. apply upd_regs_eq. reflexivity.
  - destruct (rs_flavour (get s r)); auto.
    apply (fold_left_inv (fun a => length a = length s)).
    + apply (fold_left_inv (fun a => length a = length s)); auto.
      intros a b Ha _. destruct (mem b bs); auto. rewrite upd_length; auto.
    + intros a b Ha _. destruct (mem b (rs_bases (get s r))); auto. rewrite upd_length; auto.
Qed.

Lemma setreg_gen s r g' : generation (rs_reg (get s r)) <= generation g' ->
  let s' := after_bump (set s r (mkRS g' (rs_caches (get s r)) (rs_bases (get s r)) (rs_ro (get s r))
                                      (rs_subs (get s r)) (rs_vro (get s r)) (rs_vgen (get s r))
                                      (rs_flavour (get s r)))) r in
  gen_le s s' /\ (r < length s -> generation g' <= gen_of s' r).
Proof.
  intros G s'. set (s4 := set s r _) in *.
  assert (M4 : gen_le s s4).
  { intros i. unfold gen_of, s4. rewrite get_set. destruct (Nat.eqb i r && Nat.ltb r (length s)) eqn:E; auto.
    apply andb_true_iff in E. destruct E as (E & _). apply Nat.eqb_eq in E. subst. cbn. auto. }
  split.
  - eapply gen_le_trans; [exact M4|]. apply after_bump_gen_le.
  - intros Lr. pose proof (after_bump_gen_le s4 r r) as M. fold s' in M.
    unfold gen_of in *. unfold s4 in M at 1. rewrite get_set_same in M by auto. cbn in M. auto.
Qed.

Lemma mutate_gen s r f : (forall g, generation g <= generation (f g)) ->
  gen_le s (mutate s r f) /\ (r < length s -> changed_gen s r f = Some r -> gen_of s r < gen_of (mutate s r f) r).
Proof.
  intros Mf. unfold mutate, changed_gen.
  destruct (Nat.eqb (generation (f (rs_reg (get s r)))) (generation (rs_reg (get s r)))) eqn:E.
  - split; [apply gen_le_refl|]. discriminate.
  - apply Nat.eqb_neq in E. destruct (setreg_gen s r (f (rs_reg (get s r))) (Mf _)) as (M & S).
    split; auto. intros Lr _. specialize (S Lr). specialize (Mf (rs_reg (get s r))). unfold gen_of in *. lia.
Qed.

Lemma new_reg_gen s fl bs : gen_le s (new_reg s fl bs).
Proof.
  unfold new_reg. eapply gen_le_trans; [|apply set_bases_gen].
  intros i. unfold gen_of. rewrite get_app_cases. destruct (Nat.ltb i (length s)) eqn:L; auto.
  apply Nat.ltb_ge in L. rewrite get_oob by auto. cbn. lia.
Qed.

Lemma verify_regs s r : regs_eq s (verify s r).
Proof.
  unfold verify. destruct (rs_flavour (get s r)); [apply regs_eq_refl|].
  destruct (lspec_eqb _ _); [apply regs_eq_refl | apply lookup_changed_regs].
Qed.

Lemma with_lookup_gen_le W {A} s r (f : _ -> _ -> _ -> caches -> caches * A) :
  gen_le s (fst (with_lookup W s r f)).
Proof.
  destruct (with_lookup_fst W s r f) as (c' & ->). apply regs_eq_gen_le.
  eapply regs_eq_trans; [apply verify_regs|]. apply upd_regs_eq. reflexivity.
Qed.

(* every operation: no generation ever decreases, and the registry the operation changes
   ([bump_target]) gets a strictly larger one — rebuild() included *)
Lemma step_gen W call fl s o : wf_op fl (length s) o = true ->
  gen_le s (fst (step W call s o)) /\
  (forall m, bump_target W s o = Some m -> gen_of s m < gen_of (fst (step W call s o)) m).
Proof.
  intros Wf.
  assert (MU : forall r f, Nat.ltb r (length s) = true -> (forall g, generation g <= generation (f g)) ->
                           gen_le s (mutate s r f) /\
                           (forall m, changed_gen s r f = Some m -> gen_of s m < gen_of (mutate s r f) m)).
  { intros r f Lr Mf. apply Nat.ltb_lt in Lr. destruct (mutate_gen s r f Mf) as (M & S). split; auto.
    intros m Hm. assert (m = r).
    { unfold changed_gen in Hm. destruct (Nat.eqb _ _) in Hm; inversion Hm; auto. }
    subst m. auto. }
  destruct o; cbn [step wf_op fst bump_target] in *; try rewrite fst_let;
    try (split; [first [apply with_lookup_gen_le | apply gen_le_refl]|discriminate]; fail).
  - split; [apply new_reg_gen|discriminate].
  - apply andb_true_iff in Wf. destruct Wf as (Lr & _). apply Nat.ltb_lt in Lr.
    destruct (set_bases_gen s r bs) as (M & S). split; auto. intros m Hm. inversion Hm; subst. auto.
  - apply MU; auto. intros; apply register_gen.
  - apply MU; auto. intros; apply unregister_gen.
  - apply MU; auto. intros; apply subscribe_gen.
  - apply MU; auto. intros; apply unsubscribe_gen.
  - apply Nat.ltb_lt in Wf. pose proof (rebuild_gen W (rs_reg (get s r))) as G.
    destruct (setreg_gen s r (rebuild W (rs_reg (get s r)))) as (M & S); [lia|]. split; auto.
    intros m Hm. inversion Hm; subst. specialize (S Wf). unfold gen_of in *. lia.
Qed.

Lemma generations_strictly_increase_hist W call fl ops o : wf_hist fl 0 (ops ++ [o]) = true ->
  (forall i, generation (rs_reg (get (final W call [] ops) i)) <=
             generation (rs_reg (get (final W call [] (ops ++ [o])) i))) /\
  (forall m, bump_target W (final W call [] ops) o = Some m ->
             generation (rs_reg (get (final W call [] ops) m)) <
             generation (rs_reg (get (final W call [] (ops ++ [o])) m))).
Proof.
  intros H. rewrite final_app. destruct (wf_hist_app W call fl ops [] o (Inv_nil fl) H) as (_ & Wo).
  apply (step_gen W call fl); auto.
Qed.
