(* The GENERATED transcription of verify.py (Gen/VerifyKernel.v: _verify_element, _verify,
   verifyClass, verifyObject, fromMethod; re-translated on every run) computes exactly what the
   hand-written model Model/Verify.v computes, for all inputs.  The proofs are exhaustive case
   analyses over the finite vocabulary followed by computation, so they survive refactorings of
   the source that keep its meaning and fail when a branch, an argument order or a constant
   changes. *)
From Coq Require Import List Arith Bool Lia.
Import ListNotations.
From ZI Require Import Spec.Binds Model.Verify Gen.Incompat Gen.VerifyKernel.

Lemma gen_from_method_eq : forall raw, gen_from_method raw = from_method raw.
Proof. intros raw. reflexivity. Qed.

Lemma gen_default_imlevel_eq : gen_from_function_default_imlevel = 0.
Proof. reflexivity. Qed.

Lemma gen_verify_element_eq : forall vt cit e,
  gen_verify_element vt cit e = verify_element incompat vt cit e.
Proof.
  intros vt cit [[n d] a].
  unfold gen_verify_element, verify_element, check_sigs, gen_from_method, from_method.
  destruct d as [|s], a, vt, cit;
    cbv beta iota zeta delta [vtype_is_c vtype_is_o desc_is_method desc_sig getattr_raises
                              attr_ismethoddescriptor attr_isbuiltin attr_is_FunctionType attr_is_MethodTypes
                              attr_func_is_FunctionType attr_is_property attr_callable attr_raw
                              andb orb negb];
    try reflexivity;
    repeat match goal with |- context [incompat ?x ?y] => destruct (incompat x y) end; reflexivity.
Qed.

Lemma collect_spec (f : elem -> option err) l acc : collect f l acc = acc ++ filter_map f l.
Proof.
  unfold collect. revert acc. induction l as [|x l IH]; intros acc; cbn [fold_left filter_map].
  - symmetry. apply app_nil_r.
  - rewrite IH. destruct (f x); [rewrite <- app_assoc|]; reflexivity.
Qed.

Lemma filter_map_ext {A B} (f g : A -> option B) l : (forall x, f x = g x) -> filter_map f l = filter_map g l.
Proof. intros H. induction l as [|x l IH]; cbn; [reflexivity|]. rewrite H, IH. reflexivity. Qed.

Lemma gen_verify_eq : forall vt tentative implemented_by provided_by cit elems,
  gen_verify vt tentative implemented_by provided_by cit elems
  = verify incompat vt tentative (match vt with VClass => implemented_by | VObject => provided_by end) cit elems.
Proof.
  intros vt tent ib pb cit elems.
  unfold gen_verify, verify, verify_errors. cbv zeta.
  rewrite !collect_spec.
  rewrite !(filter_map_ext _ _ elems (gen_verify_element_eq vt cit)).
  set (fm := filter_map (verify_element incompat vt cit) elems).
  destruct fm as [|x [|y l]], vt, tent, ib, pb; reflexivity.
Qed.

Lemma gen_wrappers_eq : forall tentative implemented_by provided_by cit elems,
  gen_verifyClass tentative implemented_by provided_by cit elems
  = verify incompat VClass tentative implemented_by cit elems /\
  gen_verifyObject tentative implemented_by provided_by cit elems
  = verify incompat VObject tentative provided_by cit elems.
Proof.
  intros. unfold gen_verifyClass, gen_verifyObject. rewrite !gen_verify_eq. split; reflexivity.
Qed.
