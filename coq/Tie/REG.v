(* fidelity test of the shared registry model (not a property): model answers = implementation *)
From ZI Require Export Tie.RegCommon.
Definition case_t := hist_case.
Definition model_out := hist_model_out.
Definition check_model := hist_check_model.
Definition check_spec (c : case_t) : bool := true.
