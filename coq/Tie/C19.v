(* Tie for C19.  One case = a world (interface DAG, class DAG, instances with direct
   declarations), the real __mro__ of every class as CPython reported it, a history
   (declarations on any class at any time, providedBy / implementedBy on instances and on
   super(C, ob) proxies, registrations, adaptations) and what the implementation answered for
   every operation, plus, for providedBy queries, the set { I | I.providedBy(arg) }.

   check_model : the world is well formed, Model/Super.v's C3 MRO of every class equals the
                 reported __mro__, and the model's history gives exactly the answers (identity
                 of synthesized specifications compared up to first-appearance renumbering).
   check_spec  : the answers satisfy the property statement, computed WITHOUT the model: the
                 declaration history is replayed into a per-class (declared set, inherits?)
                 table, contents are recomputed from scratch after every operation by a table
                 fill in class order with closure iteration over the interface graph, the
                 remainder of the MRO is cut out of the REPORTED __mro__, and
                   providedBy(super(C, ob)) = implementedBy(super(C, ob)) = I.providedBy(...)
                     = union of the contents of the classes strictly after C;
                   an adaptation ran exactly the registered factory whose required interfaces
                     lie in those contents (none -> default) and passed the instance itself
                     (never the proxy) to it.
                 No cache, no synthesized specification, no notification appears there. *)
From Coq Require Import List Arith Bool.
Import ListNotations.
From ZI Require Export Lib.Util Model.Ro Model.Adapter Model.Lookup Model.Super.
From ZI Require Model.RegSys Tie.RegCommon.

(* use_c, world, reported mros, history, answers, I.providedBy sets *)
(* a step of a tie history: an operation of the model, or a second look at the specification object
   that operation number i returned earlier and the test has been HOLDING since ("held": its content
   now; a specification handed out for a proxy stays a live dependent of the class specifications) *)
Inductive top := TOp (o : op) | THeld (i : nat).

Definition decl_case :=
  (bool * env * list (list cls) * list top * list (list nat) * list (option (list nat)))%type.

(* the model's history; [hist] = the model's own answers so far (un-renumbered identities) *)
Fixpoint trun (uc : bool) (E : env) (st : state) (hist : list (list nat)) (ops : list top) : list (list nat) :=
  match ops with
  | [] => []
  | TOp o :: r => let '(st', a) := step uc E st o in a :: trun uc E st' (hist ++ [a]) r
  | THeld i :: r =>
      let a := match nth i hist [] with
               | 1 :: k :: id :: _ => obs_ref E st (Some (ref_of (4 * id + k)))
               | _ => [0]
               end in
      a :: trun uc E st (hist ++ [a]) r
  end.

(* a second stream runs registry histories over a STATIC world that contains super proxies through
   the shared ordered registry model (Model/Adapter.v + Model/Lookup.v + Model/RegSys.v, world
   rebuilt from the observed __bases__ of every specification incl. the synthesized ones) *)
Inductive case_t :=
| CDecl (c : decl_case)
| CReg (h : RegCommon.hist_case).

(* ---- model side *)
Fixpoint renumber (seen : list nat) (l : list (list nat)) : list (list nat) :=
  match l with
  | [] => []
  | a :: t =>
      match a with
      | 1 :: 0 :: id :: rest =>
          match index_of id seen with
          | Some k => (1 :: 0 :: k :: rest) :: renumber seen t
          | None => (1 :: 0 :: length seen :: rest) :: renumber (seen ++ [id]) t
          end
      | _ => a :: renumber seen t
      end
  end.

Definition model_mros (E : env) : list (option (list cls)) :=
  map (mro_of E) (seq 0 (length (e_cg E))).

Definition model_out (c : case_t) : list (option (list cls)) * list (list nat) :=
  match c with
  | CDecl (uc, E, _, ops, _, _) => (model_mros E, renumber [] (trun uc E init [] ops))
  | CReg h => ([], RegCommon.hist_model_out h)
  end.

(* I.providedBy(x) is "I in providedBy(x)._implied": the content part of the answer *)
Definition ip_ok (a : list nat) (ip : option (list nat)) : bool :=
  match ip with
  | None => true
  | Some l => match a with 1 :: _ :: _ :: content => lnat_eqb content l | _ => false end
  end.

Fixpoint all2 {A B} (f : A -> B -> bool) (l : list A) (m : list B) : bool :=
  match l, m with
  | [], [] => true
  | x :: l', y :: m' => f x y && all2 f l' m'
  | _, _ => false
  end.

Definition check_model_decl (c : decl_case) : bool :=
  let '(uc, E, mros, ops, ans, ips) := c in
  env_ok E
  && list_eqb (option_eqb lnat_eqb) (model_mros E) (map Some mros)
  && llnat_eqb (renumber [] (trun uc E init [] ops)) ans
  && all2 ip_ok ans ips.

(* ---- the Spec oracle *)
Definition add_new (l acc : list nat) : list nat :=
  fold_left (fun a y => if mem y a then a else a ++ [y]) l acc.

Fixpoint iter {A} (n : nat) (f : A -> A) (x : A) : A :=
  match n with 0 => x | S k => iter k f (f x) end.

(* everything the interfaces of [l] are or extend, Interface included *)
Definition close_up (ig : graph) (l : list iface) : list iface :=
  iter (S (length ig)) (fun acc => add_new (flat_map (bases ig) acc) acc) (add_new l [iroot]).

(* per class: declared interfaces (a set), declared class specifications (a set) and whether the
   class still inherits *)
Definition sdecl := list (list iface * list cls * bool).
Definition sd_get (d : sdecl) (c : cls) : list iface * list cls * bool := nth c d ([], [], true).
Fixpoint sd_set (d : sdecl) (c : cls) (x : list iface * list cls * bool) : sdecl :=
  match d, c with
  | [], _ => []
  | _ :: t, 0 => x :: t
  | y :: t, S k => y :: sd_set t k x
  end.

(* content of every class, filled in class order (bases come first) *)
Definition contents (E : env) (d : sdecl) : list (list iface) :=
  fold_left (fun tbl c =>
               let '(decl, specs, inh) := sd_get d c in
               tbl ++ [add_new (flat_map (fun b => nth b tbl []) (specs ++ if inh then bases (e_cg E) c else []))
                               (close_up (e_ig E) decl)])
            (seq 0 (length (e_cg E))) [].

(* the classes whose specification is part of the specification of every class (same fill) *)
Definition spec_members (E : env) (d : sdecl) : list (list cls) :=
  fold_left (fun tbl c =>
               let '(_, specs, inh) := sd_get d c in
               tbl ++ [add_new (flat_map (fun b => nth b tbl []) (specs ++ if inh then bases (e_cg E) c else [])) [c]])
            (seq 0 (length (e_cg E))) [].

Definition content (E : env) (d : sdecl) (c : cls) : list iface := nth c (contents E d) [].

(* classImplements* as documented: interfaces already implemented are not declared again;
   the *only* form replaces the declarations and stops inheriting *)
Definition s_add (E : env) (d : sdecl) (c : cls) (ifs : list iface) : sdecl :=
  let cur := content E d c in
  let '(decl, specs, inh) := sd_get d c in
  sd_set d c (add_new (filter (fun x => negb (mem x cur)) ifs) decl, specs, inh).

(* classImplements(c, implementedBy(b)): likewise for a class specification *)
Definition s_add_spec (E : env) (d : sdecl) (c b : cls) : sdecl :=
  let '(decl, specs, inh) := sd_get d c in
  if mem b (nth c (spec_members E d) []) then d else sd_set d c (decl, add_new [b] specs, inh).

(* the classes strictly after C in the reported MRO *)
Fixpoint after (C : cls) (mro : list cls) : list cls :=
  match mro with
  | [] => []
  | x :: t => if Nat.eqb x C then t else after C t
  end.

(* expected content of what an argument provides; None = the property does not say (no class
   follows C) *)
Definition expect_arg (E : env) (mros : list (list cls)) (d : sdecl) (a : arg) : option (list iface) :=
  match a with
  | AObj j => Some (sort_set (n_ifaces E)
                             (close_up (e_ig E) (obj_direct E j) ++ content E d (obj_cls E j)))
  | ASuper C j =>
      match after C (nth (obj_cls E j) mros []) with
      | [] => None
      | rest => Some (sort_set (n_ifaces E) (iroot :: flat_map (content E d) rest))
      end
  (* bound to the class T: the remainder of T's own MRO *)
  | ASuperC C T =>
      match after C (nth T mros []) with
      | [] => None
      | rest => Some (sort_set (n_ifaces E) (iroot :: flat_map (content E d) rest))
      end
  (* an unbound proxy stands for no object and provides nothing but Interface (queries are judged
     by [spec_unbound]; in an adaptation only adapters for Interface / None can apply) *)
  | AUnbound _ => Some [iroot]
  end.

(* what the factory must receive: the instance, or the class object a class-bound proxy stands for *)
Definition self_of (a : arg) : nat :=
  match a with AObj j => j | ASuper _ j => j | ASuperC _ T => cls_ident T | AUnbound _ => none_ident end.
Definition is_unbound (a : arg) : bool := match a with AUnbound _ => true | _ => false end.

(* an unbound proxy stands for no object: an exception, or a specification claiming nothing but
   Interface *)
Definition spec_unbound (ans : list nat) (ip : option (list nat)) : bool :=
  match ans with
  | [0] => true
  | 1 :: _ :: _ :: got =>
      forallb (Nat.eqb iroot) got && match ip with Some l => forallb (Nat.eqb iroot) l | None => true end
  | _ => false
  end.

Fixpoint all_some {A} (l : list (option A)) : option (list A) :=
  match l with
  | [] => Some []
  | None :: _ => None
  | Some a :: r => match all_some r with Some r' => Some (a :: r') | None => None end
  end.

Definition spec_query (E : env) (mros : list (list cls)) (d : sdecl) (a : arg) (implby : bool)
           (ans : list nat) (ip : option (list nat)) : bool :=
  match a, implby with
  | AObj _, true => true                       (* implementedBy(instance): not this property *)
  | AUnbound _, _ => spec_unbound ans ip
  | _, _ =>
      match expect_arg E mros d a with
      | None => true
      | Some want =>
          match ans with
          | 1 :: _ :: _ :: got =>
              lnat_eqb got want && match ip with Some l => lnat_eqb l want | None => true end
          | _ => false
          end
      end
  end.

Definition spec_adapt (E : env) (mros : list (list cls)) (d : sdecl) (regs : list registration)
           (args : list arg) (p : iface) (n : name) (ans : list nat) : bool :=
  match all_some (map (expect_arg E mros d) args) with
  | None => true
  | Some wants =>
      let ok r := Nat.eqb (r_name r) n && all2 (fun x w => mem x w) (r_req r) wants
                  && mem p (close_up (e_ig E) [r_prov r]) in
      let code := fold_left (fun c a => c * 10 + self_of a) args 0 in
      match filter ok regs with
      | [] => lnat_eqb ans [2]
      | cands => existsb (fun r => lnat_eqb ans [3; vid (r_val r) * 1000 + code]) cands
      end
  end.

Fixpoint spec_run (E : env) (mros : list (list cls)) (all : list top) (d : sdecl) (regs : list registration)
         (ops : list top) (ans : list (list nat)) (ips : list (option (list nat))) : bool :=
  match ops, ans, ips with
  | [], [], [] => true
  | THeld i :: ops', a :: ans', ip :: ips' =>
      (* the held specification of a proxy must show what the proxy would be told NOW *)
      match nth i all (THeld 0) with
      | TOp (OProvidedBy x) | TOp (OImplementedBy x) =>
          match x with
          | ASuper _ _ | ASuperC _ _ => spec_query E mros d x false a None
          | _ => true
          end
      | _ => true
      end && spec_run E mros all d regs ops' ans' ips'
  | TOp o :: ops', a :: ans', ip :: ips' =>
      match o with
      | OImplements c ifs => spec_run E mros all (s_add E d c ifs) regs ops' ans' ips'
      | OFirst c i => spec_run E mros all (s_add E d c [i]) regs ops' ans' ips'
      | OOnly c ifs => spec_run E mros all (sd_set d c (add_new ifs [], [], false)) regs ops' ans' ips'
      | OImplSpec c b => spec_run E mros all (s_add_spec E d c b) regs ops' ans' ips'
      | OProvidedBy x => spec_query E mros d x false a ip && spec_run E mros all d regs ops' ans' ips'
      | OImplementedBy x => spec_query E mros d x true a ip && spec_run E mros all d regs ops' ans' ips'
      | ORegister r => spec_run E mros all d (regs ++ [r]) ops' ans' ips'
      | OAdapt _ args p n => spec_adapt E mros d regs args p n a && spec_run E mros all d regs ops' ans' ips'
      end
  | _, _, _ => false
  end.

Definition check_spec_decl (c : decl_case) : bool :=
  let '(_, E, mros, ops, ans, ips) := c in
  Nat.eqb (length mros) (length (e_cg E))
  && spec_run E mros ops (map (fun _ => ([], [], true)) (e_cg E)) [] ops ans ips.

(* registry stream: whenever a factory ran (answer [1; r], r = factory * 1000 + one digit per
   object it received, see Tie.RegCommon.call) the digits are those of the UNDERLYING objects:
   a proxy is never handed to a factory.  Which factory is chosen among several applicable ones is
   C04's subject and judged there. *)
Definition digits (os : list obj) : nat := fold_left (fun c o => c * 10 + unwrap o mod 10) os 0.

Definition spec_reg_op (o : RegSys.rop) (a : list nat) : bool :=
  match o, a with
  | RegSys.QQueryAdapter _ ob _ _, [1; r] | RegSys.QAdapterHook _ ob _ _, [1; r] => Nat.eqb (r mod 1000) (digits [ob])
  | RegSys.QQueryMultiAdapter _ os _ _, [1; r] => Nat.eqb (r mod 1000) (digits os)
  | _, _ => true
  end.

Definition check_spec_reg (h : RegCommon.hist_case) : bool :=
  let '(_, _, ops, ans) := h in
  Nat.eqb (length ops) (length ans) && all2 spec_reg_op ops ans.

Definition check_model (c : case_t) : bool :=
  match c with CDecl d => check_model_decl d | CReg h => RegCommon.hist_check_model h end.

Definition check_spec (c : case_t) : bool :=
  match c with CDecl d => check_spec_decl d | CReg h => check_spec_reg h end.
