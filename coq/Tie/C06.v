(* Tie for C06.  A case is a registry history (Tie/RegCommon.hist_case) plus a flag:
     true  = registry stream   (AdapterRegistry / VerifyingAdapterRegistry driven directly);
     false = Components stream (zope.interface.registry.Components; component k is translated to
             registries 2k = adapters and 2k+1 = utilities; judged by check_spec only).
   check_model : Model/RegSys.v (the object of the theorems) gives the observed answers.
   check_spec  : an oracle for the property statement that shares nothing with the model's
                 invalidation machinery (no cached ``ro``, no caches, no sub-registry lists, no
                 generation snapshots): it replays the history keeping, per registry, only its
                 current __bases__ and its net registrations / subscriptions, and answers every
                 lookup-family query by the uncached computation over the storages of the registries
                 in the C3 order (Model.Ro.ro) of the CURRENT base graph, computed from scratch at
                 the moment of the query. *)
From Coq Require Import List Arith Bool.
Import ListNotations.
From ZI Require Export Tie.RegCommon.

Record oreg := mkO { o_bases : list nat; o_reg : reg }.
Definition ostate := list oreg.
Definition o_dummy : oreg := mkO [] empty_reg.
Definition oget (s : ostate) (r : nat) : oreg := nth r s o_dummy.
Fixpoint oset (s : ostate) (r : nat) (x : oreg) : ostate :=
  match s, r with
  | [], _ => []
  | _ :: s', 0 => x :: s'
  | y :: s', S r' => y :: oset s' r' x
  end.

Definition ograph (s : ostate) : graph := combine (seq 0 (length s)) (map o_bases s).

(* ro.ro(registry r) over the current base graph *)
Definition oorder (s : ostate) (r : nat) : list nat :=
  match Ro.ro false false (S (length s)) (ograph s) r with
  | ROk m _ => m
  | _ => [r]
  end.

Definition oregs (s : ostate) (r : nat) : list reg := map (fun i => o_reg (oget s i)) (oorder s r).

Definition omut (s : ostate) (r : nat) (f : reg -> reg) : ostate :=
  oset s r (mkO (o_bases (oget s r)) (f (o_reg (oget s r)))).

Section Oracle.
  Variable W : world.

  Definition ostep (s : ostate) (o : rop) : ostate * list nat :=
    let ul r := uncached_lookup W (oregs s r) in
    let ua r := uncached_lookupAll W (oregs s r) in
    let us r := uncached_subscriptions W (oregs s r) in
    match o with
    | ONewReg _ bs => (s ++ [mkO bs empty_reg], [])
    | OSetRegBases r bs => (oset s r (mkO bs (o_reg (oget s r))), [])
    | ORegister r req p n v => (omut s r (fun g => register W g req p n v), [])
    | OUnregister r req p n v => (omut s r (fun g => unregister W g req p n v), [])
    | OSubscribe r req p v => (omut s r (fun g => subscribe W g req p v), [])
    | OUnsubscribe r req p v => (omut s r (fun g => unsubscribe W g req p v), [])
    | ORebuild r => (omut s r (rebuild W), [])
    | QLookup r req p n => (s, enc_res_value (snd (lookup (ul r) empty_caches req p n)))
    | QLookup1 r req p n => (s, enc_res_value (snd (lookup1 (ul r) empty_caches req p n)))
    | QLookupAll r req p => (s, enc_pairs (ua r req p))
    | QNames r req p => (s, enc_names (map fst (ua r req p)))
    | QSubscriptions r req p => (s, map vid (us r req p))
    | QRegistered r req p n =>
        (s, match registered (o_reg (oget s r)) req p n with Some v => [vid v] | None => [] end)
    | QSubscribed r req p v => (s, [if subscribed (o_reg (oget s r)) req p v then 1 else 0])
    | QAllRegistrations r => (s, enc_allregs (allRegistrations (o_reg (oget s r))))
    | QAllSubscriptions r => (s, enc_allsubs (allSubscriptions (o_reg (oget s r))))
    | QQueryAdapter r ob p n | QAdapterHook r ob p n =>
        (s, enc_res_nat (snd (adapter_hook (ul r) call empty_caches p ob n)))
    | QQueryMultiAdapter r os p n =>
        (s, enc_res_nat (snd (queryMultiAdapter (ul r) call empty_caches os p n)))
    | QSubscribers r os p =>
        let a := snd (subscribers (us r) call empty_caches os p) in
        (s, fst a ++ [999999] ++ map vid (snd a))
    end.

  Fixpoint orun (s : ostate) (ops : list rop) : list (list nat) :=
    match ops with
    | [] => []
    | o :: ops' => let '(s', a) := ostep s o in a :: orun s' ops'
    end.
End Oracle.

Definition case_t := (bool * hist_case)%type.

Definition model_out (c : case_t) : list (list nat) := hist_model_out (snd c).

Definition check_model (c : case_t) : bool :=
  if fst c then hist_check_model (snd c) else true.

Definition spec_out (c : case_t) : list (list nat) :=
  let '(g, ifs, ops, _) := snd c in orun (mk_world g ifs) [] ops.

Definition check_spec (c : case_t) : bool :=
  let '(_, _, _, obs) := snd c in llnat_eqb (spec_out c) obs.
