(* Tie for C12: each case carries two operands and what the implementation answered for
   every operator in both directions, plus whether their hashes were equal.
   check_model : the model (Model/Order.v, the object of the theorems) gives the same answers.
   check_spec  : the implementation's answers satisfy the property's statement directly
                 (key order, hash consistency, reflection, None greatest) — the oracle used
                 to decide whether a disagreement is a violation. *)
From Coq Require Import List NArith Bool ZArith.
Import ListNotations.
From ZI Require Export Lib.Str Lib.Util Model.Order.

(* use_c, a, b, row(a OP b), row(b OP a), hash(a) == hash(b); rows ordered < <= > >= == != ;
   0 False, 1 True, 2 TypeError *)
Definition case_t := (bool * operand * operand * list N * list N * bool)%type.

Definition model_out (c : case_t) : list N * list N :=
  let '(uc, a, b, _, _, _) := c in (binop_row uc a b, binop_row uc b a).

Definition check_model (c : case_t) : bool :=
  let '(uc, a, b, rab, rba, _) := c in
  lN_eqb (binop_row uc a b) rab && lN_eqb (binop_row uc b a) rba.

Definition kind_is (k : okind) (a : operand) := okind_eqb (okind_of a) k.
Definition specb (a : operand) := kind_is KIface a || kind_is KImpl a.

Definition row_of_cmp (c : comparison) : list N :=
  map (fun o => if op_on o c then 1%N else 0%N) all_ops.

Definition neg_code (x : N) : N := match x with 0%N => 1%N | 1%N => 0%N | _ => x end.

Definition check_spec (c : case_t) : bool :=
  let '(_, a, b, rab, rba, heq) := c in
  let kc := key_cmp (okey a) (okey b) in
  let g := nthN in
  (* reflected comparisons agree *)
  (N.eqb (g rab 0) (g rba 2) && N.eqb (g rab 1) (g rba 3) && N.eqb (g rab 2) (g rba 0)
   && N.eqb (g rab 3) (g rba 1) && N.eqb (g rab 4) (g rba 4) && N.eqb (g rab 5) (g rba 5))
  (* != is the negation of == *)
  && N.eqb (g rab 5) (neg_code (g rab 4))
  && (if kind_is KIface a && kind_is KIface b then
        lN_eqb rab (row_of_cmp kc)
        && (if N.eqb (g rab 4) 1 then heq else true)
      else if specb a && specb b then
        (* ordering by key *)
        lN_eqb (firstn 4 rab) (firstn 4 (row_of_cmp kc))
        && (if kind_is KImpl a && kind_is KImpl b
            then N.eqb (g rab 4) (if same_obj a b then 1 else 0)%N
            else match kc with Eq => true | _ => N.eqb (g rab 4) 0 end)
      else if specb a && kind_is KNone b then
        lN_eqb rab [1;1;0;0;0;1]%N
      else if kind_is KNone a && specb b then
        lN_eqb rab [0;0;1;1;0;1]%N
      else true).
